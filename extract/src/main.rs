//! Translator: reads the structural facts the Lean model is parameterised by
//! (`Hannibal.Wiring`) off hannibal's source tree and writes
//! `Generated/Wiring.lean` (+ a JSON copy with source locations).
//!
//! Facts are located by item path (impl self type + fn name) and recognised by
//! token shape, never by line number. A shape that is not recognised yields
//! `unknown` in the JSON and a value in the Lean file that makes the
//! corresponding `WellWired` instance lemma fail.

use quote::ToTokens;
use std::{collections::BTreeMap, fs, path::Path};
use syn::{visit::Visit, ImplItem, Item};

#[derive(Default)]
struct Fns {
    /// (self type ident or trait-for-type key, fn name) -> (normalised body, file, line)
    map: BTreeMap<(String, String), (String, String, usize)>,
    structs: BTreeMap<String, (String, String, usize)>,
    /// free functions by name
    free: BTreeMap<String, (String, String, usize)>,
    /// (self type, fn name) -> normalised impl header (generics, self type with arguments, where clause)
    hdr: BTreeMap<(String, String), String>,
}

/// every token separated by one space, delimiters included (`f ( & x )`, `a :: b`, `x . y ( )`)
fn norm(ts: impl ToTokens) -> String {
    fn go(ts: proc_macro2::TokenStream, out: &mut Vec<String>) {
        use proc_macro2::{Delimiter, Spacing, TokenTree};
        let mut pending = String::new();
        for tt in ts {
            match tt {
                TokenTree::Punct(p) => {
                    pending.push(p.as_char());
                    if p.spacing() == Spacing::Alone {
                        out.push(std::mem::take(&mut pending));
                    }
                    continue;
                }
                other => {
                    if !pending.is_empty() {
                        out.push(std::mem::take(&mut pending));
                    }
                    match other {
                        TokenTree::Group(g) => {
                            let (a, b) = match g.delimiter() {
                                Delimiter::Parenthesis => ("(", ")"),
                                Delimiter::Brace => ("{", "}"),
                                Delimiter::Bracket => ("[", "]"),
                                Delimiter::None => ("", ""),
                            };
                            if !a.is_empty() {
                                out.push(a.to_string());
                            }
                            go(g.stream(), out);
                            if !b.is_empty() {
                                out.push(b.to_string());
                            }
                        }
                        TokenTree::Ident(i) => out.push(i.to_string()),
                        TokenTree::Literal(l) => out.push(l.to_string()),
                        TokenTree::Punct(_) => unreachable!(),
                    }
                }
            }
        }
        if !pending.is_empty() {
            out.push(pending);
        }
    }
    let mut out = vec![];
    go(ts.to_token_stream(), &mut out);
    out.join(" ")
}

fn type_key(t: &syn::Type) -> String {
    match t {
        syn::Type::Path(p) => p.path.segments.last().map(|s| s.ident.to_string()).unwrap_or_default(),
        syn::Type::Reference(r) => type_key(&r.elem),
        _ => norm(t),
    }
}

struct V<'a> {
    fns: &'a mut Fns,
    file: String,
}
impl<'a, 'ast> Visit<'ast> for V<'a> {
    fn visit_item(&mut self, it: &'ast Item) {
        match it {
            Item::Impl(im) => {
                let ty = type_key(&im.self_ty);
                let key = match &im.trait_ {
                    Some((_, path, _)) => {
                        let tr = path.segments.last().map(|s| s.ident.to_string()).unwrap_or_default();
                        // e.g. "From<&Addr>for WeakAddr", "RestartStrategy for RestartOnly"
                        let arg = norm(&path.segments.last().unwrap().arguments);
                        format!("{}{} for {}", tr, arg.replace(' ', ""), ty)
                    }
                    None => ty.clone(),
                };
                for ii in &im.items {
                    if let ImplItem::Fn(f) = ii {
                        let line = f.sig.ident.span().start().line;
                        let body = norm(&f.block);
                        let sig = norm(&f.sig);
                        self.fns.map.insert((key.clone(), f.sig.ident.to_string()), (format!("{} {}", sig, body), self.file.clone(), line));
                        let header = format!(
                            "impl {} {} {}",
                            norm(&im.generics.params),
                            norm(&im.self_ty),
                            im.generics.where_clause.as_ref().map(norm).unwrap_or_default()
                        );
                        self.fns.hdr.insert((key.clone(), f.sig.ident.to_string()), header);
                    }
                }
            }
            Item::Trait(tr) => {
                for ti in &tr.items {
                    if let syn::TraitItem::Fn(f) = ti {
                        if let Some(b) = &f.default {
                            let line = f.sig.ident.span().start().line;
                            self.fns.map.insert(
                                (format!("trait {}", tr.ident), f.sig.ident.to_string()),
                                (format!("{} {}", norm(&f.sig), norm(b)), self.file.clone(), line),
                            );
                            // header of a trait = its generics, supertraits and where-clause (C19 reads bounds off it)
                            let header = format!(
                                "trait {} : {} {}",
                                norm(&tr.generics.params),
                                norm(&tr.supertraits),
                                tr.generics.where_clause.as_ref().map(norm).unwrap_or_default()
                            );
                            self.fns.hdr.insert((format!("trait {}", tr.ident), f.sig.ident.to_string()), header);
                        }
                    }
                }
            }
            Item::Fn(f) => {
                let line = f.sig.ident.span().start().line;
                self.fns.free.insert(
                    f.sig.ident.to_string(),
                    (format!("{} {}", norm(&f.sig), norm(&f.block)), self.file.clone(), line),
                );
            }
            Item::Struct(s) => {
                let line = s.ident.span().start().line;
                self.fns.structs.insert(s.ident.to_string(), (norm(&s.fields), self.file.clone(), line));
            }
            Item::Mod(m) => {
                // skip test modules
                let is_test = m.attrs.iter().any(|a| norm(a).contains("cfg ( test )"));
                if !is_test {
                    syn::visit::visit_item_mod(self, m);
                }
                return;
            }
            _ => {}
        }
        syn::visit::visit_item(self, it);
    }
}

fn walk(dir: &Path, fns: &mut Fns) {
    let mut entries: Vec<_> = fs::read_dir(dir).unwrap().filter_map(|e| e.ok()).collect();
    entries.sort_by_key(|e| e.path());
    for e in entries {
        let p = e.path();
        if p.is_dir() {
            walk(&p, fns);
        } else if p.extension().map(|x| x == "rs").unwrap_or(false) {
            if p.file_name().map(|n| n == "verif.rs").unwrap_or(false) {
                continue;
            }
            let src = fs::read_to_string(&p).unwrap();
            match syn::parse_file(&src) {
                Ok(f) => {
                    let mut v = V { fns, file: p.display().to_string() };
                    v.visit_file(&f);
                }
                Err(e) => eprintln!("extract: cannot parse {}: {}", p.display(), e),
            }
        }
    }
}

struct Out {
    facts: Vec<(String, String, String)>, // name, value, where
}
impl Out {
    fn put(&mut self, name: &str, value: impl Into<String>, at: impl Into<String>) {
        self.facts.push((name.to_string(), value.into(), at.into()));
    }
    fn get(&self, name: &str) -> String {
        self.facts.iter().find(|f| f.0 == name).map(|f| f.1.clone()).unwrap_or("unknown".into())
    }
}

fn halves(tx: bool, force: bool) -> String {
    let mut v = vec![];
    if tx {
        v.push(".tx");
    }
    if force {
        v.push(".force");
    }
    format!("[{}]", v.join(", "))
}

/// identifiers of parameters whose type mentions `tyname`
fn params_of_type(sig_body: &str, tyname: &str) -> Vec<String> {
    // sig looks like: fn new < A > (tx : ChanTx < A > , force_tx : ForceChanTx < A > , id : ContextID) -> Self where ... { body }
    let mut out = vec![];
    if let Some(l) = sig_body.find('(') {
        let mut depth = 0;
        let mut end = l;
        for (i, c) in sig_body[l..].char_indices() {
            match c {
                '(' => depth += 1,
                ')' => {
                    depth -= 1;
                    if depth == 0 {
                        end = l + i;
                        break;
                    }
                }
                _ => {}
            }
        }
        let params = &sig_body[l + 1..end];
        // split on top-level commas
        let mut depth = 0;
        let mut cur = String::new();
        let mut parts = vec![];
        for c in params.chars() {
            match c {
                '<' | '(' => {
                    depth += 1;
                    cur.push(c)
                }
                '>' | ')' => {
                    depth -= 1;
                    cur.push(c)
                }
                ',' if depth == 0 => {
                    parts.push(cur.clone());
                    cur.clear()
                }
                _ => cur.push(c),
            }
        }
        if !cur.trim().is_empty() {
            parts.push(cur);
        }
        for p in parts {
            if let Some((name, ty)) = p.split_once(':') {
                let tyt: Vec<&str> = ty.split_whitespace().collect();
                if tyt.first().map(|t| *t == tyname).unwrap_or(false) {
                    out.push(name.trim().trim_start_matches("mut ").to_string());
                }
            }
        }
    }
    out
}

/// is identifier `id` used (as a value) inside some `move` closure of `body`
/// in a way that keeps it alive (anything except only `Arc :: downgrade (& id)`)?
fn captured_strongly(body: &str, id: &str) -> bool {
    let toks: Vec<&str> = body.split_whitespace().collect();
    let mut i = 0;
    let mut in_move = 0usize; // crude: after the first `move |`, everything counts
    while i < toks.len() {
        if toks[i] == "move" {
            in_move += 1;
        }
        if in_move > 0 && toks[i] == id {
            let prev = if i >= 1 { toks[i - 1] } else { "" };
            let prev2 = if i >= 2 { toks[i - 2] } else { "" };
            let next = toks.get(i + 1).copied().unwrap_or("");
            let declared = prev == "let" || next == ":" || prev == "|" && next == "|";
            let downgrade = prev == "&" && prev2 == "(" && i >= 3 && toks[i - 3] == "downgrade";
            // `let _ = id ;` is not a use (precise closure captures): it does not capture `id`
            let wildcard = prev == "=" && prev2 == "_" && i >= 3 && toks[i - 3] == "let" && next == ";";
            if !declared && !downgrade && !wildcard {
                return true;
            }
        }
        i += 1;
    }
    false
}

/// the initializer text of `let <name> = ... ;` (up to the bracket matching the first one after `=`)
fn init_of(body: &str, name: &str) -> Option<String> {
    let start = body.find(&format!("let {} =", name))?;
    let rest = &body[start..];
    let toks: Vec<&str> = rest.split(' ').collect();
    let mut depth = 0i32;
    let mut seen = false;
    let mut n = toks.len();
    for (i, t) in toks.iter().enumerate() {
        match *t {
            "(" | "{" | "[" => {
                depth += 1;
                seen = true
            }
            ")" | "}" | "]" => {
                depth -= 1;
                if seen && depth == 0 {
                    n = i + 1;
                    break;
                }
            }
            _ => {}
        }
    }
    Some(toks[..n].join(" "))
}

/// is `id` captured by one of the long-lived closures stored in the handle (their `let` initializers)?
fn held_by_stored_closures(body: &str, id: &str, closures: &[&str]) -> bool {
    closures.iter().any(|c| init_of(body, c).map(|init| captured_strongly(&init, id)).unwrap_or(false))
}

fn which_ident_before(body: &str, anchor_let: &str, call: &str, cands: &[(&str, &str)]) -> Option<String> {
    // inside the initializer of `let <anchor_let> = ...;` find `<ident> . <call> (`
    let start = body.find(&format!("let {} =", anchor_let))?;
    let rest = &body[start..];
    // initializer = up to the `)` matching the first `(` after the `=`
    let toks: Vec<&str> = rest.split(' ').collect();
    let mut depth = 0i32;
    let mut seen = false;
    let mut n = toks.len();
    for (i, t) in toks.iter().enumerate() {
        match *t {
            "(" | "{" | "[" => {
                depth += 1;
                seen = true
            }
            ")" | "}" | "]" => {
                depth -= 1;
                if seen && depth == 0 {
                    n = i + 1;
                    break;
                }
            }
            _ => {}
        }
    }
    let init_s = toks[..n].join(" ");
    let init = init_s.as_str();
    for (id, val) in cands {
        if init.contains(&format!("{} . {} (", id, call)) {
            return Some(val.to_string());
        }
    }
    None
}

fn main() {
    let args: Vec<String> = std::env::args().collect();
    let src = args.get(1).map(String::as_str).unwrap_or("/repo/src");
    let lean_out = args.get(2).map(String::as_str).unwrap_or("Wiring.lean");
    let json_out = args.get(3).map(String::as_str).unwrap_or("wiring.json");
    let mut fns = Fns::default();
    walk(Path::new(src), &mut fns);
    if std::env::var("EXTRACT_DUMP").is_ok() {
        for (k, v) in &fns.map {
            println!("FN {:?} :: {}\n", k, v.0);
        }
        for (k, v) in &fns.structs {
            println!("STRUCT {} :: {}\n", k, v.0);
        }
    }
    let mut o = Out { facts: vec![] };
    let at = |k: &(String, String, usize)| format!("{}:{}", k.1, k.2);
    let f = |ty: &str, name: &str| fns.map.get(&(ty.to_string(), name.to_string()));

    // ---- holds
    match fns.structs.get("Addr") {
        Some(s) => o.put("holds.addr", halves(s.0.contains(": ChanTx <"), s.0.contains(": ForceChanTx <")), format!("{}:{}", s.1, s.2)),
        None => o.put("holds.addr", "unknown", ""),
    }
    match fns.structs.get("OwningAddr") {
        Some(s) if s.0.contains(": Addr <") => o.put("holds.owning", o.get("holds.addr"), format!("{}:{}", s.1, s.2)),
        _ => o.put("holds.owning", "unknown", ""),
    }
    for (kind, ty) in [("sender", "Sender"), ("caller", "Caller")] {
        match f(ty, "new") {
            Some(k) => {
                let txs = params_of_type(&k.0, "ChanTx");
                let fos = params_of_type(&k.0, "ForceChanTx");
                let stored = ["send_fn", "force_send_fn", "call_fn"];
                let tx = txs.iter().any(|id| held_by_stored_closures(&k.0, id, &stored));
                let fo = fos.iter().any(|id| held_by_stored_closures(&k.0, id, &stored));
                o.put(&format!("holds.{}", kind), halves(tx, fo), at(k));
            }
            None => o.put(&format!("holds.{}", kind), "unknown", ""),
        }
    }
    // ---- upgradeReq
    for (kind, ty) in [("weakSender", "WeakSender"), ("weakCaller", "WeakCaller")] {
        match f(ty, "from_weak_tx") {
            Some(k) => {
                let txs = params_of_type(&k.0, "WeakChanTx");
                let fos = params_of_type(&k.0, "WeakForceChanTx");
                let tx = txs.iter().any(|id| k.0.contains(&format!("{} . upgrade ( )", id)));
                let fo = fos.iter().any(|id| k.0.contains(&format!("{} . upgrade ( )", id)));
                o.put(&format!("upgradeReq.{}", kind), halves(tx, fo), at(k));
            }
            None => o.put(&format!("upgradeReq.{}", kind), "unknown", ""),
        }
    }
    match fns.map.iter().find(|(k, _)| k.0.starts_with("From<&Addr") && k.0.ends_with("for WeakAddr") && k.1 == "from") {
        Some((_, k)) => {
            // let weak_tx = Arc :: downgrade (& addr . payload_tx) ; ... weak_tx . upgrade ( )
            let mut tx = false;
            let mut fo = false;
            for (field, flag) in [("payload_tx", 0), ("payload_force_tx", 1)] {
                let pat = format!("= Arc :: downgrade ( & addr . {} )", field);
                if let Some(p) = k.0.find(&pat) {
                    let before = &k.0[..p];
                    let id = before.split_whitespace().last().unwrap_or("");
                    if k.0.contains(&format!("{} . upgrade ( )", id)) {
                        if flag == 0 {
                            tx = true
                        } else {
                            fo = true
                        }
                    }
                }
            }
            o.put("upgradeReq.weakAddr", halves(tx, fo), at(k));
        }
        None => o.put("upgradeReq.weakAddr", "unknown", ""),
    }
    // ---- ctx requirements
    for (name, fnname) in [("ctxStopReq", "stop"), ("ctxRestartReq", "restart"), ("ctxAddressReq", "address")] {
        match f("Context", fnname) {
            Some(k) => o.put(
                name,
                halves(k.0.contains("self . weak_tx . upgrade ( )"), k.0.contains("self . weak_force_tx . upgrade ( )")),
                at(k),
            ),
            None => o.put(name, "unknown", ""),
        }
    }
    // ---- paths
    let path_of = |body: &str| -> &'static str {
        let w = body.contains("self . payload_tx . send (") || body.contains("self . payload_tx . send (");
        let fo = body.contains("self . payload_force_tx . send (");
        match (w, fo) {
            (true, false) => ".waiting",
            (false, true) => ".forcing",
            _ => "unknown",
        }
    };
    for (name, fnname) in [("addrSend", "send"), ("addrCall", "call"), ("addrPing", "ping"), ("addrStop", "stop"), ("addrRestart", "restart")] {
        match f("Addr", fnname) {
            Some(k) => o.put(&format!("path.{}", name), path_of(&k.0), at(k)),
            None => o.put(&format!("path.{}", name), "unknown", ""),
        }
    }
    match (f("Sender", "new"), f("Sender", "send")) {
        (Some(k), Some(s)) if s.0.contains("self . send_fn . send (") => {
            let txs = params_of_type(&k.0, "ChanTx");
            let fos = params_of_type(&k.0, "ForceChanTx");
            let mut cands: Vec<(&str, &str)> = vec![];
            for t in &txs {
                cands.push((t.as_str(), ".waiting"));
            }
            for t in &fos {
                cands.push((t.as_str(), ".forcing"));
            }
            o.put("path.senderSend", which_ident_before(&k.0, "send_fn", "send", &cands).unwrap_or("unknown".into()), at(k));
        }
        _ => o.put("path.senderSend", "unknown", ""),
    }
    match (f("Caller", "new"), f("Caller", "call")) {
        (Some(k), Some(s)) if s.0.contains("self . call_fn . call (") => {
            let txs = params_of_type(&k.0, "ChanTx");
            let fos = params_of_type(&k.0, "ForceChanTx");
            let mut cands: Vec<(&str, &str)> = vec![];
            for t in &txs {
                cands.push((t.as_str(), ".waiting"));
            }
            for t in &fos {
                cands.push((t.as_str(), ".forcing"));
            }
            o.put("path.callerCall", which_ident_before(&k.0, "call_fn", "send", &cands).unwrap_or("unknown".into()), at(k));
        }
        _ => o.put("path.callerCall", "unknown", ""),
    }
    for (name, fnname) in [("ctxStop", "stop"), ("ctxRestart", "restart")] {
        match f("Context", fnname) {
            Some(k) => {
                let fo = k.0.contains("self . weak_force_tx . upgrade ( )") && k.0.contains("tx . send (");
                let w = k.0.contains("self . weak_tx . upgrade ( )");
                o.put(&format!("path.{}", name), if fo && !w { ".forcing" } else { "unknown" }, at(k));
            }
            None => o.put(&format!("path.{}", name), "unknown", ""),
        }
    }
    match f("Context", "send_to_children") {
        Some(k) => {
            let fo = k.0.contains("child . force_send (");
            let w = k.0.contains("child . send (");
            o.put("path.sendToChildren", match (w, fo) { (false, true) => ".forcing", (true, false) => ".waiting", _ => "unknown" }, at(k));
        }
        None => o.put("path.sendToChildren", "unknown", ""),
    }
    match fns.map.iter().find(|(k, _)| k.0.starts_with("Handler<Publish") && k.0.ends_with("for Broker") && k.1 == "handle") {
        Some((_, k)) => {
            let w = k.0.contains("subscriber . send (");
            let fo = k.0.contains("subscriber . force_send (");
            o.put("path.brokerFanout", match (w, fo) { (true, false) => ".waiting", (false, true) => ".forcing", _ => "unknown" }, at(k));
        }
        None => o.put("path.brokerFanout", "unknown", ""),
    }
    // ---- timers
    for (name, fnname) in [("interval", "interval"), ("intervalWith", "interval_with"), ("delayedSend", "delayed_send")] {
        match f("Context", fnname) {
            Some(k) => {
                let fo = k.0.contains(". try_force_send (");
                let w = k.0.contains(". try_send (");
                // sleep must come before the submission
                let sleep_first = match (k.0.find(":: sleep ("), k.0.find(". try_force_send (").or(k.0.find(". try_send ("))) {
                    (Some(a), Some(b)) => a < b,
                    _ => false,
                };
                let v = match (w, fo, sleep_first) {
                    (true, false, true) => ".waiting",
                    (false, true, true) => ".forcing",
                    _ => "unknown",
                };
                o.put(&format!("timerPath.{}", name), v, at(k));
            }
            None => o.put(&format!("timerPath.{}", name), "unknown", ""),
        }
    }
    // ---- refresh
    let mut stops_then_starts = true;
    let mut resets = true;
    let mut where_ = String::new();
    for strat in ["RestartOnly", "RecreateFromDefault"] {
        match fns.map.iter().find(|(k, _)| k.0.starts_with("RestartStrategy") && k.0.ends_with(&format!("for {}", strat)) && k.1 == "refresh") {
            Some((_, k)) => {
                let a = k.0.find(". stopped (");
                let b = k.0.find(". started (");
                stops_then_starts &= matches!((a, b), (Some(a), Some(b)) if a < b);
                resets &= k.0.contains("ctx . tasks") || k.0.contains("ctx . stop_tasks (") || k.0.contains("ctx . abort_tasks (");
                where_ = at(k);
            }
            None => {
                stops_then_starts = false;
                resets = false;
            }
        }
    }
    o.put("refreshStopsThenStarts", if stops_then_starts { "true" } else { "false" }, where_.clone());
    o.put("refreshResetsTimers", if resets { "true" } else { "false" }, where_);
    // ---- loop exits
    let mut notify_after = true;
    let mut where_ = String::new();
    for fnname in ["create_loop", "create_loop_on_stream"] {
        match f("Environment", fnname) {
            Some(k) => {
                let a = k.0.rfind("actor . stopped (");
                let b = k.0.rfind("self . stop . notify ( )");
                notify_after &= matches!((a, b), (Some(a), Some(b)) if a < b);
                where_ = at(k);
            }
            None => notify_after = false,
        }
    }
    o.put("notifyAfterStopped", if notify_after { "true" } else { "false" }, where_);
    match f("Environment", "create_loop_on_stream") {
        Some(k) => {
            let a = k.0.rfind("actor . finished (");
            let b = k.0.rfind("actor . stopped (");
            o.put("finishedBeforeStopped", if matches!((a, b), (Some(a), Some(b)) if a < b) { "true" } else { "false" }, at(k));
        }
        None => o.put("finishedBeforeStopped", "false", ""),
    }
    // ---- liveness queries
    // peekOnly : `self . running . peek ( ) . is_some ( )` (resp. is_none)
    // truthful : `[!] <path> latch_resolved ( & self . running )` where the free fn `latch_resolved`
    //            tests is_terminated ( ) || peek ( ) . is_some ( ) || clone ( ) . now_or_never ( ) . is_some ( )
    let helper_ok = fns.free.get("latch_resolved").map(|k| {
        let b = &k.0;
        b.contains("running . is_terminated ( ) ||") && b.contains("running . peek ( ) . is_some ( ) ||")
            && b.contains("running . clone ( ) . now_or_never ( ) . is_some ( )")
    }).unwrap_or(false);
    let classify = |body: &str, neg: bool| -> Option<bool> {
        let b = body.split('{').nth(1).unwrap_or("").trim().trim_end_matches('}').trim().to_string();
        if b == format!("self . running . peek ( ) . {} ( )", if neg { "is_none" } else { "is_some" }) {
            Some(true)
        } else if helper_ok
            && (b == format!("{}crate :: context :: latch_resolved ( & self . running )", if neg { "! " } else { "" }))
        {
            Some(false)
        } else {
            None
        }
    };
    let qs = [(f("Addr", "stopped"), false), (f("Addr", "running"), true), (f("WeakAddr", "stopped"), false)];
    let mut all_peek = true;
    let mut all_truth = true;
    let mut where_ = String::new();
    for (q, neg) in qs {
        match q {
            Some(k) => {
                where_ = at(k);
                match classify(&k.0, neg) {
                    Some(true) => all_truth = false,
                    Some(false) => all_peek = false,
                    None => {
                        all_peek = false;
                        all_truth = false
                    }
                }
            }
            None => {
                all_peek = false;
                all_truth = false
            }
        }
    }
    o.put("livenessQuery", if all_peek { ".peekOnly" } else if all_truth { ".truthful" } else { ".unknown" }, where_);
    match f("trait Service", "already_running") {
        Some(k) => {
            let v = if k.0.contains("map ( Addr :: running )") {
                "true"
            } else {
                "false"
            };
            o.put("alreadyRunningPolarity", v, at(k));
        }
        None => o.put("alreadyRunningPolarity", "false", ""),
    }

    // ---- C18: what each spawn entry point does with the ActorHandle
    let classify_disp = |body: &str| -> &'static str {
        let b = body;
        if b.contains("let _handle = ") || b.contains("let _ = P :: spawn_actor") || b.contains("let _ = S :: spawn_actor") {
            ".dropped"
        } else if b.contains(". detach ( )") {
            ".detached"
        } else if b.contains("OwningAddr :: new ( addr , handle )") || b.contains("OwningAddr { addr , handle }")
            || b.contains("( addr , handle ) }")
        {
            ".kept"
        } else {
            ".unknown"
        }
    };
    let entries: Vec<(&str, Option<&(String, String, usize)>)> = vec![
        ("spawn", f("trait Spawnable", "spawn")),
        ("spawnOwning", f("trait Spawnable", "spawn_owning")),
        ("spawnDefault", f("trait DefaultSpawnable", "spawn_default")),
        ("spawnOwningDefault", f("trait DefaultSpawnable", "spawn_owning")),
        ("spawnOnStream", f("trait StreamSpawnable", "spawn_on_stream")),
        ("spawnOwningOnStream", f("trait StreamSpawnable", "spawn_owning_on_stream")),
        ("builderSpawn", f("ActorBuilderWithChannel", "spawn")),
        ("builderSpawnOwning", f("ActorBuilderWithChannel", "spawn_owning")),
        ("streamBuilderSpawn", f("StreamActorBuilder", "spawn")),
        ("streamBuilderSpawnOwning", f("StreamActorBuilder", "spawn_owning")),
        ("fromRegistry", f("trait SpawnableService", "from_registry_and_spawn")),
        ("spawnWith", f("trait SpawnableWith", "spawn_with")),
    ];
    let mut spawn_lean = String::from("import Hannibal.Model.Spawn\n/- GENERATED by /verif/extract from /repo's working tree on every check run. Do not edit. -/\nnamespace Hannibal\n\ndef SpawnWiring.current : SpawnWiring where\n  disp := fun\n");
    for (name, k) in &entries {
        let v = match k {
            Some(k) => {
                let v = classify_disp(&k.0);
                o.put(&format!("spawnDisp.{}", name), v, at(k));
                v
            }
            None => {
                o.put(&format!("spawnDisp.{}", name), ".unknown", "");
                ".unknown"
            }
        };
        spawn_lean.push_str(&format!("    | .{} => {}\n", name, v));
    }
    // `register` = `self . spawn ( ) . register ( )` on the builder: inherits builderSpawn
    let reg = match f("ActorBuilderWithChannel", "register") {
        Some(k) if k.0.contains("self . spawn ( ) . register ( )") => {
            let v = o.get("spawnDisp.builderSpawn");
            o.put("spawnDisp.register", v.clone(), at(k));
            v
        }
        _ => {
            o.put("spawnDisp.register", ".unknown", "");
            ".unknown".to_string()
        }
    };
    spawn_lean.push_str(&format!("    | .register => {}\n", reg));
    // does dropping an ActorHandle detach?  (`impl Drop for ActorHandle` running the detach closure)
    let hdd = match fns.map.iter().find(|(k, _)| k.0.starts_with("Drop") && k.0.ends_with("for ActorHandle") && k.1 == "drop") {
        Some((_, k)) if k.0.contains("detach_fn") => {
            o.put("handleDropDetaches", "true", at(k));
            "true"
        }
        _ => {
            o.put("handleDropDetaches", "false", "");
            "false"
        }
    };
    spawn_lean.push_str(&format!("  handleDropDetaches := {}\n", hdd));
    // per runtime: does the spawner install a detach closure, and is the runtime's task handle wrapped in a
    // guard whose `Drop` detaches the task?  (what `Model/Spawn.lean` needs to know about *_spawner.rs)
    let rts = [("tokio", "TokioSpawner", "tokio :: spawn ( future )"),
               ("asyncStd", "AsyncStdSpawner", "async_std :: task :: spawn ( future )"),
               ("smol", "SmolSpawner", "smol :: spawn ( future )")];
    let mut det = String::from("  detachFn := fun\n");
    let mut grd = String::from("  taskGuarded := fun\n");
    let mut lazy_ok = true;
    for (rt, sp, spawn_expr) in rts {
        let key = format!("Spawner<A> for {}", sp);
        let (b, w) = match f(&key, "spawn_actor") {
            Some(k) => (k.0.clone(), at(k)),
            None => (String::new(), String::new()),
        };
        let b = b.replace(" , )", " )");
        let d = b.contains("with_detach_fn") || b.is_empty();
        // a guard type `X` with `impl Drop for X { .. . detach ( ) .. }` wrapped directly around the spawned task,
        // which the join future never moves out of the guard
        let guarded = fns.map.iter().any(|(k, v)| {
            k.1 == "drop" && k.0.starts_with("Drop for ") && v.0.contains(". detach ( )") && !v.0.contains("detach_fn") && {
                let ty = k.0.trim_start_matches("Drop for ").split('<').next().unwrap_or("").trim().to_string();
                !ty.is_empty()
                    && b.contains(&format!("{} ( Some ( {} ) )", ty, spawn_expr))
                    && !b.contains(". 0 . take ( )")
                    && !b.contains("mem :: forget")
            }
        });
        // the shape every spawner shares: the task handle sits in a shared slot, the join future is lazy and takes
        // it out of the slot when it is first polled
        let lazy = b.contains("Arc :: new ( async_lock :: Mutex :: new ( Some (")
            && b.contains(spawn_expr)
            && b.matches(spawn_expr).count() == 1
            && b.contains("ActorHandle :: new ( move | | -> JoinFuture < A > {")
            && b.contains("Box :: pin ( async move {")
            && b.contains("= handle . lock ( ) . await . take ( ) ;");
        lazy_ok &= lazy;
        o.put(&format!("spawner.{}.detachFn", rt), if d { "true" } else { "false" }, w.clone());
        o.put(&format!("spawner.{}.taskGuarded", rt), if guarded { "true" } else { "false" }, w.clone());
        o.put(&format!("spawner.{}.lazySharedSlot", rt), if lazy { "true" } else { "false" }, w);
        det.push_str(&format!("    | .{} => {}\n", rt, d));
        grd.push_str(&format!("    | .{} => {}\n", rt, guarded));
    }
    spawn_lean.push_str(&det);
    spawn_lean.push_str(&grd);
    // `ActorHandle::join` only calls the join closure, `detach` only runs the detach closure
    let join_plain = f("ActorHandle", "join").map(|k| k.0.ends_with("{ ( self . join_fn ) ( ) }")).unwrap_or(false)
        && f("ActorHandle", "detach")
            .map(|k| k.0.ends_with("{ if let Some ( detach_fn ) = self . detach_fn . take ( ) { detach_fn ( ) ; } }"))
            .unwrap_or(false);
    o.put("actorHandle.joinDetachPlain", if join_plain { "true" } else { "false" }, f("ActorHandle", "join").map(|k| at(k)).unwrap_or_default());
    spawn_lean.push_str(&format!("  lazySharedSlot := {}\n  joinDetachPlain := {}\n\nend Hannibal\n", lazy_ok, join_plain));
    if let Some(dir) = Path::new(lean_out).parent() {
        let sp = dir.join("SpawnWiring.lean");
        let old = fs::read_to_string(&sp).unwrap_or_default();
        if old != spawn_lean {
            fs::write(&sp, &spawn_lean).unwrap();
        }
    }

    // ---- C19: trait bounds of the public entry points
    let entry_fns: Vec<(&str, &str, &str)> = vec![
        ("addrSend", "Addr", "send"), ("addrCall", "Addr", "call"), ("addrSender", "Addr", "sender"),
        ("addrWeakSender", "Addr", "weak_sender"), ("addrCaller", "Addr", "caller"),
        ("addrWeakCaller", "Addr", "weak_caller"), ("owningSend", "OwningAddr", "send"),
        ("owningCall", "OwningAddr", "call"), ("ctxWeakSender", "Context", "weak_sender"),
        ("ctxWeakCaller", "Context", "weak_caller"), ("ctxInterval", "Context", "interval"),
        ("ctxIntervalWith", "Context", "interval_with"), ("ctxDelayedSend", "Context", "delayed_send"),
        ("ctxRegisterChild", "Context", "register_child"), ("ctxSendToChildren", "Context", "send_to_children"),
        ("ctxSubscribe", "Context", "subscribe"), ("ctxPublish", "Context", "publish"),
        ("brokerPublish", "Broker", "publish"), ("brokerSubscribe", "Broker", "subscribe"),
        ("addrRestart", "Addr", "restart"), ("ctxRestart", "Context", "restart"),
        ("withStream", "ActorBuilderWithChannel", "with_stream"),
        ("recreateFromDefault", "ActorBuilderWithChannel", "recreate_from_default"),
        ("builderOnStream", "BaseActorBuilder", "on_stream"), ("builderBoundedOnStream", "BaseActorBuilder", "bounded_on_stream"),
        ("brokerTryPublish", "Broker", "try_publish"),
        // `impl<T: ..> Addr<Broker<T>>` is keyed by the outer type; `Addr` has no other publish / subscribe / unsubscribe
        ("brokerAddrPublish", "Addr", "publish"), ("brokerAddrSubscribe", "Addr", "subscribe"),
        ("brokerAddrUnsubscribe", "Addr", "unsubscribe"),
        ("spawnOnStream", "trait StreamSpawnable", "spawn_on_stream"),
        ("spawnOwningOnStream", "trait StreamSpawnable", "spawn_owning_on_stream"),
    ];
    let mut bounds_lean = String::from("import Hannibal.Model.Types\n/- GENERATED by /verif/extract from /repo's working tree on every check run. Do not edit. -/\nnamespace Hannibal\n\ndef Bounds.current : ApiEntry → List Bound\n");
    for (name, ty, fnn) in &entry_fns {
        let key = (ty.to_string(), fnn.to_string());
        let mut bs: Vec<&str> = vec![];
        if let (Some(k), Some(h)) = (fns.map.get(&key), fns.hdr.get(&key)) {
            // signature = text up to the body's opening brace
            let sig = k.0.split(" { ").next().unwrap_or("");
            let text = format!("{} {}", h, sig);
            if text.contains("A : Handler < M >") || text.contains("+ Handler < M >") {
                bs.push(".handler");
            }
            if text.contains("Message < Response = ( ) >") {
                bs.push(".unitResponse");
            }
            if text.contains("A : RestartableActor") {
                bs.push(".restartable");
            }
            if text.contains("+ Default") || text.contains("A : Default") {
                bs.push(".default");
            }
            if text.contains("A : StreamHandler < S :: Item >")
                || (h.starts_with("trait ") && (h.contains("+ StreamHandler < T :: Item >") || h.contains("Self : StreamHandler < T :: Item >")))
            {
                bs.push(".streamHandler");
            }
            // the broker's `Addr` methods must really sit on `Addr<Broker<T>>` (and not on a blanket `Addr<A>`)
            if name.starts_with("brokerAddr") && !h.contains("Addr < Broker < T > >") {
                bs.clear();
            }
            if h.contains("ActorBuilderWithChannel < A , P , NonRestartable >") {
                bs.push(".nonRestartableState");
            }
            o.put(&format!("bounds.{}", name), format!("[{}]", bs.join(", ")), at(k));
        } else {
            o.put(&format!("bounds.{}", name), "unknown", "");
        }
        bounds_lean.push_str(&format!("  | .{} => [{}]\n", name, bs.join(", ")));
    }
    bounds_lean.push_str("\nend Hannibal\n");
    if let Some(dir) = Path::new(lean_out).parent() {
        let sp = dir.join("Bounds.lean");
        let old = fs::read_to_string(&sp).unwrap_or_default();
        if old != bounds_lean {
            fs::write(&sp, &bounds_lean).unwrap();
        }
    }

    // ---- emit Lean
    let g = |n: &str| o.get(n);
    let lv = |n: &str, dflt: &str| {
        let v = g(n);
        if v == "unknown" { dflt.to_string() } else { v }
    };
    let unknowns: Vec<String> = o.facts.iter().filter(|f| f.1 == "unknown" || f.1 == ".unknown").map(|f| f.0.clone()).collect();
    // an unknown path is rendered as the value that makes the WellWired lemmas fail
    let mut lean = String::new();
    lean.push_str("import Hannibal.Model.Basic\n/- GENERATED by /verif/extract from /repo's working tree on every check run. Do not edit. -/\nnamespace Hannibal\n\n");
    lean.push_str("def Wiring.current : Wiring where\n");
    lean.push_str(&format!(
        "  holds := fun\n    | .addr => {}\n    | .owning => {}\n    | .sender => {}\n    | .caller => {}\n    | _ => []\n",
        lv("holds.addr", "[]"), lv("holds.owning", "[]"), lv("holds.sender", "[]"), lv("holds.caller", "[]")
    ));
    lean.push_str(&format!(
        "  upgradeReq := fun\n    | .weakAddr => {}\n    | .weakSender => {}\n    | .weakCaller => {}\n    | _ => []\n",
        lv("upgradeReq.weakAddr", "[]"), lv("upgradeReq.weakSender", "[]"), lv("upgradeReq.weakCaller", "[]")
    ));
    lean.push_str(&format!("  ctxStopReq := {}\n  ctxRestartReq := {}\n  ctxAddressReq := {}\n", lv("ctxStopReq", "[]"), lv("ctxRestartReq", "[]"), lv("ctxAddressReq", "[]")));
    // unknown waiting-path facts default to forcing and vice versa, so that WellWired fails
    lean.push_str(&format!(
        "  path := fun\n    | .addrSend => {}\n    | .senderSend => {}\n    | .callerCall => {}\n    | .addrCall => {}\n    | .addrPing => {}\n    | .addrStop => {}\n    | .addrRestart => {}\n    | .ctxStop => {}\n    | .ctxRestart => {}\n    | .sendToChildren => {}\n    | .brokerFanout => {}\n",
        lv("path.addrSend", ".forcing"), lv("path.senderSend", ".forcing"), lv("path.callerCall", ".forcing"),
        lv("path.addrCall", ".waiting"), lv("path.addrPing", ".waiting"), lv("path.addrStop", ".waiting"),
        lv("path.addrRestart", ".waiting"), lv("path.ctxStop", ".waiting"), lv("path.ctxRestart", ".waiting"),
        lv("path.sendToChildren", ".waiting"), lv("path.brokerFanout", ".forcing")
    ));
    lean.push_str(&format!(
        "  timerPath := fun\n    | .interval => {}\n    | .intervalWith => {}\n    | .delayedSend => {}\n    | .delayedExec => .waiting\n",
        lv("timerPath.interval", ".waiting"), lv("timerPath.intervalWith", ".forcing"), lv("timerPath.delayedSend", ".forcing")
    ));
    lean.push_str(&format!("  refreshStopsThenStarts := {}\n  refreshResetsTimers := {}\n  notifyAfterStopped := {}\n  finishedBeforeStopped := {}\n", g("refreshStopsThenStarts"), g("refreshResetsTimers"), g("notifyAfterStopped"), g("finishedBeforeStopped")));
    lean.push_str(&format!("  livenessQuery := {}\n  alreadyRunningPolarity := {}\n", g("livenessQuery"), g("alreadyRunningPolarity")));
    lean.push_str(&format!("\n/-- facts the translator could not recognise (must be empty for the WellWired lemmas to be meaningful) -/\ndef Wiring.unknownFacts : List String := [{}]\n", unknowns.iter().map(|u| format!("\"{}\"", u)).collect::<Vec<_>>().join(", ")));
    lean.push_str("\nend Hannibal\n");
    // only rewrite when changed (keeps lake's cache warm)
    let old = fs::read_to_string(lean_out).unwrap_or_default();
    if old != lean {
        fs::write(lean_out, &lean).unwrap();
    }

    // ---- facts about the registry, the children map and the broker (Generated/SysFacts.lean): the assumptions
    //      under which Model/Registry.lean, Model/Sys.lean and Model/Broker.lean describe the code
    let body = |ty: &str, name: &str| f(ty, name).map(|k| k.0.clone()).unwrap_or_default();
    let loc = |ty: &str, name: &str| f(ty, name).map(|k| at(k)).unwrap_or_default();
    let before = |b: &str, x: &str, y: &str| match (b.find(x), b.find(y)) {
        (Some(i), Some(j)) => i < j,
        _ => false,
    };
    let mut sys: Vec<(&str, bool, String)> = vec![];
    {
        let mut ok = true;
        let mut n = 0;
        for tr in ["trait SpawnableService", "trait Service"] {
            let b = body(tr, "from_registry_and_spawn");
            if b.is_empty() {
                continue;
            }
            n += 1;
            ok &= before(&b, "let mut registry = REGISTRY . write ( ) . await ;", "registry . get_mut ( & key )")
                && before(&b, "registry . get_mut ( & key )", "registry . insert ( key , Box :: new ( addr . clone ( ) ) )")
                && b.contains(". filter ( Addr :: running )")
                && !b.contains("REGISTRY . read")
                && !b.contains("try_read")
                && !b.contains("or_insert")
                && b.matches("REGISTRY . write").count() == 1;
        }
        sys.push(("lookupOrSpawnUnderOneWriteLock", ok && n > 0, loc("trait SpawnableService", "from_registry_and_spawn")));
    }
    {
        let r = body("Addr", "register");
        let ok = before(&r, "let mut registry = REGISTRY . write ( ) . await ;", "registry . get ( & key )")
            && r.contains(". is_some_and ( Addr :: stopped )")
            && r.contains("return Err ( crate :: error :: ActorError :: ServiceStillRunning )")
            && r.matches("registry . insert ( key , Box :: new ( self . clone ( ) ) )").count() == 2
            && r.contains("Ok ( ( self , replaced ) )");
        sys.push(("registerReplacesOnlyStopped", ok, loc("Addr", "register")));
        let rp = body("Addr", "replace");
        let ur = body("Addr", "unregister");
        let ok2 = before(&rp, "REGISTRY . write ( ) . await", "registry . insert ( key , Box :: new ( self . clone ( ) ) )")
            && before(&ur, "REGISTRY . write ( ) . await", "registry . remove ( & key )");
        sys.push(("replaceUnregisterReturnPrevious", ok2, loc("Addr", "replace")));
        let tf = body("trait Service", "try_from_registry");
        let ok3 = tf.contains("REGISTRY . try_read ( ) ?") && tf.contains(". filter ( | addr | addr . running ( ) )") && tf.contains(". cloned ( )");
        sys.push(("tryFromRegistryOnlyRunning", ok3, loc("trait Service", "try_from_registry")));
        let ar = body("trait Service", "already_running");
        let ok4 = ar.contains("REGISTRY . read ( ) . await") && ar.contains(". map ( Addr :: running )") && !ar.contains("Addr :: stopped");
        sys.push(("alreadyRunningReportsRunning", ok4, loc("trait Service", "already_running")));
    }
    {
        let a = body("Context", "add_child");
        let r = body("Context", "register_child");
        let push = ". or_default ( ) . push ( Box :: new ( child . into ( ) ) )";
        // ... each under the key of the message type it is registered for (`add_child`: the unit type), which is the
        // key `send_to_children::<M>` looks up
        let keyed = a.contains(". entry ( TypeId :: of :: < ( ) > ( ) )")
            && r.contains(". entry ( TypeId :: of :: < M > ( ) )")
            && body("Context", "send_to_children").contains("let key = TypeId :: of :: < M > ( ) ;");
        let ok = keyed && a.contains("child : impl Into < Sender < ( ) > >") && a.contains(push)
            && r.contains("child : impl Into < Sender < M > >") && r.contains(push)
            && fns.structs.get("Context").map(|s| s.0.contains("children : HashMap < TypeId , Vec < AnyBox > >")).unwrap_or(false);
        sys.push(("childrenAreStrongSendersInContext", ok, loc("Context", "register_child")));
        // nothing but add_child / register_child / send_to_children touches the map (it goes away with the context)
        let touching: Vec<&(String, String)> = fns
            .map
            .iter()
            .filter(|(k, v)| k.0 == "Context" && v.0.contains("children"))
            .map(|(k, _)| k)
            .collect();
        let ok2 = touching.len() == 3 && touching.iter().all(|k| ["add_child", "register_child", "send_to_children"].contains(&k.1.as_str()));
        sys.push(("childrenDroppedOnlyWithContext", ok2, loc("Context", "add_child")));
        let b = body("Context", "send_to_children");
        let ok3 = b.contains("if let Some ( children ) = self . children . get ( & key )")
            && b.contains("for child in children . iter ( ) . filter_map ( | child | child . downcast_ref :: < Sender < M > > ( ) ) { if let Err ( error ) = child . force_send ( message . clone ( ) ) { log :: error !")
            && !b.contains("try_for_each")
            && !b.contains("break")
            && !b.contains("return");
        sys.push(("broadcastToEveryRegisteredChild", ok3, loc("Context", "send_to_children")));
    }
    {
        let st = fns.structs.get("Broker").map(|s| s.0.clone()).unwrap_or_default();
        let sub = body("Handler<Subscribe<T>> for Broker", "handle");
        let uns = body("Handler<Unsubscribe<T>> for Broker", "handle");
        let ok = st.contains("subscribers : HashMap < ContextID , WeakSender < T > >")
            && sub.contains("self . subscribers . insert ( sender . id , sender ) ;")
            && uns.contains("self . subscribers . remove ( & sender . id ) ;");
        sys.push(("brokerTableWeakKeyedBySubscriber", ok, loc("Handler<Subscribe<T>> for Broker", "handle")));
        let p = body("Handler<Publish<T>> for Broker", "handle");
        let ok2 = before(&p, "self . subscribers . values ( ) . filter_map ( WeakSender :: upgrade ) . collect", "for subscriber in & live_subscribers")
            && p.contains("for subscriber in & live_subscribers { if let Err ( _error ) = subscriber . send ( msg . 0 . clone ( ) ) . await { } }")
            && !p.contains("join_all")
            && !p.contains("spawn")
            && !p.contains("break")
            && !p.contains("return");
        sys.push(("brokerFanoutSequentialIgnoringErrors", ok2, loc("Handler<Publish<T>> for Broker", "handle")));
        let ok3 = body("Broker", "publish").contains("{ Self :: from_registry ( ) . await . publish ( topic ) . await }")
            && body("Broker", "subscribe").contains("{ Self :: from_registry ( ) . await . subscribe ( sender ) . await }")
            && body("Addr", "publish").contains("self . send ( Publish ( msg ) ) . await")
            && body("Addr", "subscribe").contains("self . send ( Subscribe ( sender ) ) . await")
            && body("Addr", "unsubscribe").contains("self . send ( Unsubscribe ( sender ) ) . await")
            && body("Context", "publish").contains("crate :: Broker :: publish ( message ) . await")
            && body("Context", "subscribe").contains("crate :: Broker :: subscribe ( self . weak_sender ( ) ) . await");
        sys.push(("brokerOpsAreSendsThroughTheRegistry", ok3, loc("Broker", "publish")));
    }
    {
        // the handler timeout: read from the configuration unchanged, raced against the payload future of a task
        // and against nothing else (not `started`, not `stopped`, not stream items), continue / fail as configured
        let cl = body("Environment", "create_loop");
        let cs = body("Environment", "create_loop_on_stream");
        let ok = cl.contains("let timeout = self . config . timeout ;")
            && cl.matches("timeout_fut (").count() == 1
            && cl.contains("if let Err ( err ) = timeout_fut ( f ( & mut actor , & mut self . ctx ) , timeout ) . await { if self . config . fail_on_timeout {")
            && cl.contains("return Err ( err ) ;")
            && cl.contains("actor . started ( & mut self . ctx ) . await ? ;")
            && cl.contains("actor . stopped ( & mut self . ctx ) . await ;")
            && !cs.contains("timeout_fut");
        // `timeout_fut` itself: every configured limit (zero included) arms a timer of exactly that length
        let tf = fns.free.get("timeout_fut").map(|k| k.0.clone()).unwrap_or_default();
        let ok = ok
            && tf.contains("if let Some ( timeout ) = timeout {")
            && tf.contains("futures_timer :: Delay :: new ( timeout )")
            && tf.matches("Delay :: new").count() == 1;
        sys.push(("timeoutGuardsTaskPayloadsOnly", ok, loc("Environment", "create_loop")));
    }
    for (n, v, w) in &sys {
        o.put(&format!("sys.{}", n), if *v { "true" } else { "false" }, w.clone());
    }
    {
        let mut l = String::from("import Hannibal.Model.SysFacts\n/- GENERATED by /verif/extract from /repo's working tree on every check run. Do not edit. -/\nnamespace Hannibal\n\ndef SysFacts.current : SysFacts where\n");
        for (n, v, _) in &sys {
            l.push_str(&format!("  {} := {}\n", n, v));
        }
        l.push_str("\nend Hannibal\n");
        let path = Path::new(lean_out).with_file_name("SysFacts.lean");
        let old = fs::read_to_string(&path).unwrap_or_default();
        if old != l {
            fs::write(&path, &l).unwrap();
        }
    }
    let mut json = String::from("{\n");
    for (i, (n, v, w)) in o.facts.iter().enumerate() {
        json.push_str(&format!("  \"{}\": {{\"value\": \"{}\", \"at\": \"{}\"}}{}\n", n, v, w, if i + 1 < o.facts.len() { "," } else { "" }));
    }
    json.push_str("}\n");
    fs::write(json_out, json).unwrap();
    if !unknowns.is_empty() {
        eprintln!("extract: unrecognised shapes: {:?}", unknowns);
    }
}
// debug helper
#[allow(dead_code)]
fn _unused() {}
