// USE name=bad_streamhandler_spawn_owning_on_stream entry=spawnOwningOnStream handles=1,2 restartable=0 default=1 streams= msg=1 unit=1 item=10 state=restartOnly
#![allow(unused, clippy::all)]
use hannibal::{prelude::*, Addr, Broker, Context, RestartableActor};
use std::time::Duration;

#[derive(Clone)] struct U; impl Message for U { type Response = (); }       // id 1, unit response
#[derive(Clone)] struct R; impl Message for R { type Response = u32; }      // id 2, non-unit response
#[derive(Clone)] struct N; impl Message for N { type Response = (); }       // id 3, handled by nobody

/// A1: Default, not restartable, handles U and R
#[derive(Default)] struct A1;
impl Actor for A1 {}
impl Handler<U> for A1 { async fn handle(&mut self, ctx: &mut Context<Self>, _: U) {  } }
impl Handler<R> for A1 { async fn handle(&mut self, _: &mut Context<Self>, _: R) -> u32 { 0 } }
/// A2: no Default, not restartable, StreamHandler<i32>
struct A2;
impl Actor for A2 {}
impl StreamHandler<i32> for A2 { async fn handle(&mut self, _: &mut Context<Self>, _: i32) {} }
/// A3: Default + RestartableActor, handles U
#[derive(Default)] struct A3;
impl Actor for A3 {}
impl RestartableActor for A3 {}
impl Handler<U> for A3 { async fn handle(&mut self, ctx: &mut Context<Self>, _: U) {  } }
/// A4: RestartableActor without Default, handles U
struct A4;
impl Actor for A4 {}
impl RestartableActor for A4 {}
impl Handler<U> for A4 { async fn handle(&mut self, _: &mut Context<Self>, _: U) {} }

async fn client(addr: Addr<A1>, mut addr3: Addr<A3>, mut addr1m: Addr<A1>, own: hannibal::OwningAddr<A1>) { let _ = A1.spawn_owning_on_stream(futures::stream::iter(0..3i32)); }
fn main() {}
