#!/usr/bin/env python3
"""Generates the C19 catalogue: one tiny client program per rule and entry point, ill-typed ones
paired with a well-typed twin.  The `// USE` line is the abstraction of the program that the Lean
model judges (entry point + profiles of the types involved)."""
import os
PRE = '''#![allow(unused, clippy::all)]
use hannibal::{prelude::*, Addr, Broker, Context, RestartableActor};
use std::time::Duration;

#[derive(Clone)] struct U; impl Message for U { type Response = (); }       // id 1, unit response
#[derive(Clone)] struct R; impl Message for R { type Response = u32; }      // id 2, non-unit response
#[derive(Clone)] struct N; impl Message for N { type Response = (); }       // id 3, handled by nobody

/// A1: Default, not restartable, handles U and R
#[derive(Default)] struct A1;
impl Actor for A1 {}
impl Handler<U> for A1 { async fn handle(&mut self, ctx: &mut Context<Self>, _: U) { CTX1 } }
impl Handler<R> for A1 { async fn handle(&mut self, _: &mut Context<Self>, _: R) -> u32 { 0 } }
/// A2: no Default, not restartable, StreamHandler<i32>
struct A2;
impl Actor for A2 {}
impl StreamHandler<i32> for A2 { async fn handle(&mut self, _: &mut Context<Self>, _: i32) {} }
/// A3: Default + RestartableActor, handles U
#[derive(Default)] struct A3;
impl Actor for A3 {}
impl RestartableActor for A3 {}
impl Handler<U> for A3 { async fn handle(&mut self, ctx: &mut Context<Self>, _: U) { CTX3 } }
/// A4: RestartableActor without Default, handles U
struct A4;
impl Actor for A4 {}
impl RestartableActor for A4 {}
impl Handler<U> for A4 { async fn handle(&mut self, _: &mut Context<Self>, _: U) {} }

async fn client(addr: Addr<A1>, mut addr3: Addr<A3>, mut addr1m: Addr<A1>, own: hannibal::OwningAddr<A1>) { CLIENT }
fn main() {}
'''
P = {"A1": "handles=1,2 restartable=0 default=1 streams=", "A2": "handles= restartable=0 default=0 streams=10",
     "A3": "handles=1 restartable=1 default=1 streams=", "A4": "handles=1 restartable=1 default=0 streams="}
M = {"U": "msg=1 unit=1", "R": "msg=2 unit=0", "N": "msg=3 unit=1"}
d = "Duration::from_millis(1)"
# (name, entry, actor, msg, state, where, code)
C = []
def add(name, entry, actor, msg, code, where="CLIENT", state="restartOnly", item=0):
    C.append((name, entry, actor, msg, state, item, where, code))
for m, tag in (("U", "ok"), ("N", "bad_handler"), ("R", "bad_unit")):
    add(f"{tag}_addr_send", "addrSend", "A1", m, f"let _ = addr.send({m}).await;")
    add(f"{tag}_owning_send", "owningSend", "A1", m, f"let _ = own.send({m}).await;")
    add(f"{tag}_addr_sender", "addrSender", "A1", m, f"let _ = addr.sender::<{m}>();")
    add(f"{tag}_addr_weak_sender", "addrWeakSender", "A1", m, f"let _ = addr.weak_sender::<{m}>();")
    add(f"{tag}_ctx_weak_sender", "ctxWeakSender", "A1", m, f"let _ = ctx.weak_sender::<{m}>();", "CTX1")
    add(f"{tag}_ctx_interval", "ctxInterval", "A1", m, f"ctx.interval({m}, {d});", "CTX1")
    add(f"{tag}_ctx_interval_with", "ctxIntervalWith", "A1", m, f"ctx.interval_with(|| {m}, {d});", "CTX1")
    add(f"{tag}_ctx_delayed_send", "ctxDelayedSend", "A1", m, f"ctx.delayed_send(|| {m}, {d});", "CTX1")
    add(f"{tag}_ctx_subscribe", "ctxSubscribe", "A1", m, f"let _ = ctx.subscribe::<{m}>().await;", "CTX1")
for m, tag in (("R", "ok"), ("N", "bad_handler")):
    add(f"{tag}_addr_call", "addrCall", "A1", m, f"let _ = addr.call({m}).await;")
    add(f"{tag}_owning_call", "owningCall", "A1", m, f"let _ = own.call({m}).await;")
    add(f"{tag}_addr_caller", "addrCaller", "A1", m, f"let _ = addr.caller::<{m}>();")
    add(f"{tag}_addr_weak_caller", "addrWeakCaller", "A1", m, f"let _ = addr.weak_caller::<{m}>();")
    add(f"{tag}_ctx_weak_caller", "ctxWeakCaller", "A1", m, f"let _ = ctx.weak_caller::<{m}, _>();", "CTX1")
for m, tag in (("U", "ok"), ("R", "bad_unit")):
    add(f"{tag}_ctx_register_child", "ctxRegisterChild", "A1", m, f"ctx.register_child::<{m}>(todo!() as Sender<{m}>);", "CTX1")
    add(f"{tag}_ctx_send_to_children", "ctxSendToChildren", "A1", m, f"ctx.send_to_children({m});", "CTX1")
    add(f"{tag}_ctx_publish", "ctxPublish", "A1", m, f"let _ = ctx.publish({m}).await;", "CTX1")
    add(f"{tag}_broker_publish", "brokerPublish", "A1", m, f"let _ = Broker::publish({m}).await;")
    add(f"{tag}_broker_subscribe", "brokerSubscribe", "A1", m, f"let _ = Broker::<{m}>::subscribe(todo!()).await;")
for m, tag in (("U", "ok"), ("R", "bad_unit")):
    add(f"{tag}_broker_try_publish", "brokerTryPublish", "A1", m, f"let _ = Broker::try_publish({m}).await;")
    add(f"{tag}_broker_addr_publish", "brokerAddrPublish", "A1", m, f"let b: Addr<Broker<{m}>> = todo!(); let _ = b.publish({m}).await;")
    add(f"{tag}_broker_addr_subscribe", "brokerAddrSubscribe", "A1", m, f"let b: Addr<Broker<{m}>> = todo!(); let _ = b.subscribe(todo!()).await;")
    add(f"{tag}_broker_addr_unsubscribe", "brokerAddrUnsubscribe", "A1", m, f"let b: Addr<Broker<{m}>> = todo!(); let _ = b.unsubscribe(todo!()).await;")
add("ok_addr_restart", "addrRestart", "A3", "U", "let _ = addr3.restart();")
add("bad_restartable_addr_restart", "addrRestart", "A1", "U", "let _ = addr1m.restart();")
add("ok_ctx_restart", "ctxRestart", "A3", "U", "let _ = ctx.restart();", "CTX3")
add("bad_restartable_ctx_restart", "ctxRestart", "A1", "U", "let _ = ctx.restart();", "CTX1")
st = "futures::stream::iter(0..3i32)"
add("ok_with_stream", "withStream", "A2", "U", f"let _ = hannibal::build(A2).unbounded().non_restartable().with_stream({st});", state="nonRestartable", item=10)
add("bad_state_with_stream", "withStream", "A2", "U", f"let _ = hannibal::build(A2).unbounded().with_stream({st});", state="restartOnly", item=10)
add("bad_state2_with_stream", "withStream", "A3", "U", f"let _ = hannibal::build(A3).unbounded().recreate_from_default().with_stream({st});", state="recreate", item=10)
add("bad_streamhandler_with_stream", "withStream", "A1", "U", f"let _ = hannibal::build(A1).unbounded().non_restartable().with_stream({st});", state="nonRestartable", item=10)
add("ok_builder_on_stream", "builderOnStream", "A2", "U", f"let _ = hannibal::build(A2).on_stream({st});", item=10)
add("bad_streamhandler_builder_on_stream", "builderOnStream", "A1", "U", f"let _ = hannibal::build(A1).on_stream({st});", item=10)
add("ok_builder_bounded_on_stream", "builderBoundedOnStream", "A2", "U", f"let _ = hannibal::build(A2).bounded_on_stream(1, {st});", item=10)
add("bad_streamhandler_builder_bounded_on_stream", "builderBoundedOnStream", "A1", "U", f"let _ = hannibal::build(A1).bounded_on_stream(1, {st});", item=10)
add("ok_spawn_on_stream", "spawnOnStream", "A2", "U", f"let _ = A2.spawn_on_stream({st});", item=10)
add("bad_streamhandler_spawn_on_stream", "spawnOnStream", "A1", "U", f"let _ = A1.spawn_on_stream({st});", item=10)
add("ok_spawn_owning_on_stream", "spawnOwningOnStream", "A2", "U", f"let _ = A2.spawn_owning_on_stream({st});", item=10)
add("bad_streamhandler_spawn_owning_on_stream", "spawnOwningOnStream", "A1", "U", f"let _ = A1.spawn_owning_on_stream({st});", item=10)
add("ok_recreate_from_default", "recreateFromDefault", "A3", "U", "let _ = hannibal::build(A3).unbounded().recreate_from_default();")
add("bad_default_recreate_from_default", "recreateFromDefault", "A4", "U", "let _ = hannibal::build(A4).unbounded().recreate_from_default();")
add("bad_restartable_recreate_from_default", "recreateFromDefault", "A1", "U", "let _ = hannibal::build(A1).unbounded().recreate_from_default();")

os.makedirs("src/bin", exist_ok=True)
for f in os.listdir("src/bin"):
    os.remove(os.path.join("src/bin", f))
for name, entry, actor, msg, state, item, where, code in C:
    src = PRE
    for slot in ("CLIENT", "CTX1", "CTX3"):
        src = src.replace(slot, code if slot == where else "")
    use = f"// USE name={name} entry={entry} {P[actor]} {M[msg]} item={item} state={state}\n"
    open(f"src/bin/{name}.rs", "w").write(use + src)
print(len(C), "programs")
