#!/bin/sh
# usage: tools/confirm_mutant.sh <worktree>   (expects <worktree>/_mutant/{patch.diff,mut_demo.rs})
# confirms: with the change the 41 lib tests pass and the demo FAILS; without it the demo PASSES
W="$1"; cd "$W" || exit 2
export CARGO_NET_OFFLINE=true CARGO_TARGET_DIR="$W/target"
git checkout -q -- src 2>/dev/null; git apply _mutant/patch.diff || { echo "CONFIRM: patch does not apply"; exit 2; }
mkdir -p tests; cp _mutant/mut_demo.rs tests/mut_demo.rs
LIB=$(cargo test --workspace --no-fail-fast --offline --lib 2>&1 | grep -E "^test result" | head -1)
WITH=$(cargo test --offline --test mut_demo 2>&1 | grep -E "^test result" | tail -1)
git checkout -q -- src
WITHOUT=$(cargo test --offline --test mut_demo 2>&1 | grep -E "^test result" | tail -1)
git apply _mutant/patch.diff
echo "CONFIRM lib-with-change: $LIB"
echo "CONFIRM demo-with-change: $WITH"
echo "CONFIRM demo-without-change: $WITHOUT"
