#!/bin/sh
# usage: tools/save_mutant.sh <worktree> <seeded-id> <property> "<needs>" "<caught-by>"
W="$1"; ID="$2"; P="$3"; NEEDS="$4"; CAUGHT="$5"
D=/verif/seeded/$ID; mkdir -p $D
cp $W/_mutant/patch.diff $D/patch.diff; cp $W/_mutant/mut_demo.rs $D/mut_demo.rs; cp $W/_mutant/README.md $D/README.agent.md
CONF=$(/verif/tools/confirm_mutant.sh $W 2>&1 | grep CONFIRM | sed 's/"/\\"/g' | tr '\n' ';')
python3 - "$D" "$P" "$NEEDS" "$CAUGHT" "$CONF" <<'PY'
import json,sys
d,p,needs,caught,conf=sys.argv[1:6]
json.dump({"property":p,"origin":"independent sub-agent, given only the property text and a scratch worktree",
 "needs_to_manifest":needs,"confirmed_by_me":conf,
 "what_i_ran":["tools/confirm_mutant.sh <worktree>  (41 lib tests pass with the change; demo fails with / passes without)",
               "tools/try_mutant.sh patch.diff <families>  (git -C /repo apply; rebuild harness; families under all monitors; git checkout -- .)"],
 "caught_by":caught,"base_commit":"hannibal 4b61c27+ (applies to /repo HEAD)"}, open(d+"/meta.json","w"), indent=1)
PY
echo saved $D
