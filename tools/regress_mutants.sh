#!/bin/sh
# usage: tools/regress_mutants.sh  - applies every saved seeded change to /repo in turn, runs the quick check of its
# property, undoes it, and writes one line per change to seeded/REGRESSION.txt (never commits evidence of these runs)
cd /verif
OUT=seeded/REGRESSION.txt
: > $OUT.tmp
for d in seeded/*/; do
  id=$(basename $d)
  [ -f $d/patch.diff ] || continue
  p=$(python3 -c "import json;print(json.load(open('$d/meta.json'))['property'])")
  if ! git -C /repo apply --check /verif/$d/patch.diff 2>/dev/null; then
    echo "$id $p SKIP patch-does-not-apply-to-HEAD" >> $OUT.tmp; continue
  fi
  r=$(tools/check_mutant.sh /verif/$d/patch.diff $p 2>&1 | grep -E "^(VIOLATION|OK)" | tail -1)
  echo "$id $p $r" >> $OUT.tmp
done
mv $OUT.tmp $OUT
echo DONE >> $OUT
