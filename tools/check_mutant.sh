#!/bin/sh
# usage: tools/check_mutant.sh <patch.diff> <PID> [tier]
# applies the patch to /repo, runs ./check PID, undoes the patch and restores the evidence file and the
# generated wiring of the clean tree (so that nothing produced on a mutated tree is ever committed)
PATCH="$1"; PID="$2"; TIER="${3:-quick}"
cd /verif
cp evidence/$PID.json /tmp/evidence-$PID.bak 2>/dev/null
git -C /repo apply "$PATCH" || { echo "patch does not apply"; exit 2; }
./check $PID $TIER 2>&1 | tail -2
git -C /repo checkout -- .
git -C /repo status --short | head -3
cp /tmp/evidence-$PID.bak evidence/$PID.json 2>/dev/null
.cache/extract-target/debug/extract /repo/src lean/Hannibal/Generated/Wiring.lean .cache/wiring.json >/dev/null 2>&1
(cd harness && CARGO_NET_OFFLINE=true cargo build 2>&1 | grep -E "^error" | head -3)
