#!/bin/sh
# usage: tools/try_mutant.sh <patch.diff> <family[,family...]> [cases]
# applies the patch to /repo, rebuilds the harness, runs the families under all monitors, undoes the patch
set -u
PATCH="$1"; FAMS="$2"; N="${3:-600}"
cd /repo && git apply "$PATCH" || { echo "patch does not apply"; exit 2; }
cd /verif/harness && CARGO_NET_OFFLINE=true cargo build 2>&1 | grep -E "^error" -A6
/verif/.cache/extract-target/debug/extract /repo/src /verif/lean/Hannibal/Generated/Wiring.lean /verif/.cache/wiring.json 2>&1 | tail -2
(cd /verif/lean && lake build hdriver 2>&1 | grep -E "error" | head -3)
for f in $(echo "$FAMS" | tr ',' ' '); do
  echo "== family $f"
  /verif/.cache/harness-target/debug/harness --family $f --seed 31 --cases $N 2>/dev/null | /verif/lean/.lake/build/bin/hdriver accept all > /tmp/mut_out_$f.txt
  grep -o "monitor\[C[0-9]*\]=violation@[0-9]*:[^ ]* [^ ]*\|rejected@[0-9]*:[^ ]* [^ ]*" /tmp/mut_out_$f.txt | sed 's/@[0-9]*//; s/ [0-9]\+/ N/g' | sort | uniq -c | sort -rn | head -8
done
cd /repo && git checkout -- . && git status --short | head -3
/verif/.cache/extract-target/debug/extract /repo/src /verif/lean/Hannibal/Generated/Wiring.lean /verif/.cache/wiring.json
cd /verif/harness && CARGO_NET_OFFLINE=true cargo build 2>&1 | grep -E "^error" -A6
