import Hannibal.Proofs.Handles
import Hannibal.Proofs.Tactics
/-
  C02 support: exactly how a step changes the table of pending operations, and what `begin` does.
-/
set_option linter.unusedSimpArgs false
set_option linter.unusedVariables false
namespace Hannibal
open AState

namespace AState
/-- the call / ping operations whose payload is in the queue or being handled -/
def slotsLive (s : AState) : List Nat := s.curSlot ++ s.chan.queue.filterMap (fun e => slotOf e.pl)
end AState

def pingMap (o : Nat) (r : OpRec) : OpRec :=
  if r.o == o && r.st == .pending then { r with st := .pinged } else r

/-- how a step other than `begin` / `ret` / `cdrop` transforms the op table -/
inductive OpsChange (s s' : AState) (l : Label) : Prop where
  | same (h : s'.ops = s.ops)
  | cancel (slots : List Nat) (hsub : ∀ o ∈ slots, o ∈ s.slotsLive) (h : s'.ops = (s.cancelSlots slots).ops)
  | answer (m o : Nat) (dl : Option Nat) (hp : s.phase = .handling (.handle m) (some o) dl)
      (hl : l = .cbEnd (.handle m) true) (h : s'.ops = (s.answer (some o) m).ops)
  | ping (o : Nat) (tok : Tok) (rest : List Entry) (hq : s.chan.queue = { pl := .ping o, tok } :: rest)
      (h : s'.ops = s.ops.map (pingMap o))

macro "opsame" hs:ident : tactic => `(tactic|
  ((repeat' (split at $hs:ident)) <;>
   (first
     | (simp at $hs:ident; done)
     | (simp at $hs:ident; subst $hs:ident; first
         | exact OpsChange.same rfl
         | (refine OpsChange.same ?_; simp; done)))))

theorem mem_slotsLive_cur {s : AState} {o} (h : o ∈ s.curSlot) : o ∈ s.slotsLive :=
  List.mem_append_left _ h
theorem mem_slotsLive_queue {s : AState} {o} (h : o ∈ s.chan.queue.filterMap (fun e => slotOf e.pl)) :
    o ∈ s.slotsLive := List.mem_append_right _ h

theorem fail_opsChange (s : AState) (l : Label) : OpsChange s s.fail l :=
  .cancel (s.curSlot ++ s.chan.queue.filterMap (fun e => slotOf e.pl)) (fun _ h => h) rfl

theorem step_opsChange {w s l s'} (hs : step w s l = some s') (hl : l.isOpEdge = false) : OpsChange s s' l := by
  cases l <;> simp [Label.isOpEdge] at hl
  case cbEnd cb ok =>
    simp only [step, stepCbEnd] at hs
    split at hs
    · simp at hs
    · split at hs
      case h_2 =>
        rename_i m m' slot dl hph
        split at hs
        · rename_i hc
          simp at hc hs
          obtain ⟨rfl, rfl⟩ := hc
          subst hs
          cases slot with
          | none => exact .same (by simp [answer])
          | some o => exact .answer m o dl hph rfl rfl
        · simp at hs
      all_goals opsame hs
  case cbAbandon cb =>
    simp only [step, stepCbAbandon] at hs
    split at hs
    · rename_i cb' slot dl hp
      split at hs
      · have hsub : ∀ o ∈ (match slot with | some o => [o] | none => []), o ∈ s.slotsLive := by
          intro o ho
          cases slot with
          | none => simp at ho
          | some o' => exact mem_slotsLive_cur (by simpa [curSlot, hp] using ho)
        split at hs <;> (simp at hs; subst hs; exact .cancel _ hsub rfl)
      · simp at hs
    all_goals opsame hs
  case cbPanic cb =>
    simp only [step, stepCbPanic] at hs
    split at hs
    · simp at hs; subst hs
      exact .cancel s.curSlot (fun o ho => mem_slotsLive_cur ho) rfl
    · simp at hs
  case cancel =>
    simp only [step, stepCancel] at hs
    split at hs
    · simp at hs
    · simp at hs; subst hs; exact .cancel _ (fun _ h => h) rfl
  case taskDone =>
    simp only [step, stepTaskDone] at hs
    split at hs
    · simp at hs; subst hs
      exact .cancel (s.chan.queue.filterMap (fun e => slotOf e.pl)) (fun o ho => mem_slotsLive_queue ho) rfl
    · simp at hs; subst hs; exact fail_opsChange s _
    · simp at hs
  case taskPanic =>
    simp only [step, stepTaskPanic] at hs
    split at hs
    · simp at hs; subst hs; exact fail_opsChange s _
    · split at hs
      · split at hs
        · simp at hs; subst hs
          rename_i hq _
          refine .cancel _ ?_ rfl
          intro o ho
          simp [curSlot, Chan.deq, hq] at ho
          rcases ho with ho | ho
          · exact mem_slotsLive_cur (by simpa [curSlot] using ho)
          · exact mem_slotsLive_queue (by simpa [hq, slotOf] using ho)
        · simp at hs
      · simp at hs
    · simp at hs
  case tDeq =>
    simp only [step, stepDeq] at hs
    split at hs
    · rename_i e rest hph hq
      split at hs
      · simp at hs
      · try simp only at hs
        split at hs
        · rename_i o hpl
          simp at hs; subst hs
          obtain ⟨pl, tok⟩ := e
          simp at hpl; subst hpl
          exact .ping o tok rest hq (by simp [pingMap])
        all_goals opsame hs
    · simp at hs
  all_goals (unfold_steps hs; opsame hs)

/-- the payload an operation submits (independent of the wiring) -/
def planPl (o : Nat) : OpKind → Option Payload
  | .send m | .trySend m | .tryForce m => some (.msg m none)
  | .call m | .callw m | .tryCall m => some (.msg m (some o))
  | .ping => some (.ping o)
  | .halt | .tryHalt | .consume => some .stop
  | .await | .join => none

theorem plan_pl02 (w : Wiring) (hk : HKind) (o : Nat) (k : OpKind) : (plan w hk o k).pl = planPl o k := by
  cases k <;> rfl

theorem plan_join (w : Wiring) (hk : HKind) (o : Nat) (k : OpKind) :
    (plan w hk o k).join = (k == .join || k == .consume) := by
  cases k <;> rfl

/-- what `begin` leaves behind: refused, waiting without a submission, or submitted -/
inductive BeginOut (s s' : AState) (o : Nat) (k : OpKind) (st : OpSt) : Prop where
  | refused (e : ErrKind) (hst : st = .failed e) (hc : s'.chan = s.chan) (hk : planPl o k ≠ none)
  | wait (hpl : planPl o k = none) (hc : s'.chan = s.chan)
      (hst : (k = .await ∧ st = .pending) ∨ (k = .join ∧ (st = .joining ∨ st = .joinNone)))
  | sent (pl : Payload) (tok : Tok) (hpl : planPl o k = some pl) (hrx : s.chan.rx = true)
      (hc : s'.chan = s.chan.enq { pl, tok })
      (hst : (k = .consume ∧ (st = .joining ∨ st = .joinNone)) ∨ (k ≠ .consume ∧ st = .pending))

theorem beginWait_phase (s : AState) (o h k j) : (s.beginWait o h k j).phase = s.phase := by
  unfold beginWait; split
  · split <;> rfl
  · rfl

theorem stepBegin_spec02 {w s o h k s'} (hs : stepBegin w s o h k = some s') :
    s.findOp o = none ∧ s'.phase = s.phase ∧
      ∃ st, s'.ops = s.ops ++ [{ o, h, kind := k, st }] ∧ BeginOut s s' o k st := by
  obtain ⟨hfresh, -⟩ := stepBegin_ops hs
  refine ⟨hfresh, ?_⟩
  unfold stepBegin at hs
  cases hk0 : s.handleKind h with
  | none => simp [hk0] at hs
  | some hk =>
    simp only [hk0] at hs
    by_cases hg : (!kindOk k hk || (s.findOp o).isSome) = true
    · rw [if_pos hg] at hs; simp at hs
    · rw [if_neg hg] at hs
      by_cases hreq : (!s.reqOk w (plan w hk o k).upg) = true
      · rw [if_pos hreq] at hs; simp at hs; subst hs
        refine ⟨rfl, _, rfl, .refused _ rfl rfl ?_⟩
        cases k <;> simp [plan, reqOk, planPl] at hreq ⊢
      · rw [if_neg hreq] at hs
        rw [plan_pl02, plan_join] at hs
        cases hpl : planPl o k with
        | none =>
          simp only [hpl] at hs; simp at hs; subst hs
          refine ⟨beginWait_phase _ _ _ _ _, ?_⟩
          cases k <;> simp [planPl] at hpl
          · exact ⟨_, rfl, .wait rfl rfl (.inl ⟨rfl, rfl⟩)⟩
          · unfold beginWait
            simp only [beq_self_eq_true, Bool.true_or, if_true]
            split
            · exact ⟨_, rfl, .wait rfl rfl (.inr ⟨rfl, .inr rfl⟩)⟩
            · exact ⟨_, rfl, .wait rfl rfl (.inr ⟨rfl, .inl rfl⟩)⟩
        | some pl =>
          simp only [hpl] at hs
          by_cases hrx : s.chan.rx = true
          · rw [if_pos hrx] at hs; simp at hs; subst hs
            refine ⟨by rw [beginWait_phase]; rfl, ?_⟩
            by_cases hc : k = .consume
            · subst hc
              unfold beginWait
              simp only [beq_self_eq_true, Bool.or_true, if_true]
              split
              · exact ⟨_, rfl, .sent pl _ hpl hrx rfl (.inl ⟨rfl, .inr rfl⟩)⟩
              · exact ⟨_, rfl, .sent pl _ hpl hrx rfl (.inl ⟨rfl, .inl rfl⟩)⟩
            · have hj : (k == .join || k == .consume) = false := by
                cases k <;> simp_all [planPl]
              unfold beginWait
              simp only [hj, Bool.false_eq_true, if_false]
              exact ⟨_, rfl, .sent pl _ hpl hrx rfl (.inr ⟨hc, rfl⟩)⟩
          · rw [if_neg hrx] at hs; simp at hs; subst hs
            exact ⟨rfl, _, rfl, .refused _ rfl rfl (by simp [hpl])⟩

end Hannibal
