import Hannibal.Proofs.C07OQueue
import Hannibal.Props.C03
import Hannibal.Monitor.C01
/-
  C07 (order), part 2: the coupling between the model and the order half of `monC07o`, and its
  preservation by every step whose label respects the naming discipline `monWf01` (fresh message numbers).
-/
set_option linter.unusedSimpArgs false
set_option linter.unusedVariables false
namespace Hannibal
open AState

/-- a non-restartable spawn is in its first incarnation as soon as it has started -/
def nonInc : Phase → Nat → Bool
  | .unstarted, n => n == 0
  | .exiting _, _ | .done _, _ => true
  | _, n => n == 1

def incNext (inc : Nat) : Label → Nat
  | .cbBegin .started => inc + 1
  | _ => inc

set_option maxHeartbeats 1000000 in
theorem nonInc_step {w : Wiring} {s s' : AState} {l : Label} {inc : Nat} (hs : step w s l = some s')
    (hrst : RstOk s) (hnr : s.cfg.stream = true ∨ s.cfg.strat = .non) (hn : nonInc s.phase inc = true) :
    nonInc s'.phase (incNext inc l) = true := by
  unfold RstOk at hrst
  cases l <;> unfold_steps hs <;>
    ((repeat' (split at hs)) <;>
     (first
       | (simp at hs; done)
       | (simp at hs; subst hs
          simp_all [nonInc, incNext, fail, finish, cancelSlots, killTimers, setTimer, addOp, removeOp,
            removeHandle, push]; done)
       | (simp at hs; subst hs; unfold answer; split <;> simp_all [nonInc, incNext]; done)
       | (simp at hs; subst hs; cases hp : s.phase <;>
            simp_all [nonInc, incNext, openCb, cancelSlots, curSlot]; done)
       | (exfalso; rcases hnr with h | h <;> simp_all; done)))

set_option maxHeartbeats 1000000 in
theorem failFlag_step {w : Wiring} {s s' : AState} {l : Label} {f : Bool} (hs : step w s l = some s')
    (hf : f = true → alive07 s.phase = false) : (f || l.isFailure) = true → alive07 s'.phase = false := by
  intro h
  by_cases hl : l.isFailure = true
  · cases l <;> simp [Label.isFailure] at hl <;> unfold_steps hs <;>
      ((repeat' (split at hs)) <;>
       (first
         | (simp at hs; done)
         | (simp at hs; subst hs; simp_all [alive07, fail, finish, cancelSlots, killTimers]; done)
         | (simp at hs; obtain ⟨_, rfl⟩ := hs; simp_all [alive07]; done)))
  · have hf' : f = true := by cases f <;> simp_all
    cases ha : alive07 s'.phase
    · rfl
    · have := step_alive07 hs ha
      rw [hf hf'] at this; cases this

structure Ord07 (c : MonCtx) (s : AState) (σ : C07oSt) (g : Wf01St) : Prop where
  c3 : C03Inv c s (l3of s.phase)
  ninc : restartable c = false → nonInc s.phase σ.inc = true
  fail : σ.failure = true → alive07 s.phase = false
  q : restartable c = true → alive07 s.phase = true →
    qOk σ.expect σ.accepted (σ.inc + pend s.phase) s.pls = true
  f1 : ∀ m, (lookup m σ.expect).isSome = true → g.seenM.contains m = true
  f2 : ∀ m sl, Payload.msg m sl ∈ s.pls → g.seenM.contains m = true

theorem ord07_init (c : MonCtx) :
    Ord07 c (AState.init c.cfg c.h0 c.k0) (monC07o c).init monWf01.init := by
  refine ⟨?_, ?_, ?_, ?_, ?_, ?_⟩
  · have := c03_init c
    simpa [monC03, AState.init, l3of] using this
  all_goals simp [monC07o, AState.init, nonInc, alive07, pend, pls, Chan.init, qOk, lookup, monWf01]

/-! ### the naming discipline -/

theorem wf01_step_eq {g g' : Wf01St} {l : Label} (h : monWf01.step g l = some g') :
    wfBad g l = false ∧ g' = wfNext g l := by
  simp only [monWf01] at h
  split at h
  · simp at h
  · rename_i hb; simp at h; exact ⟨by simpa using hb, h.symm⟩

theorem wfNext_mono (g : Wf01St) (l : Label) {m : Nat} (h : g.seenM.contains m = true) :
    (wfNext g l).seenM.contains m = true := by
  cases l <;> simp only [wfNext] <;> (try exact h)
  case begin o hh k =>
    cases hk : k.msg? <;> simp only [] <;> (try exact h)
    simp at h ⊢; exact .inr h
  case fire t mm =>
    cases mm <;> simp only [wfNext] <;> (try exact h)
    simp at h ⊢; exact .inr h
  all_goals (simp at h ⊢; exact .inr h)

/-- expectations and queued messages only mention message numbers already seen -/
structure Fr (exp : List (Nat × Nat)) (q : List Payload) (seen : List Nat) : Prop where
  f1 : ∀ m, (lookup m exp).isSome = true → seen.contains m = true
  f2 : ∀ m sl, Payload.msg m sl ∈ q → seen.contains m = true

theorem Fr.mono {exp q seen seen'} (h : Fr exp q seen) (hm : ∀ m, seen.contains m = true → seen'.contains m = true) :
    Fr exp q seen' := ⟨fun m hh => hm m (h.f1 m hh), fun m sl hh => hm m (h.f2 m sl hh)⟩

theorem Fr.snoc_other {exp q seen p} (h : Fr exp q seen) (hp : isMsgP p = false) : Fr exp (q ++ [p]) seen := by
  refine ⟨h.f1, ?_⟩
  intro m sl hh
  rcases List.mem_append.mp hh with hh | hh
  · exact h.f2 m sl hh
  · simp at hh; subst hh; simp [isMsgP] at hp

theorem Fr.snoc_msg {exp q seen m sl} (h : Fr exp q seen) : Fr exp (q ++ [.msg m sl]) (m :: seen) := by
  refine ⟨fun m' hh => ?_, ?_⟩
  · have := h.f1 m' hh; simp at this ⊢; exact .inr this
  · intro m' sl' hh
    rcases List.mem_append.mp hh with hh | hh
    · have := h.f2 m' sl' hh; simp at this ⊢; exact .inr this
    · simp at hh; simp [hh.1]

theorem Fr.expect {exp q seen m n} (h : Fr exp q seen) : Fr ((m, n) :: exp) q (m :: seen) := by
  refine ⟨fun m' hh => ?_, fun m' sl' hh => ?_⟩
  · by_cases he : m = m'
    · simp [he]
    · rw [lookup_cons_ne he] at hh
      have := h.f1 m' hh; simp at this ⊢; exact .inr this
  · have := h.f2 m' sl' hh; simp at this ⊢; exact .inr this

theorem Fr.tail {exp p q seen} (h : Fr exp (p :: q) seen) : Fr exp q seen :=
  ⟨h.f1, fun m sl hh => h.f2 m sl (List.mem_cons_of_mem _ hh)⟩

theorem Fr.fresh_lookup {exp q seen m} (h : Fr exp q seen) (hm : seen.contains m = false) : lookup m exp = none := by
  cases hl : lookup m exp with
  | none => rfl
  | some v => have := h.f1 m (by simp [hl]); rw [hm] at this; cases this

theorem Fr.fresh_queue {exp q seen m} (h : Fr exp q seen) (hm : seen.contains m = false) :
    ∀ sl, Payload.msg m sl ∉ q := by
  intro sl hh; have := h.f2 m sl hh; rw [hm] at this; cases this

theorem begPl_msg {o k m} (h : k.msg? = some m) : ∃ sl, begPl o k = some (.msg m sl) := by
  cases k <;> simp [OpKind.msg?] at h <;> subst h <;> exact ⟨_, rfl⟩

theorem begPl_nomsg {o k pl} (h : k.msg? = none) (hp : begPl o k = some pl) :
    isMsgP pl = false ∧ isRestartP pl = false := by
  cases k <;> simp [OpKind.msg?] at h <;> simp [begPl] at hp <;> subst hp <;> simp [isMsgP, isRestartP]

theorem next07o_inc (σ : C07oSt) (l : Label) : (next07o σ l).inc = incNext σ.inc l := by
  cases l <;> rfl

/-- the queue part of the coupling, and the freshness bookkeeping, across one step -/
theorem ord07_queue (w : Wiring) (c : MonCtx) {s s' : AState} {σ : C07oSt} {g : Wf01St} {l : Label}
    (hcfg : s.cfg = c.cfg)
    (hq : restartable c = true → alive07 s.phase = true →
      qOk σ.expect σ.accepted (σ.inc + pend s.phase) s.pls = true)
    (hfr : Fr σ.expect s.pls g.seenM) (hs : step w s l = some s') (hb : wfBad g l = false) :
    (restartable c = true → alive07 s'.phase = true →
      qOk (next07o σ l).expect (next07o σ l).accepted ((next07o σ l).inc + pend s'.phase) s'.pls = true) ∧
    Fr (next07o σ l).expect s'.pls (wfNext g l).seenM := by
  have hal := fun h => step_alive07 hs h
  have hmono := fun m h => wfNext_mono g l (m := m) h
  by_cases htq : l.touchesQ = true
  · cases l <;> simp [Label.touchesQ] at htq
    case begin o h k =>
      simp only [step] at hs
      obtain ⟨hph, hpl⟩ := stepBegin_pls hs
      cases hk : k.msg? with
      | none =>
        have e1 : (next07o σ (.begin o h k)).expect = σ.expect := by simp [next07o, hk]
        have e2 : (wfNext g (.begin o h k)).seenM = g.seenM := by simp [wfNext, hk]
        rw [e1, e2, hph]
        simp only [next07o]
        rcases hpl with hpl | ⟨pl, hpl, hpls⟩
        · rw [hpl]; exact ⟨hq, hfr⟩
        · obtain ⟨h1, h2⟩ := begPl_nomsg hk hpl
          rw [hpls]
          refine ⟨fun hr ha => ?_, hfr.snoc_other h1⟩
          rw [qOk_snoc_other h1 h2]; exact hq hr ha
      | some m =>
        have hfresh : g.seenM.contains m = false := by
          simp [wfBad, hk] at hb; simpa using hb.2
        have e1 : (next07o σ (.begin o h k)).expect = (m, σ.accepted) :: σ.expect := by simp [next07o, hk]
        have e2 : (wfNext g (.begin o h k)).seenM = m :: g.seenM := by simp [wfNext, hk]
        rw [e1, e2, hph]
        simp only [next07o]
        have hnq := hfr.fresh_queue hfresh
        rcases hpl with hpl | ⟨pl, hpl, hpls⟩
        · rw [hpl]
          refine ⟨fun hr ha => ?_, hfr.expect⟩
          rw [qOk_expect hnq]; exact hq hr ha
        · obtain ⟨sl, hsl⟩ := begPl_msg (o := o) hk
          rw [hsl] at hpl; simp at hpl; subst hpl
          rw [hpls]
          refine ⟨fun hr ha => ?_, ?_⟩
          · refine qOk_snoc_msg_acc lookup_cons_eq ?_
            rw [qOk_expect hnq]; exact hq hr ha
          · have := (hfr.expect (m := m) (n := σ.accepted)).snoc_msg (m := m) (sl := sl)
            refine this.mono ?_
            intro m' hm'
            simp only [List.contains_cons, Bool.or_eq_true] at hm' ⊢
            rcases hm' with h | h | h
            · exact .inl h
            · exact .inl h
            · exact .inr h
    case stopReq h ok =>
      simp only [step] at hs
      obtain ⟨hph, hpls⟩ := stepSignal_pls hs
      simp only [next07o, wfNext, hph]
      cases ok <;> simp only [if_true, if_false, Bool.false_eq_true] at hpls <;> rw [hpls]
      · exact ⟨hq, hfr⟩
      · refine ⟨fun hr ha => ?_, hfr.snoc_other rfl⟩
        rw [qOk_snoc_other rfl rfl]; exact hq hr ha
    case ctxStop ok =>
      simp only [step] at hs
      obtain ⟨hph, hpls⟩ := stepCtxSignal_pls hs
      simp only [next07o, wfNext, hph]
      cases ok <;> simp only [if_true, if_false, Bool.false_eq_true] at hpls <;> rw [hpls]
      · exact ⟨hq, hfr⟩
      · refine ⟨fun hr ha => ?_, hfr.snoc_other rfl⟩
        rw [qOk_snoc_other rfl rfl]; exact hq hr ha
    case restartReq h ok =>
      simp only [step] at hs
      obtain ⟨hph, hpls⟩ := stepSignal_pls hs
      simp only [wfNext, hph]
      cases ok <;> simp only [if_true, if_false, Bool.false_eq_true] at hpls <;> rw [hpls] <;> simp only [next07o]
      · exact ⟨hq, hfr⟩
      · exact ⟨fun hr ha => qOk_snoc_restart (hq hr ha), hfr.snoc_other rfl⟩
    case ctxRestart ok =>
      simp only [step] at hs
      obtain ⟨hph, hpls⟩ := stepCtxSignal_pls hs
      simp only [wfNext, hph]
      cases ok <;> simp only [if_true, if_false, Bool.false_eq_true] at hpls <;> rw [hpls] <;> simp only [next07o]
      · exact ⟨hq, hfr⟩
      · exact ⟨fun hr ha => qOk_snoc_restart (hq hr ha), hfr.snoc_other rfl⟩
    case fire t m =>
      simp only [step] at hs
      obtain ⟨hph, hpls⟩ := stepFire_pls hs
      simp only [next07o, hph]
      rcases hpls with hpls | ⟨m', rfl, hpls⟩
      · rw [hpls]; exact ⟨hq, hfr.mono hmono⟩
      · have hfresh : g.seenM.contains m' = false := by simpa [wfBad] using hb
        rw [hpls]
        refine ⟨fun hr ha => ?_, ?_⟩
        · rw [qOk_snoc_msg_none (hfr.fresh_lookup hfresh)]; exact hq hr ha
        · simpa [wfNext] using hfr.snoc_msg (m := m') (sl := none)
    case timerArm t due =>
      simp only [step] at hs
      obtain ⟨hph, hpls⟩ := stepTimerArm_pls hs
      simp only [next07o, wfNext, hph]
      rcases hpls with hpls | hpls <;> rw [hpls]
      · exact ⟨hq, hfr⟩
      · refine ⟨fun hr ha => ?_, hfr.snoc_other rfl⟩
        rw [qOk_snoc_other rfl rfl]; exact hq hr ha
    case extPush b =>
      simp only [step] at hs
      obtain ⟨hph, hpls⟩ := stepExtPush_pls hs
      simp only [next07o, wfNext, hph]
      rcases hpls with hpls | hpls <;> rw [hpls]
      · exact ⟨hq, hfr⟩
      · refine ⟨fun hr ha => ?_, hfr.snoc_other rfl⟩
        rw [qOk_snoc_other rfl rfl]; exact hq hr ha
    case tickBegin t m =>
      simp only [step] at hs
      obtain ⟨hph, rest, hp1, hp2⟩ := stepTickBegin_pls hs
      have hfresh : g.seenM.contains m = false := by simpa [wfBad] using hb
      simp only [next07o, wfNext, hph]
      rw [hp2]
      rw [hp1] at hq hfr
      refine ⟨fun hr ha => ?_, ?_⟩
      · have := hq hr ha
        rw [qOk_cons_other rfl rfl] at this
        simp [qOk, hfr.fresh_lookup hfresh, this]
      · refine ⟨fun m' hh => ?_, fun m' sl' hh => ?_⟩
        · have := hfr.f1 m' hh; simp at this ⊢; exact .inr this
        · simp at hh
          rcases hh with ⟨rfl, _⟩ | hh
          · simp
          · have := hfr.f2 m' sl' (List.mem_cons_of_mem _ hh); simp at this ⊢; exact .inr this
    case extBegin b m =>
      simp only [step] at hs
      obtain ⟨hph, rest, hp1, hp2⟩ := stepExtBegin_pls hs
      have hfresh : g.seenM.contains m = false := by simpa [wfBad] using hb
      simp only [next07o, wfNext, hph]
      rw [hp2]
      rw [hp1] at hq hfr
      refine ⟨fun hr ha => ?_, ?_⟩
      · have := hq hr ha
        rw [qOk_cons_other rfl rfl] at this
        simp [qOk, hfr.fresh_lookup hfresh, this]
      · refine ⟨fun m' hh => ?_, fun m' sl' hh => ?_⟩
        · have := hfr.f1 m' hh; simp at this ⊢; exact .inr this
        · simp at hh
          rcases hh with ⟨rfl, _⟩ | hh
          · simp
          · have := hfr.f2 m' sl' (List.mem_cons_of_mem _ hh); simp at this ⊢; exact .inr this
    case cbBegin cb =>
      simp only [step] at hs
      have e2 : (wfNext g (.cbBegin cb)).seenM = g.seenM := rfl
      have e1 : (next07o σ (.cbBegin cb)).expect = σ.expect := rfl
      have e3 : (next07o σ (.cbBegin cb)).accepted = σ.accepted := rfl
      rw [e1, e2, e3, next07o_inc]
      by_cases h1 : cb = .started
      · subst h1
        obtain ⟨hp0, hp1, hpls⟩ := stepCbBegin_started_pls hs
        rw [hpls, hp1]
        refine ⟨fun hr ha => ?_, hfr⟩
        have := hq hr (hal ha)
        rw [hp0] at this
        simpa [incNext] using this
      · by_cases h2 : ∃ m, cb = .handle m
        · obtain ⟨m, rfl⟩ := h2
          obtain ⟨hp0, hp1, sl, rest, hpl0, hpls⟩ := stepCbBegin_handle_pls hs
          rw [hpls, hp1]
          rw [hpl0] at hq hfr
          refine ⟨fun hr ha => ?_, hfr.tail⟩
          have := hq hr (hal ha)
          simp only [hp0, pend, qOk, Bool.and_eq_true] at this
          simpa [incNext] using this.2
        · have h2' : ∀ m, cb ≠ .handle m := fun m hh => h2 ⟨m, hh⟩
          obtain ⟨hp, hpls⟩ := stepCbBegin_other_pls hs h1 h2'
          rw [hpls, hp]
          have : incNext σ.inc (.cbBegin cb) = σ.inc := by
            cases cb <;> simp [incNext] at h1 ⊢
          rw [this]
          exact ⟨fun hr ha => hq hr (hal ha), hfr⟩
    case tDeq =>
      simp only [step] at hs
      obtain ⟨hp0, p, rest, hpl0, hpls, hnm, hrs, hnr⟩ := stepDeq_pls hs
      simp only [next07o, wfNext]
      rw [hpls]
      rw [hpl0] at hq hfr
      refine ⟨fun hr ha => ?_, hfr.tail⟩
      have := hq hr (hal ha)
      cases hrp : isRestartP p
      · rw [qOk_cons_other hnm hrp] at this
        rw [hnr hrp]; simpa [hp0, pend] using this
      · have hst : s.cfg.strat ≠ .non := by
          rw [hcfg]; intro hh; simp [restartable, hh] at hr
        rw [(hrs hrp).2 hst]
        cases p <;> simp [isRestartP] at hrp
        simpa [hp0, pend, qOk] using this
  · have htq' : l.touchesQ = false := by simpa using htq
    have e1 : (next07o σ l).expect = σ.expect := by cases l <;> simp [Label.touchesQ] at htq' <;> rfl
    have e2 : (next07o σ l).accepted = σ.accepted := by cases l <;> simp [Label.touchesQ] at htq' <;> rfl
    have e3 : (next07o σ l).inc = σ.inc := by cases l <;> simp [Label.touchesQ] at htq' <;> rfl
    have e4 : (wfNext g l).seenM = g.seenM := by cases l <;> simp [Label.touchesQ] at htq' <;> rfl
    rw [e1, e2, e3, e4]
    refine ⟨fun hr ha => ?_, ?_⟩
    · obtain ⟨hp, hpls⟩ := step_pls_same hs htq' ha
      rw [hp, hpls]; exact hq hr (hal ha)
    · -- the payload list is the same or was dropped
      cases ha : alive07 s'.phase
      · -- the loop is over: whatever is left in the mailbox was there before
        refine ⟨hfr.f1, ?_⟩
        intro m sl hh
        have hsub : ∀ p, p ∈ s'.pls → p ∈ s.pls := by
          intro p hp
          cases l <;> simp [Label.touchesQ] at htq' <;> unfold_steps hs <;>
            ((repeat' (split at hs)) <;>
             (first
               | (simp at hs; done)
               | (simp at hs; subst hs
                  simp_all [pls, fail, finish, cancelSlots, killTimers, setTimer, addOp, removeOp,
                    removeHandle, push, Chan.dropRx, Chan.deq]; done)
               | (simp at hs; subst hs; unfold answer at hp; split at hp <;> simp_all [pls]; done)))
        exact hfr.f2 m sl (hsub _ hh)
      · obtain ⟨_, hpls⟩ := step_pls_same hs htq' ha
        rw [hpls]; exact hfr

theorem ord07_step (w : Wiring) (c : MonCtx) {s s' : AState} {σ : C07oSt} {g g' : Wf01St} {l : Label}
    (hi : Ord07 c s σ g) (hs : step w s l = some s') (hg : monWf01.step g l = some g') :
    badOrd c σ l = false ∧ Ord07 c s' (next07o σ l) g' := by
  obtain ⟨hb, rfl⟩ := wf01_step_eq hg
  have hcfg := hi.c3.cfg
  obtain ⟨ph', -, hc3⟩ := c03_step w c hi.c3 hs
  have hph' := hc3.ph
  subst hph'
  obtain ⟨hq', hfr'⟩ := ord07_queue w c hcfg hi.q ⟨hi.f1, hi.f2⟩ hs hb
  refine ⟨?_, ⟨hc3, ?_, ?_, hq', hfr'.f1, hfr'.f2⟩⟩
  · -- the order test of the monitor never fires
    cases l <;> try rfl
    rename_i cb
    cases cb <;> try rfl
    rename_i m
    simp only [step] at hs
    obtain ⟨hp0, _, sl, rest, hpl0, _⟩ := stepCbBegin_handle_pls hs
    have hal : alive07 s.phase = true := by simp [hp0, alive07]
    have hf : σ.failure = false := by
      cases hff : σ.failure
      · rfl
      · have := hi.fail hff; rw [hal] at this; cases this
    simp only [badOrd, hf, Bool.false_or]
    cases hl : lookup m σ.expect with
    | none => rfl
    | some n =>
      simp only
      cases hr : restartable c
      · have := hi.ninc hr
        simp [hp0, nonInc] at this
        simp [this]
      · have := hi.q hr hal
        rw [hpl0] at this
        simp only [hp0, pend, qOk, hl, Bool.and_eq_true] at this
        have h1 := this.1
        simp at h1
        simp [h1]
  · intro hr
    rw [next07o_inc]
    refine nonInc_step hs hi.c3.rst ?_ (hi.ninc hr)
    rw [hcfg]
    simp only [restartable] at hr
    cases hst : c.cfg.stream <;> simp [hst] at hr ⊢
    exact hr
  · exact failFlag_step hs hi.fail

end Hannibal
