import Hannibal.Proofs.C05Queue
import Hannibal.Proofs.Tactics
/-
  C05, part 4: how the loop reaches its final `stopped`: phases, and the three ways out of `idle`.
-/
namespace Hannibal
open AState

/-- phases from which the loop can still take something out of the mailbox -/
def loopAlive : Phase → Bool
  | .unstarted | .starting | .idle | .handling _ _ _ | .rstBegin | .rstStopping | .rstStopped _ => true
  | _ => false

/-- the loop has left, the final `stopped` has not begun -/
def leavingPh : Phase → Bool
  | .leaving | .finishing | .finishedDone => true
  | _ => false

def rb : Phase → Nat
  | .rstBegin => 1
  | _ => 0

def isStopP : Payload → Bool
  | .stop => true
  | _ => false

def isRestartP : Payload → Bool
  | .restart => true
  | _ => false

def Label.isExit : Label → Bool
  | .tDeq | .tChanEnd | .tStreamEnd => true
  | _ => false

set_option maxHeartbeats 1000000 in
theorem step_phase_facts {w : Wiring} {s s' : AState} {l : Label} (hs : step w s l = some s')
    (hl : l.isExit = false) :
    (loopAlive s'.phase = true → loopAlive s.phase = true ∧ rb s'.phase ≤ rb s.phase) ∧
    (leavingPh s'.phase = true → leavingPh s.phase = true) := by
  cases l <;> simp [Label.isExit] at hl <;> unfold_steps hs <;>
    ((repeat' (split at hs)) <;>
     (first
       | (simp at hs; done)
       | (simp at hs; subst hs; simp_all [loopAlive, leavingPh, rb, fail, finish, cancelSlots, killTimers, setTimer,
            addOp, removeOp, removeHandle, push]; done)
       | (simp at hs; subst hs; unfold answer; split <;>
            simp_all [loopAlive, leavingPh, rb]; done)
       | (simp at hs; subst hs; cases hp : s.phase <;> simp_all [loopAlive, leavingPh, rb]; done)))

theorem stepDeq_spec {s s' : AState} (hs : stepDeq s = some s') :
    s.phase = .idle ∧ ∃ e rest, s.chan.queue = e :: rest ∧ s'.chan = s.chan.deq ∧
      s'.cfg = s.cfg ∧ s'.streamEnded = s.streamEnded ∧
      ((e.pl = .stop ∧ s'.phase = .leaving) ∨ (e.pl = .restart ∧ s'.phase = .rstBegin) ∨ s'.phase = .idle) := by
  unfold stepDeq at hs
  split at hs
  · rename_i e rest hph hq
    refine ⟨hph, e, rest, hq, ?_⟩
    split at hs
    · simp at hs
    · simp only at hs
      (repeat' (split at hs)) <;>
        (first
          | (simp at hs; done)
          | (simp at hs; subst hs; simp_all))
  · simp at hs

theorem stepChanEnd_spec {w : Wiring} {s s' : AState} (hs : stepChanEnd w s = some s') :
    s.phase = .idle ∧ s.sendersAlive w = false ∧ s' = { s with phase := .leaving } := by
  unfold stepChanEnd at hs
  split at hs
  · rename_i hph
    split at hs
    · rename_i hc
      simp at hs; subst hs
      simp at hc
      exact ⟨hph, hc.2, rfl⟩
    · simp at hs
  · simp at hs

theorem stepStreamEndTau_spec {s s' : AState} (hs : stepStreamEndTau s = some s') :
    s.phase = .idle ∧ s.cfg.stream = true ∧ s.streamEnded = true ∧ s' = { s with phase := .leaving } := by
  unfold stepStreamEndTau at hs
  split at hs
  · rename_i hph
    split at hs
    · rename_i hc
      simp at hs; subst hs
      simp at hc
      exact ⟨hph, hc.1.1, hc.1.2, rfl⟩
    · simp at hs
  · simp at hs

/-- `cfg` never changes; the stream-ended flag only goes up, at `streamEnd` -/
theorem step_cfg_stream {w : Wiring} {s s' : AState} {l : Label} (hs : step w s l = some s') :
    s'.cfg = s.cfg ∧ s'.streamEnded = (s.streamEnded || (match l with | .streamEnd => true | _ => false)) := by
  cases l <;> unfold_steps hs <;>
    ((repeat' (split at hs)) <;>
     (first
       | (simp at hs; done)
       | (simp at hs; subst hs; simp_all [fail, finish, cancelSlots, killTimers, setTimer, addOp, removeOp,
            removeHandle, push]; done)
       | (simp at hs; subst hs; unfold answer; split <;> simp_all; done)))

theorem stepCbBegin_stopped_spec {w : Wiring} {s s' : AState} (hs : stepCbBegin w s .stopped = some s') :
    (s.phase = .leaving ∧ s' = (s.notifyEarly w).toStopping) ∨
    (s.phase = .finishedDone ∧ s' = (s.notifyEarly w).toStopping) ∨
    (s.phase = .rstBegin ∧ s' = { s with phase := .rstStopping }) := by
  unfold stepCbBegin at hs
  (repeat' (split at hs)) <;>
    (first
      | (simp at hs; done)
      | (simp at hs; subst hs; simp_all; done))

theorem stepCbBegin_finished_spec {w : Wiring} {s s' : AState} (hs : stepCbBegin w s .finished = some s') :
    s.phase = .leaving ∧ s' = { s with phase := .finishing } := by
  unfold stepCbBegin at hs
  (repeat' (split at hs)) <;>
    (first
      | (simp at hs; done)
      | (simp at hs; subst hs; simp_all; done))

/-- restart requests the label puts into the mailbox -/
def restartIncr : Label → Nat
  | .restartReq _ true | .ctxRestart true => 1
  | _ => 0

end Hannibal
