import Hannibal.Proofs.C16QActor
import Hannibal.Props.C16
/-
  C16q, system part: the invariant that couples the monitor's `owed` table with the mailboxes of the actors
  that were never cut, and its preservation by every system step.
-/
namespace Hannibal
namespace C16Q
open AState

/-! ### `monC16q` as guard + update -/

def bad16q (σ : C16qSt) : SLabel → Bool
  | .act a (.quiescent _) => !σ.stopped.contains a && σ.base.issued.any (fun b => σ.base.owed b a > 0)
  | _ => false

def next16q (σ : C16qSt) (l : SLabel) : C16qSt :=
  { base := next16 σ.base l
    stopped := (match l with
      | .act a l' => if cuts l' then a :: σ.stopped else σ.stopped
      | _ => σ.stopped) }

theorem monC16q_step (σ : C16qSt) (l : SLabel) :
    monC16q.step σ l = if bad16q σ l then none else some (next16q σ l) := by
  cases l with
  | spawn a cfg h0 k0 => rfl
  | addChild p ty c h => rfl
  | bcast p ty b => rfl
  | act a l =>
    cases l <;> simp only [monC16q, bad16q, next16q] <;> (try (split <;> rfl))
    case quiescent pend =>
      have : cuts (.quiescent pend) = false := rfl
      simp only [this]
      split <;> simp_all

/-! ### what the monitor's update does to `owed` -/

theorem owed_act (σ : C16St) (a : Nat) (l : Label) (b c : Nat) :
    (next16 σ (.act a l)).owed b c = σ.owed b c - (if c = a then takes b l else 0) := by
  by_cases hx : ∃ b' m, l = .extBegin b' m
  · obtain ⟨b', m, rfl⟩ := hx
    simp only [next16, takes]
    by_cases hc : c = a
    · subst hc
      by_cases hb : b = b'
      · subst hb; simp
      · simp [hb]
    · simp [hc]
  · have hne : ∀ b' m, l ≠ .extBegin b' m := fun b' m e => hx ⟨b', m, e⟩
    have hnext : (next16 σ (.act a l)).owed = σ.owed := by
      cases l <;> simp only [next16] <;> (try (split <;> rfl))
      case extBegin b' m => exact absurd rfl (hne b' m)
    rw [hnext, takes_zero hne]; simp

theorem regCount_zero {kids : List Kid} {p ty c : Nat} (h : ∀ k ∈ kids, k.c ≠ c) : regCount kids p ty c = 0 := by
  unfold regCount
  have : kids.filter (fun k => k.p == p && k.ty == ty && k.c == c) = [] := by
    apply List.filter_eq_nil_iff.mpr
    intro k hk; simp; intro _ _; exact h k hk
  simp [this]

/-! ### releases and broadcasts, seen from one actor -/

theorem dropOne_shape (s : AState) (h : Nat) :
    ∃ H, (s.stepDrop h).getD s = { s with handles := H } ∧ ∀ p ∈ H, p ∈ s.handles := by
  cases hd : s.stepDrop h with
  | none => exact ⟨s.handles, rfl, fun p hp => hp⟩
  | some s' =>
    rw [stepDrop_spec hd]
    exact ⟨_, rfl, fun p hp => (List.mem_filter.mp hp).1⟩

theorem dropAll_shape : ∀ (hs : List Nat) (s : AState),
    ∃ H, Sys.dropAll hs s = { s with handles := H } ∧ ∀ p ∈ H, p ∈ s.handles
  | [], s => ⟨s.handles, rfl, fun p hp => hp⟩
  | h :: hs, s => by
    obtain ⟨H1, e1, sub1⟩ := dropOne_shape s h
    obtain ⟨H2, e2, sub2⟩ := dropAll_shape hs ((s.stepDrop h).getD s)
    refine ⟨H2, ?_, ?_⟩
    · have : Sys.dropAll (h :: hs) s = Sys.dropAll hs ((s.stepDrop h).getD s) := by
        simp [Sys.dropAll]
      rw [this, e2, e1]
    · intro p hp
      have := sub2 p hp
      rw [e1] at this
      exact sub1 p this

theorem unc_handles {s : AState} {H : List (Nat × HKind)} (hu : Unc s) (hsub : ∀ p ∈ H, p ∈ s.handles) :
    Unc { s with handles := H } := by
  rcases hu with hc | hg
  · exact .inl ⟨hc.ph, hc.rx, hc.nostop, hc.norst, hc.strm⟩
  · exact .inr ⟨⟨fun p hp => hg.dead.nh p (hsub p hp), hg.dead.no, hg.dead.nt⟩, hg.none⟩

theorem unc_dropAll (hs : List Nat) {s : AState} (hu : Unc s) : Unc (Sys.dropAll hs s) := by
  obtain ⟨H, e, sub⟩ := dropAll_shape hs s
  rw [e]; exact unc_handles hu sub

def extEntry (b : Nat) : Entry := { pl := .ext b, tok := .stale }

theorem pushAll_shape (b : Nat) : ∀ (n : Nat) (s : AState), s.chan.rx = true →
    ∃ C, Sys.pushAll b n s = { s with chan := C } ∧ C.rx = true ∧
      C.queue = s.chan.queue ++ List.replicate n (extEntry b)
  | 0, s, hrx => ⟨s.chan, rfl, hrx, by simp⟩
  | n + 1, s, hrx => by
    have h1 : (s.stepExtPush b).getD s = { s with chan := s.chan.enq (extEntry b) } := by
      unfold stepExtPush; simp [hrx, push, extEntry]
    obtain ⟨C, e, hr, hq⟩ := pushAll_shape b n ((s.stepExtPush b).getD s) (by rw [h1]; simpa using hrx)
    refine ⟨C, ?_, hr, ?_⟩
    · simp only [Sys.pushAll]; rw [e, h1]
    · rw [hq, h1]; simp [List.replicate_succ]

theorem countP_ext (P : Payload → Bool) (b n : Nat) :
    (List.replicate n (extEntry b)).countP (fun e => P e.pl) = if P (.ext b) then n else 0 := by
  rw [List.countP_replicate]; rfl

/-- a broadcast reaching an actor whose loop runs: exactly `n` more copies wait -/
theorem calm_pushAll (b n : Nat) {s : AState} (hc : Calm s) :
    Calm (Sys.pushAll b n s) ∧ ∀ b', extCnt b' (Sys.pushAll b n s) = extCnt b' s + (if b' = b then n else 0) := by
  obtain ⟨C, e, hr, hq⟩ := pushAll_shape b n s hc.rx
  rw [e]
  refine ⟨⟨hc.ph, hr, ?_, ?_, hc.strm⟩, ?_⟩
  · have := hc.nostop
    simp only [cntP] at this ⊢
    rw [hq, List.countP_append, countP_ext, this]; simp [isStopP]
  · have := hc.norst
    simp only [cntP] at this ⊢
    rw [hq, List.countP_append, countP_ext, this]; simp [isRestartP]
  · intro b'
    simp only [extCnt, cntP]
    rw [hq, List.countP_append, countP_ext]
    by_cases hb : b' = b
    · subst hb; simp [isExtP]
    · have : (b == b') = false := by simp; exact fun e => hb e.symm
      simp [isExtP, hb, this]

/-- no registration points to an actor with no strong handle -/
theorem no_kid_of_dead {S : Sys} (hi : SInv S) {c : Nat} {sc : AState} (hg : S.get c = some sc) (hd : Dead05 sc) :
    ∀ k ∈ S.kids, k.c ≠ c := by
  intro k hk e
  obtain ⟨sc', hg', h1, _⟩ := hi.held k hk
  rw [e, hg] at hg'; simp at hg'; subst hg'
  obtain ⟨p, hp, hp2⟩ := handleKind_mem h1
  have := hd.nh p hp
  rw [hp2] at this; simp [HKind.strong] at this

theorem no_kid_of_absent {S : Sys} (hi : SInv S) {c : Nat} (hg : S.get c = none) : ∀ k ∈ S.kids, k.c ≠ c := by
  intro k hk e
  obtain ⟨sc', hg', _⟩ := hi.held k hk
  rw [e, hg] at hg'; simp at hg'

/-! ### the invariant -/

structure QInv (S : Sys) (σ : C16qSt) : Prop where
  absent : ∀ c, S.get c = none → ∀ b, σ.base.owed b c = 0
  live : ∀ c sc, S.get c = some sc → σ.stopped.contains c = false →
    Unc sc ∧ ∀ b, σ.base.owed b c = extCnt b sc

/-- the pieces of an `act` step -/
theorem sstep_act_get {w : Wiring} {S S' : Sys} {a : Nat} {l : Label} (hs : sstep w S (.act a l) = some S') :
    ∃ s s', S.get a = some s ∧ S.clientOk a l = true ∧ step w s l = some s' ∧
      ∀ c, S'.get c = (if c = a then some s' else S.get c).map
        (fun sc => if l.endsTask then Sys.dropAll (S.heldBy a c) sc else sc) := by
  simp only [sstep] at hs
  cases hg : S.get a with
  | none => simp [hg] at hs
  | some s =>
    simp only [hg] at hs
    split at hs
    · simp at hs
    · rename_i hcl
      have hcl' : S.clientOk a l = true := by simpa using hcl
      cases hst : step w s l with
      | none => simp [hst] at hs
      | some s' =>
        simp only [hst] at hs; simp at hs
        refine ⟨s, s', rfl, hcl', hst, ?_⟩
        intro c
        have hmid : (S.set a s').get c = if c = a then some s' else S.get c := by
          rw [Sys.get_set]
          by_cases hc : c = a
          · subst hc; simp [hg]
          · simp [hc]
        by_cases ht : l.endsTask = true
        · simp only [ht, if_true] at hs ⊢; subst hs
          rw [get_release, hmid]; rfl
        · simp only [ht] at hs ⊢; simp at hs; subst hs
          rw [hmid]; simp

theorem qinv_step {w : Wiring} (hw : WellWired05 w) {S S' : Sys} {σ : C16qSt} {l : SLabel} (hsi : SInv S)
    (hk : σ.base.kids = S.kids) (hi : QInv S σ) (hs : sstep w S l = some S') :
    bad16q σ l = false ∧ QInv S' (next16q σ l) := by
  cases l with
  | spawn a cfg h0 k0 =>
    refine ⟨rfl, ?_⟩
    simp only [sstep] at hs
    split at hs
    · simp at hs
    · rename_i hnone
      simp at hs; subst hs
      have hn : S.get a = none := by simpa using hnone
      refine ⟨?_, ?_⟩
      · intro c hg b
        rw [Sys.get_append_new S a c _ hn] at hg
        by_cases hc : c = a
        · simp [hc] at hg
        · simp [hc] at hg; exact hi.absent c hg b
      · intro c sc hg hst
        rw [Sys.get_append_new S a c _ hn] at hg
        by_cases hc : c = a
        · simp [hc] at hg; subst hg; subst hc
          exact ⟨unc_init _ _ _, fun b => by rw [extCnt_init]; exact hi.absent c hn b⟩
        · simp [hc] at hg; exact hi.live c sc hg hst
  | addChild p ty c h =>
    refine ⟨rfl, ?_⟩
    simp only [sstep] at hs
    (repeat' (split at hs)) <;> (first | (simp at hs; done) | (simp at hs; subst hs; exact ⟨hi.absent, hi.live⟩))
  | bcast p ty b =>
    refine ⟨rfl, ?_⟩
    simp only [sstep] at hs
    cases hgp : S.get p with
    | none => simp [hgp] at hs
    | some sp =>
      simp only [hgp] at hs
      split at hs
      · simp at hs; subst hs
        have howed : ∀ b' c, (next16q σ (.bcast p ty b)).base.owed b' c =
            σ.base.owed b' c + (if b' = b then regCount S.kids p ty c else 0) := by
          intro b' c; simp only [next16q, next16, hk]
        refine ⟨?_, ?_⟩
        · intro c hg b'
          simp only [Sys.broadcast] at hg
          rw [Sys.get_applyTo] at hg
          cases hgc : S.get c with
          | some sc0 => simp [hgc] at hg
          | none =>
            rw [howed, regCount_zero (no_kid_of_absent hsi hgc), hi.absent c hgc b']; simp
        · intro c sc hg hst
          simp only [Sys.broadcast] at hg
          rw [Sys.get_applyTo] at hg
          cases hgc : S.get c with
          | none => simp [hgc] at hg
          | some sc0 =>
            simp [hgc] at hg; subst hg
            obtain ⟨hu, ho⟩ := hi.live c sc0 hgc hst
            rcases hu with hc | hgone
            · obtain ⟨h1, h2⟩ := calm_pushAll b (S.kids.filter (fun k => k.p == p && k.ty == ty && k.c == c)).length hc
              refine ⟨.inl h1, ?_⟩
              intro b'
              rw [howed, h2 b', ho b']; rfl
            · have hz := regCount_zero (p := p) (ty := ty) (no_kid_of_dead hsi hgc hgone.dead)
              have hz' : (S.kids.filter (fun k => k.p == p && k.ty == ty && k.c == c)).length = 0 := hz
              rw [hz']
              refine ⟨.inr hgone, ?_⟩
              intro b'
              rw [howed, hz, ho b']; simp [Sys.pushAll]
      · simp at hs
  | act a l =>
    obtain ⟨s, s', hg, hcl, hst, hget⟩ := sstep_act_get hs
    have hnp := clientOk_not_extPush hcl
    refine ⟨?_, ?_, ?_⟩
    · -- the guard
      cases l <;> (try rfl)
      case quiescent pend =>
        simp only [bad16q]
        cases hc : σ.stopped.contains a
        · obtain ⟨hu, ho⟩ := hi.live a s hg hc
          have hz : σ.base.issued.any (fun b => σ.base.owed b a > 0) = false := by
            apply List.any_eq_false.mpr
            intro b _
            rw [ho b, unc_quiet hu hst b]; simp
          simp [hz]
        · simp
    · intro c hgc b
      rw [hget c] at hgc
      by_cases hc : c = a
      · simp [hc] at hgc
      · simp only [hc, if_false] at hgc
        cases hgc0 : S.get c with
        | some sc0 => simp [hgc0] at hgc
        | none =>
          simp only [next16q]
          rw [owed_act, hi.absent c hgc0 b]; simp
    · intro c sc hgc hstp
      rw [hget c] at hgc
      by_cases hc : c = a
      · subst hc
        simp only [if_true, Option.map_some, Option.some.injEq] at hgc
        have hcut : cuts l = false := by
          cases hcu : cuts l
          · rfl
          · simp [next16q, hcu] at hstp
        have hst0 : σ.stopped.contains c = false := by simpa [next16q, hcut] using hstp
        obtain ⟨hu, ho⟩ := hi.live c s hg hst0
        obtain ⟨hu', hcnt⟩ := unc_step hw hu hst hcut hnp
        have howed : ∀ b, (next16q σ (.act c l)).base.owed b c = extCnt b s' := by
          intro b
          simp only [next16q]
          rw [owed_act, ho b, hcnt b]; simp
        by_cases ht : l.endsTask = true
        · simp only [ht, if_true] at hgc; subst hgc
          exact ⟨unc_dropAll _ hu', fun b => by rw [howed b, extCnt_dropAll]⟩
        · simp only [ht] at hgc; simp at hgc; subst hgc
          exact ⟨hu', howed⟩
      · simp only [hc, if_false] at hgc
        cases hgc0 : S.get c with
        | none => simp [hgc0] at hgc
        | some sc0 =>
          simp only [hgc0, Option.map_some, Option.some.injEq] at hgc
          have hst0 : σ.stopped.contains c = false := by
            have hca : (c == a) = false := by simp [hc]
            by_cases hcu : cuts l = true
            · simp only [next16q, hcu, if_true, List.contains_cons, hca, Bool.false_or] at hstp
              exact hstp
            · simpa [next16q, hcu] using hstp
          obtain ⟨hu, ho⟩ := hi.live c sc0 hgc0 hst0
          have howed : ∀ b, (next16q σ (.act a l)).base.owed b c = extCnt b sc0 := by
            intro b
            simp only [next16q]
            rw [owed_act, ho b]; simp [hc]
          by_cases ht : l.endsTask = true
          · simp only [ht, if_true] at hgc; subst hgc
            exact ⟨unc_dropAll _ hu, fun b => by rw [howed b, extCnt_dropAll]⟩
          · simp only [ht] at hgc; simp at hgc; subst hgc
            exact ⟨hu, howed⟩

end C16Q
end Hannibal
