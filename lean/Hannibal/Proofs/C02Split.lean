import Hannibal.Monitor.C02
/-
  The split of the C02 monitor is exact: the original automaton rejects a trace iff the proved part
  (`monC02`) or the trace-only part (`monC02t`) does.
-/
namespace Hannibal

set_option maxHeartbeats 1000000 in
theorem monC02orig_step (c : MonCtx) (st : C02St) (l : Label) :
    (monC02orig c).step st l = if bad02 st l || bad02t st l then none else some (next02 st l) := by
  cases l
  case ret o r =>
    simp only [monC02orig, bad02, bad02t, next02]
    by_cases hret : st.returned.contains o = true
    · rw [if_pos hret]; simp only [hret, Bool.true_or, if_true]
    · rw [if_neg hret]
      have hf : st.returned.contains o = false := by simpa using hret
      simp only [hf, Bool.false_or]
      cases hl : lookup o st.ops with
      | none => simp
      | some kl =>
        obtain ⟨k, late⟩ := kl
        cases late <;> cases hg : st.graceful <;> cases k <;> cases r <;>
          simp [replyOk, lateOk, Res.isErr, OpKind.msg?, OpKind.isCall] <;>
          (rename_i m rep; by_cases h1 : rep.m = m <;> by_cases h2 : m ∈ st.finishedOk <;> simp [h1, h2])
  case quiescent pend =>
    simp only [monC02orig, bad02, bad02t, next02, pendOk]
    split <;> simp_all
  case cbEnd cb ok =>
    cases cb <;> cases ok <;> simp [monC02orig, bad02, bad02t, next02, Label.terminates]
  all_goals simp [monC02orig, bad02, bad02t, next02, Label.terminates]

theorem monC02_split_run (c : MonCtx) : ∀ (ls : List Label) (st : C02St),
    ((monC02orig c).run st ls).isSome = (((monC02 c).run st ls).isSome && ((monC02t c).run st ls).isSome)
  | [], st => by simp [Mon.run]
  | l :: ls, st => by
    simp only [Mon.run, monC02orig_step]
    cases h1 : bad02 st l <;> cases h2 : bad02t st l <;> simp [monC02, monC02t, h1, h2]
    · have := monC02_split_run c ls (next02 st l)
      simpa [monC02, monC02t] using this
/-- `monC02orig` accepts exactly the traces accepted by both `monC02` and `monC02t`. -/
theorem monC02_split (c : MonCtx) (ls : List Label) :
    (monC02orig c).ok ls = ((monC02 c).ok ls && (monC02t c).ok ls) :=
  monC02_split_run c ls _

end Hannibal
