import Hannibal.Proofs.C02Step
import Hannibal.Monitor.CancelErr
/-
  CancelErr support: which steps can turn an operation record into `cancelled`, and with which label.
-/
set_option linter.unusedSimpArgs false
set_option linter.unusedVariables false
namespace Hannibal
open AState

/-! ### projections of the monitor update -/

@[simp] theorem nextCancelErr_ops (σ : CancelSt) (l : Label) :
    (nextCancelErr σ l).ops = (match l with
      | .begin o _ k => (o, k) :: σ.ops
      | _ => σ.ops) := by
  cases l <;> try (simp [nextCancelErr]; done)
  all_goals (unfold nextCancelErr; split <;> simp_all <;> split <;> rfl)

theorem nextCancelErr_term_mono (σ : CancelSt) (l : Label) (h : σ.term = true) :
    (nextCancelErr σ l).term = true := by
  cases l <;> try (simp [nextCancelErr, h]; done)
  all_goals (unfold nextCancelErr; split <;> (try split) <;> simp_all)

theorem nextCancelErr_term_of (σ : CancelSt) (l : Label) (h : l.terminates = true) :
    (nextCancelErr σ l).term = true := by
  cases l <;> simp [Label.terminates] at h <;> simp [nextCancelErr, Label.terminates]

theorem nextCancelErr_broken_mono (σ : CancelSt) (l : Label) (m : Nat) (h : σ.broken.contains m = true) :
    (nextCancelErr σ l).broken.contains m = true := by
  cases l <;> try (simp [nextCancelErr, h]; done)
  all_goals (unfold nextCancelErr; split <;> (try split) <;> simp_all)

theorem nextCancelErr_broken_abandon (σ : CancelSt) (m : Nat) :
    (nextCancelErr σ (.cbAbandon (.handle m))).broken.contains m = true := by
  simp [nextCancelErr]

theorem nextCancelErr_broken_panic (σ : CancelSt) (m : Nat) :
    (nextCancelErr σ (.cbPanic (.handle m))).broken.contains m = true := by
  simp [nextCancelErr]

/-! ### the per-record coupling -/

/-- a cancelled record has a reason the monitor has seen; a refused one was not refused with `canceled` -/
def cancOk (σ : CancelSt) (r : OpRec) : Bool :=
  match r.st with
  | .cancelled =>
    σ.term || (match r.kind.msg? with
      | some m => r.kind.isCall && σ.broken.contains m
      | none => false)
  | .failed e => e != .canceled
  | _ => true

theorem cancOk_next {σ : CancelSt} {l : Label} {r : OpRec} (h : cancOk σ r = true) :
    cancOk (nextCancelErr σ l) r = true := by
  unfold cancOk at h ⊢
  split
  · rename_i hst
    simp only [hst] at h
    cases ht : σ.term
    · simp only [ht, Bool.false_or] at h
      cases hm : r.kind.msg? with
      | none => simp [hm] at h
      | some m =>
        simp only [hm, Bool.and_eq_true] at h
        have hb := nextCancelErr_broken_mono σ l m h.2
        simp only [hm, h.1, hb, Bool.and_self, Bool.or_true]
    · simp [nextCancelErr_term_mono σ l ht]
  · rename_i e hst; simpa [hst] using h
  · rfl

/-! ### steps that do not cancel -/

/-- how a step other than `begin` / `ret` / `cdrop`, the terminating labels, `cbAbandon` and `cbPanic`
    transforms the op table -/
inductive OpsChange2 (s s' : AState) (l : Label) : Prop where
  | same (h : s'.ops = s.ops)
  | answer (m o : Nat) (dl : Option Nat) (hp : s.phase = .handling (.handle m) (some o) dl)
      (hl : l = .cbEnd (.handle m) true) (h : s'.ops = (s.answer (some o) m).ops)
  | ping (o : Nat) (tok : Tok) (rest : List Entry) (hq : s.chan.queue = { pl := .ping o, tok } :: rest)
      (h : s'.ops = s.ops.map (pingMap o))

macro "opsame2" hs:ident : tactic => `(tactic|
  ((repeat' (split at $hs:ident)) <;>
   (first
     | (simp at $hs:ident; done)
     | (simp at $hs:ident; subst $hs:ident; first
         | exact OpsChange2.same rfl
         | (refine OpsChange2.same ?_; simp; done)))))

def Label.mayCancel : Label → Bool
  | .cbAbandon _ | .cbPanic _ | .cancel | .taskDone | .taskPanic => true
  | _ => false

theorem step_opsChange2 {w s l s'} (hs : step w s l = some s') (hl : l.isOpEdge = false)
    (hc : l.mayCancel = false) : OpsChange2 s s' l := by
  cases l <;> simp [Label.isOpEdge] at hl <;> simp [Label.mayCancel] at hc
  case cbEnd cb ok =>
    simp only [step, stepCbEnd] at hs
    split at hs
    · simp at hs
    · split at hs
      case h_2 =>
        rename_i m m' slot dl hph
        split at hs
        · rename_i hc
          simp at hc hs
          obtain ⟨rfl, rfl⟩ := hc
          subst hs
          cases slot with
          | none => exact .same (by simp [answer])
          | some o => exact .answer m o dl hph rfl rfl
        · simp at hs
      all_goals opsame2 hs
  case tDeq =>
    simp only [step, stepDeq] at hs
    split at hs
    · rename_i e rest hph hq
      split at hs
      · simp at hs
      · try simp only at hs
        split at hs
        · rename_i o hpl
          simp at hs; subst hs
          obtain ⟨pl, tok⟩ := e
          simp at hpl; subst hpl
          exact .ping o tok rest hq (by simp [pingMap])
        all_goals opsame2 hs
    · simp at hs
  all_goals (unfold_steps hs; opsame2 hs)

/-- such a step produces no new `cancelled` / `failed` record -/
theorem cancOk_keep {w s l s'} {σ : CancelSt} (hs : step w s l = some s') (hl : l.isOpEdge = false)
    (hc : l.mayCancel = false) (hops : ∀ r ∈ s.ops, cancOk σ r = true) :
    ∀ r' ∈ s'.ops, cancOk (nextCancelErr σ l) r' = true := by
  intro r' hr'
  cases step_opsChange2 hs hl hc with
  | same h => rw [h] at hr'; exact cancOk_next (hops r' hr')
  | answer m o dl hp hl h =>
    rw [h, answer_some_ops] at hr'
    obtain ⟨r, hr, rfl⟩ := List.mem_map.mp hr'
    split
    · simp [cancOk]
    · exact cancOk_next (hops r hr)
  | ping o tok rest hq h =>
    rw [h] at hr'
    obtain ⟨r, hr, rfl⟩ := List.mem_map.mp hr'
    unfold pingMap
    split
    · simp [cancOk]
    · exact cancOk_next (hops r hr)

/-! ### steps that cancel -/

/-- the terminating labels: the monitor's `term` is set, every record is fine -/
theorem cancOk_term {s' : AState} {σ : CancelSt} {l : Label} (ht : l.terminates = true)
    (hpres : ∀ r' ∈ s'.ops, ∀ e, r'.st = .failed e → e ≠ .canceled) :
    ∀ r' ∈ s'.ops, cancOk (nextCancelErr σ l) r' = true := by
  intro r' hr'
  unfold cancOk
  split
  · simp [nextCancelErr_term_of σ l ht]
  · rename_i e hst; simpa using hpres r' hr' e hst
  · rfl

theorem cancOk_failed {σ : CancelSt} {r : OpRec} {e : ErrKind} (h : cancOk σ r = true) (hst : r.st = .failed e) :
    e ≠ .canceled := by
  unfold cancOk at h
  simp only [hst] at h
  simpa using h

/-- what `cbAbandon` does to the op table -/
theorem stepCbAbandon_spec {s cb s'} (hs : stepCbAbandon s cb = some s') :
    s'.ops = s.ops ∨ ∃ slot dl, s.phase = .handling cb slot dl ∧
      s'.ops = (s.cancelSlots (match slot with | some o => [o] | none => [])).ops := by
  unfold stepCbAbandon at hs
  split at hs
  · rename_i cb' slot dl hp
    split at hs
    · rename_i hc
      simp at hc
      obtain ⟨rfl, _⟩ := hc
      cases hf : s.cfg.failOnTimeout <;> simp only [hf] at hs <;> simp at hs <;> subst hs <;>
        exact .inr ⟨slot, _, hp, rfl⟩
    · simp at hs
  · split at hs
    · simp at hs; subst hs; exact .inl rfl
    · simp at hs
  · simp at hs

/-- what `cbPanic` does to the op table -/
theorem stepCbPanic_spec {s cb s'} (hs : stepCbPanic s cb = some s') :
    s.openCb = some cb ∧ s'.ops = (s.cancelSlots s.curSlot).ops := by
  unfold stepCbPanic at hs
  split at hs
  · rename_i hc
    simp at hs; subst hs
    exact ⟨by simpa using hc, rfl⟩
  · simp at hs

theorem beginWait_newst (s : AState) (o h k j) :
    ∃ st, (s.beginWait o h k j).ops = s.ops ++ [{ o, h, kind := k, st }] ∧ st ≠ .cancelled ∧
      st ≠ .failed .canceled := by
  unfold beginWait; split
  · split
    · exact ⟨.joinNone, rfl, by simp, by simp⟩
    · exact ⟨.joining, rfl, by simp, by simp⟩
  · exact ⟨.pending, rfl, by simp, by simp⟩

/-- what `begin` appends -/
theorem stepBegin_newst_ce {w s o h k s'} (hs : stepBegin w s o h k = some s') :
    ∃ st, s'.ops = s.ops ++ [{ o, h, kind := k, st }] ∧ st ≠ .cancelled ∧ st ≠ .failed .canceled := by
  unfold stepBegin at hs
  split at hs
  · simp at hs
  · split at hs
    · simp at hs
    · split at hs
      · simp at hs; subst hs; exact ⟨.failed .alreadyStopped, rfl, by simp, by simp⟩
      · split at hs
        · simp at hs; subst hs
          exact beginWait_newst _ _ _ _ _
        · split at hs
          · simp at hs; subst hs
            obtain ⟨st, h1, h2⟩ := beginWait_newst (s.push _ _ _) o h k _
            exact ⟨st, by simpa using h1, h2⟩
          · simp at hs; subst hs; exact ⟨.failed .send, rfl, by simp, by simp⟩

end Hannibal
