import Hannibal.Proofs.Run
/-
  Lifting a one-step simulation to whole runs when the label list is also accepted by a
  *well-formedness* automaton `g` (fresh operation ids, fresh message numbers, ...): the invariant may
  mention the state of `g`, and the step obligation may use that `g` accepts the label.
-/
namespace Hannibal

/-- both automata run side by side; fails as soon as one of them fails -/
def Mon.prod {α β : Type} (a : Mon α) (b : Mon β) : Mon (α × β) where
  init := (a.init, b.init)
  step st l :=
    match a.step st.1 l, b.step st.2 l with
    | some x, some y => some (x, y)
    | _, _ => none

theorem Mon.prod_step_some {α β : Type} {a : Mon α} {b : Mon β} {st st' : α × β} {l : Label}
    (h : (a.prod b).step st l = some st') : a.step st.1 l = some st'.1 ∧ b.step st.2 l = some st'.2 := by
  simp only [Mon.prod] at h
  cases ha : a.step st.1 l <;> cases hb : b.step st.2 l <;> simp [ha, hb] at h
  subst h; exact ⟨rfl, rfl⟩

theorem Mon.prod_run {α β : Type} (a : Mon α) (b : Mon β) :
    ∀ (ls : List Label) (x : α) (y : β),
      ((a.prod b).run (x, y) ls).isSome = ((a.run x ls).isSome && (b.run y ls).isSome)
  | [], _, _ => by simp [Mon.run]
  | l :: ls, x, y => by
    simp only [Mon.run]
    cases ha : a.step x l <;> cases hb : b.step y l <;> simp [Mon.prod, ha, hb]
    rename_i x' y'
    have := Mon.prod_run a b ls x' y'
    simpa [Mon.prod] using this

theorem Mon.prod_ok {α β : Type} (a : Mon α) (b : Mon β) (ls : List Label) :
    (a.prod b).ok ls = (a.ok ls && b.ok ls) := by
  unfold Mon.ok
  exact Mon.prod_run a b ls a.init b.init

theorem run_lift_g {σ γ : Type} (m : Mon σ) (g : Mon γ) (w : Wiring) (Inv : AState → σ → γ → Prop)
    (hstep : ∀ s s' st gs gs' l, Inv s st gs → step w s l = some s' → g.step gs l = some gs' →
      ∃ st', m.step st l = some st' ∧ Inv s' st' gs') :
    ∀ (ls : List Label) (s s' : AState) (st : σ) (gs : γ), Inv s st gs → run w s ls = some s' →
      (g.run gs ls).isSome = true → (m.run st ls).isSome = true
  | [], _, _, _, _, _, _, _ => by simp [Mon.run]
  | l :: ls, s, s', st, gs, hi, hr, hg => by
    simp only [run] at hr
    cases hs : step w s l with
    | none => simp [hs] at hr
    | some s1 =>
      simp only [hs] at hr
      simp only [Mon.run] at hg ⊢
      cases hgs : g.step gs l with
      | none => simp [hgs] at hg
      | some gs1 =>
        simp only [hgs] at hg
        obtain ⟨st1, hm, hi1⟩ := hstep s s1 st gs gs1 l hi hs hgs
        simp only [hm]
        exact run_lift_g m g w Inv hstep ls s1 s' st1 gs1 hi1 hr hg

theorem ok_of_run_lift_g {σ γ : Type} (m : Mon σ) (g : Mon γ) (w : Wiring) (Inv : AState → σ → γ → Prop)
    (hstep : ∀ s s' st gs gs' l, Inv s st gs → step w s l = some s' → g.step gs l = some gs' →
      ∃ st', m.step st l = some st' ∧ Inv s' st' gs')
    (s0 : AState) (hinit : Inv s0 m.init g.init) (ls : List Label) (s : AState) (hr : run w s0 ls = some s)
    (hg : g.ok ls = true) : m.ok ls = true := by
  unfold Mon.ok at *
  exact run_lift_g m g w Inv hstep ls s0 s m.init g.init hinit hr hg

end Hannibal
