import Hannibal.Proofs.C07OMon
import Hannibal.Proofs.C05Phase
/-
  C07 (order), part 1: the mailbox as a list of payloads, the bookkeeping predicate `qOk` ("every queued
  client message sits behind exactly the restart requests that were accepted before it was submitted"),
  and what each label does to the payload list and to the phase.
-/
set_option linter.unusedSimpArgs false
set_option linter.unusedVariables false
namespace Hannibal
open AState

/-- the payloads in the mailbox, oldest first -/
def AState.pls (s : AState) : List Payload := s.chan.queue.map (·.pl)

/-- `base` = incarnation that handles the head of the list; each queued restart request moves it on by one;
    after the whole list it is `acc + 1` -/
def qOk (exp : List (Nat × Nat)) (acc : Nat) : Nat → List Payload → Bool
  | base, [] => base == acc + 1
  | base, .restart :: q => qOk exp acc (base + 1) q
  | base, .msg m _ :: q =>
    (match lookup m exp with | some n => n + 1 == base | none => true) && qOk exp acc base q
  | base, _ :: q => qOk exp acc base q

def isMsgP : Payload → Bool
  | .msg _ _ => true
  | _ => false

theorem qOk_cons_other {exp acc base} {p : Payload} {q} (h1 : isMsgP p = false) (h2 : isRestartP p = false) :
    qOk exp acc base (p :: q) = qOk exp acc base q := by
  cases p <;> simp [isMsgP, isRestartP] at h1 h2 <;> simp [qOk]

theorem qOk_snoc_restart {exp acc} : ∀ {base q}, qOk exp acc base q = true →
    qOk exp (acc + 1) base (q ++ [.restart]) = true
  | base, [], h => by simp [qOk] at h ⊢; omega
  | base, p :: q, h => by
    cases p <;> simp only [List.cons_append, qOk] at h ⊢
    case msg m sl =>
      simp only [Bool.and_eq_true] at h ⊢
      exact ⟨h.1, qOk_snoc_restart h.2⟩
    all_goals exact qOk_snoc_restart h

theorem qOk_snoc_other {exp acc} {p : Payload} (h1 : isMsgP p = false) (h2 : isRestartP p = false) :
    ∀ {base q}, qOk exp acc base (q ++ [p]) = qOk exp acc base q
  | base, [] => by simp only [List.nil_append]; rw [qOk_cons_other h1 h2]
  | base, p' :: q => by
    cases p' <;> simp only [List.cons_append, qOk]
    case msg m sl => rw [qOk_snoc_other h1 h2]
    all_goals exact qOk_snoc_other h1 h2

/-- a message nobody expects anything of (timer / tick / external) -/
theorem qOk_snoc_msg_none {exp acc m sl} (hm : lookup m exp = none) :
    ∀ {base q}, qOk exp acc base (q ++ [.msg m sl]) = qOk exp acc base q
  | base, [] => by simp [qOk, hm]
  | base, p' :: q => by
    cases p' <;> simp only [List.cons_append, qOk]
    case msg m' sl' => rw [qOk_snoc_msg_none hm]
    all_goals exact qOk_snoc_msg_none hm

/-- a client message submitted now: it is expected in incarnation `acc + 1` -/
theorem qOk_snoc_msg_acc {exp acc m sl} (hm : lookup m exp = some acc) :
    ∀ {base q}, qOk exp acc base q = true → qOk exp acc base (q ++ [.msg m sl]) = true
  | base, [], h => by simp [qOk, hm] at h ⊢; omega
  | base, p' :: q, h => by
    cases p' <;> simp only [List.cons_append, qOk] at h ⊢
    case msg m' sl' =>
      simp only [Bool.and_eq_true] at h ⊢
      exact ⟨h.1, qOk_snoc_msg_acc hm h.2⟩
    all_goals exact qOk_snoc_msg_acc hm h

/-- recording an expectation for a message number that is not in the mailbox changes nothing -/
theorem qOk_expect {exp acc m n} :
    ∀ {base q}, (∀ sl, Payload.msg m sl ∉ q) → qOk ((m, n) :: exp) acc base q = qOk exp acc base q
  | base, [], _ => by simp [qOk]
  | base, p' :: q, h => by
    have hq : ∀ sl, Payload.msg m sl ∉ q := fun sl hh => h sl (List.mem_cons_of_mem _ hh)
    cases p' <;> simp only [qOk]
    case msg m' sl' =>
      have hne : m ≠ m' := by
        intro he; subst he; exact h sl' (List.mem_cons_self ..)
      rw [lookup_cons_ne hne, qOk_expect hq]
    all_goals exact qOk_expect hq

/-! ### what the labels do to the payload list and to the phase -/

/-- 1 while a `started` is still owed for the restart request (or the spawn) being served -/
def pend : Phase → Nat
  | .unstarted | .rstBegin | .rstStopping | .rstStopped _ => 1
  | _ => 0

/-- the loop has not returned / failed -/
def alive07 : Phase → Bool
  | .exiting _ | .done _ => false
  | _ => true

/-- the payload an operation submits -/
def begPl (o : Nat) : OpKind → Option Payload
  | .send m | .trySend m | .tryForce m => some (.msg m none)
  | .call m | .callw m | .tryCall m => some (.msg m (some o))
  | .ping => some (.ping o)
  | .halt | .tryHalt | .consume => some .stop
  | .await | .join => none

theorem plan_pl07 (w : Wiring) (hk : HKind) (o : Nat) (k : OpKind) : (plan w hk o k).pl = begPl o k := by
  cases k <;> rfl

@[simp] theorem push_pls (s : AState) (pl path tok) : (s.push pl path tok).pls = s.pls ++ [pl] := by
  simp [pls]
@[simp] theorem addOp_pls (s : AState) (o h k st) : (s.addOp o h k st).pls = s.pls := rfl
@[simp] theorem setTimer_pls (s : AState) (t st) : (s.setTimer t st).pls = s.pls := rfl
@[simp] theorem beginWait_pls (s : AState) (o h k j) : (s.beginWait o h k j).pls = s.pls := by
  simp [pls]
@[simp] theorem beginWait_phase07 (s : AState) (o h k j) : (s.beginWait o h k j).phase = s.phase := by
  unfold beginWait; split
  · split <;> rfl
  · rfl

theorem stepBegin_pls {w s o h k s'} (hs : stepBegin w s o h k = some s') :
    s'.phase = s.phase ∧ (s'.pls = s.pls ∨ ∃ pl, begPl o k = some pl ∧ s'.pls = s.pls ++ [pl]) := by
  unfold stepBegin at hs
  cases hk0 : s.handleKind h with
  | none => simp [hk0] at hs
  | some hk =>
    simp only [hk0, plan_pl07] at hs
    split at hs
    · simp at hs
    · split at hs
      · simp at hs; subst hs; exact ⟨rfl, .inl rfl⟩
      · cases hpl : begPl o k with
        | none => simp only [hpl] at hs; simp at hs; subst hs; exact ⟨by simp, .inl (by simp)⟩
        | some pl =>
          simp only [hpl] at hs
          split at hs
          · simp at hs; subst hs; exact ⟨by simp, .inr ⟨pl, rfl, by simp⟩⟩
          · simp at hs; subst hs; exact ⟨rfl, .inl rfl⟩

theorem stepSignal_pls {w s h pl path ok s'} (hs : stepSignal w s h pl path ok = some s') :
    s'.phase = s.phase ∧ s'.pls = (if ok then s.pls ++ [pl] else s.pls) := by
  unfold stepSignal at hs
  (repeat' (split at hs)) <;>
    (first
      | (simp at hs; done)
      | (simp at hs; subst hs; simp_all; done))

theorem stepCtxSignal_pls {w s req pl path ok s'} (hs : stepCtxSignal w s req pl path ok = some s') :
    s'.phase = s.phase ∧ s'.pls = (if ok then s.pls ++ [pl] else s.pls) := by
  unfold stepCtxSignal at hs
  (repeat' (split at hs)) <;>
    (first
      | (simp at hs; done)
      | (simp at hs; subst hs; simp_all; done))

theorem stepFire_pls {w s t m s'} (hs : stepFire w s t m = some s') :
    s'.phase = s.phase ∧ (s'.pls = s.pls ∨ ∃ m', m = some m' ∧ s'.pls = s.pls ++ [.msg m' none]) := by
  unfold stepFire at hs
  (repeat' (split at hs)) <;>
    (first
      | (simp at hs; done)
      | (simp at hs; subst hs; exact ⟨rfl, .inl rfl⟩)
      | (simp at hs; subst hs; exact ⟨rfl, .inr ⟨_, rfl, by simp⟩⟩))

theorem stepTimerArm_pls {w s t due s'} (hs : stepTimerArm w s t due = some s') :
    s'.phase = s.phase ∧ (s'.pls = s.pls ∨ s'.pls = s.pls ++ [.tick t]) := by
  unfold stepTimerArm at hs
  (repeat' (split at hs)) <;>
    (first
      | (simp at hs; done)
      | (simp at hs; subst hs; exact ⟨rfl, .inl rfl⟩)
      | (simp at hs; subst hs; exact ⟨rfl, .inr (by simp)⟩))

theorem stepExtPush_pls {s b s'} (hs : stepExtPush s b = some s') :
    s'.phase = s.phase ∧ (s'.pls = s.pls ∨ s'.pls = s.pls ++ [.ext b]) := by
  unfold stepExtPush at hs
  split at hs <;> simp at hs <;> subst hs
  · exact ⟨rfl, .inr (by simp)⟩
  · exact ⟨rfl, .inl rfl⟩

theorem stepTickBegin_pls {s t m s'} (hs : stepTickBegin s t m = some s') :
    s'.phase = s.phase ∧ ∃ rest, s.pls = .tick t :: rest ∧ s'.pls = .msg m none :: rest := by
  unfold stepTickBegin at hs
  split at hs
  · split at hs
    · rename_i hq he
      simp at hs he; subst hs; subst he
      exact ⟨rfl, s.pls.tail, by simp [pls, hq], by simp [pls, hq]⟩
    · simp at hs
  · simp at hs

theorem stepExtBegin_pls {s b m s'} (hs : stepExtBegin s b m = some s') :
    s'.phase = s.phase ∧ ∃ rest, s.pls = .ext b :: rest ∧ s'.pls = .msg m none :: rest := by
  unfold stepExtBegin at hs
  split at hs
  · split at hs
    · rename_i hq he
      simp at hs he; subst hs; subst he
      exact ⟨rfl, s.pls.tail, by simp [pls, hq], by simp [pls, hq]⟩
    · simp at hs
  · simp at hs

theorem stepCbBegin_handle_pls {w s m s'} (hs : stepCbBegin w s (.handle m) = some s') :
    s.phase = .idle ∧ pend s'.phase = 0 ∧ ∃ sl rest, s.pls = .msg m sl :: rest ∧ s'.pls = rest := by
  cases hp : s.phase <;> simp [stepCbBegin, hp] at hs
  cases hq : s.chan.queue with
  | nil => simp [hq] at hs
  | cons e rest =>
    obtain ⟨pl, tok⟩ := e
    cases pl <;> simp [hq] at hs
    rename_i m' sl
    obtain ⟨⟨hm, hrx⟩, rfl⟩ := hs
    subst hm
    exact ⟨rfl, rfl, sl, rest.map (·.pl), by simp [pls, hq], by simp [pls, Chan.deq, hq]⟩

theorem stepCbBegin_started_pls {w s s'} (hs : stepCbBegin w s .started = some s') :
    pend s.phase = 1 ∧ pend s'.phase = 0 ∧ s'.pls = s.pls := by
  cases hp : s.phase <;> simp [stepCbBegin, hp] at hs
  · subst hs; simp [pend, pls]
  · obtain ⟨_, rfl⟩ := hs; simp [pend, pls]

theorem stepCbBegin_other_pls {w s cb s'} (hs : stepCbBegin w s cb = some s') (h1 : cb ≠ .started)
    (h2 : ∀ m, cb ≠ .handle m) : pend s'.phase = pend s.phase ∧ s'.pls = s.pls := by
  cases cb
  case started => exact absurd rfl h1
  case handle m => exact absurd rfl (h2 m)
  all_goals
    (cases hp : s.phase <;> simp [stepCbBegin, hp] at hs <;>
      ((repeat' (split at hs)) <;>
        (first
          | (simp at hs; done)
          | (simp at hs; subst hs; simp_all [pend, pls]; done)
          | (obtain ⟨_, rfl⟩ := hs; simp_all [pend, pls]; done)
          | (subst hs; simp_all [pend, pls]; done))))

theorem stepDeq_pls {s s'} (hs : stepDeq s = some s') :
    s.phase = .idle ∧ ∃ p rest, s.pls = p :: rest ∧ s'.pls = rest ∧ isMsgP p = false ∧
      (isRestartP p = true → s.cfg.stream = false ∧ (s.cfg.strat ≠ .non → s'.phase = .rstBegin)) ∧
      (isRestartP p = false → pend s'.phase = 0) := by
  unfold stepDeq at hs
  split at hs
  · rename_i e rest hph hq
    refine ⟨hph, e.pl, rest.map (·.pl), by simp [pls, hq], ?_⟩
    split at hs
    · simp at hs
    · simp only at hs
      (repeat' (split at hs)) <;>
        (first
          | (simp at hs; done)
          | (simp at hs; subst hs; simp_all [pls, Chan.deq, isMsgP, isRestartP, pend]; done))
  · simp at hs

def Label.touchesQ : Label → Bool
  | .begin _ _ _ | .stopReq _ _ | .restartReq _ _ | .ctxStop _ | .ctxRestart _ | .fire _ _ | .timerArm _ _
  | .extPush _ | .tickBegin _ _ | .extBegin _ _ | .cbBegin _ | .tDeq => true
  | _ => false

set_option maxHeartbeats 1000000 in
/-- every other label leaves the payload list alone and does not change what is owed -/
theorem step_pls_same {w : Wiring} {s s' : AState} {l : Label} (hs : step w s l = some s')
    (hl : l.touchesQ = false) (ha : alive07 s'.phase = true) :
    pend s'.phase = pend s.phase ∧ s'.pls = s.pls := by
  cases l <;> simp [Label.touchesQ] at hl <;> unfold_steps hs <;>
    ((repeat' (split at hs)) <;>
     (first
       | (simp at hs; done)
       | (simp at hs; subst hs
          simp_all [pls, pend, alive07, fail, finish, cancelSlots, killTimers, setTimer, addOp, removeOp,
            removeHandle, push]; done)
       | (simp at hs; subst hs; unfold answer; split <;> simp_all [pls, pend, alive07]; done)
       | (simp at hs; subst hs; cases hp : s.phase <;> simp_all [pls, pend, alive07, openCb, cancelSlots, curSlot]
          done)))

set_option maxHeartbeats 1000000 in
/-- a loop that returned or failed stays so -/
theorem step_alive07 {w : Wiring} {s s' : AState} {l : Label} (hs : step w s l = some s')
    (ha : alive07 s'.phase = true) : alive07 s.phase = true := by
  cases l <;> unfold_steps hs <;>
    ((repeat' (split at hs)) <;>
     (first
       | (simp at hs; done)
       | (simp at hs; subst hs
          simp_all [alive07, fail, finish, cancelSlots, killTimers, setTimer, addOp, removeOp,
            removeHandle, push]; done)
       | (simp at hs; subst hs; unfold answer; split <;> simp_all [alive07]; done)
       | (simp at hs; subst hs; cases hp : s.phase <;> simp_all [alive07, openCb, cancelSlots, curSlot]
          done)))

end Hannibal
