import Hannibal.Proofs.C04QQueue
/-
  The termination latch leaves `pending` only when the loop has stopped taking messages (whether the loop
  notifies before or after `stopped()`).
-/
namespace Hannibal
open AState

set_option maxHeartbeats 1000000 in
theorem step_latch {w : Wiring} {s s' : AState} {l : Label} (hs : step w s l = some s') :
    s'.latch = s.latch ∨ loopAlive s'.phase = false := by
  cases l <;> unfold_steps hs <;>
    ((repeat' (split at hs)) <;>
     (first
       | (simp at hs; done)
       | (simp at hs; subst hs; simp_all [loopAlive, fail, finish, cancelSlots, killTimers,
            setTimer, addOp, removeOp, removeHandle, push]; done)
       | (simp at hs; subst hs; unfold answer; split <;> simp_all [loopAlive]; done)
       | (simp at hs; subst hs; cases hp : s.phase <;> simp_all [loopAlive]; done)))

/-- a latch that fired belongs to a loop that has left -/
def LatchPast (s : AState) : Prop := s.latch = .fired → loopAlive s.phase = false

theorem latchPast_init (cfg : Cfg) (h0 : Nat) (k0 : HKind) : LatchPast (AState.init cfg h0 k0) := by
  intro h; simp [AState.init] at h

theorem latchPast_step {w : Wiring} {s s' : AState} {l : Label} (hs : step w s l = some s')
    (hi : LatchPast s) : LatchPast s' := by
  intro hf
  rcases step_latch hs with h | h
  · rw [h] at hf
    have := hi hf
    cases hal : loopAlive s'.phase
    · rfl
    · rw [alive_mono hs hal] at this; simp at this
  · exact h

end Hannibal
