import Hannibal.Proofs.Handles
import Hannibal.Proofs.Timers
import Hannibal.Monitor.C05
/-
  C05, part 1: the monitor's view of who owns a strong handle (handle table, in-flight try_* operations,
  timer tasks in the middle of a send) covers the model's owners of the channel closures.
-/
namespace Hannibal
open AState

def holding : TimerSt → Bool
  | .sending | .deadHolding => true
  | _ => false

/-- strong kinds own both closures, weak kinds own nothing and need something to upgrade -/
def wellWired05b (w : Wiring) : Bool :=
  wellWired15b w &&
  [HKind.weakAddr, .weakSender, .weakCaller].all (fun k => (w.holds k).isEmpty && !(w.upgradeReq k).isEmpty)

def WellWired05 (w : Wiring) : Prop := wellWired05b w = true

instance (w : Wiring) : Decidable (WellWired05 w) := by unfold WellWired05; infer_instance

theorem WellWired05.w15 {w : Wiring} (h : WellWired05 w) : WellWired15 w := by
  unfold WellWired05 wellWired05b at h
  exact (wellWired15_iff w).mpr (by simp at h; simp [h.1])

theorem WellWired05.weak_holds {w : Wiring} (h : WellWired05 w) (k : HKind) (hk : k.strong = false) :
    w.holds k = [] := by
  unfold WellWired05 wellWired05b at h
  simp at h
  cases k <;> simp [HKind.strong] at hk <;> simp [h.2]

theorem WellWired05.upg {w : Wiring} (h : WellWired05 w) (k : HKind) (hk : k.strong = false) :
    w.upgradeReq k ≠ [] := by
  unfold WellWired05 wellWired05b at h
  simp at h
  cases k <;> simp [HKind.strong] at hk <;> simp [h.2]

/-! ### timers -/

structure TInv (s : AState) (σ : C05St) : Prop where
  snd : ∀ x ∈ s.timers, holding x.st = true → x.id ∈ σ.sending
  arm : ∀ x ∈ s.timers, x.st = .spawned → x.id ∉ σ.armed
  ids : ∀ t ∈ σ.armed, t ∈ s.timerIds
  nodup : s.timerIds.Nodup

theorem mem_setTimer {s : AState} {t : Nat} {st : TimerSt} {x' : Timer} (h : x' ∈ (s.setTimer t st).timers) :
    ∃ x ∈ s.timers, x'.id = x.id ∧ ((x.id = t ∧ x'.st = st) ∨ (x.id ≠ t ∧ x' = x)) := by
  unfold setTimer at h
  simp only at h
  obtain ⟨x, hx, rfl⟩ := List.mem_map.mp h
  refine ⟨x, hx, ?_⟩
  by_cases he : x.id = t
  · simp [he]
  · simp [he]

theorem mem_killTimers {s : AState} {x' : Timer} (h : x' ∈ s.killTimers.timers) :
    ∃ x ∈ s.timers, x'.id = x.id ∧ x'.st ≠ .spawned ∧ (holding x'.st = true → holding x.st = true) := by
  unfold killTimers at h
  simp only at h
  obtain ⟨x, hx, rfl⟩ := List.mem_map.mp h
  refine ⟨x, hx, ?_⟩
  split
  · rename_i he; simp [he, holding]
  · split
    · rename_i hh; rcases hh with hh | hh <;> simp [hh, holding]
    · simp [holding]

theorem stepFire_spec05 {w : Wiring} {s : AState} {t : Nat} {m : Option Nat} {s' : AState}
    (hs : stepFire w s t m = some s') :
    (∃ m', m = some m' ∧ s.reqOk w (w.upgradeReq .weakSender) = true ∧
        s'.timers = (s.setTimer t .sending).timers) ∨ s'.timers = (s.setTimer t .dead).timers := by
  unfold stepFire at hs
  cases hx : s.findTimer t with
  | none => simp [hx] at hs
  | some x =>
    simp only [hx] at hs
    split at hs
    · simp at hs
    · split at hs
      · simp at hs; subst hs; exact .inr rfl
      · split at hs
        · rename_i hc; simp at hs; subst hs
          simp at hc
          exact .inl ⟨_, rfl, hc.1, rfl⟩
        · simp at hs; subst hs; exact .inr rfl
      · split at hs
        · rename_i hc; simp at hs; subst hs
          simp at hc
          exact .inl ⟨_, rfl, hc.1, rfl⟩
        · simp at hs; subst hs; exact .inr rfl
      · simp at hs

theorem stepTimerArm_spec05 {w : Wiring} {s : AState} {t due : Nat} {s' : AState}
    (hs : stepTimerArm w s t due = some s') :
    ∃ x, s.findTimer t = some x ∧ s'.timers = (s.setTimer t (.sleeping due)).timers ∧
      (x.st = .spawned ∨ (∃ old, x.st = .sleeping old ∧ s.reqOk w (w.upgradeReq .weakSender) = true) ∨
        x.st = .sending) := by
  unfold stepTimerArm at hs
  cases hx : s.findTimer t with
  | none => simp [hx] at hs
  | some x =>
    simp only [hx] at hs
    split at hs
    · simp at hs
    · cases hst : x.st <;> simp only [hst] at hs
      · simp at hs; subst hs; exact ⟨x, rfl, rfl, .inl hst⟩
      · split at hs
        · rename_i hc; simp at hs; subst hs
          exact ⟨x, rfl, rfl, .inr (.inl ⟨_, hst, hc.2.2.1⟩)⟩
        · simp at hs
      · split at hs
        · simp at hs; subst hs; exact ⟨x, rfl, rfl, .inr (.inr hst)⟩
        · simp at hs
      all_goals simp at hs

theorem next05_sending_same (c : MonCtx) (σ : C05St) (l : Label)
    (h : ∀ t, (∀ d, l ≠ .timerArm t d) ∧ l ≠ .timerEnd t ∧ ∀ m, l ≠ .fire t (some m)) :
    (next05 c σ l).sending = σ.sending := by
  cases l <;> simp [next05]
  case timerArm t d => exact absurd rfl ((h t).1 d)
  case timerEnd t => exact absurd rfl (h t).2.1
  case fire t m =>
    cases m with
    | none => rfl
    | some m => exact absurd rfl ((h t).2.2 m)

theorem next05_armed_same (c : MonCtx) (σ : C05St) (l : Label) (h : ∀ t d, l ≠ .timerArm t d) :
    (next05 c σ l).armed = σ.armed := by
  cases l <;> simp [next05]
  case timerArm t d => exact absurd rfl (h t d)

/-- timers killed (or left alone): the invariant survives when the monitor's lists do not move -/
theorem tinv_of_kill {s s' : AState} {σ σ' : C05St} (hi : TInv s σ) (hsnd : σ'.sending = σ.sending)
    (harm : σ'.armed = σ.armed) (hids : s'.timerIds = s.timerIds)
    (hk : ∀ x' ∈ s'.timers, ∃ x ∈ s.timers, x'.id = x.id ∧ (x'.st = .spawned → x.st = .spawned) ∧
      (holding x'.st = true → holding x.st = true)) : TInv s' σ' := by
  refine ⟨?_, ?_, ?_, ?_⟩
  · intro x' hx' hh
    obtain ⟨x, hx, hid, _, h2⟩ := hk x' hx'
    rw [hsnd, hid]; exact hi.snd x hx (h2 hh)
  · intro x' hx' hsp
    obtain ⟨x, hx, hid, h1, _⟩ := hk x' hx'
    rw [harm, hid]; exact hi.arm x hx (h1 hsp)
  · intro t ht; rw [harm] at ht; rw [hids]; exact hi.ids t ht
  · rw [hids]; exact hi.nodup

theorem tinv_step {w : Wiring} {c : MonCtx} {s s' : AState} {σ : C05St} {l : Label}
    (hi : TInv s σ) (hs : step w s l = some s') : TInv s' (next05 c σ l) := by
  by_cases htt : l.touchesTimers = true
  · cases l <;> simp [Label.touchesTimers] at htt
    case ctxTimer t k d =>
      simp only [step, stepCtxTimer] at hs
      split at hs
      · rename_i hc
        simp at hs; subst hs
        simp at hc
        have hnn : t ∉ s.timerIds := by
          unfold AState.timerIds; intro hm
          obtain ⟨y, hy, hyid⟩ := List.mem_map.mp hm
          exact hc.2 y hy hyid
        refine ⟨?_, ?_, ?_, ?_⟩
        · intro x hx hh
          simp at hx
          rcases hx with hx | rfl
          · simpa [next05] using hi.snd x hx hh
          · simp [holding] at hh
        · intro x hx hsp
          simp at hx
          rcases hx with hx | rfl
          · simpa [next05] using hi.arm x hx hsp
          · simp only [next05]; intro hm; exact hnn (hi.ids t hm)
        · intro t' ht'
          simp only [next05] at ht'
          unfold AState.timerIds
          simp only [List.map_append, List.mem_append]
          exact .inl (hi.ids t' ht')
        · unfold AState.timerIds
          simp only [List.map_append, List.map_cons, List.map_nil]
          exact List.nodup_append.mpr ⟨hi.nodup, by simp, by simpa using hc.2⟩
      · simp at hs
    case timerArm t due =>
      have hids := step_timer_ids hs (by simp)
      simp only [step] at hs
      obtain ⟨x0, hx0, htim, _⟩ := stepTimerArm_spec05 hs
      refine ⟨?_, ?_, ?_, by rw [hids]; exact hi.nodup⟩
      · intro x' hx' hh
        rw [htim] at hx'
        obtain ⟨x, hx, hid, hc⟩ := mem_setTimer hx'
        rcases hc with ⟨_, hst⟩ | ⟨hne, rfl⟩
        · simp [hst, holding] at hh
        · simp only [next05]
          exact List.mem_filter.mpr ⟨hi.snd x' hx hh, by simpa using hne⟩
      · intro x' hx' hsp
        rw [htim] at hx'
        obtain ⟨x, hx, hid, hc⟩ := mem_setTimer hx'
        rcases hc with ⟨_, hst⟩ | ⟨hne, rfl⟩
        · simp [hst] at hsp
        · simp only [next05, List.mem_cons, not_or]
          exact ⟨hne, hi.arm x' hx hsp⟩
      · intro t' ht'
        simp only [next05, List.mem_cons] at ht'
        rw [hids]
        rcases ht' with rfl | ht'
        · have := findTimer_mem hx0
          unfold AState.timerIds
          exact List.mem_map.mpr ⟨x0, this.1, this.2⟩
        · exact hi.ids t' ht'
    case timerEnd t =>
      have hids := step_timer_ids hs (by simp)
      simp only [step] at hs
      obtain ⟨_, htim⟩ := stepTimerEnd_spec hs
      refine ⟨?_, ?_, ?_, by rw [hids]; exact hi.nodup⟩
      · intro x' hx' hh
        rw [htim] at hx'
        obtain ⟨x, hx, hid, hc⟩ := mem_setTimer hx'
        rcases hc with ⟨_, hst⟩ | ⟨hne, rfl⟩
        · simp [hst, holding] at hh
        · simp only [next05]
          exact List.mem_filter.mpr ⟨hi.snd x' hx hh, by simpa using hne⟩
      · intro x' hx' hsp
        rw [htim] at hx'
        obtain ⟨x, hx, hid, hc⟩ := mem_setTimer hx'
        rcases hc with ⟨_, hst⟩ | ⟨hne, rfl⟩
        · simp [hst] at hsp
        · simpa [next05] using hi.arm x' hx hsp
      · intro t' ht'
        simp only [next05] at ht'
        rw [hids]; exact hi.ids t' ht'
    case fire t m =>
      have hids := step_timer_ids hs (by simp)
      simp only [step] at hs
      rcases stepFire_spec05 hs with ⟨m', rfl, _, htim⟩ | htim
      · refine ⟨?_, ?_, ?_, by rw [hids]; exact hi.nodup⟩
        · intro x' hx' hh
          rw [htim] at hx'
          obtain ⟨x, hx, hid, hc⟩ := mem_setTimer hx'
          simp only [next05, List.mem_cons]
          rcases hc with ⟨he, _⟩ | ⟨hne, rfl⟩
          · exact .inl (by rw [hid, he])
          · exact .inr (hi.snd x' hx hh)
        · intro x' hx' hsp
          rw [htim] at hx'
          obtain ⟨x, hx, hid, hc⟩ := mem_setTimer hx'
          rcases hc with ⟨_, hst⟩ | ⟨hne, rfl⟩
          · simp [hst] at hsp
          · simpa [next05] using hi.arm x' hx hsp
        · intro t' ht'
          simp only [next05] at ht'
          rw [hids]; exact hi.ids t' ht'
      · refine ⟨?_, ?_, ?_, by rw [hids]; exact hi.nodup⟩
        · intro x' hx' hh
          rw [htim] at hx'
          obtain ⟨x, hx, hid, hc⟩ := mem_setTimer hx'
          rcases hc with ⟨_, hst⟩ | ⟨hne, rfl⟩
          · simp [hst, holding] at hh
          · have := hi.snd x' hx hh
            cases m <;> simp [next05, this]
        · intro x' hx' hsp
          rw [htim] at hx'
          obtain ⟨x, hx, hid, hc⟩ := mem_setTimer hx'
          rcases hc with ⟨_, hst⟩ | ⟨hne, rfl⟩
          · simp [hst] at hsp
          · simpa [next05] using hi.arm x' hx hsp
        · intro t' ht'
          simp only [next05] at ht'
          rw [hids]; exact hi.ids t' ht'
    case cbEnd cb ok =>
      have hcb : cb = .stopped := by cases cb <;> simp_all [Label.touchesTimers]
      subst hcb
      have hids := step_timer_ids hs (by simp)
      refine tinv_of_kill hi (next05_sending_same c σ _ (by simp)) (next05_armed_same c σ _ (by simp)) hids ?_
      simp only [step, stepCbEnd] at hs
      split at hs
      · simp at hs
      · cases hp : s.phase <;> simp [hp] at hs
        · obtain ⟨_, rfl⟩ := hs
          intro x' hx'
          by_cases hr : w.refreshResetsTimers = true
          · simp only [refreshTimers, hr, if_true] at hx'
            obtain ⟨x, hx, hid, h1, h2⟩ := mem_killTimers hx'
            exact ⟨x, hx, hid, fun h => absurd h h1, h2⟩
          · simp [refreshTimers, hr] at hx'
            exact ⟨x', hx', rfl, id, id⟩
        · obtain ⟨_, rfl⟩ := hs
          intro x' hx'
          exact ⟨x', hx', rfl, id, id⟩
    case cancel =>
      have hids := step_timer_ids hs (by simp)
      refine tinv_of_kill hi (next05_sending_same c σ _ (by simp)) (next05_armed_same c σ _ (by simp)) hids ?_
      simp only [step, stepCancel] at hs
      split at hs
      · simp at hs
      · simp at hs; subst hs
        intro x' hx'
        have hx'' : x' ∈ (s.cancelSlots (s.curSlot ++ s.chan.queue.filterMap (fun e => slotOf e.pl))).killTimers.timers := by
          simpa [fail] using hx'
        obtain ⟨x, hx, hid, h1, h2⟩ := mem_killTimers hx''
        exact ⟨x, by simpa [cancelSlots] using hx, hid, fun h => absurd h h1, h2⟩
    case taskPanic =>
      have hids := step_timer_ids hs (by simp)
      refine tinv_of_kill hi (next05_sending_same c σ _ (by simp)) (next05_armed_same c σ _ (by simp)) hids ?_
      simp only [step, stepTaskPanic] at hs
      (repeat' (split at hs)) <;>
        (first
          | (simp at hs; done)
          | (simp at hs; subst hs
             intro x' hx'
             simp only [fail] at hx'
             obtain ⟨x, hx, hid, h1, h2⟩ := mem_killTimers hx'
             exact ⟨x, by simpa [cancelSlots] using hx, hid, fun h => absurd h h1, h2⟩))
    case taskDone =>
      have hids := step_timer_ids hs (by simp)
      refine tinv_of_kill hi (next05_sending_same c σ _ (by simp)) (next05_armed_same c σ _ (by simp)) hids ?_
      simp only [step, stepTaskDone] at hs
      (repeat' (split at hs)) <;>
        (first
          | (simp at hs; done)
          | (simp at hs; subst hs
             intro x' hx'
             simp only [fail, finish] at hx'
             obtain ⟨x, hx, hid, h1, h2⟩ := mem_killTimers hx'
             exact ⟨x, by simpa [cancelSlots] using hx, hid, fun h => absurd h h1, h2⟩))
  · have htt' : l.touchesTimers = false := by simpa using htt
    have hts := step_timers_same hs htt'
    have hids : s'.timerIds = s.timerIds := by unfold AState.timerIds; rw [hts]
    refine tinv_of_kill hi (next05_sending_same c σ l ?_) (next05_armed_same c σ l ?_) hids ?_
    · intro t
      refine ⟨fun d h => ?_, fun h => ?_, fun m h => ?_⟩ <;> subst h <;> simp [Label.touchesTimers] at htt'
    · intro t d h; subst h; simp [Label.touchesTimers] at htt'
    · rw [hts]; intro x' hx'; exact ⟨x', hx', rfl, id, id⟩

/-! ### in-flight operations -/

def OInv (s : AState) (σ : C05St) : Prop := ∀ r ∈ s.ops, holderKind r.kind = true → r.o ∈ σ.inflight

theorem next05_inflight_same (c : MonCtx) (σ : C05St) (l : Label) (h : l.isOpEdge = false) :
    (next05 c σ l).inflight = σ.inflight := by
  cases l <;> simp [Label.isOpEdge] at h <;> simp [next05]

theorem oinv_step {w : Wiring} {c : MonCtx} {s s' : AState} {σ : C05St} {l : Label}
    (hi : OInv s σ) (hs : step w s l = some s') : OInv s' (next05 c σ l) := by
  by_cases hedge : l.isOpEdge = true
  · cases l <;> simp [Label.isOpEdge] at hedge
    case begin o h k =>
      simp only [step] at hs
      obtain ⟨_, st, hops⟩ := stepBegin_ops hs
      intro r hr hk
      rw [hops] at hr
      rcases List.mem_append.mp hr with hr | hr
      · have := hi r hr hk
        simp only [next05]; split <;> simp [this]
      · simp at hr; subst hr
        simp at hk
        simp [next05, hk]
    case ret o r0 =>
      simp only [step] at hs
      obtain ⟨rec, _, _, hops, _⟩ := stepRet_ops hs
      intro r hr hk
      rw [hops] at hr
      obtain ⟨hr1, hr2⟩ := List.mem_filter.mp hr
      simp only [next05]
      exact List.mem_filter.mpr ⟨hi r hr1 hk, by simpa using hr2⟩
    case cdrop o =>
      simp only [step] at hs
      have hops := stepCdrop_ops hs
      intro r hr hk
      rw [hops] at hr
      obtain ⟨hr1, hr2⟩ := List.mem_filter.mp hr
      simp only [next05]
      exact List.mem_filter.mpr ⟨hi r hr1 hk, by simpa using hr2⟩
  · have hedge' : l.isOpEdge = false := by simpa using hedge
    obtain ⟨f, hf, pf⟩ := step_ops hs hedge'
    intro r' hr' hk
    rw [hf] at hr'
    obtain ⟨r, hr, rfl⟩ := List.mem_map.mp hr'
    rw [next05_inflight_same c σ l hedge', pf.o]
    rw [pf.kind] at hk
    exact hi r hr hk

/-! ### who can keep a closure alive -/

theorem holderKind_of_opHolds {w : Wiring} {x : Half} {r : OpRec} (h : opHolds w x r = true) :
    holderKind r.kind = true := by
  unfold opHolds at h
  split at h
  · simp at h
  · cases hk : r.kind <;> simp [hk] at h <;> simp [holderKind]

theorem holding_of_timerHolds {w : Wiring} {x : Half} {y : Timer} (h : timerHolds w x y = true) :
    holding y.st = true := by
  unfold timerHolds at h
  cases hst : y.st <;> simp [hst] at h <;> simp [holding]

theorem alive_cases {w : Wiring} (hw : WellWired05 w) {s : AState} {σ : C05St}
    (hh : σ.hold.handles = s.handles) (ho : OInv s σ) (ht : TInv s σ) {x : Half}
    (h : s.halfAlive w x = true) :
    σ.hold.strongHeld = true ∨ σ.inflight ≠ [] ∨ ∃ y ∈ s.timers, holding y.st = true ∧ y.id ∈ σ.sending := by
  unfold halfAlive at h
  simp only [Bool.or_eq_true, List.any_eq_true] at h
  rcases h with (⟨p, hp, hc⟩ | ⟨r, hr, hc⟩) | ⟨y, hy, hc⟩
  · left
    unfold HoldSt.strongHeld
    rw [hh, List.any_eq_true]
    refine ⟨p, hp, ?_⟩
    cases hs : p.2.strong
    · rw [hw.weak_holds p.2 hs] at hc; simp at hc
    · rfl
  · right; left
    have := ho r hr (holderKind_of_opHolds hc)
    intro he; rw [he] at this; simp at this
  · right; right
    have hh' := holding_of_timerHolds hc
    exact ⟨y, hy, hh', ht.snd y hy hh'⟩

theorem alive_of_reqOk {w : Wiring} {s : AState} {req : List Half} (h : s.reqOk w req = true) (hne : req ≠ []) :
    ∃ x, s.halfAlive w x = true := by
  cases req with
  | nil => exact absurd rfl hne
  | cons x rest =>
    unfold reqOk at h
    simp only [List.all_cons, Bool.and_eq_true] at h
    exact ⟨x, h.1⟩

/-- (3): an upgrade that succeeds finds a strong holder -/
theorem bad05_upgrade {w : Wiring} (hw : WellWired05 w) {c : MonCtx} {s s' : AState} {σ : C05St} {h h' : Nat}
    (hh : σ.hold.handles = s.handles) (ho : OInv s σ) (ht : TInv s σ)
    (hs : step w s (.upgrade h (some h')) = some s') : bad05 c σ (.upgrade h (some h')) = false := by
  simp only [step, stepUpgrade] at hs
  cases hk : s.handleKind h with
  | none => simp [hk] at hs
  | some k =>
    simp only [hk] at hs
    cases hu : k.upgraded with
    | none => simp [hu] at hs
    | some ks =>
      simp only [hu] at hs
      split at hs
      · rename_i hreq
        have hweak : k.strong = false := by cases k <;> simp [HKind.upgraded] at hu <;> rfl
        obtain ⟨x, hx⟩ := alive_of_reqOk hreq (hw.upg k hweak)
        simp only [bad05]
        rcases alive_cases hw hh ho ht hx with h1 | h1 | ⟨y, _, _, hy⟩
        · simp [h1]
        · cases hi : σ.inflight <;> simp_all
        · cases hi : σ.sending <;> simp_all
      · simp at hs

/-- (4): a timer that goes round again found a strong holder (or is itself in the middle of a send) -/
theorem bad05_timerArm {w : Wiring} (hw : WellWired05 w) {c : MonCtx} {s s' : AState} {σ : C05St} {t due : Nat}
    (hh : σ.hold.handles = s.handles) (ho : OInv s σ) (ht : TInv s σ)
    (hs : step w s (.timerArm t due) = some s') : bad05 c σ (.timerArm t due) = false := by
  simp only [step] at hs
  obtain ⟨x0, hx0, _, hcase⟩ := stepTimerArm_spec05 hs
  obtain ⟨hmem, hid⟩ := findTimer_mem hx0
  simp only [bad05]
  rcases hcase with hsp | ⟨old, hsl, hreq⟩ | hsd
  · have := ht.arm x0 hmem hsp
    rw [hid] at this
    simp [this]
  · obtain ⟨x, hx⟩ := alive_of_reqOk hreq (hw.upg .weakSender rfl)
    rcases alive_cases hw hh ho ht hx with h1 | h1 | ⟨y, hy, hyh, hys⟩
    · simp [h1]
    · cases hi : σ.inflight <;> simp_all
    · have hne : y.id ≠ t := by
        intro he
        have := eq_of_findTimer ht.nodup hx0 hy he
        subst this
        simp [hsl, holding] at hyh
      have : y.id ∈ σ.sending.filter (fun z => z != t) := List.mem_filter.mpr ⟨hys, by simpa using hne⟩
      cases hf : σ.sending.filter (fun z => z != t) with
      | nil => rw [hf] at this; simp at this
      | cons a b => simp
  · have := ht.snd x0 hmem (by simp [hsd, holding])
    rw [hid] at this
    simp [this]

end Hannibal
