import Hannibal.Proofs.C05Dead
/-
  C07 (ignored restart, timers): once neither closure of the channel is owned by anybody (no strong handle,
  no in-flight try_* / Caller::call operation, no timer in the middle of its send) this stays so for ever.
  (`Dead05` of Proofs/C05Dead.lean additionally asks that no plain `send` is in flight; a parked `send`
  owns an mpsc sender but neither closure, so it does not help a weak handle to upgrade.)
-/
namespace Hannibal
open AState

structure HDead07 (s : AState) : Prop where
  nh : ∀ p ∈ s.handles, p.2.strong = false
  no : ∀ r ∈ s.ops, holderKind r.kind = true → r.st = .failed .alreadyStopped
  nt : ∀ x ∈ s.timers, holding x.st = false

/-- one closure without an owner: nobody owns anything -/
theorem hdead07_of_half {w : Wiring} (hw : WellWired05 w) {s : AState} {x : Half} (h : s.halfAlive w x = false) :
    HDead07 s := by
  unfold halfAlive at h
  simp only [Bool.or_eq_false_iff] at h
  obtain ⟨⟨hh, ho⟩, ht⟩ := h
  have hboth : ∀ k : HKind, k.strong = true → (w.holds k).contains x = true := by
    intro k hk; cases x
    · exact (hw.w15 k hk).1
    · exact (hw.w15 k hk).2
  refine ⟨?_, ?_, ?_⟩
  · intro p hp
    cases hs : p.2.strong
    · rfl
    · exfalso
      have h2 := List.any_eq_false.mp hh p hp
      simp at h2
      exact h2 (by simpa using hboth p.2 hs)
  · intro r hr hk
    have h2 := List.any_eq_false.mp ho r hr
    unfold opHolds at h2
    split at h2
    · assumption
    · exfalso
      have ha := hboth .addr rfl
      have hs := hboth .sender rfl
      have hc := hboth .caller rfl
      cases hkk : r.kind <;> simp [hkk, holderKind] at hk <;> simp [hkk] at h2 <;>
        first | exact h2 (by simpa using ha) | exact h2 (by simpa using hs) | exact h2 (by simpa using hc)
  · intro y hy
    have h2 := List.any_eq_false.mp ht y hy
    unfold timerHolds at h2
    cases hst : y.st <;> simp [hst] at h2 <;> simp [holding]
    all_goals (exact h2 (by simpa using hboth .sender rfl))

theorem hdead07_of_reqFail {w : Wiring} (hw : WellWired05 w) {s : AState} {req : List Half}
    (h : s.reqOk w req = false) : HDead07 s := by
  unfold reqOk at h
  rw [List.all_eq_false] at h
  obtain ⟨x, _, hx⟩ := h
  exact hdead07_of_half hw (by simpa using hx)

theorem HDead07.halfDead {w : Wiring} (hw : WellWired05 w) {s : AState} (hd : HDead07 s) (x : Half) :
    s.halfAlive w x = false := by
  unfold halfAlive
  simp only [Bool.or_eq_false_iff]
  refine ⟨⟨?_, ?_⟩, ?_⟩
  · apply List.any_eq_false.mpr
    intro p hp
    rw [hw.weak_holds p.2 (hd.nh p hp)]; simp
  · apply List.any_eq_false.mpr
    intro r hr
    cases hc : opHolds w x r
    · simp
    · have := hd.no r hr (holderKind_of_opHolds hc)
      unfold opHolds at hc
      simp [this] at hc
  · apply List.any_eq_false.mpr
    intro y hy
    cases hc : timerHolds w x y
    · simp
    · have := holding_of_timerHolds hc
      rw [hd.nt y hy] at this; simp at this

theorem HDead07.reqFails {w : Wiring} (hw : WellWired05 w) {s : AState} (hd : HDead07 s) {req : List Half}
    (hne : req ≠ []) : s.reqOk w req = false := by
  cases hr : s.reqOk w req
  · rfl
  · obtain ⟨x, hx⟩ := alive_of_reqOk hr hne
    rw [hd.halfDead hw x] at hx; simp at hx

theorem HDead07.not_strong {s : AState} (hd : HDead07 s) : s.handles.any (fun p => p.2.strong) = false := by
  apply List.any_eq_false.mpr
  intro p hp; simp [hd.nh p hp]

theorem hdead07_step {w : Wiring} (hw : WellWired05 w) {s s' : AState} {l : Label}
    (hd : HDead07 s) (hs : step w s l = some s') : HDead07 s' := by
  refine ⟨?_, ?_, ?_⟩
  · -- handles
    by_cases ht : l.touchesHandles = true
    · cases l <;> simp [Label.touchesHandles] at ht
      case mk h h' k' =>
        simp only [step, stepMk] at hs
        cases hk : s.handleKind h with
        | none => simp [hk] at hs
        | some k =>
          simp only [hk] at hs
          split at hs
          · rename_i hc
            simp at hs; subst hs
            obtain ⟨p, hp, rfl⟩ := handleKind_mem hk
            have hweak := hd.nh p hp
            intro q hq
            simp at hq
            rcases hq with hq | rfl
            · exact hd.nh q hq
            · simp at hc
              cases hp2 : p.2 <;> simp [hp2, HKind.strong] at hweak <;> cases k' <;> simp [hp2, convOk] at hc <;> rfl
          · simp at hs
      case upgrade h h' =>
        simp only [step, stepUpgrade] at hs
        cases hk : s.handleKind h with
        | none => simp [hk] at hs
        | some k =>
          simp only [hk] at hs
          cases hu : k.upgraded with
          | none => simp [hu] at hs
          | some ks =>
            simp only [hu] at hs
            have hweak : k.strong = false := by cases k <;> simp [HKind.upgraded] at hu <;> rfl
            rw [hd.reqFails hw (hw.upg k hweak)] at hs
            cases h' <;> simp at hs
            subst hs; exact hd.nh
      case detach h h' =>
        simp only [step, stepDetach] at hs
        split at hs
        · rename_i hc
          simp at hc
          obtain ⟨p, hp, hp2⟩ := handleKind_mem hc.1
          have := hd.nh p hp
          simp [hp2, HKind.strong] at this
        · simp at hs
      case drop h =>
        simp only [step, stepDrop] at hs
        split at hs
        · simp at hs; subst hs
          intro p hp
          exact hd.nh p (List.mem_filter.mp hp).1
        · simp at hs
      case ctxWeak k h =>
        simp only [step, stepCtxWeak] at hs
        (repeat' (split at hs)) <;>
          (first
            | (simp at hs; done)
            | (simp at hs; subst hs; exact hd.nh)
            | (simp at hs; subst hs
               intro p hp
               simp at hp
               rcases hp with hp | rfl
               · exact hd.nh p hp
               · rfl))
      case ret o r =>
        simp only [step] at hs
        obtain ⟨rec, hfind, hexp, _, _⟩ := stepRet_ops hs
        unfold stepRet at hs
        simp only [hfind, hexp, if_true] at hs
        simp at hs; subst hs
        intro p hp
        unfold retEffect at hp
        have : p ∈ s.handles := by
          (repeat' (split at hp)) <;> simp [removeHandle, removeOp] at hp <;> first | exact hp.1 | exact hp
        exact hd.nh p this
      case cdrop o =>
        simp only [step, stepCdrop] at hs
        (repeat' (split at hs)) <;>
          (first
            | (simp at hs; done)
            | (simp at hs; subst hs
               intro p hp
               have : p ∈ s.handles := by
                 simp [removeHandle, removeOp] at hp; first | exact hp.1 | exact hp
               exact hd.nh p this))
    · have ht' : l.touchesHandles = false := by simpa using ht
      rw [step_handles_same hs ht']; exact hd.nh
  · -- operations
    by_cases hedge : l.isOpEdge = true
    · cases l <;> simp [Label.isOpEdge] at hedge
      case begin o h k =>
        simp only [step] at hs
        obtain ⟨_, st, hops⟩ := stepBegin_ops hs
        intro r hr
        rw [hops] at hr
        rcases List.mem_append.mp hr with hr | hr
        · exact hd.no r hr
        · simp at hr; subst hr
          -- the new record: its handle is weak, so the upgrade fails
          unfold stepBegin at hs
          cases hk0 : s.handleKind h with
          | none => simp [hk0] at hs
          | some hk =>
            simp only [hk0] at hs
            obtain ⟨p, hp, hp2⟩ := handleKind_mem hk0
            have hweak := hd.nh p hp
            rw [hp2] at hweak
            split at hs
            · simp at hs
            · rename_i hg
              simp at hg
              have hupg : (plan w hk o k).upg ≠ [] ∨ (holderKind k = false ∧ isWaitOp k = false) := by
                cases hk <;> simp [HKind.strong] at hweak <;> cases k <;> simp [kindOk] at hg <;>
                  simp [plan, holderKind, isWaitOp] <;> exact hw.upg _ rfl
              rcases hupg with hupg | ⟨h1, h2⟩
              · rw [hd.reqFails hw hupg] at hs
                simp at hs
                have : st = .failed .alreadyStopped := by
                  have := congrArg AState.ops hs
                  simp [hops] at this
                  exact this.symm
                subst this
                exact fun _ => rfl
              · simp [h1]
      case ret o r0 =>
        simp only [step] at hs
        obtain ⟨rec, _, _, hops, _⟩ := stepRet_ops hs
        intro r hr
        rw [hops] at hr
        exact hd.no r (List.mem_filter.mp hr).1
      case cdrop o =>
        simp only [step] at hs
        have hops := stepCdrop_ops hs
        intro r hr
        rw [hops] at hr
        exact hd.no r (List.mem_filter.mp hr).1
    · have hedge' : l.isOpEdge = false := by simpa using hedge
      obtain ⟨f, hf, pf⟩ := step_ops hs hedge'
      intro r' hr'
      rw [hf] at hr'
      obtain ⟨r, hr, rfl⟩ := List.mem_map.mp hr'
      rw [pf.kind]
      intro hk
      have := hd.no r hr hk
      rw [pf.keep r (by rw [this]; simp), this]
  · -- timers
    by_cases htt : l.touchesTimers = true
    · cases l <;> simp [Label.touchesTimers] at htt
      case ctxTimer t k d =>
        simp only [step, stepCtxTimer] at hs
        split at hs
        · simp at hs; subst hs
          intro x hx
          simp at hx
          rcases hx with hx | rfl
          · exact hd.nt x hx
          · rfl
        · simp at hs
      case timerArm t due =>
        simp only [step] at hs
        obtain ⟨_, _, htim, _⟩ := stepTimerArm_spec05 hs
        intro x' hx'
        rw [htim] at hx'
        obtain ⟨x, hx, _, hc⟩ := mem_setTimer hx'
        rcases hc with ⟨_, hst⟩ | ⟨_, rfl⟩
        · simp [hst, holding]
        · exact hd.nt x' hx
      case timerEnd t =>
        simp only [step] at hs
        obtain ⟨_, htim⟩ := stepTimerEnd_spec hs
        intro x' hx'
        rw [htim] at hx'
        obtain ⟨x, hx, _, hc⟩ := mem_setTimer hx'
        rcases hc with ⟨_, hst⟩ | ⟨_, rfl⟩
        · simp [hst, holding]
        · exact hd.nt x' hx
      case fire t m =>
        simp only [step] at hs
        rcases stepFire_spec05 hs with ⟨_, _, hreq, _⟩ | htim
        · rw [hd.reqFails hw (hw.upg .weakSender rfl)] at hreq; simp at hreq
        · intro x' hx'
          rw [htim] at hx'
          obtain ⟨x, hx, _, hc⟩ := mem_setTimer hx'
          rcases hc with ⟨_, hst⟩ | ⟨_, rfl⟩
          · simp [hst, holding]
          · exact hd.nt x' hx
      case cbEnd cb ok =>
        have hcb : cb = .stopped := by cases cb <;> simp_all [Label.touchesTimers]
        subst hcb
        simp only [step, stepCbEnd] at hs
        split at hs
        · simp at hs
        · cases hp : s.phase <;> simp [hp] at hs
          · obtain ⟨_, rfl⟩ := hs
            intro x' hx'
            by_cases hr : w.refreshResetsTimers = true
            · simp only [refreshTimers, hr, if_true] at hx'
              obtain ⟨x, hx, _, _, h2⟩ := mem_killTimers hx'
              cases hh : holding x'.st
              · rfl
              · have := h2 hh; rw [hd.nt x hx] at this; simp at this
            · simp [refreshTimers, hr] at hx'
              exact hd.nt x' hx'
          · obtain ⟨_, rfl⟩ := hs
            exact hd.nt
      case cancel =>
        simp only [step, stepCancel] at hs
        split at hs
        · simp at hs
        · simp at hs; subst hs
          intro x' hx'
          have hx'' : x' ∈ (s.cancelSlots (s.curSlot ++ s.chan.queue.filterMap (fun e => slotOf e.pl))).killTimers.timers := by
            simpa [fail] using hx'
          obtain ⟨x, hx, _, _, h2⟩ := mem_killTimers hx''
          cases hh : holding x'.st
          · rfl
          · have := h2 hh; rw [hd.nt x (by simpa [cancelSlots] using hx)] at this; simp at this
      case taskPanic =>
        simp only [step, stepTaskPanic] at hs
        (repeat' (split at hs)) <;>
          (first
            | (simp at hs; done)
            | (simp at hs; subst hs
               intro x' hx'
               simp only [fail] at hx'
               obtain ⟨x, hx, _, _, h2⟩ := mem_killTimers hx'
               cases hh : holding x'.st
               · rfl
               · have := h2 hh; rw [hd.nt x (by simpa [cancelSlots] using hx)] at this; simp at this))
      case taskDone =>
        simp only [step, stepTaskDone] at hs
        (repeat' (split at hs)) <;>
          (first
            | (simp at hs; done)
            | (simp at hs; subst hs
               intro x' hx'
               simp only [fail, finish] at hx'
               obtain ⟨x, hx, _, _, h2⟩ := mem_killTimers hx'
               cases hh : holding x'.st
               · rfl
               · have := h2 hh; rw [hd.nt x (by simpa [cancelSlots] using hx)] at this; simp at this))
    · have htt' : l.touchesTimers = false := by simpa using htt
      rw [step_timers_same hs htt']; exact hd.nt

end Hannibal
