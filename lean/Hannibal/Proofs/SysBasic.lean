import Hannibal.Model.Sys
import Hannibal.Proofs.Handles
/-
  Systems of actors: bookkeeping lemmas (`get` / `set` / `applyTo`) and what a single-actor step may do to
  a `Sender` handle that a parent owns.
-/
namespace Hannibal
open AState

namespace Sys

theorem get_set (S : Sys) (a a' : Nat) (s : AState) :
    (S.set a s).get a' = if a' = a then (S.get a).map (fun _ => s) else S.get a' := by
  unfold Sys.get Sys.set
  induction S.actors with
  | nil => simp
  | cons p ps ih =>
    simp only [List.map_cons, List.find?_cons]
    by_cases hp : p.1 = a
    · by_cases ha : a' = a
      · subst ha; simp [hp]
      · have : (a == a') = false := by simp; exact fun e => ha e.symm
        have h2 : (p.1 == a') = false := by simp [hp]; exact fun e => ha e.symm
        simp only [hp, beq_self_eq_true, if_true, this, h2, ha, if_false] at ih ⊢
        exact ih
    · have hb : (p.1 == a) = false := by simp [hp]
      simp only [hb]
      by_cases hq : p.1 = a'
      · have : a' ≠ a := fun e => hp (hq.trans e)
        simp [hq, this]
      · have h2 : (p.1 == a') = false := by simp [hq]
        simp only [h2, Bool.false_eq_true, if_false]
        exact ih

theorem get_applyTo (S : Sys) (f : Nat → AState → AState) (a : Nat) :
    (S.applyTo f).get a = (S.get a).map (f a) := by
  unfold Sys.get Sys.applyTo
  induction S.actors with
  | nil => simp
  | cons p ps ih =>
    simp only [List.map_cons, List.find?_cons]
    by_cases hp : p.1 = a
    · simp [hp]
    · have hb : (p.1 == a) = false := by simp [hp]
      simp only [hb]
      exact ih

theorem get_append_new (S : Sys) (a a' : Nat) (s : AState) (h : S.get a = none) :
    ({ S with actors := S.actors ++ [(a, s)] } : Sys).get a' = if a' = a then some s else S.get a' := by
  unfold Sys.get at *
  simp only [List.find?_append]
  by_cases ha : a' = a
  · subst ha
    have : S.actors.find? (fun p => p.1 == a') = none := by
      cases hf : S.actors.find? (fun p => p.1 == a') with
      | none => rfl
      | some x => simp [hf] at h
    simp [this]
  · have : (a == a') = false := by simp; exact fun e => ha e.symm
    simp only [ha, if_false]
    cases hf : S.actors.find? (fun p => p.1 == a') with
    | none => simp [this]
    | some x => simp

end Sys

/-! ### handles owned by a parent -/

theorem handleKind_append_old {s : AState} {h : Nat} {k : HKind} (hk : s.handleKind h = some k) (e : Nat × HKind) :
    ({ s with handles := s.handles ++ [e] } : AState).handleKind h = some k := by
  unfold handleKind at *
  simp only [List.find?_append]
  cases hf : s.handles.find? (fun p => p.1 == h) with
  | none => simp [hf] at hk
  | some x => simpa [hf] using hk

theorem handleKind_remove_ne (s : AState) {h h' : Nat} (hne : h' ≠ h) :
    (s.removeHandle h').handleKind h = s.handleKind h := by
  unfold handleKind removeHandle
  simp only
  congr 1
  induction s.handles with
  | nil => rfl
  | cons p ps ih =>
    simp only [List.filter_cons]
    by_cases hp : p.1 = h'
    · have h2 : (h' == h) = false := by simp; exact hne
      simp [hp, List.find?_cons, h2, ih]
    · simp only [bne_iff_ne, ne_eq, hp, not_false_eq_true, if_true, List.find?_cons]
      cases (p.1 == h) <;> simp [ih]

theorem handleKind_remove_self (s : AState) (h : Nat) : (s.removeHandle h).handleKind h = none := by
  unfold handleKind removeHandle
  simp only
  have : (s.handles.filter (fun p => p.1 != h)).find? (fun p => p.1 == h) = none := by
    apply List.find?_eq_none.mpr
    intro p hp
    have := (List.mem_filter.mp hp).2
    simpa using this
  simp [this]

/-- no pending operation is going to consume handle `h` -/
def NoConsumer (s : AState) (h : Nat) : Prop := ∀ r ∈ s.ops, r.h = h → consumesHandle r.kind = false

/-- A step that is not `drop h` keeps a `Sender` handle `h` that no pending operation consumes, and
    creates no such operation. -/
theorem step_keeps_sender {w : Wiring} {s s' : AState} {l : Label} {h : Nat} (hs : step w s l = some s')
    (hk : s.handleKind h = some .sender) (hn : NoConsumer s h) (hl : l ≠ .drop h) :
    s'.handleKind h = some .sender ∧ NoConsumer s' h := by
  constructor
  · by_cases ht : l.touchesHandles = true
    · cases l <;> simp [Label.touchesHandles] at ht
      case mk h0 h' k' =>
        simp only [step, stepMk] at hs
        (repeat' (split at hs)) <;>
          (first | (simp at hs; done) | (simp at hs; subst hs; exact handleKind_append_old hk _))
      case upgrade h0 h' =>
        simp only [step, stepUpgrade] at hs
        (repeat' (split at hs)) <;>
          (first | (simp at hs; done) | (simp at hs; subst hs; first | exact hk | exact handleKind_append_old hk _))
      case detach h0 h' =>
        simp only [step, stepDetach] at hs
        split at hs
        · rename_i hc
          simp at hs; subst hs
          simp at hc
          have hne : h0 ≠ h := by intro e; rw [e, hk] at hc; simp at hc
          have := handleKind_remove_ne s hne
          exact handleKind_append_old (s := s.removeHandle h0) (by rw [this]; exact hk) _
        · simp at hs
      case drop h0 =>
        simp only [step, stepDrop] at hs
        split at hs
        · simp at hs; subst hs
          have hne : h0 ≠ h := by intro e; exact hl (by rw [e])
          rw [handleKind_remove_ne s hne]; exact hk
        · simp at hs
      case ctxWeak k0 h0 =>
        simp only [step, stepCtxWeak] at hs
        (repeat' (split at hs)) <;>
          (first | (simp at hs; done) | (simp at hs; subst hs; first | exact hk | exact handleKind_append_old hk _))
      case ret o r =>
        simp only [step] at hs
        obtain ⟨rec, hfind, hexp, _, _⟩ := stepRet_ops hs
        obtain ⟨hrec, _⟩ := findOp_some_mem hfind
        unfold stepRet at hs
        simp only [hfind, hexp, if_true] at hs
        simp at hs; subst hs
        unfold retEffect
        by_cases hc : consumesHandle rec.kind = true
        · have hne : rec.h ≠ h := by intro e; have := hn rec hrec e; rw [hc] at this; simp at this
          have := handleKind_remove_ne (s.removeOp rec.o) hne
          (repeat' split) <;> simp_all [handleKind, removeOp]
        · (repeat' split) <;> simp_all [handleKind, removeOp]
      case cdrop o =>
        simp only [step, stepCdrop] at hs
        cases hfind : s.findOp o with
        | none => simp [hfind] at hs
        | some rec =>
          obtain ⟨hrec, _⟩ := findOp_some_mem hfind
          simp only [hfind] at hs
          cases hkk : rec.kind <;> simp [hkk] at hs <;> subst hs <;>
            (first
              | (simpa [handleKind, removeOp] using hk)
              | (have hne : rec.h ≠ h := by
                   intro e; have := hn rec hrec e; simp [hkk, consumesHandle] at this
                 have := handleKind_remove_ne (s.removeOp o) hne
                 simp_all [handleKind, removeOp]))
    · have ht' : l.touchesHandles = false := by simpa using ht
      have := step_handles_same hs ht'
      unfold handleKind at *; rw [this]; exact hk
  · -- no consumer appears: `begin … halt/consume` needs an addr / owning handle
    by_cases hedge : l.isOpEdge = true
    · cases l <;> simp [Label.isOpEdge] at hedge
      case begin o h0 k =>
        simp only [step] at hs
        obtain ⟨_, st, hops⟩ := stepBegin_ops hs
        intro r hr hrh
        rw [hops] at hr
        rcases List.mem_append.mp hr with hr | hr
        · exact hn r hr hrh
        · simp at hr; subst hr
          simp at hrh; subst hrh
          unfold stepBegin at hs
          simp only [hk] at hs
          split at hs
          · simp at hs
          · rename_i hg
            simp at hg
            cases k <;> simp [kindOk] at hg <;> rfl
      case ret o r0 =>
        simp only [step] at hs
        obtain ⟨rec, _, _, hops, _⟩ := stepRet_ops hs
        intro r hr hrh
        rw [hops] at hr
        exact hn r (List.mem_filter.mp hr).1 hrh
      case cdrop o =>
        simp only [step] at hs
        have hops := stepCdrop_ops hs
        intro r hr hrh
        rw [hops] at hr
        exact hn r (List.mem_filter.mp hr).1 hrh
    · have hedge' : l.isOpEdge = false := by simpa using hedge
      obtain ⟨f, hf, pf⟩ := step_ops hs hedge'
      intro r' hr' hrh
      rw [hf] at hr'
      obtain ⟨r, hr, rfl⟩ := List.mem_map.mp hr'
      rw [pf.kind]; rw [pf.h] at hrh
      exact hn r hr hrh

end Hannibal
