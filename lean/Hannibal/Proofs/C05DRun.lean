import Hannibal.Proofs.Guarded
/-
  Runs in which the client only drops the future of an operation whose submission went through (`dstep`,
  `drun`: the guarded step plus the guard `AState.cdropOk` on `cdrop`) are guarded runs, hence runs.
-/
namespace Hannibal

theorem dstep_gstep {w : Wiring} {s s' : AState} {l : Label} (h : dstep w s l = some s') :
    gstep w s l = some s' := by
  unfold dstep at h
  split at h
  · split at h
    · exact h
    · simp at h
  · exact h

theorem dstep_step {w : Wiring} {s s' : AState} {l : Label} (h : dstep w s l = some s') :
    step w s l = some s' := gstep_step (dstep_gstep h)

/-- the extra guard of `dstep` -/
theorem dstep_cdropOk {w : Wiring} {s s' : AState} {o : Nat} (h : dstep w s (.cdrop o) = some s') :
    s.cdropOk o = true := by
  simp only [dstep] at h
  split at h
  · assumption
  · simp at h

theorem drun_grun {w : Wiring} : ∀ (ls : List Label) (s s' : AState), drun w s ls = some s' → grun w s ls = some s'
  | [], s, s', h => by simpa [drun, grun] using h
  | l :: ls, s, s', h => by
    simp only [drun] at h
    cases hd : dstep w s l with
    | none => simp [hd] at h
    | some s1 =>
      simp only [hd] at h
      simp only [grun, dstep_gstep hd]
      exact drun_grun ls s1 s' h

theorem drun_run {w : Wiring} (ls : List Label) (s s' : AState) (h : drun w s ls = some s') :
    run w s ls = some s' := grun_run ls s s' (drun_grun ls s s' h)

end Hannibal
