import Hannibal.Proofs.C02Ops
/-
  C02 support: what a step does to the queue entries that carry a reply slot, to the slot of the
  invocation in progress, and to the mailbox once the actor is done.
-/
set_option linter.unusedSimpArgs false
set_option linter.unusedVariables false
namespace Hannibal
open AState

def Label.isBegin : Label → Bool
  | .begin _ _ _ => true
  | _ => false

theorem mem_tail_cons {α} {a x : α} {l r : List α} (h : l = x :: r) (ha : a ∈ l.tail) : a ∈ l := by
  subst h; simp at ha; simp [ha]

set_option maxHeartbeats 1000000 in
/-- steps other than `begin` only add entries without a reply slot -/
theorem step_queue {w s l s'} (hs : step w s l = some s') (hl : l.isBegin = false) :
    ∀ e ∈ s'.chan.queue, e ∈ s.chan.queue ∨ slotOf e.pl = none := by
  cases l <;> simp [Label.isBegin] at hl <;> unfold_steps hs <;>
    ((repeat' (split at hs)) <;>
     (first
       | (simp at hs; done)
       | (simp at hs; subst hs; intro e he; exact .inl he)
       | (simp at hs; subst hs; intro e he
          simp [Chan.deq, Chan.dropRx, fail, finish, cancelSlots, killTimers, setTimer, removeOp, removeHandle,
            answer] at he
          done)
       | (simp at hs; subst hs; intro e he
          simp [Chan.deq, Chan.dropRx, fail, finish, cancelSlots, killTimers, setTimer, removeOp, removeHandle,
            answer, slotOf] at he ⊢
          simp_all [slotOf]
          done)
       | (simp at hs; subst hs; intro e he
          simp [Chan.deq, Chan.dropRx, fail, finish, cancelSlots, killTimers, setTimer, removeOp, removeHandle,
            answer] at he
          rcases he with he | rfl
          · exact .inl he
          · refine .inr ?_; simp [slotOf]; done)
       | (simp at hs; subst hs; intro e he
          simp [Chan.deq, Chan.dropRx, fail, finish, cancelSlots, killTimers, setTimer, removeOp, removeHandle,
            answer] at he
          refine .inl ?_
          first
            | exact List.mem_of_mem_tail he
            | (simp_all; done))
       | (simp at hs; subst hs; intro e he
          simp at he
          rcases he with rfl | he
          · refine .inr ?_; simp [slotOf]; done
          · refine .inl ?_; simp_all; done)))

set_option maxHeartbeats 1000000 in
/-- the slot of the invocation in progress was taken from the head of the queue -/
theorem step_phaseSlot {w s l s'} (hs : step w s l = some s') :
    ∀ cb o dl, s'.phase = .handling cb (some o) dl →
      s.phase = .handling cb (some o) dl ∨
      (∃ m tok rest, cb = .handle m ∧ s.chan.queue = { pl := .msg m (some o), tok } :: rest) := by
  cases l <;> unfold_steps hs <;>
    ((repeat' (split at hs)) <;>
     (first
       | (simp at hs; done)
       | (simp at hs; subst hs; intro cb o dl hp; exact .inl hp)
       | (simp at hs; subst hs; intro cb o dl hp
          simp [fail, finish, cancelSlots, killTimers, setTimer, removeOp, removeHandle, addOp, push] at hp
          done)
       | (simp at hs; subst hs; intro cb o dl hp
          simp [fail, finish, cancelSlots, killTimers, setTimer, removeOp, removeHandle, addOp, push] at hp
          exact .inl hp)
       | (simp at hs; subst hs; intro cb o dl hp
          simp [fail, finish, cancelSlots, killTimers, setTimer, removeOp, removeHandle, addOp, push] at hp
          simp_all
          done)))

/-- once the loop task is gone the mailbox is closed and empty -/
def DoneChan (s : AState) : Prop := s.isDone = true → s.chan.rx = false ∧ s.chan.queue = []

theorem ChanStep.closed {c c'} (h : ChanStep c c') (hc : c.rx = false ∧ c.queue = []) :
    c'.rx = false ∧ c'.queue = [] := by
  cases h with
  | same h => rw [h]; exact hc
  | enq e hrx h => simp [hc.1] at hrx
  | deq hrx h => simp [hc.1] at hrx
  | drop h => rw [h]; simp [Chan.dropRx]
  | rename pl pl' tok rest hq h => simp [hc.2] at hq

theorem doneChan_init (cfg : Cfg) (h0 : Nat) (k0 : HKind) : DoneChan (AState.init cfg h0 k0) := by
  intro h; simp [AState.init, isDone] at h

theorem doneChan_step {w s l s'} (hs : step w s l = some s') (hi : DoneChan s) : DoneChan s' := by
  obtain ⟨h1, h2⟩ := step_isDone w hs
  cases ht : l.terminates
  · intro hd
    rw [h2 ht] at hd
    have hc := hi hd
    cases step_chan hs with
    | one h => exact h.closed hc
    | two h1 h2 => exact h2.closed (h1.closed hc)
  · intro _
    cases l <;> simp [Label.terminates] at ht <;> simp only [step] at hs
    case cancel => rw [stepCancel_chan hs]; simp [Chan.dropRx]
    case taskDone => rw [stepTaskDone_chan hs]; simp [Chan.dropRx]
    case taskPanic =>
      rcases stepTaskPanic_chan hs with h | ⟨_, h⟩ <;> (rw [h]; simp [Chan.dropRx])

end Hannibal
