import Hannibal.Proofs.C02Quiet
import Hannibal.Proofs.C02Step
import Hannibal.Proofs.C05Hold
/-
  C05 (2), support 1: the part of the C02 coupling that does not depend on where the loop notifies
  (`Lite02`: `C02Inv` without `TermInv`), used here as a ghost invariant, and what a quiet, idle actor's
  remaining operations can be.
-/
set_option linter.unusedSimpArgs false
set_option linter.unusedVariables false
namespace Hannibal
open AState

structure Lite02 (s : AState) (σ : C02St) : Prop where
  term : σ.terminated = s.isDone
  ops : ∀ r ∈ s.ops, opOk σ r = true
  ret : ∀ o ∈ σ.returned, (lookup o σ.ops).isSome = true
  queue : ∀ e ∈ s.chan.queue, plOk σ e.pl = true
  phase : phaseOk σ s.phase = true
  grace : gracefulEnd02 s.phase = true → σ.graceful = true
  dchan : DoneChan s
  wf : s.chan.WF
  wait : WaitInv s

theorem lite02_init (c : MonCtx) : Lite02 (AState.init c.cfg c.h0 c.k0) C02St.init := by
  refine ⟨rfl, ?_, ?_, ?_, rfl, ?_, doneChan_init _ _ _, ?_, waitInv_init _ _ _⟩
  · intro r hr; simp [AState.init] at hr
  · intro o ho; simp [C02St.init] at ho
  · intro e he; simp [AState.init, Chan.init] at he
  · intro h; simp [AState.init, gracefulEnd02] at h
  · exact Chan.wf_init _

theorem lite02_step (w : Wiring) {s s' : AState} {σ : C02St} {l : Label}
    (hi : Lite02 s σ) (hf : freshFor σ l) (hs : step w s l = some s') : Lite02 s' (next02 σ l) := by
  obtain ⟨hq', hp'⟩ := qinv02_step hf hs hi.queue hi.phase
  obtain ⟨hd1, hd2⟩ := step_isDone w hs
  refine ⟨?_, ops_step hf hs hi.ops hi.ret hi.queue hi.phase hi.dchan hi.term, ?_, hq', hp',
    grace_step w hs hi.grace, doneChan_step hs hi.dchan,
    (step_chan hs).wf hi.wf, waitInv_step hs (slotCb_of_phaseOk hi.phase) hi.wait⟩
  · simp only [next02_terminated]
    cases ht : l.terminates
    · simp; rw [hd2 ht]; exact hi.term
    · simp [hd1 ht]
  · intro o ho
    simp only [next02_returned] at ho
    have hold : ∀ o ∈ σ.returned, (lookup o (next02 σ l).ops).isSome = true := by
      intro o ho
      have := hi.ret o ho
      cases hl : lookup o σ.ops with
      | none => simp [hl] at this
      | some v => rw [lookup_next02 hf hl]; rfl
    cases l <;> try exact hold o ho
    rename_i o' res
    simp at ho
    rcases ho with rfl | ho
    · simp only [step] at hs
      obtain ⟨rec, hfind, _, _, _⟩ := stepRet_ops hs
      obtain ⟨hr, hro⟩ := findOp_some_mem hfind
      obtain ⟨late, h1, _⟩ := opOk_parts (hi.ops rec hr)
      rw [hro] at h1
      simp [h1]
    · exact hold o ho

/-- an operation that cannot return while the loop is parked on an empty mailbox only waits for the
    actor's termination (`quiet_op` without the latch) -/
theorem idle_quiet_op {s : AState} {fin : List Nat} (hqe : s.chan.queue = []) (hpk : s.chan.parked = [])
    (hph : s.phase = .idle) (hwait : WaitInv s)
    {r : OpRec} (hr : r ∈ s.ops) (hst : stOk fin r.kind r.st = true) (hnone : s.retExpect r = none) :
    r.kind = .await ∨ r.kind = .join := by
  have hcur : s.curSlot = [] := by simp [curSlot, hph]
  have hslots : s.slotsLive = [] := by simp [slotsLive, hcur, hqe]
  have hstop : stopLive s = false := by simp [stopLive, hph, pastLoop, hqe]
  have hd : s.isDone = false := by simp [isDone, hph]
  have hslot := hwait.slot r hr
  have hstp := hwait.stop r hr
  unfold retExpect at hnone
  cases hs : r.st <;> simp only [hs] at hnone hst
  case failed e => simp at hnone
  case pending =>
    cases hk : r.kind <;> simp only [hk] at hnone hst
    case send m => simp [Chan.isParked, hpk] at hnone
    case trySend m => simp [Chan.isParked, hpk] at hnone
    case tryForce m => simp [Chan.isParked, hpk] at hnone
    case await => exact .inl rfl
    case halt =>
      have := hstp (by simp [needsStop, hs, hk])
      simp [hstop] at this
    case tryHalt =>
      have := hstp (by simp [needsStop, hs, hk])
      simp [hstop] at this
    case join => simp [stOk] at hst
    case consume => simp [stOk] at hst
    all_goals
      (have := hslot (by simp [needsSlot, hs, hk, OpKind.isCall])
       simp [hslots] at this)
  case answered v =>
    cases hk : r.kind <;> simp [hk, stOk, OpKind.isCall] at hnone hst
  case pinged =>
    simp [stOk] at hst; simp [hst] at hnone
  case cancelled =>
    cases hk : r.kind <;> simp [hk, stOk, OpKind.isCall] at hnone hst
  case joining =>
    cases hk : r.kind <;> simp [hk, stOk] at hst
    · exact .inr rfl
    · have := hstp (by simp [needsStop, hs, hk])
      simp [hstop] at this
  case joinNone =>
    cases hk : r.kind <;> simp [hk, stOk] at hnone hst

/-- a quiet actor whose loop is parked and whose handles are all weak: contradiction (somebody must own a
    sender, and whoever could has returned or never held one) -/
theorem idle_quiet_absurd {w : Wiring} (hw : WellWired05 w) {s : AState} {σ : C02St} (hi : Lite02 s σ)
    (hq : s.quiet w = true) (hph : s.phase = .idle) (hweak : s.handles.any (fun p => p.2.strong) = false) :
    False := by
  unfold quiet at hq
  simp only [Bool.and_eq_true, hph] at hq
  obtain ⟨⟨⟨⟨hqe, halive⟩, _⟩, htim⟩, hops⟩ := hq
  have hqe' : s.chan.queue = [] := by simpa using hqe
  have hpk := parked_nil_of_wf hi.wf hqe'
  have hkinds : ∀ r ∈ s.ops, r.kind = .await ∨ r.kind = .join := by
    intro r hr
    obtain ⟨late, _, _, _, h4⟩ := opOk_parts (hi.ops r hr)
    have hn : s.retExpect r = none := by simpa using List.all_eq_true.mp hops r hr
    exact idle_quiet_op hqe' hpk hph hi.wait hr h4 hn
  have hhalf : ∀ x, s.halfAlive w x = false := by
    intro x
    unfold halfAlive
    simp only [Bool.or_eq_false_iff]
    refine ⟨⟨?_, ?_⟩, ?_⟩
    · apply List.any_eq_false.mpr
      intro p hp
      have hp2 : p.2.strong = false := by
        have := List.any_eq_false.mp hweak p hp
        simpa using this
      rw [hw.weak_holds p.2 hp2]; simp
    · apply List.any_eq_false.mpr
      intro r hr
      rcases hkinds r hr with hk | hk <;> simp [opHolds, hk]
    · apply List.any_eq_false.mpr
      intro t ht
      have := List.all_eq_true.mp htim t ht
      simp at this
      simp [timerHolds, this]
  have hinf : s.inflight = false := by
    unfold inflight
    simp only [Bool.or_eq_false_iff]
    refine ⟨?_, ?_⟩
    · apply List.any_eq_false.mpr
      intro r hr
      rcases hkinds r hr with hk | hk <;> simp [isWaitOp, hk]
    · apply List.any_eq_false.mpr
      intro t ht
      have := List.all_eq_true.mp htim t ht
      simp at this
      simp [this]
  unfold sendersAlive at halive
  simp [hhalf, hinf] at halive

end Hannibal
