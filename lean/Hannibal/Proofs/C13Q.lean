import Hannibal.Proofs.C13QDead
import Hannibal.Proofs.C03Q
import Hannibal.Proofs.C02Quiet
import Hannibal.Props.C13
/-
  C13q support: what a stop-like `begin` leaves behind, and why a quiet state whose loop is still parked on its
  mailbox has a strong handle.
-/
set_option linter.unusedSimpArgs false
namespace Hannibal
open AState

theorem hdead_addFailed {s : AState} (hd : HDead s) (o h : Nat) (k : OpKind) :
    HDead (s.addOp o h k (.failed .alreadyStopped)) := by
  refine ⟨hd.nh, ?_, hd.nt⟩
  intro r hr hk
  simp only [addOp_ops] at hr
  rcases List.mem_append.mp hr with hr | hr
  · exact hd.no r hr hk
  · simp at hr; subst hr; rfl

/-- `halt` / `try_halt` / `consume`: the stop request is in the mailbox, or the receiver is gone, or the weak
    handle found nothing to upgrade to (and then nothing owns a sender any more) -/
theorem stepBegin_stopKind {w : Wiring} (hw : WellWired05 w) {s s' : AState} {o h : Nat} {k : OpKind}
    (hs : stepBegin w s o h k = some s') (hk : isStopKind k = true) :
    0 < cntP isStopP s' ∨ s.chan.rx = false ∨ HDead s' := by
  unfold stepBegin at hs
  cases hk0 : s.handleKind h with
  | none => simp [hk0] at hs
  | some hk' =>
    simp only [hk0] at hs
    split at hs
    · simp at hs
    · split at hs
      · rename_i hreq
        simp at hs; subst hs
        have hreq' : s.reqOk w (plan w hk' o k).upg = false := by simpa using hreq
        exact .inr (.inr (hdead_addFailed (hdead_of_reqFail hw hreq') _ _ _))
      · have hpl : (plan w hk' o k).pl = some .stop := by
          cases k <;> simp [isStopKind] at hk <;> rfl
        simp only [hpl] at hs
        split at hs
        · simp at hs; subst hs
          left
          simp [cntP, List.countP_append, isStopP]
        · rename_i hrx
          exact .inr (.inl (by simpa using hrx))

/-- a stream-attached actor's handlers carry no deadline: an abandoned callback is the drop guard of a
    cancelled one -/
theorem abandon_failed {w : Wiring} {s s' : AState} {cb : Cb} (hs : step w s (.cbAbandon cb) = some s')
    (hnd : noDeadline s.phase = true) : failedPh s.phase = true := by
  simp only [step, stepCbAbandon] at hs
  cases hp : s.phase <;> simp [hp] at hs
  case handling cb' sl dl =>
    cases dl with
    | none => simp at hs
    | some d => simp [hp, noDeadline] at hnd
  case done g =>
    cases g <;> simp at hs
    rfl

/-- `quiet_op` for a loop parked on its mailbox (no hypothesis on the latch is needed there): every
    recorded operation that cannot return awaits or joins -/
theorem quiet_op_idle {s : AState} {fin : List Nat} (hqe : s.chan.queue = []) (hpk : s.chan.parked = [])
    (hph : s.phase = .idle) (hwait : WaitInv s)
    {r : OpRec} (hr : r ∈ s.ops) (hst : stOk fin r.kind r.st = true) (hnone : s.retExpect r = none) :
    r.kind = .await ∨ r.kind = .join := by
  have hcur : s.curSlot = [] := by simp [curSlot, hph]
  have hslots : s.slotsLive = [] := by simp [slotsLive, hcur, hqe]
  have hstop : stopLive s = false := by simp [stopLive, hph, pastLoop, hqe]
  have hd : s.isDone = false := by simp [isDone, hph]
  have hslot := hwait.slot r hr
  have hstp := hwait.stop r hr
  unfold retExpect at hnone
  cases hs : r.st <;> simp only [hs] at hnone hst
  case failed e => simp at hnone
  case pending =>
    cases hk : r.kind <;> simp only [hk] at hnone hst
    case send m => simp [Chan.isParked, hpk] at hnone
    case trySend m => simp [Chan.isParked, hpk] at hnone
    case tryForce m => simp [Chan.isParked, hpk] at hnone
    case await => exact .inl rfl
    case halt =>
      have := hstp (by simp [needsStop, hs, hk])
      simp [hstop] at this
    case tryHalt =>
      have := hstp (by simp [needsStop, hs, hk])
      simp [hstop] at this
    case join => simp [stOk] at hst
    case consume => simp [stOk] at hst
    all_goals
      (have := hslot (by simp [needsSlot, hs, hk, OpKind.isCall])
       simp [hslots] at this)
  case answered v =>
    cases hk : r.kind <;> simp [hk, stOk, OpKind.isCall] at hnone hst
  case pinged =>
    simp [stOk] at hst; simp [hst] at hnone
  case cancelled =>
    cases hk : r.kind <;> simp [hk, stOk, OpKind.isCall] at hnone hst
  case joining =>
    cases hk : r.kind <;> simp [hk, stOk] at hst
    · exact .inr rfl
    · have := hstp (by simp [needsStop, hs, hk])
      simp [hstop] at this
  case joinNone =>
    cases hk : r.kind <;> simp [hk, stOk] at hnone hst

/-- In a quiet state whose loop is parked on its (empty, open) mailbox a strong handle exists: the sender
    that keeps the channel open belongs neither to an operation (every recorded operation that holds one
    could return) nor to a timer task (all have ended). -/
theorem quiet_idle_strong {w : Wiring} (hw : WellWired05 w) {s : AState} {fin : List Nat}
    (hq : s.quiet w = true) (hph : s.phase = .idle) (hwf : s.chan.WF) (hwait : WaitInv s)
    (hst : ∀ r ∈ s.ops, stOk fin r.kind r.st = true) :
    s.handles.any (fun p => p.2.strong) = true := by
  unfold quiet at hq
  simp only [Bool.and_eq_true, hph] at hq
  obtain ⟨⟨⟨⟨hqe, halive⟩, _⟩, htim⟩, hops⟩ := hq
  have hqe' : s.chan.queue = [] := by simpa using hqe
  have hpk := parked_nil_of_wf hwf hqe'
  -- every recorded operation awaits or joins
  have hkinds : ∀ r ∈ s.ops, r.kind = .await ∨ r.kind = .join := by
    intro r hr
    have hnone : s.retExpect r = none := by simpa using List.all_eq_true.mp hops r hr
    exact quiet_op_idle hqe' hpk hph hwait hr (hst r hr) hnone
  have hended : ∀ x ∈ s.timers, x.st = .ended := by
    intro x hx; simpa using List.all_eq_true.mp htim x hx
  have hnoop : ∀ x, s.ops.any (opHolds w x) = false := by
    intro x
    apply List.any_eq_false.mpr
    intro r hr hc
    have := holderKind_of_opHolds hc
    rcases hkinds r hr with h | h <;> simp [h, holderKind] at this
  have hnotim : ∀ x, s.timers.any (timerHolds w x) = false := by
    intro x
    apply List.any_eq_false.mpr
    intro y hy hc
    have := holding_of_timerHolds hc
    simp [hended y hy, holding] at this
  have hinf : s.inflight = false := by
    unfold inflight
    simp only [Bool.or_eq_false_iff]
    constructor
    · apply List.any_eq_false.mpr
      intro r hr
      rcases hkinds r hr with h | h <;> simp [h, isWaitOp]
    · apply List.any_eq_false.mpr
      intro y hy
      simp [hended y hy]
  have hhalf : ∃ x, s.handles.any (fun p => (w.holds p.2).contains x) = true := by
    unfold sendersAlive at halive
    simp only [hinf, Bool.or_false, Bool.or_eq_true] at halive
    rcases halive with h | h
    · exact ⟨.tx, by simpa [halfAlive, hnoop, hnotim] using h⟩
    · exact ⟨.force, by simpa [halfAlive, hnoop, hnotim] using h⟩
  obtain ⟨x, hx⟩ := hhalf
  obtain ⟨p, hp, hc⟩ := List.any_eq_true.mp hx
  refine List.any_eq_true.mpr ⟨p, hp, ?_⟩
  cases hs : p.2.strong
  · rw [hw.weak_holds p.2 hs] at hc; simp at hc
  · rfl

end Hannibal
