import Hannibal.Proofs.C09List
/-
  C09, part 2: the invariants coupling the broker state, the monitor state, the well-formedness state and
  the ghost enqueue order, and their preservation by the individual moves.
-/
namespace Hannibal

/-! ### what `bret` does to one entry of the monitor's table -/

def close9 (o now : Nat) (x : Op9) : Op9 :=
  if x.o == o && x.tr.isNone then { x with tr := some now } else x

theorem next09_bret (σ : C09St) (o : Nat) :
    next09 σ (.bret o) = { σ with now := σ.now + 1, ops := σ.ops.map (close9 o σ.now) } := rfl

@[simp] theorem close9_tb (o n : Nat) (x : Op9) : (close9 o n x).tb = x.tb := by
  unfold close9; split <;> rfl
@[simp] theorem close9_it (o n : Nat) (x : Op9) : (close9 o n x).it = x.it := by
  unfold close9; split <;> rfl
@[simp] theorem close9_o (o n : Nat) (x : Op9) : (close9 o n x).o = x.o := by
  unfold close9; split <;> rfl

theorem close9_of_ne {o n : Nat} {x : Op9} (h : x.o ≠ o) : close9 o n x = x := by
  unfold close9; simp [h]

theorem close9_tr_none {o n : Nat} {x : Op9} (h : (close9 o n x).tr = none) : x.tr = none ∧ x.o ≠ o := by
  unfold close9 at h
  split at h
  · simp at h
  · rename_i hc
    refine ⟨h, ?_⟩
    intro ho
    simp [ho, h] at hc

theorem close9_tr_some {o n r : Nat} {x : Op9} (h : (close9 o n x).tr = some r) :
    x.tr = some r ∨ (x.tr = none ∧ x.o = o ∧ r = n) := by
  unfold close9 at h
  split at h
  · rename_i hc
    simp at hc h
    right
    exact ⟨by simpa using hc.2, hc.1, h.symm⟩
  · exact Or.inl h

/-! ### the monitor's table -/

structure OpsInv (ops : List Op9) (now : Nat) (W : List Nat) : Prop where
  t1 : ∀ x ∈ ops, x.tb < now
  t2 : ∀ x ∈ ops, ∀ y ∈ ops, x.tb = y.tb → x = y
  u1 : ∀ x ∈ ops, ∀ y ∈ ops, x.tr = none → y.tr = none → x.o = y.o → x = y
  w1 : ∀ x ∈ ops, ∀ m, x.it = .pub m → m ∈ W
  pu : ∀ x ∈ ops, ∀ y ∈ ops, ∀ m, x.it = .pub m → y.it = .pub m → x = y

theorem ops_begin {ops : List Op9} {now : Nat} {W W' : List Nat} (h : OpsInv ops now W) (o : Nat) (it : BItem)
    (hopen : ∀ x ∈ ops, x.tr = none → x.o ≠ o) (hW : ∀ m ∈ W, m ∈ W')
    (hnew : ∀ m, it = .pub m → m ∉ W ∧ m ∈ W') :
    OpsInv (ops ++ [{ o, it, tb := now, tr := none }]) (now + 1) W' := by
  refine ⟨?_, ?_, ?_, ?_, ?_⟩
  · intro x hx
    rcases List.mem_append.mp hx with hx | hx
    · have := h.t1 x hx; omega
    · simp at hx; subst hx; simp
  · intro x hx y hy hxy
    rcases List.mem_append.mp hx with hx | hx <;> rcases List.mem_append.mp hy with hy | hy
    · exact h.t2 x hx y hy hxy
    · simp at hy; subst hy; have := h.t1 x hx; simp at hxy; omega
    · simp at hx; subst hx; have := h.t1 y hy; simp at hxy; omega
    · simp at hx hy; rw [hx, hy]
  · intro x hx y hy hxo hyo hxy
    rcases List.mem_append.mp hx with hx | hx <;> rcases List.mem_append.mp hy with hy | hy
    · exact h.u1 x hx y hy hxo hyo hxy
    · simp at hy; subst hy; exact absurd hxy (hopen x hx hxo)
    · simp at hx; subst hx; exact absurd hxy.symm (hopen y hy hyo)
    · simp at hx hy; rw [hx, hy]
  · intro x hx m hm
    rcases List.mem_append.mp hx with hx | hx
    · exact hW m (h.w1 x hx m hm)
    · simp at hx; subst hx; exact (hnew m hm).2
  · intro x hx y hy m hxm hym
    rcases List.mem_append.mp hx with hx | hx <;> rcases List.mem_append.mp hy with hy | hy
    · exact h.pu x hx y hy m hxm hym
    · simp at hy; subst hy; exact absurd (h.w1 x hx m hxm) (hnew m hym).1
    · simp at hx; subst hx; exact absurd (h.w1 y hy m hym) (hnew m hxm).1
    · simp at hx hy; rw [hx, hy]

theorem ops_tick {ops : List Op9} {now : Nat} {W : List Nat} (h : OpsInv ops now W) : OpsInv ops (now + 1) W :=
  ⟨fun x hx => Nat.lt_succ_of_lt (h.t1 x hx), h.t2, h.u1, h.w1, h.pu⟩

theorem ops_ret {ops : List Op9} {now : Nat} {W : List Nat} (h : OpsInv ops now W) (o : Nat) :
    OpsInv (ops.map (close9 o now)) (now + 1) W := by
  refine ⟨?_, ?_, ?_, ?_, ?_⟩
  · intro x hx
    obtain ⟨x0, hx0, rfl⟩ := List.mem_map.mp hx
    have := h.t1 x0 hx0; simp; omega
  · intro x hx y hy hxy
    obtain ⟨x0, hx0, rfl⟩ := List.mem_map.mp hx
    obtain ⟨y0, hy0, rfl⟩ := List.mem_map.mp hy
    simp at hxy
    rw [h.t2 x0 hx0 y0 hy0 hxy]
  · intro x hx y hy hxo hyo hxy
    obtain ⟨x0, hx0, rfl⟩ := List.mem_map.mp hx
    obtain ⟨y0, hy0, rfl⟩ := List.mem_map.mp hy
    simp at hxy
    rw [h.u1 x0 hx0 y0 hy0 (close9_tr_none hxo).1 (close9_tr_none hyo).1 hxy]
  · intro x hx m hm
    obtain ⟨x0, hx0, rfl⟩ := List.mem_map.mp hx
    simp at hm
    exact h.w1 x0 hx0 m hm
  · intro x hx y hy m hxm hym
    obtain ⟨x0, hx0, rfl⟩ := List.mem_map.mp hx
    obtain ⟨y0, hy0, rfl⟩ := List.mem_map.mp hy
    simp at hxm hym
    rw [h.pu x0 hx0 y0 hy0 m hxm hym]

/-! ### the enqueue order -/

structure EInv (ops : List Op9) (now : Nat) (E : List GE) : Prop where
  ek : E.Pairwise (fun a b => a.k ≠ b.k)
  te1 : ∀ e ∈ E, e.k < e.te ∧ e.te ≤ now
  te2 : E.Pairwise (fun a b => a.te ≤ b.te)
  el : ∀ e ∈ E, ∃ x ∈ ops, x.tb = e.k ∧ x.it = e.it

theorem e_begin {ops : List Op9} {now : Nat} {E : List GE} (h : EInv ops now E) (x : Op9) :
    EInv (ops ++ [x]) (now + 1) E := by
  refine ⟨h.ek, ?_, h.te2, ?_⟩
  · intro e he; have := h.te1 e he; omega
  · intro e he
    obtain ⟨y, hy, h1, h2⟩ := h.el e he
    exact ⟨y, List.mem_append_left _ hy, h1, h2⟩

theorem e_tick {ops : List Op9} {now : Nat} {E : List GE} (h : EInv ops now E) : EInv ops (now + 1) E := by
  refine ⟨h.ek, ?_, h.te2, h.el⟩
  intro e he; have := h.te1 e he; omega

theorem e_ret {ops : List Op9} {now : Nat} {E : List GE} (h : EInv ops now E) (o : Nat) :
    EInv (ops.map (close9 o now)) (now + 1) E := by
  refine ⟨h.ek, ?_, h.te2, ?_⟩
  · intro e he; have := h.te1 e he; omega
  · intro e he
    obtain ⟨y, hy, h1, h2⟩ := h.el e he
    exact ⟨close9 o now y, List.mem_map_of_mem hy, by simpa using h1, by simpa using h2⟩

theorem e_enq {ops : List Op9} {now : Nat} {E : List GE} (h : EInv ops now E) {y : Op9} (hy : y ∈ ops)
    (hlt : y.tb < now) (hne : ∀ e ∈ E, e.k ≠ y.tb) : EInv ops now (E ++ [⟨y.tb, y.it, now⟩]) := by
  refine ⟨?_, ?_, ?_, ?_⟩
  · rw [List.pairwise_append]
    refine ⟨h.ek, by simp, ?_⟩
    intro a ha b hb
    simp at hb; subst hb
    exact hne a ha
  · intro e he
    rcases List.mem_append.mp he with he | he
    · exact h.te1 e he
    · simp at he; subst he; exact ⟨hlt, Nat.le_refl _⟩
  · rw [List.pairwise_append]
    refine ⟨h.te2, by simp, ?_⟩
    intro a ha b hb
    simp at hb; subst hb
    exact (h.te1 a ha).2
  · intro e he
    rcases List.mem_append.mp he with he | he
    · exact h.el e he
    · simp at he; subst he; exact ⟨y, hy, rfl, rfl⟩

theorem pubU_of {ops : List Op9} {now : Nat} {W : List Nat} {E : List GE} (ho : OpsInv ops now W)
    (he : EInv ops now E) : PubU E := by
  intro i j e e' m hi hj h1 h2
  obtain ⟨x, hx, hxk, hxi⟩ := he.el e (List.mem_of_getElem? hi)
  obtain ⟨y, hy, hyk, hyi⟩ := he.el e' (List.mem_of_getElem? hj)
  have : x = y := ho.pu x hx y hy m (by rw [hxi, h1]) (by rw [hyi, h2])
  subst this
  exact key_inj he.ek hi hj (by rw [← hxk, ← hyk])

/-! ### where every operation is -/

structure StInv (pend : List (Nat × BItem)) (sent : List Nat) (ops : List Op9) (E : List GE) : Prop where
  st : ∀ x ∈ ops, (x.tr = none ∧ (x.o, x.it) ∈ pend ∧ ∀ e ∈ E, e.k ≠ x.tb) ∨
        (∃ e ∈ E, e.k = x.tb ∧ e.it = x.it ∧ (x.tr = none → x.o ∈ sent) ∧ (∀ r, x.tr = some r → e.te ≤ r))
  d1 : ∀ p ∈ pend, p.1 ∉ sent
  pl : ∀ p ∈ pend, ∃ x ∈ ops, x.o = p.1 ∧ x.it = p.2 ∧ x.tr = none

/-- an open operation has its id in `pend` or in `sent` -/
theorem st_open {pend : List (Nat × BItem)} {sent : List Nat} {ops : List Op9} {E : List GE}
    (h : StInv pend sent ops E) {x : Op9} (hx : x ∈ ops) (ho : x.tr = none) :
    (x.o, x.it) ∈ pend ∨ x.o ∈ sent := by
  rcases h.st x hx with ⟨_, h2, _⟩ | ⟨e, _, _, _, h3, _⟩
  · exact Or.inl h2
  · exact Or.inr (h3 ho)

theorem st_begin {pend : List (Nat × BItem)} {sent : List Nat} {ops : List Op9} {E : List GE} {now : Nat}
    (h : StInv pend sent ops E) (he : EInv ops now E) (ht1 : ∀ x ∈ ops, x.tb < now) (o : Nat) (it : BItem)
    (hns : o ∉ sent) : StInv (pend ++ [(o, it)]) sent (ops ++ [{ o, it, tb := now, tr := none }]) E := by
  refine ⟨?_, ?_, ?_⟩
  · intro x hx
    rcases List.mem_append.mp hx with hx | hx
    · rcases h.st x hx with ⟨h1, h2, h3⟩ | h2
      · exact Or.inl ⟨h1, List.mem_append_left _ h2, h3⟩
      · exact Or.inr h2
    · simp at hx; subst hx
      refine Or.inl ⟨rfl, by simp, ?_⟩
      intro e hee
      obtain ⟨y, hy, hyk, _⟩ := he.el e hee
      have := ht1 y hy
      simp; omega
  · intro p hp
    rcases List.mem_append.mp hp with hp | hp
    · exact h.d1 p hp
    · simp at hp; subst hp; exact hns
  · intro p hp
    rcases List.mem_append.mp hp with hp | hp
    · obtain ⟨x, hx, h1⟩ := h.pl p hp
      exact ⟨x, List.mem_append_left _ hx, h1⟩
    · simp at hp; subst hp
      exact ⟨_, List.mem_append_right _ (List.mem_singleton.mpr rfl), rfl, rfl, rfl⟩

theorem st_enq {pend : List (Nat × BItem)} {sent : List Nat} {ops : List Op9} {E : List GE} {now : Nat}
    {W : List Nat} (h : StInv pend sent ops E) (ho : OpsInv ops now W) {y : Op9} (hy : y ∈ ops)
    (hyo : y.tr = none) (te : Nat) :
    StInv (pend.filter (fun p => p.1 != y.o)) (y.o :: sent) ops (E ++ [⟨y.tb, y.it, te⟩]) := by
  refine ⟨?_, ?_, ?_⟩
  · intro x hx
    rcases h.st x hx with ⟨h1, h2, h3⟩ | ⟨e, he, h1, h2, h3, h4⟩
    · by_cases hxo : x.o = y.o
      · have : x = y := ho.u1 x hx y hy h1 hyo hxo
        subst this
        refine Or.inr ⟨⟨x.tb, x.it, te⟩, by simp, rfl, rfl, fun _ => by simp, ?_⟩
        intro r hr; rw [h1] at hr; cases hr
      · refine Or.inl ⟨h1, ?_, ?_⟩
        · rw [List.mem_filter]; exact ⟨h2, by simpa using hxo⟩
        · intro e he
          rcases List.mem_append.mp he with he | he
          · exact h3 e he
          · simp at he; subst he
            intro hk
            simp at hk
            exact hxo (by rw [ho.t2 x hx y hy hk.symm])
    · exact Or.inr ⟨e, List.mem_append_left _ he, h1, h2, fun hn => List.mem_cons_of_mem _ (h3 hn), h4⟩
  · intro p hp
    rw [List.mem_filter] at hp
    have h1 := h.d1 p hp.1
    have h2 : p.1 ≠ y.o := by simpa using hp.2
    simp [h1, h2]
  · intro p hp
    rw [List.mem_filter] at hp
    exact h.pl p hp.1

theorem st_ret {pend : List (Nat × BItem)} {sent : List Nat} {ops : List Op9} {E : List GE} {now : Nat}
    (h : StInv pend sent ops E) (he : EInv ops now E) (o : Nat) (hos : o ∈ sent) :
    StInv pend (sent.filter (fun x => x != o)) (ops.map (close9 o now)) E := by
  refine ⟨?_, ?_, ?_⟩
  · intro x hx
    obtain ⟨x0, hx0, rfl⟩ := List.mem_map.mp hx
    rcases h.st x0 hx0 with ⟨h1, h2, h3⟩ | ⟨e, hee, h1, h2, h3, h4⟩
    · have hne : x0.o ≠ o := by
        intro heq
        have := h.d1 _ h2
        simp at this
        exact this (heq ▸ hos)
      rw [close9_of_ne hne]
      exact Or.inl ⟨h1, h2, h3⟩
    · refine Or.inr ⟨e, hee, by simpa using h1, by simpa using h2, ?_, ?_⟩
      · intro hn
        obtain ⟨hn1, hn2⟩ := close9_tr_none hn
        rw [List.mem_filter]
        exact ⟨by simpa using h3 hn1, by simpa using hn2⟩
      · intro r hr
        rcases close9_tr_some hr with hr | ⟨_, _, hr⟩
        · exact h4 r hr
        · subst hr; exact (he.te1 e hee).2
  · intro p hp
    have := h.d1 p hp
    intro hc
    rw [List.mem_filter] at hc
    exact this hc.1
  · intro p hp
    obtain ⟨x, hx, h1, h2, h3⟩ := h.pl p hp
    have hne : x.o ≠ o := by
      intro heq
      exact h.d1 p hp (by rw [← h1, heq]; exact hos)
    refine ⟨x, ?_, h1, h2, h3⟩
    have := List.mem_map_of_mem (f := close9 o now) hx
    rwa [close9_of_ne hne] at this

/-! ### consequences: real-time order implies enqueue order -/

theorem closed_in_E {pend : List (Nat × BItem)} {sent : List Nat} {ops : List Op9} {E : List GE}
    (h : StInv pend sent ops E) {x : Op9} (hx : x ∈ ops) {r : Nat} (hr : x.tr = some r) :
    ∃ (i : Nat) (e : GE), E[i]? = some e ∧ e.k = x.tb ∧ e.it = x.it ∧ e.te ≤ r := by
  rcases h.st x hx with ⟨h1, _, _⟩ | ⟨e, he, h1, h2, _, h4⟩
  · rw [h1] at hr; cases hr
  · obtain ⟨i, hi⟩ := List.mem_iff_getElem?.mp he
    exact ⟨i, e, hi, h1, h2, h4 r hr⟩

/-- `x` returned before `y` began, `y` is enqueued: `x` is enqueued earlier -/
theorem enq_order {pend : List (Nat × BItem)} {sent : List Nat} {ops : List Op9} {E : List GE} {now : Nat}
    (he : EInv ops now E) (h : StInv pend sent ops E) {x y : Op9} (hx : x ∈ ops) {r : Nat}
    (hr : x.tr = some r) (hlt : r < y.tb) {j : Nat} {ey : GE} (hj : E[j]? = some ey) (hk : ey.k = y.tb) :
    ∃ (i : Nat) (ex : GE), i < j ∧ E[i]? = some ex ∧ ex.k = x.tb ∧ ex.it = x.it := by
  obtain ⟨i, ex, hi, h1, h2, h3⟩ := closed_in_E h hx hr
  refine ⟨i, ex, ?_, hi, h1, h2⟩
  have hy := (he.te1 ey (List.mem_of_getElem? hj)).1
  rcases Nat.lt_or_ge i j with hlt' | hge
  · exact hlt'
  · have := te_mono he.te2 hj hi hge
    omega

/-- `x` is enqueued no later than `y`: `x` began before `y` returned -/
theorem began_before {pend : List (Nat × BItem)} {sent : List Nat} {ops : List Op9} {E : List GE} {now : Nat}
    (he : EInv ops now E) (h : StInv pend sent ops E) {i j : Nat} {ex ey : GE} (hi : E[i]? = some ex)
    (hj : E[j]? = some ey) (hij : i ≤ j) {y : Op9} (hy : y ∈ ops) (hk : ey.k = y.tb) {r : Nat}
    (hr : y.tr = some r) : ex.k < r := by
  obtain ⟨j', e', hj', h1, _, h3⟩ := closed_in_E h hy hr
  have : j' = j := key_inj he.ek hj' hj (by rw [h1, hk])
  subst this
  rw [hj] at hj'; cases hj'
  have h4 := (he.te1 ex (List.mem_of_getElem? hi)).1
  have h5 := te_mono he.te2 hi hj hij
  omega

end Hannibal
