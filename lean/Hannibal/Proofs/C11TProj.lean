import Hannibal.Monitor.C11T
/-
  `monC11t` is the timing part of `monC11p`: it takes the same decisions on every label but `ret`
  (the third clause of `monC11p`, "the caller of an abandoned invocation receives an error").
-/
namespace Hannibal

/-- forget the `ops` / `abandoned` bookkeeping of `monC11p` -/
def proj11t (st : C11pSt) : C11tSt := { clock := st.clock, cur := st.cur, cancelled := st.cancelled }

def isRet11t : Label → Bool
  | .ret _ _ => true
  | _ => false

theorem monC11p_cbEnd11t (c : MonCtx) (st : C11pSt) (cb : Cb) (ok : Bool) :
    ((monC11p c).step st (.cbEnd cb ok)).map proj11t = (monC11t c).step (proj11t st) (.cbEnd cb ok) := by
  obtain ⟨clock, cur, ops, abandoned, cancelled⟩ := st
  cases cb
  case handle m =>
    rcases cur with _ | ⟨m', b, w⟩ <;> cases ht : tmoOf c.cfg <;>
      simp [monC11p, monC11t, bad11t, next11t, proj11t, ht]
    split <;> simp_all [proj11t]
  all_goals simp [monC11p, monC11t, bad11t, next11t, proj11t]

theorem monC11p_cbAbandon11t (c : MonCtx) (st : C11pSt) (cb : Cb) :
    ((monC11p c).step st (.cbAbandon cb)).map proj11t = (monC11t c).step (proj11t st) (.cbAbandon cb) := by
  obtain ⟨clock, cur, ops, abandoned, cancelled⟩ := st
  cases cb
  case handle m =>
    rcases cur with _ | ⟨m', b, w⟩ <;> cases ht : tmoOf c.cfg <;> cases cancelled <;>
      simp [monC11p, monC11t, bad11t, next11t, proj11t, ht]
    split <;> simp_all [proj11t]
  all_goals simp [monC11p, monC11t, bad11t, next11t, proj11t]

/-- on every label but `ret`, `monC11p` and `monC11t` take the same decision and the same step -/
theorem monC11p_step_eq11t (c : MonCtx) (st : C11pSt) {l : Label} (hl : isRet11t l = false) :
    ((monC11p c).step st l).map proj11t = (monC11t c).step (proj11t st) l := by
  cases l <;> simp [isRet11t] at hl
  case cbEnd cb ok => exact monC11p_cbEnd11t c st cb ok
  case cbAbandon cb => exact monC11p_cbAbandon11t c st cb
  case cbBegin cb => cases cb <;> simp [monC11p, monC11t, bad11t, next11t, proj11t]
  case work d =>
    obtain ⟨clock, cur, ops, abandoned, cancelled⟩ := st
    rcases cur with _ | ⟨m', b, w⟩ <;> simp [monC11p, monC11t, bad11t, next11t, proj11t]
  case begin o h k =>
    simp only [monC11p, monC11t, bad11t, next11t]
    split <;> simp [proj11t]
  all_goals simp [monC11p, monC11t, bad11t, next11t, proj11t]

/-- a `ret` step that `monC11p` accepts changes nothing -/
theorem monC11p_ret11t (c : MonCtx) {st st' : C11pSt} {o : Nat} {r : Res}
    (h : (monC11p c).step st (.ret o r) = some st') : st' = st := by
  simp only [monC11p] at h
  split at h
  · split at h
    · simp at h
    · simpa using h.symm
  · simpa using h.symm

/-- every step `monC11p` accepts is accepted by `monC11t`, with the same effect on clock / cur / cancelled -/
theorem monC11p_step_proj11t (c : MonCtx) {st st' : C11pSt} {l : Label}
    (h : (monC11p c).step st l = some st') : (monC11t c).step (proj11t st) l = some (proj11t st') := by
  cases hl : isRet11t l
  · rw [← monC11p_step_eq11t c st hl, h]; rfl
  · cases l <;> simp [isRet11t] at hl
    rw [monC11p_ret11t c h]
    simp [monC11t, bad11t, next11t]

/-- on every label but `ret`, a step `monC11t` accepts is accepted by `monC11p` -/
theorem monC11t_step_lift11t (c : MonCtx) (st : C11pSt) {l : Label} (hl : isRet11t l = false) {σ' : C11tSt}
    (h : (monC11t c).step (proj11t st) l = some σ') :
    ∃ st', (monC11p c).step st l = some st' ∧ proj11t st' = σ' := by
  rw [← monC11p_step_eq11t c st hl] at h
  cases hp : (monC11p c).step st l with
  | none => simp [hp] at h
  | some st' => exact ⟨st', rfl, by simpa [hp] using h⟩

theorem monC11p_run_proj11t (c : MonCtx) : ∀ (ls : List Label) (st st' : C11pSt),
    (monC11p c).run st ls = some st' → (monC11t c).run (proj11t st) ls = some (proj11t st')
  | [], st, st', h => by simp [Mon.run] at h ⊢; rw [h]
  | l :: ls, st, st', h => by
    simp only [Mon.run] at h ⊢
    cases hs : (monC11p c).step st l with
    | none => simp [hs] at h
    | some st1 =>
      simp only [hs] at h
      simp only [monC11p_step_proj11t c hs]
      exact monC11p_run_proj11t c ls st1 st' h

/-- `monC11p` is at least as strict as `monC11t`. -/
theorem monC11p_ok_imp_monC11t (c : MonCtx) (ls : List Label) (h : (monC11p c).ok ls = true) :
    (monC11t c).ok ls = true := by
  unfold Mon.ok at h ⊢
  cases hr : (monC11p c).run (monC11p c).init ls with
  | none => simp [hr] at h
  | some st' =>
    have := monC11p_run_proj11t c ls _ _ hr
    have hi : proj11t (monC11p c).init = (monC11t c).init := rfl
    rw [hi] at this
    simp [this]

theorem monC11t_run_lift11t (c : MonCtx) : ∀ (ls : List Label) (st : C11pSt) (σ' : C11tSt),
    ls.all (fun l => !isRet11t l) = true →
    (monC11t c).run (proj11t st) ls = some σ' → ∃ st', (monC11p c).run st ls = some st' ∧ proj11t st' = σ'
  | [], st, σ', _, h => by simp [Mon.run] at h ⊢; exact h
  | l :: ls, st, σ', hl, h => by
    simp only [List.all_cons, Bool.and_eq_true, Bool.not_eq_eq_eq_not, Bool.not_true] at hl
    simp only [Mon.run] at h ⊢
    cases hs : (monC11t c).step (proj11t st) l with
    | none => simp [hs] at h
    | some σ1 =>
      simp only [hs] at h
      obtain ⟨st1, h1, rfl⟩ := monC11t_step_lift11t c st hl.1 hs
      simp only [h1]
      exact monC11t_run_lift11t c ls st1 σ' hl.2 h

/-- On traces without `ret` labels (where the third clause of `monC11p` says nothing) the two monitors agree. -/
theorem monC11p_eq_monC11t_of_noRet (c : MonCtx) (ls : List Label)
    (hl : ls.all (fun l => !isRet11t l) = true) : (monC11p c).ok ls = (monC11t c).ok ls := by
  cases ht : (monC11t c).ok ls with
  | true =>
    unfold Mon.ok at ht ⊢
    cases hr : (monC11t c).run (monC11t c).init ls with
    | none => simp [hr] at ht
    | some σ' =>
      have hi : proj11t (monC11p c).init = (monC11t c).init := rfl
      rw [← hi] at hr
      obtain ⟨st', h1, _⟩ := monC11t_run_lift11t c ls _ σ' hl hr
      simp [h1]
  | false =>
    cases hp : (monC11p c).ok ls with
    | false => rfl
    | true => rw [monC11p_ok_imp_monC11t c ls hp] at ht; exact absurd ht (by simp)

end Hannibal
