import Hannibal.Proofs.C12Step
import Hannibal.Monitor.C05
/-
  C05, part 2: which labels put a `stop` / `restart` request into the mailbox.
-/
namespace Hannibal
open AState

/-- number of queued entries whose payload satisfies `P` -/
def cntP (P : Payload → Bool) (s : AState) : Nat := s.chan.queue.countP (fun e => P e.pl)

def isStopKind : OpKind → Bool
  | .halt | .tryHalt | .consume => true
  | _ => false

/-- how many entries satisfying `P` the label can add -/
def pushN (P : Payload → Bool) : Label → Nat
  | .begin _ _ k => if isStopKind k && P .stop then 1 else 0
  | .stopReq _ _ | .ctxStop _ => if P .stop then 1 else 0
  | .restartReq _ true | .ctxRestart true => if P .restart then 1 else 0
  | _ => 0

theorem countP_tail_le {α} (p : α → Bool) (l : List α) : l.tail.countP p ≤ l.countP p := by
  cases l with
  | nil => simp
  | cons a as => simp only [List.tail_cons, List.countP_cons]; omega

theorem plan_pl_stop {w hk o k pl} (h : (plan w hk o k).pl = some pl) (P : Payload → Bool)
    (hmsg : ∀ m sl, P (.msg m sl) = false) (hping : ∀ o, P (.ping o) = false) (hp : P pl = true) :
    isStopKind k = true ∧ pl = .stop := by
  cases k <;> simp [plan] at h <;> subst h <;> simp_all [isStopKind]

theorem signal_cnt {w s h pl path ok s'} (P : Payload → Bool) (hs : stepSignal w s h pl path ok = some s') :
    cntP P s' ≤ cntP P s + (if ok && P pl then 1 else 0) := by
  unfold stepSignal at hs
  (repeat' (split at hs)) <;>
    (first
      | (simp at hs; done)
      | (simp at hs; subst hs; simp [cntP, List.countP_append, List.countP_cons]; (try split) <;> simp_all <;> omega)
      | (simp at hs; subst hs; simp [cntP]))

theorem ctxSignal_cnt {w s req pl path ok s'} (P : Payload → Bool)
    (hs : stepCtxSignal w s req pl path ok = some s') :
    cntP P s' ≤ cntP P s + (if ok && P pl then 1 else 0) := by
  unfold stepCtxSignal at hs
  (repeat' (split at hs)) <;>
    (first
      | (simp at hs; done)
      | (simp at hs; subst hs; simp [cntP, List.countP_append, List.countP_cons]; (try split) <;> simp_all <;> omega)
      | (simp at hs; subst hs; simp [cntP]))

theorem step_cnt {w : Wiring} {s s' : AState} {l : Label} (P : Payload → Bool)
    (hmsg : ∀ m sl, P (.msg m sl) = false) (htick : ∀ t, P (.tick t) = false) (hping : ∀ o, P (.ping o) = false)
    (hext : ∀ b, P (.ext b) = false)
    (hs : step w s l = some s') : cntP P s' ≤ cntP P s + pushN P l := by
  have same : s'.chan = s.chan → cntP P s' ≤ cntP P s + pushN P l := by
    intro h; unfold cntP; rw [h]; omega
  have dropped : s'.chan.queue = [] → cntP P s' ≤ cntP P s + pushN P l := by
    intro h; unfold cntP; rw [h]; simp
  cases l <;> simp only [step] at hs
  case begin o h k =>
    obtain ⟨_, st, _, hch, _⟩ := stepBegin_detail hs
    unfold stepBegin at hs
    cases hk0 : s.handleKind h with
    | none => simp [hk0] at hs
    | some hk =>
      simp only [hk0] at hs
      split at hs
      · simp at hs
      · split at hs
        · simp at hs; subst hs; exact same rfl
        · cases hpl : (plan w hk o k).pl with
          | none => simp only [hpl] at hs; simp at hs; subst hs; exact same (by simp)
          | some pl =>
            simp only [hpl] at hs
            split at hs
            · simp at hs; subst hs
              simp only [cntP, beginWait_chan, push_chan, Chan.enq_queue, List.countP_append, List.countP_cons,
                List.countP_nil, pushN]
              cases hp : P pl
              · simp
              · obtain ⟨h1, _⟩ := plan_pl_stop hpl P hmsg hping hp
                subst_vars
                have := plan_pl_stop hpl P hmsg hping hp
                simp [this.1, ← this.2, hp]
            · simp at hs; subst hs; exact same rfl
  case ret => exact same (stepRet_chan hs)
  case cdrop => exact same (stepCdrop_chan hs)
  case mk => exact same (stepMk_chan hs)
  case upgrade => exact same (stepUpgrade_chan hs)
  case detach => exact same (stepDetach_chan hs)
  case drop => exact same (stepDrop_chan hs)
  case stopReq h ok =>
    have := signal_cnt P hs
    simp only [pushN]
    cases ok <;> cases hp : P .stop <;> simp_all <;> omega
  case restartReq h ok =>
    have := signal_cnt P hs
    cases ok <;> cases hp : P .restart <;> simp_all [pushN]
  case query => exact same (stepQuery_chan hs)
  case cbBegin cb =>
    rcases stepCbBegin_detail hs with ⟨m, sl, tok, rest, _, hq, hc⟩ | ⟨hc, _⟩
    · unfold cntP; rw [hc]; simp only [Chan.deq]
      have := countP_tail_le (fun e => P e.pl) s.chan.queue
      omega
    · exact same hc
  case cbEnd => exact same (stepCbEnd_chan hs)
  case cbAbandon => exact same (stepCbAbandon_chan hs)
  case cbPanic => exact same (stepCbPanic_chan hs)
  case vnew => exact same (stepVnew_chan hs)
  case work => exact same (stepWork_chan hs)
  case ctxStop ok =>
    have := ctxSignal_cnt P hs
    simp only [pushN]
    cases ok <;> cases hp : P .stop <;> simp_all <;> omega
  case ctxRestart ok =>
    have := ctxSignal_cnt P hs
    cases ok <;> cases hp : P .restart <;> simp_all [pushN]
  case ctxTimer => exact same (stepCtxTimer_chan hs)
  case ctxWeak => exact same (stepCtxWeak_chan hs)
  case fire t m =>
    unfold stepFire at hs
    (repeat' (split at hs)) <;>
      (first
        | (simp at hs; done)
        | (simp at hs; subst hs; simp [cntP, pushN, List.countP_append, List.countP_cons, hmsg]))
  case timerArm t due =>
    unfold stepTimerArm at hs
    (repeat' (split at hs)) <;>
      (first
        | (simp at hs; done)
        | (simp at hs; subst hs; simp [cntP, pushN, List.countP_append, List.countP_cons, htick]))
  case timerEnd => exact same (stepTimerEnd_chan hs)
  case tickBegin t m =>
    obtain ⟨tok, rest, hq, hc⟩ := stepTickBegin_detail hs
    unfold cntP; rw [hc, hq]
    simp [List.countP_cons, hmsg, htick, pushN]
  case extPush b =>
    unfold stepExtPush at hs
    (repeat' (split at hs)) <;>
      (first
        | (simp at hs; done)
        | (simp at hs; subst hs; simp [cntP, pushN, List.countP_append, List.countP_cons, hext]))
  case extBegin b m =>
    unfold stepExtBegin at hs
    cases hph : s.phase <;> simp [hph] at hs
    cases hq : s.chan.queue with
    | nil => simp [hq] at hs
    | cons e rest =>
      obtain ⟨pl, tok⟩ := e
      cases pl <;> simp [hq] at hs
      obtain ⟨rfl, rfl⟩ := hs
      simp [cntP, hq, List.countP_cons, hmsg, hext, pushN]
  case time => exact same (stepTime_chan hs)
  case cancel => exact dropped (by rw [stepCancel_chan hs]; rfl)
  case taskPanic =>
    rcases stepTaskPanic_chan hs with h | ⟨_, h⟩ <;> exact dropped (by rw [h]; rfl)
  case streamReady => exact same (stepStreamReady_chan hs)
  case streamEnd => exact same (stepStreamEnd_chan hs)
  case taskDone => exact dropped (by rw [stepTaskDone_chan hs]; rfl)
  case quiescent =>
    simp only [stepQuiescent] at hs; split at hs <;> simp at hs; subst hs; exact same rfl
  case tDeq =>
    obtain ⟨_, hc⟩ := stepDeq_chan hs
    unfold cntP; rw [hc]; simp only [Chan.deq]
    have := countP_tail_le (fun e => P e.pl) s.chan.queue
    omega
  case tChanEnd => exact same (stepChanEnd_chan hs)
  case tStreamEnd => exact same (stepStreamEndTau_chan hs)

end Hannibal
