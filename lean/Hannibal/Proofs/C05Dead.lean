import Hannibal.Proofs.C05Hold
/-
  C05, part 3: once nothing owns a sender any more (no strong handle, no in-flight operation or timer
  holding one) this stays so for ever: weak handles cannot be upgraded, new try_* operations fail at
  their upgrade, timers die at theirs.
-/
namespace Hannibal
open AState

structure Dead05 (s : AState) : Prop where
  nh : ∀ p ∈ s.handles, p.2.strong = false
  no : ∀ r ∈ s.ops, (holderKind r.kind = true → r.st = .failed .alreadyStopped) ∧
        (isWaitOp r.kind = true → ∃ e, r.st = .failed e)
  nt : ∀ x ∈ s.timers, holding x.st = false

theorem dead_of_not_alive {w : Wiring} (hw : WellWired05 w) {s : AState} (h : s.sendersAlive w = false) :
    Dead05 s := by
  unfold sendersAlive at h
  simp only [Bool.or_eq_false_iff] at h
  obtain ⟨⟨htx, _⟩, hinf⟩ := h
  unfold halfAlive at htx
  simp only [Bool.or_eq_false_iff] at htx
  obtain ⟨⟨hh, ho⟩, _⟩ := htx
  unfold inflight at hinf
  simp only [Bool.or_eq_false_iff] at hinf
  obtain ⟨hio, hit⟩ := hinf
  refine ⟨?_, ?_, ?_⟩
  · intro p hp
    cases hs : p.2.strong
    · rfl
    · exfalso
      have := (hw.w15 p.2 hs).1
      have h2 := List.any_eq_false.mp hh p hp
      simp at h2
      exact h2 (by simpa using this)
  · intro r hr
    refine ⟨?_, ?_⟩
    · intro hk
      have h2 := List.any_eq_false.mp ho r hr
      unfold opHolds at h2
      split at h2
      · assumption
      · exfalso
        have ha := (hw.w15 .addr rfl).1
        have hs := (hw.w15 .sender rfl).1
        have hc := (hw.w15 .caller rfl).1
        cases hkk : r.kind <;> simp [hkk, holderKind] at hk <;> simp [hkk] at h2 <;>
          first | exact h2 (by simpa using ha) | exact h2 (by simpa using hs) | exact h2 (by simpa using hc)
    · intro hk
      have h2 := List.any_eq_false.mp hio r hr
      simp only [hk, Bool.true_and] at h2
      cases hst : r.st <;> simp [hst] at h2
      exact ⟨_, rfl⟩
  · intro x hx
    have h2 := List.any_eq_false.mp hit x hx
    cases hst : x.st <;> simp [hst] at h2 <;> simp [holding]

theorem Dead05.halfDead {w : Wiring} (hw : WellWired05 w) {s : AState} (hd : Dead05 s) (x : Half) :
    s.halfAlive w x = false := by
  unfold halfAlive
  simp only [Bool.or_eq_false_iff]
  refine ⟨⟨?_, ?_⟩, ?_⟩
  · apply List.any_eq_false.mpr
    intro p hp
    rw [hw.weak_holds p.2 (hd.nh p hp)]; simp
  · apply List.any_eq_false.mpr
    intro r hr
    cases hc : opHolds w x r
    · simp
    · have := (hd.no r hr).1 (holderKind_of_opHolds hc)
      unfold opHolds at hc
      simp [this] at hc
  · apply List.any_eq_false.mpr
    intro y hy
    cases hc : timerHolds w x y
    · simp
    · have := holding_of_timerHolds hc
      rw [hd.nt y hy] at this; simp at this

theorem Dead05.reqFails {w : Wiring} (hw : WellWired05 w) {s : AState} (hd : Dead05 s) {req : List Half}
    (hne : req ≠ []) : s.reqOk w req = false := by
  cases hr : s.reqOk w req
  · rfl
  · obtain ⟨x, hx⟩ := alive_of_reqOk hr hne
    rw [hd.halfDead hw x] at hx; simp at hx

theorem Dead05.not_strong {s : AState} (hd : Dead05 s) : s.handles.any (fun p => p.2.strong) = false := by
  apply List.any_eq_false.mpr
  intro p hp; simp [hd.nh p hp]

theorem handleKind_mem {s : AState} {h k} (hk : s.handleKind h = some k) : ∃ p ∈ s.handles, p.2 = k := by
  unfold handleKind at hk
  cases hf : s.handles.find? (fun p => p.1 == h) with
  | none => simp [hf] at hk
  | some p =>
    simp [hf] at hk
    exact ⟨p, List.mem_of_find?_eq_some hf, hk⟩

theorem dead_step {w : Wiring} (hw : WellWired05 w) {s s' : AState} {l : Label}
    (hd : Dead05 s) (hs : step w s l = some s') : Dead05 s' := by
  refine ⟨?_, ?_, ?_⟩
  · -- handles
    by_cases ht : l.touchesHandles = true
    · cases l <;> simp [Label.touchesHandles] at ht
      case mk h h' k' =>
        simp only [step, stepMk] at hs
        cases hk : s.handleKind h with
        | none => simp [hk] at hs
        | some k =>
          simp only [hk] at hs
          split at hs
          · rename_i hc
            simp at hs; subst hs
            obtain ⟨p, hp, rfl⟩ := handleKind_mem hk
            have hweak := hd.nh p hp
            intro q hq
            simp at hq
            rcases hq with hq | rfl
            · exact hd.nh q hq
            · simp at hc
              cases hp2 : p.2 <;> simp [hp2, HKind.strong] at hweak <;> cases k' <;> simp [hp2, convOk] at hc <;> rfl
          · simp at hs
      case upgrade h h' =>
        simp only [step, stepUpgrade] at hs
        cases hk : s.handleKind h with
        | none => simp [hk] at hs
        | some k =>
          simp only [hk] at hs
          cases hu : k.upgraded with
          | none => simp [hu] at hs
          | some ks =>
            simp only [hu] at hs
            have hweak : k.strong = false := by cases k <;> simp [HKind.upgraded] at hu <;> rfl
            rw [hd.reqFails hw (hw.upg k hweak)] at hs
            cases h' <;> simp at hs
            subst hs; exact hd.nh
      case detach h h' =>
        simp only [step, stepDetach] at hs
        split at hs
        · rename_i hc
          simp at hc
          obtain ⟨p, hp, hp2⟩ := handleKind_mem hc.1
          have := hd.nh p hp
          simp [hp2, HKind.strong] at this
        · simp at hs
      case drop h =>
        simp only [step, stepDrop] at hs
        split at hs
        · simp at hs; subst hs
          intro p hp
          exact hd.nh p (List.mem_filter.mp hp).1
        · simp at hs
      case ctxWeak k h =>
        simp only [step, stepCtxWeak] at hs
        (repeat' (split at hs)) <;>
          (first
            | (simp at hs; done)
            | (simp at hs; subst hs; exact hd.nh)
            | (simp at hs; subst hs
               intro p hp
               simp at hp
               rcases hp with hp | rfl
               · exact hd.nh p hp
               · rfl))
      case ret o r =>
        simp only [step] at hs
        obtain ⟨rec, hfind, hexp, _, _⟩ := stepRet_ops hs
        unfold stepRet at hs
        simp only [hfind, hexp, if_true] at hs
        simp at hs; subst hs
        intro p hp
        unfold retEffect at hp
        have : p ∈ s.handles := by
          (repeat' (split at hp)) <;> simp [removeHandle, removeOp] at hp <;> first | exact hp.1 | exact hp
        exact hd.nh p this
      case cdrop o =>
        simp only [step, stepCdrop] at hs
        (repeat' (split at hs)) <;>
          (first
            | (simp at hs; done)
            | (simp at hs; subst hs
               intro p hp
               have : p ∈ s.handles := by
                 simp [removeHandle, removeOp] at hp; first | exact hp.1 | exact hp
               exact hd.nh p this))
    · have ht' : l.touchesHandles = false := by simpa using ht
      rw [step_handles_same hs ht']; exact hd.nh
  · -- operations
    by_cases hedge : l.isOpEdge = true
    · cases l <;> simp [Label.isOpEdge] at hedge
      case begin o h k =>
        simp only [step] at hs
        obtain ⟨_, st, hops⟩ := stepBegin_ops hs
        intro r hr
        rw [hops] at hr
        rcases List.mem_append.mp hr with hr | hr
        · exact hd.no r hr
        · simp at hr; subst hr
          -- the new record: its handle is weak, so the upgrade fails
          unfold stepBegin at hs
          cases hk0 : s.handleKind h with
          | none => simp [hk0] at hs
          | some hk =>
            simp only [hk0] at hs
            obtain ⟨p, hp, hp2⟩ := handleKind_mem hk0
            have hweak := hd.nh p hp
            rw [hp2] at hweak
            split at hs
            · simp at hs
            · rename_i hg
              simp at hg
              have hupg : (plan w hk o k).upg ≠ [] ∨ (holderKind k = false ∧ isWaitOp k = false) := by
                cases hk <;> simp [HKind.strong] at hweak <;> cases k <;> simp [kindOk] at hg <;>
                  simp [plan, holderKind, isWaitOp] <;> exact hw.upg _ rfl
              rcases hupg with hupg | ⟨h1, h2⟩
              · rw [hd.reqFails hw hupg] at hs
                simp at hs
                have : st = .failed .alreadyStopped := by
                  have := congrArg AState.ops hs
                  simp [hops] at this
                  exact this.symm
                subst this
                exact ⟨fun _ => rfl, fun _ => ⟨_, rfl⟩⟩
              · simp [h1, h2]
      case ret o r0 =>
        simp only [step] at hs
        obtain ⟨rec, _, _, hops, _⟩ := stepRet_ops hs
        intro r hr
        rw [hops] at hr
        exact hd.no r (List.mem_filter.mp hr).1
      case cdrop o =>
        simp only [step] at hs
        have hops := stepCdrop_ops hs
        intro r hr
        rw [hops] at hr
        exact hd.no r (List.mem_filter.mp hr).1
    · have hedge' : l.isOpEdge = false := by simpa using hedge
      obtain ⟨f, hf, pf⟩ := step_ops hs hedge'
      intro r' hr'
      rw [hf] at hr'
      obtain ⟨r, hr, rfl⟩ := List.mem_map.mp hr'
      rw [pf.kind]
      obtain ⟨h1, h2⟩ := hd.no r hr
      refine ⟨fun hk => ?_, fun hk => ?_⟩
      · have := h1 hk
        rw [pf.keep r (by rw [this]; simp), this]
      · obtain ⟨e, he⟩ := h2 hk
        exact ⟨e, by rw [pf.keep r (by rw [he]; simp), he]⟩
  · -- timers
    by_cases htt : l.touchesTimers = true
    · cases l <;> simp [Label.touchesTimers] at htt
      case ctxTimer t k d =>
        simp only [step, stepCtxTimer] at hs
        split at hs
        · simp at hs; subst hs
          intro x hx
          simp at hx
          rcases hx with hx | rfl
          · exact hd.nt x hx
          · rfl
        · simp at hs
      case timerArm t due =>
        simp only [step] at hs
        obtain ⟨_, _, htim, _⟩ := stepTimerArm_spec05 hs
        intro x' hx'
        rw [htim] at hx'
        obtain ⟨x, hx, _, hc⟩ := mem_setTimer hx'
        rcases hc with ⟨_, hst⟩ | ⟨_, rfl⟩
        · simp [hst, holding]
        · exact hd.nt x' hx
      case timerEnd t =>
        simp only [step] at hs
        obtain ⟨_, htim⟩ := stepTimerEnd_spec hs
        intro x' hx'
        rw [htim] at hx'
        obtain ⟨x, hx, _, hc⟩ := mem_setTimer hx'
        rcases hc with ⟨_, hst⟩ | ⟨_, rfl⟩
        · simp [hst, holding]
        · exact hd.nt x' hx
      case fire t m =>
        simp only [step] at hs
        rcases stepFire_spec05 hs with ⟨_, _, hreq, _⟩ | htim
        · rw [hd.reqFails hw (hw.upg .weakSender rfl)] at hreq; simp at hreq
        · intro x' hx'
          rw [htim] at hx'
          obtain ⟨x, hx, _, hc⟩ := mem_setTimer hx'
          rcases hc with ⟨_, hst⟩ | ⟨_, rfl⟩
          · simp [hst, holding]
          · exact hd.nt x' hx
      case cbEnd cb ok =>
        have hcb : cb = .stopped := by cases cb <;> simp_all [Label.touchesTimers]
        subst hcb
        simp only [step, stepCbEnd] at hs
        split at hs
        · simp at hs
        · cases hp : s.phase <;> simp [hp] at hs
          · obtain ⟨_, rfl⟩ := hs
            intro x' hx'
            by_cases hr : w.refreshResetsTimers = true
            · simp only [refreshTimers, hr, if_true] at hx'
              obtain ⟨x, hx, _, _, h2⟩ := mem_killTimers hx'
              cases hh : holding x'.st
              · rfl
              · have := h2 hh; rw [hd.nt x hx] at this; simp at this
            · simp [refreshTimers, hr] at hx'
              exact hd.nt x' hx'
          · obtain ⟨_, rfl⟩ := hs
            exact hd.nt
      case cancel =>
        simp only [step, stepCancel] at hs
        split at hs
        · simp at hs
        · simp at hs; subst hs
          intro x' hx'
          have hx'' : x' ∈ (s.cancelSlots (s.curSlot ++ s.chan.queue.filterMap (fun e => slotOf e.pl))).killTimers.timers := by
            simpa [fail] using hx'
          obtain ⟨x, hx, _, _, h2⟩ := mem_killTimers hx''
          cases hh : holding x'.st
          · rfl
          · have := h2 hh; rw [hd.nt x (by simpa [cancelSlots] using hx)] at this; simp at this
      case taskPanic =>
        simp only [step, stepTaskPanic] at hs
        (repeat' (split at hs)) <;>
          (first
            | (simp at hs; done)
            | (simp at hs; subst hs
               intro x' hx'
               simp only [fail] at hx'
               obtain ⟨x, hx, _, _, h2⟩ := mem_killTimers hx'
               cases hh : holding x'.st
               · rfl
               · have := h2 hh; rw [hd.nt x (by simpa [cancelSlots] using hx)] at this; simp at this))
      case taskDone =>
        simp only [step, stepTaskDone] at hs
        (repeat' (split at hs)) <;>
          (first
            | (simp at hs; done)
            | (simp at hs; subst hs
               intro x' hx'
               simp only [fail, finish] at hx'
               obtain ⟨x, hx, _, _, h2⟩ := mem_killTimers hx'
               cases hh : holding x'.st
               · rfl
               · have := h2 hh; rw [hd.nt x (by simpa [cancelSlots] using hx)] at this; simp at this))
    · have htt' : l.touchesTimers = false := by simpa using htt
      rw [step_timers_same hs htt']; exact hd.nt

end Hannibal
