import Hannibal.Monitor.C01
/-
  `monC01` in guard / update form: `(monC01 c).step σ l = if bad01 σ l then none else some (next01 σ l)`
  (the monitor file itself is untouched; this is a proved re-reading of it).
-/
namespace Hannibal

def doneRet (isCall : Bool) (r : Res) : Bool :=
  if isCall then (r matches .okReply _) || r == .err .canceled else r == .ok

def openNext (b : Bool) : Label → Bool
  | .cbBegin _ => true
  | .cbEnd _ _ | .cbAbandon _ | .cbPanic _ => false
  | _ => b

def opsNext (ops : List (Nat × (Nat × Bool))) : Label → List (Nat × (Nat × Bool))
  | .begin o _ k =>
    (match k.msg? with
     | some m => (o, (m, k.isCall)) :: ops
     | none => ops)
  | _ => ops

def completedNext (st : C01St) : Label → List Nat
  | .ret o r =>
    (match lookup o st.ops with
     | some (m, isCall) => if doneRet isCall r then m :: st.completed else st.completed
     | none => st.completed)
  | _ => st.completed

def beforeNext (st : C01St) : Label → List (Nat × List Nat)
  | .begin _ _ k =>
    (match k.msg? with
     | some m => (m, st.completed.filter (fun x => !st.handled.contains x)) :: st.before
     | none => st.before)
  | _ => st.before

def handledNext (h : List Nat) : Label → List Nat
  | .cbBegin (.handle m) => m :: h
  | _ => h

def hlog01 (hlog : List Nat) : Label → List Nat
  | .cbBegin (.handle m) => hlog ++ [m]
  | .cbBegin (.item k) => hlog ++ [200000 + k]
  | .vnew _ => []
  | _ => hlog

def digestNext (st : C01St) : Label → List (Nat × List Nat)
  | .cbEnd (.handle m) _ => (m, st.hlog) :: st.digestAt
  | _ => st.digestAt

def next01 (st : C01St) (l : Label) : C01St :=
  { openCb := openNext st.openCb l, ops := opsNext st.ops l, completed := completedNext st l,
    before := beforeNext st l, handled := handledNext st.handled l, hlog := hlog01 st.hlog l,
    digestAt := digestNext st l }

/-- clause (1): callbacks never overlap -/
def badOpen (st : C01St) : Label → Bool
  | .cbBegin _ => st.openCb
  | _ => false

/-- clause (2): at most once -/
def badTwice (st : C01St) : Label → Bool
  | .cbBegin (.handle m) => st.handled.contains m
  | _ => false

/-- clause (3): order -/
def badOrder (st : C01St) : Label → Bool
  | .cbBegin (.handle m) => !((lookup m st.before).getD []).all (fun m1 => st.handled.contains m1)
  | _ => false

/-- clause (4): a reply is the one of its own message and carries the fold at the end of its handler -/
def badReply (st : C01St) : Label → Bool
  | .ret o (.okReply rep) =>
    (match lookup o st.ops with
     | some (m, _) => !(rep.m == m && lookup m st.digestAt == some rep.digest)
     | none => false)
  | _ => false

/-- clause (5): the joined value is the fold -/
def badValue (st : C01St) : Label → Bool
  | .ret o (.some f) =>
    (match lookup o st.ops with
     | some _ => false
     | none => !(f.digest == st.hlog))
  | _ => false

def bad01 (st : C01St) (l : Label) : Bool :=
  badOpen st l || badTwice st l || badOrder st l || badReply st l || badValue st l

theorem monC01_step (c : MonCtx) (st : C01St) (l : Label) :
    (monC01 c).step st l = if bad01 st l then none else some (next01 st l) := by
  cases l
  case begin o h k =>
    simp only [monC01, bad01, badOpen, badTwice, badOrder, badReply, badValue, next01, openNext, opsNext,
      completedNext, beforeNext, handledNext, hlog01, digestNext]
    cases k.msg? <;> simp
  case ret o r =>
    simp only [monC01, bad01, badOpen, badTwice, badOrder, next01, openNext, opsNext,
      completedNext, beforeNext, handledNext, hlog01, digestNext, doneRet]
    cases hl : lookup o st.ops with
    | none => cases r <;> simp [badReply, badValue, hl]
    | some p =>
      obtain ⟨m, ic⟩ := p
      cases r <;> cases ic <;> simp [badReply, badValue, hl]
      all_goals (split <;> simp_all)
  case cbBegin cb =>
    simp only [monC01, bad01, badOpen, badTwice, badOrder, badReply, badValue, next01, openNext, opsNext,
      completedNext, beforeNext, handledNext, hlog01, digestNext]
    cases cb <;> simp
    all_goals (by_cases ho : st.openCb = true <;> simp [ho])
    rename_i m
    by_cases hh : m ∈ st.handled <;> simp [hh]
  case cbEnd cb ok =>
    cases cb <;> simp [monC01, bad01, badOpen, badTwice, badOrder, badReply, badValue, next01, openNext, opsNext,
      completedNext, beforeNext, handledNext, hlog01, digestNext]
  all_goals
    simp [monC01, bad01, badOpen, badTwice, badOrder, badReply, badValue, next01, openNext, opsNext,
      completedNext, beforeNext, handledNext, hlog01, digestNext]

end Hannibal
