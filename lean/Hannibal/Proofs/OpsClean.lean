import Hannibal.Proofs.Ops
/- Operations refused at submission carry `send` / `already_stopped`, never the termination error. -/
namespace Hannibal
open AState

def OpsClean (s : AState) : Prop :=
  ∀ r ∈ s.ops, ∀ e, r.st = .failed e → e = .alreadyStopped ∨ e = .send

theorem opsClean_init (cfg : Cfg) (h0 : Nat) (k0 : HKind) : OpsClean (AState.init cfg h0 k0) := by
  intro r hr; simp [AState.init] at hr

theorem stepBegin_newst {w s o h k s'} (hs : stepBegin w s o h k = some s') :
    ∃ st, s'.ops = s.ops ++ [{ o, h, kind := k, st }] ∧
      (∀ e, st = .failed e → e = .alreadyStopped ∨ e = .send) := by
  unfold stepBegin at hs
  (repeat' (split at hs)) <;>
    (first
      | (simp at hs; done)
      | (simp at hs; subst hs; exact ⟨_, rfl, by simp⟩)
      | (simp at hs; subst hs
         unfold beginWait
         (repeat' split) <;> exact ⟨_, rfl, by simp⟩))

theorem opsClean_step {w : Wiring} {s s' : AState} {l : Label} (hs : step w s l = some s') (hi : OpsClean s) :
    OpsClean s' := by
  by_cases hedge : l.isOpEdge = true
  · cases l <;> simp [Label.isOpEdge] at hedge
    case begin o h k =>
      simp only [step] at hs
      obtain ⟨st, hops, hst⟩ := stepBegin_newst hs
      intro r hr e he
      rw [hops] at hr
      rcases List.mem_append.mp hr with hr | hr
      · exact hi r hr e he
      · simp at hr; subst hr; exact hst e he
    case ret o r =>
      simp only [step] at hs
      obtain ⟨_, _, _, hops, _⟩ := stepRet_ops hs
      intro r0 hr0 e he
      rw [hops] at hr0
      exact hi r0 (List.mem_filter.mp hr0).1 e he
    case cdrop o =>
      simp only [step] at hs
      have hops := stepCdrop_ops hs
      intro r0 hr0 e he
      rw [hops] at hr0
      exact hi r0 (List.mem_filter.mp hr0).1 e he
  · obtain ⟨f, hf, pf⟩ := step_ops hs (by simpa using hedge)
    intro r' hr' e he
    rw [hf] at hr'
    obtain ⟨r, hr, rfl⟩ := List.mem_map.mp hr'
    exact hi r hr e (pf.failed r e he)

end Hannibal
