import Hannibal.Proofs.ActorBasic
import Hannibal.Proofs.Chan
/-
  Projection: what one step of the actor model does to its mailbox is one step
  of the `Chan` model (or nothing).
-/
namespace Hannibal
open AState

inductive ChanStep (c c' : Chan) : Prop where
  | same (h : c' = c)
  | enq (e : Entry) (hrx : c.rx = true) (h : c' = c.enq e)
  | deq (hrx : c.rx = true) (h : c' = c.deq)
  | drop (h : c' = c.dropRx)
  | rename (pl pl' : Payload) (tok : Tok) (rest : List Entry)
      (hq : c.queue = { pl, tok } :: rest) (h : c' = { c with queue := { pl := pl', tok } :: rest })

/-- The mailbox is untouched or one entry was submitted. -/
def SameOrEnq (c c' : Chan) : Prop := c' = c ∨ ∃ e, c.rx = true ∧ c' = c.enq e

theorem SameOrEnq.toChanStep {c c'} (h : SameOrEnq c c') : ChanStep c c' := by
  rcases h with h | ⟨e, hrx, h⟩
  · exact .same h
  · exact .enq e hrx h

theorem SameOrEnq.of_push {s : AState} {pl path tok} (h : s.chan.rx = true) :
    SameOrEnq s.chan (s.push pl path tok).chan := .inr ⟨_, h, rfl⟩

@[simp] theorem beginWait_chan (s : AState) (o h k j) : (s.beginWait o h k j).chan = s.chan := by
  unfold beginWait; split
  · split <;> rfl
  · rfl

theorem stepBegin_chan {w s o h k s'} (hs : stepBegin w s o h k = some s') :
    SameOrEnq s.chan s'.chan := by
  unfold stepBegin at hs
  (repeat' (split at hs)) <;>
    (first
      | (simp at hs; done)
      | (simp at hs; subst hs; first
          | exact .inl rfl
          | (refine .inl ?_; simp; done)
          | (simp only [beginWait_chan]; apply SameOrEnq.of_push; assumption)))

@[simp] theorem retEffect_chan (s : AState) (r) : (s.retEffect r).chan = s.chan := by
  unfold retEffect
  simp only
  split <;> split <;> split <;> rfl

theorem stepRet_chan {s o r s'} (hs : stepRet s o r = some s') : s'.chan = s.chan := by
  unfold stepRet at hs
  split at hs
  · simp at hs
  · split at hs
    · simp at hs; subst hs; simp
    · simp at hs

theorem stepCdrop_chan {s o s'} (hs : stepCdrop s o = some s') : s'.chan = s.chan := by
  unfold stepCdrop at hs
  split at hs
  · simp at hs
  · split at hs <;> (simp at hs; subst hs; simp)

theorem stepMk_chan {s h h' k s'} (hs : stepMk s h h' k = some s') : s'.chan = s.chan := by
  unfold stepMk at hs
  split at hs
  · simp at hs
  · split at hs <;> simp at hs; subst hs; rfl

theorem stepUpgrade_chan {w s h h' s'} (hs : stepUpgrade w s h h' = some s') : s'.chan = s.chan := by
  unfold stepUpgrade at hs
  repeat' (split at hs)
  all_goals (first | (simp at hs; done) | (simp at hs; subst hs; rfl))

theorem stepDetach_chan {s h h' s'} (hs : stepDetach s h h' = some s') : s'.chan = s.chan := by
  unfold stepDetach at hs
  split at hs <;> simp at hs; subst hs; rfl

theorem stepDrop_chan {s h s'} (hs : stepDrop s h = some s') : s'.chan = s.chan := by
  unfold stepDrop at hs
  split at hs <;> simp at hs; subst hs; rfl

theorem stepSignal_chan {w s h pl path ok s'} (hs : stepSignal w s h pl path ok = some s') :
    SameOrEnq s.chan s'.chan := by
  unfold stepSignal at hs
  (repeat' (split at hs)) <;>
    (first
      | (simp at hs; done)
      | (simp at hs; subst hs; first
          | exact .inl rfl
          | (apply SameOrEnq.of_push; assumption)
          | (apply SameOrEnq.of_push; simp_all)))

/-- split everything in `hs`, discharge dead branches, close the rest by the given closers -/
macro "frame_crush" hs:ident : tactic => `(tactic|
  ((repeat' (split at $hs:ident)) <;>
   (first
     | (simp at $hs:ident; done)
     | (simp at $hs:ident; subst $hs:ident; first
         | exact Or.inl rfl
         | (refine Or.inl ?_; simp; done)
         | ((try simp only [setTimer_chan]); apply SameOrEnq.of_push; assumption)
         | ((try simp only [setTimer_chan]); apply SameOrEnq.of_push; simp_all; done)
         | (simp; done)
         | rfl))))

theorem stepQuery_chan {w s h b s'} (hs : stepQuery w s h b = some s') : s'.chan = s.chan := by
  unfold stepQuery at hs; frame_crush hs

theorem stepCbBegin_chan {w s cb s'} (hs : stepCbBegin w s cb = some s') :
    ChanStep s.chan s'.chan := by
  unfold stepCbBegin at hs
  split at hs
  · simp at hs; subst hs; exact .same rfl
  · split at hs <;> simp at hs; subst hs; exact .same rfl
  · split at hs
    · split at hs
      · simp at hs; subst hs
        rename_i hc
        exact .deq (by simp at hc; exact hc.2) rfl
      · simp at hs
    · simp at hs
  · split at hs
    · split at hs <;> simp at hs; subst hs; exact .same rfl
    · simp at hs
  · split at hs <;> simp at hs; subst hs; exact .same rfl
  · split at hs <;> simp at hs; subst hs; exact .same (by simp)
  · simp at hs; subst hs; exact .same (by simp)
  · simp at hs; subst hs; exact .same rfl
  · simp at hs

theorem stepCbEnd_chan {w s cb ok s'} (hs : stepCbEnd w s cb ok = some s') : s'.chan = s.chan := by
  unfold stepCbEnd at hs; frame_crush hs

theorem stepCbAbandon_chan {s cb s'} (hs : stepCbAbandon s cb = some s') : s'.chan = s.chan := by
  unfold stepCbAbandon at hs; frame_crush hs

theorem stepCbPanic_chan {s cb s'} (hs : stepCbPanic s cb = some s') : s'.chan = s.chan := by
  unfold stepCbPanic at hs; frame_crush hs

theorem stepVnew_chan {s b s'} (hs : stepVnew s b = some s') : s'.chan = s.chan := by
  unfold stepVnew at hs; frame_crush hs

theorem stepWork_chan {s d s'} (hs : stepWork s d = some s') : s'.chan = s.chan := by
  unfold stepWork at hs; frame_crush hs

theorem stepCtxSignal_chan {w s req pl path ok s'} (hs : stepCtxSignal w s req pl path ok = some s') :
    SameOrEnq s.chan s'.chan := by
  unfold stepCtxSignal at hs; frame_crush hs

theorem stepCtxTimer_chan {s t k d s'} (hs : stepCtxTimer s t k d = some s') : s'.chan = s.chan := by
  unfold stepCtxTimer at hs; frame_crush hs

theorem stepCtxWeak_chan {w s k h s'} (hs : stepCtxWeak w s k h = some s') : s'.chan = s.chan := by
  unfold stepCtxWeak at hs; frame_crush hs

theorem stepTimerArm_chan {w s t due s'} (hs : stepTimerArm w s t due = some s') :
    SameOrEnq s.chan s'.chan := by
  unfold stepTimerArm at hs; frame_crush hs

theorem stepTimerEnd_chan {w s t s'} (hs : stepTimerEnd w s t = some s') : s'.chan = s.chan := by
  unfold stepTimerEnd at hs; frame_crush hs

theorem stepFire_chan {w s t m s'} (hs : stepFire w s t m = some s') :
    SameOrEnq s.chan s'.chan := by
  unfold stepFire at hs; frame_crush hs

theorem stepTickBegin_chan {s t m s'} (hs : stepTickBegin s t m = some s') :
    ChanStep s.chan s'.chan := by
  unfold stepTickBegin at hs
  split at hs
  · split at hs
    · simp at hs; subst hs
      rename_i hq _
      exact .rename _ _ _ _ hq rfl
    · simp at hs
  · simp at hs

theorem stepExtPush_chan {s b s'} (hs : stepExtPush s b = some s') : SameOrEnq s.chan s'.chan := by
  unfold stepExtPush at hs; frame_crush hs

theorem stepExtBegin_chan {s b m s'} (hs : stepExtBegin s b m = some s') :
    ChanStep s.chan s'.chan := by
  unfold stepExtBegin at hs
  split at hs
  · split at hs
    · simp at hs; subst hs
      rename_i hq _
      exact .rename _ _ _ _ hq rfl
    · simp at hs
  · simp at hs

theorem stepTime_chan {s t s'} (hs : stepTime s t = some s') : s'.chan = s.chan := by
  unfold stepTime at hs; frame_crush hs

theorem stepCancel_chan {s s'} (hs : stepCancel s = some s') : s'.chan = s.chan.dropRx := by
  unfold stepCancel at hs; frame_crush hs

theorem stepTaskDone_chan {s s'} (hs : stepTaskDone s = some s') : s'.chan = s.chan.dropRx := by
  unfold stepTaskDone at hs; frame_crush hs

theorem stepTaskPanic_chan {s s'} (hs : stepTaskPanic s = some s') :
    s'.chan = s.chan.dropRx ∨ (s.chan.rx = true ∧ s'.chan = s.chan.deq.dropRx) := by
  unfold stepTaskPanic at hs
  repeat' (split at hs)
  all_goals first
    | (simp at hs; done)
    | (simp at hs; subst hs; simp; done)
    | (simp at hs; subst hs; rename_i hc; simp at hc; simp [hc.2])

theorem stepStreamReady_chan {s k s'} (hs : stepStreamReady s k = some s') : s'.chan = s.chan := by
  unfold stepStreamReady at hs; frame_crush hs

theorem stepStreamEnd_chan {s s'} (hs : stepStreamEnd s = some s') : s'.chan = s.chan := by
  unfold stepStreamEnd at hs; frame_crush hs

theorem stepDeq_chan {s s'} (hs : stepDeq s = some s') : s.chan.rx = true ∧ s'.chan = s.chan.deq := by
  unfold stepDeq at hs
  split at hs
  · split at hs
    · simp at hs
    · rename_i hrx
      simp only at hs
      repeat' (split at hs)
      all_goals first
        | (simp at hs; done)
        | (simp at hs; subst hs; simpa using hrx)
  · simp at hs

theorem stepChanEnd_chan {w s s'} (hs : stepChanEnd w s = some s') : s'.chan = s.chan := by
  unfold stepChanEnd at hs; frame_crush hs

theorem stepStreamEndTau_chan {s s'} (hs : stepStreamEndTau s = some s') : s'.chan = s.chan := by
  unfold stepStreamEndTau at hs; frame_crush hs

/-- Every step of the actor model acts on the mailbox by (a sequence of) `Chan` operations. -/
inductive ChanSteps : Chan → Chan → Prop where
  | one {c c'} (h : ChanStep c c') : ChanSteps c c'
  | two {c c' c''} (h1 : ChanStep c c') (h2 : ChanStep c' c'') : ChanSteps c c''

theorem step_chan {w s l s'} (hs : step w s l = some s') : ChanSteps s.chan s'.chan := by
  cases l <;> simp only [step] at hs
  case begin => exact .one (stepBegin_chan hs).toChanStep
  case ret => exact .one (.same (stepRet_chan hs))
  case cdrop => exact .one (.same (stepCdrop_chan hs))
  case mk => exact .one (.same (stepMk_chan hs))
  case upgrade => exact .one (.same (stepUpgrade_chan hs))
  case detach => exact .one (.same (stepDetach_chan hs))
  case drop => exact .one (.same (stepDrop_chan hs))
  case stopReq => exact .one (stepSignal_chan hs).toChanStep
  case restartReq => exact .one (stepSignal_chan hs).toChanStep
  case query => exact .one (.same (stepQuery_chan hs))
  case cbBegin => exact .one (stepCbBegin_chan hs)
  case cbEnd => exact .one (.same (stepCbEnd_chan hs))
  case cbAbandon => exact .one (.same (stepCbAbandon_chan hs))
  case cbPanic => exact .one (.same (stepCbPanic_chan hs))
  case vnew => exact .one (.same (stepVnew_chan hs))
  case work => exact .one (.same (stepWork_chan hs))
  case ctxStop => exact .one (stepCtxSignal_chan hs).toChanStep
  case ctxRestart => exact .one (stepCtxSignal_chan hs).toChanStep
  case ctxTimer => exact .one (.same (stepCtxTimer_chan hs))
  case ctxWeak => exact .one (.same (stepCtxWeak_chan hs))
  case fire => exact .one (stepFire_chan hs).toChanStep
  case tickBegin => exact .one (stepTickBegin_chan hs)
  case extPush => exact .one (stepExtPush_chan hs).toChanStep
  case extBegin => exact .one (stepExtBegin_chan hs)
  case time => exact .one (.same (stepTime_chan hs))
  case cancel => exact .one (.drop (stepCancel_chan hs))
  case taskPanic =>
    rcases stepTaskPanic_chan hs with h | h
    · exact .one (.drop h)
    · exact .two (.deq h.1 rfl) (.drop h.2)
  case streamReady => exact .one (.same (stepStreamReady_chan hs))
  case streamEnd => exact .one (.same (stepStreamEnd_chan hs))
  case taskDone => exact .one (.drop (stepTaskDone_chan hs))
  case quiescent => simp only [stepQuiescent] at hs; split at hs <;> simp at hs; subst hs; exact .one (.same rfl)
  case tDeq => exact .one (.deq (stepDeq_chan hs).1 (stepDeq_chan hs).2)
  case tChanEnd => exact .one (.same (stepChanEnd_chan hs))
  case tStreamEnd => exact .one (.same (stepStreamEndTau_chan hs))
  case timerArm => exact .one (stepTimerArm_chan hs).toChanStep
  case timerEnd => exact .one (.same (stepTimerEnd_chan hs))

end Hannibal
