import Hannibal.Monitor.C05D
/-
  C05 (drain completeness for dropped calls), support 1: list facts about `before05d` (the submission order kept by
  `monC05d`, newest first), and `monC05d` split into its two clauses.
-/
namespace Hannibal

/-- a message that was never submitted was not submitted before anything -/
theorem before05d_not_mem {order : List Nat} {m : Nat} (m' : Nat) (h : m ∉ order) : before05d order m m' = false := by
  unfold before05d
  cases hb : (List.dropWhile (fun x => x != m') order).tail.contains m
  · rfl
  · exfalso
    have h1 : m ∈ (List.dropWhile (fun x => x != m') order).tail := by simpa using hb
    exact h ((List.dropWhile_sublist _).subset (List.mem_of_mem_tail h1))

/-- nothing was submitted before a message that was never submitted -/
theorem before05d_not_mem' {order : List Nat} (m : Nat) {m' : Nat} (h : m' ∉ order) : before05d order m m' = false := by
  unfold before05d
  have : List.dropWhile (fun x => x != m') order = [] := by
    induction order with
    | nil => rfl
    | cons x xs ih =>
      have hne : (x != m') = true := by
        have : x ≠ m' := fun he => h (by simp [he])
        simpa using this
      simp only [List.dropWhile_cons, hne, if_true]
      exact ih (fun hm => h (List.mem_cons_of_mem _ hm))
  rw [this]; rfl

theorem before05d_cons_ne {order : List Nat} {x : Nat} (m : Nat) {m' : Nat} (h : x ≠ m') :
    before05d (x :: order) m m' = before05d order m m' := by
  unfold before05d
  have : (x != m') = true := by simpa using h
  simp only [List.dropWhile_cons, this, if_true]

theorem before05d_self {order : List Nat} (m : Nat) (h : order.Nodup) : before05d order m m = false := by
  induction order with
  | nil => rfl
  | cons x xs ih =>
    obtain ⟨hx, hxs⟩ := List.nodup_cons.mp h
    by_cases he : x = m
    · subst he
      unfold before05d
      have : (x != x) = false := by simp
      simp only [List.dropWhile_cons, this]
      simpa using hx
    · rw [before05d_cons_ne m he]; exact ih hxs

/-! ### the two clauses of `monC05d` -/

/-- clause (f): a dropped call's message is never skipped -/
def bad05df (st : C05dSt) : Label → Bool
  | .cbBegin (.handle m') => skipped05d st st.dropped m'
  | .cdrop o =>
    (match lookup o st.calls with
     | some m => !st.q.handled.contains m && st.q.handled.any (fun m' => before05d st.order m m')
     | none => false)
  | _ => false

/-- clause (q): by quiescence the dropped calls' messages have been handled -/
def bad05dq (c : MonCtx) (st : C05dSt) : Label → Bool
  | .quiescent _ =>
    !st.q.hold.strongHeld && !st.q.failure && !st.q.stopIssued && !(c.cfg.stream && st.q.streamEnded)
      && !(st.dropped.all (fun m => st.q.handled.contains m))
  | _ => false

theorem bad05d_split (c : MonCtx) (st : C05dSt) (l : Label) : bad05d c st l = (bad05df st l || bad05dq c st l) := by
  cases l
  case cbBegin cb => cases cb <;> simp [bad05d, bad05df, bad05dq]
  case cdrop o =>
    simp only [bad05d, bad05df, bad05dq, Bool.or_false]
    cases lookup o st.calls <;> rfl
  all_goals simp [bad05d, bad05df, bad05dq]

/-- `monC05d` restricted to clause (f) -/
def monC05df (c : MonCtx) : Mon C05dSt where
  init := (monC05d c).init
  step st l := if bad05df st l then none else some (next05d c st l)

/-- `monC05d` restricted to clause (q) -/
def monC05dq (c : MonCtx) : Mon C05dSt where
  init := (monC05d c).init
  step st l := if bad05dq c st l then none else some (next05d c st l)

theorem monC05d_split_run (c : MonCtx) : ∀ (ls : List Label) (st : C05dSt),
    ((monC05d c).run st ls).isSome = (((monC05df c).run st ls).isSome && ((monC05dq c).run st ls).isSome)
  | [], _ => rfl
  | l :: ls, st => by
    have e1 : (monC05d c).step st l = if bad05d c st l then none else some (next05d c st l) := rfl
    have e2 : (monC05df c).step st l = if bad05df st l then none else some (next05d c st l) := rfl
    have e3 : (monC05dq c).step st l = if bad05dq c st l then none else some (next05d c st l) := rfl
    simp only [Mon.run, e1, e2, e3, bad05d_split]
    cases h1 : bad05df st l <;> cases h2 : bad05dq c st l <;> simp
    · exact monC05d_split_run c ls _

/-- `monC05d` accepts a trace iff its two clauses do -/
theorem monC05d_split (c : MonCtx) (ls : List Label) :
    (monC05d c).ok ls = ((monC05df c).ok ls && (monC05dq c).ok ls) :=
  monC05d_split_run c ls _

end Hannibal
