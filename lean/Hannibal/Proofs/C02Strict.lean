import Hannibal.Proofs.C02Ret
/-
  C02, trace-only clause under the assumption that the task is not cancelled right after `stopped`:
  while the monitor's `graceful` flag is up the loop is between `stopped` and its next callback / its end,
  or has ended gracefully.
-/
set_option linter.unusedSimpArgs false
set_option linter.unusedVariables false
namespace Hannibal
open AState

def gracePhase : Phase → Bool
  | .exiting true | .rstStopped _ | .done true => true
  | _ => false

set_option maxHeartbeats 1000000 in
theorem gracePhase_step (w : Wiring) {s s' : AState} {σ : C02St} {l : Label} (hs : step w s l = some s')
    (hnc : l = .cancel → σ.graceful = false)
    (hi : σ.graceful = true → gracePhase s.phase = true) :
    (next02 σ l).graceful = true → gracePhase s'.phase = true := by
  cases l <;> unfold_steps hs <;>
    ((repeat' (split at hs)) <;>
     (first
       | (simp at hs; done)
       | (simp at hs; subst hs
          simp_all [gracePhase, fail, finish, cancelSlots, killTimers, setTimer, addOp, removeOp, removeHandle,
            push, answer]
          done)
       | (simp at hs; subst hs
          cases hp : s.phase <;>
            simp_all [gracePhase, fail, finish, cancelSlots, killTimers, openCb, curSlot, isDone]
          done)
       | (simp at hs; subst hs
          unfold answer
          split <;> simp_all [gracePhase]
          done)))

/-- the trace-only clause: a late await returns Ok while the `graceful` flag is up -/
theorem ret_accept_t {s : AState} {σ : C02St} {o : Nat} {res : Res} {rec : OpRec}
    (hfind : s.findOp o = some rec) (hexp : s.retExpect rec = some res) (hok : opOk σ rec = true)
    (ht : TermInv s) (hg : σ.graceful = true → gracePhase s.phase = true) :
    bad02t σ (.ret o res) = false := by
  obtain ⟨_, hro⟩ := findOp_some_mem hfind
  obtain ⟨late, h1, h2, h3, h4⟩ := opOk_parts hok
  rw [hro] at h1
  simp only [bad02t, h1]
  cases hk : rec.kind <;> try rfl
  cases late <;> try rfl
  simp only [Bool.and_eq_false_iff]
  cases hgr : σ.graceful
  · exact .inl rfl
  · refine .inr ?_
    have hph := hg hgr
    have hls := h3 rfl
    have hl := ht.latch
    unfold retExpect at hexp
    cases hs : rec.st <;> simp [hs, hk, lateSt, stOk] at hls h4 hexp
    unfold latchRes at hexp
    cases hla : s.latch <;> simp [hla] at hexp
    · subst hexp; rfl
    · rw [hla] at hl
      cases hp : s.phase with
      | done g => cases g <;> simp_all [latchOk, gracePhase]
      | _ => simp_all [latchOk, gracePhase]

end Hannibal
