import Hannibal.Monitor.C04
import Hannibal.Proofs.C01Mon
import Hannibal.Proofs.C05Queue
/-
  `monC04q` in guard / update form: `(monC04q c).step σ l = if bad04q c σ l then none else some (next04q c σ l)`
  (the monitor file itself is untouched; this is a proved re-reading of it).
-/
namespace Hannibal

def opsNext4 (ops : List (Nat × OpKind)) : Label → List (Nat × OpKind)
  | .begin o _ k => (o, k) :: ops
  | _ => ops

def issuedNext (b : Bool) : Label → Bool
  | .begin _ _ k => b || isStopKind k
  | .stopReq _ _ | .ctxStop _ => true
  | _ => b

def haltKind : OpKind → Bool
  | .halt | .tryHalt => true
  | _ => false

def acceptedNext (σ : C04qSt) : Label → Bool
  | .stopReq _ ok | .ctxStop ok => σ.stopAccepted || ok
  | .ret o r =>
    (match lookup o σ.ops with
     | some k => σ.stopAccepted || (haltKind k && r == .ok)
     | none => σ.stopAccepted)
  | _ => σ.stopAccepted

def sendMsg? : OpKind → Option Nat
  | .send m | .trySend m | .tryForce m => some m
  | _ => none

def callMsg? : OpKind → Option Nat
  | .call m | .callw m | .tryCall m => some m
  | _ => none

def sentOkNext (σ : C04qSt) : Label → List Nat
  | .ret o r =>
    (match (lookup o σ.ops).bind sendMsg? with
     | some m => if r == .ok && !σ.stopIssued then m :: σ.sentOk else σ.sentOk
     | none => σ.sentOk)
  | _ => σ.sentOk

def lateNext (σ : C04qSt) : Label → List Nat
  | .begin _ _ k =>
    (match k.msg? with
     | some m => if σ.stopAccepted then m :: σ.late else σ.late
     | none => σ.late)
  | _ => σ.late

def failureNext (c : MonCtx) (σ : C04qSt) (l : Label) : Bool :=
  if failsActor c.cfg.failOnTimeout l then true else σ.failure

def terminatedNext (σ : C04qSt) (l : Label) : Bool := if l.terminates then true else σ.terminated

def streamEndedNext (σ : C04qSt) : Label → Bool
  | .streamEnd => true
  | _ => σ.streamEnded

/-- the two conditions under which clause (b) is checked at a `quiescent` label -/
def guard04q (c : MonCtx) (σ : C04qSt) : Bool :=
  σ.stopAccepted && !σ.failure && !(c.cfg.stream && σ.streamEnded)

def bad04q (c : MonCtx) (σ : C04qSt) : Label → Bool
  | .ret o r =>
    (match (lookup o σ.ops).bind callMsg? with
     | some m => σ.late.contains m && !r.isErr
     | none => false)
  | .cbBegin (.handle m) => σ.late.contains m
  | .quiescent _ =>
    guard04q c σ && !(σ.sentOk.all (fun m => σ.handled.contains m) && σ.terminated)
  | _ => false

def next04q (c : MonCtx) (σ : C04qSt) (l : Label) : C04qSt :=
  { ops := opsNext4 σ.ops l, stopIssued := issuedNext σ.stopIssued l, stopAccepted := acceptedNext σ l,
    sentOk := sentOkNext σ l, late := lateNext σ l, handled := handledNext σ.handled l,
    failure := failureNext c σ l, terminated := terminatedNext σ l, streamEnded := streamEndedNext σ l }

theorem ite_guard {α : Type} (A B : Bool) (x : α) :
    (if A = true then (if B = true then some x else none) else some x) =
      if (A && !B) = true then none else some x := by
  cases A <;> cases B <;> simp

theorem monC04q_step (c : MonCtx) (σ : C04qSt) (l : Label) :
    (monC04q c).step σ l = if bad04q c σ l then none else some (next04q c σ l) := by
  obtain ⟨ops, si, sa, so, la, ha, fa, te, se⟩ := σ
  cases l
  case begin o h k =>
    cases k <;>
      simp [monC04q, bad04q, next04q, opsNext4, issuedNext, acceptedNext, sentOkNext, lateNext, handledNext,
        failureNext, terminatedNext, streamEndedNext, failsActor, Label.isFailure, Label.terminates,
        OpKind.msg?, isStopKind] <;>
      (try (cases sa <;> simp))
  case ret o r =>
    simp only [monC04q, bad04q, next04q, opsNext4, issuedNext, acceptedNext, sentOkNext, lateNext, handledNext,
      failureNext, terminatedNext, streamEndedNext, failsActor, Label.isFailure, Label.terminates]
    cases hl : lookup o ops with
    | none => simp [sendMsg?, callMsg?]
    | some k =>
      cases k <;> simp [sendMsg?, callMsg?, haltKind] <;>
        (first
          | done
          | (split <;> simp_all; done)
          | (cases r <;> simp; done))
  case cbBegin cb =>
    cases cb <;>
      simp [monC04q, bad04q, next04q, opsNext4, issuedNext, acceptedNext, sentOkNext, lateNext, handledNext,
        failureNext, terminatedNext, streamEndedNext, failsActor, Label.isFailure, Label.terminates]
  case cbEnd cb ok =>
    cases cb <;> cases ok <;>
      simp [monC04q, bad04q, next04q, opsNext4, issuedNext, acceptedNext, sentOkNext, lateNext, handledNext,
        failureNext, terminatedNext, streamEndedNext, failsActor, Label.isFailure, Label.terminates]
  case cbAbandon cb =>
    cases hf : c.cfg.failOnTimeout <;>
      simp [monC04q, bad04q, next04q, opsNext4, issuedNext, acceptedNext, sentOkNext, lateNext, handledNext,
        failureNext, terminatedNext, streamEndedNext, failsActor, Label.isFailure, Label.terminates, hf]
  case quiescent p =>
    simp only [monC04q, bad04q, next04q, opsNext4, issuedNext, acceptedNext, sentOkNext, lateNext, handledNext,
      failureNext, terminatedNext, streamEndedNext, failsActor, Label.isFailure, Label.terminates, guard04q]
    simp only [Bool.false_eq_true, if_false]
    exact ite_guard _ _ _
  all_goals
    simp [monC04q, bad04q, next04q, opsNext4, issuedNext, acceptedNext, sentOkNext, lateNext, handledNext,
      failureNext, terminatedNext, streamEndedNext, failsActor, Label.isFailure, Label.terminates]

end Hannibal
