import Hannibal.Props.C09
/-
  C09 at quiescence, part 1: the extra invariants (relative to the ghost handling order `H` of
  Proofs/C09Inv.lean) and the strengthened step.

  * `SubConv`: the converse of `SubInv.sb2` - if the last handled subscribe / unsubscribe item of `c` is a
    subscribe, `c` is in the table;
  * `DelInv`: for every handled `pub m` and every `c` that was subscribed when it was handled (`SubAt`) and is
    not dead now, `(c, m)` has been taken up or is on its way;
  * the monitor's and the model's `dead` lists coincide.
-/
namespace Hannibal

/-! ### the subscriber table, converse direction -/

def SubConv (subs : List Nat) (H : List GE) : Prop :=
  ∀ (c i : Nat) (e : GE), H[i]? = some e → e.it = .sub c →
    (∀ (j : Nat) (e' : GE), i < j → H[j]? = some e' → e'.it ≠ .unsub c) → c ∈ subs

theorem subc_sub {subs : List Nat} {H : List GE} (h : SubConv subs H) {e : GE} {c0 : Nat}
    (he : e.it = .sub c0) : SubConv (c0 :: subs.filter (fun x => x != c0)) (H ++ [e]) := by
  intro c i e1 hi hit hno
  by_cases hc : c = c0
  · subst hc; exact List.mem_cons_self
  · refine List.mem_cons_of_mem _ ?_
    rw [List.mem_filter]
    refine ⟨?_, by simpa using hc⟩
    rcases getElem?_snoc hi with ⟨_, hi'⟩ | ⟨_, rfl⟩
    · exact h c i e1 hi' hit (fun j e' hij hj => hno j e' hij (getElem?_snoc_left hj))
    · rw [he] at hit; cases hit; exact absurd rfl hc

theorem subc_unsub {subs : List Nat} {H : List GE} (h : SubConv subs H) {e : GE} {c0 : Nat}
    (he : e.it = .unsub c0) : SubConv (subs.filter (fun x => x != c0)) (H ++ [e]) := by
  intro c i e1 hi hit hno
  rcases getElem?_snoc hi with ⟨hlt, hi'⟩ | ⟨_, rfl⟩
  · have hc : c ≠ c0 := by
      intro hc; subst hc
      exact hno H.length e hlt (getElem?_snoc_last H e) he
    rw [List.mem_filter]
    exact ⟨h c i e1 hi' hit (fun j e' hij hj => hno j e' hij (getElem?_snoc_left hj)), by simpa using hc⟩
  · rw [he] at hit; cases hit

theorem subc_pub {subs : List Nat} {H : List GE} (h : SubConv subs H) {e : GE} {m : Nat}
    (he : e.it = .pub m) : SubConv subs (H ++ [e]) := by
  intro c i e1 hi hit hno
  rcases getElem?_snoc hi with ⟨_, hi'⟩ | ⟨_, rfl⟩
  · exact h c i e1 hi' hit (fun j e' hij hj => hno j e' hij (getElem?_snoc_left hj))
  · rw [he] at hit; cases hit

/-! ### every handled publication reaches every subscriber of that moment -/

/-- `c` is in the table when the item at position `j` of the handling order is handled -/
def SubAt (H : List GE) (c j : Nat) : Prop :=
  ∃ (i : Nat) (e0 : GE), i < j ∧ H[i]? = some e0 ∧ e0.it = .sub c ∧
    ∀ (j' : Nat) (e' : GE), i < j' → j' < j → H[j']? = some e' → e'.it ≠ .unsub c

theorem subAt_snoc {H : List GE} {e : GE} {c j : Nat} (hj : j ≤ H.length) (h : SubAt (H ++ [e]) c j) :
    SubAt H c j := by
  obtain ⟨i, e0, hij, hi, hit, hno⟩ := h
  have hi' : H[i]? = some e0 := by
    rwa [List.getElem?_append_left (Nat.lt_of_lt_of_le hij hj)] at hi
  refine ⟨i, e0, hij, hi', hit, ?_⟩
  intro j' e' h1 h2 h3
  exact hno j' e' h1 h2 (getElem?_snoc_left h3)

def DelInv (seq flight : List (Nat × Nat)) (dead : List Nat) (H : List GE) : Prop :=
  ∀ (j : Nat) (e : GE) (m c : Nat), H[j]? = some e → e.it = .pub m → c ∉ dead → SubAt H c j →
    (c, m) ∈ seq ∨ (c, m) ∈ flight

theorem del_append {seq flight : List (Nat × Nat)} {dead : List Nat} {H : List GE}
    (h : DelInv seq flight dead H) {e : GE} (he : ∀ m, e.it ≠ .pub m) : DelInv seq flight dead (H ++ [e]) := by
  intro j e1 m c hj hit hd hs
  rcases getElem?_snoc hj with ⟨hlt, hj'⟩ | ⟨_, rfl⟩
  · exact h j e1 m c hj' hit hd (subAt_snoc (Nat.le_of_lt hlt) hs)
  · exact absurd hit (he m)

theorem del_pub {seq flight : List (Nat × Nat)} {dead subs : List Nat} {H : List GE}
    (h : DelInv seq flight dead H) (hsc : SubConv subs H) {e : GE} {m0 : Nat} (he : e.it = .pub m0) :
    DelInv seq (flight ++ (subs.filter (fun c => !dead.contains c)).map (fun c => (c, m0))) dead (H ++ [e]) := by
  intro j e1 m c hj hit hd hs
  rcases getElem?_snoc hj with ⟨hlt, hj'⟩ | ⟨hjl, rfl⟩
  · rcases h j e1 m c hj' hit hd (subAt_snoc (Nat.le_of_lt hlt) hs) with h1 | h1
    · exact Or.inl h1
    · exact Or.inr (List.mem_append_left _ h1)
  · rw [he] at hit; cases hit
    subst hjl
    obtain ⟨i, e0, hij, hi, hit0, hno⟩ := subAt_snoc (Nat.le_refl _) hs
    have hc : c ∈ subs := hsc c i e0 hi hit0 (fun j' e' h1 h2 =>
      hno j' e' h1 (List.getElem?_eq_some_iff.mp h2).1 h2)
    refine Or.inr (List.mem_append_right _ ?_)
    rw [List.mem_map]
    refine ⟨c, ?_, rfl⟩
    rw [List.mem_filter]
    exact ⟨hc, by simpa using hd⟩

theorem del_deliver {seq flight : List (Nat × Nat)} {dead : List Nat} {H : List GE}
    (h : DelInv seq flight dead H) (c0 m0 : Nat) :
    DelInv (seq ++ [(c0, m0)]) (flight.erase (c0, m0)) dead H := by
  intro j e m c hj hit hd hs
  rcases h j e m c hj hit hd hs with h1 | h1
  · exact Or.inl (List.mem_append_left _ h1)
  · by_cases heq : (c, m) = (c0, m0)
    · rw [heq]; exact Or.inl (by simp)
    · exact Or.inr ((List.mem_erase_of_ne heq).mpr h1)

theorem del_term {seq flight : List (Nat × Nat)} {dead : List Nat} {H : List GE}
    (h : DelInv seq flight dead H) (c0 : Nat) :
    DelInv seq (flight.filter (fun p => p.1 != c0)) (c0 :: dead) H := by
  intro j e m c hj hit hd hs
  rw [List.mem_cons, not_or] at hd
  rcases h j e m c hj hit hd.2 hs with h1 | h1
  · exact Or.inl h1
  · refine Or.inr ?_
    rw [List.mem_filter]
    exact ⟨h1, by simpa using hd.1⟩

/-! ### the bundle and the strengthened step -/

structure QInv09 (s : BrSt) (σ : C09St) (H : List GE) : Prop where
  dd : σ.dead = s.dead
  sc : SubConv s.subs H
  dl : DelInv σ.seq s.flight s.dead H

/-- `c09_step` again, with the new handling order made explicit enough to carry `QInv09` along -/
theorem c09q_step {s s' : BrSt} {σ : C09St} {W W' : List Nat} {H Q : List GE} {l : BLabel}
    (hi : C09Inv s σ W H Q) (hq : QInv09 s σ H) (hs : bstep s l = some s') (hw : wfC09.step W l = some W') :
    ∃ H' Q', C09Inv s' (next09 σ l) W' H' Q' ∧ QInv09 s' (next09 σ l) H' := by
  cases l with
  | bbegin o it =>
    refine ⟨H, Q, ?_, ?_⟩
    · simp only [bstep] at hs
      split at hs
      · simp at hs
      · rename_i hc
        simp only [Bool.or_eq_true, List.any_eq_true, beq_iff_eq, List.contains_eq_mem, decide_eq_true_eq,
          not_or, not_exists, not_and] at hc
        obtain ⟨hc1, hc2⟩ := hc
        simp only [Option.some.injEq] at hs
        subst hs
        have hW : (∀ m ∈ W, m ∈ W') ∧ ∀ m, it = .pub m → m ∉ W ∧ m ∈ W' := by
          cases it with
          | sub c => simp [wfC09] at hw; subst hw; exact ⟨fun _ h => h, fun _ h => by cases h⟩
          | unsub c => simp [wfC09] at hw; subst hw; exact ⟨fun _ h => h, fun _ h => by cases h⟩
          | pub m =>
            simp only [wfC09] at hw
            split at hw
            · simp at hw
            · rename_i hm
              simp at hw hm; subst hw
              refine ⟨fun _ h => List.mem_cons_of_mem _ h, ?_⟩
              intro m' hm'; cases hm'
              exact ⟨hm, List.mem_cons_self⟩
        have hopen : ∀ x ∈ σ.ops, x.tr = none → x.o ≠ o := by
          intro x hx hxo heq
          rcases st_open hi.st hx hxo with h | h
          · exact hc1 _ h heq
          · exact hc2 (heq ▸ h)
        exact ⟨ops_begin hi.ops o it hopen hW.1 hW.2, e_begin hi.e _,
          st_begin hi.st hi.e hi.ops.t1 o it hc2, hi.mb, hi.sub, hi.fl⟩
    · simp only [bstep] at hs
      split at hs
      · simp at hs
      · simp only [Option.some.injEq] at hs
        subst hs
        exact ⟨hq.dd, hq.sc, hq.dl⟩
  | benq o =>
    have hW : W' = W := by simp [wfC09] at hw; exact hw.symm
    subst hW
    simp only [bstep] at hs
    cases hf : s.pend.find? (fun p => p.1 == o) with
    | none => simp [hf] at hs
    | some p =>
      obtain ⟨o', it⟩ := p
      simp only [hf, Option.some.injEq] at hs
      subst hs
      have hpm : (o', it) ∈ s.pend := List.mem_of_find?_eq_some hf
      have ho' : o' = o := by simpa using List.find?_some hf
      subst ho'
      obtain ⟨y, hy, hyo, hyit, hytr⟩ := hi.st.pl _ hpm
      simp only at hyo hyit
      subst hyo
      have hne : ∀ e ∈ H ++ Q, e.k ≠ y.tb := by
        rcases hi.st.st y hy with ⟨_, _, h3⟩ | ⟨e, _, _, _, h3, _⟩
        · exact h3
        · exact absurd (h3 hytr) (hi.st.d1 _ hpm)
      refine ⟨H, Q ++ [⟨y.tb, y.it, σ.now⟩], ?_, ⟨hq.dd, hq.sc, hq.dl⟩⟩
      have hE : H ++ (Q ++ [(⟨y.tb, y.it, σ.now⟩ : GE)]) = (H ++ Q) ++ [⟨y.tb, y.it, σ.now⟩] :=
        (List.append_assoc _ _ _).symm
      refine ⟨hi.ops, ?_, ?_, ?_, hi.sub, hi.fl⟩
      · rw [hE]; exact e_enq hi.e hy (hi.ops.t1 y hy) hne
      · rw [hE]; exact st_enq hi.st hi.ops hy hytr σ.now
      · simp [hi.mb, hyit]
  | bret o =>
    have hW : W' = W := by simp [wfC09] at hw; exact hw.symm
    subst hW
    simp only [bstep] at hs
    split at hs
    · rename_i hc
      simp only [Option.some.injEq] at hs
      subst hs
      have hos : o ∈ s.sent := by simpa using hc
      refine ⟨H, Q, ?_, ?_⟩
      · rw [next09_bret]
        exact ⟨ops_ret hi.ops o, e_ret hi.e o, st_ret hi.st hi.e o hos, hi.mb, hi.sub, hi.fl⟩
      · rw [next09_bret]
        exact ⟨hq.dd, hq.sc, hq.dl⟩
    · simp at hs
  | bproc =>
    have hW : W' = W := by simp [wfC09] at hw; exact hw.symm
    subst hW
    simp only [bstep] at hs
    have hmb := hi.mb
    cases hQ : Q with
    | nil => rw [hQ] at hmb; simp [hmb] at hs
    | cons e Q' =>
      rw [hQ] at hmb
      simp only [List.map_cons] at hmb
      have hE : (H ++ [e]) ++ Q' = H ++ Q := by rw [hQ]; simp
      have hops : OpsInv (next09 σ .bproc).ops (next09 σ .bproc).now _ := hi.ops
      have he : EInv (next09 σ .bproc).ops (next09 σ .bproc).now ((H ++ [e]) ++ Q') := by rw [hE]; exact hi.e
      refine ⟨H ++ [e], Q', ?_⟩
      cases hit : e.it with
      | sub c =>
        rw [hmb, hit] at hs
        simp only [Option.some.injEq] at hs
        subst hs
        exact ⟨⟨hops, he, by rw [hE]; exact hi.st, rfl, sub_sub hi.sub hit, fl_append hi.fl e⟩,
          ⟨hq.dd, subc_sub hq.sc hit, del_append hq.dl (by rw [hit]; simp)⟩⟩
      | unsub c =>
        rw [hmb, hit] at hs
        simp only [Option.some.injEq] at hs
        subst hs
        exact ⟨⟨hops, he, by rw [hE]; exact hi.st, rfl, sub_unsub hi.sub hit, fl_append hi.fl e⟩,
          ⟨hq.dd, subc_unsub hq.sc hit, del_append hq.dl (by rw [hit]; simp)⟩⟩
      | pub m =>
        rw [hmb, hit] at hs
        simp only [Option.some.injEq] at hs
        subst hs
        have hU : PubU (H ++ [e]) := by
          have := pubU_of hi.ops hi.e
          rw [← hE] at this
          exact this.left
        exact ⟨⟨hops, he, by rw [hE]; exact hi.st, rfl, sub_pub hi.sub hit, fl_pub hi.fl hi.sub hit hU _⟩,
          ⟨hq.dd, subc_pub hq.sc hit, del_pub hq.dl hq.sc hit⟩⟩
  | deliver c m =>
    have hW : W' = W := by simp [wfC09] at hw; exact hw.symm
    subst hW
    simp only [bstep] at hs
    split at hs
    · simp at hs
    · cases hf : s.flight.find? (fun p => p.1 == c) with
      | none => simp [hf] at hs
      | some p =>
        obtain ⟨c', m'⟩ := p
        simp only [hf] at hs
        split at hs
        · rename_i hmm
          subst hmm
          simp only [Option.some.injEq] at hs
          subst hs
          obtain ⟨_, f1, f2, hfe, hn⟩ := find_first hf
          refine ⟨H, Q, ?_, ⟨hq.dd, hq.sc, del_deliver hq.dl c m'⟩⟩
          have hfl := hi.fl
          rw [hfe] at hfl
          refine ⟨ops_tick hi.ops, e_tick hi.e, hi.st, hi.mb, hi.sub, ?_⟩
          show FlInv (σ.seq ++ [(c, m')]) (s.flight.erase (c, m')) H
          rw [hfe, erase_first hn]
          exact fl_deliver hfl hn
        · simp at hs
  | term c =>
    have hW : W' = W := by simp [wfC09] at hw; exact hw.symm
    subst hW
    simp only [bstep, Option.some.injEq] at hs
    subst hs
    refine ⟨H, Q, ⟨ops_tick hi.ops, e_tick hi.e, hi.st, hi.mb, hi.sub, fl_sub hi.fl List.filter_sublist⟩, ?_⟩
    refine ⟨?_, hq.sc, del_term hq.dl c⟩
    show c :: σ.dead = c :: s.dead
    rw [hq.dd]

theorem c09q_init : QInv09 BrSt.init monC09.init [] := by
  refine ⟨rfl, ?_, ?_⟩
  · intro c i e hi; simp at hi
  · intro j e m c hj; simp at hj

theorem c09q_run : ∀ (ls : List BLabel) (s s' : BrSt) (σ : C09St) (W W' : List Nat) (H Q : List GE),
    C09Inv s σ W H Q → QInv09 s σ H → brun s ls = some s' → wfC09.run W ls = some W' →
      ∃ σ' H' Q', monC09.run σ ls = some σ' ∧ C09Inv s' σ' W' H' Q' ∧ QInv09 s' σ' H'
  | [], s, s', σ, W, W', H, Q, hi, hq, hr, hw => by
    simp [brun] at hr; simp [BMon.run] at hw; subst hr; subst hw
    exact ⟨σ, H, Q, rfl, hi, hq⟩
  | l :: ls, s, s', σ, W, W', H, Q, hi, hq, hr, hw => by
    simp only [brun] at hr
    simp only [BMon.run] at hw
    cases hs : bstep s l with
    | none => simp [hs] at hr
    | some s1 =>
      cases hw1 : wfC09.step W l with
      | none => simp [hw1] at hw
      | some W1 =>
        simp only [hs] at hr
        simp only [hw1] at hw
        have hb := (c09_step hi hs hw1).1
        obtain ⟨H1, Q1, hi1, hq1⟩ := c09q_step hi hq hs hw1
        obtain ⟨σ', H', Q', hm, hi', hq'⟩ := c09q_run ls s1 s' (next09 σ l) W1 W' H1 Q1 hi1 hq1 hr hw
        refine ⟨σ', H', Q', ?_, hi', hq'⟩
        simp only [BMon.run]
        have : monC09.step σ l = some (next09 σ l) := by simp [monC09, hb]
        rw [this]; exact hm

/-! ### the argument at a settled state -/

/-- Everything has been enqueued (`pend = []`) and handled (`Q = []`, i.e. `mbox = []`), nothing is on its way:
    a publication whose publish returned has been taken up by every live `c` with a subscribe definitely
    before the publish such that every unsubscribe of `c` is definitely before that subscribe or definitely
    after the publish. -/
theorem c09q_core {s : BrSt} {σ : C09St} {W : List Nat} {H : List GE} (hi : C09Inv s σ W H []) (hq : QInv09 s σ H)
    (hf : s.flight = []) {P S : Op9} {c m r : Nat} (hP : P ∈ σ.ops) (hPit : P.it = .pub m)
    (hPr : P.tr = some r) (hd : c ∉ σ.dead) (hS : S ∈ σ.ops) (hSit : S.it = .sub c)
    (hSP : defBefore S P = true)
    (hU : ∀ U ∈ σ.ops, U.it = .unsub c → defBefore U S = true ∨ defBefore P U = true) :
    (c, m) ∈ σ.seq := by
  have he := hi.e
  have hst := hi.st
  simp only [List.append_nil] at he hst
  obtain ⟨j, eP, hj, hPk, hPi, _⟩ := closed_in_E hst hP hPr
  obtain ⟨rS, hrS, hltS⟩ := defBefore_iff.mp hSP
  obtain ⟨i, eS, hij, hiS, hSk, hSi⟩ := enq_order he hst hS hrS hltS hj hPk
  have hd' : c ∉ s.dead := by rw [← hq.dd]; exact hd
  have hsub : SubAt H c j := by
    refine ⟨i, eS, hij, hiS, by rw [hSi, hSit], ?_⟩
    intro j' e' hij' hj'j hj' hit'
    obtain ⟨U, hUm, hUk, hUi⟩ := he.el e' (List.mem_of_getElem? hj')
    rcases hU U hUm (by rw [hUi, hit']) with h | h
    · obtain ⟨r', hr', hlt'⟩ := defBefore_iff.mp h
      obtain ⟨i', ex, hi'i, hi', hexk, _⟩ := enq_order he hst hUm hr' hlt' hiS hSk
      have : i' = j' := key_inj he.ek hi' hj' (by rw [hexk, hUk])
      omega
    · obtain ⟨r', hr', hlt'⟩ := defBefore_iff.mp h
      obtain ⟨i', ex, hi'j', hi', hexk, _⟩ := enq_order he hst hP hr' hlt' hj' hUk.symm
      have : i' = j := key_inj he.ek hi' hj (by rw [hexk, hPk])
      omega
  rcases hq.dl j eP m c hj (by rw [hPi, hPit]) hd' hsub with h | h
  · exact h
  · rw [hf] at h; cases h

end Hannibal
