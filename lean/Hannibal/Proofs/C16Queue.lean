import Hannibal.Proofs.C05Queue
import Hannibal.Model.Sys
/-
  C16: how many copies of broadcast `b` wait in an actor's mailbox.  Only `extPush b` adds one, `extBegin b`
  takes one off the head.
-/
namespace Hannibal
open AState

def isExtP (b : Nat) : Payload → Bool
  | .ext b' => b' == b
  | _ => false

/-- copies of broadcast `b` waiting in the mailbox -/
def extCnt (b : Nat) (s : AState) : Nat := cntP (isExtP b) s

theorem step_extCnt {w : Wiring} {s s' : AState} {l : Label} (b : Nat) (hs : step w s l = some s')
    (hl : ∀ b', l ≠ .extPush b') : extCnt b s' ≤ extCnt b s := by
  have hmsg : ∀ m sl, isExtP b (.msg m sl) = false := by simp [isExtP]
  have hping : ∀ o, isExtP b (.ping o) = false := by simp [isExtP]
  unfold extCnt
  have same : s'.chan = s.chan → cntP (isExtP b) s' ≤ cntP (isExtP b) s := by
    intro h; unfold cntP; rw [h]; omega
  have dropped : s'.chan.queue = [] → cntP (isExtP b) s' ≤ cntP (isExtP b) s := by
    intro h; unfold cntP; rw [h]; simp
  cases l <;> simp only [step] at hs
  case begin o h k =>
    unfold stepBegin at hs
    cases hk0 : s.handleKind h with
    | none => simp [hk0] at hs
    | some hk =>
      simp only [hk0] at hs
      split at hs
      · simp at hs
      · split at hs
        · simp at hs; subst hs; exact same rfl
        · cases hpl : (plan w hk o k).pl with
          | none => simp only [hpl] at hs; simp at hs; subst hs; exact same (by simp)
          | some pl =>
            simp only [hpl] at hs
            split at hs
            · simp at hs; subst hs
              simp only [cntP, beginWait_chan, push_chan, Chan.enq_queue, List.countP_append, List.countP_cons,
                List.countP_nil]
              cases hp : isExtP b pl
              · simp
              · have := (plan_pl_stop hpl (isExtP b) hmsg hping hp).2
                rw [this] at hp; simp [isExtP] at hp
            · simp at hs; subst hs; exact same rfl
  case ret => exact same (stepRet_chan hs)
  case cdrop => exact same (stepCdrop_chan hs)
  case mk => exact same (stepMk_chan hs)
  case upgrade => exact same (stepUpgrade_chan hs)
  case detach => exact same (stepDetach_chan hs)
  case drop => exact same (stepDrop_chan hs)
  case stopReq h ok => have := signal_cnt (isExtP b) hs; simpa [isExtP] using this
  case restartReq h ok => have := signal_cnt (isExtP b) hs; simpa [isExtP] using this
  case query => exact same (stepQuery_chan hs)
  case cbBegin cb =>
    rcases stepCbBegin_detail hs with ⟨m, sl, tok, rest, _, hq, hc⟩ | ⟨hc, _⟩
    · unfold cntP; rw [hc]; simp only [Chan.deq]
      exact countP_tail_le _ _
    · exact same hc
  case cbEnd => exact same (stepCbEnd_chan hs)
  case cbAbandon => exact same (stepCbAbandon_chan hs)
  case cbPanic => exact same (stepCbPanic_chan hs)
  case vnew => exact same (stepVnew_chan hs)
  case work => exact same (stepWork_chan hs)
  case ctxStop ok => have := ctxSignal_cnt (isExtP b) hs; simpa [isExtP] using this
  case ctxRestart ok => have := ctxSignal_cnt (isExtP b) hs; simpa [isExtP] using this
  case ctxTimer => exact same (stepCtxTimer_chan hs)
  case ctxWeak => exact same (stepCtxWeak_chan hs)
  case fire t m =>
    unfold stepFire at hs
    (repeat' (split at hs)) <;>
      (first
        | (simp at hs; done)
        | (simp at hs; subst hs; simp [cntP, List.countP_append, List.countP_cons, isExtP]))
  case timerArm t due =>
    unfold stepTimerArm at hs
    (repeat' (split at hs)) <;>
      (first
        | (simp at hs; done)
        | (simp at hs; subst hs; simp [cntP, List.countP_append, List.countP_cons, isExtP]))
  case timerEnd => exact same (stepTimerEnd_chan hs)
  case tickBegin t m =>
    obtain ⟨tok, rest, hq, hc⟩ := stepTickBegin_detail hs
    unfold cntP; rw [hc, hq]
    simp [List.countP_cons, isExtP]
  case extPush b' => exact absurd rfl (hl b')
  case extBegin b' m =>
    unfold stepExtBegin at hs
    cases hph : s.phase <;> simp [hph] at hs
    cases hq : s.chan.queue with
    | nil => simp [hq] at hs
    | cons e rest =>
      obtain ⟨pl, tok⟩ := e
      cases pl <;> simp [hq] at hs
      obtain ⟨rfl, rfl⟩ := hs
      simp only [cntP, hq, List.countP_cons, isExtP]
      simp
  case time => exact same (stepTime_chan hs)
  case cancel => exact dropped (by rw [stepCancel_chan hs]; rfl)
  case taskPanic =>
    rcases stepTaskPanic_chan hs with h | ⟨_, h⟩ <;> exact dropped (by rw [h]; rfl)
  case streamReady => exact same (stepStreamReady_chan hs)
  case streamEnd => exact same (stepStreamEnd_chan hs)
  case taskDone => exact dropped (by rw [stepTaskDone_chan hs]; rfl)
  case quiescent =>
    simp only [stepQuiescent] at hs; split at hs <;> simp at hs; subst hs; exact same rfl
  case tDeq =>
    obtain ⟨_, hc⟩ := stepDeq_chan hs
    unfold cntP; rw [hc]; simp only [Chan.deq]
    exact countP_tail_le _ _
  case tChanEnd => exact same (stepChanEnd_chan hs)
  case tStreamEnd => exact same (stepStreamEndTau_chan hs)

/-- taking broadcast `b` up removes exactly one waiting copy (and none of another broadcast) -/
theorem stepExtBegin_extCnt {s s' : AState} {b m : Nat} (hs : stepExtBegin s b m = some s') (b' : Nat) :
    extCnt b' s = extCnt b' s' + (if b' = b then 1 else 0) := by
  unfold stepExtBegin at hs
  cases hph : s.phase <;> simp [hph] at hs
  cases hq : s.chan.queue with
  | nil => simp [hq] at hs
  | cons e rest =>
    obtain ⟨pl, tok⟩ := e
    cases pl <;> simp [hq] at hs
    obtain ⟨rfl, rfl⟩ := hs
    simp only [extCnt, cntP, hq, List.countP_cons, isExtP]
    by_cases hb : b' = b
    · subst hb; simp
    · have : (b == b') = false := by simp; exact fun e => hb e.symm
      simp [hb, this]

theorem pushOne_extCnt (s : AState) (b b' : Nat) :
    extCnt b' ((s.stepExtPush b).getD s) ≤ extCnt b' s + (if b' = b then 1 else 0) := by
  unfold stepExtPush
  split
  · simp only [Option.getD_some, extCnt, cntP, push_chan, Chan.enq_queue, List.countP_append, List.countP_cons,
      List.countP_nil, isExtP]
    by_cases hb : b' = b
    · subst hb; simp
    · have : (b == b') = false := by simp; exact fun e => hb e.symm
      simp [hb, this]
  · simp

theorem pushAll_extCnt (b b' : Nat) : ∀ (n : Nat) (s : AState),
    extCnt b' (Sys.pushAll b n s) ≤ extCnt b' s + (if b' = b then n else 0)
  | 0, s => by simp [Sys.pushAll]
  | n + 1, s => by
    simp only [Sys.pushAll]
    have h1 := pushAll_extCnt b b' n ((s.stepExtPush b).getD s)
    have h2 := pushOne_extCnt s b b'
    split at h1 <;> split at h2 <;> simp_all <;> omega

theorem dropAll_chan (hs : List Nat) (s : AState) : (Sys.dropAll hs s).chan = s.chan := by
  induction hs generalizing s with
  | nil => rfl
  | cons x xs ih =>
    simp only [Sys.dropAll, List.foldl_cons]
    have := ih ((s.stepDrop x).getD s)
    unfold Sys.dropAll at this
    rw [this]
    cases hd : s.stepDrop x with
    | none => rfl
    | some s' => simp only [Option.getD_some]; exact stepDrop_chan hd

end Hannibal
