import Hannibal.Proofs.C05Queue
/-
  C10q: how many ticks of timer `t` wait in the mailbox.  Only `timerArm t` adds one (at most), `tickBegin t`
  takes one off the head.
-/
namespace Hannibal
open AState

def isTickP (t : Nat) : Payload → Bool
  | .tick t' => t' == t
  | _ => false

/-- ticks of timer `t` waiting in the mailbox -/
def tickCnt (t : Nat) (s : AState) : Nat := cntP (isTickP t) s

def armIncr (t : Nat) : Label → Nat
  | .timerArm t' _ => if t' = t then 1 else 0
  | _ => 0

theorem step_tickCnt {w : Wiring} {s s' : AState} {l : Label} (t : Nat) (hs : step w s l = some s') :
    tickCnt t s' ≤ tickCnt t s + armIncr t l := by
  have hmsg : ∀ m sl, isTickP t (.msg m sl) = false := by simp [isTickP]
  have hping : ∀ o, isTickP t (.ping o) = false := by simp [isTickP]
  unfold tickCnt
  have same : s'.chan = s.chan → cntP (isTickP t) s' ≤ cntP (isTickP t) s + armIncr t l := by
    intro h; unfold cntP; rw [h]; omega
  have dropped : s'.chan.queue = [] → cntP (isTickP t) s' ≤ cntP (isTickP t) s + armIncr t l := by
    intro h; unfold cntP; rw [h]; simp
  cases l <;> simp only [step] at hs
  case begin o h k =>
    unfold stepBegin at hs
    cases hk0 : s.handleKind h with
    | none => simp [hk0] at hs
    | some hk =>
      simp only [hk0] at hs
      split at hs
      · simp at hs
      · split at hs
        · simp at hs; subst hs; exact same rfl
        · cases hpl : (plan w hk o k).pl with
          | none => simp only [hpl] at hs; simp at hs; subst hs; exact same (by simp)
          | some pl =>
            simp only [hpl] at hs
            split at hs
            · simp at hs; subst hs
              simp only [cntP, beginWait_chan, push_chan, Chan.enq_queue, List.countP_append, List.countP_cons,
                List.countP_nil, armIncr]
              cases hp : isTickP t pl
              · simp
              · have := (plan_pl_stop hpl (isTickP t) hmsg hping hp).2
                rw [this] at hp; simp [isTickP] at hp
            · simp at hs; subst hs; exact same rfl
  case ret => exact same (stepRet_chan hs)
  case cdrop => exact same (stepCdrop_chan hs)
  case mk => exact same (stepMk_chan hs)
  case upgrade => exact same (stepUpgrade_chan hs)
  case detach => exact same (stepDetach_chan hs)
  case drop => exact same (stepDrop_chan hs)
  case stopReq h ok => have := signal_cnt (isTickP t) hs; simpa [isTickP, armIncr] using this
  case restartReq h ok => have := signal_cnt (isTickP t) hs; simpa [isTickP, armIncr] using this
  case query => exact same (stepQuery_chan hs)
  case cbBegin cb =>
    rcases stepCbBegin_detail hs with ⟨m, sl, tok, rest, _, hq, hc⟩ | ⟨hc, _⟩
    · unfold cntP; rw [hc]; simp only [Chan.deq]
      have := countP_tail_le (fun e => isTickP t e.pl) s.chan.queue
      omega
    · exact same hc
  case cbEnd => exact same (stepCbEnd_chan hs)
  case cbAbandon => exact same (stepCbAbandon_chan hs)
  case cbPanic => exact same (stepCbPanic_chan hs)
  case vnew => exact same (stepVnew_chan hs)
  case work => exact same (stepWork_chan hs)
  case ctxStop ok => have := ctxSignal_cnt (isTickP t) hs; simpa [isTickP, armIncr] using this
  case ctxRestart ok => have := ctxSignal_cnt (isTickP t) hs; simpa [isTickP, armIncr] using this
  case ctxTimer => exact same (stepCtxTimer_chan hs)
  case ctxWeak => exact same (stepCtxWeak_chan hs)
  case fire t' m =>
    unfold stepFire at hs
    (repeat' (split at hs)) <;>
      (first
        | (simp at hs; done)
        | (simp at hs; subst hs; simp [cntP, List.countP_append, isTickP, armIncr]))
  case timerArm t' due =>
    unfold stepTimerArm at hs
    (repeat' (split at hs)) <;>
      (first
        | (simp at hs; done)
        | (simp at hs; subst hs; simp [cntP, List.countP_append, List.countP_cons, isTickP, armIncr]; done)
        | (simp at hs; subst hs
           simp only [cntP, setTimer_chan, push_chan, Chan.enq_queue, List.countP_append, List.countP_cons,
             List.countP_nil, isTickP, armIncr]
           by_cases hb : t' = t <;> simp [hb]))
  case timerEnd => exact same (stepTimerEnd_chan hs)
  case tickBegin t' m =>
    obtain ⟨tok, rest, hq, hc⟩ := stepTickBegin_detail hs
    unfold cntP; rw [hc, hq]
    simp [List.countP_cons, isTickP, armIncr]
  case extPush b' =>
    unfold stepExtPush at hs
    (repeat' (split at hs)) <;>
      (first
        | (simp at hs; done)
        | (simp at hs; subst hs; simp [cntP, List.countP_append, isTickP, armIncr]))
  case extBegin b' m =>
    obtain ⟨tok, rest, hq, hc⟩ := stepExtBegin_detail hs
    unfold cntP; rw [hc, hq]
    simp [isTickP, armIncr]
  case time => exact same (stepTime_chan hs)
  case cancel => exact dropped (by rw [stepCancel_chan hs]; rfl)
  case taskPanic =>
    rcases stepTaskPanic_chan hs with h | ⟨_, h⟩ <;> exact dropped (by rw [h]; rfl)
  case streamReady => exact same (stepStreamReady_chan hs)
  case streamEnd => exact same (stepStreamEnd_chan hs)
  case taskDone => exact dropped (by rw [stepTaskDone_chan hs]; rfl)
  case quiescent =>
    simp only [stepQuiescent] at hs; split at hs <;> simp at hs; subst hs; exact same rfl
  case tDeq =>
    obtain ⟨_, hc⟩ := stepDeq_chan hs
    unfold cntP; rw [hc]; simp only [Chan.deq]
    have := countP_tail_le (fun e => isTickP t e.pl) s.chan.queue
    omega
  case tChanEnd => exact same (stepChanEnd_chan hs)
  case tStreamEnd => exact same (stepStreamEndTau_chan hs)

/-- taking a tick of timer `t` up removes exactly one waiting tick of `t` (and none of another timer) -/
theorem stepTickBegin_tickCnt {s s' : AState} {t m : Nat} (hs : stepTickBegin s t m = some s') (t' : Nat) :
    tickCnt t' s = tickCnt t' s' + (if t' = t then 1 else 0) := by
  obtain ⟨tok, rest, hq, hc⟩ := stepTickBegin_detail hs
  simp only [tickCnt, cntP, hc, hq, List.countP_cons, isTickP]
  by_cases hb : t' = t
  · subst hb; simp
  · have : (t == t') = false := by simp; exact fun e => hb e.symm
    simp [hb, this]

end Hannibal
