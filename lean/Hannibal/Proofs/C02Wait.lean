import Hannibal.Proofs.C02Chan
import Hannibal.Proofs.C12Step
/-
  C02, "nothing hangs": a pending call / ping has its payload in the queue or is the slot of the
  invocation in progress; a pending halt / consume has its `stop` in the queue or the loop has left.
-/
set_option linter.unusedSimpArgs false
set_option linter.unusedVariables false
namespace Hannibal
open AState

def needsSlot (r : OpRec) : Bool := r.st == .pending && (r.kind.isCall || r.kind == .ping)

def needsStop (r : OpRec) : Bool :=
  (r.st == .pending && (r.kind == .halt || r.kind == .tryHalt)) || (r.st == .joining && r.kind == .consume)

/-- the loop has been left for good -/
def pastLoop : Phase → Bool
  | .leaving | .finishing | .finishedDone | .stopping | .exiting _ | .done _ => true
  | _ => false

def stopLive (s : AState) : Bool := pastLoop s.phase || s.chan.queue.any (fun e => e.pl == .stop)

set_option maxHeartbeats 1000000 in
theorem stopLive_step {w : Wiring} {s s' : AState} {l : Label} (hs : step w s l = some s')
    (h : stopLive s = true) : stopLive s' = true := by
  cases l <;> unfold_steps hs <;>
    ((repeat' (split at hs)) <;>
     (first
       | (simp at hs; done)
       | (simp at hs; subst hs; exact h)
       | (simp at hs; subst hs
          simp_all [stopLive, pastLoop, fail, finish, cancelSlots, killTimers, setTimer, addOp, removeOp,
            removeHandle, push, answer, Chan.deq, Chan.dropRx]
          done)
       | (simp at hs; subst hs
          cases hp : s.phase <;>
          simp_all [stopLive, pastLoop, fail, finish, cancelSlots, killTimers, setTimer, addOp, removeOp,
            removeHandle, push, answer, Chan.deq, Chan.dropRx, openCb, isDone, inCallback]
          done)))

/-- labels after which some live slot may be gone (its operations are then no longer pending) -/
def Label.dropsSlot : Label → Bool
  | .cbEnd _ _ | .cbAbandon _ | .cbPanic _ | .cancel | .taskDone | .taskPanic | .tDeq => true
  | _ => false

theorem mem_slotsLive_iff {s : AState} {o : Nat} :
    o ∈ s.slotsLive ↔ o ∈ s.curSlot ∨ ∃ e ∈ s.chan.queue, slotOf e.pl = some o := by
  unfold slotsLive
  simp [List.mem_append, List.mem_filterMap]

set_option maxHeartbeats 1000000 in
theorem slotsLive_keep {w : Wiring} {s s' : AState} {l : Label} (hs : step w s l = some s')
    (hl : l.dropsSlot = false) : ∀ o ∈ s.slotsLive, o ∈ s'.slotsLive := by
  cases l <;> simp [Label.dropsSlot] at hl
  case cbBegin cb =>
    simp only [step, stepCbBegin] at hs
    split at hs
    case h_3 =>
      rename_i m hph
      split at hs
      · rename_i m' slot tok rest hq
        split at hs
        · simp at hs; subst hs
          intro o ho
          rw [mem_slotsLive_iff] at ho ⊢
          simp [curSlot, hph, hq] at ho
          simp [curSlot, Chan.deq, hq]
          rcases ho with ho | ho
          · cases slot <;> simp_all [slotOf]
          · exact .inr ho
        · simp at hs
      · simp at hs
    all_goals
      ((repeat' (split at hs)) <;>
       (first
         | (simp at hs; done)
         | (simp at hs; subst hs; intro o ho
            rw [mem_slotsLive_iff] at ho ⊢
            simp_all [curSlot]
            done)))
  all_goals unfold_steps hs
  all_goals
    ((repeat' (split at hs)) <;>
     (first
       | (simp at hs; done)
       | (simp at hs; subst hs; intro o ho; exact ho)
       | (simp at hs; subst hs; intro o ho
          rw [mem_slotsLive_iff] at ho ⊢
          simp_all [curSlot, fail, finish, cancelSlots, killTimers, setTimer, addOp, removeOp,
            removeHandle, push, answer, Chan.deq, Chan.dropRx, slotOf]
          done)
       | (simp at hs; subst hs; intro o ho
          rw [mem_slotsLive_iff] at ho ⊢
          simp [curSlot, fail, finish, cancelSlots, killTimers, setTimer, addOp, removeOp,
            removeHandle, push, answer, Chan.deq, Chan.dropRx, slotOf] at ho ⊢
          rcases ho with ho | ⟨e, he, ho⟩
          · exact .inl ho
          · exact .inr (.inl ⟨e, he, ho⟩))))

/-- only a handler invocation carries a reply slot -/
def slotCb : Phase → Bool
  | .handling (.handle _) _ _ => true
  | .handling _ (some _) _ => false
  | _ => true

theorem cancel_not_pending (s : AState) (slots : List Nat) (o : Nat) (ho : o ∈ slots) :
    ∀ r' ∈ (s.cancelSlots slots).ops, r'.o = o → r'.st ≠ .pending := by
  intro r' hr' hro
  simp only [cancelSlots, List.mem_map] at hr'
  obtain ⟨r, hr, rfl⟩ := hr'
  split
  · simp
  · rename_i hc
    split at hro
    · simp at hro; subst hro; simp_all
    · subst hro; simp_all

theorem answer_not_pending (s : AState) (o m : Nat) :
    ∀ r' ∈ (s.answer (some o) m).ops, r'.o = o → r'.st ≠ .pending := by
  intro r' hr' hro
  simp only [answer, List.mem_map] at hr'
  obtain ⟨r, hr, rfl⟩ := hr'
  split
  · simp
  · rename_i hc
    split at hro
    · simp at hro; subst hro; simp_all
    · subst hro; simp_all

theorem ping_not_pending (ops : List OpRec) (o : Nat) :
    ∀ r' ∈ ops.map (pingMap o), r'.o = o → r'.st ≠ .pending := by
  intro r' hr' hro
  simp only [List.mem_map] at hr'
  obtain ⟨r, hr, rfl⟩ := hr'
  unfold pingMap at hro ⊢
  split
  · simp
  · rename_i hc
    split at hro
    · simp at hro; subst hro; simp_all
    · subst hro; simp_all

end Hannibal
