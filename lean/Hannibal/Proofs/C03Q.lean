import Hannibal.Proofs.C05Phase
import Hannibal.Proofs.Latch
/-
  C03q: a `stop` request that was put into the mailbox stays there as long as the loop can still take
  something out of it; how the loop's last phases are reached.
-/
namespace Hannibal
open AState

theorem cnt_enq_ge (P : Payload → Bool) (c : Chan) (e : Entry) :
    c.queue.countP (fun e => P e.pl) ≤ (c.enq e).queue.countP (fun e => P e.pl) := by
  simp [Chan.enq_queue, List.countP_append]

theorem sameOrEnq_cnt_ge (P : Payload → Bool) {s s' : AState} (h : SameOrEnq s.chan s'.chan) :
    cntP P s ≤ cntP P s' := by
  unfold cntP
  rcases h with h | ⟨e, _, h⟩
  · rw [h]; omega
  · rw [h]; exact cnt_enq_ge P _ _

/-- the loop takes a head entry without a callback: a `stop` request is only taken by leaving -/
theorem stepDeq_stop_keep {s s' : AState} (hs : stepDeq s = some s') (hl : loopAlive s'.phase = true) :
    cntP isStopP s ≤ cntP isStopP s' := by
  unfold stepDeq at hs
  cases hph : s.phase <;> simp [hph] at hs
  cases hq : s.chan.queue with
  | nil => simp [hq] at hs
  | cons e rest =>
    obtain ⟨pl, tok⟩ := e
    simp only [hq] at hs
    split at hs
    · simp at hs
    · cases pl <;> simp only at hs
      case ping o =>
        simp at hs; subst hs
        simp [cntP, hq, Chan.deq, List.countP_cons, isStopP]
      case stop =>
        simp at hs; subst hs
        simp [loopAlive] at hl
      case restart =>
        (repeat' (split at hs)) <;>
          (first
            | (simp at hs; done)
            | (simp at hs; subst hs; simp [cntP, hq, Chan.deq, List.countP_cons, isStopP]))
      all_goals simp at hs

/-- as long as the loop can still take something out of the mailbox, no `stop` request leaves it -/
theorem step_stop_keep {w : Wiring} {s s' : AState} {l : Label} (hs : step w s l = some s')
    (hl : loopAlive s'.phase = true) : cntP isStopP s ≤ cntP isStopP s' := by
  have same : s'.chan = s.chan → cntP isStopP s ≤ cntP isStopP s' := by
    intro h; unfold cntP; rw [h]; omega
  have term : l.terminates = true → cntP isStopP s ≤ cntP isStopP s' := by
    intro ht
    have hd := (step_isDone w hs).1 ht
    unfold isDone at hd
    cases hp : s'.phase <;> simp [hp] at hd
    simp [hp, loopAlive] at hl
  by_cases hp : l.isPlain = true
  · exact sameOrEnq_cnt_ge _ (step_plain hp hs)
  · cases l <;> simp [Label.isPlain] at hp
    case begin o h k => simp only [step] at hs; exact sameOrEnq_cnt_ge _ (stepBegin_chan hs)
    case ret => simp only [step] at hs; exact same (stepRet_chan hs)
    case cdrop => simp only [step] at hs; exact same (stepCdrop_chan hs)
    case cbBegin cb =>
      simp only [step] at hs
      rcases stepCbBegin_detail hs with ⟨m, sl, tok, rest, _, hq, hc⟩ | ⟨hc, _⟩
      · unfold cntP; rw [hc]; simp only [Chan.deq]; rw [hq]; simp [List.countP_cons, isStopP]
      · exact same hc
    case tickBegin t m =>
      simp only [step] at hs
      obtain ⟨tok, rest, hq, hc⟩ := stepTickBegin_detail hs
      unfold cntP; rw [hc, hq]; simp [List.countP_cons, isStopP]
    case extBegin b m =>
      simp only [step] at hs
      obtain ⟨tok, rest, hq, hc⟩ := stepExtBegin_detail hs
      unfold cntP; rw [hc, hq]; simp [List.countP_cons, isStopP]
    case cancel => exact term rfl
    case taskPanic => exact term rfl
    case taskDone => exact term rfl
    case tDeq => simp only [step] at hs; exact stepDeq_stop_keep hs hl

/-- an accepted stop request -/
def isStopAcc : Label → Bool
  | .stopReq _ true | .ctxStop true => true
  | _ => false

theorem stopAcc_cnt {w : Wiring} {s s' : AState} {l : Label} (hs : step w s l = some s')
    (hl : isStopAcc l = true) : 0 < cntP isStopP s' := by
  cases l <;> (try simp [isStopAcc] at hl)
  case stopReq h ok =>
    cases ok <;> simp [isStopAcc] at hl
    simp only [step, stepSignal] at hs
    (repeat' (split at hs)) <;>
      (first
        | (simp at hs; done)
        | (simp at hs; subst hs; simp [cntP, List.countP_append, isStopP]))
  case ctxStop ok =>
    cases ok <;> simp [isStopAcc] at hl
    simp only [step, stepCtxSignal] at hs
    (repeat' (split at hs)) <;>
      (first
        | (simp at hs; done)
        | (simp at hs; subst hs; simp [cntP, List.countP_append, isStopP]))

/-- the loop task failed (or is about to end as failed) -/
def failedPh : Phase → Bool
  | .exiting false | .done false => true
  | _ => false

/-- the failure events, including an abandoned handler under `fail_on_timeout` -/
def Label.fails (fot : Bool) (l : Label) : Bool :=
  l.isFailure || (match l with | .cbAbandon _ => fot | _ => false)

def Label.isCbBegin : Label → Bool
  | .cbBegin _ => true
  | _ => false

set_option maxHeartbeats 1000000 in
/-- a failed end is only reached through a failure event -/
theorem step_failed {w : Wiring} {s s' : AState} {l : Label} (hs : step w s l = some s')
    (hf : failedPh s'.phase = true) : failedPh s.phase = true ∨ l.fails s.cfg.failOnTimeout = true := by
  cases l <;> unfold_steps hs <;> simp only [Label.fails, Label.isFailure] <;>
    ((repeat' (split at hs)) <;>
     (first
       | (simp at hs; done)
       | (simp at hs; subst hs; simp_all [failedPh, fail, finish, cancelSlots, killTimers, setTimer,
            addOp, removeOp, removeHandle, push]; done)
       | (simp at hs; subst hs; unfold answer; split <;> simp_all [failedPh]; done)
       | (simp at hs; subst hs; cases hp : s.phase <;> simp_all [failedPh]; done)))

set_option maxHeartbeats 1000000 in
/-- the loop only returns gracefully out of a completed final `stopped`, and no callback begins after that -/
theorem step_exiting {w : Wiring} {s s' : AState} {l : Label} (hs : step w s l = some s')
    (hf : s'.phase = .exiting true) :
    (s.phase = .exiting true ∧ l.isCbBegin = false) ∨ l = .cbEnd .stopped true := by
  cases l <;> unfold_steps hs <;> simp only [Label.isCbBegin] <;>
    ((repeat' (split at hs)) <;>
     (first
       | (simp at hs; done)
       | (simp at hs; subst hs; simp_all [fail, finish, cancelSlots, killTimers, setTimer,
            addOp, removeOp, removeHandle, push]; done)
       | (simp at hs; subst hs; unfold answer at hf; split at hf <;> simp_all; done)
       | (simp at hs; subst hs; cases hp : s.phase <;> simp_all; done)))

set_option maxHeartbeats 1000000 in
/-- the task only ends gracefully at `taskDone` after a graceful return of the loop -/
theorem step_doneTrue {w : Wiring} {s s' : AState} {l : Label} (hs : step w s l = some s')
    (hf : s'.phase = .done true) :
    (s.phase = .done true ∧ l ≠ .taskDone) ∨ (l = .taskDone ∧ s.phase = .exiting true) := by
  cases l <;> unfold_steps hs <;>
    ((repeat' (split at hs)) <;>
     (first
       | (simp at hs; done)
       | (simp at hs; subst hs; simp_all [fail, finish, cancelSlots, killTimers, setTimer,
            addOp, removeOp, removeHandle, push]; done)
       | (simp at hs; subst hs; unfold answer at hf; split at hf <;> simp_all; done)
       | (simp at hs; subst hs; cases hp : s.phase <;> simp_all; done)))

/-- a step into a phase of a live loop starts in a phase of a live loop -/
theorem loopAlive_back {w : Wiring} {s s' : AState} {l : Label} (hs : step w s l = some s')
    (hl : loopAlive s'.phase = true) : loopAlive s.phase = true := by
  by_cases he : l.isExit = true
  · cases l <;> simp [Label.isExit] at he <;> simp only [step] at hs
    case tDeq => rw [(stepDeq_spec hs).1]; rfl
    case tChanEnd => rw [(stepChanEnd_spec hs).1]; rfl
    case tStreamEnd => rw [(stepStreamEndTau_spec hs).1]; rfl
  · exact ((step_phase_facts hs (by simpa using he)).1 hl).1

end Hannibal
