import Hannibal.Model.Actor
/-
  Guarded runs (the acceptor's notion of a run: nothing happens to an actor between its loop's return and
  the end of its task, nor between `stopped` and `started` of a restart) are runs.  Hence every theorem
  about all runs holds of all guarded runs.
-/
namespace Hannibal

theorem gstep_step {w : Wiring} {s s' : AState} {l : Label} (h : gstep w s l = some s') : step w s l = some s' := by
  unfold gstep at h
  split at h
  · exact h
  · simp at h

theorem gstep_allows {w : Wiring} {s s' : AState} {l : Label} (h : gstep w s l = some s') :
    s.phase.allows l = true := by
  unfold gstep at h
  split at h
  · assumption
  · simp at h

theorem grun_run {w : Wiring} : ∀ (ls : List Label) (s s' : AState), grun w s ls = some s' → run w s ls = some s'
  | [], s, s', h => by simpa [grun, run] using h
  | l :: ls, s, s', h => by
    simp only [grun] at h
    cases hg : gstep w s l with
    | none => simp [hg] at h
    | some s1 =>
      simp only [hg] at h
      simp only [run, gstep_step hg]
      exact grun_run ls s1 s' h

end Hannibal
