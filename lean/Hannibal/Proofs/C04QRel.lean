import Hannibal.Monitor.C01
import Hannibal.Proofs.C04QMon
import Hannibal.Proofs.C04QQueue
/-
  Consequences of `TRel` (while the loop is still taking messages) in the form the coupling invariant of
  C04 (drain barrier) uses them, and the membership / monotonicity facts of the monitor's update.
-/
namespace Hannibal
open AState

/-- the label puts the (new) user message `m` ahead of every stop request (`st`: one is waiting already) -/
def NewMsg (l : Label) (m : Nat) (st : Bool) : Prop :=
  (∃ o h k, l = .begin o h k ∧ k.msg? = some m ∧ st = false) ∨ (∃ t, l = .fire t (some m)) ∨
    (∃ t, l = .tickBegin t m) ∨ (∃ b, l = .extBegin b m)

theorem newMsg_fresh {g : Wf01St} {l : Label} {m : Nat} {st : Bool} (hg : wfBad g l = false)
    (h : NewMsg l m st) : m ∉ g.seenM := by
  rcases h with ⟨o, h, k, rfl, hk, _⟩ | ⟨t, rfl⟩ | ⟨t, rfl⟩ | ⟨b, rfl⟩
  · simp only [wfBad, Bool.or_eq_false_iff, hk] at hg; simpa using hg.2
  · simpa [wfBad] using hg
  · simpa [wfBad] using hg
  · simpa [wfBad] using hg

theorem trel_mem {l : Label} {q q' : List Entry} (ht : TRel l q q' true) :
    ∀ m ∈ ahead q', m ∈ ahead q ∨ NewMsg l m (hasStop q) := by
  intro m hm
  cases l
  case cbBegin cb =>
    cases cb <;> simp only [TRel] at ht
    case handle m0 => rw [ht.1]; exact .inl (List.mem_cons_of_mem _ hm)
    all_goals (rw [ht.1] at hm; exact .inl hm)
  case begin o h k =>
    simp only [TRel] at ht
    rcases ht with ⟨h1, _⟩ | ⟨m0, hk, _, h1⟩ | ⟨_, _, h1⟩
    · rw [h1] at hm; exact .inl hm
    · rw [h1] at hm
      cases hst : hasStop q
      · simp [hst] at hm
        rcases hm with hm | rfl
        · exact .inl hm
        · exact .inr (.inl ⟨o, h, k, rfl, hk, rfl⟩)
      · simp [hst] at hm; exact .inl hm
    · rw [h1] at hm; exact .inl hm
  case fire t mo =>
    simp only [TRel] at ht
    rcases ht with ⟨h1, _⟩ | ⟨m0, rfl, _, h1⟩
    · rw [h1] at hm; exact .inl hm
    · rw [h1] at hm
      cases hst : hasStop q
      · simp [hst] at hm
        rcases hm with hm | rfl
        · exact .inl hm
        · exact .inr (.inr (.inl ⟨t, rfl⟩))
      · simp [hst] at hm; exact .inl hm
  case tickBegin t m0 =>
    simp only [TRel] at ht
    rw [ht.1] at hm
    rcases List.mem_cons.mp hm with rfl | hm
    · exact .inr (.inr (.inr (.inl ⟨t, rfl⟩)))
    · exact .inl hm
  case extBegin b m0 =>
    simp only [TRel] at ht
    rw [ht.1] at hm
    rcases List.mem_cons.mp hm with rfl | hm
    · exact .inr (.inr (.inr (.inr ⟨b, rfl⟩)))
    · exact .inl hm
  case tDeq =>
    simp only [TRel] at ht
    rcases ht with ⟨h1, _⟩ | ⟨h1, _⟩
    · rw [h1] at hm; exact .inl hm
    · simp at h1
  case tChanEnd => simp only [TRel] at ht; rw [ht.1] at hm; exact .inl hm
  case cancel => simp [TRel] at ht
  case taskDone => simp [TRel] at ht
  case taskPanic => simp [TRel] at ht
  all_goals (simp only [TRel] at ht; rw [ht.1] at hm; exact .inl hm)

theorem trel_keep {l : Label} {q q' : List Entry} (ht : TRel l q q' true) :
    ∀ m ∈ ahead q, m ∈ ahead q' ∨ l = .cbBegin (.handle m) := by
  intro m hm
  cases l
  case cbBegin cb =>
    cases cb <;> simp only [TRel] at ht
    case handle m0 =>
      rw [ht.1] at hm
      rcases List.mem_cons.mp hm with rfl | hm
      · exact .inr rfl
      · exact .inl hm
    all_goals (rw [ht.1]; exact .inl hm)
  case begin o h k =>
    simp only [TRel] at ht
    rcases ht with ⟨h1, _⟩ | ⟨m0, hk, _, h1⟩ | ⟨_, _, h1⟩
    · rw [h1]; exact .inl hm
    · rw [h1]; cases hasStop q <;> simp [hm]
    · rw [h1]; exact .inl hm
  case fire t mo =>
    simp only [TRel] at ht
    rcases ht with ⟨h1, _⟩ | ⟨m0, rfl, _, h1⟩
    · rw [h1]; exact .inl hm
    · rw [h1]; cases hasStop q <;> simp [hm]
  case tickBegin t m0 => simp only [TRel] at ht; rw [ht.1]; exact .inl (List.mem_cons_of_mem _ hm)
  case extBegin b m0 => simp only [TRel] at ht; rw [ht.1]; exact .inl (List.mem_cons_of_mem _ hm)
  case tDeq =>
    simp only [TRel] at ht
    rcases ht with ⟨h1, _⟩ | ⟨h1, _⟩
    · rw [h1]; exact .inl hm
    · simp at h1
  case tChanEnd => simp only [TRel] at ht; rw [ht.1]; exact .inl hm
  case cancel => simp [TRel] at ht
  case taskDone => simp [TRel] at ht
  case taskPanic => simp [TRel] at ht
  all_goals (simp only [TRel] at ht; rw [ht.1]; exact .inl hm)

theorem trel_stop_mono {l : Label} {q q' : List Entry} (ht : TRel l q q' true) (h : hasStop q = true) :
    hasStop q' = true := by
  cases l
  case cbBegin cb => cases cb <;> simp only [TRel] at ht <;> (rw [ht.2]; exact h)
  case begin o h0 k =>
    simp only [TRel] at ht
    rcases ht with ⟨_, h1⟩ | ⟨m0, _, h1, _⟩ | ⟨_, h1, _⟩
    · rw [h1]; exact h
    · rw [h1]; exact h
    · exact h1
  case fire t mo =>
    simp only [TRel] at ht
    rcases ht with ⟨_, h1⟩ | ⟨m0, _, h1, _⟩ <;> (rw [h1]; exact h)
  case stopReq h0 ok => simp only [TRel] at ht; rw [ht.2, h]; rfl
  case ctxStop ok => simp only [TRel] at ht; rw [ht.2, h]; rfl
  case tDeq =>
    simp only [TRel] at ht
    rcases ht with ⟨_, h1, _⟩ | ⟨h1, _⟩
    · rw [h1]; exact h
    · simp at h1
  case tChanEnd => simp only [TRel] at ht; rw [ht.1]; exact h
  case cancel => simp [TRel] at ht
  case taskDone => simp [TRel] at ht
  case taskPanic => simp [TRel] at ht
  all_goals (simp only [TRel] at ht; rw [ht.2]; exact h)

theorem trel_stop_new {l : Label} {q q' : List Entry} (ht : TRel l q q' true) (h : hasStop q' = true) :
    hasStop q = true ∨ issuedNext false l = true := by
  cases l
  case cbBegin cb => cases cb <;> simp only [TRel] at ht <;> (rw [ht.2] at h; exact .inl h)
  case begin o h' k =>
    simp only [TRel] at ht
    rcases ht with ⟨_, h1⟩ | ⟨m0, _, h1, _⟩ | ⟨h1, _, _⟩
    · rw [h1] at h; exact .inl h
    · rw [h1] at h; exact .inl h
    · exact .inr (by simp [issuedNext, h1])
  case fire t mo =>
    simp only [TRel] at ht
    rcases ht with ⟨_, h1⟩ | ⟨m0, _, h1, _⟩ <;> (rw [h1] at h; exact .inl h)
  case stopReq => exact .inr rfl
  case ctxStop => exact .inr rfl
  case tDeq =>
    simp only [TRel] at ht
    rcases ht with ⟨_, h1, _⟩ | ⟨h1, _⟩
    · rw [h1] at h; exact .inl h
    · simp at h1
  case tChanEnd => simp only [TRel] at ht; rw [ht.1] at h; exact .inl h
  case cancel => simp [TRel] at ht
  case taskDone => simp [TRel] at ht
  case taskPanic => simp [TRel] at ht
  all_goals (simp only [TRel] at ht; rw [ht.2] at h; exact .inl h)

theorem ahead_of_no_stop {q : List Entry} (h : hasStop q = false) :
    ahead q = q.filterMap (fun e => msgNo e.pl) := by
  induction q with
  | nil => rfl
  | cons x xs ih =>
    rw [hasStop_cons] at h
    simp only [Bool.or_eq_false_iff] at h
    rw [ahead_cons, ih h.2, List.filterMap_cons]
    simp only [h.1, Bool.false_eq_true, if_false, msgL]
    cases msgNo x.pl <;> simp

/-! ### the monitor's update -/

theorem issuedNext_or (b : Bool) (l : Label) : issuedNext b l = (b || issuedNext false l) := by
  cases l <;> simp [issuedNext]

theorem issuedNext_mono {b : Bool} (l : Label) (h : b = true) : issuedNext b l = true := by
  rw [issuedNext_or, h]; rfl

theorem acceptedNext_mono {σ : C04qSt} (l : Label) (h : σ.stopAccepted = true) : acceptedNext σ l = true := by
  cases l <;> simp only [acceptedNext, h, Bool.true_or]
  split <;> rfl

theorem acceptedNext_cases {σ : C04qSt} {l : Label} (h : acceptedNext σ l = true) :
    σ.stopAccepted = true ∨ (∃ h, l = .stopReq h true) ∨ l = .ctxStop true ∨
      (∃ o k, l = .ret o .ok ∧ lookup o σ.ops = some k ∧ haltKind k = true) := by
  cases l <;> simp only [acceptedNext] at h <;> try exact .inl h
  case stopReq h' ok =>
    simp only [Bool.or_eq_true] at h
    rcases h with h | rfl
    · exact .inl h
    · exact .inr (.inl ⟨h', rfl⟩)
  case ctxStop ok =>
    simp only [Bool.or_eq_true] at h
    rcases h with h | rfl
    · exact .inl h
    · exact .inr (.inr (.inl rfl))
  case ret o r =>
    cases hl : lookup o σ.ops with
    | none => simp only [hl] at h; exact .inl h
    | some k =>
      simp only [hl, Bool.or_eq_true, Bool.and_eq_true, beq_iff_eq] at h
      rcases h with h | ⟨hk, rfl⟩
      · exact .inl h
      · exact .inr (.inr (.inr ⟨o, k, rfl, hl, hk⟩))

theorem lateNext_cases {σ : C04qSt} {l : Label} {m : Nat} (h : m ∈ lateNext σ l) :
    m ∈ σ.late ∨ (∃ o h k, l = .begin o h k ∧ k.msg? = some m ∧ σ.stopAccepted = true) := by
  cases l <;> simp only [lateNext] at h <;> try exact .inl h
  case begin o h' k =>
    cases hk : k.msg? with
    | none => simp only [hk] at h; exact .inl h
    | some m0 =>
      simp only [hk] at h
      by_cases hsa : σ.stopAccepted = true
      · rw [if_pos hsa] at h
        rcases List.mem_cons.mp h with rfl | h
        · exact .inr ⟨o, h', k, rfl, hk, hsa⟩
        · exact .inl h
      · rw [if_neg hsa] at h; exact .inl h

theorem lateNext_mono {σ : C04qSt} (l : Label) {m : Nat} (h : m ∈ σ.late) : m ∈ lateNext σ l := by
  cases l <;> simp only [lateNext] <;> try exact h
  split
  · split
    · exact List.mem_cons_of_mem _ h
    · exact h
  · exact h

theorem sentOkNext_cases {σ : C04qSt} {l : Label} {m : Nat} (h : m ∈ sentOkNext σ l) :
    m ∈ σ.sentOk ∨ (∃ o k, l = .ret o .ok ∧ lookup o σ.ops = some k ∧ sendMsg? k = some m ∧
      σ.stopIssued = false) := by
  cases l <;> simp only [sentOkNext] at h <;> try exact .inl h
  case ret o r =>
    cases hl : lookup o σ.ops with
    | none => simp [hl] at h; exact .inl h
    | some k =>
      cases hk : sendMsg? k with
      | none => simp [hl, hk] at h; exact .inl h
      | some m0 =>
        simp only [hl, hk, Option.bind_some] at h
        by_cases hc : (r == .ok && !σ.stopIssued) = true
        · rw [if_pos hc] at h
          simp only [Bool.and_eq_true, beq_iff_eq, Bool.not_eq_true'] at hc
          obtain ⟨rfl, hsi⟩ := hc
          rcases List.mem_cons.mp h with rfl | h
          · exact .inr ⟨o, k, rfl, hl, hk, hsi⟩
          · exact .inl h
        · rw [if_neg hc] at h; exact .inl h

/-- the run cannot be blamed any more: the actor failed, or it is a stream actor whose stream ended -/
def off (c : MonCtx) (σ : C04qSt) : Bool := σ.failure || (c.cfg.stream && σ.streamEnded)

theorem off_mono {c : MonCtx} {σ : C04qSt} (l : Label) (h : off c σ = true) : off c (next04q c σ l) = true := by
  unfold off at *
  simp only [next04q, failureNext, Bool.or_eq_true, Bool.and_eq_true] at h ⊢
  rcases h with h | ⟨h1, h2⟩
  · left; split <;> simp [h]
  · right
    refine ⟨h1, ?_⟩
    cases l <;> simp [streamEndedNext, h2]

theorem off_of_failure {c : MonCtx} {σ : C04qSt} (h : σ.failure = true) : off c σ = true := by
  simp [off, h]

theorem guard_not_off {c : MonCtx} {σ : C04qSt} (h : guard04q c σ = true) :
    σ.stopAccepted = true ∧ off c σ = false := by
  unfold guard04q at h
  unfold off
  simp only [Bool.and_eq_true, Bool.not_eq_true'] at h
  simp [h.1.1, h.1.2, h.2]

end Hannibal
