import Hannibal.Props.C05
import Hannibal.Proofs.C05QLite
import Hannibal.Proofs.C05QPhase
/-
  C05 (2), support 3: the coupling between the actor model and the state of `monC05q`, with the states of
  `monC05` and `monC02` as ghosts, and its preservation, component by component.
-/
set_option linter.unusedSimpArgs false
set_option linter.unusedVariables false
namespace Hannibal
open AState

/-- the monitor has seen a reason other than "no strong holder left" for the actor to end -/
def excused (c : MonCtx) (σ : C05qSt) : Bool :=
  σ.stopIssued || σ.failure || (c.cfg.stream && σ.streamEnded)

theorem excused_next {c : MonCtx} {σ : C05qSt} {l : Label} (h : excused c (next05q c σ l) = false) :
    excused c σ = false := by
  cases h1 : σ.stopIssued <;> cases h2 : σ.failure <;> cases h3 : σ.streamEnded <;> cases h4 : c.cfg.stream <;>
    simp_all [excused, next05q]

theorem handled_next {c : MonCtx} {σ : C05qSt} {l : Label} {m : Nat} (h : m ∈ σ.handled) :
    m ∈ (next05q c σ l).handled := by
  cases l <;> try exact h
  rename_i cb
  cases cb <;> try exact h
  exact List.mem_cons_of_mem _ h

theorem handled_begin (c : MonCtx) (σ : C05qSt) (m : Nat) : m ∈ (next05q c σ (.cbBegin (.handle m))).handled := by
  simp [next05q]

theorem mem_sentOk_next {c : MonCtx} {σ : C05qSt} {l : Label} {m : Nat} (h : m ∈ (next05q c σ l).sentOk) :
    m ∈ σ.sentOk ∨ ∃ o, l = .ret o .ok ∧ lookup o σ.sends = some m := by
  cases l <;> try exact .inl h
  rename_i o r
  cases r <;> try exact .inl h
  simp only [next05q] at h
  cases hl : lookup o σ.sends with
  | none => simp only [hl] at h; exact .inl h
  | some m' =>
    simp only [hl] at h
    rcases List.mem_cons.mp h with rfl | h
    · exact .inr ⟨o, rfl, hl⟩
    · exact .inl h

structure C05qInv (w : Wiring) (c : MonCtx) (s : AState) (σ : C05qSt) (σ5 : C05St) (σ2 : C02St) : Prop where
  i5 : C05Inv w c s σ5
  i2 : Lite02 s σ2
  hold : σ.hold = σ5.hold
  stop : σ.stopIssued = σ5.stopIssued
  strm : σ.streamEnded = σ5.streamEnded
  term : σ.terminated = σ2.terminated
  grace : σ.graceful = σ2.graceful
  /-- the send table of `monC05q` is part of the operation table of `monC02` -/
  sends : ∀ o m, lookup o σ.sends = some m →
    ∃ k late, lookup o σ2.ops = some (k, late) ∧ (k = .send m ∨ k = .trySend m ∨ k = .tryForce m)
  failPh : failPhase s.phase = true → σ.failure = true
  /-- while the loop runs: an acknowledged message has been handled or waits in the mailbox -/
  acked : excused c σ = false → pastLoop s.phase = false → ∀ m ∈ σ.sentOk, m ∈ σ.handled ∨ inQ s m
  /-- ... and so does the message of a send that is still in flight -/
  pend : excused c σ = false → pastLoop s.phase = false → ∀ r ∈ s.ops, r.st = .pending →
    ∀ m, (r.kind = .send m ∨ r.kind = .trySend m ∨ r.kind = .tryForce m) → m ∈ σ.handled ∨ inQ s m
  /-- once the loop has left for no other reason than that no sender is left: nobody can submit any more,
      and everything acknowledged has been handled -/
  past : excused c σ = false → pastLoop s.phase = true → Dead05 s ∧ ∀ m ∈ σ.sentOk, m ∈ σ.handled

theorem c05q_init (w : Wiring) (c : MonCtx) :
    C05qInv w c (AState.init c.cfg c.h0 c.k0) (monC05q c).init (monC05 c).init C02St.init := by
  refine ⟨c05_init w c, lite02_init c, rfl, rfl, rfl, rfl, rfl, ?_, ?_, ?_, ?_, ?_⟩
  · intro o m h; simp [monC05q, lookup] at h
  · intro h; simp [AState.init, failPhase] at h
  · intro _ _ m hm; simp [monC05q] at hm
  · intro _ _ r hr; simp [AState.init] at hr
  · intro _ h; simp [AState.init, pastLoop] at h

/-- an `Ok` returned to an operation the monitor has in its send table: a pending send of that message -/
theorem ret_ok_send {w : Wiring} {c : MonCtx} {s s' : AState} {σ : C05qSt} {σ5 : C05St} {σ2 : C02St}
    (hi : C05qInv w c s σ σ5 σ2) {o m : Nat} (hs : stepRet s o .ok = some s')
    (hl : lookup o σ.sends = some m) :
    ∃ rec ∈ s.ops, rec.st = .pending ∧ (rec.kind = .send m ∨ rec.kind = .trySend m ∨ rec.kind = .tryForce m) := by
  obtain ⟨rec, hfind, hexp, _, hro⟩ := stepRet_ops hs
  obtain ⟨hr, _⟩ := findOp_some_mem hfind
  obtain ⟨late, h1, _, _, _⟩ := opOk_parts (hi.i2.ops rec hr)
  obtain ⟨k, late', h2, hk⟩ := hi.sends o m hl
  rw [hro, h2] at h1
  simp at h1
  obtain ⟨rfl, _⟩ := h1
  refine ⟨rec, hr, ?_, hk⟩
  unfold retExpect at hexp
  cases hst : rec.st <;> simp only [hst] at hexp
  case pending => rfl
  all_goals (rcases hk with hk | hk | hk <;> simp [hk] at hexp)

theorem sends_step {σ : C05qSt} {σ2 : C02St} {l : Label} (c : MonCtx) (hf : freshFor σ2 l)
    (h : ∀ o m, lookup o σ.sends = some m →
      ∃ k late, lookup o σ2.ops = some (k, late) ∧ (k = .send m ∨ k = .trySend m ∨ k = .tryForce m)) :
    ∀ o m, lookup o (next05q c σ l).sends = some m →
      ∃ k late, lookup o (next02 σ2 l).ops = some (k, late) ∧ (k = .send m ∨ k = .trySend m ∨ k = .tryForce m) := by
  intro o m hl
  cases l
  case begin o' h' k =>
    simp only [freshFor] at hf
    simp only [next02_ops]
    cases k
    case send m' =>
      simp only [next05q] at hl
      by_cases he : o' = o
      · subst he
        rw [lookup_cons_eq] at hl ⊢
        simp at hl; subst hl
        exact ⟨_, _, rfl, .inl rfl⟩
      · rw [lookup_cons_ne he] at hl ⊢
        exact h o m hl
    case trySend m' =>
      simp only [next05q] at hl
      by_cases he : o' = o
      · subst he
        rw [lookup_cons_eq] at hl ⊢
        simp at hl; subst hl
        exact ⟨_, _, rfl, .inr (.inl rfl)⟩
      · rw [lookup_cons_ne he] at hl ⊢
        exact h o m hl
    case tryForce m' =>
      simp only [next05q] at hl
      by_cases he : o' = o
      · subst he
        rw [lookup_cons_eq] at hl ⊢
        simp at hl; subst hl
        exact ⟨_, _, rfl, .inr (.inr rfl)⟩
      · rw [lookup_cons_ne he] at hl ⊢
        exact h o m hl
    all_goals
      (have hl' : lookup o σ.sends = some m := hl
       obtain ⟨k', late, h1, h2⟩ := h o m hl'
       have he : o' ≠ o := by intro he; subst he; rw [hf] at h1; cases h1
       rw [lookup_cons_ne he]
       exact ⟨k', late, h1, h2⟩)
  all_goals
    (have hl' : lookup o σ.sends = some m := hl
     simp only [next02_ops]
     exact h o m hl')

/-- a handled or waiting message stays handled or waiting as long as the loop runs -/
theorem keep_msg {w : Wiring} {c : MonCtx} {s s' : AState} {l : Label} {σ : C05qSt} {m : Nat}
    (hs : step w s l = some s') (hp' : pastLoop s'.phase = false) (h : m ∈ σ.handled ∨ inQ s m) :
    m ∈ (next05q c σ l).handled ∨ inQ s' m := by
  rcases h with h | h
  · exact .inl (handled_next h)
  · rcases inQ_step hs h with h | rfl | ht
    · exact .inr h
    · exact .inl (handled_begin c σ m)
    · have hd := (step_isDone w hs).1 ht
      unfold isDone at hd
      cases hp : s'.phase <;> simp [hp] at hd
      simp [hp, pastLoop] at hp'

theorem failPh_step {w : Wiring} {c : MonCtx} {s s' : AState} {σ : C05qSt} {l : Label}
    (hcfg : s.cfg = c.cfg) (hs : step w s l = some s') (hi : failPhase s.phase = true → σ.failure = true) :
    failPhase s'.phase = true → (next05q c σ l).failure = true := by
  intro h
  rcases failPhase_step hs h with h | h | ⟨h1, h2⟩
  · simp [next05q, hi h]
  · simp [next05q, h]
  · rw [hcfg] at h2
    cases l <;> simp at h1
    simp [next05q, h2]

theorem acked_step {w : Wiring} {c : MonCtx} {s s' : AState} {σ : C05qSt} {σ5 : C05St} {σ2 : C02St} {l : Label}
    (hi : C05qInv w c s σ σ5 σ2) (hs : step w s l = some s')
    (he' : excused c (next05q c σ l) = false) (hp' : pastLoop s'.phase = false) :
    ∀ m ∈ (next05q c σ l).sentOk, m ∈ (next05q c σ l).handled ∨ inQ s' m := by
  have he := excused_next he'
  have hp : pastLoop s.phase = false := by
    cases h : pastLoop s.phase
    · rfl
    · rw [pastLoop_step hs h] at hp'; cases hp'
  intro m hm
  rcases mem_sentOk_next hm with hm | ⟨o, rfl, hl⟩
  · exact keep_msg hs hp' (hi.acked he hp m hm)
  · have hs' := hs
    simp only [step] at hs'
    obtain ⟨rec, hr, hst, hk⟩ := ret_ok_send hi hs' hl
    exact keep_msg hs hp' (hi.pend he hp rec hr hst m hk)

theorem pend_step {w : Wiring} {c : MonCtx} {s s' : AState} {σ : C05qSt} {σ5 : C05St} {σ2 : C02St} {l : Label}
    (hi : C05qInv w c s σ σ5 σ2) (hs : step w s l = some s')
    (he' : excused c (next05q c σ l) = false) (hp' : pastLoop s'.phase = false) :
    ∀ r ∈ s'.ops, r.st = .pending → ∀ m, (r.kind = .send m ∨ r.kind = .trySend m ∨ r.kind = .tryForce m) →
      m ∈ (next05q c σ l).handled ∨ inQ s' m := by
  have he := excused_next he'
  have hp : pastLoop s.phase = false := by
    cases h : pastLoop s.phase
    · rfl
    · rw [pastLoop_step hs h] at hp'; cases hp'
  have old : ∀ r ∈ s.ops, r.st = .pending → ∀ m, (r.kind = .send m ∨ r.kind = .trySend m ∨ r.kind = .tryForce m) →
      m ∈ (next05q c σ l).handled ∨ inQ s' m :=
    fun r hr hst m hk => keep_msg hs hp' (hi.pend he hp r hr hst m hk)
  by_cases hedge : l.isOpEdge = true
  · cases l <;> simp [Label.isOpEdge] at hedge
    case begin o h k =>
      have hs' := hs
      simp only [step] at hs'
      obtain ⟨_, _, st, hops, hout⟩ := stepBegin_spec02 hs'
      intro r hr hst m hk
      rw [hops] at hr
      rcases List.mem_append.mp hr with hr | hr
      · exact old r hr hst m hk
      · simp at hr; subst hr
        simp only at hst hk
        cases hout with
        | refused e hst' _ _ => rw [hst] at hst'; cases hst'
        | wait hpl _ _ => rcases hk with hk | hk | hk <;> (subst hk; simp [planPl] at hpl)
        | sent pl tok hpl _ hc _ =>
          have : pl = .msg m none := by
            rcases hk with hk | hk | hk <;> (subst hk; simp [planPl] at hpl; exact hpl.symm)
          subst this
          exact .inr (inQ_new hc)
    case ret o res =>
      have hs' := hs
      simp only [step] at hs'
      obtain ⟨_, _, _, hops, _⟩ := stepRet_ops hs'
      intro r hr hst m hk
      rw [hops] at hr
      exact old r (List.mem_filter.mp hr).1 hst m hk
    case cdrop o =>
      have hs' := hs
      simp only [step] at hs'
      have hops := stepCdrop_ops hs'
      intro r hr hst m hk
      rw [hops] at hr
      exact old r (List.mem_filter.mp hr).1 hst m hk
  · have hedge' : l.isOpEdge = false := by simpa using hedge
    obtain ⟨f, hf, pf⟩ := step_ops hs hedge'
    intro r' hr' hst m hk
    rw [hf] at hr'
    obtain ⟨r, hr, rfl⟩ := List.mem_map.mp hr'
    rw [pf.kind] at hk
    exact old r hr (pf.st r hst) m hk

theorem past_step {w : Wiring} (hw : WellWired05 w) {c : MonCtx} {s s' : AState} {σ : C05qSt} {σ5 : C05St}
    {σ2 : C02St} {l : Label} (hi : C05qInv w c s σ σ5 σ2) (hs : step w s l = some s')
    (hfail' : failPhase s'.phase = true → (next05q c σ l).failure = true)
    (he' : excused c (next05q c σ l) = false) (hp' : pastLoop s'.phase = true) :
    Dead05 s' ∧ ∀ m ∈ (next05q c σ l).sentOk, m ∈ (next05q c σ l).handled := by
  have he := excused_next he'
  cases hp : pastLoop s.phase
  · -- the loop is being left by this very step
    by_cases hex : l.isExit = true
    · cases l <;> simp [Label.isExit] at hex
      case tDeq =>
        exfalso
        simp only [step] at hs
        obtain ⟨hph, e, rest, hq, _, _, _, hcase⟩ := stepDeq_spec hs
        rcases hcase with ⟨hpl, _⟩ | ⟨_, hp2⟩ | hp2
        · have := hi.i5.stopq (by unfold cntP; rw [hq]; simp [List.countP_cons, hpl, isStopP])
          rw [← hi.stop] at this
          simp [excused, this] at he
        · simp [hp2, pastLoop] at hp'
        · simp [hp2, pastLoop] at hp'
      case tChanEnd =>
        have hd' : Dead05 s → Dead05 s' := fun hd => dead_step hw hd hs
        simp only [step] at hs
        have hqe := stepChanEnd_empty hs
        obtain ⟨_, hna, _⟩ := stepChanEnd_spec hs
        refine ⟨hd' (dead_of_not_alive hw hna), ?_⟩
        intro m hm
        have hm' : m ∈ σ.sentOk := hm
        rcases hi.acked he hp m hm' with h | ⟨e, he, _⟩
        · exact h
        · rw [hqe] at he; cases he
      case tStreamEnd =>
        exfalso
        simp only [step] at hs
        obtain ⟨_, h1, h2, _⟩ := stepStreamEndTau_spec hs
        rw [hi.i5.cfg] at h1
        have h3 : σ.streamEnded = true := by rw [hi.strm, hi.i5.strm, h2]
        simp [excused, h1, h3] at he
    · exfalso
      have hex' : l.isExit = false := by simpa using hex
      have := hfail' (enter_pastLoop hs hex' hp hp')
      simp [excused, this] at he'
  · obtain ⟨hd, hsub⟩ := hi.past he hp
    refine ⟨dead_step hw hd hs, ?_⟩
    intro m hm
    rcases mem_sentOk_next hm with hm | ⟨o, rfl, hl⟩
    · exact handled_next (hsub m hm)
    · exfalso
      simp only [step] at hs
      obtain ⟨rec, hr, hst, hk⟩ := ret_ok_send hi hs hl
      have hwk : isWaitOp rec.kind = true ∨ holderKind rec.kind = true := by
        rcases hk with hk | hk | hk <;> simp [hk, isWaitOp, holderKind]
      rcases hwk with hwk | hwk
      · obtain ⟨e, he⟩ := (hd.no rec hr).2 hwk
        rw [hst] at he; cases he
      · have he := (hd.no rec hr).1 hwk
        rw [hst] at he; cases he

end Hannibal
