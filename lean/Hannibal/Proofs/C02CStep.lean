import Hannibal.Proofs.C02Ops
import Hannibal.Proofs.C11CQueue
/-
  Model facts behind C02c: how a step other than `begin` / `ret` / `cdrop` changes the operation table,
  fine enough to see that a waiting or running message's caller is never cancelled while the message
  stays waiting / running; what the normal end of a handler invocation does; that only handler
  invocations carry a reply slot; that a submission that went through leaves a non-failed record.
-/
set_option linter.unusedSimpArgs false
set_option linter.unusedVariables false
namespace Hannibal
open AState

/-- the statuses in which a call operation returns an error -/
def errSt02c : OpSt → Bool
  | .cancelled | .failed _ => true
  | _ => false

/-- the statuses that are final and in which a call operation does not return an error -/
def okSt02c : OpSt → Bool
  | .pending | .cancelled | .failed _ => false
  | _ => true

theorem okSt02c_not_pending {st : OpSt} (h : okSt02c st = true) : st ≠ .pending := by
  intro he; subst he; simp [okSt02c] at h

/-- how a step other than `begin` / `ret` / `cdrop` transforms the op table -/
inductive OpsCh02c (s s' : AState) : Prop where
  | same (h : s'.ops = s.ops)
  /-- the open callback is abandoned or panics: only its own reply slot is cancelled, the mailbox stays -/
  | cancelCur (slots : List Nat) (hsub : ∀ o ∈ slots, o ∈ s.curSlot) (h : s'.ops = (s.cancelSlots slots).ops)
      (hc : s'.chan = s.chan) (hp : ∀ cb sl dl, s'.phase ≠ .handling cb sl dl)
  /-- the loop is gone: the mailbox is dropped -/
  | gone (hq : s'.chan.queue = []) (hp : ∀ cb sl dl, s'.phase ≠ .handling cb sl dl)
  | answer (m o : Nat) (dl : Option Nat) (hp : s.phase = .handling (.handle m) (some o) dl)
      (h : s'.ops = (s.answer (some o) m).ops)
  | ping (o : Nat) (h : s'.ops = s.ops.map (pingMap o))

macro "opsame02c" hs:ident : tactic => `(tactic|
  ((repeat' (split at $hs:ident)) <;>
   (first
     | (simp at $hs:ident; done)
     | (simp at $hs:ident; subst $hs:ident; first
         | exact OpsCh02c.same rfl
         | (refine OpsCh02c.same ?_; simp; done)))))

theorem fail_opsCh02c (s : AState) : OpsCh02c s s.fail :=
  .gone (by simp [fail, Chan.dropRx]) (by simp [fail])

theorem step_opsCh02c {w s l s'} (hs : step w s l = some s') (hl : l.isOpEdge = false) : OpsCh02c s s' := by
  cases l <;> simp [Label.isOpEdge] at hl
  case cbEnd cb ok =>
    simp only [step, stepCbEnd] at hs
    split at hs
    · simp at hs
    · split at hs
      case h_2 =>
        rename_i m m' slot dl hph
        split at hs
        · rename_i hc
          simp at hc hs
          obtain ⟨rfl, rfl⟩ := hc
          subst hs
          cases slot with
          | none => exact .same (by simp [answer])
          | some o => exact .answer m o dl hph rfl
        · simp at hs
      all_goals opsame02c hs
  case cbAbandon cb =>
    simp only [step, stepCbAbandon] at hs
    split at hs
    · rename_i cb' slot dl hp
      split at hs
      · have hsub : ∀ o ∈ (match slot with | some o => [o] | none => []), o ∈ s.curSlot := by
          intro o ho
          cases slot with
          | none => simp at ho
          | some o' => simpa [curSlot, hp] using ho
        split at hs <;> (simp at hs; subst hs; exact .cancelCur _ hsub rfl rfl (by simp))
      · simp at hs
    all_goals opsame02c hs
  case cbPanic cb =>
    simp only [step, stepCbPanic] at hs
    split at hs
    · simp at hs; subst hs
      exact .cancelCur s.curSlot (fun o ho => ho) rfl rfl (by simp)
    · simp at hs
  case cancel =>
    simp only [step, stepCancel] at hs
    split at hs
    · simp at hs
    · simp at hs; subst hs; exact .gone (by simp [fail, Chan.dropRx]) (by simp [fail])
  case taskDone =>
    simp only [step, stepTaskDone] at hs
    split at hs
    · simp at hs; subst hs
      exact .gone (by simp [finish, Chan.dropRx]) (by simp [finish])
    · simp at hs; subst hs; exact fail_opsCh02c s
    · simp at hs
  case taskPanic =>
    simp only [step, stepTaskPanic] at hs
    split at hs
    · simp at hs; subst hs; exact fail_opsCh02c s
    · split at hs
      · split at hs
        · simp at hs; subst hs
          exact .gone (by simp [fail, Chan.dropRx]) (by simp [fail])
        · simp at hs
      · simp at hs
    · simp at hs
  case tDeq =>
    simp only [step, stepDeq] at hs
    split at hs
    · rename_i e rest hph hq
      split at hs
      · simp at hs
      · try simp only at hs
        split at hs
        · rename_i o hpl
          simp at hs; subst hs
          exact .ping o (by simp [pingMap])
        all_goals opsame02c hs
    · simp at hs
  all_goals (unfold_steps hs; opsame02c hs)

/-- the normal end of the handler invocation of `m`: its reply slot is answered -/
theorem stepCbEnd_handle02c {w s m s'} (hs : stepCbEnd w s (.handle m) true = some s') :
    ∃ slot dl, s.phase = .handling (.handle m) slot dl ∧ s'.ops = (s.answer slot m).ops := by
  unfold stepCbEnd at hs
  split at hs
  · simp at hs
  · cases hph : s.phase <;> simp only [hph] at hs <;> (try (simp at hs; done))
    rename_i cb slot dl
    cases cb <;> (try (simp at hs; done))
    simp at hs
    obtain ⟨rfl, rfl⟩ := hs
    exact ⟨_, _, rfl, rfl⟩

/-- only a handler invocation has a reply slot -/
theorem stepCbBegin_slot02c {w s cb s'} (hs : stepCbBegin w s cb = some s') :
    ∀ cb' o dl, s'.phase = .handling cb' (some o) dl → ∃ m, cb' = .handle m := by
  unfold stepCbBegin at hs
  cases hph : s.phase <;> cases cb <;> simp only [hph] at hs <;> (try (simp at hs; done))
  all_goals
    ((repeat' (split at hs)) <;>
      (first
        | (simp at hs; done)
        | (simp at hs; subst hs; intro cb' o dl hp; simp [toStopping] at hp; done)
        | (simp at hs; obtain ⟨_, rfl⟩ := hs; intro cb' o dl hp; simp at hp
           first | exact ⟨_, hp.1.symm⟩ | done)))

/-- `begin`: the mailbox is untouched, or the submission went through and the record is not failed -/
theorem stepBegin_push02c {w s o h k s'} (hs : stepBegin w s o h k = some s') :
    ∃ st, s'.ops = s.ops ++ [{ o, h, kind := k, st }] ∧ (s'.chan = s.chan ∨ errSt02c st = false) := by
  obtain ⟨_, _, st, hops, hout⟩ := stepBegin_spec02 hs
  refine ⟨st, hops, ?_⟩
  cases hout with
  | refused e hst hc hk => exact .inl hc
  | wait hpl hc hst => exact .inl hc
  | sent pl tok hpl hrx hc hst =>
    right
    rcases hst with ⟨_, rfl | rfl⟩ | ⟨_, rfl⟩ <;> rfl

/-! ### the three maps on operation records -/

theorem cancelRec_o02c (slots : List Nat) (r : OpRec) : (cancelRec11c slots r).o = r.o := by
  unfold cancelRec11c; split <;> rfl

theorem cancelRec11c_err02c {slots : List Nat} {r : OpRec} (h : errSt02c r.st = false)
    (hn : r.o ∉ slots) : errSt02c (cancelRec11c slots r).st = false := by
  unfold cancelRec11c; simp [hn, h]

def ansRec02c (s : AState) (o m : Nat) (r : OpRec) : OpRec :=
  if r.o == o && r.st == .pending then { r with st := .answered { m, birth := s.birth, digest := s.log } } else r

theorem answer_ops02c (s : AState) (o m : Nat) : (s.answer (some o) m).ops = s.ops.map (ansRec02c s o m) := rfl

theorem ansRec02c_o (s : AState) (o m : Nat) (r : OpRec) : (ansRec02c s o m r).o = r.o := by
  unfold ansRec02c; split <;> rfl
theorem ansRec02c_kind (s : AState) (o m : Nat) (r : OpRec) : (ansRec02c s o m r).kind = r.kind := by
  unfold ansRec02c; split <;> rfl
theorem ansRec02c_err (s : AState) (o m : Nat) {r : OpRec} (h : errSt02c r.st = false) :
    errSt02c (ansRec02c s o m r).st = false := by
  unfold ansRec02c; split
  · rfl
  · exact h
/-- the owner of the slot is past answering afterwards, unless it had failed / been cancelled before -/
theorem ansRec02c_ok (s : AState) (m : Nat) {r : OpRec} (h : errSt02c r.st = false) :
    okSt02c (ansRec02c s r.o m r).st = true := by
  unfold ansRec02c
  cases hst : r.st <;> simp_all [okSt02c, errSt02c]

theorem pingMap_o02c (o : Nat) (r : OpRec) : (pingMap o r).o = r.o := by
  unfold pingMap; split <;> rfl
theorem pingMap_kind02c (o : Nat) (r : OpRec) : (pingMap o r).kind = r.kind := by
  unfold pingMap; split <;> rfl
theorem pingMap_err02c (o : Nat) {r : OpRec} (h : errSt02c r.st = false) :
    errSt02c (pingMap o r).st = false := by
  unfold pingMap; split
  · rfl
  · exact h

/-- a user message waiting with its slot is a waiting user message -/
theorem qms_qmsgs02c {c : Chan} {x : Nat × Option Nat} (h : x ∈ qms11c c) : x.1 ∈ qmsgs c := by
  unfold qms11c at h
  obtain ⟨e, he, hx⟩ := List.mem_filterMap.mp h
  refine List.mem_filterMap.mpr ⟨e, he, ?_⟩
  cases hpl : e.pl <;> simp [hpl, msgSlot11c] at hx
  subst hx; simp [msgNo]

end Hannibal
