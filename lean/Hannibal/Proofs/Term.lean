import Hannibal.Proofs.Latch
/-
  Termination announcement: state invariants relating the latch, the join result and the phase
  (given that the loop notifies after `stopped()`).
-/
namespace Hannibal
open AState

def latchOk (l : Latch) (p : Phase) : Bool :=
  match l, p with
  | .pending, .done _ => false
  | .pending, _ => true
  | .fired, .done true => true
  | .dropped, .done false => true
  | _, _ => false

def resultOk (r : Option Final) (p : Phase) (birth : Nat) (log : List Nat) : Bool :=
  match r with
  | none => true
  | some f => p == .done true && f.birth == birth && f.stoppedSeen && f.digest == log

/-- the log and birth are frozen once the task is done -/
structure TermInv (s : AState) : Prop where
  latch : latchOk s.latch s.phase = true
  result : resultOk s.result s.phase s.birth s.log = true

theorem termInv_init (cfg : Cfg) (h0 : Nat) (k0 : HKind) : TermInv (AState.init cfg h0 k0) := by
  constructor <;> simp [AState.init, latchOk, resultOk]

set_option maxHeartbeats 2000000 in
theorem termInv_step (w : Wiring) (hw : w.notifyAfterStopped = true) {s s' : AState} {l : Label}
    (hs : step w s l = some s') (hi : TermInv s) : TermInv s' := by
  obtain ⟨h1, h2⟩ := hi
  cases l <;> unfold_steps hs <;>
    ((repeat' (split at hs)) <;>
     (first
       | (simp at hs; done)
       | (simp at hs; subst hs
          cases hl : s.latch <;> cases hr : s.result <;> cases hp : s.phase <;>
            (constructor <;>
              simp_all [latchOk, resultOk, fail, finish, cancelSlots, killTimers, setTimer, addOp, removeOp,
                removeHandle, push, answer, isDone, openCb, curSlot])
          done)
       | (simp at hs; subst hs
          unfold answer
          split <;> cases hl : s.latch <;> cases hr : s.result <;> cases hp : s.phase <;>
            (constructor <;> simp_all [latchOk, resultOk])
          done)))

end Hannibal
