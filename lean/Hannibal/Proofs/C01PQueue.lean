import Hannibal.Proofs.C04PQueue
/-
  Model facts behind C01 (FIFO, said of pings): what one step does to the user messages waiting *ahead of the
  payload of ping `o`* in the mailbox.  A submission goes behind everything already queued, the loop only ever
  takes the head entry (a user message exactly when its handler invocation begins), a tick / broadcast at the
  head becomes a user message in place, and the mailbox is emptied when the receiver is dropped.
-/
namespace Hannibal
open AState

/-- the entry is not the payload of ping `o` -/
def notPing01p (o : Nat) (e : Entry) : Bool := e.pl != .ping o

/-- the user messages waiting ahead of the (first) payload of ping `o`, oldest first -/
def aheadOf01p (o : Nat) (q : List Entry) : List Nat :=
  (q.takeWhile (notPing01p o)).filterMap (fun e => msgNo e.pl)

/-- all user messages waiting in the mailbox -/
def qmsgsL01p (q : List Entry) : List Nat := q.filterMap (fun e => msgNo e.pl)

theorem qmsgsL01p_chan (c : Chan) : qmsgsL01p c.queue = qmsgs c := rfl

@[simp] theorem aheadOf01p_nil (o : Nat) : aheadOf01p o [] = [] := rfl

theorem aheadOf01p_cons (o : Nat) (e : Entry) (q : List Entry) :
    aheadOf01p o (e :: q) = if e.pl = .ping o then [] else msgL e.pl ++ aheadOf01p o q := by
  unfold aheadOf01p msgL
  by_cases h : e.pl = .ping o
  · simp [notPing01p, h]
  · simp [List.takeWhile_cons, notPing01p, h, List.filterMap_cons]
    cases msgNo e.pl <;> simp

theorem qmsgsL01p_cons (e : Entry) (q : List Entry) : qmsgsL01p (e :: q) = msgL e.pl ++ qmsgsL01p q := by
  unfold qmsgsL01p msgL
  rw [List.filterMap_cons]
  cases msgNo e.pl <;> simp

theorem mem_qpings_cons01p {o : Nat} {e : Entry} {q : List Entry} :
    o ∈ qpings04p (e :: q) ↔ e.pl = .ping o ∨ o ∈ qpings04p q := by
  rw [qpings04p_cons, List.mem_append]
  constructor
  · rintro (h | h)
    · left
      cases hp : e.pl <;> simp [pingL04p, pingNo04p, hp] at h ⊢
      exact h.symm
    · exact .inr h
  · rintro (h | h)
    · left; simp [pingL04p, pingNo04p, h]
    · exact .inr h

/-- a submission behind the payload of ping `o` does not change what waits ahead of it -/
theorem aheadOf01p_snoc_mem {o : Nat} {q : List Entry} (e : Entry) (h : o ∈ qpings04p q) :
    aheadOf01p o (q ++ [e]) = aheadOf01p o q := by
  induction q with
  | nil => simp at h
  | cons x xs ih =>
    rw [List.cons_append, aheadOf01p_cons, aheadOf01p_cons]
    by_cases hx : x.pl = .ping o
    · simp [hx]
    · simp only [hx, if_false]
      rcases mem_qpings_cons01p.mp h with h | h
      · exact absurd h hx
      · rw [ih h]

/-- the payload of ping `o` is submitted behind every waiting user message -/
theorem aheadOf01p_snoc_new {o : Nat} {q : List Entry} (tok : Tok) (h : o ∉ qpings04p q) :
    aheadOf01p o (q ++ [{ pl := .ping o, tok }]) = qmsgsL01p q := by
  induction q with
  | nil => simp [aheadOf01p_cons, qmsgsL01p]
  | cons x xs ih =>
    rw [List.cons_append, aheadOf01p_cons, qmsgsL01p_cons]
    have hx : x.pl ≠ .ping o := fun hx => h (mem_qpings_cons01p.mpr (.inl hx))
    simp only [hx, if_false]
    rw [ih (fun h' => h (mem_qpings_cons01p.mpr (.inr h')))]

/-- How a step acts on the user messages ahead of each ping payload; `rx` is the receiver flag before the
    step. -/
def BRel01p (l : Label) (q q' : List Entry) (rx : Bool) : Prop :=
  ∀ o, o ∈ qpings04p q' →
    (o ∈ qpings04p q ∧ ∀ m ∈ aheadOf01p o q, m ∈ aheadOf01p o q' ∨ l = .cbBegin (.handle m)) ∨
    ((∃ h, l = .begin o h .ping) ∧ rx = true ∧ ∀ m ∈ qmsgsL01p q, m ∈ aheadOf01p o q')

theorem brel01p_same {l : Label} {q q' : List Entry} {rx : Bool} (h : q' = q) : BRel01p l q q' rx := by
  subst h; exact fun o ho => .inl ⟨ho, fun m hm => .inl hm⟩

theorem brel01p_nil {l : Label} {q q' : List Entry} {rx : Bool} (h : q' = []) : BRel01p l q q' rx := by
  subst h; intro o ho; simp at ho

theorem brel01p_enq_other {l : Label} {q q' : List Entry} {rx : Bool} {e : Entry} (h : q' = q ++ [e])
    (hp : pingNo04p e.pl = none) : BRel01p l q q' rx := by
  subst h
  have hl : pingL04p e.pl = [] := by simp [pingL04p, hp]
  intro o ho
  rw [qpings04p_snoc, hl, List.append_nil] at ho
  refine .inl ⟨ho, fun m hm => .inl ?_⟩
  rw [aheadOf01p_snoc_mem e ho]; exact hm

theorem brel01p_enq_ping {o h : Nat} {q q' : List Entry} {rx : Bool} {tok : Tok}
    (hq : q' = q ++ [{ pl := .ping o, tok }]) (hrx : rx = true) : BRel01p (.begin o h .ping) q q' rx := by
  subst hq
  intro o' ho'
  by_cases hin : o' ∈ qpings04p q
  · refine .inl ⟨hin, fun m hm => .inl ?_⟩
    rw [aheadOf01p_snoc_mem _ hin]; exact hm
  · rw [qpings04p_snoc] at ho'
    rcases List.mem_append.mp ho' with h1 | h1
    · exact absurd h1 hin
    · simp [pingL04p, pingNo04p] at h1; subst h1
      refine .inr ⟨⟨h, rfl⟩, hrx, fun m hm => ?_⟩
      rw [aheadOf01p_snoc_new tok hin]; exact hm

/-- the head entry is taken: a user message only by the handler invocation that begins -/
theorem brel01p_tail {l : Label} {q q' : List Entry} {rx : Bool} {e : Entry} (h : q = e :: q')
    (hm : ∀ m, msgNo e.pl = some m → l = .cbBegin (.handle m)) : BRel01p l q q' rx := by
  subst h
  intro o ho
  refine .inl ⟨mem_qpings_cons01p.mpr (.inr ho), fun m hmem => ?_⟩
  rw [aheadOf01p_cons] at hmem
  by_cases he : e.pl = .ping o
  · simp [he] at hmem
  · simp only [he, if_false] at hmem
    rcases List.mem_append.mp hmem with h1 | h1
    · right
      apply hm
      unfold msgL at h1
      cases hn : msgNo e.pl with
      | none => simp [hn] at h1
      | some m0 => simp [hn] at h1; rw [h1]
    · exact .inl h1

/-- the head entry (a tick, a broadcast) becomes a user message -/
theorem brel01p_rename {l : Label} {q q' : List Entry} {rx : Bool} {pl pl' : Payload} {tok : Tok}
    {rest : List Entry} (hq : q = { pl, tok } :: rest) (hq' : q' = { pl := pl', tok } :: rest)
    (h1 : pingNo04p pl = none) (h2 : pingNo04p pl' = none) (h3 : msgNo pl = none) : BRel01p l q q' rx := by
  subst hq hq'
  intro o ho
  have hne : pl ≠ .ping o := by intro h; rw [h] at h1; simp [pingNo04p] at h1
  have hne' : pl' ≠ .ping o := by intro h; rw [h] at h2; simp [pingNo04p] at h2
  have hrest : o ∈ qpings04p rest := by
    rcases mem_qpings_cons01p.mp ho with h | h
    · exact absurd h hne'
    · exact h
  refine .inl ⟨mem_qpings_cons01p.mpr (.inr hrest), fun m hm => .inl ?_⟩
  rw [aheadOf01p_cons] at hm ⊢
  simp only [hne, hne', if_false] at hm ⊢
  simp only [msgL, h3, List.nil_append] at hm
  exact List.mem_append_right _ hm

theorem step_brel01p {w s l s'} (hs : step w s l = some s') :
    BRel01p l s.chan.queue s'.chan.queue s.chan.rx := by
  cases l <;> simp only [step] at hs
  case begin o h k =>
    obtain ⟨st, -, hc⟩ := stepBegin_spec hs
    rcases hc with ⟨hc, -⟩ | ⟨hrx, tok, hc, hk1, hk2⟩
    · exact brel01p_same (by rw [hc])
    · by_cases hk : k = .ping
      · subst hk
        exact brel01p_enq_ping (tok := tok) (by rw [hc]; simp [payloadOf]) hrx
      · exact brel01p_enq_other (e := { pl := payloadOf o k, tok }) (by rw [hc]; simp) (pingNo04p_payloadOf hk)
  case ret => exact brel01p_same (by rw [stepRet_chan hs])
  case cdrop => exact brel01p_same (by rw [stepCdrop_chan hs])
  case mk => exact brel01p_same (by rw [stepMk_chan hs])
  case upgrade => exact brel01p_same (by rw [stepUpgrade_chan hs])
  case detach => exact brel01p_same (by rw [stepDetach_chan hs])
  case drop => exact brel01p_same (by rw [stepDrop_chan hs])
  case stopReq h ok =>
    rcases stepSignal_q4 hs with ⟨rfl, hc⟩ | ⟨rfl, tok, hc⟩
    · exact brel01p_same (by rw [hc])
    · exact brel01p_enq_other hc rfl
  case restartReq h ok =>
    rcases stepSignal_q4 hs with ⟨rfl, hc⟩ | ⟨rfl, tok, hc⟩
    · exact brel01p_same (by rw [hc])
    · exact brel01p_enq_other hc rfl
  case query => exact brel01p_same (by rw [stepQuery_chan hs])
  case cbBegin cb =>
    rcases stepCbBegin_detail hs with ⟨m, sl, tok, rest, rfl, hq, hc⟩ | ⟨hc, hne⟩
    · refine brel01p_tail (e := { pl := .msg m sl, tok }) (by rw [hc]; simp [Chan.deq, hq]) ?_
      intro m' hm'
      simp [msgNo] at hm'; rw [hm']
    · exact brel01p_same (by rw [hc])
  case cbEnd => exact brel01p_same (by rw [stepCbEnd_chan hs])
  case cbAbandon => exact brel01p_same (by rw [stepCbAbandon_chan hs])
  case cbPanic => exact brel01p_same (by rw [stepCbPanic_chan hs])
  case vnew => exact brel01p_same (by rw [stepVnew_chan hs])
  case work => exact brel01p_same (by rw [stepWork_chan hs])
  case ctxStop ok =>
    rcases stepCtxSignal_q4 hs with ⟨rfl, hc⟩ | ⟨rfl, tok, hc⟩
    · exact brel01p_same (by rw [hc])
    · exact brel01p_enq_other hc rfl
  case ctxRestart ok =>
    rcases stepCtxSignal_q4 hs with ⟨rfl, hc⟩ | ⟨rfl, tok, hc⟩
    · exact brel01p_same (by rw [hc])
    · exact brel01p_enq_other hc rfl
  case ctxTimer => exact brel01p_same (by rw [stepCtxTimer_chan hs])
  case ctxWeak => exact brel01p_same (by rw [stepCtxWeak_chan hs])
  case fire t mo =>
    rcases stepFire_q4 hs with hc | ⟨m, tok, rfl, hc⟩
    · exact brel01p_same (by rw [hc])
    · exact brel01p_enq_other hc rfl
  case timerArm =>
    rcases stepTimerArm_q4 hs with hc | ⟨tok, hc⟩
    · exact brel01p_same (by rw [hc])
    · exact brel01p_enq_other hc rfl
  case timerEnd => exact brel01p_same (by rw [stepTimerEnd_chan hs])
  case tickBegin t m =>
    obtain ⟨tok, rest, hq, hc⟩ := stepTickBegin_detail hs
    exact brel01p_rename hq (by rw [hc]) rfl rfl rfl
  case extPush =>
    rcases stepExtPush_q4 hs with hc | ⟨tok, hc⟩
    · exact brel01p_same (by rw [hc])
    · exact brel01p_enq_other hc rfl
  case extBegin b m =>
    obtain ⟨tok, rest, hq, hc⟩ := stepExtBegin_detail hs
    exact brel01p_rename hq (by rw [hc]) rfl rfl rfl
  case time => exact brel01p_same (by rw [stepTime_chan hs])
  case cancel => exact brel01p_nil (by rw [stepCancel_chan hs]; rfl)
  case taskPanic =>
    rcases stepTaskPanic_chan hs with h | ⟨_, h⟩
    · exact brel01p_nil (by rw [h]; rfl)
    · exact brel01p_nil (by rw [h]; rfl)
  case streamReady => exact brel01p_same (by rw [stepStreamReady_chan hs])
  case streamEnd => exact brel01p_same (by rw [stepStreamEnd_chan hs])
  case taskDone => exact brel01p_nil (by rw [stepTaskDone_chan hs]; rfl)
  case quiescent =>
    simp only [stepQuiescent] at hs
    split at hs <;> simp at hs
    subst hs; exact brel01p_same rfl
  case tDeq =>
    obtain ⟨e, hq, hm, -, -⟩ := stepDeq_q4 hs
    exact brel01p_tail hq (fun m hm' => by rw [hm] at hm'; cases hm')
  case tChanEnd => exact brel01p_same (by rw [stepChanEnd_chan hs])
  case tStreamEnd => exact brel01p_same (by rw [stepStreamEndTau_chan hs])

/-- a waiting user message keeps waiting as long as the receiver exists, unless its handler invocation begins -/
theorem qrel_keep01p {l : Label} {c c' : Chan} (h : QRel l c c') (hrx : c'.rx = true) :
    c.rx = true ∧ ∀ m ∈ qmsgs c, m ∈ qmsgs c' ∨ l = .cbBegin (.handle m) := by
  cases l <;> simp only [QRel] at h
  case begin o h' k =>
    rcases h with ⟨hq, hr⟩ | ⟨m, _, hq, hr, _⟩
    · exact ⟨by rw [← hr]; exact hrx, fun m hm => .inl (by rw [hq]; exact hm)⟩
    · exact ⟨hr, fun m' hm => .inl (by rw [hq]; exact List.mem_append_left _ hm)⟩
  case fire t mo =>
    rcases h with ⟨hq, hr⟩ | ⟨m, _, hq, hr, _⟩
    · exact ⟨by rw [← hr]; exact hrx, fun m hm => .inl (by rw [hq]; exact hm)⟩
    · exact ⟨hr, fun m' hm => .inl (by rw [hq]; exact List.mem_append_left _ hm)⟩
  case tickBegin t m0 =>
    exact ⟨by rw [← h.2]; exact hrx, fun m hm => .inl (by rw [h.1]; exact List.mem_cons_of_mem _ hm)⟩
  case extBegin t m0 =>
    exact ⟨by rw [← h.2]; exact hrx, fun m hm => .inl (by rw [h.1]; exact List.mem_cons_of_mem _ hm)⟩
  case cbBegin cb =>
    cases cb <;> simp only at h
    case handle m0 =>
      refine ⟨by rw [← h.2]; exact hrx, fun m hm => ?_⟩
      rw [h.1] at hm
      rcases List.mem_cons.mp hm with rfl | hm
      · exact .inr rfl
      · exact .inl hm
    all_goals exact ⟨by rw [← h.2]; exact hrx, fun m hm => .inl (by rw [h.1]; exact hm)⟩
  case cancel => rw [h.2] at hrx; cases hrx
  case taskDone => rw [h.2] at hrx; cases hrx
  case taskPanic => rw [h.2] at hrx; cases hrx
  all_goals exact ⟨by rw [← h.2]; exact hrx, fun m hm => .inl (by rw [h.1]; exact hm)⟩

end Hannibal
