import Hannibal.Model.Actor
/- Projection lemmas for the small state updaters of the actor model. -/
namespace Hannibal
namespace AState

@[simp] theorem addOp_chan (s : AState) (o h k st) : (s.addOp o h k st).chan = s.chan := rfl
@[simp] theorem addOp_phase (s : AState) (o h k st) : (s.addOp o h k st).phase = s.phase := rfl
@[simp] theorem addOp_cfg (s : AState) (o h k st) : (s.addOp o h k st).cfg = s.cfg := rfl
@[simp] theorem setOp_chan (s : AState) (o st) : (s.setOp o st).chan = s.chan := rfl
@[simp] theorem removeOp_chan (s : AState) (o) : (s.removeOp o).chan = s.chan := rfl
@[simp] theorem removeOp_phase (s : AState) (o) : (s.removeOp o).phase = s.phase := rfl
@[simp] theorem removeOp_cfg (s : AState) (o) : (s.removeOp o).cfg = s.cfg := rfl
@[simp] theorem removeHandle_chan (s : AState) (h) : (s.removeHandle h).chan = s.chan := rfl
@[simp] theorem removeHandle_phase (s : AState) (h) : (s.removeHandle h).phase = s.phase := rfl
@[simp] theorem removeHandle_cfg (s : AState) (h) : (s.removeHandle h).cfg = s.cfg := rfl
@[simp] theorem removeHandle_ops (s : AState) (h) : (s.removeHandle h).ops = s.ops := rfl
@[simp] theorem cancelSlots_chan (s : AState) (l) : (s.cancelSlots l).chan = s.chan := rfl
@[simp] theorem cancelSlots_phase (s : AState) (l) : (s.cancelSlots l).phase = s.phase := rfl
@[simp] theorem cancelSlots_cfg (s : AState) (l) : (s.cancelSlots l).cfg = s.cfg := rfl
@[simp] theorem killTimers_chan (s : AState) : s.killTimers.chan = s.chan := rfl
@[simp] theorem killTimers_phase (s : AState) : s.killTimers.phase = s.phase := rfl
@[simp] theorem killTimers_cfg (s : AState) : s.killTimers.cfg = s.cfg := rfl
@[simp] theorem killTimers_ops (s : AState) : s.killTimers.ops = s.ops := rfl
@[simp] theorem setTimer_chan (s : AState) (t st) : (s.setTimer t st).chan = s.chan := rfl
@[simp] theorem setTimer_phase (s : AState) (t st) : (s.setTimer t st).phase = s.phase := rfl
@[simp] theorem setTimer_cfg (s : AState) (t st) : (s.setTimer t st).cfg = s.cfg := rfl
@[simp] theorem setTimer_ops (s : AState) (t st) : (s.setTimer t st).ops = s.ops := rfl
@[simp] theorem answer_chan (s : AState) (sl m) : (s.answer sl m).chan = s.chan := by
  unfold answer; split <;> rfl
@[simp] theorem answer_phase (s : AState) (sl m) : (s.answer sl m).phase = s.phase := by
  unfold answer; split <;> rfl
@[simp] theorem answer_cfg (s : AState) (sl m) : (s.answer sl m).cfg = s.cfg := by
  unfold answer; split <;> rfl

@[simp] theorem notifyEarly_chan (w) (s : AState) : (s.notifyEarly w).chan = s.chan := by
  unfold notifyEarly; split <;> rfl
@[simp] theorem notifyEarly_ops (w) (s : AState) : (s.notifyEarly w).ops = s.ops := by
  unfold notifyEarly; split <;> rfl
@[simp] theorem notifyEarly_cfg (w) (s : AState) : (s.notifyEarly w).cfg = s.cfg := by
  unfold notifyEarly; split <;> rfl
@[simp] theorem notifyEarly_phase (w) (s : AState) : (s.notifyEarly w).phase = s.phase := by
  unfold notifyEarly; split <;> rfl
@[simp] theorem refreshTimers_chan (w) (s : AState) : (s.refreshTimers w).chan = s.chan := by
  unfold refreshTimers; split <;> rfl
@[simp] theorem refreshTimers_ops (w) (s : AState) : (s.refreshTimers w).ops = s.ops := by
  unfold refreshTimers; split <;> rfl
@[simp] theorem refreshTimers_cfg (w) (s : AState) : (s.refreshTimers w).cfg = s.cfg := by
  unfold refreshTimers; split <;> rfl
@[simp] theorem refreshTimers_phase (w) (s : AState) : (s.refreshTimers w).phase = s.phase := by
  unfold refreshTimers; split <;> rfl
@[simp] theorem toStopping_chan (s : AState) : s.toStopping.chan = s.chan := rfl
@[simp] theorem toStopping_ops (s : AState) : s.toStopping.ops = s.ops := rfl
@[simp] theorem toStopping_cfg (s : AState) : s.toStopping.cfg = s.cfg := rfl
@[simp] theorem toStopping_phase (s : AState) : s.toStopping.phase = .stopping := rfl

@[simp] theorem fail_chan (s : AState) : s.fail.chan = s.chan.dropRx := rfl
@[simp] theorem finish_chan (s : AState) : s.finish.chan = s.chan.dropRx := rfl
@[simp] theorem fail_cfg (s : AState) : s.fail.cfg = s.cfg := rfl
@[simp] theorem finish_cfg (s : AState) : s.finish.cfg = s.cfg := rfl
@[simp] theorem fail_phase (s : AState) : s.fail.phase = .done false := rfl
@[simp] theorem finish_phase (s : AState) : s.finish.phase = .done true := rfl

theorem retEffect_phase (s : AState) (r : OpRec) : (s.retEffect r).phase = s.phase := by
  unfold retEffect; simp only; split <;> split <;> split <;> rfl
theorem retEffect_log (s : AState) (r : OpRec) : (s.retEffect r).log = s.log := by
  unfold retEffect; simp only; split <;> split <;> split <;> rfl
theorem retEffect_result (s : AState) (r : OpRec) :
    (s.retEffect r).result = (if r.st = .joining then none else s.result) := by
  unfold retEffect; simp only; split <;> split <;> split <;> simp_all [removeOp, removeHandle]

@[simp] theorem push_chan (s : AState) (pl path tok) :
    (s.push pl path tok).chan = s.chan.enq { pl, tok := (if path = .waiting then tok else .stale) } := rfl
@[simp] theorem push_ops (s : AState) (pl path tok) : (s.push pl path tok).ops = s.ops := rfl
@[simp] theorem push_cfg (s : AState) (pl path tok) : (s.push pl path tok).cfg = s.cfg := rfl
@[simp] theorem push_phase (s : AState) (pl path tok) : (s.push pl path tok).phase = s.phase := rfl

end AState
end Hannibal
