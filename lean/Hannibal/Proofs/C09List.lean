import Hannibal.Monitor.C09
/-
  C09, part 1: the ghost enqueue order and list lemmas.

  Ghost: the global enqueue order of the broker's mailbox, `E = H ++ Q` (`H` handled, `Q` still queued).
  An entry remembers the begin-timestamp of its operation (`k`, the key of the operation in the monitor's
  table), its item and the monitor time at which it was enqueued (`te`).
-/
namespace Hannibal

structure GE where
  k : Nat
  it : BItem
  te : Nat

/-- position of publication `m` in the handling order -/
def pidx (H : List GE) (m : Nat) : Nat := H.findIdx (fun e => e.it == .pub m)

theorem pidx_append {H : List GE} {m : Nat} (l : List GE) (h : pidx H m < H.length) :
    pidx (H ++ l) m = pidx H m := by
  unfold pidx at *
  rw [List.findIdx_append]; simp [h]

theorem pidx_get {H : List GE} {m : Nat} (h : pidx H m < H.length) :
    ∃ e, H[pidx H m]? = some e ∧ e.it = .pub m := by
  unfold pidx at *
  refine ⟨H[H.findIdx (fun e => e.it == .pub m)], List.getElem?_eq_getElem h, ?_⟩
  have := List.findIdx_getElem (p := fun e : GE => e.it == .pub m) (xs := H) (w := h)
  exact eq_of_beq this

/-- a publication is enqueued at most once -/
def PubU (H : List GE) : Prop :=
  ∀ (i j : Nat) (e e' : GE) (m : Nat), H[i]? = some e → H[j]? = some e' → e.it = .pub m → e'.it = .pub m → i = j

theorem PubU.left {H Q : List GE} (h : PubU (H ++ Q)) : PubU H := by
  intro i j e e' m hi hj
  have hi' : i < H.length := (List.getElem?_eq_some_iff.mp hi).1
  have hj' : j < H.length := (List.getElem?_eq_some_iff.mp hj).1
  exact h i j e e' m (by rw [List.getElem?_append_left hi']; exact hi) (by rw [List.getElem?_append_left hj']; exact hj)

theorem pidx_lt {H : List GE} {i : Nat} {e : GE} {m : Nat} (hi : H[i]? = some e) (he : e.it = .pub m) :
    pidx H m < H.length := by
  apply List.findIdx_lt_length_of_exists
  exact ⟨e, List.mem_of_getElem? hi, by simp [he]⟩

theorem pidx_eq {H : List GE} (hu : PubU H) {i : Nat} {e : GE} {m : Nat} (hi : H[i]? = some e)
    (he : e.it = .pub m) : pidx H m = i := by
  obtain ⟨e', h1, h2⟩ := pidx_get (pidx_lt hi he)
  exact hu _ _ _ _ m h1 hi h2 he

theorem pw_get {α : Type} {R : α → α → Prop} {l : List α} (h : l.Pairwise R) {i j : Nat} {a b : α}
    (hi : l[i]? = some a) (hj : l[j]? = some b) (hij : i < j) : R a b := by
  obtain ⟨hi', rfl⟩ := List.getElem?_eq_some_iff.mp hi
  obtain ⟨hj', rfl⟩ := List.getElem?_eq_some_iff.mp hj
  exact List.pairwise_iff_getElem.mp h i j hi' hj' hij

theorem key_inj {E : List GE} (h : E.Pairwise (fun a b => a.k ≠ b.k)) {i j : Nat} {a b : GE}
    (hi : E[i]? = some a) (hj : E[j]? = some b) (hk : a.k = b.k) : i = j := by
  rcases Nat.lt_trichotomy i j with hlt | heq | hgt
  · exact absurd hk (pw_get h hi hj hlt)
  · exact heq
  · exact absurd hk.symm (pw_get h hj hi hgt)

theorem te_mono {E : List GE} (h : E.Pairwise (fun a b => a.te ≤ b.te)) {i j : Nat} {a b : GE}
    (hi : E[i]? = some a) (hj : E[j]? = some b) (hij : i ≤ j) : a.te ≤ b.te := by
  rcases Nat.lt_or_ge i j with hlt | hge
  · exact pw_get h hi hj hlt
  · have : i = j := Nat.le_antisymm hij hge
    subst this
    rw [hi] at hj; cases hj; exact Nat.le_refl _

theorem idxOf_get {l : List (Nat × Nat)} {x : Nat × Nat} {i : Nat} (h : idxOf l x = some i) : l[i]? = some x := by
  unfold idxOf at h
  simp only at h
  split at h
  · rename_i hlt
    cases h
    rw [List.getElem?_eq_getElem hlt]
    have := List.findIdx_getElem (w := hlt)
    simp at this
    rw [this]
  · cases h

/-- the first entry of subscriber `c` in `flight` -/
theorem find_first {flight : List (Nat × Nat)} {c c' m : Nat}
    (h : flight.find? (fun p => p.1 == c) = some (c', m)) :
    c' = c ∧ ∃ f1 f2, flight = f1 ++ (c, m) :: f2 ∧ ∀ a ∈ f1, a.1 ≠ c := by
  obtain ⟨hp, f1, f2, he, hn⟩ := List.find?_eq_some_iff_append.mp h
  have hc : c' = c := by simpa using hp
  subst hc
  refine ⟨rfl, f1, f2, he, ?_⟩
  intro a ha
  have := hn a ha
  simpa using this

theorem erase_first {f1 f2 : List (Nat × Nat)} {c m : Nat} (hn : ∀ a ∈ f1, a.1 ≠ c) :
    (f1 ++ (c, m) :: f2).erase (c, m) = f1 ++ f2 := by
  have : (c, m) ∉ f1 := fun h => hn _ h rfl
  rw [List.erase_append_right _ this, List.erase_cons_head]

end Hannibal
