import Hannibal.Monitor.C11C
import Hannibal.Proofs.C01Spec
/-
  Model facts behind C11c: the user messages waiting in the mailbox together with their reply slots;
  every step keeps them, drops some, or adds one freshly named message (whose slot, for a call, is the
  submitting operation).  Plus: what `cbAbandon` does to the operation table, and who sets `abandon`.
-/
namespace Hannibal
open AState

def msgSlot11c : Payload → Option (Nat × Option Nat)
  | .msg m slot => some (m, slot)
  | _ => none

/-- (message, reply slot) of the user messages waiting in the mailbox, oldest first -/
def qms11c (c : Chan) : List (Nat × Option Nat) := c.queue.filterMap (fun e => msgSlot11c e.pl)

theorem callMsg11c_msg {k : OpKind} {m : Nat} (h : callMsg11c k = some m) : k.msg? = some m := by
  cases k <;> simp_all [callMsg11c, OpKind.msg?]

theorem msgSlot11c_none_of_msgNo {pl : Payload} (h : msgNo pl = none) : msgSlot11c pl = none := by
  cases pl <;> simp [msgNo] at h <;> rfl

theorem msgSlot11c_payloadOf {o : Nat} {k : OpKind} {m : Nat} {slot : Option Nat}
    (h : msgSlot11c (payloadOf o k) = some (m, slot)) :
    k.msg? = some m ∧ (callMsg11c k = some m → slot = some o) := by
  cases k <;> simp [payloadOf, msgSlot11c] at h <;> obtain ⟨rfl, rfl⟩ := h <;> simp [OpKind.msg?, callMsg11c]

theorem qms11c_enq (c : Chan) (e : Entry) :
    qms11c (c.enq e) = qms11c c ++ (match msgSlot11c e.pl with | some x => [x] | none => []) := by
  unfold qms11c
  rw [Chan.enq_queue, List.filterMap_append]
  cases h : msgSlot11c e.pl <;> simp [h]

theorem qms11c_of_enq_q {c c' : Chan} (h : SameOrEnq c c') (hq : qmsgs c' = qmsgs c) : qms11c c' = qms11c c := by
  rcases h with h | ⟨e, _, h⟩
  · rw [h]
  · rw [h, qmsgs_enq] at hq
    have : msgNo e.pl = none := by
      cases hm : msgNo e.pl with
      | none => rfl
      | some m => simp [hm] at hq
    rw [h, qms11c_enq, msgSlot11c_none_of_msgNo this]; simp

theorem qms11c_deq_sub (c : Chan) : ∀ x ∈ qms11c c.deq, x ∈ qms11c c := by
  intro x hx
  unfold qms11c Chan.deq at hx
  simp only at hx
  obtain ⟨e, he, hx⟩ := List.mem_filterMap.mp hx
  exact List.mem_filterMap.mpr ⟨e, List.mem_of_mem_tail he, hx⟩

/-- what a step may add to the waiting user messages -/
def New11c (l : Label) (x : Nat × Option Nat) : Prop :=
  match l with
  | .begin o _ k => k.msg? = some x.1 ∧ (callMsg11c k = some x.1 → x.2 = some o)
  | .fire _ mo => mo = some x.1
  | .tickBegin _ m => m = x.1
  | .extBegin _ m => m = x.1
  | _ => False

def QMRel11c (l : Label) (c c' : Chan) : Prop := ∀ x ∈ qms11c c', x ∈ qms11c c ∨ New11c l x

theorem qmrel11c_of_eq {l : Label} {c c' : Chan} (h : qms11c c' = qms11c c) : QMRel11c l c c' := by
  intro x hx; rw [h] at hx; exact .inl hx

theorem qmrel11c_of_sub {l : Label} {c c' : Chan} (h : ∀ x ∈ qms11c c', x ∈ qms11c c) : QMRel11c l c c' :=
  fun x hx => .inl (h x hx)

theorem stepFire_qms11c {w s t mo s'} (hs : stepFire w s t mo = some s') :
    qms11c s'.chan = qms11c s.chan ∨ ∃ m, mo = some m ∧ qms11c s'.chan = qms11c s.chan ++ [(m, none)] := by
  unfold stepFire at hs
  (repeat' (split at hs)) <;>
    (first
      | (simp at hs; done)
      | (simp at hs; subst hs; left; first | rfl | (simp only [setTimer_chan]; done))
      | (simp at hs; subst hs; right; exact ⟨_, rfl, by simp [qms11c_enq, msgSlot11c]⟩))

theorem step_qms11c {w s l s'} (hs : step w s l = some s') : QMRel11c l s.chan s'.chan := by
  cases l <;> simp only [step] at hs
  case begin o h k =>
    obtain ⟨st, -, hc⟩ := stepBegin_spec hs
    rcases hc with ⟨hc, -⟩ | ⟨hrx, tok, hc, hk⟩
    · exact qmrel11c_of_eq (by rw [hc])
    · intro x hx
      rw [hc, qms11c_enq] at hx
      rcases List.mem_append.mp hx with hx | hx
      · exact .inl hx
      · right
        cases hsl : msgSlot11c (payloadOf o k) with
        | none => simp [hsl] at hx
        | some y =>
          simp [hsl] at hx; subst hx
          obtain ⟨m, slot⟩ := x
          exact msgSlot11c_payloadOf hsl
  case ret => exact qmrel11c_of_eq (by rw [stepRet_chan hs])
  case cdrop => exact qmrel11c_of_eq (by rw [stepCdrop_chan hs])
  case mk => exact qmrel11c_of_eq (by rw [stepMk_chan hs])
  case upgrade => exact qmrel11c_of_eq (by rw [stepUpgrade_chan hs])
  case detach => exact qmrel11c_of_eq (by rw [stepDetach_chan hs])
  case drop => exact qmrel11c_of_eq (by rw [stepDrop_chan hs])
  case stopReq => exact qmrel11c_of_eq (qms11c_of_enq_q (stepSignal_chan hs) (stepSignal_q hs rfl))
  case restartReq => exact qmrel11c_of_eq (qms11c_of_enq_q (stepSignal_chan hs) (stepSignal_q hs rfl))
  case query => exact qmrel11c_of_eq (by rw [stepQuery_chan hs])
  case cbBegin cb =>
    rcases stepCbBegin_detail hs with ⟨m, sl, tok, rest, rfl, hq, hc⟩ | ⟨hc, hne⟩
    · refine qmrel11c_of_sub ?_; rw [hc]; exact qms11c_deq_sub _
    · exact qmrel11c_of_eq (by rw [hc])
  case cbEnd => exact qmrel11c_of_eq (by rw [stepCbEnd_chan hs])
  case cbAbandon => exact qmrel11c_of_eq (by rw [stepCbAbandon_chan hs])
  case cbPanic => exact qmrel11c_of_eq (by rw [stepCbPanic_chan hs])
  case vnew => exact qmrel11c_of_eq (by rw [stepVnew_chan hs])
  case work => exact qmrel11c_of_eq (by rw [stepWork_chan hs])
  case ctxStop => exact qmrel11c_of_eq (qms11c_of_enq_q (stepCtxSignal_chan hs) (stepCtxSignal_q hs rfl))
  case ctxRestart => exact qmrel11c_of_eq (qms11c_of_enq_q (stepCtxSignal_chan hs) (stepCtxSignal_q hs rfl))
  case ctxTimer => exact qmrel11c_of_eq (by rw [stepCtxTimer_chan hs])
  case ctxWeak => exact qmrel11c_of_eq (by rw [stepCtxWeak_chan hs])
  case fire t mo =>
    rcases stepFire_qms11c hs with h | ⟨m, rfl, h⟩
    · exact qmrel11c_of_eq h
    · intro x hx
      rw [h] at hx
      rcases List.mem_append.mp hx with hx | hx
      · exact .inl hx
      · simp at hx; subst hx; exact .inr rfl
  case timerArm => exact qmrel11c_of_eq (qms11c_of_enq_q (stepTimerArm_chan hs) (stepTimerArm_q hs))
  case timerEnd => exact qmrel11c_of_eq (by rw [stepTimerEnd_chan hs])
  case tickBegin t m =>
    obtain ⟨tok, rest, hq, hc⟩ := stepTickBegin_detail hs
    intro x hx
    rw [hc] at hx
    simp [qms11c, hq, msgSlot11c] at hx ⊢
    rcases hx with rfl | hx
    · exact .inr rfl
    · exact .inl hx
  case extPush =>
    refine qmrel11c_of_eq (qms11c_of_enq_q (stepExtPush_chan hs) ?_)
    unfold stepExtPush at hs
    split at hs <;> (simp at hs; subst hs; first | rfl | exact push_qmsgs_other _ _ _ _ rfl)
  case extBegin b m =>
    obtain ⟨tok, rest, hq, hc⟩ := stepExtBegin_detail hs
    intro x hx
    rw [hc] at hx
    simp [qms11c, hq, msgSlot11c] at hx ⊢
    rcases hx with rfl | hx
    · exact .inr rfl
    · exact .inl hx
  case time => exact qmrel11c_of_eq (by rw [stepTime_chan hs])
  case cancel => refine qmrel11c_of_sub ?_; rw [stepCancel_chan hs]; simp [qms11c, Chan.dropRx]
  case taskPanic =>
    refine qmrel11c_of_sub ?_
    rcases stepTaskPanic_chan hs with h | ⟨_, h⟩ <;> (rw [h]; simp [qms11c, Chan.dropRx])
  case streamReady => exact qmrel11c_of_eq (by rw [stepStreamReady_chan hs])
  case streamEnd => exact qmrel11c_of_eq (by rw [stepStreamEnd_chan hs])
  case taskDone => refine qmrel11c_of_sub ?_; rw [stepTaskDone_chan hs]; simp [qms11c, Chan.dropRx]
  case quiescent =>
    simp only [stepQuiescent] at hs
    split at hs <;> simp at hs
    subst hs; exact qmrel11c_of_eq rfl
  case tDeq => refine qmrel11c_of_sub ?_; rw [(stepDeq_chan hs).2]; exact qms11c_deq_sub _
  case tChanEnd => exact qmrel11c_of_eq (by rw [stepChanEnd_chan hs])
  case tStreamEnd => exact qmrel11c_of_eq (by rw [stepStreamEndTau_chan hs])

/-! ### `cbAbandon` and the `abandon` marker -/

/-- what `cancelSlots slots` does to one operation record -/
def cancelRec11c (slots : List Nat) (r : OpRec) : OpRec :=
  if slots.contains r.o && r.st == .pending then { r with st := .cancelled } else r

theorem cancelSlots_ops11c (s : AState) (slots : List Nat) :
    (s.cancelSlots slots).ops = s.ops.map (cancelRec11c slots) := rfl

theorem cancelRec11c_kind (slots : List Nat) (r : OpRec) : (cancelRec11c slots r).kind = r.kind := by
  unfold cancelRec11c; split <;> rfl

theorem cancelRec11c_keep (slots : List Nat) {r : OpRec} (h : r.st ≠ .pending) :
    (cancelRec11c slots r).st = r.st := by
  unfold cancelRec11c; simp [h]

theorem cancelRec11c_pending {slots : List Nat} {r : OpRec} (h : r.st = .pending) (ho : r.o ∈ slots) :
    (cancelRec11c slots r).st = .cancelled := by
  unfold cancelRec11c; simp [h, ho]

/-- an invocation is abandoned at its deadline (its reply slot is cancelled), or the step is the drop
    guard of a callback cut short by `cancel` -/
theorem stepCbAbandon_spec11c {s cb s'} (hs : stepCbAbandon s cb = some s') :
    (∃ slot dl slots, s.phase = .handling cb slot (some dl) ∧ (∀ o, slot = some o → o ∈ slots) ∧
        s'.ops = (s.cancelSlots slots).ops) ∨
      (s.abandon = some cb ∧ s'.ops = s.ops) := by
  unfold stepCbAbandon at hs
  cases hp : s.phase <;> simp only [hp] at hs <;> (try (simp at hs; done))
  case handling cb' slot dl =>
    cases dl with
    | none => simp at hs
    | some d =>
      simp only at hs
      split at hs
      · rename_i hc
        simp at hc
        obtain ⟨rfl, _⟩ := hc
        left
        cases slot with
        | none =>
          refine ⟨none, d, [], rfl, by simp, ?_⟩
          split at hs <;> (simp at hs; subst hs; rfl)
        | some o =>
          refine ⟨some o, d, [o], rfl, by simp, ?_⟩
          split at hs <;> (simp at hs; subst hs; rfl)
      · simp at hs
  case done gr =>
    cases gr <;> simp at hs
    obtain ⟨hab, rfl⟩ := hs
    exact .inr ⟨hab, rfl⟩

set_option maxHeartbeats 1000000 in
/-- only `cancel` sets the `abandon` marker -/
theorem step_abandon11c (w : Wiring) {s s' : AState} {l : Label} (hs : step w s l = some s')
    (hl : l ≠ .cancel) (h : s.abandon = none) : s'.abandon = none := by
  cases l <;> unfold_steps hs
  case cancel => exact absurd rfl hl
  all_goals
    ((repeat' (split at hs)) <;>
     (first
       | (simp at hs; done)
       | (simp at hs; subst hs
          simp_all [fail, finish, cancelSlots, killTimers, setTimer, addOp, removeOp, removeHandle, push]
          done)
       | (simp at hs; subst hs
          unfold answer
          split <;> simp_all
          done)))

end Hannibal
