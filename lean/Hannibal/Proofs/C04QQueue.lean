import Hannibal.Proofs.C01Spec
import Hannibal.Proofs.C05Phase
/-
  Model facts behind C04 (drain barrier): what one step does to the user messages waiting *ahead of the
  first stop request* in the mailbox, and to the presence of a stop request.
-/
namespace Hannibal
open AState

def notStop (e : Entry) : Bool := !isStopP e.pl

/-- the user messages waiting ahead of the first stop request, oldest first -/
def ahead (q : List Entry) : List Nat := (q.takeWhile notStop).filterMap (fun e => msgNo e.pl)

/-- a stop request is waiting in the mailbox -/
def hasStop (q : List Entry) : Bool := q.any (fun e => isStopP e.pl)

def msgL (pl : Payload) : List Nat :=
  match msgNo pl with
  | some m => [m]
  | none => []

@[simp] theorem ahead_nil : ahead [] = [] := rfl
@[simp] theorem hasStop_nil : hasStop [] = false := rfl

theorem ahead_cons (e : Entry) (q : List Entry) :
    ahead (e :: q) = if isStopP e.pl then [] else msgL e.pl ++ ahead q := by
  unfold ahead msgL
  cases h : isStopP e.pl
  · simp [List.takeWhile_cons, notStop, h, List.filterMap_cons]
    cases msgNo e.pl <;> simp
  · simp [List.takeWhile_cons, notStop, h]

theorem hasStop_cons (e : Entry) (q : List Entry) : hasStop (e :: q) = (isStopP e.pl || hasStop q) := by
  simp [hasStop]

theorem hasStop_snoc (q : List Entry) (e : Entry) : hasStop (q ++ [e]) = (hasStop q || isStopP e.pl) := by
  simp [hasStop, List.any_append]

theorem ahead_snoc (q : List Entry) (e : Entry) :
    ahead (q ++ [e]) = if hasStop q then ahead q else ahead q ++ (if isStopP e.pl then [] else msgL e.pl) := by
  induction q with
  | nil => simp [ahead_cons]
  | cons x xs ih =>
    rw [List.cons_append, ahead_cons, ahead_cons, hasStop_cons, ih]
    cases hx : isStopP x.pl <;> cases hs : hasStop xs <;> simp

theorem ahead_sub (q : List Entry) : ∀ m ∈ ahead q, m ∈ q.filterMap (fun e => msgNo e.pl) := by
  induction q with
  | nil => simp
  | cons x xs ih =>
    intro m hm
    rw [ahead_cons] at hm
    cases hx : isStopP x.pl
    · simp only [hx, Bool.false_eq_true, if_false] at hm
      rw [List.filterMap_cons]
      unfold msgL at hm
      cases hn : msgNo x.pl with
      | none => simp [hn] at hm; simpa using ih m hm
      | some m0 =>
        simp [hn] at hm
        rcases hm with rfl | hm
        · simp
        · exact List.mem_cons_of_mem _ (ih m hm)
    · simp [hx] at hm

theorem ahead_sub_qmsgs (c : Chan) : ∀ m ∈ ahead c.queue, m ∈ qmsgs c := ahead_sub c.queue

/-- How a step acts on (messages ahead of the first stop request, a stop request waits); `alive'` says
    whether the loop can still take something out of the mailbox after the step. -/
def TRel (l : Label) (q q' : List Entry) (alive' : Bool) : Prop :=
  match l with
  | .begin _ _ k =>
    (ahead q' = ahead q ∧ hasStop q' = hasStop q) ∨
    (∃ m, k.msg? = some m ∧ hasStop q' = hasStop q ∧ ahead q' = (if hasStop q then ahead q else ahead q ++ [m])) ∨
    (isStopKind k = true ∧ hasStop q' = true ∧ ahead q' = ahead q)
  | .stopReq _ ok => ahead q' = ahead q ∧ hasStop q' = (hasStop q || ok)
  | .ctxStop ok => ahead q' = ahead q ∧ hasStop q' = (hasStop q || ok)
  | .fire _ mo =>
    (ahead q' = ahead q ∧ hasStop q' = hasStop q) ∨
    (∃ m, mo = some m ∧ hasStop q' = hasStop q ∧ ahead q' = (if hasStop q then ahead q else ahead q ++ [m]))
  | .cbBegin (.handle m) => ahead q = m :: ahead q' ∧ hasStop q' = hasStop q
  | .tDeq =>
    (ahead q' = ahead q ∧ hasStop q' = hasStop q ∧ alive' = true) ∨ (alive' = false ∧ ahead q = [] ∧ hasStop q = true)
  | .tickBegin _ m => ahead q' = m :: ahead q ∧ hasStop q' = hasStop q
  | .extBegin _ m => ahead q' = m :: ahead q ∧ hasStop q' = hasStop q
  | .cancel | .taskDone | .taskPanic => alive' = false
  | .tChanEnd => q' = q ∧ q = []
  | _ => ahead q' = ahead q ∧ hasStop q' = hasStop q

theorem trel_of_same {l : Label} {q q' : List Entry} {a : Bool} (h : q' = q)
    (h1 : ∀ m, l ≠ .cbBegin (.handle m)) (h2 : ∀ t m, l ≠ .tickBegin t m ∧ l ≠ .extBegin t m)
    (h3 : l ≠ .cancel ∧ l ≠ .taskDone ∧ l ≠ .taskPanic ∧ l ≠ .tChanEnd ∧ l ≠ .tDeq)
    (h4 : ∀ h, l ≠ .stopReq h true) (h5 : l ≠ .ctxStop true) : TRel l q q' a := by
  subst h
  cases l <;> simp_all [TRel]

/-- a submission of something that is neither a user message nor a stop request -/
theorem trel_of_enq_other {l : Label} {q q' : List Entry} {a : Bool} {e : Entry} (h : q' = q ++ [e])
    (hm : msgNo e.pl = none) (hst : isStopP e.pl = false)
    (h1 : ∀ m, l ≠ .cbBegin (.handle m)) (h2 : ∀ t m, l ≠ .tickBegin t m ∧ l ≠ .extBegin t m)
    (h3 : l ≠ .cancel ∧ l ≠ .taskDone ∧ l ≠ .taskPanic ∧ l ≠ .tChanEnd ∧ l ≠ .tDeq)
    (h4 : ∀ h, l ≠ .stopReq h true) (h5 : l ≠ .ctxStop true) : TRel l q q' a := by
  have ha : ahead q' = ahead q := by
    rw [h, ahead_snoc]; simp [hst, msgL, hm]
  have hh : hasStop q' = hasStop q := by
    rw [h, hasStop_snoc]; simp [hst]
  cases l <;> simp_all [TRel]

theorem stepSignal_q4 {w s h pl path ok s'} (hs : stepSignal w s h pl path ok = some s') :
    (ok = false ∧ s'.chan = s.chan) ∨ (ok = true ∧ ∃ tok, s'.chan.queue = s.chan.queue ++ [({ pl := pl, tok := tok } : Entry)]) := by
  unfold stepSignal at hs
  (repeat' (split at hs)) <;>
    (first
      | (simp at hs; done)
      | (simp at hs; subst hs; simp_all [push]; done))

theorem stepCtxSignal_q4 {w s req pl path ok s'} (hs : stepCtxSignal w s req pl path ok = some s') :
    (ok = false ∧ s'.chan = s.chan) ∨ (ok = true ∧ ∃ tok, s'.chan.queue = s.chan.queue ++ [({ pl := pl, tok := tok } : Entry)]) := by
  unfold stepCtxSignal at hs
  (repeat' (split at hs)) <;>
    (first
      | (simp at hs; done)
      | (simp at hs; subst hs; simp_all [push]; done))

theorem stepFire_q4 {w s t mo s'} (hs : stepFire w s t mo = some s') :
    s'.chan = s.chan ∨ ∃ m tok, mo = some m ∧ s'.chan.queue = s.chan.queue ++ [{ pl := .msg m none, tok }] := by
  unfold stepFire at hs
  (repeat' (split at hs)) <;>
    (first
      | (simp at hs; done)
      | (simp at hs; subst hs; simp [push]; done))

theorem stepTimerArm_q4 {w s t due s'} (hs : stepTimerArm w s t due = some s') :
    s'.chan = s.chan ∨ ∃ tok, s'.chan.queue = s.chan.queue ++ [{ pl := .tick t, tok }] := by
  unfold stepTimerArm at hs
  (repeat' (split at hs)) <;>
    (first
      | (simp at hs; done)
      | (simp at hs; subst hs; simp [push]; done))

theorem stepExtPush_q4 {s b s'} (hs : stepExtPush s b = some s') :
    s'.chan = s.chan ∨ ∃ tok, s'.chan.queue = s.chan.queue ++ [{ pl := .ext b, tok }] := by
  unfold stepExtPush at hs
  (repeat' (split at hs)) <;>
    (first
      | (simp at hs; done)
      | (simp at hs; subst hs; simp [push]; done))

theorem stepDeq_q4 {s s'} (hs : stepDeq s = some s') :
    ∃ e, s.chan.queue = e :: s'.chan.queue ∧ msgNo e.pl = none ∧ (isStopP e.pl = true → s'.phase = .leaving) ∧
      (isStopP e.pl = false → loopAlive s'.phase = true) := by
  unfold stepDeq at hs
  split at hs
  · rename_i e rest hph hq
    refine ⟨e, ?_⟩
    split at hs
    · simp at hs
    · simp only at hs
      (repeat' (split at hs)) <;>
        (first
          | (simp at hs; done)
          | (simp at hs; subst hs; simp_all [Chan.deq, msgNo, isStopP, loopAlive]; done))
  · simp at hs

theorem stepChanEnd_queue {w s s'} (hs : stepChanEnd w s = some s') : s.chan.queue = [] := by
  unfold stepChanEnd at hs
  split at hs
  · split at hs
    · rename_i hc
      simp at hc
      exact hc.1
    · simp at hs
  · simp at hs

theorem not_alive_of_done {s : AState} (h : s.isDone = true) : loopAlive s.phase = false := by
  unfold isDone at h
  cases hp : s.phase <;> simp_all [loopAlive]

theorem step_trel {w s l s'} (hs : step w s l = some s') :
    TRel l s.chan.queue s'.chan.queue (loopAlive s'.phase) := by
  have hdone := (step_isDone w hs).1
  cases l <;> simp only [step] at hs
  case begin o h k =>
    obtain ⟨st, -, hc⟩ := stepBegin_spec hs
    rcases hc with ⟨hc, -⟩ | ⟨hrx, tok, hc, hk1, hk2⟩
    · exact .inl (by rw [hc]; exact ⟨rfl, rfl⟩)
    · rw [hc]
      simp only [TRel, Chan.enq_queue, ahead_snoc, hasStop_snoc]
      cases k <;> simp_all [payloadOf, isStopP, msgL, msgNo, OpKind.msg?, isStopKind]
  case ret => exact trel_of_same (by rw [stepRet_chan hs]) (by simp) (by simp) (by simp) (by simp) (by simp)
  case cdrop => exact trel_of_same (by rw [stepCdrop_chan hs]) (by simp) (by simp) (by simp) (by simp) (by simp)
  case mk => exact trel_of_same (by rw [stepMk_chan hs]) (by simp) (by simp) (by simp) (by simp) (by simp)
  case upgrade => exact trel_of_same (by rw [stepUpgrade_chan hs]) (by simp) (by simp) (by simp) (by simp) (by simp)
  case detach => exact trel_of_same (by rw [stepDetach_chan hs]) (by simp) (by simp) (by simp) (by simp) (by simp)
  case drop => exact trel_of_same (by rw [stepDrop_chan hs]) (by simp) (by simp) (by simp) (by simp) (by simp)
  case stopReq h ok =>
    simp only [TRel]
    rcases stepSignal_q4 hs with ⟨rfl, hc⟩ | ⟨rfl, tok, hc⟩
    · rw [hc]; simp
    · rw [hc, ahead_snoc, hasStop_snoc]; simp [isStopP]
  case restartReq h ok =>
    rcases stepSignal_q4 hs with ⟨rfl, hc⟩ | ⟨rfl, tok, hc⟩
    · exact trel_of_same (by rw [hc]) (by simp) (by simp) (by simp) (by simp) (by simp)
    · exact trel_of_enq_other hc rfl rfl (by simp) (by simp) (by simp) (by simp) (by simp)
  case query => exact trel_of_same (by rw [stepQuery_chan hs]) (by simp) (by simp) (by simp) (by simp) (by simp)
  case cbBegin cb =>
    rcases stepCbBegin_detail hs with ⟨m, sl, tok, rest, rfl, hq, hc⟩ | ⟨hc, hne⟩
    · simp only [TRel]
      rw [hc, hq]
      simp [Chan.deq, hq, ahead_cons, hasStop_cons, isStopP, msgL, msgNo]
    · exact trel_of_same (by rw [hc]) (by intro m hm; simp at hm; exact hne m hm) (by simp) (by simp) (by simp)
        (by simp)
  case cbEnd => exact trel_of_same (by rw [stepCbEnd_chan hs]) (by simp) (by simp) (by simp) (by simp) (by simp)
  case cbAbandon =>
    exact trel_of_same (by rw [stepCbAbandon_chan hs]) (by simp) (by simp) (by simp) (by simp) (by simp)
  case cbPanic => exact trel_of_same (by rw [stepCbPanic_chan hs]) (by simp) (by simp) (by simp) (by simp) (by simp)
  case vnew => exact trel_of_same (by rw [stepVnew_chan hs]) (by simp) (by simp) (by simp) (by simp) (by simp)
  case work => exact trel_of_same (by rw [stepWork_chan hs]) (by simp) (by simp) (by simp) (by simp) (by simp)
  case ctxStop ok =>
    simp only [TRel]
    rcases stepCtxSignal_q4 hs with ⟨rfl, hc⟩ | ⟨rfl, tok, hc⟩
    · rw [hc]; simp
    · rw [hc, ahead_snoc, hasStop_snoc]; simp [isStopP]
  case ctxRestart ok =>
    rcases stepCtxSignal_q4 hs with ⟨rfl, hc⟩ | ⟨rfl, tok, hc⟩
    · exact trel_of_same (by rw [hc]) (by simp) (by simp) (by simp) (by simp) (by simp)
    · exact trel_of_enq_other hc rfl rfl (by simp) (by simp) (by simp) (by simp) (by simp)
  case ctxTimer => exact trel_of_same (by rw [stepCtxTimer_chan hs]) (by simp) (by simp) (by simp) (by simp) (by simp)
  case ctxWeak => exact trel_of_same (by rw [stepCtxWeak_chan hs]) (by simp) (by simp) (by simp) (by simp) (by simp)
  case fire t mo =>
    simp only [TRel]
    rcases stepFire_q4 hs with hc | ⟨m, tok, rfl, hc⟩
    · exact .inl (by rw [hc]; exact ⟨rfl, rfl⟩)
    · refine .inr ⟨m, rfl, ?_, ?_⟩
      · rw [hc, hasStop_snoc]; simp [isStopP]
      · rw [hc, ahead_snoc]; simp [isStopP, msgL, msgNo]
  case timerArm =>
    rcases stepTimerArm_q4 hs with hc | ⟨tok, hc⟩
    · exact trel_of_same (by rw [hc]) (by simp) (by simp) (by simp) (by simp) (by simp)
    · exact trel_of_enq_other hc rfl rfl (by simp) (by simp) (by simp) (by simp) (by simp)
  case timerEnd => exact trel_of_same (by rw [stepTimerEnd_chan hs]) (by simp) (by simp) (by simp) (by simp) (by simp)
  case tickBegin t m =>
    obtain ⟨tok, rest, hq, hc⟩ := stepTickBegin_detail hs
    simp only [TRel]
    rw [hc, hq]
    simp [ahead_cons, hasStop_cons, isStopP, msgL, msgNo]
  case extPush =>
    rcases stepExtPush_q4 hs with hc | ⟨tok, hc⟩
    · exact trel_of_same (by rw [hc]) (by simp) (by simp) (by simp) (by simp) (by simp)
    · exact trel_of_enq_other hc rfl rfl (by simp) (by simp) (by simp) (by simp) (by simp)
  case extBegin b m =>
    obtain ⟨tok, rest, hq, hc⟩ := stepExtBegin_detail hs
    simp only [TRel]
    rw [hc, hq]
    simp [ahead_cons, hasStop_cons, isStopP, msgL, msgNo]
  case time => exact trel_of_same (by rw [stepTime_chan hs]) (by simp) (by simp) (by simp) (by simp) (by simp)
  case cancel => exact not_alive_of_done (hdone rfl)
  case taskPanic => exact not_alive_of_done (hdone rfl)
  case streamReady =>
    exact trel_of_same (by rw [stepStreamReady_chan hs]) (by simp) (by simp) (by simp) (by simp) (by simp)
  case streamEnd =>
    exact trel_of_same (by rw [stepStreamEnd_chan hs]) (by simp) (by simp) (by simp) (by simp) (by simp)
  case taskDone => exact not_alive_of_done (hdone rfl)
  case quiescent =>
    simp only [stepQuiescent] at hs
    split at hs <;> simp at hs
    subst hs; exact ⟨rfl, rfl⟩
  case tDeq =>
    obtain ⟨e, hq, hm, hst, hal⟩ := stepDeq_q4 hs
    simp only [TRel]
    rw [hq, ahead_cons, hasStop_cons]
    cases he : isStopP e.pl
    · left; simp [msgL, hm, hal he]
    · right; simp [hst he, loopAlive]
  case tChanEnd =>
    exact ⟨by rw [stepChanEnd_chan hs], stepChanEnd_queue hs⟩
  case tStreamEnd =>
    exact trel_of_same (by rw [stepStreamEndTau_chan hs]) (by simp) (by simp) (by simp) (by simp) (by simp)

/-! ### phases -/

theorem alive_mono {w s l s'} (hs : step w s l = some s') (h : loopAlive s'.phase = true) :
    loopAlive s.phase = true := by
  by_cases hl : l.isExit = true
  · cases l <;> simp [Label.isExit] at hl <;> simp only [step] at hs
    · rw [(stepDeq_spec hs).1]; rfl
    · rw [(stepChanEnd_spec hs).1]; rfl
    · rw [(stepStreamEndTau_spec hs).1]; rfl
  · exact ((step_phase_facts hs (by simpa using hl)).1 h).1

def failingPh : Phase → Bool
  | .exiting false | .done false => true
  | _ => false

set_option maxHeartbeats 1000000 in
/-- the loop stops taking messages only by one of its three exits from `idle`, or by failing -/
theorem step_leave {w : Wiring} {s s' : AState} {l : Label} (hs : step w s l = some s')
    (ha : loopAlive s.phase = true) (hna : loopAlive s'.phase = false) :
    l.isExit = true ∨ failingPh s'.phase = true := by
  cases l <;> unfold_steps hs <;>
    ((repeat' (split at hs)) <;>
     (first
       | (simp at hs; done)
       | (simp at hs; subst hs; simp_all [loopAlive, failingPh, Label.isExit, fail, finish, cancelSlots, killTimers,
            setTimer, addOp, removeOp, removeHandle, push]; done)
       | (simp at hs; subst hs; unfold answer at hna; split at hna <;>
            simp_all [loopAlive, failingPh]; done)
       | (simp at hs; subst hs; cases hp : s.phase <;> simp_all [loopAlive, failingPh, Label.isExit]; done)))

end Hannibal
