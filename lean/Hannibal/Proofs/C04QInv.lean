import Hannibal.Props.C01
import Hannibal.Props.C04
import Hannibal.Proofs.C05Dead
import Hannibal.Proofs.C04QRel
import Hannibal.Proofs.C04QLatch
/-
  C04 (drain barrier): the coupling invariant between the actor model and `monC04q`, and its one-step
  preservation.  The C01 invariant runs alongside as a ghost (it knows that a message whose submission
  went through is handled, waiting, or dropped with the mailbox, and that an answered call was handled).
-/
namespace Hannibal
open AState

/-! ### model facts -/

theorem failingPh_eq (p : Phase) : failingPh p = failing p := by
  cases p <;> try rfl
  all_goals (rename_i g; cases g <;> rfl)

theorem stepCbBegin_handle_idle {w s m s'} (hs : stepCbBegin w s (.handle m) = some s') : s.phase = .idle := by
  unfold stepCbBegin at hs
  cases hph : s.phase <;> simp [hph] at hs
  rfl

theorem stepRet_phase {s o r s'} (hs : stepRet s o r = some s') : s'.phase = s.phase := by
  unfold stepRet at hs
  split at hs
  · simp at hs
  · split at hs
    · simp at hs; subst hs; exact retEffect_phase _ _
    · simp at hs

theorem retExpect_halt_ok {s : AState} {rec : OpRec} (hk : haltKind rec.kind = true)
    (h : s.retExpect rec = some .ok) : s.latch = .fired := by
  unfold retExpect at h
  cases hst : rec.st <;> simp only [hst] at h
  case pending =>
    cases hkk : rec.kind <;> simp [hkk, haltKind] at hk <;> simp only [hkk] at h <;>
      (unfold latchRes at h; cases hl : s.latch <;> simp [hl] at h; rfl)
  all_goals (cases hkk : rec.kind <;> simp [hkk, haltKind] at hk <;> simp_all)

theorem retExpect_send_ok {s : AState} {rec : OpRec} {m : Nat} (hk : sendMsg? rec.kind = some m)
    (h : s.retExpect rec = some .ok) : rec.st = .pending := by
  unfold retExpect at h
  cases hst : rec.st <;> simp only [hst] at h <;> try rfl
  all_goals (cases hkk : rec.kind <;> simp [hkk, sendMsg?] at hk <;> simp_all)

theorem retExpect_call_val {s : AState} {rec : OpRec} {m : Nat} {r : Res} (hk : callMsg? rec.kind = some m)
    (h : s.retExpect rec = some r) (hr : r.isErr = false) : ∃ rep, rec.st = .answered rep := by
  unfold retExpect at h
  cases hst : rec.st <;> simp only [hst] at h
  case answered rep => exact ⟨rep, rfl⟩
  all_goals (cases hkk : rec.kind <;> simp [hkk, callMsg?] at hk <;> simp_all [Res.isErr] <;>
    (try (subst h; simp at hr)))

theorem sendMsg_msg {k : OpKind} {m : Nat} (h : sendMsg? k = some m) :
    k.msg? = some m ∧ (isWaitOp k = true ∨ holderKind k = true) := by
  cases k <;> simp [sendMsg?] at h <;> simp [OpKind.msg?, isWaitOp, holderKind, h]

theorem callMsg_msg {k : OpKind} {m : Nat} (h : callMsg? k = some m) : k.msg? = some m := by
  cases k <;> simp [callMsg?] at h <;> simp [OpKind.msg?, h]

/-! ### the monitor's operation table -/

def OpsT (s : AState) (ops : List (Nat × OpKind)) : Prop := ∀ rec ∈ s.ops, lookup rec.o ops = some rec.kind

theorem opsT_step {w s l s'} {ops : List (Nat × OpKind)} (hi : OpsT s ops) (hs : step w s l = some s') :
    OpsT s' (opsNext4 ops l) := by
  by_cases hedge : l.isOpEdge = true
  · cases l <;> simp [Label.isOpEdge] at hedge
    case begin o h k =>
      simp only [step] at hs
      obtain ⟨hfresh, st, hops⟩ := stepBegin_ops hs
      have hne := findOp_none hfresh
      intro rec hrec
      rw [hops] at hrec
      simp only [opsNext4]
      rcases List.mem_append.mp hrec with hrec | hrec
      · rw [lookup_cons_other _ _ (fun he => hne rec hrec he.symm)]
        exact hi rec hrec
      · simp at hrec; subst hrec
        exact lookup_cons_self _ _ _
    case ret o r =>
      simp only [step] at hs
      obtain ⟨_, _, _, hops, _⟩ := stepRet_ops hs
      intro rec hrec
      rw [hops] at hrec
      exact hi rec (List.mem_filter.mp hrec).1
    case cdrop o =>
      simp only [step] at hs
      have hops := stepCdrop_ops hs
      intro rec hrec
      rw [hops] at hrec
      exact hi rec (List.mem_filter.mp hrec).1
  · have hedge' : l.isOpEdge = false := by simpa using hedge
    have hu := step_ops_upd hs hedge'
    have h1 : opsNext4 ops l = ops := by
      cases l <;> simp [Label.isOpEdge] at hedge' <;> rfl
    intro rec hrec
    obtain ⟨r, hr, ho, hk, _⟩ := mem_of_opsUpd hu hrec
    rw [h1, ho, hk]; exact hi r hr

/-! ### flags -/

theorem flagsq_step (w : Wiring) (c : MonCtx) {s s' : AState} {σ : C04qSt} {l : Label}
    (hi : ∃ sd, Flags04 c s σ.failure sd) (hs : step w s l = some s') :
    ∃ sd, Flags04 c s' (failureNext c σ l) sd := by
  obtain ⟨sd, hf⟩ := hi
  have := flags04_step w c
    (σ := { hold := HoldSt.init 0 .addr, failure := σ.failure, stoppedDone := sd, terminated := false }) hf hs
  simp only [next04_failure] at this
  exact ⟨_, this⟩

/-! ### the invariant -/

structure C04qInv (c : MonCtx) (s : AState) (σ : C04qSt) (σ1 : C01St) (g : Wf01St) : Prop where
  c01 : C01Inv s σ1 g
  hd : σ1.handled = σ.handled
  ops : OpsT s σ.ops
  fl : ∃ sd, Flags04 c s σ.failure sd
  term : σ.terminated = s.isDone
  lp : LatchPast s
  rx : RxInv s
  se : σ.streamEnded = s.streamEnded
  lateSeen : ∀ m ∈ σ.late, m ∈ g.seenM
  /-- nothing handled is late -/
  hl : ∀ m ∈ σ.handled, m ∉ σ.late
  /-- (a) no late message waits ahead of the first stop request -/
  a : loopAlive s.phase = true → ∀ m ∈ σ.late, m ∉ ahead s.chan.queue
  /-- an accepted stop request waits in the mailbox as long as the loop takes messages -/
  b : σ.stopAccepted = true → loopAlive s.phase = true → hasStop s.chan.queue = true
  n : loopAlive s.phase = true → σ.stopIssued = false → hasStop s.chan.queue = false
  /-- (b) a message acknowledged before the first stop request is handled or waits ahead of every stop -/
  sent : ∀ m ∈ σ.sentOk, m ∈ σ.handled ∨ off c σ = true ∨
    (loopAlive s.phase = true ∧ m ∈ ahead s.chan.queue)
  /-- the loop left without a stop request and without failing: no sender is left -/
  x : loopAlive s.phase = false → σ.stopIssued = true ∨ off c σ = true ∨ Dead05 s

theorem C04qInv.seenq {c s σ σ1 g} (hi : C04qInv c s σ σ1 g) : ∀ m ∈ ahead s.chan.queue, m ∈ g.seenM := by
  have hq : QInv _ _ _ _ _ _ := hi.c01.qc
  exact fun m hm => hq.seenq m (ahead_sub_qmsgs _ m hm)

theorem C04qInv.seenh {c s σ σ1 g} (hi : C04qInv c s σ σ1 g) : ∀ m ∈ σ.handled, m ∈ g.seenM := by
  have hq : QInv _ _ _ _ _ _ := hi.c01.qc
  rw [← hi.hd]; exact hq.seenh

theorem begin_fresh {g : Wf01St} {o h : Nat} {k : OpKind} {m : Nat} (hg : wfBad g (.begin o h k) = false)
    (hk : k.msg? = some m) : m ∉ g.seenM := by
  simp only [wfBad, Bool.or_eq_false_iff, hk] at hg; simpa using hg.2

theorem inv_a_step {w c s s' σ σ1 g l} (hi : C04qInv c s σ σ1 g) (hs : step w s l = some s')
    (hg : wfBad g l = false) (hal' : loopAlive s'.phase = true) :
    ∀ m ∈ lateNext σ l, m ∉ ahead s'.chan.queue := by
  intro m hm hma
  have hal := alive_mono hs hal'
  have ht := step_trel hs
  rw [hal'] at ht
  rcases trel_mem ht m hma with hold | hnew
  · rcases lateNext_cases hm with hl | ⟨o, h, k, rfl, hk, hsa⟩
    · exact hi.a hal m hl hold
    · exact begin_fresh hg hk (hi.seenq m hold)
  · have hfresh := newMsg_fresh hg hnew
    rcases lateNext_cases hm with hl | ⟨o, h, k, rfl, hk, hsa⟩
    · exact hfresh (hi.lateSeen m hl)
    · rcases hnew with ⟨o', h', k', he, _, hst⟩ | ⟨t, he⟩ | ⟨t, he⟩ | ⟨b, he⟩
      · rw [hi.b hsa hal] at hst; simp at hst
      all_goals simp at he

theorem inv_b_step {w c s s' σ σ1 g l} (hi : C04qInv c s σ σ1 g) (hs : step w s l = some s')
    (hacc : acceptedNext σ l = true) (hal' : loopAlive s'.phase = true) :
    hasStop s'.chan.queue = true := by
  have hal := alive_mono hs hal'
  have ht := step_trel hs
  rw [hal'] at ht
  rcases acceptedNext_cases hacc with h | ⟨h0, rfl⟩ | rfl | ⟨o, k, rfl, hlk, hk⟩
  · exact trel_stop_mono ht (hi.b h hal)
  · simp only [TRel] at ht; rw [ht.2]; simp
  · simp only [TRel] at ht; rw [ht.2]; simp
  · exfalso
    simp only [step] at hs
    obtain ⟨rec, hfind, hexp, -, hro⟩ := stepRet_ops hs
    obtain ⟨hrec, _⟩ := findOp_mem hfind
    have hkind := hi.ops rec hrec
    rw [hro, hlk] at hkind
    simp at hkind; subst hkind
    have hl := retExpect_halt_ok hk hexp
    rw [hi.lp hl] at hal; simp at hal

theorem inv_n_step {w c s s' σ σ1 g l} (hi : C04qInv c s σ σ1 g) (hs : step w s l = some s')
    (hal' : loopAlive s'.phase = true) (hiss : issuedNext σ.stopIssued l = false) :
    hasStop s'.chan.queue = false := by
  have hal := alive_mono hs hal'
  have ht := step_trel hs
  rw [hal'] at ht
  rw [issuedNext_or] at hiss
  simp only [Bool.or_eq_false_iff] at hiss
  cases hst : hasStop s'.chan.queue
  · rfl
  · rcases trel_stop_new ht hst with h | h
    · rw [hi.n hal hiss.1] at h; simp at h
    · rw [hiss.2] at h; simp at h

/-- the loop stops taking messages: the messages ahead of the stop are gone, or the run is off the hook -/
theorem leave_cases {w c s s' σ σ1 g l} (hi : C04qInv c s σ σ1 g) (hs : step w s l = some s')
    (hal : loopAlive s.phase = true) (hnal : loopAlive s'.phase = false) :
    off c (next04q c σ l) = true ∨
    (l = .tDeq ∧ ahead s.chan.queue = [] ∧ hasStop s.chan.queue = true) ∨
    (l = .tChanEnd ∧ s.chan.queue = [] ∧ s.sendersAlive w = false) := by
  have ht := step_trel hs
  rw [hnal] at ht
  rcases step_leave hs hal hnal with hex | hfail
  · cases l <;> simp [Label.isExit] at hex
    case tDeq =>
      simp only [TRel] at ht
      rcases ht with ⟨_, _, h⟩ | ⟨_, h1, h2⟩
      · simp at h
      · exact .inr (.inl ⟨rfl, h1, h2⟩)
    case tChanEnd =>
      simp only [TRel] at ht
      simp only [step] at hs
      exact .inr (.inr ⟨rfl, ht.2, (stepChanEnd_spec hs).2.1⟩)
    case tStreamEnd =>
      left
      apply off_mono
      simp only [step] at hs
      obtain ⟨_, h1, h2, _⟩ := stepStreamEndTau_spec hs
      obtain ⟨sd, hf⟩ := hi.fl
      unfold off
      rw [hi.se, ← hf.cfg, h1, h2]; simp
  · left
    obtain ⟨sd, hf⟩ := flagsq_step w c hi.fl hs
    apply off_of_failure
    show failureNext c σ l = true
    rw [hf.fail, ← failingPh_eq]; exact hfail

theorem inv_sent_step {w c s s' σ σ1 g l} (hi : C04qInv c s σ σ1 g) (hs : step w s l = some s') :
    ∀ m ∈ sentOkNext σ l, m ∈ handledNext σ.handled l ∨ off c (next04q c σ l) = true ∨
      (loopAlive s'.phase = true ∧ m ∈ ahead s'.chan.queue) := by
  intro m hm
  rcases sentOkNext_cases hm with hold | ⟨o, k, rfl, hlk, hk, hsi⟩
  · rcases hi.sent m hold with h | h | ⟨hal, hma⟩
    · exact .inl (handled_mono _ _ m h)
    · exact .inr (.inl (off_mono _ h))
    · cases hal' : loopAlive s'.phase
      · rcases leave_cases hi hs hal hal' with h | ⟨_, h, _⟩ | ⟨_, h, _⟩
        · exact .inr (.inl h)
        · rw [h] at hma; simp at hma
        · rw [h] at hma; simp at hma
      · have ht := step_trel hs
        rw [hal'] at ht
        rcases trel_keep ht m hma with h | rfl
        · exact .inr (.inr ⟨rfl, h⟩)
        · exact .inl (by simp [handledNext])
  · -- a send is acknowledged before any stop request was issued
    simp only [step] at hs
    have hch := stepRet_chan hs
    have hph := stepRet_phase hs
    obtain ⟨rec, hfind, hexp, -, hro⟩ := stepRet_ops hs
    obtain ⟨hrec, _⟩ := findOp_mem hfind
    have hkind := hi.ops rec hrec
    rw [hro, hlk] at hkind
    simp at hkind; subst hkind
    obtain ⟨hmsg, hwait⟩ := sendMsg_msg hk
    have hpend := retExpect_send_ok hk hexp
    cases hal : loopAlive s.phase
    · rcases hi.x hal with h | h | hd
      · rw [hsi] at h; simp at h
      · exact .inr (.inl (off_mono _ h))
      · rcases hwait with hwait | hhold
        · obtain ⟨e, he⟩ := (hd.no rec hrec).2 hwait
          rw [hpend] at he; simp at he
        · have he := (hd.no rec hrec).1 hhold
          rw [hpend] at he; simp at he
    · rcases hi.c01.live rec hrec m hmsg with ⟨e, he⟩ | hl | hl | hl
      · rw [hpend] at he; simp at he
      · left; rw [← hi.hd]; exact hl
      · right; right
        refine ⟨by rw [hph]; exact hal, ?_⟩
        rw [hch, ahead_of_no_stop (hi.n hal hsi)]
        exact hl
      · rcases hi.rx with hd | hrx
        · rw [not_alive_of_done hd] at hal; simp at hal
        · rw [hl] at hrx; simp at hrx

theorem inv_x_step {w c s s' σ σ1 g l} (hw : WellWired05 w) (hi : C04qInv c s σ σ1 g)
    (hs : step w s l = some s') (hnal : loopAlive s'.phase = false) :
    issuedNext σ.stopIssued l = true ∨ off c (next04q c σ l) = true ∨ Dead05 s' := by
  cases hal : loopAlive s.phase
  · rcases hi.x hal with h | h | h
    · exact .inl (issuedNext_mono _ h)
    · exact .inr (.inl (off_mono _ h))
    · exact .inr (.inr (dead_step hw h hs))
  · rcases leave_cases hi hs hal hnal with h | ⟨_, _, h⟩ | ⟨_, _, h⟩
    · exact .inr (.inl h)
    · left
      apply issuedNext_mono
      cases hsi : σ.stopIssued
      · rw [hi.n hal hsi] at h; simp at h
      · rfl
    · exact .inr (.inr (dead_step hw (dead_of_not_alive hw h) hs))

theorem answered_handled {s σ1 g} (hi : C01Inv s σ1 g) {rec : OpRec} (hrec : rec ∈ s.ops) {rep : Reply}
    (hst : rec.st = .answered rep) {m : Nat} (hm : rec.kind.msg? = some m) : m ∈ σ1.handled := by
  obtain ⟨_, h2⟩ := hi.ans.ans rec hrec rep hst m hm
  apply Classical.byContradiction
  intro hn
  rw [hi.ans.dkeys m hn] at h2; simp at h2

theorem inv_bad {w c s s' σ σ1 g l} (hi : C04qInv c s σ σ1 g) (hs : step w s l = some s') :
    bad04q c σ l = false := by
  cases l <;> try rfl
  case ret o r =>
    simp only [bad04q]
    cases hlk : lookup o σ.ops with
    | none => rfl
    | some k =>
      cases hk : callMsg? k with
      | none => simp [hk]
      | some m =>
        simp only [Option.bind_some, hk]
        cases hlate : σ.late.contains m
        · rfl
        · cases hr : r.isErr
          · exfalso
            simp only [step] at hs
            obtain ⟨rec, hfind, hexp, -, hro⟩ := stepRet_ops hs
            obtain ⟨hrec, _⟩ := findOp_mem hfind
            have hkind := hi.ops rec hrec
            rw [hro, hlk] at hkind
            simp at hkind; subst hkind
            obtain ⟨rep, hst⟩ := retExpect_call_val hk hexp hr
            have hh := answered_handled hi.c01 hrec hst (callMsg_msg hk)
            rw [hi.hd] at hh
            exact hi.hl m hh (by simpa using hlate)
          · rfl
  case cbBegin cb =>
    cases cb <;> try rfl
    rename_i m
    simp only [bad04q]
    cases hlate : σ.late.contains m
    · rfl
    · exfalso
      have ht := step_trel hs
      simp only [TRel] at ht
      simp only [step] at hs
      have hal : loopAlive s.phase = true := by rw [stepCbBegin_handle_idle hs]; rfl
      exact hi.a hal m (by simpa using hlate) (by rw [ht.1]; simp)
  case quiescent pend =>
    simp only [bad04q]
    cases hgd : guard04q c σ
    · rfl
    · obtain ⟨hsa, hoff⟩ := guard_not_off hgd
      simp only [step, stepQuiescent] at hs
      split at hs
      · rename_i hq
        simp only [Bool.and_eq_true] at hq
        have hquiet := hq.1.1
        unfold quiet at hquiet
        simp only [Bool.and_eq_true] at hquiet
        have hph := hquiet.1.1
        have hnal : loopAlive s.phase = false := by
          cases hal : loopAlive s.phase
          · rfl
          · have hst := hi.b hsa hal
            cases hp : s.phase <;> simp [hp, loopAlive] at hph hal
            have hqe : s.chan.queue = [] := by simpa using hph.1.1
            rw [hqe] at hst; simp at hst
        have hdone : s.isDone = true := by
          unfold isDone
          cases hp : s.phase <;> simp [hp, loopAlive] at hph hnal ⊢
        have hall : σ.sentOk.all (fun m => σ.handled.contains m) = true := by
          rw [List.all_eq_true]
          intro m hm
          rcases hi.sent m hm with h | h | ⟨h, _⟩
          · simpa using h
          · rw [hoff] at h; simp at h
          · rw [hnal] at h; simp at h
        rw [hall, hi.term, hdone]; rfl
      · simp at hs

theorem c04q_step (w : Wiring) (hw : WellWired05 w) (c : MonCtx)
    {s s' : AState} {σ : C04qSt} {σ1 : C01St} {g : Wf01St} {l : Label} (hi : C04qInv c s σ σ1 g)
    (hs : step w s l = some s') (hg : wfBad g l = false) :
    bad04q c σ l = false ∧ C04qInv c s' (next04q c σ l) (next01 σ1 l) (wfNext g l) := by
  have hbad := inv_bad hi hs
  obtain ⟨-, hc01'⟩ := c01_step w hi.c01 hs hg
  obtain ⟨hd1, hd2⟩ := step_isDone w hs
  refine ⟨hbad, ?_⟩
  refine
    { c01 := hc01'
      hd := by simp only [next01, next04q]; rw [hi.hd]
      ops := opsT_step hi.ops hs
      fl := flagsq_step w c hi.fl hs
      term := ?_
      lp := latchPast_step hs hi.lp
      rx := rxInv_step hs hi.rx
      se := ?_
      lateSeen := ?_
      hl := ?_
      a := fun hal' => inv_a_step hi hs hg hal'
      b := fun hacc hal' => inv_b_step hi hs hacc hal'
      n := fun hal' hiss => inv_n_step hi hs hal' hiss
      sent := inv_sent_step hi hs
      x := fun hnal => inv_x_step hw hi hs hnal }
  · -- terminated
    simp only [next04q, terminatedNext]
    cases ht : l.terminates
    · simp; rw [hd2 ht]; exact hi.term
    · simp [hd1 ht]
  · -- streamEnded
    simp only [next04q]
    rw [(step_cfg_stream hs).2, ← hi.se]
    cases l <;> simp [streamEndedNext]
  · -- late messages are known message numbers
    intro m hm
    rcases lateNext_cases hm with h | ⟨o, h, k, rfl, hk, _⟩
    · exact wf_seenM_mono g l m (hi.lateSeen m h)
    · simp [wfNext, hk]
  · -- nothing handled is late
    intro m hm hlate
    simp only [next04q] at hm hlate
    by_cases hcb : l = .cbBegin (.handle m)
    · subst hcb
      have : bad04q c σ (.cbBegin (.handle m)) = false := hbad
      simp only [bad04q] at this
      simp only [lateNext] at hlate
      simp [hlate] at this
    · have hm0 : m ∈ σ.handled := by
        cases l <;> simp only [handledNext] at hm <;> try exact hm
        rename_i cb
        cases cb <;> simp only at hm <;> try exact hm
        rename_i m0
        rcases List.mem_cons.mp hm with rfl | hm
        · exact absurd rfl hcb
        · exact hm
      rcases lateNext_cases hlate with h | ⟨o, h, k, rfl, hk, _⟩
      · exact hi.hl m hm0 h
      · exact begin_fresh hg hk (hi.seenh m hm0)

theorem c04q_init (c : MonCtx) :
    C04qInv c (AState.init c.cfg c.h0 c.k0) (monC04q c).init (monC01 c).init monWf01.init := by
  refine
    { c01 := c01_init c
      hd := rfl
      ops := by intro r hr; simp [AState.init] at hr
      fl := ⟨false, ⟨rfl, by simp [monC04q, AState.init, failing], by simp [AState.init, gracefulEnd]⟩⟩
      term := by simp [monC04q, AState.init, isDone]
      lp := latchPast_init _ _ _
      rx := rxInv_init _ _ _
      se := rfl
      lateSeen := by simp [monC04q]
      hl := by simp [monC04q]
      a := by simp [monC04q]
      b := by simp [monC04q]
      n := by simp [AState.init, Chan.init]
      sent := by simp [monC04q]
      x := by simp [AState.init, loopAlive] }

end Hannibal
