import Hannibal.Proofs.C12Step
import Hannibal.Proofs.Latch
/-
  Model facts behind C01: what one step does to the sequence of user messages waiting in the
  mailbox, to the receiver flag, to the statuses of the recorded operations, and to the slot of the
  open handler invocation.
-/
namespace Hannibal
open AState

def msgNo : Payload → Option Nat
  | .msg m _ => some m
  | _ => none

/-- the user messages waiting in the mailbox, oldest first -/
def qmsgs (c : Chan) : List Nat := c.queue.filterMap (fun e => msgNo e.pl)

/-- the payload an operation submits (when it submits one) -/
def payloadOf (o : Nat) : OpKind → Payload
  | .send m | .trySend m | .tryForce m => .msg m none
  | .call m | .callw m | .tryCall m => .msg m (some o)
  | .ping => .ping o
  | _ => .stop

theorem msgNo_payloadOf (o : Nat) (k : OpKind) (hk : k ≠ .await ∧ k ≠ .join) : msgNo (payloadOf o k) = k.msg? := by
  cases k <;> simp_all [payloadOf, msgNo, OpKind.msg?]

theorem plan_pl (w : Wiring) (hk : HKind) (o : Nat) (k : OpKind) (pl : Payload)
    (h : (plan w hk o k).pl = some pl) : pl = payloadOf o k ∧ k ≠ .await ∧ k ≠ .join := by
  cases k <;> simp [plan] at h <;> simp [payloadOf, h]

theorem qmsgs_enq (c : Chan) (e : Entry) :
    qmsgs (c.enq e) = qmsgs c ++ (match msgNo e.pl with | some m => [m] | none => []) := by
  unfold qmsgs
  rw [Chan.enq_queue, List.filterMap_append]
  cases h : msgNo e.pl <;> simp [h]

/-- How a step acts on (waiting messages, receiver flag). -/
def QRel (l : Label) (c c' : Chan) : Prop :=
  match l with
  | .begin _ _ k =>
    (qmsgs c' = qmsgs c ∧ c'.rx = c.rx) ∨
      (∃ m, k.msg? = some m ∧ qmsgs c' = qmsgs c ++ [m] ∧ c.rx = true ∧ c'.rx = true)
  | .fire _ mo =>
    (qmsgs c' = qmsgs c ∧ c'.rx = c.rx) ∨
      (∃ m, mo = some m ∧ qmsgs c' = qmsgs c ++ [m] ∧ c.rx = true ∧ c'.rx = true)
  | .tickBegin _ m => qmsgs c' = m :: qmsgs c ∧ c'.rx = c.rx
  | .extBegin _ m => qmsgs c' = m :: qmsgs c ∧ c'.rx = c.rx
  | .cbBegin (.handle m) => qmsgs c = m :: qmsgs c' ∧ c'.rx = c.rx
  | .cancel | .taskDone | .taskPanic => qmsgs c' = [] ∧ c'.rx = false
  | _ => qmsgs c' = qmsgs c ∧ c'.rx = c.rx

/-- the submission part of `begin` -/
theorem stepBegin_spec {w s o h k s'} (hs : stepBegin w s o h k = some s') :
    ∃ st, s'.ops = s.ops ++ [{ o, h, kind := k, st }] ∧
      ((s'.chan = s.chan ∧ (k.msg? = none ∨ ∃ e, st = .failed e)) ∨
       (s.chan.rx = true ∧ ∃ tok, s'.chan = s.chan.enq { pl := payloadOf o k, tok } ∧ k ≠ .await ∧ k ≠ .join)) := by
  unfold stepBegin at hs
  cases hk0 : s.handleKind h with
  | none => simp [hk0] at hs
  | some hk =>
    simp only [hk0] at hs
    by_cases hg : (!kindOk k hk || (s.findOp o).isSome) = true
    · rw [if_pos hg] at hs; simp at hs
    · rw [if_neg hg] at hs
      by_cases hreq : (!s.reqOk w (plan w hk o k).upg) = true
      · rw [if_pos hreq] at hs; simp at hs; subst hs
        exact ⟨_, rfl, .inl ⟨rfl, .inr ⟨_, rfl⟩⟩⟩
      · rw [if_neg hreq] at hs
        cases hpl : (plan w hk o k).pl with
        | none =>
          simp only [hpl] at hs; simp at hs; subst hs
          have hns : k.msg? = none := by cases k <;> simp [plan] at hpl <;> rfl
          obtain ⟨st, hst⟩ := beginWait_ops s o h k (plan w hk o k).join
          exact ⟨st, hst, .inl ⟨by simp, .inl hns⟩⟩
        | some pl =>
          simp only [hpl] at hs
          obtain ⟨rfl, hk1, hk2⟩ := plan_pl w hk o k pl hpl
          by_cases hrx : s.chan.rx = true
          · rw [if_pos hrx] at hs; simp at hs; subst hs
            obtain ⟨st, hst⟩ := beginWait_ops (s.push (payloadOf o k) (plan w hk o k).path (.op o)) o h k
              (plan w hk o k).join
            exact ⟨st, by simpa using hst, .inr ⟨hrx, (if (plan w hk o k).path = .waiting then .op o else .stale), by simp, hk1, hk2⟩⟩
          · rw [if_neg hrx] at hs; simp at hs; subst hs
            exact ⟨_, rfl, .inl ⟨rfl, .inr ⟨_, rfl⟩⟩⟩

theorem qrel_of_same {l : Label} {c c' : Chan} (h : c' = c)
    (h1 : ∀ m, l ≠ .cbBegin (.handle m)) (h2 : ∀ t m, l ≠ .tickBegin t m ∧ l ≠ .extBegin t m)
    (h3 : l ≠ .cancel ∧ l ≠ .taskDone ∧ l ≠ .taskPanic) : QRel l c c' := by
  subst h
  cases l <;> simp_all [QRel]

/-- a submission of something that is not a user message -/
theorem qrel_of_enq_other {l : Label} {c c' : Chan} (h : SameOrEnq c c')
    (hq : qmsgs c' = qmsgs c)
    (h1 : ∀ m, l ≠ .cbBegin (.handle m)) (h2 : ∀ t m, l ≠ .tickBegin t m ∧ l ≠ .extBegin t m)
    (h3 : l ≠ .cancel ∧ l ≠ .taskDone ∧ l ≠ .taskPanic) : QRel l c c' := by
  have hrx : c'.rx = c.rx := by
    rcases h with h | ⟨e, _, h⟩ <;> simp [h]
  cases l <;> simp_all [QRel]

theorem push_qmsgs_other (s : AState) (pl path tok) (h : msgNo pl = none) :
    qmsgs (s.push pl path tok).chan = qmsgs s.chan := by
  simp [qmsgs_enq, h]

theorem stepSignal_q {w s h pl path ok s'} (hs : stepSignal w s h pl path ok = some s') (hp : msgNo pl = none) :
    qmsgs s'.chan = qmsgs s.chan := by
  unfold stepSignal at hs
  (repeat' (split at hs)) <;>
    (first
      | (simp at hs; done)
      | (simp at hs; subst hs; first | rfl | exact push_qmsgs_other _ _ _ _ hp))

theorem stepCtxSignal_q {w s req pl path ok s'} (hs : stepCtxSignal w s req pl path ok = some s')
    (hp : msgNo pl = none) : qmsgs s'.chan = qmsgs s.chan := by
  unfold stepCtxSignal at hs
  (repeat' (split at hs)) <;>
    (first
      | (simp at hs; done)
      | (simp at hs; subst hs; first | rfl | exact push_qmsgs_other _ _ _ _ hp))

theorem stepTimerArm_q {w s t due s'} (hs : stepTimerArm w s t due = some s') :
    qmsgs s'.chan = qmsgs s.chan := by
  unfold stepTimerArm at hs
  (repeat' (split at hs)) <;>
    (first
      | (simp at hs; done)
      | (simp at hs; subst hs; first
          | rfl
          | (simp only [setTimer_chan]; first | rfl | exact push_qmsgs_other _ _ _ _ rfl)))

theorem stepFire_q {w s t mo s'} (hs : stepFire w s t mo = some s') : QRel (.fire t mo) s.chan s'.chan := by
  unfold stepFire at hs
  (repeat' (split at hs)) <;>
    (first
      | (simp at hs; done)
      | (simp at hs; subst hs; simp only [setTimer_chan]; exact .inl ⟨rfl, rfl⟩)
      | (simp at hs; subst hs; simp only [setTimer_chan]
         rename_i hc
         simp at hc
         exact .inr ⟨_, rfl, by simp [qmsgs_enq, msgNo], hc.2, by simp [hc.2]⟩))

theorem qmsgs_dropRx (c : Chan) : qmsgs c.dropRx = [] := rfl

/-- Every step acts on the waiting user messages as an append (submission), a pop of the head (the
    handler begins), a head insertion (a tick at the head gets its message id), or a wipe. -/
theorem step_q {w s l s'} (hs : step w s l = some s') : QRel l s.chan s'.chan := by
  cases l <;> simp only [step] at hs
  case begin o h k =>
    obtain ⟨st, -, hc⟩ := stepBegin_spec hs
    rcases hc with ⟨hc, -⟩ | ⟨hrx, tok, hc, hk⟩
    · exact .inl (by rw [hc]; exact ⟨rfl, rfl⟩)
    · rw [hc]
      cases hm : k.msg? with
      | none => exact .inl ⟨by simp [qmsgs_enq, msgNo_payloadOf o k hk, hm], by simp⟩
      | some m => exact .inr ⟨m, hm, by simp [qmsgs_enq, msgNo_payloadOf o k hk, hm], hrx, by simp [hrx]⟩
  case ret => exact qrel_of_same (stepRet_chan hs) (by simp) (by simp) (by simp)
  case cdrop => exact qrel_of_same (stepCdrop_chan hs) (by simp) (by simp) (by simp)
  case mk => exact qrel_of_same (stepMk_chan hs) (by simp) (by simp) (by simp)
  case upgrade => exact qrel_of_same (stepUpgrade_chan hs) (by simp) (by simp) (by simp)
  case detach => exact qrel_of_same (stepDetach_chan hs) (by simp) (by simp) (by simp)
  case drop => exact qrel_of_same (stepDrop_chan hs) (by simp) (by simp) (by simp)
  case stopReq =>
    exact qrel_of_enq_other (stepSignal_chan hs) (stepSignal_q hs rfl) (by simp) (by simp) (by simp)
  case restartReq =>
    exact qrel_of_enq_other (stepSignal_chan hs) (stepSignal_q hs rfl) (by simp) (by simp) (by simp)
  case query => exact qrel_of_same (stepQuery_chan hs) (by simp) (by simp) (by simp)
  case cbBegin cb =>
    rcases stepCbBegin_detail hs with ⟨m, sl, tok, rest, rfl, hq, hc⟩ | ⟨hc, hne⟩
    · simp only [QRel]
      rw [hc]
      exact ⟨by simp [qmsgs, Chan.deq, hq, msgNo], rfl⟩
    · exact qrel_of_same hc (by intro m hm; simp at hm; exact hne m hm) (by simp) (by simp)
  case cbEnd => exact qrel_of_same (stepCbEnd_chan hs) (by simp) (by simp) (by simp)
  case cbAbandon => exact qrel_of_same (stepCbAbandon_chan hs) (by simp) (by simp) (by simp)
  case cbPanic => exact qrel_of_same (stepCbPanic_chan hs) (by simp) (by simp) (by simp)
  case vnew => exact qrel_of_same (stepVnew_chan hs) (by simp) (by simp) (by simp)
  case work => exact qrel_of_same (stepWork_chan hs) (by simp) (by simp) (by simp)
  case ctxStop =>
    exact qrel_of_enq_other (stepCtxSignal_chan hs) (stepCtxSignal_q hs rfl) (by simp) (by simp) (by simp)
  case ctxRestart =>
    exact qrel_of_enq_other (stepCtxSignal_chan hs) (stepCtxSignal_q hs rfl) (by simp) (by simp) (by simp)
  case ctxTimer => exact qrel_of_same (stepCtxTimer_chan hs) (by simp) (by simp) (by simp)
  case ctxWeak => exact qrel_of_same (stepCtxWeak_chan hs) (by simp) (by simp) (by simp)
  case fire => exact stepFire_q hs
  case timerArm =>
    exact qrel_of_enq_other (stepTimerArm_chan hs) (stepTimerArm_q hs) (by simp) (by simp) (by simp)
  case timerEnd => exact qrel_of_same (stepTimerEnd_chan hs) (by simp) (by simp) (by simp)
  case tickBegin t m =>
    obtain ⟨tok, rest, hq, hc⟩ := stepTickBegin_detail hs
    simp only [QRel]
    rw [hc]
    exact ⟨by simp [qmsgs, hq, msgNo], rfl⟩
  case extPush =>
    refine qrel_of_enq_other (stepExtPush_chan hs) ?_ (by simp) (by simp) (by simp)
    unfold stepExtPush at hs
    split at hs <;> (simp at hs; subst hs; first | rfl | exact push_qmsgs_other _ _ _ _ rfl)
  case extBegin b m =>
    obtain ⟨tok, rest, hq, hc⟩ := stepExtBegin_detail hs
    simp only [QRel]
    rw [hc]
    exact ⟨by simp [qmsgs, hq, msgNo], rfl⟩
  case time => exact qrel_of_same (stepTime_chan hs) (by simp) (by simp) (by simp)
  case cancel => simp only [QRel]; rw [stepCancel_chan hs]; exact ⟨rfl, rfl⟩
  case taskPanic =>
    simp only [QRel]
    rcases stepTaskPanic_chan hs with h | ⟨_, h⟩ <;> (rw [h]; exact ⟨rfl, rfl⟩)
  case streamReady => exact qrel_of_same (stepStreamReady_chan hs) (by simp) (by simp) (by simp)
  case streamEnd => exact qrel_of_same (stepStreamEnd_chan hs) (by simp) (by simp) (by simp)
  case taskDone => simp only [QRel]; rw [stepTaskDone_chan hs]; exact ⟨rfl, rfl⟩
  case quiescent =>
    simp only [stepQuiescent] at hs
    split at hs <;> simp at hs
    subst hs; exact ⟨rfl, rfl⟩
  case tDeq =>
    obtain ⟨e, rest, hq, hne, hc⟩ := stepDeq_detail hs
    simp only [QRel]
    rw [hc]
    refine ⟨?_, rfl⟩
    have : msgNo e.pl = none := by
      cases hp : e.pl <;> simp [msgNo]
      exact hne _ _ hp
    simp [qmsgs, Chan.deq, hq, this]
  case tChanEnd => exact qrel_of_same (stepChanEnd_chan hs) (by simp) (by simp) (by simp)
  case tStreamEnd => exact qrel_of_same (stepStreamEndTau_chan hs) (by simp) (by simp) (by simp)

/-! ### operation statuses -/

/-- the only status changes a step other than `begin` / `ret` / `cdrop` makes: a pending operation is
    cancelled, pinged, or answered by the handler invocation that just ended -/
def StUpd (s : AState) (l : Label) (r : OpRec) (st' : OpSt) : Prop :=
  st' = .cancelled ∨ st' = .pinged ∨
    ∃ m dl, l = .cbEnd (.handle m) true ∧ s.phase = .handling (.handle m) (some r.o) dl ∧
      st' = .answered { m, birth := s.birth, digest := s.log }

def OpsUpd (s : AState) (l : Label) (s' : AState) : Prop :=
  ∃ f : OpRec → OpRec, s'.ops = s.ops.map f ∧
    ∀ r, f r = r ∨ (r.st = .pending ∧ ∃ st', f r = { r with st := st' } ∧ StUpd s l r st')

theorem OpsUpd.of_eq {s l s'} (h : s'.ops = s.ops) : OpsUpd s l s' :=
  ⟨fun r => r, by simp [h], fun _ => .inl rfl⟩

theorem OpsUpd.of_cancel {s l s'} (slots : List Nat) (h : s'.ops = (s.cancelSlots slots).ops) : OpsUpd s l s' := by
  refine ⟨fun r => if slots.contains r.o && r.st == .pending then { r with st := .cancelled } else r, h, ?_⟩
  intro r
  by_cases hc : (slots.contains r.o && r.st == .pending) = true
  · simp only [hc, if_true]
    simp at hc
    exact .inr ⟨hc.2, _, rfl, .inl rfl⟩
  · simp only [hc]; exact .inl rfl

theorem OpsUpd.of_ping {s l s'} (o : Nat)
    (h : s'.ops = s.ops.map (fun r => if r.o = o ∧ r.st = .pending then { r with st := .pinged } else r)) :
    OpsUpd s l s' := by
  refine ⟨_, h, ?_⟩
  intro r
  by_cases hc : r.o = o ∧ r.st = .pending
  · exact .inr ⟨hc.2, _, if_pos hc, .inr (.inl rfl)⟩
  · exact .inl (if_neg hc)

theorem OpsUpd.of_answer {s s'} (m : Nat) (slot : Option Nat) (dl : Option Nat) (ok : Bool)
    (hp : s.phase = .handling (.handle m) slot dl) (hok : ok = true)
    (h : s'.ops = (s.answer slot m).ops) : OpsUpd s (.cbEnd (.handle m) ok) s' := by
  subst hok
  cases slot with
  | none => exact .of_eq h
  | some o =>
    refine ⟨fun r => if r.o == o && r.st == .pending then
        { r with st := .answered { m, birth := s.birth, digest := s.log } } else r, h, ?_⟩
    intro r
    by_cases hc : (r.o == o && r.st == .pending) = true
    · simp only [hc, if_true]
      simp at hc
      refine .inr ⟨hc.2, _, rfl, .inr (.inr ⟨m, dl, rfl, ?_, rfl⟩)⟩
      rw [hp, hc.1]
    · simp only [hc]; exact .inl rfl

set_option maxHeartbeats 1000000 in
theorem step_ops_upd {w s l s'} (hs : step w s l = some s') (hl : l.isOpEdge = false) : OpsUpd s l s' := by
  cases l <;> simp [Label.isOpEdge] at hl
  case cbEnd cb ok =>
    simp only [step, stepCbEnd] at hs
    (repeat' (split at hs)) <;>
      (first
        | (simp at hs; done)
        | (simp at hs; subst hs; refine .of_eq ?_; simp; done)
        | (rename_i hp hc
           simp at hc hs
           obtain ⟨rfl, rfl⟩ := hc
           subst hs
           exact .of_answer _ _ _ _ hp rfl rfl))
  all_goals unfold_steps hs
  all_goals
    ((repeat' (split at hs)) <;>
     (first
       | (simp at hs; done)
       | (simp at hs; subst hs; first
           | exact .of_eq rfl
           | (refine .of_eq ?_; simp; done)
           | exact .of_cancel _ rfl
           | exact .of_ping _ rfl)))

/-! ### reply slots waiting in the mailbox -/

def slotNo : Payload → Option (Nat × Nat)
  | .msg m (some o) => some (m, o)
  | _ => none

/-- (message, call operation) pairs waiting in the mailbox -/
def qslots (c : Chan) : List (Nat × Nat) := c.queue.filterMap (fun e => slotNo e.pl)

theorem slotNo_payloadOf {o : Nat} {k : OpKind} {m o' : Nat} (h : slotNo (payloadOf o k) = some (m, o')) :
    o' = o ∧ k.msg? = some m := by
  cases k <;> simp [payloadOf, slotNo] at h <;> simp [OpKind.msg?, h]

theorem slotNo_none_of_msgNo {pl : Payload} (h : msgNo pl = none) : slotNo pl = none := by
  cases pl <;> simp [msgNo] at h <;> rfl

theorem qslots_enq (c : Chan) (e : Entry) :
    qslots (c.enq e) = qslots c ++ (match slotNo e.pl with | some x => [x] | none => []) := by
  unfold qslots
  rw [Chan.enq_queue, List.filterMap_append]
  cases h : slotNo e.pl <;> simp [h]

theorem qslots_of_enq_q {c c' : Chan} (h : SameOrEnq c c') (hq : qmsgs c' = qmsgs c) : qslots c' = qslots c := by
  rcases h with h | ⟨e, _, h⟩
  · rw [h]
  · rw [h, qmsgs_enq] at hq
    have : msgNo e.pl = none := by
      cases hm : msgNo e.pl with
      | none => rfl
      | some m => simp [hm] at hq
    rw [h, qslots_enq, slotNo_none_of_msgNo this]; simp

theorem qslots_deq_sub (c : Chan) : ∀ x ∈ qslots c.deq, x ∈ qslots c := by
  intro x hx
  unfold qslots Chan.deq at hx
  simp only at hx
  obtain ⟨e, he, hx⟩ := List.mem_filterMap.mp hx
  exact List.mem_filterMap.mpr ⟨e, List.mem_of_mem_tail he, hx⟩

def SRel (l : Label) (c c' : Chan) : Prop :=
  match l with
  | .begin o _ k => qslots c' = qslots c ∨ ∃ m, k.msg? = some m ∧ qslots c' = qslots c ++ [(m, o)]
  | _ => ∀ x ∈ qslots c', x ∈ qslots c

theorem srel_of_eq {l : Label} {c c' : Chan} (h : qslots c' = qslots c) : SRel l c c' := by
  cases l <;> simp only [SRel] <;> first | exact .inl h | (rw [h]; exact fun _ hx => hx)

theorem srel_of_sub {l : Label} {c c' : Chan} (hl : ∀ o h k, l ≠ .begin o h k)
    (h : ∀ x ∈ qslots c', x ∈ qslots c) : SRel l c c' := by
  cases l <;> simp only [SRel] <;> first | exact h | exact absurd rfl (hl _ _ _)

theorem stepFire_slots {w s t mo s'} (hs : stepFire w s t mo = some s') : qslots s'.chan = qslots s.chan := by
  unfold stepFire at hs
  (repeat' (split at hs)) <;>
    (first
      | (simp at hs; done)
      | (simp at hs; subst hs; first | rfl | (simp only [setTimer_chan]; done) | (simp [qslots_enq, slotNo]; done)))

theorem step_slots {w s l s'} (hs : step w s l = some s') : SRel l s.chan s'.chan := by
  have hq := step_q hs
  cases l <;> simp only [step] at hs
  case begin o h k =>
    obtain ⟨st, -, hc⟩ := stepBegin_spec hs
    rcases hc with ⟨hc, -⟩ | ⟨hrx, tok, hc, hk⟩
    · exact .inl (by rw [hc])
    · rw [hc]
      simp only [SRel, qslots_enq]
      cases hsl : slotNo (payloadOf o k) with
      | none => exact .inl (by simp)
      | some x =>
        obtain ⟨m, o'⟩ := x
        obtain ⟨rfl, hm⟩ := slotNo_payloadOf hsl
        exact .inr ⟨m, hm, rfl⟩
  case ret => exact srel_of_eq (by rw [stepRet_chan hs])
  case cdrop => exact srel_of_eq (by rw [stepCdrop_chan hs])
  case mk => exact srel_of_eq (by rw [stepMk_chan hs])
  case upgrade => exact srel_of_eq (by rw [stepUpgrade_chan hs])
  case detach => exact srel_of_eq (by rw [stepDetach_chan hs])
  case drop => exact srel_of_eq (by rw [stepDrop_chan hs])
  case stopReq => exact srel_of_eq (qslots_of_enq_q (stepSignal_chan hs) (stepSignal_q hs rfl))
  case restartReq => exact srel_of_eq (qslots_of_enq_q (stepSignal_chan hs) (stepSignal_q hs rfl))
  case query => exact srel_of_eq (by rw [stepQuery_chan hs])
  case cbBegin cb =>
    rcases stepCbBegin_detail hs with ⟨m, sl, tok, rest, rfl, hq, hc⟩ | ⟨hc, hne⟩
    · simp only [SRel]; rw [hc]; exact qslots_deq_sub _
    · exact srel_of_eq (by rw [hc])
  case cbEnd => exact srel_of_eq (by rw [stepCbEnd_chan hs])
  case cbAbandon => exact srel_of_eq (by rw [stepCbAbandon_chan hs])
  case cbPanic => exact srel_of_eq (by rw [stepCbPanic_chan hs])
  case vnew => exact srel_of_eq (by rw [stepVnew_chan hs])
  case work => exact srel_of_eq (by rw [stepWork_chan hs])
  case ctxStop => exact srel_of_eq (qslots_of_enq_q (stepCtxSignal_chan hs) (stepCtxSignal_q hs rfl))
  case ctxRestart => exact srel_of_eq (qslots_of_enq_q (stepCtxSignal_chan hs) (stepCtxSignal_q hs rfl))
  case ctxTimer => exact srel_of_eq (by rw [stepCtxTimer_chan hs])
  case ctxWeak => exact srel_of_eq (by rw [stepCtxWeak_chan hs])
  case fire => exact srel_of_eq (stepFire_slots hs)
  case timerArm => exact srel_of_eq (qslots_of_enq_q (stepTimerArm_chan hs) (stepTimerArm_q hs))
  case timerEnd => exact srel_of_eq (by rw [stepTimerEnd_chan hs])
  case tickBegin t m =>
    obtain ⟨tok, rest, hq, hc⟩ := stepTickBegin_detail hs
    refine srel_of_eq ?_
    rw [hc]; simp [qslots, hq, slotNo]
  case extPush =>
    refine srel_of_eq (qslots_of_enq_q (stepExtPush_chan hs) ?_)
    unfold stepExtPush at hs
    split at hs <;> (simp at hs; subst hs; first | rfl | exact push_qmsgs_other _ _ _ _ rfl)
  case extBegin b m =>
    obtain ⟨tok, rest, hq, hc⟩ := stepExtBegin_detail hs
    refine srel_of_eq ?_
    rw [hc]; simp [qslots, hq, slotNo]
  case time => exact srel_of_eq (by rw [stepTime_chan hs])
  case cancel => simp only [SRel]; rw [stepCancel_chan hs]; simp [qslots, Chan.dropRx]
  case taskPanic =>
    simp only [SRel]
    rcases stepTaskPanic_chan hs with h | ⟨_, h⟩ <;> (rw [h]; simp [qslots, Chan.dropRx])
  case streamReady => exact srel_of_eq (by rw [stepStreamReady_chan hs])
  case streamEnd => exact srel_of_eq (by rw [stepStreamEnd_chan hs])
  case taskDone => simp only [SRel]; rw [stepTaskDone_chan hs]; simp [qslots, Chan.dropRx]
  case quiescent =>
    simp only [stepQuiescent] at hs
    split at hs <;> simp at hs
    subst hs; exact fun _ hx => hx
  case tDeq =>
    simp only [SRel]; rw [(stepDeq_chan hs).2]; exact qslots_deq_sub _
  case tChanEnd => exact srel_of_eq (by rw [stepChanEnd_chan hs])
  case tStreamEnd => exact srel_of_eq (by rw [stepStreamEndTau_chan hs])

/-! ### the open handler invocation -/

/-- a handler invocation is open after the step: it was open before, or it just began on the head of
    the mailbox (whose reply slot it takes over) -/
theorem stepCbBegin_handling {w s cb s'} (hs : stepCbBegin w s cb = some s') :
    (∀ m slot dl, s.phase ≠ .handling (.handle m) slot dl) ∧
    ∀ m slot dl, s'.phase = .handling (.handle m) slot dl →
      cb = .handle m ∧ ∃ tok rest, s.chan.queue = { pl := .msg m slot, tok } :: rest := by
  unfold stepCbBegin at hs
  cases hph : s.phase <;> cases cb <;> simp only [hph] at hs <;> (try (simp at hs; done))
  all_goals refine ⟨by simp, ?_⟩
  case idle.handle m0 =>
    cases hq : s.chan.queue with
    | nil => simp [hq] at hs
    | cons e rest =>
      obtain ⟨pl, tok⟩ := e
      cases pl <;> simp [hq] at hs
      obtain ⟨⟨rfl, _⟩, rfl⟩ := hs
      intro m slot dl hp
      simp at hp
      obtain ⟨rfl, rfl, _⟩ := hp
      exact ⟨rfl, _, _, rfl⟩
  all_goals
    ((repeat' (split at hs)) <;>
      (first
        | (simp at hs; done)
        | (simp at hs; subst hs; intro m slot dl hp; simp [toStopping] at hp; done)))

theorem stepCbEnd_handle {w s m ok s'} (hs : stepCbEnd w s (.handle m) ok = some s') :
    (∃ slot dl, s.phase = .handling (.handle m) slot dl) ∧ s'.phase = .idle := by
  unfold stepCbEnd at hs
  split at hs
  · simp at hs
  · cases hph : s.phase <;> simp only [hph] at hs <;> (try (simp at hs; done))
    rename_i cb slot dl
    cases cb <;> (try (simp at hs; done))
    simp at hs
    obtain ⟨⟨rfl, _⟩, rfl⟩ := hs
    exact ⟨⟨_, _, rfl⟩, rfl⟩

end Hannibal
