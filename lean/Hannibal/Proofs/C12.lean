import Hannibal.Proofs.Ops
import Hannibal.Monitor.C12
import Batteries.Data.List.Perm
/-
  C12: coupling invariant between the actor model and the C12 monitor, and its
  preservation by every step.
-/
namespace Hannibal
open AState

/-- The waiting path is what `send` uses (read from the source by the translator). -/
def WellWired12 (w : Wiring) : Prop :=
  w.path .addrSend = .waiting ∧ w.path .senderSend = .waiting

instance (w : Wiring) : Decidable (WellWired12 w) := by unfold WellWired12; infer_instance

structure C12Inv (n : Nat) (s : AState) (σ : C12St) : Prop where
  wf : s.chan.WF
  cap : s.chan.cap = some n
  nodupOps : (s.ops.map (·.o)).Nodup
  sends : ∀ p ∈ σ.sends, ∃ r ∈ s.ops, r.o = p.1 ∧ isSendKind r.kind = some p.2
  outNodup : σ.out.Nodup
  outIn : σ.dead = false → ∀ m ∈ σ.out, ∃ e ∈ s.chan.queue.take n, e.pl = .msg m none
  pend : σ.dead = false → ∀ r ∈ s.ops, r.st = .pending → ∀ m, isSendKind r.kind = some m →
    (m ∈ σ.handled ∨ ∃ e ∈ s.chan.queue, e.tok = .op r.o ∧ e.pl = .msg m none)

theorem length_le_of_nodup_cover {α β : Type} [DecidableEq α] (l : List α) (l' : List β) (f : β → Option α)
    (hn : l.Nodup) (h : ∀ a ∈ l, ∃ b ∈ l', f b = some a) : l.length ≤ l'.length := by
  have hsub : l ⊆ l'.filterMap f := by
    intro a ha
    obtain ⟨b, hb, hfb⟩ := h a ha
    exact List.mem_filterMap.mpr ⟨b, hb, hfb⟩
  have := (List.subperm_of_subset hn hsub).length_le
  exact Nat.le_trans this (List.length_filterMap_le f l')

def msgOfEntry (e : Entry) : Option Nat :=
  match e.pl with
  | .msg m none => some m
  | _ => none

theorem out_length_le {n s σ} (hi : C12Inv n s σ) (hd : σ.dead = false) : σ.out.length ≤ n := by
  have h1 := length_le_of_nodup_cover σ.out (s.chan.queue.take n) msgOfEntry hi.outNodup
    (fun m hm => by
      obtain ⟨e, he, hpl⟩ := hi.outIn hd m hm
      exact ⟨e, he, by simp [msgOfEntry, hpl]⟩)
  exact Nat.le_trans h1 (by simp [List.length_take]; omega)

/-- the take-n prefix only grows under `enq` -/
theorem mem_take_enq {c : Chan} {e x : Entry} {n : Nat} (hx : x ∈ c.queue.take n) :
    x ∈ (c.enq e).queue.take n := by
  rw [Chan.enq_queue, List.take_append]
  exact List.mem_append_left _ hx

theorem mem_queue_enq {c : Chan} {e x : Entry} (hx : x ∈ c.queue) : x ∈ (c.enq e).queue := by
  rw [Chan.enq_queue]; exact List.mem_append_left _ hx

/-- ids stay duplicate-free under pointwise maps that keep ids -/
theorem nodup_of_opsMap {s s' : AState} (h : OpsMap s s') (hn : (s.ops.map (·.o)).Nodup) :
    (s'.ops.map (·.o)).Nodup := by
  obtain ⟨f, hf, pf⟩ := h
  rw [hf, List.map_map]
  have : ((fun x => x.o) ∘ f) = (fun x : OpRec => x.o) := by funext r; simp [pf.o]
  rw [this]; exact hn

/-- Steps that keep the operation table (pointwise) and only append to the queue keep the invariant. -/
theorem inv_sameOrEnq {n s s' σ} (hi : C12Inv n s σ) (hc : SameOrEnq s.chan s'.chan) (ho : OpsMap s s') :
    C12Inv n s' σ := by
  obtain ⟨f, hf, pf⟩ := ho
  have hmem : ∀ r' ∈ s'.ops, ∃ r ∈ s.ops, r' = f r := by
    intro r' hr'; rw [hf] at hr'
    obtain ⟨r, hr, rfl⟩ := List.mem_map.mp hr'; exact ⟨r, hr, rfl⟩
  have hnd := nodup_of_opsMap ⟨f, hf, pf⟩ hi.nodupOps
  have hsends : ∀ p ∈ σ.sends, ∃ r ∈ s'.ops, r.o = p.1 ∧ isSendKind r.kind = some p.2 := by
    intro p hp
    obtain ⟨r, hr, h1, h2⟩ := hi.sends p hp
    exact ⟨f r, by rw [hf]; exact List.mem_map_of_mem hr, by simp [pf.o, h1], by simp [pf.kind, h2]⟩
  rcases hc with hc | ⟨e, _, hc⟩
  · refine ⟨by rw [hc]; exact hi.wf, by rw [hc]; exact hi.cap, hnd, hsends, hi.outNodup, ?_, ?_⟩
    · intro hd m hm; rw [hc]; exact hi.outIn hd m hm
    · intro hd r' hr' hst m hk
      obtain ⟨r, hr, rfl⟩ := hmem r' hr'
      rw [hc]
      have := hi.pend hd r hr (pf.st r hst) m (by simpa [pf.kind] using hk)
      simpa [pf.o] using this
  · refine ⟨by rw [hc]; exact Chan.wf_enq _ _ hi.wf, by rw [hc, Chan.enq_cap]; exact hi.cap, hnd, hsends,
      hi.outNodup, ?_, ?_⟩
    · intro hd m hm
      obtain ⟨x, hx, hpl⟩ := hi.outIn hd m hm
      exact ⟨x, by rw [hc]; exact mem_take_enq hx, hpl⟩
    · intro hd r' hr' hst m hk
      obtain ⟨r, hr, rfl⟩ := hmem r' hr'
      rcases hi.pend hd r hr (pf.st r hst) m (by simpa [pf.kind] using hk) with h | ⟨x, hx, h1, h2⟩
      · exact .inl h
      · exact .inr ⟨x, by rw [hc]; exact mem_queue_enq hx, by simpa [pf.o] using h1, h2⟩

/-- Once the monitor regards the actor as terminated only the structural parts matter. -/
theorem inv_dead {n s s' σ} (hi : C12Inv n s σ) (hwf : s'.chan.WF) (hcap : s'.chan.cap = some n)
    (ho : OpsMap s s') : C12Inv n s' { σ with dead := true } := by
  obtain ⟨f, hf, pf⟩ := ho
  refine ⟨hwf, hcap, nodup_of_opsMap ⟨f, hf, pf⟩ hi.nodupOps, ?_, hi.outNodup, by simp, by simp⟩
  intro p hp
  obtain ⟨r, hr, h1, h2⟩ := hi.sends p hp
  exact ⟨f r, by rw [hf]; exact List.mem_map_of_mem hr, by simp [pf.o, h1], by simp [pf.kind, h2]⟩

/-- Dequeuing a head entry: queue entries other than the head stay, within the first n too. -/
theorem inv_deq {n s s' σ} (hi : C12Inv n s σ) (e : Entry) (rest : List Entry)
    (hq : s.chan.queue = e :: rest) (hc : s'.chan = s.chan.deq) (ho : OpsMap s s')
    (σ' : C12St) (hsends : σ'.sends = σ.sends) (hdead : σ'.dead = σ.dead)
    (hout : σ'.out.Nodup)
    (houtsub : ∀ m ∈ σ'.out, m ∈ σ.out ∧ e.pl ≠ .msg m none)
    (hhandled : ∀ m, m ∈ σ.handled → m ∈ σ'.handled)
    (hhead : ∀ m, e.pl = .msg m none → m ∈ σ'.handled) :
    C12Inv n s' σ' := by
  have hq' : s'.chan.queue = rest := by rw [hc]; simp [Chan.deq, hq]
  obtain ⟨f, hf, pf⟩ := ho
  have hmem : ∀ r' ∈ s'.ops, ∃ r ∈ s.ops, r' = f r := by
    intro r' hr'; rw [hf] at hr'
    obtain ⟨r, hr, rfl⟩ := List.mem_map.mp hr'; exact ⟨r, hr, rfl⟩
  refine ⟨by rw [hc]; exact Chan.wf_deq _ hi.wf, by rw [hc]; exact hi.cap,
    nodup_of_opsMap ⟨f, hf, pf⟩ hi.nodupOps, ?_, hout, ?_, ?_⟩
  · intro p hp
    rw [hsends] at hp
    obtain ⟨r, hr, h1, h2⟩ := hi.sends p hp
    exact ⟨f r, by rw [hf]; exact List.mem_map_of_mem hr, by simp [pf.o, h1], by simp [pf.kind, h2]⟩
  · intro hd m hm
    obtain ⟨hm1, hne⟩ := houtsub m hm
    obtain ⟨x, hx, hpl⟩ := hi.outIn (by rw [← hdead]; exact hd) m hm1
    rw [hq] at hx
    refine ⟨x, ?_, hpl⟩
    rw [hq']
    cases n with
    | zero => simp at hx
    | succ k =>
      simp at hx
      rcases hx with rfl | hx
      · exact absurd hpl hne
      · exact (List.take_subset_take_left rest (Nat.le_succ k)) hx
  · intro hd r' hr' hst m hk
    obtain ⟨r, hr, rfl⟩ := hmem r' hr'
    rcases hi.pend (by rw [← hdead]; exact hd) r hr (pf.st r hst) m (by simpa [pf.kind] using hk) with
      h | ⟨x, hx, h1, h2⟩
    · exact .inl (hhandled m h)
    · rw [hq] at hx
      simp at hx
      rcases hx with rfl | hx
      · exact .inl (hhead m h2)
      · exact .inr ⟨x, by rw [hq']; exact hx, by simpa [pf.o] using h1, h2⟩

/-- A head entry that is not a user message (a tick, a broadcast) gets its message id: nothing else moves. -/
theorem inv_rename_pl {n s s' σ} (hi : C12Inv n s σ) (pl : Payload) (hnm : ∀ m', pl ≠ .msg m' none)
    (m : Nat) (tok : Tok) (rest : List Entry)
    (hq : s.chan.queue = { pl := pl, tok } :: rest)
    (hc : s'.chan = { s.chan with queue := { pl := .msg m none, tok } :: rest }) (ho : OpsMap s s') :
    C12Inv n s' σ := by
  obtain ⟨f, hf, pf⟩ := ho
  have hmem : ∀ r' ∈ s'.ops, ∃ r ∈ s.ops, r' = f r := by
    intro r' hr'; rw [hf] at hr'
    obtain ⟨r, hr, rfl⟩ := List.mem_map.mp hr'; exact ⟨r, hr, rfl⟩
  refine ⟨by rw [hc]; exact Chan.wf_rename _ _ _ _ _ hq hi.wf, by rw [hc]; exact hi.cap,
    nodup_of_opsMap ⟨f, hf, pf⟩ hi.nodupOps, ?_, hi.outNodup, ?_, ?_⟩
  · intro p hp
    obtain ⟨r, hr, h1, h2⟩ := hi.sends p hp
    exact ⟨f r, by rw [hf]; exact List.mem_map_of_mem hr, by simp [pf.o, h1], by simp [pf.kind, h2]⟩
  · intro hd m' hm
    obtain ⟨x, hx, hpl⟩ := hi.outIn hd m' hm
    rw [hq] at hx
    refine ⟨x, ?_, hpl⟩
    rw [hc]
    cases n with
    | zero => simp at hx
    | succ k =>
      simp at hx ⊢
      rcases hx with rfl | hx
      · exact absurd hpl (hnm _)
      · exact .inr hx
  · intro hd r' hr' hst m' hk
    obtain ⟨r, hr, rfl⟩ := hmem r' hr'
    rcases hi.pend hd r hr (pf.st r hst) m' (by simpa [pf.kind] using hk) with h | ⟨x, hx, h1, h2⟩
    · exact .inl h
    · rw [hq] at hx
      simp at hx
      rcases hx with rfl | hx
      · exact absurd h2 (hnm _)
      · exact .inr ⟨x, by rw [hc]; simp [hx], by simpa [pf.o] using h1, h2⟩

/-- A tick at the head of the queue gets its message id: nothing else moves. -/
theorem inv_rename {n s s' σ} (hi : C12Inv n s σ) (t m : Nat) (tok : Tok) (rest : List Entry)
    (hq : s.chan.queue = { pl := .tick t, tok } :: rest)
    (hc : s'.chan = { s.chan with queue := { pl := .msg m none, tok } :: rest }) (ho : OpsMap s s') :
    C12Inv n s' σ :=
  inv_rename_pl hi (.tick t) (by simp) m tok rest hq hc ho

end Hannibal
