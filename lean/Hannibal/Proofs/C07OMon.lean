import Hannibal.Monitor.C07
import Hannibal.Proofs.Handles
/- `monC07o` in guard / update form. -/
set_option linter.unusedSimpArgs false
namespace Hannibal

def restartable (c : MonCtx) : Bool := !c.cfg.stream && c.cfg.strat != .non

def quiet07 : Label → Bool
  | .stopReq _ _ | .ctxStop _ | .cbBegin .stopped | .begin _ _ .halt | .begin _ _ .tryHalt
  | .begin _ _ .consume => true
  | l => l.terminates

/-- (ii): a non-restartable plain actor that ignored a restart request keeps its repeating timers -/
def badIgn (c : MonCtx) (σ : C07oSt) (l : Label) : Bool :=
  !restartable c && !c.cfg.stream && decide (σ.accepted > 0) && !σ.quiet && !σ.failure
    && σ.hold.strongHeld && (match l with
      | .timerEnd t => (match lookup t σ.timers with
          | some .interval | some .intervalWith => true
          | _ => false)
      | _ => false)

/-- (i): the handler of a message submitted after `n` accepted restart requests runs in incarnation `n + 1`
    (in incarnation 1 if the spawn is not restartable); none runs after a failure -/
def badOrd (c : MonCtx) (σ : C07oSt) : Label → Bool
  | .cbBegin (.handle m) =>
    σ.failure || (match lookup m σ.expect with
      | some n => if restartable c then !(σ.inc == n + 1) else !(σ.inc == 1)
      | none => false)
  | _ => false

def next07o (σ : C07oSt) (l : Label) : C07oSt :=
  { inc := (match l with | .cbBegin .started => σ.inc + 1 | _ => σ.inc)
    accepted := (match l with | .restartReq _ true | .ctxRestart true => σ.accepted + 1 | _ => σ.accepted)
    expect := (match l with
      | .begin _ _ k => (match k.msg? with | some m => (m, σ.accepted) :: σ.expect | none => σ.expect)
      | _ => σ.expect)
    failure := σ.failure || l.isFailure
    hold := σ.hold.step l
    quiet := σ.quiet || quiet07 l
    timers := (match l with | .ctxTimer t k _ => (t, k) :: σ.timers | _ => σ.timers) }

theorem mon07o_eq (c : MonCtx) (σ : C07oSt) (l : Label) :
    (monC07o c).step σ l = if badIgn c σ l || badOrd c σ l then none else some (next07o σ l) := by
  cases l
  case cbBegin cb =>
    cases cb <;>
      simp [monC07o, badIgn, badOrd, next07o, quiet07, restartable, Label.isFailure, Label.terminates]
    rename_i m
    cases hf : σ.failure <;> simp
    cases hl : lookup m σ.expect <;> simp
    split <;> split <;> simp_all
  case cbEnd cb ok =>
    cases cb <;> cases ok <;>
      simp [monC07o, badIgn, badOrd, next07o, quiet07, restartable, Label.isFailure, Label.terminates]
  case begin o h k =>
    cases k <;>
      simp [monC07o, badIgn, badOrd, next07o, quiet07, restartable, Label.isFailure, Label.terminates, OpKind.msg?]
  case restartReq h ok =>
    cases ok <;>
      simp [monC07o, badIgn, badOrd, next07o, quiet07, restartable, Label.isFailure, Label.terminates]
  case ctxRestart ok =>
    cases ok <;>
      simp [monC07o, badIgn, badOrd, next07o, quiet07, restartable, Label.isFailure, Label.terminates]
  case timerEnd t =>
    simp only [monC07o, badIgn, badOrd, next07o, quiet07, restartable, Label.isFailure, Label.terminates]
    split <;> simp_all
  all_goals
    simp [monC07o, badIgn, badOrd, next07o, quiet07, restartable, Label.isFailure, Label.terminates]

end Hannibal
