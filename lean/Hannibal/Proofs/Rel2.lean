/- Pointwise relation between two lists (core Lean has no `List.Forall₂`). -/
namespace Hannibal

inductive Rel2 {α β : Type} (r : α → β → Prop) : List α → List β → Prop where
  | nil : Rel2 r [] []
  | cons {a b as bs} : r a b → Rel2 r as bs → Rel2 r (a :: as) (b :: bs)

namespace Rel2
variable {α β : Type} {r : α → β → Prop}

theorem append_single {l : List α} {l' : List β} (h : Rel2 r l l') {a : α} {b : β} (hab : r a b) :
    Rel2 r (l ++ [a]) (l' ++ [b]) := by
  induction h with
  | nil => exact .cons hab .nil
  | cons h1 _ ih => exact .cons h1 ih

theorem map {α' β' : Type} {r' : α' → β' → Prop} {l : List α} {l' : List β} (h : Rel2 r l l')
    (f : α → α') (g : β → β') (hfg : ∀ a b, r a b → r' (f a) (g b)) : Rel2 r' (l.map f) (l'.map g) := by
  induction h with
  | nil => exact .nil
  | cons h1 _ ih => exact .cons (hfg _ _ h1) ih

/-- `map` where the pointwise step may use membership in the left list -/
theorem map_mem {α' β' : Type} {r' : α' → β' → Prop} {l : List α} {l' : List β} (h : Rel2 r l l')
    (f : α → α') (g : β → β') (hfg : ∀ a b, a ∈ l → r a b → r' (f a) (g b)) : Rel2 r' (l.map f) (l'.map g) := by
  induction h with
  | nil => exact .nil
  | @cons a b as bs h1 _ ih =>
    exact .cons (hfg _ _ (by simp) h1) (ih (fun a' b' ha' hr => hfg a' b' (by simp [ha']) hr))

theorem mono {r' : α → β → Prop} {l : List α} {l' : List β} (h : Rel2 r l l') (hrr : ∀ a b, r a b → r' a b) :
    Rel2 r' l l' := by
  induction h with
  | nil => exact .nil
  | cons h1 _ ih => exact .cons (hrr _ _ h1) ih

theorem find {l : List α} {l' : List β} (h : Rel2 r l l') (p : α → Bool) (q : β → Bool)
    (hpq : ∀ a b, r a b → p a = q b) :
    (∀ a, l.find? p = some a → ∃ b, l'.find? q = some b ∧ r a b) ∧ (l.find? p = none → l'.find? q = none) := by
  induction h with
  | nil => simp
  | @cons a b as bs h1 _ ih =>
    simp only [List.find?_cons]
    rw [← hpq a b h1]
    cases hp : p a
    · simpa using ih
    · simp; exact h1

end Rel2
end Hannibal
