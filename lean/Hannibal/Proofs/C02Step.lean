import Hannibal.Proofs.C02Inv
/-
  C02: preservation of the per-operation coupling `opOk`.
-/
set_option linter.unusedSimpArgs false
set_option linter.unusedVariables false
namespace Hannibal
open AState

theorem stOk_mono {fin fin' : List Nat} {k : OpKind} {st : OpSt}
    (h : ∀ m, fin.contains m = true → fin'.contains m = true) (hs : stOk fin k st = true) :
    stOk fin' k st = true := by
  cases st <;> simp_all [stOk]

theorem opOk_parts {σ : C02St} {r : OpRec} (h : opOk σ r = true) :
    ∃ late, lookup r.o σ.ops = some (r.kind, late) ∧ σ.returned.contains r.o = false ∧
      (late = true → lateSt r.kind r.st = true) ∧ stOk σ.finishedOk r.kind r.st = true := by
  unfold opOk at h
  cases hl : lookup r.o σ.ops with
  | none => simp [hl] at h
  | some v =>
    obtain ⟨k, late⟩ := v
    simp [hl] at h
    obtain ⟨⟨⟨hk, hret⟩, hlate⟩, hst⟩ := h
    subst hk
    refine ⟨late, rfl, by simpa using hret, ?_, hst⟩
    intro hl'; subst hl'; simpa using hlate

theorem opOk_of_parts {σ : C02St} {r : OpRec} {late : Bool} (h1 : lookup r.o σ.ops = some (r.kind, late))
    (h2 : σ.returned.contains r.o = false) (h3 : late = true → lateSt r.kind r.st = true)
    (h4 : stOk σ.finishedOk r.kind r.st = true) : opOk σ r = true := by
  unfold opOk
  simp only [h1]
  cases late
  · simp_all
  · simp_all

theorem opOk_next02 {σ : C02St} {l : Label} {r : OpRec} (hf : freshFor σ l)
    (hnr : ∀ o res, l = .ret o res → r.o ≠ o) (h : opOk σ r = true) : opOk (next02 σ l) r = true := by
  obtain ⟨late, h1, h2, h3, h4⟩ := opOk_parts h
  refine opOk_of_parts (lookup_next02 hf h1) ?_ h3 ?_
  · cases l <;> simp only [next02_returned] <;> try exact h2
    rename_i o res
    have := hnr o res rfl
    simp at h2 ⊢
    exact ⟨this, h2⟩
  · refine stOk_mono ?_ h4
    intro m hm
    simp only [next02_finishedOk]
    split
    · simp at hm ⊢; exact .inr hm
    · exact hm

/-- a pending call / ping changes state -/
theorem opOk_upd {σ : C02St} {r : OpRec} {st' : OpSt} (h : opOk σ r = true) (hp : r.st = .pending)
    (hk : r.kind.isCall = true ∨ r.kind = .ping) (hst : stOk σ.finishedOk r.kind st' = true) :
    opOk σ { r with st := st' } = true := by
  obtain ⟨late, h1, h2, h3, h4⟩ := opOk_parts h
  refine opOk_of_parts (late := late) h1 h2 ?_ hst
  intro hl
  have := h3 hl
  rw [hp] at this
  simp [lateSt] at this
  rcases hk with hk | hk <;> simp [this, OpKind.isCall] at hk

theorem cancelSlots_ops (s : AState) (slots : List Nat) :
    (s.cancelSlots slots).ops =
      s.ops.map (fun r => if slots.contains r.o && r.st == .pending then { r with st := .cancelled } else r) := rfl

theorem answer_some_ops (s : AState) (o m : Nat) :
    (s.answer (some o) m).ops =
      s.ops.map (fun r => if r.o == o && r.st == .pending then
        { r with st := .answered { m, birth := s.birth, digest := s.log } } else r) := rfl

theorem ops_step {w : Wiring} {s s' : AState} {σ : C02St} {l : Label} (hf : freshFor σ l)
    (hs : step w s l = some s') (hops : ∀ r ∈ s.ops, opOk σ r = true)
    (hret : ∀ o ∈ σ.returned, (lookup o σ.ops).isSome = true)
    (hq : ∀ e ∈ s.chan.queue, plOk σ e.pl = true) (hp : phaseOk σ s.phase = true)
    (hdc : DoneChan s) (hterm : σ.terminated = s.isDone) :
    ∀ r' ∈ s'.ops, opOk (next02 σ l) r' = true := by
  by_cases hedge : l.isOpEdge = true
  · cases l <;> simp [Label.isOpEdge] at hedge
    case begin o h k =>
      simp only [step] at hs
      obtain ⟨_, _, st, hops', hout⟩ := stepBegin_spec02 hs
      simp only [freshFor] at hf
      intro r' hr'
      rw [hops'] at hr'
      rcases List.mem_append.mp hr' with hr' | hr'
      · exact opOk_next02 (l := .begin o h k) hf (by intro _ _ h; cases h) (hops r' hr')
      · simp at hr'; subst hr'
        refine opOk_of_parts (late := σ.terminated) (by simp [lookup]) ?_ ?_ ?_
        · simp only [next02_returned]
          cases hc : σ.returned.contains o
          · rfl
          · have := hret o (by simpa using hc)
            simp [hf] at this
        · intro hl
          rw [hterm] at hl
          obtain ⟨hrx, _⟩ := hdc hl
          cases hout with
          | refused e hst _ _ => subst hst; rfl
          | wait _ _ hst =>
            rcases hst with ⟨rfl, rfl⟩ | ⟨rfl, rfl | rfl⟩ <;> rfl
          | sent pl tok _ hrx' _ _ => simp [hrx] at hrx'
        · cases hout with
          | refused e hst _ hk => subst hst; cases k <;> simp_all [stOk, planPl]
          | wait _ _ hst =>
            rcases hst with ⟨rfl, rfl⟩ | ⟨rfl, rfl | rfl⟩ <;> rfl
          | sent pl tok hpl _ _ hst =>
            rcases hst with ⟨rfl, rfl | rfl⟩ | ⟨hk, rfl⟩
            · rfl
            · rfl
            · cases k <;> simp_all [stOk, planPl]
    case ret o res =>
      simp only [step] at hs
      obtain ⟨_, _, _, hops', _⟩ := stepRet_ops hs
      intro r' hr'
      rw [hops'] at hr'
      obtain ⟨hm, hne⟩ := List.mem_filter.mp hr'
      refine opOk_next02 (l := .ret o res) trivial ?_ (hops r' hm)
      intro o' res' h; cases h; simpa using hne
    case cdrop o =>
      simp only [step] at hs
      have hops' := stepCdrop_ops hs
      intro r' hr'
      rw [hops'] at hr'
      exact opOk_next02 (l := .cdrop o) trivial (by intro _ _ h; cases h) (hops r' (List.mem_filter.mp hr').1)
  · have hedge' : l.isOpEdge = false := by simpa using hedge
    have hnr : ∀ (r : OpRec) o res, l = .ret o res → r.o ≠ o := by
      intro r o res h; subst h; simp [Label.isOpEdge] at hedge'
    have hkind : ∀ r ∈ s.ops, r.o ∈ s.slotsLive → (r.kind.isCall = true ∨ r.kind = .ping) := by
      intro r hr ho
      obtain ⟨k, late, hl, hk⟩ := slot_kind hq hp ho
      obtain ⟨late', hl', _⟩ := opOk_parts (hops r hr)
      rw [hl] at hl'; cases hl'; exact hk
    cases step_opsChange hs hedge' with
    | same h =>
      intro r' hr'; rw [h] at hr'
      exact opOk_next02 hf (hnr r') (hops r' hr')
    | cancel slots hsub h =>
      intro r' hr'
      rw [h, cancelSlots_ops] at hr'
      obtain ⟨r, hr, rfl⟩ := List.mem_map.mp hr'
      have h0 := opOk_next02 hf (hnr r) (hops r hr)
      split
      · rename_i hc
        simp at hc
        have hk := hkind r hr (hsub _ hc.1)
        refine opOk_upd h0 hc.2 hk ?_
        rcases hk with hk | hk <;> simp [stOk, hk]
      · exact h0
    | answer m o dl hph hl h =>
      intro r' hr'
      rw [h, answer_some_ops] at hr'
      obtain ⟨r, hr, rfl⟩ := List.mem_map.mp hr'
      have h0 := opOk_next02 hf (hnr r) (hops r hr)
      split
      · rename_i hc
        simp at hc
        obtain ⟨m', hm', hpl⟩ := (phaseOk_iff σ s.phase).mp hp _ _ _ hph
        cases hm'
        simp only [plOk] at hpl
        obtain ⟨late', hl', _⟩ := opOk_parts (hops r hr)
        rw [hc.1] at hl'
        simp [hl'] at hpl
        refine opOk_upd h0 hc.2 (.inl hpl.1) ?_
        subst hl
        simp [stOk, hpl.1, hpl.2]
      · exact h0
    | ping o tok rest hqq h =>
      intro r' hr'
      rw [h] at hr'
      obtain ⟨r, hr, rfl⟩ := List.mem_map.mp hr'
      have h0 := opOk_next02 hf (hnr r) (hops r hr)
      unfold pingMap
      split
      · rename_i hc
        simp at hc
        have hpl := hq { pl := .ping o, tok } (by rw [hqq]; simp)
        simp only [plOk] at hpl
        obtain ⟨late', hl', _⟩ := opOk_parts (hops r hr)
        rw [hc.1] at hl'
        simp [hl'] at hpl
        refine opOk_upd h0 hc.2 (.inr hpl) ?_
        simp [stOk, hpl]
      · exact h0

end Hannibal
