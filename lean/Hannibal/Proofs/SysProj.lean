import Hannibal.Proofs.SysInv
import Hannibal.Monitor.C16
/-
  Projection: inside any run of a system, what happens to one actor is a run of the single-actor model
  over the label sequence `projOf a` (its own labels, a `drop` of the parent's handle when a parent's task
  ends, an `extPush` per registration when a parent broadcasts).  Hence every theorem about the
  single-actor model holds of every actor of every system.
-/
namespace Hannibal
open AState

theorem run_append (w : Wiring) : ∀ (l1 l2 : List Label) (s : AState),
    run w s (l1 ++ l2) = (run w s l1).bind (fun s' => run w s' l2)
  | [], l2, s => by simp [run]
  | l :: l1, l2, s => by
    simp only [List.cons_append, run]
    cases step w s l with
    | none => simp
    | some s' => simp only; exact run_append w l1 l2 s'

theorem run_drops (w : Wiring) : ∀ (hs : List Nat) (s : AState), (∀ h ∈ hs, s.handleKind h ≠ none) → hs.Nodup →
    run w s (hs.map Label.drop) = some (Sys.dropAll hs s)
  | [], s, _, _ => rfl
  | h :: hs, s, hp, hn => by
    simp only [List.map_cons, run, step]
    have hh := hp h (by simp)
    have hd : s.stepDrop h = some (s.removeHandle h) := by
      unfold stepDrop
      cases hk : s.handleKind h with
      | none => exact absurd hk hh
      | some k => simp
    simp only [hd, Sys.dropAll, List.foldl_cons, Option.getD_some]
    simp only [List.nodup_cons] at hn
    have := run_drops w hs (s.removeHandle h) (fun h' hh' => by
      rw [handleKind_remove_ne s (fun e => hn.1 (by rw [e]; exact hh'))]
      exact hp h' (by simp [hh'])) hn.2
    simpa [Sys.dropAll] using this

theorem run_pushes (w : Wiring) (b : Nat) : ∀ (n : Nat) (s : AState),
    run w s (List.replicate n (Label.extPush b)) = some (Sys.pushAll b n s)
  | 0, s => rfl
  | n + 1, s => by
    simp only [List.replicate_succ, run, step, Sys.pushAll]
    have : s.stepExtPush b = some ((s.stepExtPush b).getD s) := by unfold stepExtPush; split <;> rfl
    rw [this]
    exact run_pushes w b n _

/-- the parent → child edges after a system label -/
def nextKids (kids : List Kid) : SLabel → List Kid
  | .addChild p ty c h => kids ++ [{ p, ty, c, h }]
  | .act a' l' => if l'.endsTask then kids.filter (fun k => k.p != a') else kids
  | _ => kids

theorem projFrom_cons (kids : List Kid) (a : Nat) (l : SLabel) (ls : List SLabel) :
    projFrom kids a (l :: ls) = emits kids a l ++ projFrom (nextKids kids l) a ls := by
  cases l <;> rfl

theorem sstep_kids {w : Wiring} {S S' : Sys} {l : SLabel} (hs : sstep w S l = some S') :
    S'.kids = nextKids S.kids l := by
  cases l with
  | spawn a cfg h0 k0 =>
    simp only [sstep] at hs
    split at hs <;> simp at hs; subst hs; rfl
  | act a l =>
    simp only [sstep] at hs
    cases hg : S.get a with
    | none => simp [hg] at hs
    | some s =>
      simp only [hg] at hs
      split at hs
      · simp at hs
      · cases hst : step w s l with
        | none => simp [hst] at hs
        | some s' =>
          simp only [hst] at hs; simp at hs; subst hs
          by_cases ht : l.endsTask = true
          · simp [ht, nextKids, Sys.release, Sys.set]
          · simp [ht, nextKids, Sys.set]
  | addChild p ty c h =>
    simp only [sstep] at hs
    (repeat' (split at hs)) <;> (first | (simp at hs; done) | (simp at hs; subst hs; rfl))
  | bcast p ty b =>
    simp only [sstep] at hs
    (repeat' (split at hs)) <;> (first | (simp at hs; done) | (simp at hs; subst hs; rfl))

theorem heldBy_nodup {S : Sys} (hi : SInv S) (p c : Nat) : (S.heldBy p c).Nodup := by
  unfold Sys.heldBy
  have h1 : ((S.kids.filter (fun k => k.p == p && k.c == c)).map (fun k => (k.c, k.h))).Nodup :=
    hi.nodup.sublist (List.Sublist.map _ List.filter_sublist)
  -- on this sublist the child is fixed, so the handles are pairwise distinct too
  generalize hl : S.kids.filter (fun k => k.p == p && k.c == c) = l at h1
  have hc : ∀ k ∈ l, k.c = c := by
    intro k hk; rw [← hl] at hk
    have := (List.mem_filter.mp hk).2; simp at this; exact this.2
  clear hl
  induction l with
  | nil => simp
  | cons x xs ih =>
    simp only [List.map_cons, List.nodup_cons] at h1 ⊢
    refine ⟨?_, ih h1.2 (fun k hk => hc k (by simp [hk]))⟩
    intro hm
    obtain ⟨y, hy, hyx⟩ := List.mem_map.mp hm
    apply h1.1
    exact List.mem_map.mpr ⟨y, hy, by simp [hyx, hc y (by simp [hy]), hc x (by simp)]⟩

theorem heldBy_present {S : Sys} (hi : SInv S) (p c : Nat) {sc : AState} (hg : S.get c = some sc) :
    ∀ h ∈ S.heldBy p c, sc.handleKind h ≠ none := by
  intro h hh
  simp only [Sys.heldBy, List.mem_map, List.mem_filter] at hh
  obtain ⟨k, ⟨hk, hc⟩, rfl⟩ := hh
  simp at hc
  obtain ⟨sc', hg', h1, _⟩ := hi.held k hk
  rw [hc.2, hg] at hg'; simp at hg'; subst hg'
  rw [h1]; simp

/-- One system step, seen from an actor that already exists. -/
theorem sstep_proj {w : Wiring} {S S' : Sys} {l : SLabel} (hi : SInv S) (hs : sstep w S l = some S')
    {a : Nat} {sa : AState} (hg : S.get a = some sa) :
    ∃ sa', S'.get a = some sa' ∧ run w sa (emits S.kids a l) = some sa' := by
  cases l with
  | spawn a0 cfg h0 k0 =>
    simp only [sstep] at hs
    split at hs
    · simp at hs
    · rename_i hnone
      simp at hs; subst hs
      have hn : S.get a0 = none := by simpa using hnone
      refine ⟨sa, ?_, rfl⟩
      rw [Sys.get_append_new S a0 a _ hn]
      have : a ≠ a0 := by intro e; rw [e, hn] at hg; simp at hg
      simp [this, hg]
  | act a0 l =>
    have hinv' := sinv_step hi hs
    simp only [sstep] at hs
    cases hg0 : S.get a0 with
    | none => simp [hg0] at hs
    | some s =>
      simp only [hg0] at hs
      split at hs
      · simp at hs
      · rename_i hcl
        have hcl' : S.clientOk a0 l = true := by simpa using hcl
        cases hst : step w s l with
        | none => simp [hst] at hs
        | some s' =>
          simp only [hst] at hs; simp at hs
          have hkset : (S.set a0 s').kids = S.kids := rfl
          have hheldBy : ∀ c, (S.set a0 s').heldBy a0 c = S.heldBy a0 c := fun c => rfl
          -- the state of `a` right after the actor's own step
          have hmidget : (S.set a0 s').get a = some (if a = a0 then s' else sa) := by
            rw [Sys.get_set]
            by_cases ha : a = a0
            · subst ha; simp [hg0]
            · simp [ha, hg]
          by_cases ht : l.endsTask = true
          · simp only [ht, if_true] at hs; subst hs
            refine ⟨Sys.dropAll (S.heldBy a0 a) (if a = a0 then s' else sa), ?_, ?_⟩
            · rw [get_release, hmidget, hheldBy]; rfl
            · simp only [emits, ht, if_true]
              have hdrops : (S.kids.filter (fun k => k.p == a0 && k.c == a)).map (fun k => Label.drop k.h)
                  = (S.heldBy a0 a).map Label.drop := by simp [Sys.heldBy, List.map_map]
              rw [hdrops]
              -- handles are still there after the own step (it is not one of the forbidden drops)
              have hpres : ∀ h ∈ S.heldBy a0 a, (if a = a0 then s' else sa).handleKind h ≠ none := by
                by_cases ha : a = a0
                · subst ha
                  simp only [if_true]
                  intro h hh
                  simp only [Sys.heldBy, List.mem_map, List.mem_filter] at hh
                  obtain ⟨k, ⟨hk, hc⟩, rfl⟩ := hh
                  simp at hc
                  obtain ⟨sc', hg', h1, h2⟩ := hi.held k hk
                  rw [hc.2, hg0] at hg'; simp at hg'; subst hg'
                  have := (step_keeps_sender hst h1 h2 (clientOk_not_drop hcl' k hk hc.2)).1
                  rw [this]; simp
                · simp only [ha, if_false]
                  exact heldBy_present hi a0 a hg
              by_cases ha : a = a0
              · subst ha
                simp only [if_true, List.singleton_append, run, hg0] at hg ⊢
                simp at hg; subst hg
                simp only [hst]
                exact run_drops w _ _ (by simpa using hpres) (heldBy_nodup hi _ _)
              · have ha' : ¬ a0 = a := fun e => ha e.symm
                simp only [ha, if_false] at hpres
                simp only [ha, ha', if_false, List.nil_append]
                exact run_drops w _ _ hpres (heldBy_nodup hi _ _)
          · simp only [ht] at hs; simp at hs; subst hs
            refine ⟨if a = a0 then s' else sa, hmidget, ?_⟩
            simp only [emits, ht]
            by_cases ha : a = a0
            · subst ha
              rw [hg0] at hg; simp at hg; subst hg
              simp [run, hst]
            · have ha' : ¬ a0 = a := fun e => ha e.symm
              simp [ha, ha', run]
  | addChild p ty c h =>
    simp only [sstep] at hs
    (repeat' (split at hs)) <;>
      (first | (simp at hs; done) | (simp at hs; subst hs; exact ⟨sa, hg, rfl⟩))
  | bcast p ty b =>
    simp only [sstep] at hs
    cases hgp : S.get p with
    | none => simp [hgp] at hs
    | some sp =>
      simp only [hgp] at hs
      split at hs
      · simp at hs; subst hs
        refine ⟨_, by simp only [Sys.broadcast]; rw [Sys.get_applyTo, hg]; rfl, ?_⟩
        simp only [emits]
        have : (S.kids.filter (fun k => k.p == p && k.ty == ty && k.c == a)).map (fun _ => Label.extPush b)
            = List.replicate (S.kids.filter (fun k => k.p == p && k.ty == ty && k.c == a)).length (Label.extPush b) := by
          generalize S.kids.filter (fun k => k.p == p && k.ty == ty && k.c == a) = l
          induction l with
          | nil => rfl
          | cons x xs ih => simp [List.replicate_succ, ih]
        rw [this]
        exact run_pushes w b _ sa
      · simp at hs

/-- A whole system run, seen from an actor that exists at its start. -/
theorem srun_proj {w : Wiring} : ∀ (ls : List SLabel) (S S' : Sys), SInv S → srun w S ls = some S' →
    ∀ {a : Nat} {sa : AState}, S.get a = some sa →
      ∃ sa', S'.get a = some sa' ∧ run w sa (projFrom S.kids a ls) = some sa'
  | [], S, S', _, hr, a, sa, hg => by
    simp [srun] at hr; subst hr; exact ⟨sa, hg, rfl⟩
  | l :: ls, S, S', hi, hr, a, sa, hg => by
    simp only [srun] at hr
    cases hs : sstep w S l with
    | none => simp [hs] at hr
    | some S1 =>
      simp only [hs] at hr
      obtain ⟨s1, hg1, hr1⟩ := sstep_proj hi hs hg
      obtain ⟨sa', hg', hr'⟩ := srun_proj ls S1 S' (sinv_step hi hs) hr hg1
      refine ⟨sa', hg', ?_⟩
      rw [projFrom_cons, run_append, hr1, ← sstep_kids hs]
      exact hr'

end Hannibal
