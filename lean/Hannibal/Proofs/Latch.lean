import Hannibal.Proofs.ActorBasic
import Hannibal.Monitor.Basic
/-
  Termination latch and doneness: the latch leaves `pending` exactly when the
  loop task ends (given that the source notifies after `stopped()`).
-/
namespace Hannibal
open AState

def DoneInv (s : AState) : Prop := (s.latch ≠ .pending ↔ s.isDone = true)

/-- unfold every step function -/
macro "unfold_steps" hs:ident : tactic => `(tactic|
  simp only [step, stepBegin, stepRet, stepCdrop, stepMk, stepUpgrade, stepDetach, stepDrop, stepSignal,
    stepQuery, stepCbBegin, stepCbEnd, stepCbAbandon, stepCbPanic, stepVnew, stepWork, stepCtxSignal,
    stepCtxTimer, stepCtxWeak, stepFire, stepTimerArm, stepTimerEnd, stepTickBegin, stepTime, stepCancel,
    stepTaskPanic, stepTaskDone, stepStreamReady, stepStreamEnd, stepDeq, stepChanEnd, stepStreamEndTau,
    retEffect, beginWait, notifyEarly, toStopping, refreshTimers] at $hs:ident)

set_option maxHeartbeats 1000000 in
theorem step_done (w : Wiring) (hw : w.notifyAfterStopped = true) {s s' : AState} {l : Label}
    (hs : step w s l = some s') :
    (l.terminates = true → s'.isDone = true ∧ s'.latch ≠ .pending) ∧
    (l.terminates = false → s'.isDone = s.isDone ∧ s'.latch = s.latch) := by
  cases l <;> unfold_steps hs <;> simp only [Label.terminates] <;>
    ((repeat' (split at hs)) <;>
     (first
       | (simp at hs; done)
       | (simp at hs; subst hs; simp_all [isDone, fail, finish, cancelSlots, killTimers, setTimer, addOp,
            removeOp, removeHandle, push]; done)
       | (simp at hs; subst hs; unfold answer; split <;>
            simp_all [isDone, fail, finish, cancelSlots, killTimers, setTimer, addOp, removeOp, removeHandle, push]; done)
       | (simp at hs; subst hs; cases hl : s.latch <;>
            simp_all [isDone, fail, finish, cancelSlots, killTimers, setTimer, addOp, removeOp, removeHandle, push]; done)
       | (simp at hs; subst hs; cases hp : s.phase <;>
            simp_all [isDone, openCb, cancelSlots, curSlot]; done)))

theorem doneInv_init (cfg : Cfg) (h0 : Nat) (k0 : HKind) : DoneInv (AState.init cfg h0 k0) := by
  simp [DoneInv, AState.init, isDone]

theorem doneInv_step (w : Wiring) (hw : w.notifyAfterStopped = true) {s s' : AState} {l : Label}
    (hs : step w s l = some s') (hi : DoneInv s) : DoneInv s' := by
  obtain ⟨h1, h2⟩ := step_done w hw hs
  unfold DoneInv at *
  cases ht : l.terminates
  · obtain ⟨ha, hb⟩ := h2 ht; rw [ha, hb]; exact hi
  · obtain ⟨ha, hb⟩ := h1 ht; simp [ha, hb]

end Hannibal
