import Hannibal.Proofs.Tactics
import Hannibal.Monitor.Basic
/-
  Termination latch and doneness: the latch leaves `pending` exactly when the
  loop task ends (given that the source notifies after `stopped()`).
-/
namespace Hannibal
open AState

def DoneInv (s : AState) : Prop := (s.latch ≠ .pending ↔ s.isDone = true)

set_option maxHeartbeats 1000000 in
theorem step_done (w : Wiring) (hw : w.notifyAfterStopped = true) {s s' : AState} {l : Label}
    (hs : step w s l = some s') :
    (l.terminates = true → s'.isDone = true ∧ s'.latch ≠ .pending) ∧
    (l.terminates = false → s'.isDone = s.isDone ∧ s'.latch = s.latch) := by
  cases l <;> unfold_steps hs <;> simp only [Label.terminates] <;>
    ((repeat' (split at hs)) <;>
     (first
       | (simp at hs; done)
       | (simp at hs; subst hs; simp_all [isDone, fail, finish, cancelSlots, killTimers, setTimer, addOp,
            removeOp, removeHandle, push]; done)
       | (simp at hs; subst hs; unfold answer; split <;>
            simp_all [isDone, fail, finish, cancelSlots, killTimers, setTimer, addOp, removeOp, removeHandle, push]; done)
       | (simp at hs; subst hs; cases hl : s.latch <;>
            simp_all [isDone, fail, finish, cancelSlots, killTimers, setTimer, addOp, removeOp, removeHandle, push]; done)
       | (simp at hs; subst hs; cases hp : s.phase <;>
            simp_all [isDone, openCb, cancelSlots, curSlot]; done)))

/-- doneness alone (no wiring hypothesis): the loop task ends exactly at the executor-level
    termination events -/
theorem step_isDone (w : Wiring) {s s' : AState} {l : Label} (hs : step w s l = some s') :
    (l.terminates = true → s'.isDone = true) ∧ (l.terminates = false → s'.isDone = s.isDone) := by
  cases l <;> unfold_steps hs <;> simp only [Label.terminates] <;>
    ((repeat' (split at hs)) <;>
     (first
       | (simp at hs; done)
       | (simp at hs; subst hs; simp_all [isDone, fail, finish, cancelSlots, killTimers, setTimer, addOp,
            removeOp, removeHandle, push]; done)
       | (simp at hs; subst hs; unfold answer; split <;>
            simp_all [isDone, fail, finish, cancelSlots, killTimers, setTimer, addOp, removeOp, removeHandle, push]; done)
       | (simp at hs; subst hs; cases hp : s.phase <;>
            simp_all [isDone, openCb, cancelSlots, curSlot]; done)))

theorem inCallback_not_done {s : AState} (h : s.inCallback = true) : s.isDone = false := by
  unfold inCallback at h; unfold isDone
  cases hp : s.phase <;> simp_all

theorem doneInv_init (cfg : Cfg) (h0 : Nat) (k0 : HKind) : DoneInv (AState.init cfg h0 k0) := by
  simp [DoneInv, AState.init, isDone]

theorem doneInv_step (w : Wiring) (hw : w.notifyAfterStopped = true) {s s' : AState} {l : Label}
    (hs : step w s l = some s') (hi : DoneInv s) : DoneInv s' := by
  obtain ⟨h1, h2⟩ := step_done w hw hs
  unfold DoneInv at *
  cases ht : l.terminates
  · obtain ⟨ha, hb⟩ := h2 ht; rw [ha, hb]; exact hi
  · obtain ⟨ha, hb⟩ := h1 ht; simp [ha, hb]

end Hannibal
