import Hannibal.Proofs.C04QInv
import Hannibal.Proofs.C06Ops
import Hannibal.Proofs.C02Ops
import Hannibal.Monitor.C04P
/-
  Model facts behind C04 (drain barrier, pings): what one step does to the ping payloads in the mailbox, in
  particular to those waiting *ahead of the first stop request*; and what it does to the operation table
  (a record becomes `pinged` only when the loop takes its payload from the head of the mailbox).
-/
namespace Hannibal
open AState

def pingNo04p : Payload → Option Nat
  | .ping o => some o
  | _ => none

def pingL04p (pl : Payload) : List Nat :=
  match pingNo04p pl with
  | some o => [o]
  | none => []

/-- the ping operations whose payload waits in the mailbox -/
def qpings04p (q : List Entry) : List Nat := q.filterMap (fun e => pingNo04p e.pl)

/-- the ping operations whose payload waits ahead of the first stop request -/
def aheadP04p (q : List Entry) : List Nat := (q.takeWhile notStop).filterMap (fun e => pingNo04p e.pl)

@[simp] theorem aheadP04p_nil : aheadP04p [] = [] := rfl
@[simp] theorem qpings04p_nil : qpings04p [] = [] := rfl

theorem qpings04p_cons (e : Entry) (q : List Entry) : qpings04p (e :: q) = pingL04p e.pl ++ qpings04p q := by
  unfold qpings04p pingL04p
  rw [List.filterMap_cons]
  cases pingNo04p e.pl <;> simp

theorem qpings04p_snoc (q : List Entry) (e : Entry) : qpings04p (q ++ [e]) = qpings04p q ++ pingL04p e.pl := by
  unfold qpings04p pingL04p
  rw [List.filterMap_append]
  cases h : pingNo04p e.pl <;> simp [h]

theorem aheadP04p_cons (e : Entry) (q : List Entry) :
    aheadP04p (e :: q) = if isStopP e.pl then [] else pingL04p e.pl ++ aheadP04p q := by
  unfold aheadP04p pingL04p
  cases h : isStopP e.pl
  · simp [notStop, h, List.filterMap_cons]
    cases pingNo04p e.pl <;> simp
  · simp [notStop, h]

theorem aheadP04p_snoc (q : List Entry) (e : Entry) :
    aheadP04p (q ++ [e]) =
      if hasStop q then aheadP04p q else aheadP04p q ++ (if isStopP e.pl then [] else pingL04p e.pl) := by
  induction q with
  | nil => simp [aheadP04p_cons]
  | cons x xs ih =>
    rw [List.cons_append, aheadP04p_cons, aheadP04p_cons, hasStop_cons, ih]
    cases hx : isStopP x.pl <;> cases hs : hasStop xs <;> simp

theorem aheadP04p_sub (q : List Entry) : ∀ o ∈ aheadP04p q, o ∈ qpings04p q := by
  induction q with
  | nil => simp
  | cons x xs ih =>
    intro o ho
    rw [aheadP04p_cons] at ho
    rw [qpings04p_cons]
    cases hx : isStopP x.pl
    · simp only [hx, Bool.false_eq_true, if_false] at ho
      rcases List.mem_append.mp ho with h | h
      · exact List.mem_append_left _ h
      · exact List.mem_append_right _ (ih o h)
    · simp [hx] at ho

/-- How a step acts on the ping payloads in the mailbox; `alive'` says whether the loop can still take
    something out of the mailbox after the step. -/
def PRel04p (l : Label) (q q' : List Entry) (alive' : Bool) : Prop :=
  (∀ o ∈ qpings04p q', o ∈ qpings04p q ∨ ∃ h, l = .begin o h .ping) ∧
  (alive' = true → ∀ o ∈ aheadP04p q', o ∈ aheadP04p q ∨ ((∃ h, l = .begin o h .ping) ∧ hasStop q = false))

theorem prel04p_same {l : Label} {q q' : List Entry} {a : Bool} (h : q' = q) : PRel04p l q q' a := by
  subst h; exact ⟨fun o ho => .inl ho, fun _ o ho => .inl ho⟩

theorem prel04p_nil {l : Label} {q q' : List Entry} {a : Bool} (h : q' = []) : PRel04p l q q' a := by
  subst h; exact ⟨by simp, by simp⟩

theorem prel04p_dead {l : Label} {q q' : List Entry} (h : q' = []) : PRel04p l q q' false := prel04p_nil h

theorem prel04p_enq_other {l : Label} {q q' : List Entry} {a : Bool} {e : Entry} (h : q' = q ++ [e])
    (hp : pingNo04p e.pl = none) : PRel04p l q q' a := by
  subst h
  have hl : pingL04p e.pl = [] := by simp [pingL04p, hp]
  refine ⟨fun o ho => .inl ?_, fun _ o ho => .inl ?_⟩
  · rw [qpings04p_snoc, hl] at ho; simpa using ho
  · rw [aheadP04p_snoc, hl] at ho
    cases hst : hasStop q <;> simp [hst] at ho <;> exact ho

theorem prel04p_enq_ping {o h : Nat} {q q' : List Entry} {a : Bool} {tok : Tok}
    (hq : q' = q ++ [{ pl := .ping o, tok }]) : PRel04p (.begin o h .ping) q q' a := by
  subst hq
  refine ⟨fun o' ho => ?_, fun _ o' ho => ?_⟩
  · rw [qpings04p_snoc] at ho
    rcases List.mem_append.mp ho with h1 | h1
    · exact .inl h1
    · simp [pingL04p, pingNo04p] at h1; subst h1; exact .inr ⟨h, rfl⟩
  · rw [aheadP04p_snoc] at ho
    cases hst : hasStop q
    · simp [hst, isStopP, pingL04p, pingNo04p] at ho
      rcases ho with h1 | h1
      · exact .inl h1
      · subst h1; exact .inr ⟨⟨h, rfl⟩, rfl⟩
    · simp [hst] at ho; exact .inl ho

/-- the head entry is taken; if it is a stop request the loop stops taking entries -/
theorem prel04p_tail {l : Label} {q q' : List Entry} {a : Bool} {e : Entry} (h : q = e :: q')
    (hst : isStopP e.pl = true → a = false) : PRel04p l q q' a := by
  subst h
  refine ⟨fun o ho => .inl ?_, fun ha o ho => .inl ?_⟩
  · rw [qpings04p_cons]; exact List.mem_append_right _ ho
  · rw [aheadP04p_cons]
    cases he : isStopP e.pl
    · simp only [Bool.false_eq_true, if_false]; exact List.mem_append_right _ ho
    · rw [hst he] at ha; simp at ha

/-- the head entry (a tick, a broadcast) becomes a user message -/
theorem prel04p_rename {l : Label} {q q' : List Entry} {a : Bool} {pl pl' : Payload} {tok : Tok}
    {rest : List Entry} (hq : q = { pl, tok } :: rest) (hq' : q' = { pl := pl', tok } :: rest)
    (h1 : isStopP pl = false) (h2 : pingNo04p pl' = none) : PRel04p l q q' a := by
  subst hq hq'
  have hl : pingL04p pl' = [] := by simp [pingL04p, h2]
  refine ⟨fun o ho => .inl ?_, fun _ o ho => .inl ?_⟩
  · rw [qpings04p_cons] at ho ⊢
    simp only [hl, List.nil_append] at ho
    exact List.mem_append_right _ ho
  · rw [aheadP04p_cons] at ho ⊢
    simp only [h1, Bool.false_eq_true, if_false]
    cases hs : isStopP pl'
    · simp only [hs, Bool.false_eq_true, if_false, hl, List.nil_append] at ho
      exact List.mem_append_right _ ho
    · simp [hs] at ho

theorem pingNo04p_payloadOf {o : Nat} {k : OpKind} (hk : k ≠ .ping) : pingNo04p (payloadOf o k) = none := by
  cases k <;> first | rfl | exact absurd rfl hk

theorem step_prel04p {w s l s'} (hs : step w s l = some s') :
    PRel04p l s.chan.queue s'.chan.queue (loopAlive s'.phase) := by
  have hdone := (step_isDone w hs).1
  cases l <;> simp only [step] at hs
  case begin o h k =>
    obtain ⟨st, -, hc⟩ := stepBegin_spec hs
    rcases hc with ⟨hc, -⟩ | ⟨hrx, tok, hc, hk1, hk2⟩
    · exact prel04p_same (by rw [hc])
    · by_cases hk : k = .ping
      · subst hk
        exact prel04p_enq_ping (tok := tok) (by rw [hc]; simp [payloadOf])
      · exact prel04p_enq_other (e := { pl := payloadOf o k, tok }) (by rw [hc]; simp) (pingNo04p_payloadOf hk)
  case ret => exact prel04p_same (by rw [stepRet_chan hs])
  case cdrop => exact prel04p_same (by rw [stepCdrop_chan hs])
  case mk => exact prel04p_same (by rw [stepMk_chan hs])
  case upgrade => exact prel04p_same (by rw [stepUpgrade_chan hs])
  case detach => exact prel04p_same (by rw [stepDetach_chan hs])
  case drop => exact prel04p_same (by rw [stepDrop_chan hs])
  case stopReq h ok =>
    rcases stepSignal_q4 hs with ⟨rfl, hc⟩ | ⟨rfl, tok, hc⟩
    · exact prel04p_same (by rw [hc])
    · exact prel04p_enq_other hc rfl
  case restartReq h ok =>
    rcases stepSignal_q4 hs with ⟨rfl, hc⟩ | ⟨rfl, tok, hc⟩
    · exact prel04p_same (by rw [hc])
    · exact prel04p_enq_other hc rfl
  case query => exact prel04p_same (by rw [stepQuery_chan hs])
  case cbBegin cb =>
    rcases stepCbBegin_detail hs with ⟨m, sl, tok, rest, rfl, hq, hc⟩ | ⟨hc, hne⟩
    · exact prel04p_tail (e := { pl := .msg m sl, tok }) (by rw [hc]; simp [Chan.deq, hq])
        (by simp [isStopP])
    · exact prel04p_same (by rw [hc])
  case cbEnd => exact prel04p_same (by rw [stepCbEnd_chan hs])
  case cbAbandon => exact prel04p_same (by rw [stepCbAbandon_chan hs])
  case cbPanic => exact prel04p_same (by rw [stepCbPanic_chan hs])
  case vnew => exact prel04p_same (by rw [stepVnew_chan hs])
  case work => exact prel04p_same (by rw [stepWork_chan hs])
  case ctxStop ok =>
    rcases stepCtxSignal_q4 hs with ⟨rfl, hc⟩ | ⟨rfl, tok, hc⟩
    · exact prel04p_same (by rw [hc])
    · exact prel04p_enq_other hc rfl
  case ctxRestart ok =>
    rcases stepCtxSignal_q4 hs with ⟨rfl, hc⟩ | ⟨rfl, tok, hc⟩
    · exact prel04p_same (by rw [hc])
    · exact prel04p_enq_other hc rfl
  case ctxTimer => exact prel04p_same (by rw [stepCtxTimer_chan hs])
  case ctxWeak => exact prel04p_same (by rw [stepCtxWeak_chan hs])
  case fire t mo =>
    rcases stepFire_q4 hs with hc | ⟨m, tok, rfl, hc⟩
    · exact prel04p_same (by rw [hc])
    · exact prel04p_enq_other hc rfl
  case timerArm =>
    rcases stepTimerArm_q4 hs with hc | ⟨tok, hc⟩
    · exact prel04p_same (by rw [hc])
    · exact prel04p_enq_other hc rfl
  case timerEnd => exact prel04p_same (by rw [stepTimerEnd_chan hs])
  case tickBegin t m =>
    obtain ⟨tok, rest, hq, hc⟩ := stepTickBegin_detail hs
    exact prel04p_rename hq (by rw [hc]) rfl rfl
  case extPush =>
    rcases stepExtPush_q4 hs with hc | ⟨tok, hc⟩
    · exact prel04p_same (by rw [hc])
    · exact prel04p_enq_other hc rfl
  case extBegin b m =>
    obtain ⟨tok, rest, hq, hc⟩ := stepExtBegin_detail hs
    exact prel04p_rename hq (by rw [hc]) rfl rfl
  case time => exact prel04p_same (by rw [stepTime_chan hs])
  case cancel => exact prel04p_nil (by rw [stepCancel_chan hs]; rfl)
  case taskPanic =>
    rcases stepTaskPanic_chan hs with h | ⟨_, h⟩
    · exact prel04p_nil (by rw [h]; rfl)
    · exact prel04p_nil (by rw [h]; rfl)
  case streamReady => exact prel04p_same (by rw [stepStreamReady_chan hs])
  case streamEnd => exact prel04p_same (by rw [stepStreamEnd_chan hs])
  case taskDone => exact prel04p_nil (by rw [stepTaskDone_chan hs]; rfl)
  case quiescent =>
    simp only [stepQuiescent] at hs
    split at hs <;> simp at hs
    subst hs; exact prel04p_same rfl
  case tDeq =>
    obtain ⟨e, hq, hm, hst, hal⟩ := stepDeq_q4 hs
    exact prel04p_tail hq (fun he => by rw [hst he]; rfl)
  case tChanEnd => exact prel04p_same (by rw [stepChanEnd_chan hs])
  case tStreamEnd => exact prel04p_same (by rw [stepStreamEndTau_chan hs])

/-! ### the operation table -/

/-- the loop takes a head entry without a user callback: nothing happens to the operation table, or the
    head entry is the payload of ping `o` and the (pending) record `o` becomes `pinged` -/
theorem stepDeq_ops04p {s s' : AState} (hs : stepDeq s = some s') :
    s.phase = .idle ∧
      (s'.ops = s.ops ∨
        ∃ o tok rest, s.chan.queue = { pl := .ping o, tok } :: rest ∧ s'.ops = s.ops.map (pingMap o)) := by
  refine ⟨(stepDeq_spec hs).1, ?_⟩
  unfold stepDeq at hs
  split at hs
  · rename_i e rest hph hq
    split at hs
    · simp at hs
    · simp only at hs
      split at hs
      · rename_i o hpl
        simp at hs; subst hs
        obtain ⟨pl, tok⟩ := e
        simp at hpl; subst hpl
        exact .inr ⟨o, tok, rest, hq, by simp [pingMap]⟩
      all_goals
        ((repeat' (split at hs)) <;>
          (first
            | (simp at hs; done)
            | (simp at hs; subst hs; exact .inl rfl)))
  · simp at hs

/-- a ping operation returns Ok only when the loop has taken its payload -/
theorem retExpect_ping_ok04p {s : AState} {rec : OpRec} (hk : rec.kind = .ping)
    (h : s.retExpect rec = some .ok) : rec.st = .pinged := by
  unfold retExpect at h
  cases hst : rec.st <;> simp only [hst, hk] at h <;> first | rfl | (simp at h; done) | skip
  all_goals (split at h <;> simp at h)

end Hannibal
