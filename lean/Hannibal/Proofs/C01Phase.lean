import Hannibal.Proofs.C01Mon
import Hannibal.Proofs.Tactics
/-
  C01, the phase-only parts: clause (1) (callbacks never overlap) and clause (5) (the fold), both by
  exhaustive case analysis of one model step.
-/
namespace Hannibal
open AState

/-! ### clause (1): callbacks never overlap -/

def cbOrDone : Phase → Bool
  | .starting | .handling _ _ _ | .rstStopping | .finishing | .stopping | .done _ => true
  | _ => false

set_option maxHeartbeats 1000000 in
theorem open_step (w : Wiring) {s s' : AState} {σ : C01St} {l : Label}
    (hi : σ.openCb = true → cbOrDone s.phase = true) (hs : step w s l = some s') :
    badOpen σ l = false ∧ (openNext σ.openCb l = true → cbOrDone s'.phase = true) := by
  cases l <;> unfold_steps hs <;> simp only [badOpen, openNext] <;>
    ((repeat' (split at hs)) <;>
     (first
       | (simp at hs; done)
       | (simp at hs; subst hs
          simp_all [cbOrDone, setTimer, addOp, removeOp, removeHandle, push]
          done)
       | (simp at hs; subst hs
          cases hp : s.phase <;> cases ho : σ.openCb <;>
            simp_all [cbOrDone, fail, finish, cancelSlots, killTimers, setTimer, addOp, removeOp,
              removeHandle, push, openCb, curSlot, isDone]
          done)
       | (simp at hs; subst hs
          unfold answer
          split <;> cases hp : s.phase <;> cases ho : σ.openCb <;> simp_all [cbOrDone]
          done)))

/-! ### clause (5): the monitor's fold is the model's log; a stored result carries it -/

def resOk (r : Option Final) (log : List Nat) : Bool :=
  match r with
  | none => true
  | some f => f.digest == log

structure Log01 (s : AState) (hlog : List Nat) : Prop where
  log : hlog = s.log
  res : resOk s.result s.log = true
  frozen : s.result.isSome = true → s.isDone = true
  fresh : s.phase = .unstarted → s.log = []

set_option maxHeartbeats 1000000 in
theorem log01_step (w : Wiring) {s s' : AState} {hlog : List Nat} {l : Label}
    (hi : Log01 s hlog) (hs : step w s l = some s') : Log01 s' (hlog01 hlog l) := by
  obtain ⟨hlog', hres, hfr, hfresh⟩ := hi
  cases l <;> unfold_steps hs
  all_goals
    ((repeat' (split at hs)) <;>
     (first
       | (simp at hs; done)
       | (simp at hs; subst hs
          refine ⟨?_, ?_, ?_, ?_⟩ <;>
            simp_all [hlog01, resOk, setTimer, addOp, removeOp, removeHandle, push, isDone]
          done)
       | (simp at hs; subst hs
          cases hp : s.phase <;> cases hr : s.result <;>
            (refine ⟨?_, ?_, ?_, ?_⟩ <;>
              simp_all [hlog01, resOk, fail, finish, cancelSlots, killTimers, setTimer, addOp, removeOp,
                removeHandle, push, answer, openCb, curSlot, isDone])
          done)
       | (simp at hs; subst hs
          unfold answer
          split <;> cases hp : s.phase <;> cases hr : s.result <;>
            (refine ⟨?_, ?_, ?_, ?_⟩ <;> simp_all [hlog01, resOk, isDone])
          done)))

end Hannibal
