import Hannibal.Props.C05Q
import Hannibal.Proofs.C05DInvF
/-
  C05 (drain completeness for dropped calls), support 3: the coupling behind clause (q).  The coupling of `monC05q`
  (`C05qInv`, with the states of `monC05` and `monC02` as ghosts) rides along: the `q` component of the state of
  `monC05d` is the state of `monC05q`.  Added: once the loop has left for no other reason than that no sender is
  left, every recorded call whose submission went through, and every dropped call, has its message handled.
-/
set_option linter.unusedSimpArgs false
set_option linter.unusedVariables false
namespace Hannibal
open AState

theorem wf01_c02wf05d {c : MonCtx} {g : Wf01St} {l : Label} (hg : wfBad g l = false) :
    (monC02wf c).step g.seenO l = some (wfNext g l).seenO := by
  cases l <;> try rfl
  case begin o h k =>
    have ho := (wfBad_begin05d hg).1
    have : g.seenO.contains o = false := by simpa using ho
    simp [monC02wf, wfNext, ho]
  case fire t mo => cases mo <;> rfl

structure Q05d (w : Wiring) (c : MonCtx) (s : AState) (σ : C05dSt) (σ1 : C01St) (g : Wf01St) (σ5 : C05St)
    (σ2 : C02St) : Prop where
  f : F05d s σ σ1 g
  iq : C05qInv w c s σ.q σ5 σ2
  seen : SeenOk σ2 g.seenO
  /-- once the loop has left for no other reason than that no sender is left: every recorded call either failed at
      its submission or has had its message handled -/
  cpast : excused c σ.q = false → pastLoop s.phase = true → ∀ rec ∈ s.ops, rec.kind.isCall = true →
    ∀ m, rec.kind.msg? = some m → (∃ e, rec.st = .failed e) ∨ m ∈ σ.q.handled
  /-- ... and the message of every dropped call has been handled -/
  dpast : excused c σ.q = false → pastLoop s.phase = true → ∀ d ∈ σ.dropped, d ∈ σ.q.handled

theorem q05d_init (w : Wiring) (c : MonCtx) :
    Q05d w c (AState.init c.cfg c.h0 c.k0) (monC05d c).init (monC01 c).init monWf01.init (monC05 c).init
      C02St.init := by
  refine ⟨f05d_init c, c05q_init w c, ?_, ?_, ?_⟩
  · intro o ho; simp [C02St.init, lookup] at ho
  · intro _ h; simp [AState.init, pastLoop] at h
  · intro _ h; simp [AState.init, pastLoop] at h

/-- the only way past the loop that the monitor does not excuse: the mailbox is empty and no sender is left -/
theorem enter_past05d {w : Wiring} {c : MonCtx} {s s' : AState} {σ : C05qSt} {σ5 : C05St} {σ2 : C02St} {l : Label}
    (hi : C05qInv w c s σ σ5 σ2) (hs : step w s l = some s')
    (hfail' : failPhase s'.phase = true → (next05q c σ l).failure = true)
    (he' : excused c (next05q c σ l) = false) (hp : pastLoop s.phase = false) (hp' : pastLoop s'.phase = true) :
    l = .tChanEnd ∧ s.chan.queue = [] ∧ s.phase = .idle ∧ s'.ops = s.ops := by
  have he := excused_next he'
  by_cases hex : l.isExit = true
  · cases l <;> simp [Label.isExit] at hex
    case tDeq =>
      exfalso
      simp only [step] at hs
      obtain ⟨hph, e, rest, hq, _, _, _, hcase⟩ := stepDeq_spec hs
      rcases hcase with ⟨hpl, _⟩ | ⟨_, hp2⟩ | hp2
      · have := hi.i5.stopq (by unfold cntP; rw [hq]; simp [List.countP_cons, hpl, isStopP])
        rw [← hi.stop] at this
        simp [excused, this] at he
      · simp [hp2, pastLoop] at hp'
      · simp [hp2, pastLoop] at hp'
    case tChanEnd =>
      simp only [step] at hs
      have hqe := stepChanEnd_empty hs
      obtain ⟨hph, _, hs'⟩ := stepChanEnd_spec hs
      exact ⟨rfl, hqe, hph, by rw [hs']⟩
    case tStreamEnd =>
      exfalso
      simp only [step] at hs
      obtain ⟨_, h1, h2, _⟩ := stepStreamEndTau_spec hs
      rw [hi.i5.cfg] at h1
      have h3 : σ.streamEnded = true := by rw [hi.strm, hi.i5.strm, h2]
      simp [excused, h1, h3] at he
  · exfalso
    have hex' : l.isExit = false := by simpa using hex
    have := hfail' (enter_pastLoop hs hex' hp hp')
    simp [excused, this] at he'

/-- a live message of an actor whose loop is parked on an empty mailbox has been handled -/
theorem live_idle_empty05d {s : AState} {handled : List Nat} {m : Nat} (hrx : RxDone05d s)
    (hq : s.chan.queue = []) (hph : s.phase = .idle) (h : Live s.chan handled m) : m ∈ handled := by
  rcases h with h | h | h
  · exact h
  · simp [qmsgs, hq] at h
  · have := hrx h
    simp [isDone, hph] at this

/-- no `Addr::call` can begin once every handle is weak -/
theorem dead_call_absurd05d {w : Wiring} {s s' : AState} {o h m : Nat} (hd : Dead05 s)
    (hs : stepBegin w s o h (.call m) = some s') : False := by
  unfold stepBegin at hs
  cases hk0 : s.handleKind h with
  | none => simp [hk0] at hs
  | some hk =>
    simp only [hk0] at hs
    obtain ⟨p, hp, hp2⟩ := handleKind_mem hk0
    have hweak := hd.nh p hp
    rw [hp2] at hweak
    cases hk <;> simp [HKind.strong] at hweak <;> simp [kindOk] at hs

theorem cpast_step05d {w : Wiring} (hw : WellWired05 w) {c : MonCtx} {s s' : AState} {σ : C05dSt} {σ1 : C01St}
    {g : Wf01St} {σ5 : C05St} {σ2 : C02St} {l : Label} (hi : Q05d w c s σ σ1 g σ5 σ2) (hs : step w s l = some s')
    (hfail' : failPhase s'.phase = true → (next05q c σ.q l).failure = true)
    (he' : excused c (next05q c σ.q l) = false) (hp' : pastLoop s'.phase = true) :
    ∀ rec ∈ s'.ops, rec.kind.isCall = true → ∀ m, rec.kind.msg? = some m →
      (∃ e, rec.st = .failed e) ∨ m ∈ (next05q c σ.q l).handled := by
  have he := excused_next he'
  cases hp : pastLoop s.phase
  · obtain ⟨rfl, hqe, hph, hops⟩ := enter_past05d hi.iq hs hfail' he' hp hp'
    intro rec hrec _ m hm
    rw [hops] at hrec
    rcases hi.f.i1.live rec hrec m hm with hf | hl
    · exact .inl hf
    · rw [← hi.f.hd] at hl
      exact .inr (live_idle_empty05d hi.f.rxd hqe hph hl)
  · obtain ⟨hd, _⟩ := hi.iq.past he hp
    have hd' := dead_step hw hd hs
    have old : ∀ r ∈ s.ops, r.kind.isCall = true → ∀ m, r.kind.msg? = some m →
        (∃ e, r.st = .failed e) ∨ m ∈ (next05q c σ.q l).handled := by
      intro r hr hc m hm
      rcases hi.cpast he hp r hr hc m hm with hf | hh
      · exact .inl hf
      · exact .inr (handled_next hh)
    by_cases hedge : l.isOpEdge = true
    · cases l <;> simp [Label.isOpEdge] at hedge
      case begin o h k =>
        have hs0 := hs
        simp only [step] at hs0
        obtain ⟨_, st, hops⟩ := stepBegin_ops hs0
        intro rec hrec hc m hm
        have hrec' := hrec
        rw [hops] at hrec
        rcases List.mem_append.mp hrec with hrec | hrec
        · exact old rec hrec hc m hm
        · simp at hrec; subst hrec
          simp only at hc hm
          cases k <;> simp [OpKind.isCall] at hc
          case call m0 => exact (dead_call_absurd05d hd hs0).elim
          case callw m0 => exact .inl ((hd'.no _ hrec').2 rfl)
          case tryCall m0 => exact .inl ((hd'.no _ hrec').2 rfl)
      case ret o r =>
        have hs0 := hs
        simp only [step] at hs0
        obtain ⟨_, _, _, hops, _⟩ := stepRet_ops hs0
        intro rec hrec hc m hm
        rw [hops] at hrec
        exact old rec (List.mem_filter.mp hrec).1 hc m hm
      case cdrop o =>
        have hs0 := hs
        simp only [step] at hs0
        have hops := stepCdrop_ops hs0
        intro rec hrec hc m hm
        rw [hops] at hrec
        exact old rec (List.mem_filter.mp hrec).1 hc m hm
    · have hu := step_ops_upd hs (by simpa using hedge)
      intro rec hrec hc m hm
      obtain ⟨r, hr, _, hk, hst⟩ := mem_of_opsUpd hu hrec
      rw [hk] at hc hm
      rcases old r hr hc m hm with ⟨e, hf⟩ | hh
      · rcases hst with rfl | ⟨hpd, _⟩
        · exact .inl ⟨e, hf⟩
        · rw [hf] at hpd; cases hpd
      · exact .inr hh

theorem dpast_step05d {w : Wiring} {c : MonCtx} {s s' : AState} {σ : C05dSt} {σ1 : C01St}
    {g : Wf01St} {σ5 : C05St} {σ2 : C02St} {l : Label} (hi : Q05d w c s σ σ1 g σ5 σ2) (hs : step w s l = some s')
    (hok : ∀ o, l = .cdrop o → s.cdropOk o = true)
    (hfail' : failPhase s'.phase = true → (next05q c σ.q l).failure = true)
    (he' : excused c (next05q c σ.q l) = false) (hp' : pastLoop s'.phase = true) :
    ∀ d ∈ (next05d c σ l).dropped, d ∈ (next05q c σ.q l).handled := by
  have he := excused_next he'
  cases hp : pastLoop s.phase
  · obtain ⟨rfl, hqe, hph, _⟩ := enter_past05d hi.iq hs hfail' he' hp hp'
    intro d hd
    exact live_idle_empty05d hi.f.rxd hqe hph (hi.f.dlive d hd)
  · have old : ∀ d ∈ σ.dropped, d ∈ (next05q c σ.q l).handled :=
      fun d hd => handled_next (hi.dpast he hp d hd)
    intro d hd
    by_cases hb : ∃ o, l = .cdrop o
    · obtain ⟨o, rfl⟩ := hb
      cases hl : lookup o σ.calls with
      | none =>
        have : (next05d c σ (.cdrop o)).dropped = σ.dropped := by simp only [next05d, hl]
        rw [this] at hd
        exact old d hd
      | some m =>
        have : (next05d c σ (.cdrop o)).dropped = m :: σ.dropped := by simp only [next05d, hl]
        rw [this] at hd
        rcases List.mem_cons.mp hd with rfl | hd
        · have hs0 := hs
          simp only [step] at hs0
          obtain ⟨rec, hrec, hm, hc, hnf⟩ := cdrop_msg05d hi.f hs0 (hok o rfl) hl
          rcases hi.cpast he hp rec hrec hc d hm with ⟨e, hf⟩ | hh
          · exact absurd hf (hnf e)
          · exact handled_next hh
        · exact old d hd
    · rw [next05d_dropped_not_cdrop c σ (fun o he => hb ⟨o, he⟩)] at hd
      exact old d hd

/-- clause (q): a `quiescent` label of the model is accepted -/
theorem quiescent_ok05d {w : Wiring} (hw : WellWired05 w) {c : MonCtx} {s s' : AState} {σ : C05dSt} {σ1 : C01St}
    {g : Wf01St} {σ5 : C05St} {σ2 : C02St} {pend : List Nat} (hi : Q05d w c s σ σ1 g σ5 σ2)
    (hs : s.stepQuiescent w pend = some s') : bad05dq c σ (.quiescent pend) = false := by
  unfold stepQuiescent at hs
  split at hs
  · rename_i hc
    simp only [Bool.and_eq_true] at hc
    obtain ⟨⟨hq, _⟩, _⟩ := hc
    cases hb : bad05dq c σ (.quiescent pend)
    · rfl
    · exfalso
      simp only [bad05dq, Bool.and_eq_true, Bool.not_eq_true'] at hb
      obtain ⟨⟨⟨⟨hsh, hfl⟩, hst⟩, hse⟩, hconc⟩ := hb
      have hex : excused c σ.q = false := by simp [excused, hfl, hst, hse]
      have hweak : s.handles.any (fun p => p.2.strong) = false := by
        rw [← hi.iq.i5.hinv.handles, ← hi.iq.hold]; exact hsh
      have hq' := hq
      unfold quiet at hq'
      simp only [Bool.and_eq_true] at hq'
      obtain ⟨⟨hph, _⟩, _⟩ := hq'
      cases hp : s.phase <;> simp [hp] at hph
      case idle => exact idle_quiet_absurd hw hi.iq.i2 hq hp hweak
      case done gr =>
        cases gr
        · have := hi.iq.failPh (by simp [hp, failPhase])
          rw [this] at hfl; cases hfl
        · have hsub := hi.dpast hex (by simp [hp, pastLoop])
          have hall : σ.dropped.all (fun m => σ.q.handled.contains m) = true := by
            rw [List.all_eq_true]
            intro m hm
            simpa using hsub m hm
          rw [hall] at hconc
          simp at hconc
  · simp at hs

/-- one step: both clauses are respected and the coupling is preserved -/
theorem q05d_step {w : Wiring} (hw : WellWired05 w) (c : MonCtx) {s s' : AState} {σ : C05dSt} {σ1 : C01St}
    {g : Wf01St} {σ5 : C05St} {σ2 : C02St} {l : Label} (hi : Q05d w c s σ σ1 g σ5 σ2) (hs : step w s l = some s')
    (hg : wfBad g l = false) (hok : ∀ o, l = .cdrop o → s.cdropOk o = true) :
    bad05d c σ l = false ∧
      Q05d w c s' (next05d c σ l) (next01 σ1 l) (wfNext g l) (next05 c σ5 l) (next02 σ2 l) := by
  obtain ⟨hbf, hf'⟩ := f05d_step w c hi.f hs hg hok
  have hws := wf01_c02wf05d (c := c) hg
  obtain ⟨_, hiq'⟩ := c05q_step hw hi.iq (wf_fresh hi.seen hws) hs
  have hbq : bad05dq c σ l = false := by
    cases l <;> try rfl
    case quiescent pend =>
      simp only [step] at hs
      exact quiescent_ok05d hw hi hs
  refine ⟨by rw [bad05d_split, hbf, hbq]; rfl, hf', hiq', wf_seen hi.seen hws, ?_, ?_⟩
  · exact fun he' hp' => cpast_step05d hw hi hs hiq'.failPh he' hp'
  · exact fun he' hp' => dpast_step05d hi hs hok hiq'.failPh he' hp'

end Hannibal
