import Hannibal.Props.C01
import Hannibal.Proofs.C05DOrder
import Hannibal.Proofs.C05DRun
/-
  C05 (drain completeness for dropped calls), support 2: the coupling behind clause (f) — the user messages waiting
  in the mailbox are in submission order, every handled message was submitted before (or independently of) every
  waiting one, and the message of every dropped call is handled, waiting, or the mailbox is gone.  The coupling of
  `monC01` (`C01Inv`) rides along as a ghost: it knows that the waiting messages are fresh, not handled yet, and that
  every recorded operation whose submission went through has its message handled or waiting.
  No hypothesis on the wiring.
-/
set_option linter.unusedSimpArgs false
set_option linter.unusedVariables false
namespace Hannibal
open AState

/-! ### the receiver is only gone when the actor is done -/

def RxDone05d (s : AState) : Prop := s.chan.rx = false → s.isDone = true

theorem qrel_rx05d {l : Label} {c c' : Chan} (hq : QRel l c c') (ht : l.terminates = false)
    (h : c'.rx = false) : c.rx = false := by
  cases l
  case begin o h' k =>
    simp only [QRel] at hq
    rcases hq with ⟨_, h2⟩ | ⟨_, _, _, _, h2⟩
    · rw [← h2]; exact h
    · rw [h] at h2; cases h2
  case fire t mo =>
    simp only [QRel] at hq
    rcases hq with ⟨_, h2⟩ | ⟨_, _, _, _, h2⟩
    · rw [← h2]; exact h
    · rw [h] at h2; cases h2
  case cbBegin cb => cases cb <;> simp only [QRel] at hq <;> (rw [← hq.2]; exact h)
  case cancel => simp [Label.terminates] at ht
  case taskDone => simp [Label.terminates] at ht
  case taskPanic => simp [Label.terminates] at ht
  all_goals (simp only [QRel] at hq; rw [← hq.2]; exact h)

theorem rxDone05d_step {w : Wiring} {s s' : AState} {l : Label} (hs : step w s l = some s') (hi : RxDone05d s) :
    RxDone05d s' := by
  obtain ⟨h1, h2⟩ := step_isDone w hs
  cases ht : l.terminates
  · intro hrx
    rw [h2 ht]
    exact hi (qrel_rx05d (step_q hs) ht hrx)
  · intro _; exact h1 ht

theorem stepCbBegin_handle_rx05d {w : Wiring} {s s' : AState} {m : Nat}
    (hs : stepCbBegin w s (.handle m) = some s') : s.chan.rx = true ∧ s.isDone = false := by
  unfold stepCbBegin at hs
  cases hph : s.phase <;> simp [hph] at hs
  cases hq : s.chan.queue with
  | nil => simp [hq] at hs
  | cons e rest =>
    obtain ⟨pl, tok⟩ := e
    cases pl <;> simp [hq] at hs
    exact ⟨hs.1.2, by simp [isDone, hph]⟩

/-! ### monitor bookkeeping -/

theorem next05d_handled (c : MonCtx) (σ : C05dSt) (l : Label) :
    (next05d c σ l).q.handled = handledNext σ.q.handled l := by
  cases l <;> first | rfl | (rename_i cb; cases cb <;> rfl)

theorem next05d_order_not_begin (c : MonCtx) (σ : C05dSt) {l : Label} (h : ∀ o h k, l ≠ .begin o h k) :
    (next05d c σ l).order = σ.order := by
  cases l <;> try rfl
  exact absurd rfl (h _ _ _)

theorem next05d_order_begin_none (c : MonCtx) (σ : C05dSt) {o h : Nat} {k : OpKind} (hk : k.msg? = none) :
    (next05d c σ (.begin o h k)).order = σ.order := by
  simp only [next05d, hk]

theorem next05d_order_begin_some (c : MonCtx) (σ : C05dSt) {o h : Nat} {k : OpKind} {m : Nat} (hk : k.msg? = some m) :
    (next05d c σ (.begin o h k)).order = m :: σ.order := by
  simp only [next05d, hk]

theorem next05d_dropped_not_cdrop (c : MonCtx) (σ : C05dSt) {l : Label} (h : ∀ o, l ≠ .cdrop o) :
    (next05d c σ l).dropped = σ.dropped := by
  cases l <;> try rfl
  exact absurd rfl (h _)

theorem wfBad_begin05d {g : Wf01St} {o h : Nat} {k : OpKind} (hg : wfBad g (.begin o h k) = false) :
    o ∉ g.seenO ∧ ∀ m, k.msg? = some m → m ∉ g.seenM := by
  simp only [wfBad, Bool.or_eq_false_iff] at hg
  refine ⟨by simpa using hg.1, ?_⟩
  intro m hm
  rw [hm] at hg
  simpa using hg.2

/-- the call table of `monC05d` is the call part of the operation table of `monC01` -/
def callOf05d : Option (Nat × Bool) → Option Nat
  | some (m, true) => some m
  | _ => none

def CallsRel05d (calls : List (Nat × Nat)) (ops : List (Nat × (Nat × Bool))) : Prop :=
  ∀ o, lookup o calls = callOf05d (lookup o ops)

theorem callOf_opEntry05d {k : OpKind} {m : Nat} (h : callOf05d (opEntry k) = some m) :
    k.msg? = some m ∧ k.isCall = true := by
  cases k <;> simp [opEntry, OpKind.msg?, OpKind.isCall, callOf05d] at h ⊢ <;> exact h

theorem callsRel_step05d (c : MonCtx) {σ : C05dSt} {ops : List (Nat × (Nat × Bool))} {l : Label}
    (hr : CallsRel05d σ.calls ops) (hf : ∀ o h k, l = .begin o h k → lookup o ops = none) :
    CallsRel05d (next05d c σ l).calls (opsNext ops l) := by
  cases l
  case begin o h k =>
    have hno := hf o h k rfl
    have hnc : lookup o σ.calls = none := by rw [hr o, hno]; rfl
    intro o'
    by_cases he : o = o'
    · subst he
      cases k <;> simp [next05d, opsNext, OpKind.msg?, OpKind.isCall, lookup, callOf05d, hnc, hno]
    · have hne : (o == o') = false := by simpa using he
      cases k <;> simp [next05d, opsNext, OpKind.msg?, OpKind.isCall, lookup, hne] <;> exact hr o'
  all_goals exact hr

/-! ### the coupling -/

structure F05d (s : AState) (σ : C05dSt) (σ1 : C01St) (g : Wf01St) : Prop where
  i1 : C01Inv s σ1 g
  rxd : RxDone05d s
  hd : σ.q.handled = σ1.handled
  calls : CallsRel05d σ.calls σ1.ops
  oseen : ∀ m ∈ σ.order, m ∈ g.seenM
  onodup : σ.order.Nodup
  /-- the waiting user messages are in submission order -/
  pw : (qmsgs s.chan).Pairwise (fun a b => before05d σ.order b a = false)
  /-- the message of a recorded operation whose submission went through and which has not been handled was not
      submitted before any handled message -/
  hord : ∀ rec ∈ s.ops, ∀ m, rec.kind.msg? = some m → (∀ e, rec.st ≠ .failed e) → m ∉ σ.q.handled →
    ∀ h ∈ σ.q.handled, before05d σ.order m h = false
  /-- the message of a dropped call is handled, waiting, or the mailbox is gone -/
  dlive : ∀ d ∈ σ.dropped, Live s.chan σ.q.handled d

theorem f05d_init (c : MonCtx) :
    F05d (AState.init c.cfg c.h0 c.k0) (monC05d c).init (monC01 c).init monWf01.init := by
  refine ⟨c01_init c, ?_, rfl, ?_, ?_, ?_, ?_, ?_, ?_⟩
  · intro h; simp [AState.init, Chan.init] at h
  · intro o; simp [monC05d, monC01, lookup, callOf05d]
  · intro m hm; simp [monC05d] at hm
  · simp [monC05d]
  · simp [AState.init, Chan.init, qmsgs]
  · intro rec hrec; simp [AState.init] at hrec
  · intro d hd; simp [monC05d] at hd

/-- the record a `cdrop` removes, under the guard of `dstep` -/
theorem cdrop_rec05d {s s' : AState} {o : Nat} (hs : stepCdrop s o = some s') (hok : s.cdropOk o = true) :
    ∃ rec ∈ s.ops, rec.o = o ∧ ∀ e, rec.st ≠ .failed e := by
  unfold stepCdrop at hs
  cases hf : s.findOp o with
  | none => simp [hf] at hs
  | some rec =>
    obtain ⟨hrec, hro⟩ := findOp_mem hf
    refine ⟨rec, hrec, hro, ?_⟩
    intro e he
    simp [cdropOk, hf, he] at hok

/-- the dropped call's record carries the message the monitor files under its id -/
theorem cdrop_msg05d {s s' : AState} {σ : C05dSt} {σ1 : C01St} {g : Wf01St} {o m : Nat} (hi : F05d s σ σ1 g)
    (hs : stepCdrop s o = some s') (hok : s.cdropOk o = true) (hl : lookup o σ.calls = some m) :
    ∃ rec ∈ s.ops, rec.kind.msg? = some m ∧ rec.kind.isCall = true ∧ ∀ e, rec.st ≠ .failed e := by
  obtain ⟨rec, hrec, hro, hnf⟩ := cdrop_rec05d hs hok
  have htbl := hi.i1.ops.tbl rec hrec
  have := hi.calls o
  rw [hl, ← hro, htbl] at this
  obtain ⟨h1, h2⟩ := callOf_opEntry05d this.symm
  exact ⟨rec, hrec, h1, h2, hnf⟩

theorem oseen_step05d (c : MonCtx) {σ : C05dSt} {g : Wf01St} {l : Label} (hg : wfBad g l = false)
    (hi : ∀ m ∈ σ.order, m ∈ g.seenM) (hn : σ.order.Nodup) :
    (∀ m ∈ (next05d c σ l).order, m ∈ (wfNext g l).seenM) ∧ (next05d c σ l).order.Nodup := by
  by_cases hb : ∃ o h k, l = .begin o h k
  · obtain ⟨o, h, k, rfl⟩ := hb
    cases hk : k.msg? with
    | none =>
      rw [next05d_order_begin_none c σ hk]
      exact ⟨fun m hm => wf_seenM_mono g _ m (hi m hm), hn⟩
    | some m0 =>
      rw [next05d_order_begin_some c σ hk]
      have hm0 := (wfBad_begin05d hg).2 m0 hk
      refine ⟨?_, List.nodup_cons.mpr ⟨fun hm => hm0 (hi m0 hm), hn⟩⟩
      intro m hm
      simp only [wfNext, hk]
      rcases List.mem_cons.mp hm with rfl | hm
      · simp
      · exact List.mem_cons_of_mem _ (hi m hm)
  · rw [next05d_order_not_begin c σ (fun o h k he => hb ⟨o, h, k, he⟩)]
    exact ⟨fun m hm => wf_seenM_mono g _ m (hi m hm), hn⟩

/-- submission order of the waiting messages -/
theorem pw_step05d (cc : MonCtx) {l : Label} {c c' : Chan} {σ : C05dSt} {g : Wf01St} (hq : QRel l c c')
    (hg : wfBad g l = false) (hqs : ∀ m ∈ qmsgs c, m ∈ g.seenM) (hos : ∀ m ∈ σ.order, m ∈ g.seenM)
    (hpw : (qmsgs c).Pairwise (fun a b => before05d σ.order b a = false)) :
    (qmsgs c').Pairwise (fun a b => before05d (next05d cc σ l).order b a = false) := by
  cases l
  case begin o h k =>
    simp only [QRel] at hq
    cases hk : k.msg? with
    | none =>
      rw [next05d_order_begin_none cc σ hk]
      rcases hq with ⟨hq1, _⟩ | ⟨m, hm, _⟩
      · rw [hq1]; exact hpw
      · rw [hk] at hm; cases hm
    | some m0 =>
      rw [next05d_order_begin_some cc σ hk]
      have hm0 := (wfBad_begin05d hg).2 m0 hk
      have hno : m0 ∉ σ.order := fun hm => hm0 (hos m0 hm)
      have hold : (qmsgs c).Pairwise (fun a b => before05d (m0 :: σ.order) b a = false) := by
        refine List.Pairwise.imp_of_mem ?_ hpw
        intro a b ha hb hab
        have hne : m0 ≠ a := fun he => hm0 (he ▸ hqs a ha)
        rw [before05d_cons_ne b hne]; exact hab
      rcases hq with ⟨hq1, _⟩ | ⟨m, hm, hq1, _, _⟩
      · rw [hq1]; exact hold
      · have hmm : m0 = m := by rw [hk] at hm; exact Option.some.inj hm
        subst hmm
        rw [hq1, List.pairwise_append]
        refine ⟨hold, List.pairwise_singleton _ _, ?_⟩
        intro a ha b hb
        have hb' : b = m0 := by simpa using hb
        rw [hb']
        have hne : m0 ≠ a := fun he => hm0 (he ▸ hqs a ha)
        rw [before05d_cons_ne m0 hne]
        exact before05d_not_mem a hno
  case fire t mo =>
    simp only [QRel] at hq
    rw [next05d_order_not_begin cc σ (by simp)]
    rcases hq with ⟨hq1, _⟩ | ⟨m, hm, hq1, _, _⟩
    · rw [hq1]; exact hpw
    · subst hm
      have hm0 : m ∉ g.seenM := by simpa [wfBad] using hg
      have hno : m ∉ σ.order := fun hm => hm0 (hos m hm)
      rw [hq1, List.pairwise_append]
      refine ⟨hpw, List.pairwise_singleton _ _, ?_⟩
      intro a ha b hb
      simp at hb; subst hb
      exact before05d_not_mem a hno
  case tickBegin t m =>
    simp only [QRel] at hq
    rw [next05d_order_not_begin cc σ (by simp)]
    have hm0 : m ∉ g.seenM := by simpa [wfBad] using hg
    have hno : m ∉ σ.order := fun hm => hm0 (hos m hm)
    rw [hq.1, List.pairwise_cons]
    exact ⟨fun b _ => before05d_not_mem' b hno, hpw⟩
  case extBegin t m =>
    simp only [QRel] at hq
    rw [next05d_order_not_begin cc σ (by simp)]
    have hm0 : m ∉ g.seenM := by simpa [wfBad] using hg
    have hno : m ∉ σ.order := fun hm => hm0 (hos m hm)
    rw [hq.1, List.pairwise_cons]
    exact ⟨fun b _ => before05d_not_mem' b hno, hpw⟩
  case cbBegin cb =>
    rw [next05d_order_not_begin cc σ (by simp)]
    cases cb <;> simp only [QRel] at hq
    case handle m =>
      rw [hq.1] at hpw
      exact (List.pairwise_cons.mp hpw).2
    all_goals (rw [hq.1]; exact hpw)
  case cancel => simp only [QRel] at hq; rw [hq.1]; exact List.Pairwise.nil
  case taskDone => simp only [QRel] at hq; rw [hq.1]; exact List.Pairwise.nil
  case taskPanic => simp only [QRel] at hq; rw [hq.1]; exact List.Pairwise.nil
  all_goals
    (simp only [QRel] at hq
     rw [next05d_order_not_begin cc σ (by simp), hq.1]; exact hpw)

/-- clause (f) at the begin of a handler -/
theorem handle_ok05d {w : Wiring} {s s' : AState} {σ : C05dSt} {σ1 : C01St} {g : Wf01St} {m' : Nat}
    (hi : F05d s σ σ1 g) (hs : step w s (.cbBegin (.handle m')) = some s') :
    skipped05d σ σ.dropped m' = false := by
  have hq := step_q hs
  simp only [QRel] at hq
  simp only [step] at hs
  obtain ⟨hrx, _⟩ := stepCbBegin_handle_rx05d hs
  have hpw := hi.pw
  rw [hq.1] at hpw
  unfold skipped05d
  apply List.any_eq_false.mpr
  intro d hd
  by_cases hh : d ∈ σ.q.handled
  · simp [hh]
  · have hb : before05d σ.order d m' = false := by
      rcases hi.dlive d hd with h | h | h
      · exact absurd h hh
      · rw [hq.1] at h
        rcases List.mem_cons.mp h with rfl | h
        · exact before05d_self _ hi.onodup
        · exact (List.pairwise_cons.mp hpw).1 d h
      · rw [hrx] at h; cases h
    simp [hb]

/-- what is known of a recorded operation whose submission went through, when the handler of `m'` begins -/
theorem handle_ord05d {w : Wiring} {s s' : AState} {σ : C05dSt} {σ1 : C01St} {g : Wf01St} {m' m : Nat}
    (hi : F05d s σ σ1 g) (hs : step w s (.cbBegin (.handle m')) = some s')
    {r : OpRec} (hr : r ∈ s.ops) (hm : r.kind.msg? = some m) (hnf : ∀ e, r.st ≠ .failed e)
    (hne : m ≠ m') (hh : m ∉ σ.q.handled) : before05d σ.order m m' = false := by
  have hq := step_q hs
  simp only [QRel] at hq
  simp only [step] at hs
  obtain ⟨hrx, _⟩ := stepCbBegin_handle_rx05d hs
  have hpw := hi.pw
  rw [hq.1] at hpw
  rcases hi.i1.live r hr m hm with ⟨e, he⟩ | h | h | h
  · exact absurd he (hnf e)
  · rw [← hi.hd] at h; exact absurd h hh
  · rw [hq.1] at h
    rcases List.mem_cons.mp h with rfl | h
    · exact absurd rfl hne
    · exact (List.pairwise_cons.mp hpw).1 m h
  · rw [hrx] at h; cases h

theorem hord_step05d {w : Wiring} (c : MonCtx) {s s' : AState} {σ : C05dSt} {σ1 : C01St} {g : Wf01St} {l : Label}
    (hi : F05d s σ σ1 g) (hs : step w s l = some s') (hg : wfBad g l = false) :
    ∀ rec ∈ s'.ops, ∀ m, rec.kind.msg? = some m → (∀ e, rec.st ≠ .failed e) → m ∉ (next05d c σ l).q.handled →
      ∀ h ∈ (next05d c σ l).q.handled, before05d (next05d c σ l).order m h = false := by
  have hseenh : ∀ h ∈ σ.q.handled, h ∈ g.seenM := by
    intro h hh; rw [hi.hd] at hh; exact hi.i1.qc.seenh h hh
  by_cases hedge : l.isOpEdge = true
  · cases l <;> simp [Label.isOpEdge] at hedge
    case begin o h0 k =>
      have hs0 := hs
      simp only [step] at hs0
      obtain ⟨_, st, hops⟩ := stepBegin_ops hs0
      intro rec hrec m hm hnf hnh h hh
      rw [next05d_handled] at hnh hh
      simp only [handledNext] at hnh hh
      rw [hops] at hrec
      cases hk : k.msg? with
      | none =>
        rw [next05d_order_begin_none c σ hk]
        rcases List.mem_append.mp hrec with hrec | hrec
        · exact hi.hord rec hrec m hm hnf hnh h hh
        · simp at hrec; subst hrec
          simp only at hm; rw [hk] at hm; cases hm
      | some m0 =>
        rw [next05d_order_begin_some c σ hk]
        have hm0 := (wfBad_begin05d hg).2 m0 hk
        have hne : m0 ≠ h := fun he => hm0 (he ▸ hseenh h hh)
        rw [before05d_cons_ne m hne]
        rcases List.mem_append.mp hrec with hrec | hrec
        · exact hi.hord rec hrec m hm hnf hnh h hh
        · simp at hrec; subst hrec
          simp only at hm
          have hmm : m0 = m := by rw [hk] at hm; exact Option.some.inj hm
          subst hmm
          exact before05d_not_mem h (fun hm => hm0 (hi.oseen m0 hm))
    case ret o r =>
      have hs0 := hs
      simp only [step] at hs0
      obtain ⟨_, _, _, hops, _⟩ := stepRet_ops hs0
      intro rec hrec m hm hnf hnh h hh
      rw [hops] at hrec
      exact hi.hord rec (List.mem_filter.mp hrec).1 m hm hnf hnh h hh
    case cdrop o =>
      have hs0 := hs
      simp only [step] at hs0
      have hops := stepCdrop_ops hs0
      intro rec hrec m hm hnf hnh h hh
      rw [hops] at hrec
      exact hi.hord rec (List.mem_filter.mp hrec).1 m hm hnf hnh h hh
  · have hedge' : l.isOpEdge = false := by simpa using hedge
    have hu := step_ops_upd hs hedge'
    have hord : (next05d c σ l).order = σ.order :=
      next05d_order_not_begin c σ (by intro o h k he; subst he; simp [Label.isOpEdge] at hedge')
    intro rec hrec m hm hnf hnh h hh
    obtain ⟨r, hr, _, hk, hst⟩ := mem_of_opsUpd hu hrec
    rw [hk] at hm
    have hnf0 : ∀ e, r.st ≠ .failed e := by
      rcases hst with rfl | ⟨hp, _⟩
      · exact hnf
      · intro e he; rw [he] at hp; cases hp
    rw [hord]
    rw [next05d_handled] at hnh hh
    by_cases hb : ∃ m', l = .cbBegin (.handle m')
    · obtain ⟨m', rfl⟩ := hb
      simp only [handledNext] at hnh hh
      have hne : m ≠ m' := fun he => hnh (by simp [he])
      have hnh0 : m ∉ σ.q.handled := fun hx => hnh (List.mem_cons_of_mem _ hx)
      rcases List.mem_cons.mp hh with rfl | hh
      · exact handle_ord05d hi hs hr hm hnf0 hne hnh0
      · exact hi.hord r hr m hm hnf0 hnh0 h hh
    · have hsame : handledNext σ.q.handled l = σ.q.handled := by
        cases l <;> try rfl
        rename_i cb
        cases cb <;> first | rfl | exact absurd ⟨_, rfl⟩ hb
      rw [hsame] at hnh hh
      exact hi.hord r hr m hm hnf0 hnh h hh

theorem dlive_step05d {w : Wiring} (c : MonCtx) {s s' : AState} {σ : C05dSt} {σ1 : C01St} {g : Wf01St} {l : Label}
    (hi : F05d s σ σ1 g) (hs : step w s l = some s') (hok : ∀ o, l = .cdrop o → s.cdropOk o = true) :
    ∀ d ∈ (next05d c σ l).dropped, Live s'.chan (next05d c σ l).q.handled d := by
  have hq := step_q hs
  intro d hd
  rw [next05d_handled]
  by_cases hb : ∃ o, l = .cdrop o
  · obtain ⟨o, rfl⟩ := hb
    cases hl : lookup o σ.calls with
    | none =>
      have : (next05d c σ (.cdrop o)).dropped = σ.dropped := by simp only [next05d, hl]
      rw [this] at hd
      exact live_step hq (hi.dlive d hd)
    | some m =>
      have : (next05d c σ (.cdrop o)).dropped = m :: σ.dropped := by simp only [next05d, hl]
      rw [this] at hd
      rcases List.mem_cons.mp hd with rfl | hd
      · have hs0 := hs
        simp only [step] at hs0
        obtain ⟨rec, hrec, hm, _, hnf⟩ := cdrop_msg05d hi hs0 (hok o rfl) hl
        rcases hi.i1.live rec hrec d hm with ⟨e, he⟩ | h
        · exact absurd he (hnf e)
        · rw [← hi.hd] at h; exact live_step hq h
      · exact live_step hq (hi.dlive d hd)
  · rw [next05d_dropped_not_cdrop c σ (fun o he => hb ⟨o, he⟩)] at hd
    exact live_step hq (hi.dlive d hd)

/-- clause (f) when the future of a call is dropped -/
theorem cdrop_ok05d {s s' : AState} {σ : C05dSt} {σ1 : C01St} {g : Wf01St} {o : Nat}
    (hi : F05d s σ σ1 g) (hs : stepCdrop s o = some s') (hok : s.cdropOk o = true) :
    bad05df σ (.cdrop o) = false := by
  simp only [bad05df]
  cases hl : lookup o σ.calls with
  | none => rfl
  | some m =>
    simp only
    by_cases hh : m ∈ σ.q.handled
    · simp [hh]
    · obtain ⟨rec, hrec, hm, _, hnf⟩ := cdrop_msg05d hi hs hok hl
      have hall := hi.hord rec hrec m hm hnf hh
      have : (σ.q.handled.any fun m' => before05d σ.order m m') = false := by
        apply List.any_eq_false.mpr
        intro h hh'
        simp [hall h hh']
      simp [this]

/-- one step: clause (f) is respected and the coupling is preserved -/
theorem f05d_step (w : Wiring) (c : MonCtx) {s s' : AState} {σ : C05dSt} {σ1 : C01St} {g : Wf01St} {l : Label}
    (hi : F05d s σ σ1 g) (hs : step w s l = some s') (hg : wfBad g l = false)
    (hok : ∀ o, l = .cdrop o → s.cdropOk o = true) :
    bad05df σ l = false ∧ F05d s' (next05d c σ l) (next01 σ1 l) (wfNext g l) := by
  have hbad : bad05df σ l = false := by
    cases l <;> try rfl
    case cdrop o =>
      have hs0 := hs
      simp only [step] at hs0
      exact cdrop_ok05d hi hs0 (hok o rfl)
    case cbBegin cb =>
      cases cb <;> try rfl
      exact handle_ok05d hi hs
  obtain ⟨_, hi1⟩ := c01_step w hi.i1 hs hg
  obtain ⟨hos, hon⟩ := oseen_step05d c hg hi.oseen hi.onodup
  refine ⟨hbad, hi1, rxDone05d_step hs hi.rxd, ?_, ?_, hos, hon, ?_, hord_step05d c hi hs hg,
    dlive_step05d c hi hs hok⟩
  · rw [next05d_handled, hi.hd]; rfl
  · refine callsRel_step05d c hi.calls ?_
    intro o h k he
    subst he
    exact hi.i1.ops.fresh o (wfBad_begin05d hg).1
  · exact pw_step05d c (step_q hs) hg hi.i1.qc.seenq hi.oseen hi.pw

end Hannibal
