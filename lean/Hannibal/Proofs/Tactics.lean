import Hannibal.Proofs.ActorBasic
/- Generic case analysis of one model step down to explicit successor states. -/
namespace Hannibal
open AState

/-- unfold every step function in `hs : step w s l = some s'` (after `cases l`) -/
macro "unfold_steps" hs:ident : tactic => `(tactic|
  simp only [step, stepBegin, stepRet, stepCdrop, stepMk, stepUpgrade, stepDetach, stepDrop, stepSignal,
    stepQuery, stepCbBegin, stepCbEnd, stepCbAbandon, stepCbPanic, stepVnew, stepWork, stepCtxSignal,
    stepCtxTimer, stepCtxWeak, stepFire, stepTimerArm, stepTimerEnd, stepTickBegin, stepExtPush, stepExtBegin, stepTime, stepCancel,
    stepTaskPanic, stepTaskDone, stepStreamReady, stepStreamEnd, stepDeq, stepChanEnd, stepStreamEndTau,
    retEffect, beginWait, notifyEarly, toStopping, refreshTimers, stepQuiescent] at $hs:ident)

end Hannibal
