import Hannibal.Proofs.C02Wait
/-
  C02, "nothing hangs": steps that may drop a live slot leave no pending operation for it.
-/
set_option linter.unusedSimpArgs false
set_option linter.unusedVariables false
namespace Hannibal
open AState

theorem fail_ops_eq (s : AState) : s.fail.ops = (s.cancelSlots s.slotsLive).ops := rfl

theorem slotsLive_drop {w : Wiring} {s s' : AState} {l : Label} (hs : step w s l = some s')
    (hl : l.dropsSlot = true) (hcb : slotCb s.phase = true) :
    ∀ o ∈ s.slotsLive, o ∈ s'.slotsLive ∨ ∀ r' ∈ s'.ops, r'.o = o → r'.st ≠ .pending := by
  cases l <;> simp [Label.dropsSlot] at hl
  case cancel =>
    simp only [step, stepCancel] at hs
    split at hs
    · simp at hs
    · simp at hs; subst hs
      intro o ho
      exact .inr (cancel_not_pending s _ o ho)
  case cbPanic cb =>
    have hc := stepCbPanic_chan (by simpa [step] using hs)
    simp only [step, stepCbPanic] at hs
    split at hs
    · simp at hs; subst hs
      intro o ho
      rcases mem_slotsLive_iff.mp ho with ho | ho
      · exact .inr (cancel_not_pending s _ o ho)
      · exact .inl (mem_slotsLive_iff.mpr (.inr ho))
    · simp at hs
  case cbAbandon cb =>
    simp only [step, stepCbAbandon] at hs
    split at hs
    · rename_i cb' slot dl hp
      split at hs
      · intro o ho
        rcases mem_slotsLive_iff.mp ho with ho | ho
        · have ho' : o ∈ (match slot with | some o => [o] | none => []) := by
            cases slot with
            | none => simp [curSlot, hp] at ho
            | some o' => simpa [curSlot, hp] using ho
          split at hs <;> (simp at hs; subst hs; exact .inr (cancel_not_pending s _ o ho'))
        · split at hs <;> (simp at hs; subst hs; exact .inl (mem_slotsLive_iff.mpr (.inr ho)))
      · simp at hs
    · split at hs
      · simp at hs; subst hs; intro o ho; exact .inl ho
      · simp at hs
    · simp at hs
  case cbEnd cb ok =>
    simp only [step, stepCbEnd] at hs
    split at hs
    · simp at hs
    · split at hs
      case h_2 =>
        rename_i m m' slot dl hph
        split at hs
        · simp at hs; subst hs
          intro o ho
          rcases mem_slotsLive_iff.mp ho with ho | ho
          · cases slot with
            | none => simp [curSlot, hph] at ho
            | some o' =>
              simp [curSlot, hph] at ho; subst ho
              exact .inr (answer_not_pending s o m)
          · exact .inl (mem_slotsLive_iff.mpr (.inr (by simpa using ho)))
        · simp at hs
      all_goals
        ((repeat' (split at hs)) <;>
         (first
           | (simp at hs; done)
           | (simp at hs; subst hs
              intro o ho
              refine .inl ?_
              rw [mem_slotsLive_iff] at ho ⊢
              simp_all [curSlot, slotCb]
              done)
           | (simp at hs; subst hs
              intro o ho
              refine .inl ?_
              rw [mem_slotsLive_iff] at ho ⊢
              rename_i slot _ _ _
              cases slot <;> simp_all [curSlot, slotCb]
              done)))
  case taskDone =>
    simp only [step, stepTaskDone] at hs
    split at hs
    · rename_i hph
      simp at hs; subst hs
      intro o ho
      rcases mem_slotsLive_iff.mp ho with ho | ho
      · simp [curSlot, hph] at ho
      · refine .inr (cancel_not_pending s _ o ?_)
        exact List.mem_filterMap.mpr ho
    · simp at hs; subst hs
      intro o ho
      exact .inr (cancel_not_pending s _ o ho)
    · simp at hs
  case taskPanic =>
    simp only [step, stepTaskPanic] at hs
    split at hs
    · simp at hs; subst hs
      intro o ho
      exact .inr (cancel_not_pending s _ o ho)
    · rename_i hph
      split at hs
      · rename_i tok rest hq
        split at hs
        · simp at hs; subst hs
          intro o ho
          rcases mem_slotsLive_iff.mp ho with ho | ho
          · simp [curSlot, hph] at ho
          · refine .inr (cancel_not_pending _ _ o ?_)
            simp [hq, slotOf] at ho
            simp [curSlot, hph, Chan.deq, hq, List.mem_filterMap]
            exact ho
        · simp at hs
      · simp at hs
    · simp at hs
  case tDeq =>
    simp only [step, stepDeq] at hs
    split at hs
    · rename_i e rest hph hq
      split at hs
      · simp at hs
      · try simp only at hs
        have key : ∀ o ∈ s.slotsLive, slotOf e.pl = some o ∨ ∃ x ∈ rest, slotOf x.pl = some o := by
          intro o ho
          rcases mem_slotsLive_iff.mp ho with ho | ho
          · simp [curSlot, hph] at ho
          · simpa [hq] using ho
        split at hs
        · rename_i o' hpl
          simp at hs; subst hs
          intro o ho
          rcases key o ho with h | h
          · simp [hpl, slotOf] at h; subst h
            refine .inr ?_
            have := ping_not_pending s.ops o'
            simpa [pingMap] using this
          · refine .inl (mem_slotsLive_iff.mpr (.inr ?_))
            simpa [Chan.deq, hq] using h
        all_goals
          ((repeat' (split at hs)) <;>
           (first
             | (simp at hs; done)
             | (simp at hs; subst hs
                intro o ho
                rcases key o ho with h | h
                · simp_all [slotOf]
                · refine .inl (mem_slotsLive_iff.mpr (.inr ?_))
                  simpa [Chan.deq, hq] using h)))
    · simp at hs

theorem step_slotsLive {w : Wiring} {s s' : AState} {l : Label} (hs : step w s l = some s')
    (hcb : slotCb s.phase = true) :
    ∀ o ∈ s.slotsLive, o ∈ s'.slotsLive ∨ ∀ r' ∈ s'.ops, r'.o = o → r'.st ≠ .pending := by
  cases hl : l.dropsSlot
  · intro o ho; exact .inl (slotsLive_keep hs hl o ho)
  · exact slotsLive_drop hs hl hcb

/-- a step other than begin / ret / cdrop changes operation states only from `pending` to a final state -/
theorem OpsChange.evo {s s' : AState} {l : Label} (h : OpsChange s s' l) :
    ∃ f : OpRec → OpRec, s'.ops = s.ops.map f ∧
      ∀ r, f r = r ∨ ((f r).o = r.o ∧ (f r).st ≠ .pending ∧ (f r).st ≠ .joining) := by
  cases h with
  | same h => exact ⟨id, by simp [h], fun r => .inl rfl⟩
  | cancel slots _ h =>
    refine ⟨_, h, ?_⟩
    intro r
    split
    · exact .inr ⟨rfl, by simp, by simp⟩
    · exact .inl rfl
  | answer m o dl _ _ h =>
    refine ⟨_, h, ?_⟩
    intro r
    split
    · exact .inr ⟨rfl, by simp, by simp⟩
    · exact .inl rfl
  | ping o _ _ _ h =>
    refine ⟨_, h, ?_⟩
    intro r
    unfold pingMap
    split
    · exact .inr ⟨rfl, by simp, by simp⟩
    · exact .inl rfl

structure WaitInv (s : AState) : Prop where
  slot : ∀ r ∈ s.ops, needsSlot r = true → r.o ∈ s.slotsLive
  stop : ∀ r ∈ s.ops, needsStop r = true → stopLive s = true

theorem waitInv_init (cfg : Cfg) (h0 : Nat) (k0 : HKind) : WaitInv (AState.init cfg h0 k0) := by
  constructor <;> (intro r hr; simp [AState.init] at hr)

theorem needsSlot_new {s s' : AState} {o : Nat} {k : OpKind} {st : OpSt} (hout : BeginOut s s' o k st)
    (hn : needsSlot { o, h, kind := k, st } = true) (hph : s'.phase = s.phase) : o ∈ s'.slotsLive := by
  simp [needsSlot] at hn
  obtain ⟨hst, hk⟩ := hn
  cases hout with
  | refused e hst' _ _ => simp [hst] at hst'
  | wait hpl _ _ => cases k <;> simp_all [planPl, OpKind.isCall]
  | sent pl tok hpl _ hc _ =>
    refine mem_slotsLive_iff.mpr (.inr ⟨{ pl, tok }, by rw [hc]; simp, ?_⟩)
    cases k <;> simp [planPl, OpKind.isCall] at hpl hk <;> subst hpl <;> simp [slotOf]

theorem needsStop_new {s s' : AState} {o : Nat} {k : OpKind} {st : OpSt} (hout : BeginOut s s' o k st)
    (hn : needsStop { o, h, kind := k, st } = true) : stopLive s' = true := by
  simp [needsStop] at hn
  cases hout with
  | refused e hst' _ _ => simp [hst'] at hn
  | wait hpl _ _ => cases k <;> simp_all [planPl]
  | sent pl tok hpl _ hc _ =>
    have : pl = .stop := by cases k <;> simp_all [planPl]
    subst this
    simp [stopLive, hc]

theorem waitInv_step {w : Wiring} {s s' : AState} {l : Label} (hs : step w s l = some s')
    (hcb : slotCb s.phase = true) (hi : WaitInv s) : WaitInv s' := by
  have hstop := stopLive_step hs
  by_cases hedge : l.isOpEdge = true
  · cases l <;> simp [Label.isOpEdge] at hedge
    case begin o h k =>
      have hkeep := slotsLive_keep hs rfl
      simp only [step] at hs
      obtain ⟨_, hph, st, hops', hout⟩ := stepBegin_spec02 hs
      constructor
      · intro r' hr' hn
        rw [hops'] at hr'
        rcases List.mem_append.mp hr' with hr' | hr'
        · exact hkeep _ (hi.slot r' hr' hn)
        · simp at hr'; subst hr'
          exact needsSlot_new hout hn hph
      · intro r' hr' hn
        rw [hops'] at hr'
        rcases List.mem_append.mp hr' with hr' | hr'
        · exact hstop (hi.stop r' hr' hn)
        · simp at hr'; subst hr'
          exact needsStop_new hout hn
    case ret o res =>
      have hkeep := slotsLive_keep hs rfl
      simp only [step] at hs
      obtain ⟨_, _, _, hops', _⟩ := stepRet_ops hs
      constructor
      · intro r' hr' hn
        rw [hops'] at hr'
        exact hkeep _ (hi.slot r' (List.mem_filter.mp hr').1 hn)
      · intro r' hr' hn
        rw [hops'] at hr'
        exact hstop (hi.stop r' (List.mem_filter.mp hr').1 hn)
    case cdrop o =>
      have hkeep := slotsLive_keep hs rfl
      simp only [step] at hs
      have hops' := stepCdrop_ops hs
      constructor
      · intro r' hr' hn
        rw [hops'] at hr'
        exact hkeep _ (hi.slot r' (List.mem_filter.mp hr').1 hn)
      · intro r' hr' hn
        rw [hops'] at hr'
        exact hstop (hi.stop r' (List.mem_filter.mp hr').1 hn)
  · have hedge' : l.isOpEdge = false := by simpa using hedge
    obtain ⟨f, hf, hev⟩ := (step_opsChange hs hedge').evo
    have hsl := step_slotsLive hs hcb
    constructor
    · intro r' hr' hn
      have hr'' := hr'
      rw [hf] at hr'
      obtain ⟨r, hr, rfl⟩ := List.mem_map.mp hr'
      rcases hev r with he | ⟨_, hnp, _⟩
      · rw [he] at hn ⊢
        rcases hsl _ (hi.slot r hr hn) with h | h
        · exact h
        · rw [he] at hr''
          have := h r hr'' rfl
          simp [needsSlot] at hn
          exact absurd hn.1 this
      · simp [needsSlot] at hn
        exact absurd hn.1 hnp
    · intro r' hr' hn
      rw [hf] at hr'
      obtain ⟨r, hr, rfl⟩ := List.mem_map.mp hr'
      rcases hev r with he | ⟨_, hnp, hnj⟩
      · rw [he] at hn
        exact hstop (hi.stop r hr hn)
      · simp [needsStop] at hn
        rcases hn with hn | hn
        · exact absurd hn.1 hnp
        · exact absurd hn.1 hnj

end Hannibal
