import Hannibal.Monitor.Basic
/- Lifting a one-step simulation between model and monitor to whole runs. -/
namespace Hannibal

theorem run_lift {σ : Type} (m : Mon σ) (w : Wiring) (Inv : AState → σ → Prop)
    (hstep : ∀ s s' st l, Inv s st → step w s l = some s' → ∃ st', m.step st l = some st' ∧ Inv s' st') :
    ∀ (ls : List Label) (s s' : AState) (st : σ), Inv s st → run w s ls = some s' →
      ∃ st', m.run st ls = some st' ∧ Inv s' st'
  | [], s, s', st, hi, hr => by
    simp [run] at hr; subst hr; exact ⟨st, rfl, hi⟩
  | l :: ls, s, s', st, hi, hr => by
    simp only [run] at hr
    cases hs : step w s l with
    | none => simp [hs] at hr
    | some s1 =>
      simp only [hs] at hr
      obtain ⟨st1, hm, hi1⟩ := hstep s s1 st l hi hs
      obtain ⟨st', hm', hi'⟩ := run_lift m w Inv hstep ls s1 s' st1 hi1 hr
      exact ⟨st', by simp [Mon.run, hm, hm'], hi'⟩

theorem ok_of_run_lift {σ : Type} (m : Mon σ) (w : Wiring) (Inv : AState → σ → Prop)
    (hstep : ∀ s s' st l, Inv s st → step w s l = some s' → ∃ st', m.step st l = some st' ∧ Inv s' st')
    (s0 : AState) (hinit : Inv s0 m.init) (ls : List Label) (s : AState) (hr : run w s0 ls = some s) :
    m.ok ls = true := by
  unfold Mon.ok
  obtain ⟨st', hm, _⟩ := run_lift m w Inv hstep ls s0 s m.init hinit hr
  simp [hm]

end Hannibal
