import Hannibal.Proofs.Ops
/-
  Finer view of what a step does to the operation table: apart from `begin` / `ret` / `cdrop` every
  record keeps its id, kind and handle, and its state only changes from `pending` — to `cancelled`, or to
  `pinged` (only at `tDeq`), or to `answered` with the message of the `cbEnd (.handle m) true` at hand.
-/
namespace Hannibal
open AState

def OpFine (l : Label) (r r' : OpRec) : Prop :=
  r'.o = r.o ∧ r'.kind = r.kind ∧ r'.h = r.h ∧
    (r'.st = r.st ∨
      (r.st = .pending ∧
        (r'.st = .cancelled ∨ (l = .tDeq ∧ r'.st = .pinged) ∨
          ∃ m b d, l = .cbEnd (.handle m) true ∧ r'.st = .answered ⟨m, b, d⟩)))

def OpsFine (l : Label) (s s' : AState) : Prop := ∃ f, s'.ops = s.ops.map f ∧ ∀ r, OpFine l r (f r)

theorem OpFine.refl (l : Label) (r : OpRec) : OpFine l r r := ⟨rfl, rfl, rfl, .inl rfl⟩

theorem OpFine.trans {l : Label} {r r' r'' : OpRec} (h1 : OpFine l r r') (h2 : OpFine l r' r'') :
    OpFine l r r'' := by
  obtain ⟨a1, b1, c1, d1⟩ := h1
  obtain ⟨a2, b2, c2, d2⟩ := h2
  refine ⟨a2.trans a1, b2.trans b1, c2.trans c1, ?_⟩
  rcases d1 with d1 | ⟨hp, d1⟩
  · rcases d2 with d2 | ⟨hp2, d2⟩
    · exact .inl (d2.trans d1)
    · exact .inr ⟨d1 ▸ hp2, d2⟩
  · rcases d2 with d2 | ⟨hp2, _⟩
    · exact .inr ⟨hp, by rw [d2]; exact d1⟩
    · rcases d1 with d1 | ⟨_, d1⟩ | ⟨m, b, d, _, d1⟩ <;> rw [d1] at hp2 <;> cases hp2

theorem OpsFine.of_eq {l : Label} {s s' : AState} (h : s'.ops = s.ops) : OpsFine l s s' :=
  ⟨fun r => r, by simp [h], fun r => OpFine.refl l r⟩

theorem OpsFine.trans {l : Label} {s s' s'' : AState} (h1 : OpsFine l s s') (h2 : OpsFine l s' s'') :
    OpsFine l s s'' := by
  obtain ⟨f, hf, pf⟩ := h1
  obtain ⟨g, hg, pg⟩ := h2
  exact ⟨g ∘ f, by simp [hg, hf], fun r => (pf r).trans (pg (f r))⟩

theorem cancelSlots_fine (l : Label) (s : AState) (sl) : OpsFine l s (s.cancelSlots sl) := by
  refine ⟨fun r => if sl.contains r.o && r.st == .pending then { r with st := .cancelled } else r, rfl, ?_⟩
  intro r
  dsimp only
  split
  · rename_i h
    simp at h
    exact ⟨rfl, rfl, rfl, .inr ⟨h.2, .inl rfl⟩⟩
  · exact OpFine.refl l r

theorem fail_fine (l : Label) (s : AState) : OpsFine l s s.fail := by
  unfold fail
  exact (cancelSlots_fine l s _).trans (.of_eq rfl)

theorem finish_fine (l : Label) (s : AState) : OpsFine l s s.finish := by
  unfold finish
  exact (cancelSlots_fine l s _).trans (.of_eq rfl)

theorem answer_fine (s : AState) (sl) (m : Nat) : OpsFine (.cbEnd (.handle m) true) s (s.answer sl m) := by
  unfold answer
  split
  · exact .of_eq rfl
  · rename_i o
    refine ⟨fun r => if r.o == o && r.st == .pending then
        { r with st := .answered { m, birth := s.birth, digest := s.log } } else r, rfl, ?_⟩
    intro r
    dsimp only
    split
    · rename_i h
      simp at h
      exact ⟨rfl, rfl, rfl, .inr ⟨h.2, .inr (.inr ⟨m, _, _, rfl, rfl⟩)⟩⟩
    · exact OpFine.refl _ r

macro "fine_crush" hs:ident : tactic => `(tactic|
  ((repeat' (split at $hs:ident)) <;>
   (first
     | (simp at $hs:ident; done)
     | (simp at $hs:ident; subst $hs:ident; first
         | exact OpsFine.of_eq rfl
         | (refine OpsFine.of_eq ?_; simp; done)
         | exact fail_fine _ _
         | exact finish_fine _ _
         | exact (OpsFine.of_eq rfl).trans (fail_fine _ _)
         | exact (cancelSlots_fine _ _ _).trans (.of_eq rfl)
         | exact (fail_fine _ _).trans (.of_eq rfl)))))

/-- Labels that add or remove no operation record: the table is mapped pointwise. -/
theorem step_ops_fine {w s l s'} (hs : step w s l = some s') (hl : l.isOpEdge = false) : OpsFine l s s' := by
  cases l <;> simp only [step] at hs <;> simp [Label.isOpEdge] at hl
  case mk => unfold stepMk at hs; fine_crush hs
  case upgrade => unfold stepUpgrade at hs; fine_crush hs
  case detach => unfold stepDetach at hs; fine_crush hs
  case drop => unfold stepDrop at hs; fine_crush hs
  case stopReq => unfold stepSignal at hs; fine_crush hs
  case restartReq => unfold stepSignal at hs; fine_crush hs
  case query => unfold stepQuery at hs; fine_crush hs
  case cbBegin => unfold stepCbBegin at hs; fine_crush hs
  case cbEnd cb ok =>
    unfold stepCbEnd at hs
    repeat' (split at hs)
    all_goals first
      | (simp at hs; done)
      | (simp at hs; subst hs; exact OpsFine.of_eq rfl)
      | (rename_i hc; simp at hc; obtain ⟨rfl, rfl⟩ := hc; simp at hs; subst hs
         exact (answer_fine _ _ _).trans (.of_eq rfl))
  case cbAbandon => unfold stepCbAbandon at hs; fine_crush hs
  case cbPanic => unfold stepCbPanic at hs; fine_crush hs
  case vnew => unfold stepVnew at hs; fine_crush hs
  case work => unfold stepWork at hs; fine_crush hs
  case ctxStop => unfold stepCtxSignal at hs; fine_crush hs
  case ctxRestart => unfold stepCtxSignal at hs; fine_crush hs
  case ctxTimer => unfold stepCtxTimer at hs; fine_crush hs
  case ctxWeak => unfold stepCtxWeak at hs; fine_crush hs
  case fire => unfold stepFire at hs; fine_crush hs
  case timerArm => unfold stepTimerArm at hs; fine_crush hs
  case timerEnd => unfold stepTimerEnd at hs; fine_crush hs
  case tickBegin => unfold stepTickBegin at hs; fine_crush hs
  case extPush => unfold stepExtPush at hs; fine_crush hs
  case extBegin => unfold stepExtBegin at hs; fine_crush hs
  case time => unfold stepTime at hs; fine_crush hs
  case cancel => unfold stepCancel at hs; fine_crush hs
  case taskPanic => unfold stepTaskPanic at hs; fine_crush hs
  case streamReady => unfold stepStreamReady at hs; fine_crush hs
  case streamEnd => unfold stepStreamEnd at hs; fine_crush hs
  case taskDone => unfold stepTaskDone at hs; fine_crush hs
  case quiescent => simp only [stepQuiescent] at hs; split at hs <;> simp at hs; subst hs; exact .of_eq rfl
  case tDeq =>
    unfold stepDeq at hs
    split at hs
    · split at hs
      · simp at hs
      · simp only at hs
        repeat' (split at hs)
        all_goals first
          | (simp at hs; done)
          | (simp at hs; subst hs; exact OpsFine.of_eq rfl)
          | (simp at hs; subst hs
             refine ⟨_, rfl, ?_⟩
             intro r
             split
             · rename_i h
               exact ⟨rfl, rfl, rfl, .inr ⟨h.2, .inr (.inl ⟨rfl, rfl⟩)⟩⟩
             · exact OpFine.refl _ r)
    · simp at hs
  case tChanEnd => unfold stepChanEnd at hs; fine_crush hs
  case tStreamEnd => unfold stepStreamEndTau at hs; fine_crush hs

/-- the state a fresh record gets at `begin`: refused, or waiting -/
def OpSt.fresh : OpSt → Bool
  | .pending | .failed _ | .joining | .joinNone => true
  | _ => false

theorem stepBegin_fresh {w s o h k s'} (hs : stepBegin w s o h k = some s') :
    s.findOp o = none ∧ ∃ st, s'.ops = s.ops ++ [{ o, h, kind := k, st }] ∧ st.fresh = true := by
  obtain ⟨hfresh, -⟩ := stepBegin_ops hs
  refine ⟨hfresh, ?_⟩
  unfold stepBegin at hs
  (repeat' (split at hs)) <;>
    (first
      | (simp at hs; done)
      | (simp at hs; subst hs; exact ⟨_, rfl, rfl⟩)
      | (simp at hs; subst hs
         unfold beginWait
         (repeat' split) <;> exact ⟨_, rfl, rfl⟩))

end Hannibal
