import Hannibal.Proofs.C07OHalves
import Hannibal.Proofs.C07OMon
import Hannibal.Props.C03
/-
  C07 (ignored restart, timers): a non-restartable plain actor never goes through `refresh`, so its
  repeating timers are only ever ended by the end of the actor (quiet) or because their weak sender no
  longer upgrades — and that happens only once nobody owns the channel closures, for good.
-/
set_option linter.unusedSimpArgs false
set_option linter.unusedVariables false
namespace Hannibal
open AState

def repeating (k : TimerKind) : Bool :=
  match k with
  | .interval | .intervalWith => true
  | _ => false

structure Tim07 (c : MonCtx) (s : AState) (σ : C07oSt) : Prop where
  h : HInv s σ.hold
  rx : RxInv s
  done : s.isDone = true → σ.quiet = true
  kinds : restartable c = false → σ.quiet = false →
    ∀ t k, lookup t σ.timers = some k → ∀ x, s.findTimer t = some x → x.kind = k
  dead : restartable c = false → σ.quiet = false →
    ∀ t x, s.findTimer t = some x → repeating x.kind = true → x.Dead → HDead07 s

theorem tim07_init (c : MonCtx) : Tim07 c (AState.init c.cfg c.h0 c.k0) (monC07o c).init := by
  refine ⟨⟨rfl, by simp [AState.init]⟩, rxInv_init _ _ _, by simp [monC07o, AState.init, isDone], ?_, ?_⟩
  · intro _ _ t k h; simp [monC07o, lookup] at h
  · intro _ _ t x h; simp [AState.init, findTimer] at h

/-- the timer labels that are not aborts: the timer found under an id keeps its kind, and if it is now
    over and was not before, its weak sender failed to upgrade (or it is a one-shot timer) -/
theorem find_timerStep {w : Wiring} {s s' : AState} {l : Label} (hs : step w s l = some s')
    (hl : (∃ t due, l = .timerArm t due) ∨ (∃ t, l = .timerEnd t) ∨ (∃ t m, l = .fire t m))
    {t : Nat} {x' : Timer} (hx' : s'.findTimer t = some x') :
    ∃ x, s.findTimer t = some x ∧ x.kind = x'.kind ∧
      (x'.Dead → x.Dead ∨ (s.reqOk w (w.upgradeReq .weakSender) && s.chan.rx) = false ∨ repeating x.kind = false) := by
  rcases hl with ⟨t0, due, rfl⟩ | ⟨t0, rfl⟩ | ⟨t0, m, rfl⟩
  · simp only [step, stepTimerArm] at hs
    cases hf : s.findTimer t0 with
    | none => simp [hf] at hs
    | some x0 =>
      simp only [hf] at hs
      by_cases hte : t = t0
      · subst hte
        (repeat' (split at hs)) <;>
          (first
            | (simp at hs; done)
            | (simp at hs; subst hs
               first
                 | rw [findTimer_setTimer_eq hf] at hx'
                 | rw [findTimer_setTimer_eq (by rw [findTimer_push]; exact hf)] at hx'
               simp at hx'; subst hx'
               exact ⟨x0, hf, rfl, by intro hd; simp [Timer.Dead] at hd⟩))
      · (repeat' (split at hs)) <;>
          (first
            | (simp at hs; done)
            | (simp at hs; subst hs
               rw [findTimer_setTimer_ne hte] at hx'
               first
                 | exact ⟨x', hx', rfl, fun hd => .inl hd⟩
                 | (rw [findTimer_push] at hx'; exact ⟨x', hx', rfl, fun hd => .inl hd⟩)))
  · simp only [step, stepTimerEnd] at hs
    cases hf : s.findTimer t0 with
    | none => simp [hf] at hs
    | some x0 =>
      simp only [hf] at hs
      by_cases hte : t = t0
      · subst hte
        cases hst : x0.st <;> simp only [hst] at hs
        case dead =>
          simp at hs; subst hs
          rw [findTimer_setTimer_eq hf] at hx'; simp at hx'; subst hx'
          exact ⟨x0, hf, rfl, fun _ => .inl (.inl hst)⟩
        case deadHolding =>
          simp at hs; subst hs
          rw [findTimer_setTimer_eq hf] at hx'; simp at hx'; subst hx'
          exact ⟨x0, hf, rfl, fun _ => .inl (.inr (.inl hst))⟩
        case sleeping d0 =>
          split at hs
          · rename_i hc
            simp at hs; subst hs
            rw [findTimer_setTimer_eq hf] at hx'; simp at hx'; subst hx'
            refine ⟨x0, hf, rfl, fun _ => .inr (.inl ?_)⟩
            have := hc.2.2
            cases h1 : s.reqOk w (w.upgradeReq .weakSender) <;> cases h2 : s.chan.rx <;> simp_all
          · simp at hs
        case sending =>
          split at hs
          · rename_i hc
            simp at hs; subst hs
            rw [findTimer_setTimer_eq hf] at hx'; simp at hx'; subst hx'
            exact ⟨x0, hf, rfl, fun _ => .inr (.inr (by simp [hc.1, repeating]))⟩
          · simp at hs
        all_goals simp at hs
      · (repeat' (split at hs)) <;>
          (first
            | (simp at hs; done)
            | (simp at hs; subst hs
               rw [findTimer_setTimer_ne hte] at hx'
               exact ⟨x', hx', rfl, fun hd => .inl hd⟩))
  · simp only [step, stepFire] at hs
    cases hf : s.findTimer t0 with
    | none => simp [hf] at hs
    | some x0 =>
      simp only [hf] at hs
      by_cases hte : t = t0
      · subst hte
        split at hs
        · simp at hs
        · (repeat' (split at hs)) <;>
          (first
            | (simp at hs; done)
            | (simp at hs; subst hs
               first
                 | rw [findTimer_setTimer_eq hf] at hx'
                 | rw [findTimer_setTimer_eq (by rw [findTimer_push]; exact hf)] at hx'
               simp at hx'; subst hx'
               refine ⟨x0, hf, rfl, ?_⟩
               first
                 | (intro hd; simp [Timer.Dead] at hd; done)
                 | (intro _; refine .inr (.inr ?_); simp_all [repeating]; done)
                 | (intro _; refine .inr (.inl ?_); simp_all; done)))
      · (repeat' (split at hs)) <;>
          (first
            | (simp at hs; done)
            | (simp at hs; subst hs
               rw [findTimer_setTimer_ne hte] at hx'
               first
                 | exact ⟨x', hx', rfl, fun hd => .inl hd⟩
                 | (rw [findTimer_push] at hx'; exact ⟨x', hx', rfl, fun hd => .inl hd⟩)))

theorem next07o_quiet_false {σ : C07oSt} {l : Label} (h : (next07o σ l).quiet = false) :
    σ.quiet = false ∧ quiet07 l = false := by
  simp only [next07o] at h
  cases h1 : σ.quiet <;> cases h2 : quiet07 l <;> simp_all

theorem quiet07_of_terminates {l : Label} (h : l.terminates = true) : quiet07 l = true := by
  cases l <;> simp [Label.terminates] at h <;> rfl

theorem tim07_step (w : Wiring) (hw : WellWired05 w) (c : MonCtx) {s s' : AState} {σ : C07oSt} {l : Label}
    (hcfg : s.cfg = c.cfg) (hrst : RstOk s) (hi : Tim07 c s σ) (hs : step w s l = some s') :
    badIgn c σ l = false ∧ Tim07 c s' (next07o σ l) := by
  have hH := hinv_step hi.h hs
  have hR := rxInv_step hs hi.rx
  obtain ⟨hd1, hd2⟩ := step_isDone w hs
  have hheld : σ.hold.strongHeld = s.handles.any (fun p => p.2.strong) := by
    unfold HoldSt.strongHeld; rw [hi.h.handles]
  have hrxq : σ.quiet = false → s.chan.rx = true := by
    intro hq
    rcases hi.rx with h | h
    · have := hi.done h; rw [hq] at this; cases this
    · exact h
  have hnorst : restartable c = false → s.phase ≠ .rstStopping := by
    intro hr hp
    have := hrst (.inr (.inl hp))
    rw [hcfg] at this
    simp [restartable, this.1, this.2] at hr
  refine ⟨?_, ⟨hH, hR, ?_, ?_, ?_⟩⟩
  · -- (ii) never fires
    cases l <;> simp [badIgn]
    case timerEnd t =>
      intro hr _ _ hq _ hh
      have hr' : restartable c = false := by simpa using hr
      have hq' : σ.quiet = false := hq
      rw [hheld] at hh
      cases hl : lookup t σ.timers with
      | none => simp
      | some k =>
        simp only [step, stepTimerEnd] at hs
        cases hf : s.findTimer t with
        | none => simp [hf] at hs
        | some x =>
          have hk := hi.kinds hr' hq' t k hl x hf
          have hrep : repeating k = true → False := by
            intro hrep
            rw [← hk] at hrep
            simp only [hf] at hs
            have hdead : x.Dead → False := fun hd => by
              have := (hi.dead hr' hq' t x hf hrep hd).not_strong
              rw [hh] at this; cases this
            cases hst : x.st <;> simp only [hst] at hs
            case dead => exact hdead (.inl hst)
            case deadHolding => exact hdead (.inr (.inl hst))
            case sleeping d0 =>
              split at hs
              · rename_i hc
                have := hc.2.2
                simp [reqOk_of_strong hw.w15 hh, hrxq hq'] at this
              · simp at hs
            case sending =>
              split at hs
              · rename_i hc; rw [hc.1] at hrep; simp [repeating] at hrep
              · simp at hs
            all_goals simp at hs
          cases k <;> simp <;> exact hrep rfl
  · intro hd
    simp only [next07o]
    cases ht : l.terminates
    · rw [hd2 ht] at hd; simp [hi.done hd]
    · simp [quiet07_of_terminates ht]
  · -- kinds
    intro hr hq t k hl x' hx'
    obtain ⟨hq0, hql⟩ := next07o_quiet_false hq
    have hnt : l.terminates = false := by
      cases ht : l.terminates
      · rfl
      · rw [quiet07_of_terminates ht] at hql; cases hql
    by_cases htt : l.touchesTimers = true
    · cases l <;> simp [Label.touchesTimers] at htt <;> simp [Label.terminates] at hnt
      case ctxTimer t0 k0 d =>
        simp only [step, stepCtxTimer] at hs
        split at hs
        · simp at hs; subst hs
          rename_i hc
          simp at hc
          have hl' : lookup t ((t0, k0) :: σ.timers) = some k := by simpa [next07o] using hl
          unfold findTimer at hx'
          simp only [List.find?_append] at hx'
          by_cases hte : t0 = t
          · subst hte
            have hnone : s.timers.find? (fun y => y.id == t0) = none := by
              rw [List.find?_eq_none]; intro y hy; simpa using hc.2 y hy
            simp [hnone] at hx'
            simp [lookup] at hl'
            subst hx'; simp [hl']
          · simp [lookup, hte] at hl'
            cases hf : s.timers.find? (fun y => y.id == t) with
            | none => simp [hf, hte] at hx'
            | some y =>
              simp [hf] at hx'; subst hx'
              exact hi.kinds hr hq0 t k hl' y (by unfold findTimer; exact hf)
        · simp at hs
      case timerArm t0 due =>
        obtain ⟨x, hx, hk, _⟩ := find_timerStep hs (.inl ⟨_, _, rfl⟩) hx'
        rw [← hk]; exact hi.kinds hr hq0 t k (by simpa [next07o] using hl) x hx
      case timerEnd t0 =>
        obtain ⟨x, hx, hk, _⟩ := find_timerStep hs (.inr (.inl ⟨_, rfl⟩)) hx'
        rw [← hk]; exact hi.kinds hr hq0 t k (by simpa [next07o] using hl) x hx
      case fire t0 m =>
        obtain ⟨x, hx, hk, _⟩ := find_timerStep hs (.inr (.inr ⟨_, _, rfl⟩)) hx'
        rw [← hk]; exact hi.kinds hr hq0 t k (by simpa [next07o] using hl) x hx
      case cbEnd cb ok =>
        have hcb : cb = .stopped := by cases cb <;> simp_all [Label.touchesTimers]
        subst hcb
        simp only [step, stepCbEnd] at hs
        split at hs
        · simp at hs
        · cases hp : s.phase <;> simp [hp] at hs
          · exact absurd hp (hnorst hr)
          · obtain ⟨_, rfl⟩ := hs
            exact hi.kinds hr hq0 t k (by simpa [next07o] using hl) x' hx'
    · have htt' : l.touchesTimers = false := by simpa using htt
      rw [findTimer_of_timers_eq (step_timers_same hs htt')] at hx'
      have hl' : lookup t σ.timers = some k := by
        cases l <;> simp_all [next07o, Label.touchesTimers]
      exact hi.kinds hr hq0 t k hl' x' hx'
  · -- dead timers
    intro hr hq t x' hx' hrep hd
    obtain ⟨hq0, hql⟩ := next07o_quiet_false hq
    have hnt : l.terminates = false := by
      cases ht : l.terminates
      · rfl
      · rw [quiet07_of_terminates ht] at hql; cases hql
    have hold : ∀ x, s.findTimer t = some x → x.kind = x'.kind →
        (x.Dead ∨ (s.reqOk w (w.upgradeReq .weakSender) && s.chan.rx) = false ∨ repeating x.kind = false) →
        HDead07 s' := by
      intro x hx hk hc
      rcases hc with hc | hc | hc
      · exact hdead07_step hw (hi.dead hr hq0 t x hx (by rw [hk]; exact hrep) hc) hs
      · rw [hrxq hq0] at hc
        simp at hc
        exact hdead07_step hw (hdead07_of_reqFail hw hc) hs
      · rw [hk, hrep] at hc; cases hc
    by_cases htt : l.touchesTimers = true
    · cases l <;> simp [Label.touchesTimers] at htt <;> simp [Label.terminates] at hnt
      case ctxTimer t0 k0 d =>
        have hs0 := hs
        simp only [step, stepCtxTimer] at hs
        split at hs
        · simp at hs; subst hs
          unfold findTimer at hx'
          simp only [List.find?_append] at hx'
          cases hf : s.timers.find? (fun y => y.id == t) with
          | none =>
            simp [hf] at hx'
            obtain ⟨_, rfl⟩ := hx'
            simp [Timer.Dead] at hd
          | some y =>
            simp [hf] at hx'; subst hx'
            exact hold y (by unfold findTimer; exact hf) rfl (.inl hd)
        · simp at hs
      case timerArm t0 due =>
        obtain ⟨x, hx, hk, hc⟩ := find_timerStep hs (.inl ⟨_, _, rfl⟩) hx'
        exact hold x hx hk (hc hd)
      case timerEnd t0 =>
        obtain ⟨x, hx, hk, hc⟩ := find_timerStep hs (.inr (.inl ⟨_, rfl⟩)) hx'
        exact hold x hx hk (hc hd)
      case fire t0 m =>
        obtain ⟨x, hx, hk, hc⟩ := find_timerStep hs (.inr (.inr ⟨_, _, rfl⟩)) hx'
        exact hold x hx hk (hc hd)
      case cbEnd cb ok =>
        have hcb : cb = .stopped := by cases cb <;> simp_all [Label.touchesTimers]
        subst hcb
        have hs0 := hs
        simp only [step, stepCbEnd] at hs
        split at hs
        · simp at hs
        · cases hp : s.phase <;> simp [hp] at hs
          · exact absurd hp (hnorst hr)
          · obtain ⟨_, rfl⟩ := hs
            exact hold x' hx' rfl (.inl hd)
    · have htt' : l.touchesTimers = false := by simpa using htt
      rw [findTimer_of_timers_eq (step_timers_same hs htt')] at hx'
      exact hold x' hx' rfl (.inl hd)

end Hannibal
