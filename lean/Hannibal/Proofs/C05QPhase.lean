import Hannibal.Proofs.C05Phase
import Hannibal.Proofs.C02Wait
/-
  C05 (2), support 2 (model only): how the loop is left for good, which ways out are failures, and what a
  step does to the user messages waiting in the mailbox.
-/
set_option linter.unusedSimpArgs false
set_option linter.unusedVariables false
namespace Hannibal
open AState

/-- the loop future is gone, or going, without `notify()` -/
def failPhase : Phase → Bool
  | .exiting false | .done false => true
  | _ => false

set_option maxHeartbeats 1000000 in
/-- once the loop has been left it stays left -/
theorem pastLoop_step {w : Wiring} {s s' : AState} {l : Label} (hs : step w s l = some s')
    (h : pastLoop s.phase = true) : pastLoop s'.phase = true := by
  cases l <;> unfold_steps hs <;>
    ((repeat' (split at hs)) <;>
     (first
       | (simp at hs; done)
       | (simp at hs; subst hs; exact h)
       | (simp at hs; subst hs
          simp_all [pastLoop, fail, finish, cancelSlots, killTimers, setTimer, addOp, removeOp,
            removeHandle, push, answer]
          done)
       | (simp at hs; subst hs
          cases hp : s.phase <;>
          simp_all [pastLoop, fail, finish, cancelSlots, killTimers, openCb, isDone, inCallback]
          done)))

set_option maxHeartbeats 1000000 in
/-- a failing end of the loop is announced by a failure label (or a handler timeout that is configured to
    fail the actor) -/
theorem failPhase_step {w : Wiring} {s s' : AState} {l : Label} (hs : step w s l = some s')
    (h : failPhase s'.phase = true) :
    failPhase s.phase = true ∨ l.isFailure = true ∨
      ((match l with | .cbAbandon _ => true | _ => false) = true ∧ s.cfg.failOnTimeout = true) := by
  cases l <;> unfold_steps hs <;>
    ((repeat' (split at hs)) <;>
     (first
       | (simp at hs; done)
       | (simp at hs; subst hs; exact .inl h)
       | (simp at hs; subst hs
          simp_all [failPhase, Label.isFailure, fail, finish, cancelSlots, killTimers, setTimer, addOp, removeOp,
            removeHandle, push, answer]
          done)
       | (simp at hs; subst hs
          cases hp : s.phase <;>
          simp_all [failPhase, Label.isFailure, fail, finish, cancelSlots, killTimers, openCb, isDone, inCallback]
          done)))

set_option maxHeartbeats 1000000 in
/-- apart from the three internal ways out of `idle`, the loop is only left by failing -/
theorem enter_pastLoop {w : Wiring} {s s' : AState} {l : Label} (hs : step w s l = some s')
    (hl : l.isExit = false) (h0 : pastLoop s.phase = false) (h1 : pastLoop s'.phase = true) :
    failPhase s'.phase = true := by
  cases l <;> simp [Label.isExit] at hl <;> unfold_steps hs <;>
    ((repeat' (split at hs)) <;>
     (first
       | (simp at hs; done)
       | (simp at hs; subst hs; simp_all; done)
       | (simp at hs; subst hs
          simp_all [pastLoop, failPhase, fail, finish, cancelSlots, killTimers, setTimer, addOp, removeOp,
            removeHandle, push, answer]
          done)
       | (simp at hs; subst hs
          cases hp : s.phase <;>
          simp_all [pastLoop, failPhase, fail, finish, cancelSlots, killTimers, openCb, isDone, inCallback]
          done)))

/-! ### user messages waiting in the mailbox -/

/-- message `m` waits in the mailbox -/
def inQ (s : AState) (m : Nat) : Prop := ∃ e ∈ s.chan.queue, ∃ sl, e.pl = .msg m sl

theorem inQ_of_chan {s s' : AState} {m : Nat} (h : s'.chan = s.chan) (hq : inQ s m) : inQ s' m := by
  unfold inQ at *; rw [h]; exact hq

theorem inQ_enq {s s' : AState} {m : Nat} {e : Entry} (h : s'.chan = s.chan.enq e) (hq : inQ s m) : inQ s' m := by
  obtain ⟨e', he', sl, hpl⟩ := hq
  exact ⟨e', by rw [h]; simp [he'], sl, hpl⟩

theorem inQ_sameOrEnq {s s' : AState} {m : Nat} (h : SameOrEnq s.chan s'.chan) (hq : inQ s m) : inQ s' m := by
  rcases h with h | ⟨e, _, h⟩
  · exact inQ_of_chan h hq
  · exact inQ_enq h hq

theorem inQ_new {s s' : AState} {m : Nat} {sl : Option Nat} {tok : Tok}
    (h : s'.chan = s.chan.enq { pl := .msg m sl, tok }) : inQ s' m :=
  ⟨{ pl := .msg m sl, tok }, by rw [h]; simp, sl, rfl⟩

/-- a step keeps a waiting user message in the mailbox unless the loop takes it (its handler begins) or
    the loop task ends -/
theorem inQ_step {w : Wiring} {s s' : AState} {l : Label} {m : Nat} (hs : step w s l = some s')
    (hq : inQ s m) : inQ s' m ∨ l = .cbBegin (.handle m) ∨ l.terminates = true := by
  have same : s'.chan = s.chan → inQ s' m ∨ l = .cbBegin (.handle m) ∨ l.terminates = true :=
    fun h => .inl (inQ_of_chan h hq)
  have soe : SameOrEnq s.chan s'.chan → inQ s' m ∨ l = .cbBegin (.handle m) ∨ l.terminates = true :=
    fun h => .inl (inQ_sameOrEnq h hq)
  have tail : ∀ e rest, s.chan.queue = e :: rest → (∀ sl, e.pl ≠ .msg m sl) → s'.chan.queue = rest → inQ s' m := by
    intro e rest hqq hne hq'
    obtain ⟨e', he', sl, hpl⟩ := hq
    rw [hqq] at he'
    rcases List.mem_cons.mp he' with rfl | he'
    · exact absurd hpl (hne sl)
    · exact ⟨e', by rw [hq']; exact he', sl, hpl⟩
  cases l <;> simp only [step] at hs
  case begin => exact soe (stepBegin_chan hs)
  case ret => exact same (stepRet_chan hs)
  case cdrop => exact same (stepCdrop_chan hs)
  case mk => exact same (stepMk_chan hs)
  case upgrade => exact same (stepUpgrade_chan hs)
  case detach => exact same (stepDetach_chan hs)
  case drop => exact same (stepDrop_chan hs)
  case stopReq => exact soe (stepSignal_chan hs)
  case restartReq => exact soe (stepSignal_chan hs)
  case query => exact same (stepQuery_chan hs)
  case cbBegin cb =>
    rcases stepCbBegin_detail hs with ⟨m', sl, tok, rest, rfl, hqq, hc⟩ | ⟨hc, _⟩
    · by_cases hm : m' = m
      · subst hm; exact .inr (.inl rfl)
      · refine .inl (tail _ rest hqq ?_ (by rw [hc]; simp [Chan.deq, hqq]))
        intro sl' h; simp at h; exact hm h.1
    · exact same hc
  case cbEnd => exact same (stepCbEnd_chan hs)
  case cbAbandon => exact same (stepCbAbandon_chan hs)
  case cbPanic => exact same (stepCbPanic_chan hs)
  case vnew => exact same (stepVnew_chan hs)
  case work => exact same (stepWork_chan hs)
  case ctxStop => exact soe (stepCtxSignal_chan hs)
  case ctxRestart => exact soe (stepCtxSignal_chan hs)
  case ctxTimer => exact same (stepCtxTimer_chan hs)
  case ctxWeak => exact same (stepCtxWeak_chan hs)
  case fire => exact soe (stepFire_chan hs)
  case timerArm => exact soe (stepTimerArm_chan hs)
  case timerEnd => exact same (stepTimerEnd_chan hs)
  case tickBegin t m' =>
    obtain ⟨tok, rest, hqq, hc⟩ := stepTickBegin_detail hs
    obtain ⟨e', he', sl, hpl⟩ := hq
    rw [hqq] at he'
    rcases List.mem_cons.mp he' with rfl | he'
    · simp at hpl
    · exact .inl ⟨e', by rw [hc]; simp [he'], sl, hpl⟩
  case extPush => exact soe (stepExtPush_chan hs)
  case extBegin b m' =>
    obtain ⟨tok, rest, hqq, hc⟩ := stepExtBegin_detail hs
    obtain ⟨e', he', sl, hpl⟩ := hq
    rw [hqq] at he'
    rcases List.mem_cons.mp he' with rfl | he'
    · simp at hpl
    · exact .inl ⟨e', by rw [hc]; simp [he'], sl, hpl⟩
  case time => exact same (stepTime_chan hs)
  case cancel => exact .inr (.inr rfl)
  case taskPanic => exact .inr (.inr rfl)
  case streamReady => exact same (stepStreamReady_chan hs)
  case streamEnd => exact same (stepStreamEnd_chan hs)
  case taskDone => exact .inr (.inr rfl)
  case quiescent =>
    simp only [stepQuiescent] at hs; split at hs <;> simp at hs; subst hs; exact .inl hq
  case tDeq =>
    obtain ⟨e, rest, hqq, hne, hc⟩ := stepDeq_detail hs
    exact .inl (tail e rest hqq (fun sl => hne m sl) (by rw [hc]; simp [Chan.deq, hqq]))
  case tChanEnd => exact same (stepChanEnd_chan hs)
  case tStreamEnd => exact same (stepStreamEndTau_chan hs)

theorem stepChanEnd_empty {w : Wiring} {s s' : AState} (hs : stepChanEnd w s = some s') : s.chan.queue = [] := by
  unfold stepChanEnd at hs
  split at hs
  · split at hs
    · rename_i hc
      simp at hc
      exact hc.1
    · simp at hs
  · simp at hs

end Hannibal
