import Hannibal.Proofs.Frame
/-
  Second projection: what a step does to the table of pending operations.
  Apart from `begin` (adds one), `ret` / `cdrop` (remove one) every step maps
  the table pointwise, keeps ids / kinds / handles and never makes a
  non-pending operation pending again.
-/
namespace Hannibal
open AState

structure OpPres (f : OpRec → OpRec) : Prop where
  o : ∀ r, (f r).o = r.o
  kind : ∀ r, (f r).kind = r.kind
  h : ∀ r, (f r).h = r.h
  st : ∀ r, (f r).st = .pending → r.st = .pending
  failed : ∀ r e, (f r).st = .failed e → r.st = .failed e
  keep : ∀ r, r.st ≠ .pending → (f r).st = r.st

def OpsMap (s s' : AState) : Prop := ∃ f, s'.ops = s.ops.map f ∧ OpPres f

theorem OpPres.id : OpPres (fun r => r) :=
  ⟨fun _ => rfl, fun _ => rfl, fun _ => rfl, fun _ h => h, fun _ _ h => h, fun _ _ => rfl⟩

theorem OpsMap.of_eq {s s' : AState} (h : s'.ops = s.ops) : OpsMap s s' :=
  ⟨fun r => r, by simp [h], OpPres.id⟩

theorem OpsMap.trans {s s' s'' : AState} (h1 : OpsMap s s') (h2 : OpsMap s' s'') : OpsMap s s'' := by
  obtain ⟨f, hf, pf⟩ := h1
  obtain ⟨g, hg, pg⟩ := h2
  refine ⟨g ∘ f, by simp [hg, hf], ?_⟩
  exact ⟨fun r => by simp [pg.o, pf.o], fun r => by simp [pg.kind, pf.kind],
         fun r => by simp [pg.h, pf.h], fun r h => pf.st r (pg.st (f r) h),
         fun r e h => pf.failed r e (pg.failed (f r) e h),
         fun r h => by
           have h1 := pf.keep r h
           have h2 := pg.keep (f r) (by rw [h1]; exact h)
           simp [h2, h1]⟩

@[simp] theorem addOp_ops (s : AState) (o h k st) :
    (s.addOp o h k st).ops = s.ops ++ [{ o, h, kind := k, st }] := rfl
@[simp] theorem removeOp_ops (s : AState) (o) : (s.removeOp o).ops = s.ops.filter (fun r => r.o != o) := rfl

theorem cancelSlots_opsMap (s : AState) (l) : OpsMap s (s.cancelSlots l) := by
  refine ⟨fun r => if l.contains r.o && r.st == .pending then { r with st := .cancelled } else r, rfl, ?_⟩
  constructor <;> intro r <;> split <;> simp_all

theorem answer_opsMap (s : AState) (sl m) : OpsMap s (s.answer sl m) := by
  unfold answer
  split
  · exact .of_eq rfl
  · rename_i o
    refine ⟨fun r => if r.o == o && r.st == .pending then
        { r with st := .answered { m, birth := s.birth, digest := s.log } } else r, rfl, ?_⟩
    constructor <;> intro r <;> split <;> simp_all

theorem fail_opsMap (s : AState) : OpsMap s s.fail := by
  unfold fail
  exact (cancelSlots_opsMap s _).trans (.of_eq rfl)

theorem finish_opsMap (s : AState) : OpsMap s s.finish := by
  unfold finish
  exact (cancelSlots_opsMap s _).trans (.of_eq rfl)

theorem beginWait_ops (s : AState) (o h k j) :
    ∃ st, (s.beginWait o h k j).ops = s.ops ++ [{ o, h, kind := k, st }] := by
  unfold beginWait; split
  · split <;> exact ⟨_, rfl⟩
  · exact ⟨_, rfl⟩

/-- `begin`: exactly one fresh record is appended (after a possible submission). -/
theorem stepBegin_ops {w s o h k s'} (hs : stepBegin w s o h k = some s') :
    s.findOp o = none ∧ ∃ st, s'.ops = s.ops ++ [{ o, h, kind := k, st }] := by
  unfold stepBegin at hs
  split at hs
  · simp at hs
  · split at hs
    · simp at hs
    · rename_i hg
      have hfresh : s.findOp o = none := by
        simp at hg
        exact Option.not_isSome_iff_eq_none.mp (by simp [hg.2])
      refine ⟨hfresh, ?_⟩
      (repeat' (split at hs)) <;>
        (first
          | (simp at hs; done)
          | (simp at hs; subst hs; first
              | exact ⟨_, rfl⟩
              | exact beginWait_ops _ _ _ _ _
              | (obtain ⟨st, h⟩ := beginWait_ops (s.push ‹_› ‹_› ‹_›) o h k ‹_›; exact ⟨st, by simpa using h⟩)))

theorem retEffect_ops (s : AState) (r : OpRec) : (s.retEffect r).ops = s.ops.filter (fun x => x.o != r.o) := by
  unfold retEffect
  simp only
  split <;> split <;> split <;> rfl

theorem stepRet_ops {s o r s'} (hs : stepRet s o r = some s') :
    ∃ rec, s.findOp o = some rec ∧ s.retExpect rec = some r ∧
      s'.ops = s.ops.filter (fun x => x.o != o) ∧ rec.o = o := by
  unfold stepRet at hs
  cases hf : s.findOp o with
  | none => simp [hf] at hs
  | some rec =>
    simp only [hf] at hs
    split at hs
    · simp at hs; subst hs
      have ho : rec.o = o := by
        unfold findOp at hf
        have := List.find?_some hf
        simpa using this
      exact ⟨rec, rfl, by assumption, by rw [retEffect_ops, ho], ho⟩
    · simp at hs

theorem stepCdrop_ops {s o s'} (hs : stepCdrop s o = some s') :
    s'.ops = s.ops.filter (fun x => x.o != o) := by
  unfold stepCdrop at hs
  split at hs
  · simp at hs
  · split at hs <;> (simp at hs; subst hs; simp)

macro "ops_crush" hs:ident : tactic => `(tactic|
  ((repeat' (split at $hs:ident)) <;>
   (first
     | (simp at $hs:ident; done)
     | (simp at $hs:ident; subst $hs:ident; first
         | exact OpsMap.of_eq rfl
         | (refine OpsMap.of_eq ?_; simp; done)
         | (refine OpsMap.of_eq ?_; simp; done)
         | exact fail_opsMap _
         | exact finish_opsMap _))))

theorem stepMk_ops {s h h' k s'} (hs : stepMk s h h' k = some s') : OpsMap s s' := by
  unfold stepMk at hs; ops_crush hs
theorem stepUpgrade_ops {w s h h' s'} (hs : stepUpgrade w s h h' = some s') : OpsMap s s' := by
  unfold stepUpgrade at hs; ops_crush hs
theorem stepDetach_ops {s h h' s'} (hs : stepDetach s h h' = some s') : OpsMap s s' := by
  unfold stepDetach at hs; ops_crush hs
theorem stepDrop_ops {s h s'} (hs : stepDrop s h = some s') : OpsMap s s' := by
  unfold stepDrop at hs; ops_crush hs
theorem stepSignal_ops {w s h pl path ok s'} (hs : stepSignal w s h pl path ok = some s') :
    OpsMap s s' := by
  unfold stepSignal at hs; ops_crush hs
theorem stepQuery_ops {w s h b s'} (hs : stepQuery w s h b = some s') : OpsMap s s' := by
  unfold stepQuery at hs; ops_crush hs
theorem stepCbBegin_ops {w s cb s'} (hs : stepCbBegin w s cb = some s') : OpsMap s s' := by
  unfold stepCbBegin at hs; ops_crush hs
theorem stepCbEnd_ops {w s cb ok s'} (hs : stepCbEnd w s cb ok = some s') : OpsMap s s' := by
  unfold stepCbEnd at hs
  repeat' (split at hs)
  all_goals first
    | (simp at hs; done)
    | (simp at hs; subst hs; first
        | exact OpsMap.of_eq rfl
        | exact (answer_opsMap _ _ _).trans (.of_eq rfl))
theorem stepCbAbandon_ops {s cb s'} (hs : stepCbAbandon s cb = some s') : OpsMap s s' := by
  unfold stepCbAbandon at hs
  repeat' (split at hs)
  all_goals first
    | (simp at hs; done)
    | (simp at hs; subst hs; first
        | exact OpsMap.of_eq rfl
        | exact (cancelSlots_opsMap _ _).trans (.of_eq rfl))
theorem stepCbPanic_ops {s cb s'} (hs : stepCbPanic s cb = some s') : OpsMap s s' := by
  unfold stepCbPanic at hs
  split at hs
  · simp at hs; subst hs; exact (cancelSlots_opsMap _ _).trans (.of_eq rfl)
  · simp at hs
theorem stepVnew_ops {s b s'} (hs : stepVnew s b = some s') : OpsMap s s' := by
  unfold stepVnew at hs; ops_crush hs
theorem stepWork_ops {s d s'} (hs : stepWork s d = some s') : OpsMap s s' := by
  unfold stepWork at hs; ops_crush hs
theorem stepCtxSignal_ops {w s req pl path ok s'} (hs : stepCtxSignal w s req pl path ok = some s') :
    OpsMap s s' := by
  unfold stepCtxSignal at hs; ops_crush hs
theorem stepCtxTimer_ops {s t k d s'} (hs : stepCtxTimer s t k d = some s') : OpsMap s s' := by
  unfold stepCtxTimer at hs; ops_crush hs
theorem stepCtxWeak_ops {w s k h s'} (hs : stepCtxWeak w s k h = some s') : OpsMap s s' := by
  unfold stepCtxWeak at hs; ops_crush hs
theorem stepTimerArm_ops {w s t due s'} (hs : stepTimerArm w s t due = some s') : OpsMap s s' := by
  unfold stepTimerArm at hs; ops_crush hs
theorem stepTimerEnd_ops {w s t s'} (hs : stepTimerEnd w s t = some s') : OpsMap s s' := by
  unfold stepTimerEnd at hs; ops_crush hs
theorem stepFire_ops {w s t m s'} (hs : stepFire w s t m = some s') : OpsMap s s' := by
  unfold stepFire at hs; ops_crush hs
theorem stepTickBegin_ops {s t m s'} (hs : stepTickBegin s t m = some s') : OpsMap s s' := by
  unfold stepTickBegin at hs; ops_crush hs
theorem stepExtPush_ops {s b s'} (hs : stepExtPush s b = some s') : OpsMap s s' := by
  unfold stepExtPush at hs; ops_crush hs
theorem stepExtBegin_ops {s b m s'} (hs : stepExtBegin s b m = some s') : OpsMap s s' := by
  unfold stepExtBegin at hs; ops_crush hs
theorem stepTime_ops {s t s'} (hs : stepTime s t = some s') : OpsMap s s' := by
  unfold stepTime at hs; ops_crush hs
theorem stepCancel_ops {s s'} (hs : stepCancel s = some s') : OpsMap s s' := by
  unfold stepCancel at hs
  split at hs
  · simp at hs
  · simp at hs; subst hs; exact (fail_opsMap _).trans (.of_eq rfl)
theorem stepTaskDone_ops {s s'} (hs : stepTaskDone s = some s') : OpsMap s s' := by
  unfold stepTaskDone at hs; ops_crush hs
theorem stepTaskPanic_ops {s s'} (hs : stepTaskPanic s = some s') : OpsMap s s' := by
  unfold stepTaskPanic at hs
  repeat' (split at hs)
  all_goals first
    | (simp at hs; done)
    | (simp at hs; subst hs; first
        | exact fail_opsMap _
        | exact (OpsMap.of_eq rfl).trans (fail_opsMap _))
theorem stepStreamReady_ops {s k s'} (hs : stepStreamReady s k = some s') : OpsMap s s' := by
  unfold stepStreamReady at hs; ops_crush hs
theorem stepStreamEnd_ops {s s'} (hs : stepStreamEnd s = some s') : OpsMap s s' := by
  unfold stepStreamEnd at hs; ops_crush hs
theorem stepDeq_ops {s s'} (hs : stepDeq s = some s') : OpsMap s s' := by
  unfold stepDeq at hs
  split at hs
  · split at hs
    · simp at hs
    · simp only at hs
      repeat' (split at hs)
      all_goals first
        | (simp at hs; done)
        | (simp at hs; subst hs; first
            | exact OpsMap.of_eq rfl
            | (refine ⟨_, rfl, ?_⟩; constructor <;> intro r <;> (try simp only) <;> split <;> simp_all))
  · simp at hs
theorem stepChanEnd_ops {w s s'} (hs : stepChanEnd w s = some s') : OpsMap s s' := by
  unfold stepChanEnd at hs; ops_crush hs
theorem stepStreamEndTau_ops {s s'} (hs : stepStreamEndTau s = some s') : OpsMap s s' := by
  unfold stepStreamEndTau at hs; ops_crush hs

/-- Labels that add or remove an operation record. -/
def Label.isOpEdge : Label → Bool
  | .begin _ _ _ | .ret _ _ | .cdrop _ => true
  | _ => false

theorem step_ops {w s l s'} (hs : step w s l = some s') (hl : l.isOpEdge = false) : OpsMap s s' := by
  cases l <;> simp only [step] at hs <;> simp [Label.isOpEdge] at hl
  case mk => exact stepMk_ops hs
  case upgrade => exact stepUpgrade_ops hs
  case detach => exact stepDetach_ops hs
  case drop => exact stepDrop_ops hs
  case stopReq => exact stepSignal_ops hs
  case restartReq => exact stepSignal_ops hs
  case query => exact stepQuery_ops hs
  case cbBegin => exact stepCbBegin_ops hs
  case cbEnd => exact stepCbEnd_ops hs
  case cbAbandon => exact stepCbAbandon_ops hs
  case cbPanic => exact stepCbPanic_ops hs
  case vnew => exact stepVnew_ops hs
  case work => exact stepWork_ops hs
  case ctxStop => exact stepCtxSignal_ops hs
  case ctxRestart => exact stepCtxSignal_ops hs
  case ctxTimer => exact stepCtxTimer_ops hs
  case ctxWeak => exact stepCtxWeak_ops hs
  case fire => exact stepFire_ops hs
  case tickBegin => exact stepTickBegin_ops hs
  case extPush => exact stepExtPush_ops hs
  case extBegin => exact stepExtBegin_ops hs
  case time => exact stepTime_ops hs
  case cancel => exact stepCancel_ops hs
  case taskPanic => exact stepTaskPanic_ops hs
  case streamReady => exact stepStreamReady_ops hs
  case streamEnd => exact stepStreamEnd_ops hs
  case taskDone => exact stepTaskDone_ops hs
  case quiescent => simp only [stepQuiescent] at hs; split at hs <;> simp at hs; subst hs; exact .of_eq rfl
  case tDeq => exact stepDeq_ops hs
  case tChanEnd => exact stepChanEnd_ops hs
  case tStreamEnd => exact stepStreamEndTau_ops hs
  case timerArm => exact stepTimerArm_ops hs
  case timerEnd => exact stepTimerEnd_ops hs

end Hannibal
