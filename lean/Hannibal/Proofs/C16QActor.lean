import Hannibal.Proofs.C16Queue
import Hannibal.Proofs.C05Dead
import Hannibal.Proofs.C05Phase
import Hannibal.Monitor.C16
/-
  C16q, single-actor part: an actor that was never "cut" (no stop / restart request, no failure, no handler
  timeout, its stream has not ended) either still runs its loop on an open mailbox that contains no stop and
  no restart request (`Calm`), or it left the loop because nothing owns a sender any more, for ever, with no
  broadcast waiting (`Gone`).  In both cases every step that is not a cut keeps the exact count of waiting
  broadcasts: only `extPush` adds one, only `extBegin` takes one.
-/
namespace Hannibal
namespace C16Q
open AState

/-- the loop is running (or about to) and is not inside a restart -/
def calm : Phase → Bool
  | .unstarted | .starting | .idle | .handling _ _ _ => true
  | _ => false

@[simp] theorem deq_rx (c : Chan) : c.deq.rx = c.rx := rfl

set_option maxHeartbeats 1000000 in
/-- a step that is neither a cut, nor a way out of `idle`, nor the end of the task keeps the loop running and
    the mailbox open -/
theorem calm_step {w : Wiring} {s s' : AState} {l : Label} (hs : step w s l = some s')
    (hc : calm s.phase = true) (hl : l.isExit = false) (ht : l ≠ .taskDone) :
    (calm s'.phase = true ∧ s'.chan.rx = s.chan.rx) ∨ cuts l = true := by
  cases l <;> simp [Label.isExit] at hl ht <;> unfold_steps hs <;>
    ((repeat' (split at hs)) <;>
     (first
       | (simp at hs; done)
       | (simp at hs; subst hs; simp_all [calm, cuts, issuesStop, Label.isFailure, fail, cancelSlots, killTimers,
            setTimer, addOp, removeOp, removeHandle, push]; done)
       | (simp at hs; subst hs; unfold answer; split <;>
            simp_all [calm, cuts, issuesStop, Label.isFailure]; done)
       | (simp at hs; subst hs; cases hp : s.phase <;> simp_all [calm, cuts, issuesStop, Label.isFailure]; done)))

theorem taskDone_not_calm {w : Wiring} {s s' : AState} (hs : step w s .taskDone = some s') : calm s.phase = false := by
  simp only [step, stepTaskDone] at hs
  cases hp : s.phase <;> simp [hp] at hs <;> rfl

/-- the head taken by `tDeq` is not a broadcast -/
theorem stepDeq_head {s s' : AState} (hs : stepDeq s = some s') :
    ∃ e rest, s.chan.queue = e :: rest ∧ (∀ b, e.pl ≠ .ext b) ∧ s'.chan = s.chan.deq := by
  have hc := (stepDeq_chan hs).2
  unfold stepDeq at hs
  split at hs
  · rename_i e rest _ hq
    refine ⟨e, rest, hq, ?_, hc⟩
    split at hs
    · simp at hs
    · simp only at hs
      split at hs <;> (rename_i hpl; intro b; simp [hpl])
      all_goals simp at hs
  · simp at hs

/-- a step that is not a cut, not the end of the task, not `extPush` and not `extBegin` leaves the number of waiting
    copies of every broadcast as it is -/
theorem step_extCnt_eq {w : Wiring} {s s' : AState} {l : Label} (b : Nat) (hs : step w s l = some s')
    (hcut : cuts l = false) (htd : l ≠ .taskDone) (hl : ∀ b', l ≠ .extPush b') (hl2 : ∀ b' m, l ≠ .extBegin b' m) :
    extCnt b s' = extCnt b s := by
  have hmsg : ∀ m sl, isExtP b (.msg m sl) = false := by simp [isExtP]
  have hping : ∀ o, isExtP b (.ping o) = false := by simp [isExtP]
  unfold extCnt
  have same : s'.chan = s.chan → cntP (isExtP b) s' = cntP (isExtP b) s := by
    intro h; unfold cntP; rw [h]
  cases l <;> simp only [step] at hs
  case begin o h k =>
    unfold stepBegin at hs
    cases hk0 : s.handleKind h with
    | none => simp [hk0] at hs
    | some hk =>
      simp only [hk0] at hs
      split at hs
      · simp at hs
      · split at hs
        · simp at hs; subst hs; exact same rfl
        · cases hpl : (plan w hk o k).pl with
          | none => simp only [hpl] at hs; simp at hs; subst hs; exact same (by simp)
          | some pl =>
            simp only [hpl] at hs
            split at hs
            · simp at hs; subst hs
              simp only [cntP, beginWait_chan, push_chan, Chan.enq_queue, List.countP_append, List.countP_cons,
                List.countP_nil]
              cases hp : isExtP b pl
              · simp
              · have := (plan_pl_stop hpl (isExtP b) hmsg hping hp).2
                rw [this] at hp; simp [isExtP] at hp
            · simp at hs; subst hs; exact same rfl
  case ret => exact same (stepRet_chan hs)
  case cdrop => exact same (stepCdrop_chan hs)
  case mk => exact same (stepMk_chan hs)
  case upgrade => exact same (stepUpgrade_chan hs)
  case detach => exact same (stepDetach_chan hs)
  case drop => exact same (stepDrop_chan hs)
  case stopReq h ok => simp [cuts, issuesStop] at hcut
  case restartReq h ok => simp [cuts] at hcut
  case query => exact same (stepQuery_chan hs)
  case cbBegin cb =>
    rcases stepCbBegin_detail hs with ⟨m, sl, tok, rest, _, hq, hc⟩ | ⟨hc, _⟩
    · unfold cntP; rw [hc, hq]; simp [Chan.deq, hq, isExtP]
    · exact same hc
  case cbEnd => exact same (stepCbEnd_chan hs)
  case cbAbandon => exact same (stepCbAbandon_chan hs)
  case cbPanic => exact same (stepCbPanic_chan hs)
  case vnew => exact same (stepVnew_chan hs)
  case work => exact same (stepWork_chan hs)
  case ctxStop ok => simp [cuts, issuesStop] at hcut
  case ctxRestart ok => simp [cuts] at hcut
  case ctxTimer => exact same (stepCtxTimer_chan hs)
  case ctxWeak => exact same (stepCtxWeak_chan hs)
  case fire t m =>
    unfold stepFire at hs
    (repeat' (split at hs)) <;>
      (first
        | (simp at hs; done)
        | (simp at hs; subst hs; simp [cntP, List.countP_append, isExtP]))
  case timerArm t due =>
    unfold stepTimerArm at hs
    (repeat' (split at hs)) <;>
      (first
        | (simp at hs; done)
        | (simp at hs; subst hs; simp [cntP, List.countP_append, isExtP]))
  case timerEnd => exact same (stepTimerEnd_chan hs)
  case tickBegin t m =>
    obtain ⟨tok, rest, hq, hc⟩ := stepTickBegin_detail hs
    unfold cntP; rw [hc, hq]
    simp [isExtP]
  case extPush b' => exact absurd rfl (hl b')
  case extBegin b' m => exact absurd rfl (hl2 b' m)
  case time => exact same (stepTime_chan hs)
  case cancel => simp [cuts, Label.isFailure] at hcut
  case taskPanic => simp [cuts, Label.isFailure] at hcut
  case streamReady => exact same (stepStreamReady_chan hs)
  case streamEnd => exact same (stepStreamEnd_chan hs)
  case taskDone => exact absurd rfl htd
  case quiescent =>
    simp only [stepQuiescent] at hs; split at hs <;> simp at hs; subst hs; exact same rfl
  case tDeq =>
    obtain ⟨e, rest, hq, hne, hc⟩ := stepDeq_head hs
    unfold cntP; rw [hc, hq]
    have : isExtP b e.pl = false := by
      cases hpl : e.pl <;> simp [isExtP]
      case ext b' => exact absurd hpl (hne b')
    simp [Chan.deq, hq, this]
  case tChanEnd => exact same (stepChanEnd_chan hs)
  case tStreamEnd => exact same (stepStreamEndTau_chan hs)

theorem pushN_stop_issues' {l : Label} (h : 0 < pushN isStopP l) : issuesStop l = true := by
  cases l <;> simp [pushN, isStopP] at h <;> simp [issuesStop]
  case begin o h' k => cases k <;> simp [isStopKind] at h <;> rfl
  case restartReq h' ok => cases ok <;> simp at h
  case ctxRestart ok => cases ok <;> simp at h

/-- labels that are no cut put neither a stop nor a restart request into the mailbox -/
theorem pushN_stop_of_not_cut {l : Label} (h : cuts l = false) : pushN isStopP l = 0 := by
  cases hp : pushN isStopP l with
  | zero => rfl
  | succ n =>
    have : issuesStop l = true := pushN_stop_issues' (by omega)
    simp [cuts, this] at h

theorem streamEnded_step {w : Wiring} {s s' : AState} {l : Label} (hs : step w s l = some s')
    (hcut : cuts l = false) : s'.streamEnded = s.streamEnded := by
  have h3 := (step_cfg_stream hs).2
  cases l <;> simp_all [cuts]

theorem pushN_restart_of_not_cut {l : Label} (h : cuts l = false) : pushN isRestartP l = 0 := by
  cases l <;> simp [pushN, isRestartP] <;> simp [cuts] at h

/-- the loop runs on an open mailbox without stop / restart requests, the stream has not ended -/
structure Calm (s : AState) : Prop where
  ph : calm s.phase = true
  rx : s.chan.rx = true
  nostop : cntP isStopP s = 0
  norst : cntP isRestartP s = 0
  strm : s.streamEnded = false

/-- nothing owns a sender any more (for ever) and no broadcast waits -/
structure Gone (s : AState) : Prop where
  dead : Dead05 s
  none : ∀ b, extCnt b s = 0

def Unc (s : AState) : Prop := Calm s ∨ Gone s

/-- how many copies of `b` the label takes off the mailbox -/
def takes (b : Nat) : Label → Nat
  | .extBegin b' _ => if b = b' then 1 else 0
  | _ => 0

theorem takes_zero {b : Nat} {l : Label} (h : ∀ b' m, l ≠ .extBegin b' m) : takes b l = 0 := by
  cases l <;> simp [takes]
  case extBegin b' m => exact absurd rfl (h b' m)

theorem stepChanEnd_empty {w : Wiring} {s s' : AState} (hs : stepChanEnd w s = some s') : s.chan.queue = [] := by
  unfold stepChanEnd at hs
  split at hs
  · split at hs
    · rename_i hc; simp at hc; exact hc.1
    · simp at hs
  · simp at hs

/-- **one step of an uncut actor**: still uncut-shaped, and the broadcasts waiting are accounted for exactly -/
theorem unc_step {w : Wiring} (hw : WellWired05 w) {s s' : AState} {l : Label} (hu : Unc s)
    (hs : step w s l = some s') (hcut : cuts l = false) (hl : ∀ b', l ≠ .extPush b') :
    Unc s' ∧ ∀ b, extCnt b s = extCnt b s' + takes b l := by
  rcases hu with hc | hg
  · -- the loop is running
    by_cases hx : ∃ b' m, l = .extBegin b' m
    · obtain ⟨b', m, rfl⟩ := hx
      have hph := calm_step hs hc.ph rfl (by simp)
      rw [hcut] at hph; simp at hph
      have h1 := step_cnt isStopP (by simp [isStopP]) (by simp [isStopP]) (by simp [isStopP]) (by simp [isStopP]) hs
      have h2 := step_cnt isRestartP (by simp [isRestartP]) (by simp [isRestartP]) (by simp [isRestartP])
        (by simp [isRestartP]) hs
      rw [pushN_stop_of_not_cut hcut] at h1
      rw [pushN_restart_of_not_cut hcut] at h2
      have h3 := streamEnded_step hs hcut
      refine ⟨.inl ⟨hph.1, by rw [hph.2]; exact hc.rx, by have := hc.nostop; omega, by have := hc.norst; omega,
        by rw [h3, hc.strm]⟩, ?_⟩
      intro b
      simp only [step] at hs
      simpa [takes] using stepExtBegin_extCnt hs b
    · have hne : ∀ b' m, l ≠ .extBegin b' m := fun b' m e => hx ⟨b', m, e⟩
      have htd : l ≠ .taskDone := by
        intro e; subst e
        have := taskDone_not_calm hs
        rw [hc.ph] at this; simp at this
      have hcnt : ∀ b, extCnt b s = extCnt b s' + takes b l := by
        intro b; rw [takes_zero hne, step_extCnt_eq b hs hcut htd hl hne]; rfl
      refine ⟨?_, hcnt⟩
      by_cases hex : l.isExit = true
      · cases l <;> simp [Label.isExit] at hex
        case tDeq =>
          have hs0 := hs
          simp only [step] at hs
          obtain ⟨hph, e, rest, hq, hch, _, hstr, hcase⟩ := stepDeq_spec hs
          have hstop : isStopP e.pl = false := by
            have := hc.nostop
            simp only [cntP, hq, List.countP_cons] at this
            cases h : isStopP e.pl <;> simp_all
          have hrst : isRestartP e.pl = false := by
            have := hc.norst
            simp only [cntP, hq, List.countP_cons] at this
            cases h : isRestartP e.pl <;> simp_all
          have hp' : s'.phase = .idle := by
            rcases hcase with ⟨hpl, _⟩ | ⟨hpl, _⟩ | hp'
            · rw [hpl] at hstop; simp [isStopP] at hstop
            · rw [hpl] at hrst; simp [isRestartP] at hrst
            · exact hp'
          left
          refine ⟨by rw [hp']; rfl, by rw [hch]; exact hc.rx, ?_, ?_, by rw [hstr]; exact hc.strm⟩
          · have := hc.nostop
            simp only [cntP, hq, hch, Chan.deq, List.tail_cons, List.countP_cons] at this ⊢; omega
          · have := hc.norst
            simp only [cntP, hq, hch, Chan.deq, List.tail_cons, List.countP_cons] at this ⊢; omega
        case tChanEnd =>
          have hd' : Dead05 s → Dead05 s' := fun hd => dead_step hw hd hs
          simp only [step] at hs
          have hq := stepChanEnd_empty hs
          obtain ⟨_, hna, rfl⟩ := stepChanEnd_spec hs
          right
          exact ⟨hd' (dead_of_not_alive hw hna), fun b => by simp [extCnt, cntP, hq]⟩
        case tStreamEnd =>
          simp only [step] at hs
          obtain ⟨_, _, h2, _⟩ := stepStreamEndTau_spec hs
          rw [hc.strm] at h2; simp at h2
      · have hex' : l.isExit = false := by simpa using hex
        have hph := calm_step hs hc.ph hex' htd
        rw [hcut] at hph; simp at hph
        have h1 := step_cnt isStopP (by simp [isStopP]) (by simp [isStopP]) (by simp [isStopP]) (by simp [isStopP]) hs
        have h2 := step_cnt isRestartP (by simp [isRestartP]) (by simp [isRestartP]) (by simp [isRestartP])
          (by simp [isRestartP]) hs
        rw [pushN_stop_of_not_cut hcut] at h1
        rw [pushN_restart_of_not_cut hcut] at h2
        have h3 := streamEnded_step hs hcut
        left
        exact ⟨hph.1, by rw [hph.2]; exact hc.rx, by have := hc.nostop; omega, by have := hc.norst; omega,
          by rw [h3, hc.strm]⟩
  · -- the loop has left for lack of holders: nothing arrives, nothing waits
    have hle : ∀ b, extCnt b s' = 0 := by
      intro b
      have := step_extCnt b hs hl
      have := hg.none b
      omega
    refine ⟨.inr ⟨dead_step hw hg.dead hs, hle⟩, ?_⟩
    intro b
    by_cases hx : ∃ b' m, l = .extBegin b' m
    · obtain ⟨b', m, rfl⟩ := hx
      simp only [step] at hs
      have h1 := stepExtBegin_extCnt hs b'
      have := hg.none b'
      simp at h1; omega
    · have hne : ∀ b' m, l ≠ .extBegin b' m := fun b' m e => hx ⟨b', m, e⟩
      rw [takes_zero hne, hle b, hg.none b]

theorem unc_init (cfg : Cfg) (h0 : Nat) (k0 : HKind) : Unc (AState.init cfg h0 k0) :=
  .inl ⟨rfl, rfl, by simp [cntP, AState.init, Chan.init], by simp [cntP, AState.init, Chan.init], rfl⟩

theorem extCnt_init (cfg : Cfg) (h0 : Nat) (k0 : HKind) (b : Nat) : extCnt b (AState.init cfg h0 k0) = 0 := by
  simp [extCnt, cntP, AState.init, Chan.init]

/-- at a quiet point of an uncut actor no broadcast waits -/
theorem unc_quiet {w : Wiring} {s s' : AState} {pend : List Nat} (hu : Unc s)
    (hs : step w s (.quiescent pend) = some s') (b : Nat) : extCnt b s = 0 := by
  rcases hu with hc | hg
  · simp only [step, stepQuiescent] at hs
    split at hs
    · rename_i hq
      simp only [quiet, Bool.and_eq_true] at hq
      have hph := hc.ph
      cases hp : s.phase <;> simp [hp, calm] at hph <;> simp [hp] at hq
      simp [extCnt, cntP, hq.1.1.1.1]
    · simp at hs
  · exact hg.none b

end C16Q
end Hannibal
