import Hannibal.Proofs.C02Chan
import Hannibal.Proofs.Term
import Hannibal.Monitor.C02
/-
  C02: the coupling between the actor model and the C02 monitor state, component by component.
-/
set_option linter.unusedSimpArgs false
set_option linter.unusedVariables false
namespace Hannibal
open AState

/-! ### projections of the monitor update -/

@[simp] theorem next02_ops (σ : C02St) (l : Label) :
    (next02 σ l).ops = (match l with
      | .begin o _ k => (o, (k, σ.terminated)) :: σ.ops
      | _ => σ.ops) := by
  cases l <;> try (simp [next02]; done)
  all_goals (unfold next02; split <;> simp_all <;> split <;> rfl)

@[simp] theorem next02_returned (σ : C02St) (l : Label) :
    (next02 σ l).returned = (match l with
      | .ret o _ => o :: σ.returned
      | _ => σ.returned) := by
  cases l <;> try (simp [next02]; done)
  all_goals (unfold next02; split <;> simp_all <;> split <;> rfl)

@[simp] theorem next02_finishedOk (σ : C02St) (l : Label) :
    (next02 σ l).finishedOk = (match l with
      | .cbEnd (.handle m) true => m :: σ.finishedOk
      | _ => σ.finishedOk) := by
  cases l <;> try (simp [next02]; done)
  all_goals (unfold next02; split <;> simp_all <;> split <;> rfl)

@[simp] theorem next02_terminated (σ : C02St) (l : Label) :
    (next02 σ l).terminated = (if l.terminates then true else σ.terminated) := by
  cases l <;> try (simp [next02, Label.terminates]; done)
  all_goals (unfold next02; split <;> simp_all [Label.terminates])

@[simp] theorem next02_graceful (σ : C02St) (l : Label) :
    (next02 σ l).graceful = (match l with
      | .cbEnd .stopped true => true
      | .cbBegin _ => false
      | _ => σ.graceful) := by
  cases l <;> try (simp [next02]; done)
  all_goals (unfold next02; split <;> simp_all <;> split <;> rfl)

/-! ### the coupling predicates (Bool-valued, evaluated on the monitor state) -/

/-- the state of a recorded operation fits its kind; an answer is for the operation's own message and
    the handler invocation that produced it completed -/
def stOk (fin : List Nat) (k : OpKind) : OpSt → Bool
  | .pending => !(k == .join || k == .consume)
  | .answered v => k.isCall && k.msg? == some v.m && fin.contains v.m
  | .pinged => k == .ping
  | .cancelled => k.isCall || k == .ping
  | .failed _ => !(k == .join || k == .await)
  | .joining | .joinNone => k == .join || k == .consume

/-- the states an operation begun after termination can be in -/
def lateSt (k : OpKind) : OpSt → Bool
  | .failed _ => true
  | .pending => k == .await
  | .joining | .joinNone => k == .join
  | _ => false

def opOk (σ : C02St) (r : OpRec) : Bool :=
  match lookup r.o σ.ops with
  | some (k, late) =>
    k == r.kind && !σ.returned.contains r.o && (!late || lateSt r.kind r.st) && stOk σ.finishedOk r.kind r.st
  | none => false

/-- a queued payload that carries a reply slot belongs to a begun call / ping of that kind and message -/
def plOk (σ : C02St) : Payload → Bool
  | .msg m (some o) =>
    (match lookup o σ.ops with
     | some (k, _) => k.isCall && k.msg? == some m
     | none => false)
  | .ping o =>
    (match lookup o σ.ops with
     | some (k, _) => k == .ping
     | none => false)
  | _ => true

def phaseOk (σ : C02St) : Phase → Bool
  | .handling (.handle m) (some o) _ => plOk σ (.msg m (some o))
  | .handling _ (some _) _ => false
  | _ => true

def gracefulEnd02 : Phase → Bool
  | .exiting true | .done true => true
  | _ => false

/-- freshness of the operation id of a `begin` (the well-formedness the theorem assumes of traces) -/
def freshFor (σ : C02St) : Label → Prop
  | .begin o _ _ => lookup o σ.ops = none
  | _ => True

theorem lookup_next02 {σ : C02St} {l : Label} (hf : freshFor σ l) {o : Nat} {v : OpKind × Bool}
    (h : lookup o σ.ops = some v) : lookup o (next02 σ l).ops = some v := by
  cases l <;> simp only [next02_ops] <;> try exact h
  rename_i o' h' k
  simp only [freshFor] at hf
  have hne : o' ≠ o := by intro he; subst he; simp [hf] at h
  simp [lookup, hne, h]

theorem plOk_next02 {σ : C02St} {l : Label} (hf : freshFor σ l) {pl : Payload} (h : plOk σ pl = true) :
    plOk (next02 σ l) pl = true := by
  unfold plOk at h ⊢
  split
  · rename_i m o
    simp only at h
    cases hl : lookup o σ.ops with
    | none => simp [hl] at h
    | some v => simp only [hl] at h; simp only [lookup_next02 hf hl]; exact h
  · rename_i o
    simp only at h
    cases hl : lookup o σ.ops with
    | none => simp [hl] at h
    | some v => simp only [hl] at h; simp only [lookup_next02 hf hl]; exact h
  · rfl

theorem phaseOk_next02 {σ : C02St} {l : Label} (hf : freshFor σ l) {p : Phase} (h : phaseOk σ p = true) :
    phaseOk (next02 σ l) p = true := by
  unfold phaseOk at h ⊢
  split
  · simp only at h; exact plOk_next02 hf h
  · simp_all
  · rfl

/-! ### graceful end ⇒ the monitor saw `stopped` complete and no callback since -/

set_option maxHeartbeats 1000000 in
theorem grace_step (w : Wiring) {s s' : AState} {σ : C02St} {l : Label} (hs : step w s l = some s')
    (hi : gracefulEnd02 s.phase = true → σ.graceful = true) :
    gracefulEnd02 s'.phase = true → (next02 σ l).graceful = true := by
  cases l <;> unfold_steps hs <;>
    ((repeat' (split at hs)) <;>
     (first
       | (simp at hs; done)
       | (simp at hs; subst hs
          simp_all [gracefulEnd02, fail, finish, cancelSlots, killTimers, setTimer, addOp, removeOp, removeHandle,
            push, answer]
          done)
       | (simp at hs; subst hs
          cases hp : s.phase <;>
            simp_all [gracefulEnd02, fail, finish, cancelSlots, killTimers, openCb, curSlot, isDone]
          done)
       | (simp at hs; subst hs
          unfold answer
          split <;> simp_all [gracefulEnd02]
          done)))

/-! ### queue entries and the slot in progress belong to begun calls / pings -/

theorem plOk_of_noslot (σ : C02St) {pl : Payload} (h : slotOf pl = none) : plOk σ pl = true := by
  cases pl <;> simp [slotOf] at h <;> simp [plOk]
  rename_i m sl; cases sl <;> simp_all [slotOf]

theorem phaseOk_iff (σ : C02St) (p : Phase) :
    phaseOk σ p = true ↔
      ∀ cb o dl, p = .handling cb (some o) dl → ∃ m, cb = .handle m ∧ plOk σ (.msg m (some o)) = true := by
  constructor
  · intro h cb o dl hp
    subst hp
    cases cb <;> simp [phaseOk] at h ⊢
    exact h
  · intro h
    unfold phaseOk
    split
    · rename_i m o dl
      obtain ⟨m', hm, hpl⟩ := h _ _ _ rfl
      cases hm; exact hpl
    · rename_i cb o dl hne
      obtain ⟨m', hm, _⟩ := h _ _ _ rfl
      exact absurd hm (by intro h; exact hne m' h)
    · rfl

theorem plOk_begin (σ : C02St) (o h : Nat) (k : OpKind) (pl : Payload) (hpl : planPl o k = some pl) :
    plOk (next02 σ (.begin o h k)) pl = true := by
  cases k <;> simp [planPl] at hpl <;> subst hpl <;>
    simp [plOk, lookup, OpKind.isCall, OpKind.msg?]

theorem qinv02_step {w : Wiring} {s s' : AState} {σ : C02St} {l : Label} (hf : freshFor σ l)
    (hs : step w s l = some s') (hq : ∀ e ∈ s.chan.queue, plOk σ e.pl = true)
    (hp : phaseOk σ s.phase = true) :
    (∀ e ∈ s'.chan.queue, plOk (next02 σ l) e.pl = true) ∧ phaseOk (next02 σ l) s'.phase = true := by
  by_cases hb : l.isBegin = true
  · cases l <;> simp [Label.isBegin] at hb
    rename_i o h k
    simp only [step] at hs
    obtain ⟨_, hph, st, _, hout⟩ := stepBegin_spec02 hs
    refine ⟨?_, by rw [hph]; exact phaseOk_next02 hf hp⟩
    cases hout with
    | refused e _ hc _ => rw [hc]; intro e he; exact plOk_next02 hf (hq e he)
    | wait _ hc _ => rw [hc]; intro e he; exact plOk_next02 hf (hq e he)
    | sent pl tok hpl _ hc _ =>
      rw [hc]; intro e he
      simp only [Chan.enq_queue, List.mem_append, List.mem_singleton] at he
      rcases he with he | rfl
      · exact plOk_next02 hf (hq e he)
      · exact plOk_begin σ o h k pl hpl
  · have hb' : l.isBegin = false := by simpa using hb
    constructor
    · intro e he
      rcases step_queue hs hb' e he with h | h
      · exact plOk_next02 hf (hq e h)
      · exact plOk_of_noslot _ h
    · rw [phaseOk_iff]
      intro cb o dl hph
      rcases step_phaseSlot hs cb o dl hph with h | ⟨m, tok, rest, hcb, hqq⟩
      · obtain ⟨m, hm, hpl⟩ := (phaseOk_iff σ s.phase).mp hp cb o dl h
        exact ⟨m, hm, plOk_next02 hf hpl⟩
      · refine ⟨m, hcb, plOk_next02 hf ?_⟩
        have := hq { pl := .msg m (some o), tok } (by rw [hqq]; simp)
        exact this

/-- a live slot belongs to a begun call or ping -/
theorem slot_kind {s : AState} {σ : C02St} (hq : ∀ e ∈ s.chan.queue, plOk σ e.pl = true)
    (hp : phaseOk σ s.phase = true) {o : Nat} (ho : o ∈ s.slotsLive) :
    ∃ k late, lookup o σ.ops = some (k, late) ∧ (k.isCall = true ∨ k = .ping) := by
  have key : ∀ pl, plOk σ pl = true → slotOf pl = some o →
      ∃ k late, lookup o σ.ops = some (k, late) ∧ (k.isCall = true ∨ k = .ping) := by
    intro pl hpl hsl
    cases pl <;> simp [slotOf] at hsl
    · rename_i m sl
      cases sl <;> simp at hsl
      subst hsl
      simp only [plOk] at hpl
      cases hl : lookup _ σ.ops with
      | none => simp [hl] at hpl
      | some v => obtain ⟨k, late⟩ := v; simp [hl] at hpl; exact ⟨k, late, rfl, .inl hpl.1⟩
    · subst hsl
      simp only [plOk] at hpl
      cases hl : lookup _ σ.ops with
      | none => simp [hl] at hpl
      | some v => obtain ⟨k, late⟩ := v; simp [hl] at hpl; exact ⟨k, late, rfl, .inr hpl⟩
  unfold slotsLive at ho
  rcases List.mem_append.mp ho with ho | ho
  · unfold curSlot at ho
    split at ho
    · rename_i cb o' dl hph
      simp at ho; subst ho
      obtain ⟨m, hm, hpl⟩ := (phaseOk_iff σ s.phase).mp hp _ _ _ hph
      exact key _ hpl rfl
    · simp at ho
  · obtain ⟨e, he, hsl⟩ := List.mem_filterMap.mp ho
    exact key _ (hq e he) hsl

end Hannibal
