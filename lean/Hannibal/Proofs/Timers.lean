import Hannibal.Proofs.Handles
import Hannibal.Proofs.Chan
/-
  Receiver liveness and the timer table: which steps touch the timers, and
  how `findTimer` reads through `setTimer` / `killTimers`.
-/
namespace Hannibal
open AState

/-- The receiver exists as long as the loop task has not ended. -/
def RxInv (s : AState) : Prop := s.isDone = true ∨ s.chan.rx = true

theorem rxInv_init (cfg : Cfg) (h0 : Nat) (k0 : HKind) : RxInv (AState.init cfg h0 k0) := by
  simp [RxInv, AState.init, Chan.init]

theorem rxInv_step {w : Wiring} {s s' : AState} {l : Label} (hs : step w s l = some s') (hi : RxInv s) :
    RxInv s' := by
  unfold RxInv at *
  cases l <;> unfold_steps hs <;>
    ((repeat' (split at hs)) <;>
     (first
       | (simp at hs; done)
       | (simp at hs; subst hs;
          simp_all [isDone, fail, finish, cancelSlots, killTimers, setTimer, addOp, removeOp, removeHandle, push,
            Chan.deq]; done)
       | (simp at hs; subst hs; unfold answer; split <;> simp_all [isDone]; done)
       | (simp at hs; subst hs; cases hp : s.phase <;> simp_all [isDone, openCb, cancelSlots, curSlot]; done)))

def Label.touchesTimers : Label → Bool
  | .ctxTimer _ _ _ | .timerArm _ _ | .timerEnd _ | .fire _ _ | .cbEnd .stopped _
  | .cancel | .taskPanic | .taskDone => true
  | _ => false

theorem step_timers_same {w : Wiring} {s s' : AState} {l : Label} (hs : step w s l = some s')
    (hl : l.touchesTimers = false) : s'.timers = s.timers := by
  cases l <;> simp [Label.touchesTimers] at hl <;> unfold_steps hs <;>
    ((repeat' (split at hs)) <;>
     (first
       | (simp at hs; done)
       | (simp at hs; subst hs; simp [cancelSlots, addOp, removeOp, removeHandle, push]; done)
       | (simp at hs; subst hs; unfold answer; split <;> simp; done)
       | (simp at hs; subst hs; simp_all; done)))

theorem find_map_set_ne (l : List Timer) (t t' : Nat) (st : TimerSt) (h : t ≠ t') :
    (l.map (fun x => if x.id == t' then { x with st := st } else x)).find? (fun x => x.id == t)
      = l.find? (fun x => x.id == t) := by
  induction l with
  | nil => rfl
  | cons x xs ih =>
    simp only [List.map_cons, List.find?_cons]
    by_cases hx : (x.id == t') = true
    · have hne : (x.id == t) = false := by
        simp at hx ⊢; intro h'; exact h (h'.symm.trans hx)
      simp only [hx, if_true, hne]
      exact ih
    · simp only [hx]
      cases hxt : (x.id == t)
      · simp only [Bool.false_eq_true, if_false, hxt]; exact ih
      · simp only [Bool.false_eq_true, if_false, hxt]

theorem find_map_set_eq (l : List Timer) (t : Nat) (st : TimerSt) (x : Timer)
    (h : l.find? (fun y => y.id == t) = some x) :
    (l.map (fun y => if y.id == t then { y with st := st } else y)).find? (fun y => y.id == t)
      = some { x with st := st } := by
  induction l with
  | nil => simp at h
  | cons y ys ih =>
    simp only [List.map_cons, List.find?_cons] at h ⊢
    cases hy : (y.id == t)
    · simp only [hy, Bool.false_eq_true, if_false] at h ⊢; exact ih h
    · simp only [hy, if_true] at h ⊢
      simp only [Option.some.injEq] at h; subst h
      simp [hy]

theorem findTimer_setTimer_ne {s : AState} {t t' : Nat} {st} (h : t ≠ t') :
    (s.setTimer t' st).findTimer t = s.findTimer t := by
  unfold findTimer setTimer
  exact find_map_set_ne s.timers t t' st h

theorem findTimer_setTimer_eq {s : AState} {t : Nat} {st x} (h : s.findTimer t = some x) :
    (s.setTimer t st).findTimer t = some { x with st := st } := by
  unfold findTimer setTimer at *
  exact find_map_set_eq s.timers t st x h

theorem findTimer_push {s : AState} {pl path tok t} : (s.push pl path tok).findTimer t = s.findTimer t := rfl

end Hannibal

namespace Hannibal
open AState

/-- the timer task is over (aborted, finished, or seen to end) -/
def Timer.Dead (x : Timer) : Prop := x.st = .dead ∨ x.st = .deadHolding ∨ x.st = .ended

def AllDead (s : AState) : Prop := ∀ x ∈ s.timers, x.Dead

theorem allDead_killTimers (s : AState) : AllDead s.killTimers := by
  intro x hx
  unfold killTimers at hx
  simp only at hx
  obtain ⟨y, _, rfl⟩ := List.mem_map.mp hx
  unfold Timer.Dead
  split
  · simp_all
  · split <;> simp

theorem allDead_fail (s : AState) : AllDead s.fail := by
  intro x hx; exact allDead_killTimers (s.cancelSlots _) x (by simpa [fail] using hx)

theorem allDead_finish (s : AState) : AllDead s.finish := by
  intro x hx; exact allDead_killTimers (s.cancelSlots _) x (by simpa [finish] using hx)

theorem findTimer_mem {s : AState} {t x} (h : s.findTimer t = some x) : x ∈ s.timers ∧ x.id = t := by
  unfold findTimer at h
  exact ⟨List.mem_of_find?_eq_some h, by simpa using List.find?_some h⟩

/-- `setTimer` on a list of dead timers with a dead state keeps all dead -/
theorem allDead_setTimer {s : AState} (h : AllDead s) (t : Nat) (st : TimerSt) (hst : st = .dead ∨ st = .deadHolding ∨ st = .ended) :
    AllDead (s.setTimer t st) := by
  intro x hx
  unfold setTimer at hx
  simp only at hx
  obtain ⟨y, hy, rfl⟩ := List.mem_map.mp hx
  split
  · exact hst
  · exact h y hy

/-- If every timer is dead before a step that is not a registration, every timer is dead after it. -/
theorem allDead_step {w : Wiring} {s s' : AState} {l : Label} (hs : step w s l = some s') (h : AllDead s)
    (hl : ∀ t k d, l ≠ .ctxTimer t k d) : AllDead s' := by
  by_cases htt : l.touchesTimers = true
  · cases l <;> simp [Label.touchesTimers] at htt
    case ctxTimer t k d => exact absurd rfl (hl t k d)
    case timerArm t due =>
      simp only [step, stepTimerArm] at hs
      cases hf : s.findTimer t with
      | none => simp [hf] at hs
      | some x =>
        have hd := h x (findTimer_mem hf).1
        simp only [hf] at hs
        rcases hd with hd | hd | hd <;> simp [hd] at hs <;> (split at hs <;> simp at hs)
    case timerEnd t =>
      simp only [step, stepTimerEnd] at hs
      (repeat' (split at hs)) <;>
        (first
          | (simp at hs; done)
          | (simp at hs; subst hs; exact allDead_setTimer h _ _ (.inr (.inr rfl))))
    case fire t m =>
      simp only [step, stepFire] at hs
      cases hf : s.findTimer t with
      | none => simp [hf] at hs
      | some x =>
        have hd := h x (findTimer_mem hf).1
        simp only [hf, timerDue] at hs
        rcases hd with hd | hd | hd <;> simp [hd] at hs
    case cbEnd cb ok =>
      have hcb : cb = .stopped := by cases cb <;> simp_all [Label.touchesTimers]
      subst hcb
      simp only [step, stepCbEnd] at hs
      split at hs
      · simp at hs
      · cases hp : s.phase <;> simp [hp] at hs
        · -- `stopped` of a refresh
          obtain ⟨_, rfl⟩ := hs
          intro x hx
          have hx' : x ∈ (s.refreshTimers w).timers := by simpa using hx
          unfold refreshTimers at hx'
          split at hx'
          · exact allDead_killTimers s x hx'
          · exact h x hx'
        · -- final `stopped`
          obtain ⟨_, rfl⟩ := hs
          intro x hx; exact h x (by simpa using hx)
    case cancel =>
      simp only [step, stepCancel] at hs
      split at hs
      · simp at hs
      · simp at hs; subst hs; intro x hx; exact allDead_fail s x (by simpa using hx)
    case taskPanic =>
      simp only [step, stepTaskPanic] at hs
      (repeat' (split at hs)) <;>
        (first
          | (simp at hs; done)
          | (simp at hs; subst hs; exact allDead_fail _))
    case taskDone =>
      simp only [step, stepTaskDone] at hs
      (repeat' (split at hs)) <;>
        (first
          | (simp at hs; done)
          | (simp at hs; subst hs; first | exact allDead_fail _ | exact allDead_finish _))
  · have := step_timers_same hs (by simpa using htt)
    intro x hx; rw [this] at hx; exact h x hx

end Hannibal

namespace Hannibal
open AState

theorem findTimer_of_timers_eq {s s' : AState} (h : s'.timers = s.timers) (t : Nat) :
    s'.findTimer t = s.findTimer t := by unfold findTimer; rw [h]

/-- A timer whose task is over never comes back. -/
theorem dead_mono {w : Wiring} {s s' : AState} {l : Label} (hs : step w s l = some s')
    {t : Nat} {x x' : Timer} (hx : s.findTimer t = some x) (hd : x.Dead) (hx' : s'.findTimer t = some x') :
    x'.Dead := by
  by_cases htt : l.touchesTimers = true
  · cases l <;> simp [Label.touchesTimers] at htt
    case ctxTimer t0 k d =>
      simp only [step, stepCtxTimer] at hs
      split at hs
      · simp at hs; subst hs
        unfold findTimer at hx hx'
        simp only [List.find?_append, hx] at hx'
        simp at hx'; subst hx'; exact hd
      · simp at hs
    case timerArm t0 due =>
      simp only [step, stepTimerArm] at hs
      by_cases hte : t = t0
      · subst hte
        simp only [hx] at hs
        rcases hd with hd | hd | hd <;> simp [hd] at hs <;> (split at hs <;> simp at hs)
      · (repeat' (split at hs)) <;>
          (first
            | (simp at hs; done)
            | (simp at hs; subst hs
               rw [findTimer_setTimer_ne hte] at hx'
               have : x' = x := by
                 first
                   | (rw [hx] at hx'; simpa using hx'.symm)
                   | (rw [findTimer_push, hx] at hx'; simpa using hx'.symm)
               rw [this]; exact hd))
    case timerEnd t0 =>
      simp only [step, stepTimerEnd] at hs
      by_cases hte : t = t0
      · subst hte
        (repeat' (split at hs)) <;>
          (first
            | (simp at hs; done)
            | (simp at hs; subst hs
               rw [findTimer_setTimer_eq hx] at hx'
               simp at hx'; subst hx'; exact .inr (.inr rfl)))
      · (repeat' (split at hs)) <;>
          (first
            | (simp at hs; done)
            | (simp at hs; subst hs
               rw [findTimer_setTimer_ne hte, hx] at hx'
               simp at hx'; subst hx'; exact hd))
    case fire t0 m =>
      simp only [step, stepFire] at hs
      by_cases hte : t = t0
      · subst hte
        simp only [hx, timerDue] at hs
        rcases hd with hd | hd | hd <;> simp [hd] at hs
      · (repeat' (split at hs)) <;>
          (first
            | (simp at hs; done)
            | (simp at hs; subst hs
               rw [findTimer_setTimer_ne hte] at hx'
               have : x' = x := by
                 first
                   | (rw [hx] at hx'; simpa using hx'.symm)
                   | (rw [findTimer_push, hx] at hx'; simpa using hx'.symm)
               rw [this]; exact hd))
    case cbEnd cb ok =>
      have hcb : cb = .stopped := by cases cb <;> simp_all [Label.touchesTimers]
      subst hcb
      simp only [step, stepCbEnd] at hs
      split at hs
      · simp at hs
      · cases hp : s.phase <;> simp [hp] at hs
        · obtain ⟨_, rfl⟩ := hs
          by_cases hr : w.refreshResetsTimers = true
          · have hm := (findTimer_mem hx').1
            have hm' : x' ∈ s.killTimers.timers := by simpa [refreshTimers, hr] using hm
            exact allDead_killTimers s x' hm'
          · have ht : ∀ s2 : AState, s2.timers = (s.refreshTimers w).timers → s2.findTimer t = s.findTimer t := by
              intro s2 h2
              unfold findTimer; rw [h2]; simp [refreshTimers, hr]
            have := ht _ (rfl : _ = (s.refreshTimers w).timers)
            erw [this, hx] at hx'; simp at hx'; subst hx'; exact hd
        · obtain ⟨_, rfl⟩ := hs
          have : (findTimer { s with phase := Phase.exiting true, busy := none } t) = s.findTimer t := rfl
          rw [this, hx] at hx'; simp at hx'; subst hx'; exact hd
    case cancel =>
      simp only [step, stepCancel] at hs
      split at hs
      · simp at hs
      · simp at hs; subst hs
        exact allDead_fail s x' (by simpa using (findTimer_mem hx').1)
    case taskPanic =>
      simp only [step, stepTaskPanic] at hs
      (repeat' (split at hs)) <;>
        (first
          | (simp at hs; done)
          | (simp at hs; subst hs; exact allDead_fail _ x' (findTimer_mem hx').1))
    case taskDone =>
      simp only [step, stepTaskDone] at hs
      (repeat' (split at hs)) <;>
        (first
          | (simp at hs; done)
          | (simp at hs; subst hs; first
              | exact allDead_fail _ x' (findTimer_mem hx').1
              | exact allDead_finish _ x' (findTimer_mem hx').1))
  · have := findTimer_of_timers_eq (step_timers_same hs (by simpa using htt)) t
    rw [this, hx] at hx'; simp at hx'; subst hx'; exact hd

end Hannibal

namespace Hannibal
open AState

def AState.timerIds (s : AState) : List Nat := s.timers.map (·.id)

@[simp] theorem setTimer_ids (s : AState) (t st) : (s.setTimer t st).timerIds = s.timerIds := by
  unfold timerIds setTimer
  simp only [List.map_map]
  congr 1; funext x; simp only [Function.comp]; split <;> rfl

@[simp] theorem killTimers_ids (s : AState) : s.killTimers.timerIds = s.timerIds := by
  unfold timerIds killTimers
  simp only [List.map_map]
  congr 1; funext x; simp only [Function.comp]; split
  · rfl
  · split <;> rfl

@[simp] theorem push_ids (s : AState) (pl path tok) : (s.push pl path tok).timerIds = s.timerIds := rfl
@[simp] theorem cancelSlots_ids (s : AState) (l) : (s.cancelSlots l).timerIds = s.timerIds := rfl
@[simp] theorem cancelSlots_timers (s : AState) (l) : (s.cancelSlots l).timers = s.timers := rfl
@[simp] theorem fail_ids (s : AState) : s.fail.timerIds = s.timerIds := by
  have := killTimers_ids (s.cancelSlots (s.curSlot ++ s.chan.queue.filterMap (fun e => slotOf e.pl)))
  simpa [fail, timerIds] using this
@[simp] theorem finish_ids (s : AState) : s.finish.timerIds = s.timerIds := by
  have := killTimers_ids (s.cancelSlots (s.chan.queue.filterMap (fun e => slotOf e.pl)))
  simpa [finish, timerIds] using this
@[simp] theorem refreshTimers_ids (w) (s : AState) : (s.refreshTimers w).timerIds = s.timerIds := by
  unfold refreshTimers; split <;> simp

@[simp] theorem answer_timers (s : AState) (sl m) : (s.answer sl m).timers = s.timers := by
  unfold answer; split <;> rfl
@[simp] theorem killTimers_ids' (s : AState) :
    List.map (fun x => x.id) s.killTimers.timers = List.map (fun x => x.id) s.timers := killTimers_ids s
@[simp] theorem setTimer_ids' (s : AState) (t st) :
    List.map (fun x => x.id) (s.setTimer t st).timers = List.map (fun x => x.id) s.timers := setTimer_ids s t st
@[simp] theorem fail_ids' (s : AState) :
    List.map (fun x => x.id) s.fail.timers = List.map (fun x => x.id) s.timers := fail_ids s
@[simp] theorem finish_ids' (s : AState) :
    List.map (fun x => x.id) s.finish.timers = List.map (fun x => x.id) s.timers := finish_ids s

theorem timerIds_of_eq {s s' : AState} (h : s'.timers = s.timers) : s'.timerIds = s.timerIds := by
  unfold timerIds; rw [h]

/-- only a registration adds a timer -/
theorem step_timer_ids {w : Wiring} {s s' : AState} {l : Label} (hs : step w s l = some s')
    (hl : ∀ t k d, l ≠ .ctxTimer t k d) : s'.timerIds = s.timerIds := by
  by_cases htt : l.touchesTimers = true
  · cases l <;> simp [Label.touchesTimers] at htt
    case ctxTimer t k d => exact absurd rfl (hl t k d)
    all_goals
      (unfold_steps hs
       (repeat' (split at hs)) <;>
        (first
          | (simp at hs; done)
          | (simp at hs; subst hs; first
              | rfl
              | (simp; done)
              | (simp [AState.timerIds]; done))))
  · exact timerIds_of_eq (step_timers_same hs (by simpa using htt))

theorem findTimer_none_iff {s : AState} {t : Nat} : s.findTimer t = none ↔ t ∉ s.timerIds := by
  unfold findTimer timerIds
  rw [List.find?_eq_none]
  simp only [List.mem_map, not_exists, not_and]
  constructor
  · intro h x hx he; have := h x hx; simp [he] at this
  · intro h x hx; simp; intro he; exact h x hx he

theorem findTimer_none_mono {w : Wiring} {s s' : AState} {l : Label} (hs : step w s l = some s')
    (hl : ∀ t k d, l ≠ .ctxTimer t k d) {t : Nat} (h : s.findTimer t = none) : s'.findTimer t = none := by
  rw [findTimer_none_iff] at h ⊢
  rw [step_timer_ids hs hl]; exact h

end Hannibal

namespace Hannibal
open AState

theorem stepTime_spec {s : AState} {t : Nat} {s' : AState} (hs : stepTime s t = some s') :
    s.clock ≤ t ∧ s' = { s with clock := t } := by
  unfold stepTime at hs
  split at hs
  · rename_i hc; simp at hs; exact ⟨hc.1, hs.symm⟩
  · simp at hs

/-- what a `timerArm` step does: the timer goes to sleep until `due = clock + d` -/
theorem stepTimerArm_spec {w : Wiring} {s : AState} {t due : Nat} {s' : AState}
    (hs : stepTimerArm w s t due = some s') :
    ∃ x, s.findTimer t = some x ∧ due = s.clock + x.d ∧ s'.clock = s.clock ∧
      s'.timers = (s.setTimer t (.sleeping due)).timers ∧
      (x.st = .spawned ∨ (∃ old, x.st = .sleeping old ∧ old ≤ s.clock ∧ x.kind = .interval) ∨
        (x.st = .sending ∧ x.kind = .intervalWith)) := by
  unfold stepTimerArm at hs
  cases hx : s.findTimer t with
  | none => simp [hx] at hs
  | some x =>
    simp only [hx] at hs
    split at hs
    · simp at hs
    · rename_i hdue
      simp at hdue
      refine ⟨x, rfl, hdue, ?_⟩
      cases hst : x.st <;> simp only [hst] at hs
      case spawned => simp at hs; subst hs; exact ⟨rfl, rfl, .inl rfl⟩
      case sleeping old =>
        split at hs
        · rename_i hc
          simp at hs; subst hs
          refine ⟨rfl, rfl, .inr (.inl ⟨old, rfl, ?_, hc.1⟩)⟩
          have := hc.2.1
          simp [timerDue, hst] at this
          exact this
        · simp at hs
      case sending =>
        split at hs
        · rename_i hc
          simp at hs; subst hs
          exact ⟨rfl, rfl, .inr (.inr ⟨rfl, hc.1⟩)⟩
        · simp at hs
      all_goals simp at hs

/-- what a `fire` step does: the timer was sleeping and its deadline has passed -/
theorem stepFire_spec {w : Wiring} {s : AState} {t : Nat} {m : Option Nat} {s' : AState}
    (hs : stepFire w s t m = some s') :
    ∃ x due, s.findTimer t = some x ∧ x.st = .sleeping due ∧ due ≤ s.clock ∧ s'.clock = s.clock ∧
      ((s'.timers = (s.setTimer t .sending).timers ∧ (x.kind = .intervalWith ∨ x.kind = .delayedSend)) ∨
       s'.timers = (s.setTimer t .dead).timers) := by
  unfold stepFire at hs
  cases hx : s.findTimer t with
  | none => simp [hx] at hs
  | some x =>
    simp only [hx] at hs
    split at hs
    · simp at hs
    · rename_i hdue
      simp at hdue
      unfold timerDue at hdue
      cases hst : x.st <;> simp [hst] at hdue
      rename_i due
      refine ⟨x, due, rfl, hst, hdue, ?_⟩
      (repeat' (split at hs)) <;>
        (first
          | (simp at hs; done)
          | (simp at hs; subst hs; first
              | exact ⟨rfl, .inr rfl⟩
              | (refine ⟨rfl, .inl ⟨rfl, ?_⟩⟩; simp_all)))

theorem stepTimerEnd_spec {w : Wiring} {s : AState} {t : Nat} {s' : AState}
    (hs : stepTimerEnd w s t = some s') :
    s'.clock = s.clock ∧ s'.timers = (s.setTimer t .ended).timers := by
  unfold stepTimerEnd at hs
  (repeat' (split at hs)) <;> (first | (simp at hs; done) | (simp at hs; subst hs; exact ⟨rfl, rfl⟩))

theorem eq_of_find_nodup : ∀ (l : List Timer), (l.map (fun x => x.id)).Nodup → ∀ {t : Nat} {x y : Timer},
    l.find? (fun z => z.id == t) = some x → y ∈ l → y.id = t → y = x
  | [], _, _, _, _, _, hy, _ => by simp at hy
  | z :: zs, hn, t, x, y, hx, hy, hid => by
    simp only [List.map_cons, List.nodup_cons] at hn
    simp only [List.find?_cons] at hx
    rcases List.mem_cons.mp hy with rfl | hy'
    · have hb : (y.id == t) = true := by simp [hid]
      rw [hb] at hx; simpa using hx
    · by_cases hz : z.id = t
      · exfalso
        exact hn.1 (List.mem_map.mpr ⟨y, hy', by rw [hid, hz]⟩)
      · have hb : (z.id == t) = false := by simp [hz]
        rw [hb] at hx
        exact eq_of_find_nodup zs hn.2 hx hy' hid

/-- with distinct ids the timer found by id is the only one carrying that id -/
theorem eq_of_findTimer {s : AState} (hn : s.timerIds.Nodup) {t : Nat} {x y : Timer}
    (hx : s.findTimer t = some x) (hy : y ∈ s.timers) (hid : y.id = t) : y = x :=
  eq_of_find_nodup s.timers hn hx hy hid

end Hannibal
