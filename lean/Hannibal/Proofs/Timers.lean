import Hannibal.Proofs.Handles
import Hannibal.Proofs.Chan
/-
  Receiver liveness and the timer table: which steps touch the timers, and
  how `findTimer` reads through `setTimer` / `killTimers`.
-/
namespace Hannibal
open AState

/-- The receiver exists as long as the loop task has not ended. -/
def RxInv (s : AState) : Prop := s.isDone = true ∨ s.chan.rx = true

theorem rxInv_init (cfg : Cfg) (h0 : Nat) (k0 : HKind) : RxInv (AState.init cfg h0 k0) := by
  simp [RxInv, AState.init, Chan.init]

theorem rxInv_step {w : Wiring} {s s' : AState} {l : Label} (hs : step w s l = some s') (hi : RxInv s) :
    RxInv s' := by
  unfold RxInv at *
  cases l <;> unfold_steps hs <;>
    ((repeat' (split at hs)) <;>
     (first
       | (simp at hs; done)
       | (simp at hs; subst hs;
          simp_all [isDone, fail, finish, cancelSlots, killTimers, setTimer, addOp, removeOp, removeHandle, push,
            Chan.deq]; done)
       | (simp at hs; subst hs; unfold answer; split <;> simp_all [isDone]; done)
       | (simp at hs; subst hs; cases hp : s.phase <;> simp_all [isDone, openCb, cancelSlots, curSlot]; done)))

def Label.touchesTimers : Label → Bool
  | .ctxTimer _ _ _ | .timerArm _ _ | .timerEnd _ | .fire _ _ | .cbEnd .stopped _
  | .cancel | .taskPanic | .taskDone => true
  | _ => false

theorem step_timers_same {w : Wiring} {s s' : AState} {l : Label} (hs : step w s l = some s')
    (hl : l.touchesTimers = false) : s'.timers = s.timers := by
  cases l <;> simp [Label.touchesTimers] at hl <;> unfold_steps hs <;>
    ((repeat' (split at hs)) <;>
     (first
       | (simp at hs; done)
       | (simp at hs; subst hs; simp [cancelSlots, addOp, removeOp, removeHandle, push]; done)
       | (simp at hs; subst hs; unfold answer; split <;> simp; done)
       | (simp at hs; subst hs; simp_all; done)))

theorem find_map_set_ne (l : List Timer) (t t' : Nat) (st : TimerSt) (h : t ≠ t') :
    (l.map (fun x => if x.id == t' then { x with st := st } else x)).find? (fun x => x.id == t)
      = l.find? (fun x => x.id == t) := by
  induction l with
  | nil => rfl
  | cons x xs ih =>
    simp only [List.map_cons, List.find?_cons]
    by_cases hx : (x.id == t') = true
    · have hne : (x.id == t) = false := by
        simp at hx ⊢; intro h'; exact h (h'.symm.trans hx)
      simp only [hx, if_true, hne]
      exact ih
    · simp only [hx]
      cases hxt : (x.id == t)
      · simp only [Bool.false_eq_true, if_false, hxt]; exact ih
      · simp only [Bool.false_eq_true, if_false, hxt]

theorem find_map_set_eq (l : List Timer) (t : Nat) (st : TimerSt) (x : Timer)
    (h : l.find? (fun y => y.id == t) = some x) :
    (l.map (fun y => if y.id == t then { y with st := st } else y)).find? (fun y => y.id == t)
      = some { x with st := st } := by
  induction l with
  | nil => simp at h
  | cons y ys ih =>
    simp only [List.map_cons, List.find?_cons] at h ⊢
    cases hy : (y.id == t)
    · simp only [hy, Bool.false_eq_true, if_false] at h ⊢; exact ih h
    · simp only [hy, if_true] at h ⊢
      simp only [Option.some.injEq] at h; subst h
      simp [hy]

theorem findTimer_setTimer_ne {s : AState} {t t' : Nat} {st} (h : t ≠ t') :
    (s.setTimer t' st).findTimer t = s.findTimer t := by
  unfold findTimer setTimer
  exact find_map_set_ne s.timers t t' st h

theorem findTimer_setTimer_eq {s : AState} {t : Nat} {st x} (h : s.findTimer t = some x) :
    (s.setTimer t st).findTimer t = some { x with st := st } := by
  unfold findTimer setTimer at *
  exact find_map_set_eq s.timers t st x h

theorem findTimer_push {s : AState} {pl path tok t} : (s.push pl path tok).findTimer t = s.findTimer t := rfl

end Hannibal
