import Hannibal.Proofs.C09Inv
/-
  C09, part 3: the subscriber table and what is on its way / taken up, relative to the handling order `H`.
-/
namespace Hannibal

theorem getElem?_snoc {α : Type} {l : List α} {a b : α} {j : Nat} (h : (l ++ [a])[j]? = some b) :
    (j < l.length ∧ l[j]? = some b) ∨ (j = l.length ∧ b = a) := by
  rcases Nat.lt_or_ge j l.length with hlt | hge
  · rw [List.getElem?_append_left hlt] at h; exact Or.inl ⟨hlt, h⟩
  · rw [List.getElem?_append_right hge] at h
    have hj : j - l.length = 0 := by
      rcases Nat.eq_zero_or_pos (j - l.length) with h0 | hpos
      · exact h0
      · have : (j - l.length) = (j - l.length - 1) + 1 := by omega
        rw [this] at h; simp at h
    rw [hj] at h; simp at h
    exact Or.inr ⟨by omega, h.symm⟩

theorem getElem?_snoc_left {α : Type} {l : List α} {a b : α} {j : Nat} (h : l[j]? = some b) :
    (l ++ [a])[j]? = some b := by
  rw [List.getElem?_append_left (List.getElem?_eq_some_iff.mp h).1]; exact h

theorem getElem?_snoc_last {α : Type} (l : List α) (a : α) : (l ++ [a])[l.length]? = some a := by
  rw [List.getElem?_append_right (Nat.le_refl _)]; simp

/-! ### the subscriber table -/

structure SubInv (subs : List Nat) (H : List GE) : Prop where
  sb1 : subs.Nodup
  sb2 : ∀ c ∈ subs, ∃ (i : Nat) (e : GE), H[i]? = some e ∧ e.it = .sub c ∧
          ∀ (j : Nat) (e' : GE), i < j → H[j]? = some e' → e'.it ≠ .unsub c

theorem sb2_ext {H : List GE} {c : Nat} {e : GE} (hne : e.it ≠ .unsub c)
    (h : ∃ (i : Nat) (e0 : GE), H[i]? = some e0 ∧ e0.it = .sub c ∧
          ∀ (j : Nat) (e' : GE), i < j → H[j]? = some e' → e'.it ≠ .unsub c) :
    ∃ (i : Nat) (e0 : GE), (H ++ [e])[i]? = some e0 ∧ e0.it = .sub c ∧
          ∀ (j : Nat) (e' : GE), i < j → (H ++ [e])[j]? = some e' → e'.it ≠ .unsub c := by
  obtain ⟨i, e0, h1, h2, h3⟩ := h
  refine ⟨i, e0, getElem?_snoc_left h1, h2, ?_⟩
  intro j e' hij hj
  rcases getElem?_snoc hj with ⟨_, hj⟩ | ⟨_, rfl⟩
  · exact h3 j e' hij hj
  · exact hne

theorem nodup_filter {l : List Nat} (p : Nat → Bool) (h : l.Nodup) : (l.filter p).Nodup :=
  List.Nodup.sublist List.filter_sublist h

theorem sub_sub {subs : List Nat} {H : List GE} (h : SubInv subs H) {e : GE} {c : Nat} (he : e.it = .sub c) :
    SubInv (c :: subs.filter (fun x => x != c)) (H ++ [e]) := by
  refine ⟨?_, ?_⟩
  · rw [List.nodup_cons]
    refine ⟨?_, nodup_filter _ h.sb1⟩
    simp [List.mem_filter]
  · intro c' hc'
    rcases List.mem_cons.mp hc' with rfl | hc'
    · refine ⟨H.length, e, getElem?_snoc_last H e, he, ?_⟩
      intro j e' hij hj
      rcases getElem?_snoc hj with ⟨hlt, _⟩ | ⟨heq, _⟩ <;> omega
    · rw [List.mem_filter] at hc'
      exact sb2_ext (by rw [he]; simp) (h.sb2 c' hc'.1)

theorem sub_unsub {subs : List Nat} {H : List GE} (h : SubInv subs H) {e : GE} {c : Nat} (he : e.it = .unsub c) :
    SubInv (subs.filter (fun x => x != c)) (H ++ [e]) := by
  refine ⟨nodup_filter _ h.sb1, ?_⟩
  intro c' hc'
  rw [List.mem_filter] at hc'
  have hne : c' ≠ c := by simpa using hc'.2
  refine sb2_ext ?_ (h.sb2 c' hc'.1)
  rw [he]; simp; exact fun h => hne h.symm

theorem sub_pub {subs : List Nat} {H : List GE} (h : SubInv subs H) {e : GE} {m : Nat} (he : e.it = .pub m) :
    SubInv subs (H ++ [e]) := by
  refine ⟨h.sb1, ?_⟩
  intro c' hc'
  exact sb2_ext (by rw [he]; simp) (h.sb2 c' hc')

/-! ### on its way and taken up -/

structure FlInv (seq flight : List (Nat × Nat)) (H : List GE) : Prop where
  f1 : ∀ p ∈ seq ++ flight, pidx H p.2 < H.length
  f2 : (seq ++ flight).Pairwise (fun a b => a.1 = b.1 → pidx H a.2 < pidx H b.2)
  f3 : ∀ p ∈ flight, ∃ (i : Nat) (e : GE), i < pidx H p.2 ∧ H[i]? = some e ∧ e.it = .sub p.1 ∧
         ∀ (j : Nat) (e' : GE), i < j → j < pidx H p.2 → H[j]? = some e' → e'.it ≠ .unsub p.1

theorem fl_append {seq flight : List (Nat × Nat)} {H : List GE} (h : FlInv seq flight H) (e : GE) :
    FlInv seq flight (H ++ [e]) := by
  have hp : ∀ p ∈ seq ++ flight, pidx (H ++ [e]) p.2 = pidx H p.2 := fun p hp => pidx_append _ (h.f1 p hp)
  refine ⟨?_, ?_, ?_⟩
  · intro p hpm
    rw [hp p hpm]; have := h.f1 p hpm; simp; omega
  · have := h.f2
    rw [List.pairwise_iff_getElem] at this ⊢
    intro i j hi hj hij hab
    rw [hp _ (List.getElem_mem hi), hp _ (List.getElem_mem hj)]
    exact this i j hi hj hij hab
  · intro p hpm
    have hpp := hp p (List.mem_append_right _ hpm)
    obtain ⟨i, e0, h1, h2, h3, h4⟩ := h.f3 p hpm
    refine ⟨i, e0, by rw [hpp]; exact h1, getElem?_snoc_left h2, h3, ?_⟩
    intro j e' hij hjp hj
    rw [hpp] at hjp
    have hlen := h.f1 p (List.mem_append_right _ hpm)
    rcases getElem?_snoc hj with ⟨_, hj⟩ | ⟨heq, _⟩
    · exact h4 j e' hij hjp hj
    · omega

theorem fl_sub {seq flight flight' : List (Nat × Nat)} {H : List GE} (h : FlInv seq flight H)
    (hs : flight'.Sublist flight) : FlInv seq flight' H := by
  refine ⟨?_, ?_, ?_⟩
  · intro p hp
    rcases List.mem_append.mp hp with hp | hp
    · exact h.f1 p (List.mem_append_left _ hp)
    · exact h.f1 p (List.mem_append_right _ (hs.subset hp))
  · exact List.Pairwise.sublist (List.Sublist.append (List.Sublist.refl _) hs) h.f2
  · intro p hp
    exact h.f3 p (hs.subset hp)

/-- the broker handles `pub m`: one entry per live subscriber -/
theorem fl_pub {seq flight : List (Nat × Nat)} {H : List GE} {subs : List Nat} (h : FlInv seq flight H)
    (hsub : SubInv subs H) {e : GE} {m : Nat} (he : e.it = .pub m) (hu : PubU (H ++ [e])) (p : Nat → Bool) :
    FlInv seq (flight ++ (subs.filter p).map (fun c => (c, m))) (H ++ [e]) := by
  have h' := fl_append h e
  have hm : pidx (H ++ [e]) m = H.length := pidx_eq hu (getElem?_snoc_last H e) he
  have hold : ∀ q ∈ seq ++ flight, pidx (H ++ [e]) q.2 < H.length := by
    intro q hq
    rw [pidx_append _ (h.f1 q hq)]; exact h.f1 q hq
  refine ⟨?_, ?_, ?_⟩
  · intro q hq
    rw [← List.append_assoc] at hq
    rcases List.mem_append.mp hq with hq | hq
    · exact h'.f1 q hq
    · obtain ⟨c, _, rfl⟩ := List.mem_map.mp hq
      simp [hm]
  · rw [← List.append_assoc, List.pairwise_append]
    refine ⟨h'.f2, ?_, ?_⟩
    · rw [List.pairwise_map]
      have hn : (subs.filter p).Nodup := nodup_filter p hsub.sb1
      rw [List.nodup_iff_pairwise_ne] at hn
      refine List.Pairwise.imp ?_ hn
      intro a b hab heq
      exact absurd heq hab
    · intro a ha b hb _
      obtain ⟨c, _, rfl⟩ := List.mem_map.mp hb
      simp only [hm]
      exact hold a ha
  · intro q hq
    rcases List.mem_append.mp hq with hq | hq
    · exact h'.f3 q hq
    · obtain ⟨c, hc, rfl⟩ := List.mem_map.mp hq
      rw [List.mem_filter] at hc
      obtain ⟨i, e0, h1, h2, h3⟩ := hsub.sb2 c hc.1
      have hi : i < H.length := (List.getElem?_eq_some_iff.mp h1).1
      simp only [hm]
      refine ⟨i, e0, hi, getElem?_snoc_left h1, h2, ?_⟩
      intro j e' hij hjl hj
      rcases getElem?_snoc hj with ⟨_, hj⟩ | ⟨heq, _⟩
      · exact h3 j e' hij hj
      · omega

/-- subscriber `c` takes the first entry of its own up -/
theorem fl_deliver {seq f1 f2 : List (Nat × Nat)} {H : List GE} {c m : Nat}
    (h : FlInv seq (f1 ++ (c, m) :: f2) H) (hn : ∀ a ∈ f1, a.1 ≠ c) :
    FlInv (seq ++ [(c, m)]) (f1 ++ f2) H := by
  refine ⟨?_, ?_, ?_⟩
  · intro p hp
    apply h.f1 p
    simp only [List.mem_append, List.mem_cons, List.not_mem_nil, or_false] at hp ⊢
    rcases hp with (hp | hp) | hp | hp
    · exact Or.inl hp
    · exact Or.inr (Or.inr (Or.inl hp))
    · exact Or.inr (Or.inl hp)
    · exact Or.inr (Or.inr (Or.inr hp))
  · have := h.f2
    simp only [List.pairwise_append, List.pairwise_cons, List.mem_append, List.mem_cons,
      List.not_mem_nil, List.Pairwise.nil, or_false, false_imp_iff, implies_true, and_true, true_and] at this ⊢
    obtain ⟨hseq, ⟨hf1, ⟨hcf2, hf2⟩, hf12⟩, hcross⟩ := this
    refine ⟨⟨hseq, ?_⟩, ⟨hf1, hf2, ?_⟩, ?_⟩
    · intro a ha b hb; subst hb
      exact hcross a ha _ (Or.inr (Or.inl rfl))
    · intro a ha b hb
      exact hf12 a ha b (Or.inr hb)
    · intro a ha b hb
      rcases ha with ha | ha
      · rcases hb with hb | hb
        · exact hcross a ha b (Or.inl hb)
        · exact hcross a ha b (Or.inr (Or.inr hb))
      · subst ha
        rcases hb with hb | hb
        · intro heq; exact absurd heq.symm (hn b hb)
        · exact hcf2 b hb
  · intro p hp
    apply h.f3 p
    simp only [List.mem_append, List.mem_cons] at hp ⊢
    rcases hp with hp | hp
    · exact Or.inl hp
    · exact Or.inr (Or.inr hp)

end Hannibal
