import Hannibal.Proofs.Ops
import Hannibal.Proofs.Tactics
/-
  C01, clause (4): the open handler invocation (and its reply slot) stays the same across every step
  other than a `cbBegin`; a fresh operation is never born answered.
-/
namespace Hannibal
open AState

set_option maxHeartbeats 1000000 in
theorem step_handling_same (w : Wiring) {s s' : AState} {l : Label} (hs : step w s l = some s')
    (hl : ∀ cb, l ≠ .cbBegin cb) {cb : Cb} {slot dl : Option Nat}
    (hp : s'.phase = .handling cb slot dl) : s.phase = .handling cb slot dl := by
  cases l <;> unfold_steps hs
  case cbBegin cb' => exact absurd rfl (hl cb')
  all_goals
    ((repeat' (split at hs)) <;>
     (first
       | (simp at hs; done)
       | (simp at hs; subst hs
          simp_all [fail, finish, cancelSlots, killTimers, setTimer, addOp, removeOp, removeHandle, push]
          done)
       | (simp at hs; subst hs
          unfold answer at hp
          split at hp <;> simp_all
          done)))

theorem stepBegin_not_answered {w s o h k s'} (hs : stepBegin w s o h k = some s') :
    ∃ st, s'.ops = s.ops ++ [{ o, h, kind := k, st }] ∧ ∀ rep, st ≠ .answered rep := by
  unfold stepBegin at hs
  (repeat' (split at hs)) <;>
    (first
      | (simp at hs; done)
      | (simp at hs; subst hs; exact ⟨_, rfl, by simp⟩)
      | (simp at hs; subst hs
         unfold beginWait
         (repeat' split) <;> exact ⟨_, rfl, by simp⟩))

end Hannibal
