import Hannibal.Proofs.Latch
import Hannibal.Proofs.Ops
import Hannibal.Monitor.Handles
/-
  The monitor-side handle table (computed from trace events alone) is the
  model's handle table, and a strong handle keeps both closures alive.
-/
namespace Hannibal
open AState

/-- Every strong handle kind owns both halves of the channel. -/
def WellWired15 (w : Wiring) : Prop :=
  ∀ k : HKind, k.strong = true → (w.holds k).contains .tx = true ∧ (w.holds k).contains .force = true

def wellWired15b (w : Wiring) : Bool :=
  [HKind.addr, .owning, .sender, .caller].all
    (fun k => (w.holds k).contains .tx && (w.holds k).contains .force)

theorem wellWired15_iff (w : Wiring) : WellWired15 w ↔ wellWired15b w = true := by
  unfold WellWired15 wellWired15b
  constructor
  · intro h
    simp only [List.all_cons, List.all_nil, Bool.and_true, Bool.and_eq_true]
    exact ⟨h .addr rfl, h .owning rfl, h .sender rfl, h .caller rfl⟩
  · intro h k hk
    simp only [List.all_cons, List.all_nil, Bool.and_true, Bool.and_eq_true] at h
    cases k <;> simp [HKind.strong] at hk <;> simp_all

instance (w : Wiring) : Decidable (WellWired15 w) := decidable_of_iff _ (wellWired15_iff w).symm

structure HInv (s : AState) (σ : HoldSt) : Prop where
  handles : σ.handles = s.handles
  ops : ∀ r ∈ s.ops, lookup r.o σ.ops = some (r.kind, r.h)

theorem halfAlive_of_strong {w : Wiring} (hw : WellWired15 w) {s : AState}
    (h : s.handles.any (fun p => p.2.strong) = true) (x : Half) : s.halfAlive w x = true := by
  unfold halfAlive
  simp only [Bool.or_eq_true]
  refine .inl (.inl ?_)
  rw [List.any_eq_true] at h ⊢
  obtain ⟨p, hp, hs⟩ := h
  refine ⟨p, hp, ?_⟩
  have := hw p.2 hs
  cases x <;> simp
  · simpa using this.1
  · simpa using this.2

theorem reqOk_of_strong {w : Wiring} (hw : WellWired15 w) {s : AState}
    (h : s.handles.any (fun p => p.2.strong) = true) (req : List Half) : s.reqOk w req = true := by
  unfold reqOk
  rw [List.all_eq_true]
  intro x _
  exact halfAlive_of_strong hw h x

end Hannibal

namespace Hannibal
open AState

theorem lookup_cons_ne {α} {k k' : Nat} {v : α} {l : List (Nat × α)} (h : k' ≠ k) :
    lookup k ((k', v) :: l) = lookup k l := by
  simp [lookup, h]

theorem lookup_cons_eq {α} {k : Nat} {v : α} {l : List (Nat × α)} :
    lookup k ((k, v) :: l) = some v := by
  simp [lookup]

theorem kindOf_eq {s : AState} {σ : HoldSt} (h : σ.handles = s.handles) (x : Nat) :
    σ.kindOf x = s.handleKind x := by
  unfold HoldSt.kindOf handleKind; rw [h]

theorem findOp_none_ne {s : AState} {o} (h : s.findOp o = none) : ∀ r ∈ s.ops, r.o ≠ o := by
  unfold findOp at h
  intro r hr
  have := List.find?_eq_none.mp h r hr
  simpa using this

theorem findOp_some_mem {s : AState} {o r} (h : s.findOp o = some r) : r ∈ s.ops ∧ r.o = o := by
  unfold findOp at h
  exact ⟨List.mem_of_find?_eq_some h, by simpa using List.find?_some h⟩

def Label.touchesHandles : Label → Bool
  | .mk _ _ _ | .upgrade _ _ | .detach _ _ | .drop _ | .ctxWeak _ _ | .ret _ _ | .cdrop _ => true
  | _ => false

theorem step_handles_same {w : Wiring} {s s' : AState} {l : Label} (hs : step w s l = some s')
    (hl : l.touchesHandles = false) : s'.handles = s.handles := by
  cases l <;> simp [Label.touchesHandles] at hl <;> unfold_steps hs <;>
    ((repeat' (split at hs)) <;>
     (first
       | (simp at hs; done)
       | (simp at hs; subst hs; simp [fail, finish, cancelSlots, killTimers, setTimer, addOp, push]; done)
       | (simp at hs; subst hs; unfold answer; split <;> simp; done)))

theorem holdStep_ops (σ : HoldSt) (l : Label) (h : l.isOpEdge = false) : (σ.step l).ops = σ.ops := by
  cases l <;> simp [Label.isOpEdge] at h <;> (try rfl)
  case upgrade hh h' =>
    cases h' with
    | none => rfl
    | some h2 => simp only [HoldSt.step]; split <;> rfl
  case ctxWeak k h' => cases h' <;> rfl

theorem holdStep_handles_same (σ : HoldSt) (l : Label) (h : l.touchesHandles = false) :
    (σ.step l).handles = σ.handles := by
  cases l <;> simp [Label.touchesHandles] at h <;> rfl

/-- The monitor-side table follows the model's handle table step by step. -/
theorem hinv_step {w : Wiring} {s s' : AState} {σ : HoldSt} {l : Label}
    (hi : HInv s σ) (hs : step w s l = some s') : HInv s' (σ.step l) := by
  by_cases hedge : l.isOpEdge = true
  · cases l <;> simp [Label.isOpEdge] at hedge
    case begin o h k =>
      have hh := step_handles_same hs rfl
      simp only [step] at hs
      obtain ⟨hfresh, st, hops⟩ := stepBegin_ops hs
      have hne := findOp_none_ne hfresh
      refine ⟨by simp [HoldSt.step, hh, hi.handles], ?_⟩
      intro r hr
      rw [hops] at hr
      rcases List.mem_append.mp hr with hr | hr
      · simp only [HoldSt.step]
        rw [lookup_cons_ne (hne r hr).symm]
        exact hi.ops r hr
      · simp at hr; subst hr
        simp [HoldSt.step, lookup]
    case ret o r =>
      simp only [step] at hs
      obtain ⟨rec, hfind, hexp, hops, hro⟩ := stepRet_ops hs
      obtain ⟨hrec, _⟩ := findOp_some_mem hfind
      have hl := hi.ops rec hrec
      rw [hro] at hl
      refine ⟨?_, ?_⟩
      · unfold stepRet at hs
        simp only [hfind, hexp, if_true] at hs
        simp at hs; subst hs
        simp only [HoldSt.step, HoldSt.release, hl]
        unfold retEffect consumesHandle
        cases hk : rec.kind <;> simp [HoldSt.remove, hi.handles] <;>
          (repeat' split) <;> simp [removeHandle, removeOp]
      · intro r0 hr0
        rw [hops] at hr0
        have := (List.mem_filter.mp hr0).1
        simp only [HoldSt.step, HoldSt.release]
        have hk := hi.ops r0 this
        cases hrk : rec.kind <;> simp [hl, hrk, HoldSt.remove, hk]
    case cdrop o =>
      simp only [step] at hs
      have hops := stepCdrop_ops hs
      unfold stepCdrop at hs
      cases hfind : s.findOp o with
      | none => simp [hfind] at hs
      | some rec =>
        obtain ⟨hrec, hro⟩ := findOp_some_mem hfind
        have hl := hi.ops rec hrec
        rw [hro] at hl
        simp only [hfind] at hs
        refine ⟨?_, ?_⟩
        · simp only [HoldSt.step, HoldSt.release, hl]
          cases hk : rec.kind <;> simp [hk] at hs <;> subst hs <;>
            simp [HoldSt.remove, hi.handles, removeHandle, removeOp]
        · intro r0 hr0
          rw [hops] at hr0
          have := (List.mem_filter.mp hr0).1
          simp only [HoldSt.step, HoldSt.release]
          have hk := hi.ops r0 this
          cases hrk : rec.kind <;> simp [hl, hrk, HoldSt.remove, hk]
  · have hedge' : l.isOpEdge = false := by simpa using hedge
    obtain ⟨f, hf, pf⟩ := step_ops hs hedge'
    have hops : ∀ r ∈ s'.ops, lookup r.o (σ.step l).ops = some (r.kind, r.h) := by
      intro r' hr'
      rw [hf] at hr'
      obtain ⟨r, hr, rfl⟩ := List.mem_map.mp hr'
      rw [holdStep_ops σ l hedge', pf.o, pf.kind, pf.h]
      exact hi.ops r hr
    refine ⟨?_, hops⟩
    by_cases ht : l.touchesHandles = true
    · have hk := kindOf_eq hi.handles
      have hh := hi.handles
      cases l <;> simp [Label.touchesHandles] at ht <;> simp [Label.isOpEdge] at hedge'
      case mk h h' k' =>
        simp only [step, stepMk] at hs
        (repeat' (split at hs)) <;> (first | (simp at hs; done) | (simp at hs; subst hs; simp [HoldSt.step, hh]))
      case upgrade h h' =>
        simp only [step, stepUpgrade] at hs
        (repeat' (split at hs)) <;>
          (first
            | (simp at hs; done)
            | (simp at hs; subst hs; simp [HoldSt.step, hk, hh, *]))
      case detach h h' =>
        simp only [step, stepDetach] at hs
        (repeat' (split at hs)) <;>
          (first | (simp at hs; done) | (simp at hs; subst hs; simp [HoldSt.step, HoldSt.remove, hh, removeHandle]))
      case drop h =>
        simp only [step, stepDrop] at hs
        (repeat' (split at hs)) <;>
          (first | (simp at hs; done) | (simp at hs; subst hs; simp [HoldSt.step, HoldSt.remove, hh, removeHandle]))
      case ctxWeak k h =>
        simp only [step, stepCtxWeak] at hs
        (repeat' (split at hs)) <;>
          (first | (simp at hs; done) | (simp at hs; subst hs; simp [HoldSt.step, hk, hh, *]))
    · have ht' : l.touchesHandles = false := by simpa using ht
      rw [holdStep_handles_same σ l ht', step_handles_same hs ht']
      exact hi.handles

end Hannibal
