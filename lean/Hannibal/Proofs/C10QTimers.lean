import Hannibal.Proofs.Timers
/-
  C10q: what one step does to each timer of the table, pointwise: every step other than a registration maps
  the timer table by an id-preserving function whose effect on a timer's state is described by `tstOk`.
-/
namespace Hannibal
open AState

/-- how the state of a timer with id `id` may change at label `l` -/
def tstOk (l : Label) (id : Nat) (a b : TimerSt) : Bool :=
  a == b ||
  (match l with
   | .timerArm t _ | .fire t _ => t == id && b != .ended
   | .timerEnd t => t == id && b == .ended
   | .cbEnd .stopped _ | .cancel | .taskPanic | .taskDone => a != .ended && (b == .dead || b == .deadHolding)
   | _ => false)

def killT (t : Timer) : Timer :=
  if t.st = .ended then t
  else if t.st = .sending ∨ t.st = .deadHolding then { t with st := .deadHolding }
  else { t with st := .dead }

theorem killTimers_eq (s : AState) : s.killTimers.timers = s.timers.map killT := rfl

theorem killT_id (x : Timer) : (killT x).id = x.id := by
  unfold killT; split
  · rfl
  · split <;> rfl

theorem killT_ok (l : Label) (hl : l = .cancel ∨ l = .taskPanic ∨ l = .taskDone ∨ ∃ ok, l = .cbEnd .stopped ok)
    (x : Timer) : tstOk l x.id x.st (killT x).st = true := by
  have : x.st = (killT x).st ∨ (x.st ≠ .ended ∧ ((killT x).st = .dead ∨ (killT x).st = .deadHolding)) := by
    unfold killT; split
    · exact .inl rfl
    · rename_i h; split
      · exact .inr ⟨h, .inr rfl⟩
      · exact .inr ⟨h, .inl rfl⟩
  rcases this with h | ⟨h1, h2⟩
  · unfold tstOk; simp [← h]
  · rcases hl with rfl | rfl | rfl | ⟨ok, rfl⟩ <;> (unfold tstOk; rcases h2 with h2 | h2 <;> simp [h1, h2])

def setT (t : Nat) (st : TimerSt) (x : Timer) : Timer := if x.id == t then { x with st := st } else x

theorem setTimer_eq (s : AState) (t st) : (s.setTimer t st).timers = s.timers.map (setT t st) := rfl

theorem setT_id (t st) (x : Timer) : (setT t st x).id = x.id := by
  unfold setT; split <;> rfl

theorem fail_timers (s : AState) : s.fail.timers = s.timers.map killT := rfl
theorem finish_timers (s : AState) : s.finish.timers = s.timers.map killT := rfl

theorem step_timers_map10q {w : Wiring} {s s' : AState} {l : Label} (hs : step w s l = some s')
    (hl : ∀ t k d, l ≠ .ctxTimer t k d) :
    ∃ f : Timer → Timer, s'.timers = s.timers.map f ∧ ∀ x, (f x).id = x.id ∧ tstOk l x.id x.st (f x).st = true := by
  have hid : ∃ f : Timer → Timer, s.timers = s.timers.map f ∧
      ∀ x, (f x).id = x.id ∧ tstOk l x.id x.st (f x).st = true :=
    ⟨id, by simp, fun x => ⟨rfl, by simp [tstOk]⟩⟩
  have hkill : (l = .cancel ∨ l = .taskPanic ∨ l = .taskDone ∨ ∃ ok, l = .cbEnd .stopped ok) →
      ∃ f : Timer → Timer, s.timers.map killT = s.timers.map f ∧
        ∀ x, (f x).id = x.id ∧ tstOk l x.id x.st (f x).st = true :=
    fun h => ⟨killT, rfl, fun x => ⟨killT_id x, killT_ok l h x⟩⟩
  by_cases htt : l.touchesTimers = true
  · cases l <;> simp [Label.touchesTimers] at htt
    case ctxTimer t k d => exact absurd rfl (hl t k d)
    case timerArm t due =>
      simp only [step] at hs
      obtain ⟨x, hx, hdue, _, htim, hcase⟩ := stepTimerArm_spec hs
      refine ⟨setT t (.sleeping due), by rw [htim, setTimer_eq], fun y => ⟨setT_id _ _ y, ?_⟩⟩
      unfold setT tstOk
      by_cases hy : y.id = t <;> simp [hy]
    case timerEnd t =>
      simp only [step] at hs
      obtain ⟨_, htim⟩ := stepTimerEnd_spec hs
      refine ⟨setT t .ended, by rw [htim, setTimer_eq], fun y => ⟨setT_id _ _ y, ?_⟩⟩
      unfold setT tstOk
      by_cases hy : y.id = t <;> simp [hy]
    case fire t m =>
      simp only [step] at hs
      obtain ⟨x, due, hx, hst, hdue, _, htim⟩ := stepFire_spec hs
      rcases htim with ⟨htim, _⟩ | htim
      · refine ⟨setT t .sending, by rw [htim, setTimer_eq], fun y => ⟨setT_id _ _ y, ?_⟩⟩
        unfold setT tstOk
        by_cases hy : y.id = t <;> simp [hy]
      · refine ⟨setT t .dead, by rw [htim, setTimer_eq], fun y => ⟨setT_id _ _ y, ?_⟩⟩
        unfold setT tstOk
        by_cases hy : y.id = t <;> simp [hy]
    case cbEnd cb ok =>
      have hcb : cb = .stopped := by cases cb <;> simp_all
      subst hcb
      simp only [step, stepCbEnd] at hs
      split at hs
      · simp at hs
      · cases hp : s.phase <;> simp [hp] at hs
        · obtain ⟨_, rfl⟩ := hs
          by_cases hr : w.refreshResetsTimers = true
          · have : (s.refreshTimers w).timers = s.timers.map killT := by simp [refreshTimers, hr, killTimers_eq]
            simp only [this]
            exact hkill (.inr (.inr (.inr ⟨_, rfl⟩)))
          · have : (s.refreshTimers w).timers = s.timers := by simp [refreshTimers, hr]
            simp only [this]
            exact hid
        · obtain ⟨_, rfl⟩ := hs
          exact hid
    case cancel =>
      simp only [step, stepCancel] at hs
      split at hs
      · simp at hs
      · simp at hs; subst hs
        exact hkill (.inl rfl)
    case taskPanic =>
      simp only [step, stepTaskPanic] at hs
      (repeat' (split at hs)) <;>
        (first
          | (simp at hs; done)
          | (simp at hs; subst hs; exact hkill (.inr (.inl rfl))))
    case taskDone =>
      simp only [step, stepTaskDone] at hs
      (repeat' (split at hs)) <;>
        (first
          | (simp at hs; done)
          | (simp at hs; subst hs; exact hkill (.inr (.inr (.inl rfl)))))
  · have := step_timers_same hs (by simpa using htt)
    rw [this]; exact hid

/-- a registration appends one spawned timer with a fresh id -/
theorem stepCtxTimer_spec {s s' : AState} {t : Nat} {k : TimerKind} {d : Nat}
    (hs : stepCtxTimer s t k d = some s') :
    s'.timers = s.timers ++ [{ id := t, kind := k, d, st := .spawned }] ∧ s'.chan = s.chan ∧
      s.timers.all (fun x => x.id != t) = true := by
  unfold stepCtxTimer at hs
  split at hs
  · rename_i hc
    simp at hs; subst hs
    refine ⟨rfl, rfl, ?_⟩
    simp at hc
    simpa using hc.2
  · simp at hs

end Hannibal
