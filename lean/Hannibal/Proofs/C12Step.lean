import Hannibal.Proofs.C12
/-
  C12: every step of the actor model is accepted by the C12 monitor and
  re-establishes the coupling invariant.
-/
namespace Hannibal
open AState

theorem plan_pl_none {w hk o k} (h : (plan w hk o k).pl = none) : isSendKind k = none := by
  cases k <;> simp [plan] at h <;> rfl

theorem plan_send {w hk o k m} (hk' : isSendKind k = some m) (hw : WellWired12 w) :
    (plan w hk o k).pl = some (.msg m none) ∧ (plan w hk o k).path = .waiting := by
  have hp : sendPath w hk = .waiting := by
    unfold sendPath; split <;> simp [hw.1, hw.2]
  cases k <;> simp [isSendKind] at hk' <;> subst hk' <;> simp [plan, hp]

theorem stepBegin_detail {w s o h k s'} (hs : stepBegin w s o h k = some s') :
    s.findOp o = none ∧ ∃ st, s'.ops = s.ops ++ [{ o, h, kind := k, st }] ∧ SameOrEnq s.chan s'.chan ∧
      (st = .pending → ∀ m, isSendKind k = some m → WellWired12 w →
        ∃ e ∈ s'.chan.queue, e.tok = .op o ∧ e.pl = .msg m none) := by
  have hch := stepBegin_chan hs
  obtain ⟨hfresh, -⟩ := stepBegin_ops hs
  refine ⟨hfresh, ?_⟩
  unfold stepBegin at hs
  cases hk0 : s.handleKind h with
  | none => simp [hk0] at hs
  | some hk =>
    simp only [hk0] at hs
    by_cases hg : (!kindOk k hk || (s.findOp o).isSome) = true
    · rw [if_pos hg] at hs; simp at hs
    · rw [if_neg hg] at hs
      by_cases hreq : (!s.reqOk w (plan w hk o k).upg) = true
      · rw [if_pos hreq] at hs; simp at hs; subst hs
        exact ⟨_, rfl, hch, by simp⟩
      · rw [if_neg hreq] at hs
        cases hpl : (plan w hk o k).pl with
        | none =>
          simp only [hpl] at hs; simp at hs; subst hs
          have hns := plan_pl_none hpl
          unfold beginWait; split
          · split
            · exact ⟨_, rfl, by simpa using hch, by simp⟩
            · exact ⟨_, rfl, by simpa using hch, by simp⟩
          · exact ⟨_, rfl, by simpa using hch, by intro _ m hm; simp [hns] at hm⟩
        | some pl =>
          simp only [hpl] at hs
          by_cases hrx : s.chan.rx = true
          · rw [if_pos hrx] at hs; simp at hs; subst hs
            obtain ⟨st, hst⟩ := beginWait_ops (s.push pl (plan w hk o k).path (.op o)) o h k (plan w hk o k).join
            refine ⟨st, by simpa using hst, hch, ?_⟩
            intro _ m hm hw
            obtain ⟨h1, h2⟩ := plan_send (w := w) (hk := hk) (o := o) hm hw
            rw [hpl] at h1
            simp at h1
            refine ⟨{ pl := .msg m none, tok := .op o }, ?_, rfl, rfl⟩
            simp [h1, h2]
          · rw [if_neg hrx] at hs; simp at hs; subst hs
            exact ⟨_, rfl, hch, by simp⟩

theorem stepCbBegin_detail {w s cb s'} (hs : stepCbBegin w s cb = some s') :
    (∃ m sl tok rest, cb = .handle m ∧ s.chan.queue = { pl := .msg m sl, tok } :: rest ∧
        s'.chan = s.chan.deq) ∨ (s'.chan = s.chan ∧ ∀ m, cb ≠ .handle m) := by
  cases cb with
  | handle m =>
    unfold stepCbBegin at hs
    cases hph : s.phase <;> simp [hph] at hs
    cases hq : s.chan.queue with
    | nil => simp [hq] at hs
    | cons e rest =>
      obtain ⟨pl, tok⟩ := e
      cases pl <;> simp [hq] at hs
      obtain ⟨⟨rfl, _⟩, rfl⟩ := hs
      exact .inl ⟨_, _, _, _, rfl, rfl, rfl⟩
  | started | item | finished | stopped =>
    refine .inr ⟨?_, by simp⟩
    unfold stepCbBegin at hs
    cases hph : s.phase <;> simp [hph] at hs
    all_goals
      ((repeat' (split at hs)) <;>
       (first
         | (simp at hs; done)
         | (subst hs; rfl)
         | (subst hs; simp; done)
         | (obtain ⟨_, rfl⟩ := hs; rfl)
         | (obtain ⟨_, rfl⟩ := hs; simp; done)
         | (simp at hs; first
              | (subst hs; rfl)
              | (subst hs; simp; done)
              | (obtain ⟨_, rfl⟩ := hs; rfl)
              | (obtain ⟨_, rfl⟩ := hs; simp; done))))

theorem stepDeq_detail {s s'} (hs : stepDeq s = some s') :
    ∃ e rest, s.chan.queue = e :: rest ∧ (∀ m sl, e.pl ≠ .msg m sl) ∧ s'.chan = s.chan.deq := by
  have hc := (stepDeq_chan hs).2
  unfold stepDeq at hs
  split at hs
  · rename_i e rest _ hq
    refine ⟨e, rest, hq, ?_, hc⟩
    split at hs
    · simp at hs
    · simp only at hs
      split at hs <;> (rename_i hpl; intro m sl; simp [hpl])
      all_goals simp at hs
  · simp at hs

theorem stepTickBegin_detail {s t m s'} (hs : stepTickBegin s t m = some s') :
    ∃ tok rest, s.chan.queue = { pl := .tick t, tok } :: rest ∧
      s'.chan = { s.chan with queue := { pl := .msg m none, tok } :: rest } := by
  unfold stepTickBegin at hs
  cases hph : s.phase <;> simp [hph] at hs
  cases hq : s.chan.queue with
  | nil => simp [hq] at hs
  | cons e rest =>
    obtain ⟨pl, tok⟩ := e
    cases pl <;> simp [hq] at hs
    obtain ⟨rfl, rfl⟩ := hs
    exact ⟨tok, rest, rfl, by simp [hq]⟩

theorem stepExtBegin_detail {s b m s'} (hs : stepExtBegin s b m = some s') :
    ∃ tok rest, s.chan.queue = { pl := .ext b, tok } :: rest ∧
      s'.chan = { s.chan with queue := { pl := .msg m none, tok } :: rest } := by
  unfold stepExtBegin at hs
  cases hph : s.phase <;> simp [hph] at hs
  cases hq : s.chan.queue with
  | nil => simp [hq] at hs
  | cons e rest =>
    obtain ⟨pl, tok⟩ := e
    cases pl <;> simp [hq] at hs
    obtain ⟨rfl, rfl⟩ := hs
    exact ⟨tok, rest, rfl, by simp [hq]⟩

theorem ChanStep.wf {c c'} (h : ChanStep c c') (hw : c.WF) : c'.WF := by
  cases h with
  | same h => rw [h]; exact hw
  | enq e _ h => rw [h]; exact Chan.wf_enq _ _ hw
  | deq _ h => rw [h]; exact Chan.wf_deq _ hw
  | drop h => rw [h]; exact Chan.wf_dropRx _
  | rename pl pl' tok rest hq h => rw [h]; exact Chan.wf_rename _ _ _ _ _ hq hw

theorem ChanStep.cap {c c'} (h : ChanStep c c') : c'.cap = c.cap := by
  cases h with
  | same h => rw [h]
  | enq e _ h => rw [h]; simp
  | deq _ h => rw [h]; rfl
  | drop h => rw [h]; rfl
  | rename pl pl' tok rest hq h => rw [h]

theorem ChanSteps.wf {c c'} (h : ChanSteps c c') (hw : c.WF) : c'.WF := by
  cases h with
  | one h => exact h.wf hw
  | two h1 h2 => exact h2.wf (h1.wf hw)

theorem ChanSteps.cap {c c'} (h : ChanSteps c c') : c'.cap = c.cap := by
  cases h with
  | one h => exact h.cap
  | two h1 h2 => rw [h2.cap, h1.cap]

/-- Labels whose only mailbox effect is "nothing, or one submission" and which keep the op table. -/
def Label.isPlain : Label → Bool
  | .mk _ _ _ | .upgrade _ _ | .detach _ _ | .drop _ | .stopReq _ _ | .restartReq _ _ | .query _ _
  | .cbEnd _ _ | .cbAbandon _ | .cbPanic _ | .vnew _ | .work _ | .ctxStop _ | .ctxRestart _
  | .ctxTimer _ _ _ | .ctxWeak _ _ | .fire _ _ | .timerArm _ _ | .timerEnd _ | .extPush _ | .time _ | .streamReady _
  | .streamEnd | .quiescent _ | .tChanEnd | .tStreamEnd => true
  | _ => false

theorem step_plain {w s l s'} (hl : l.isPlain = true) (hs : step w s l = some s') :
    SameOrEnq s.chan s'.chan := by
  cases l <;> simp [Label.isPlain] at hl <;> simp only [step] at hs
  case mk => exact .inl (stepMk_chan hs)
  case upgrade => exact .inl (stepUpgrade_chan hs)
  case detach => exact .inl (stepDetach_chan hs)
  case drop => exact .inl (stepDrop_chan hs)
  case stopReq => exact stepSignal_chan hs
  case restartReq => exact stepSignal_chan hs
  case query => exact .inl (stepQuery_chan hs)
  case cbEnd => exact .inl (stepCbEnd_chan hs)
  case cbAbandon => exact .inl (stepCbAbandon_chan hs)
  case cbPanic => exact .inl (stepCbPanic_chan hs)
  case vnew => exact .inl (stepVnew_chan hs)
  case work => exact .inl (stepWork_chan hs)
  case ctxStop => exact stepCtxSignal_chan hs
  case ctxRestart => exact stepCtxSignal_chan hs
  case ctxTimer => exact .inl (stepCtxTimer_chan hs)
  case ctxWeak => exact .inl (stepCtxWeak_chan hs)
  case fire => exact stepFire_chan hs
  case time => exact .inl (stepTime_chan hs)
  case streamReady => exact .inl (stepStreamReady_chan hs)
  case streamEnd => exact .inl (stepStreamEnd_chan hs)
  case quiescent => simp only [stepQuiescent] at hs; split at hs <;> simp at hs; subst hs; exact .inl rfl
  case tChanEnd => exact .inl (stepChanEnd_chan hs)
  case tStreamEnd => exact .inl (stepStreamEndTau_chan hs)
  case timerArm => exact stepTimerArm_chan hs
  case timerEnd => exact .inl (stepTimerEnd_chan hs)
  case extPush => exact stepExtPush_chan hs

theorem eq_of_nodup_o : ∀ {l : List OpRec}, (l.map (·.o)).Nodup → ∀ {a b}, a ∈ l → b ∈ l → a.o = b.o → a = b
  | [], _, _, _, ha, _, _ => by simp at ha
  | x :: xs, hn, a, b, ha, hb, h => by
    simp at hn ha hb
    rcases ha with rfl | ha <;> rcases hb with rfl | hb
    · rfl
    · exact absurd h (by intro h; exact hn.1 b hb h.symm)
    · exact absurd h (by intro h; exact hn.1 a ha h)
    · exact eq_of_nodup_o hn.2 ha hb h

theorem findOp_mem {s : AState} {o r} (h : s.findOp o = some r) : r ∈ s.ops ∧ r.o = o := by
  unfold findOp at h
  exact ⟨List.mem_of_find?_eq_some h, by simpa using List.find?_some h⟩

theorem findOp_none {s : AState} {o} (h : s.findOp o = none) : ∀ r ∈ s.ops, r.o ≠ o := by
  unfold findOp at h
  intro r hr
  have := List.find?_eq_none.mp h r hr
  simpa using this

end Hannibal
