import Hannibal.Proofs.C02Step
/-
  C02: a `ret` the model allows is accepted by the monitor (clauses: no double return, (a), (c)).
-/
set_option linter.unusedSimpArgs false
set_option linter.unusedVariables false
namespace Hannibal
open AState

theorem replyOk_of_expect {s : AState} {fin : List Nat} {rec : OpRec} {res : Res}
    (hexp : s.retExpect rec = some res) (hst : stOk fin rec.kind rec.st = true) :
    replyOk fin rec.kind res = true := by
  cases res
  case okReply v =>
    unfold retExpect at hexp
    cases hs : rec.st <;> cases hk : rec.kind <;> simp only [hs, hk] at hexp hst <;>
      (try unfold latchRes at hexp) <;>
      ((repeat' (split at hexp)) <;> simp at hexp) <;>
      (subst hexp; simp_all [stOk, replyOk, OpKind.isCall, OpKind.msg?])
  all_goals (unfold replyOk; rfl)

theorem lateOk_of_expect {s : AState} {fin : List Nat} {g : Bool} {rec : OpRec} {res : Res}
    (hexp : s.retExpect rec = some res) (hlate : lateSt rec.kind rec.st = true)
    (hst : stOk fin rec.kind rec.st = true) (hfired : s.latch = .fired → g = true) :
    lateOk g rec.kind res = true := by
  unfold retExpect at hexp
  cases hs : rec.st <;> simp only [hs] at hexp hlate hst <;> simp [lateSt] at hlate
  case failed e =>
    simp at hexp; subst hexp
    cases hk : rec.kind <;> simp_all [lateOk, stOk, Res.isErr]
  case pending =>
    simp only [hlate] at hexp
    unfold latchRes at hexp
    cases hl : s.latch <;> simp [hl] at hexp <;> subst hexp
    · have := hfired hl; subst this; simp [lateOk, hlate]
    · cases g <;> simp [lateOk, hlate, Res.isErr]
  case joining =>
    simp only [hlate] at hexp
    split at hexp
    · cases hr : s.result <;> simp [hr] at hexp <;> subst hexp <;> simp [lateOk, hlate]
    · simp at hexp
  case joinNone =>
    simp [hlate] at hexp; subst hexp; simp [lateOk, hlate]

theorem latchOk_fired02 {p : Phase} (h : latchOk .fired p = true) : p = .done true := by
  cases p <;> simp [latchOk] at h
  rename_i g; cases g <;> simp_all [latchOk]

/-- no double return, (a) and (c): a `ret` of the model is accepted -/
theorem ret_accept {s : AState} {σ : C02St} {o : Nat} {res : Res} {rec : OpRec}
    (hfind : s.findOp o = some rec) (hexp : s.retExpect rec = some res) (hok : opOk σ rec = true)
    (ht : TermInv s) (hg : gracefulEnd02 s.phase = true → σ.graceful = true) :
    bad02 σ (.ret o res) = false := by
  obtain ⟨_, hro⟩ := findOp_some_mem hfind
  obtain ⟨late, h1, h2, h3, h4⟩ := opOk_parts hok
  rw [hro] at h1 h2
  simp only [bad02, h1, h2, Bool.false_or]
  have hA := replyOk_of_expect hexp h4
  cases late
  · simp [hA]
  · have hB := lateOk_of_expect (g := σ.graceful) hexp (h3 rfl) h4 (by
      intro hl
      have := ht.latch
      rw [hl] at this
      exact hg (by rw [latchOk_fired02 this]; rfl))
    simp [hA, hB]

end Hannibal
