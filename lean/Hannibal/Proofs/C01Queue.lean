import Hannibal.Monitor.Basic
import Hannibal.Proofs.Handles
/-
  List-level core of C01: the waiting user messages `q` (oldest first) against the monitor's
  `handled` / `before` / `completed` tables.  Pure list reasoning, no model, no monitor.
-/
namespace Hannibal

structure QInv (q : List Nat) (rx : Bool) (handled : List Nat) (before : List (Nat × List Nat))
    (completed seen : List Nat) : Prop where
  nodup : q.Nodup
  disj : ∀ m ∈ q, m ∉ handled
  seenq : ∀ m ∈ q, m ∈ seen
  seenh : ∀ m ∈ handled, m ∈ seen
  seenb : ∀ m, m ∉ seen → lookup m before = none
  /-- everything that had been submitted completely before `m2` was submitted is handled or ahead of it -/
  ord : ∀ m2 ∈ q, ∀ m1 ∈ (lookup m2 before).getD [], m1 ∈ handled ∨ q.idxOf m1 < q.idxOf m2
  /-- a completely submitted message is handled, waiting, or the mailbox is gone -/
  live : ∀ m ∈ completed, m ∈ handled ∨ m ∈ q ∨ rx = false

theorem qinv_init : QInv [] true [] [] [] [] := by
  constructor <;> simp [lookup]

theorem qinv_seen {q rx h b c seen} (hi : QInv q rx h b c seen) (m : Nat) : QInv q rx h b c (m :: seen) := by
  obtain ⟨h1, h2, h3, h4, h5, h6, h7⟩ := hi
  refine ⟨h1, h2, fun x hx => List.mem_cons_of_mem _ (h3 x hx), fun x hx => List.mem_cons_of_mem _ (h4 x hx),
    fun x hx => h5 x (fun hm => hx (List.mem_cons_of_mem _ hm)), h6, h7⟩

theorem idxOf_cons_ne' {a x : Nat} {l : List Nat} (h : a ≠ x) : (a :: l).idxOf x = l.idxOf x + 1 := by
  rw [List.idxOf_cons]
  have : (a == x) = false := by simpa using h
  rw [this]; rfl

theorem idxOf_cons_self' {a : Nat} {l : List Nat} : (a :: l).idxOf a = 0 := by
  rw [List.idxOf_cons]; simp

theorem idxOf_append_single_new {q : List Nat} {m : Nat} (hm : m ∉ q) : (q ++ [m]).idxOf m = q.length := by
  rw [List.idxOf_append]; simp [hm, List.idxOf_cons]

theorem idxOf_append_mem {q : List Nat} {x m : Nat} (hx : x ∈ q) : (q ++ [m]).idxOf x = q.idxOf x := by
  rw [List.idxOf_append]; simp [hx]

/-- a timer (or anything the monitor keeps no `before` entry for) submits a fresh message -/
theorem qinv_push_plain {q rx h b c seen} (hi : QInv q rx h b c seen) {m : Nat} (hm : m ∉ seen) :
    QInv (q ++ [m]) rx h b c (m :: seen) := by
  obtain ⟨h1, h2, h3, h4, h5, h6, h7⟩ := hi
  have hmq : m ∉ q := fun hq => hm (h3 m hq)
  refine ⟨?_, ?_, ?_, ?_, ?_, ?_, ?_⟩
  · rw [List.nodup_append]
    refine ⟨h1, by simp, ?_⟩
    intro a ha b' hb; simp at hb; subst hb; intro hab; subst hab; exact hmq ha
  · intro x hx
    rcases List.mem_append.mp hx with hx | hx
    · exact h2 x hx
    · simp at hx; subst hx; exact fun hh => hm (h4 x hh)
  · intro x hx
    rcases List.mem_append.mp hx with hx | hx
    · exact List.mem_cons_of_mem _ (h3 x hx)
    · simp at hx; subst hx; simp
  · exact fun x hx => List.mem_cons_of_mem _ (h4 x hx)
  · exact fun x hx => h5 x (fun hm' => hx (List.mem_cons_of_mem _ hm'))
  · intro m2 hm2 m1 hm1
    rcases List.mem_append.mp hm2 with hm2 | hm2
    · rcases h6 m2 hm2 m1 hm1 with hh | hlt
      · exact .inl hh
      · right
        have hm1q : m1 ∈ q := by
          have : q.idxOf m1 < q.length := Nat.lt_trans hlt (List.idxOf_lt_length_of_mem hm2)
          exact List.idxOf_lt_length_iff.mp this
        rw [idxOf_append_mem hm1q, idxOf_append_mem hm2]; exact hlt
    · simp at hm2; subst hm2
      rw [h5 m2 hm] at hm1; simp at hm1
  · intro x hx
    rcases h7 x hx with hh | hh | hh
    · exact .inl hh
    · exact .inr (.inl (List.mem_append_left _ hh))
    · exact .inr (.inr hh)

theorem lookup_cons_self {α : Type} (k : Nat) (v : α) (l : List (Nat × α)) : lookup k ((k, v) :: l) = some v := by
  simp [lookup]

theorem lookup_cons_other {α : Type} {k k' : Nat} (v : α) (l : List (Nat × α)) (h : k' ≠ k) :
    lookup k ((k', v) :: l) = lookup k l := by
  simp [lookup, h]

/-- a client operation submits the fresh message `m`: the monitor records what was complete and unhandled -/
theorem qinv_push_op {q h b c seen} (hi : QInv q true h b c seen) {m : Nat} (hm : m ∉ seen) :
    QInv (q ++ [m]) true h ((m, c.filter (fun x => !h.contains x)) :: b) c (m :: seen) := by
  have hi' := qinv_push_plain hi hm
  obtain ⟨h1, h2, h3, h4, h5, h6, h7⟩ := hi'
  have hmq : m ∉ q := fun hq => hm (hi.seenq m hq)
  refine ⟨h1, h2, h3, h4, ?_, ?_, h7⟩
  · intro x hx
    have hxm : m ≠ x := fun hxm => hx (by simp [hxm])
    rw [lookup_cons_other _ _ hxm]
    exact h5 x hx
  · intro m2 hm2 m1 hm1
    by_cases hmm : m = m2
    · subst hmm
      rw [lookup_cons_self] at hm1
      simp at hm1
      obtain ⟨hc, hnh⟩ := hm1
      rcases hi.live m1 hc with hh | hh | hh
      · exact absurd hh hnh
      · right
        rw [idxOf_append_mem hh, idxOf_append_single_new hmq]
        exact List.idxOf_lt_length_of_mem hh
      · simp at hh
    · rw [lookup_cons_other _ _ hmm] at hm1
      exact h6 m2 hm2 m1 hm1

/-- a client operation with the fresh message `m` is refused: only the tables grow -/
theorem qinv_begin_refused {q rx h b c seen} (hi : QInv q rx h b c seen) {m : Nat} (hm : m ∉ seen) (v : List Nat) :
    QInv q rx h ((m, v) :: b) c (m :: seen) := by
  obtain ⟨h1, h2, h3, h4, h5, h6, h7⟩ := qinv_seen hi m
  refine ⟨h1, h2, h3, h4, ?_, ?_, h7⟩
  · intro x hx
    have hxm : m ≠ x := fun hxm => hx (by simp [hxm])
    rw [lookup_cons_other _ _ hxm]
    exact h5 x hx
  · intro m2 hm2 m1 hm1
    have hmm : m ≠ m2 := fun hmm => hm (by subst hmm; exact hi.seenq _ hm2)
    rw [lookup_cons_other _ _ hmm] at hm1
    exact h6 m2 hm2 m1 hm1

/-- a tick at the head of the mailbox gets the fresh message id `m` -/
theorem qinv_cons {q rx h b c seen} (hi : QInv q rx h b c seen) {m : Nat} (hm : m ∉ seen) :
    QInv (m :: q) rx h b c (m :: seen) := by
  obtain ⟨h1, h2, h3, h4, h5, h6, h7⟩ := hi
  have hmq : m ∉ q := fun hq => hm (h3 m hq)
  refine ⟨List.nodup_cons.mpr ⟨hmq, h1⟩, ?_, ?_, fun x hx => List.mem_cons_of_mem _ (h4 x hx),
    fun x hx => h5 x (fun hm' => hx (List.mem_cons_of_mem _ hm')), ?_, ?_⟩
  · intro x hx
    rcases List.mem_cons.mp hx with rfl | hx
    · exact fun hh => hm (h4 _ hh)
    · exact h2 x hx
  · intro x hx
    rcases List.mem_cons.mp hx with rfl | hx
    · simp
    · exact List.mem_cons_of_mem _ (h3 x hx)
  · intro m2 hm2 m1 hm1
    rcases List.mem_cons.mp hm2 with rfl | hm2
    · rw [h5 _ hm] at hm1; simp at hm1
    · have hne : m ≠ m2 := fun he => hmq (he ▸ hm2)
      rcases h6 m2 hm2 m1 hm1 with hh | hlt
      · exact .inl hh
      · right
        rw [idxOf_cons_ne' hne]
        by_cases h1m : m = m1
        · subst h1m; rw [idxOf_cons_self']; omega
        · rw [idxOf_cons_ne' h1m]; omega
  · intro x hx
    rcases h7 x hx with hh | hh | hh
    · exact .inl hh
    · exact .inr (.inl (List.mem_cons_of_mem _ hh))
    · exact .inr (.inr hh)

/-- the loop takes the head message `m`: it was not handled before (2) and everything recorded as
    complete before its submission has been handled (3) -/
theorem qinv_head {q rx h b c seen} {m : Nat} (hi : QInv (m :: q) rx h b c seen) :
    m ∉ h ∧ ∀ m1 ∈ (lookup m b).getD [], m1 ∈ h := by
  refine ⟨hi.disj m (by simp), ?_⟩
  intro m1 hm1
  rcases hi.ord m (by simp) m1 hm1 with hh | hlt
  · exact hh
  · rw [idxOf_cons_self'] at hlt; omega

theorem qinv_pop {q rx h b c seen} {m : Nat} (hi : QInv (m :: q) rx h b c seen) :
    QInv q rx (m :: h) b c seen := by
  obtain ⟨h1, h2, h3, h4, h5, h6, h7⟩ := hi
  obtain ⟨hmq, hnd⟩ := List.nodup_cons.mp h1
  refine ⟨hnd, ?_, fun x hx => h3 x (List.mem_cons_of_mem _ hx), ?_, h5, ?_, ?_⟩
  · intro x hx hh
    rcases List.mem_cons.mp hh with rfl | hh
    · exact hmq hx
    · exact h2 x (List.mem_cons_of_mem _ hx) hh
  · intro x hx
    rcases List.mem_cons.mp hx with rfl | hx
    · exact h3 _ (by simp)
    · exact h4 x hx
  · intro m2 hm2 m1 hm1
    have hne : m ≠ m2 := fun he => hmq (he ▸ hm2)
    rcases h6 m2 (List.mem_cons_of_mem _ hm2) m1 hm1 with hh | hlt
    · exact .inl (List.mem_cons_of_mem _ hh)
    · by_cases h1m : m = m1
      · exact .inl (by simp [h1m])
      · right
        rw [idxOf_cons_ne' hne, idxOf_cons_ne' h1m] at hlt
        omega
  · intro x hx
    rcases h7 x hx with hh | hh | hh
    · exact .inl (List.mem_cons_of_mem _ hh)
    · rcases List.mem_cons.mp hh with rfl | hh
      · exact .inl (by simp)
      · exact .inr (.inl hh)
    · exact .inr (.inr hh)

theorem qinv_wipe {q rx h b c seen} (hi : QInv q rx h b c seen) : QInv [] false h b c seen := by
  obtain ⟨h1, h2, h3, h4, h5, h6, h7⟩ := hi
  exact ⟨by simp, by simp, by simp, h4, h5, by simp, fun x _ => .inr (.inr rfl)⟩

theorem qinv_complete {q rx h b c seen} (hi : QInv q rx h b c seen) {m : Nat}
    (hm : m ∈ h ∨ m ∈ q ∨ rx = false) : QInv q rx h b (m :: c) seen := by
  obtain ⟨h1, h2, h3, h4, h5, h6, h7⟩ := hi
  refine ⟨h1, h2, h3, h4, h5, h6, ?_⟩
  intro x hx
  rcases List.mem_cons.mp hx with rfl | hx
  · exact hm
  · exact h7 x hx

end Hannibal
