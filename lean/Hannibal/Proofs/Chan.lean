import Hannibal.Model.Chan
/-
  Chan-level invariant behind C12: the parked-token list is exactly the token
  list of the queue entries beyond the buffer.  Holds for every `cap`
  (unbounded, bounded n for all n — 0 included), every interleaving of waiting
  and forcing submissions and dequeues.
-/
namespace Hannibal
namespace Chan

def WF (c : Chan) : Prop :=
  match c.cap with
  | none => c.parked = []
  | some n => c.parked = (c.queue.drop n).map (·.tok)

@[simp] theorem enq_queue (c : Chan) (e : Entry) : (c.enq e).queue = c.queue ++ [e] := by
  unfold enq; split
  · rfl
  · split <;> rfl

@[simp] theorem enq_cap (c : Chan) (e : Entry) : (c.enq e).cap = c.cap := by
  unfold enq; split
  · rfl
  · split <;> rfl

@[simp] theorem enq_rx (c : Chan) (e : Entry) : (c.enq e).rx = c.rx := by
  unfold enq; split
  · rfl
  · split <;> rfl

theorem wf_init (cap : Option Nat) : (Chan.init cap).WF := by
  unfold WF init
  cases cap <;> simp

theorem wf_enq (c : Chan) (e : Entry) (h : c.WF) : (c.enq e).WF := by
  unfold WF enq at *
  cases hc : c.cap with
  | none => simp_all
  | some n =>
    simp only [hc] at h ⊢
    by_cases hl : c.queue.length + 1 > n
    · have hle : n ≤ c.queue.length := by omega
      simp [hl, h, List.drop_append_of_le_length hle]
    · have h1 : (c.queue ++ [e]).drop n = [] := List.drop_eq_nil_of_le (by simp; omega)
      have h2 : c.queue.drop n = [] := List.drop_eq_nil_of_le (by omega)
      simp [hl, h, h1, h2]

theorem wf_deq (c : Chan) (h : c.WF) : c.deq.WF := by
  unfold WF deq at *
  cases hc : c.cap with
  | none => simp_all
  | some n =>
    simp only [hc] at h ⊢
    rw [h]
    cases hq : c.queue with
    | nil => simp
    | cons x xs =>
      cases n with
      | zero => simp
      | succ k => simp [List.drop_succ_cons, ← List.map_tail, List.tail_drop]

theorem wf_dropRx (c : Chan) : c.dropRx.WF := by
  unfold WF dropRx
  cases c.cap <;> simp

/-- Replacing the payload of the head entry (a tick gets its message id) keeps tokens. -/
theorem wf_rename (c : Chan) (pl pl' : Payload) (tok : Tok) (rest : List Entry)
    (hq : c.queue = { pl, tok } :: rest) (h : c.WF) :
    ({ c with queue := { pl := pl', tok } :: rest } : Chan).WF := by
  unfold WF at *
  cases hc : c.cap with
  | none => simp_all
  | some n =>
    simp only [hc] at h ⊢
    rw [h, hq]
    cases n <;> simp

/-- Entries whose token is not parked sit within the first `n` positions. -/
theorem mem_take_of_not_parked (c : Chan) (n : Nat) (hc : c.cap = some n) (h : c.WF)
    (e : Entry) (he : e ∈ c.queue) (hp : c.isParked e.tok = false) : e ∈ c.queue.take n := by
  unfold WF at h
  simp only [hc] at h
  have hsplit : e ∈ c.queue.take n ++ c.queue.drop n := by simpa using he
  rcases List.mem_append.mp hsplit with h1 | h2
  · exact h1
  · exfalso
    have : e.tok ∈ c.parked := by rw [h]; exact List.mem_map_of_mem h2
    simp [isParked] at hp
    exact hp this

end Chan
end Hannibal
