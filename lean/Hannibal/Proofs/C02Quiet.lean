import Hannibal.Proofs.C02Wait2
import Hannibal.Proofs.C02Ret
/-
  C02 (d): at quiescence every remaining operation awaits or joins a live actor.
-/
set_option linter.unusedSimpArgs false
set_option linter.unusedVariables false
namespace Hannibal
open AState

theorem parked_nil_of_wf {c : Chan} (h : c.WF) (hq : c.queue = []) : c.parked = [] := by
  unfold Chan.WF at h
  cases hc : c.cap <;> simp [hc, hq] at h <;> exact h

theorem not_done_of_latch_pending {s : AState} (ht : TermInv s) (hl : s.latch = .pending) : s.isDone = false := by
  have := ht.latch
  rw [hl] at this
  unfold isDone
  cases hp : s.phase <;> simp_all [latchOk]

theorem quiet_op {s : AState} {fin : List Nat} (hqe : s.chan.queue = []) (hpk : s.chan.parked = [])
    (hph : s.phase = .idle ∨ s.isDone = true) (ht : TermInv s) (hwait : WaitInv s)
    {r : OpRec} (hr : r ∈ s.ops) (hst : stOk fin r.kind r.st = true) (hnone : s.retExpect r = none) :
    s.isDone = false ∧ (r.kind = .await ∨ r.kind = .join) := by
  have hcur : s.curSlot = [] := by
    unfold curSlot
    rcases hph with h | h
    · simp [h]
    · unfold isDone at h; split at h <;> simp_all
  have hslots : s.slotsLive = [] := by simp [slotsLive, hcur, hqe]
  have hstop : s.isDone = false → stopLive s = false := by
    intro hd
    rcases hph with h | h
    · simp [stopLive, h, pastLoop, hqe]
    · simp [hd] at h
  have hslot := hwait.slot r hr
  have hstp := hwait.stop r hr
  unfold retExpect at hnone
  cases hs : r.st <;> simp only [hs] at hnone hst
  case failed e => simp at hnone
  case pending =>
    cases hk : r.kind <;> simp only [hk] at hnone hst
    case send m => simp [Chan.isParked, hpk] at hnone
    case trySend m => simp [Chan.isParked, hpk] at hnone
    case tryForce m => simp [Chan.isParked, hpk] at hnone
    case await =>
      unfold latchRes at hnone
      cases hl : s.latch <;> simp [hl] at hnone
      exact ⟨not_done_of_latch_pending ht hl, .inl rfl⟩
    case halt =>
      unfold latchRes at hnone
      cases hl : s.latch <;> simp [hl] at hnone
      have hd := not_done_of_latch_pending ht hl
      have := hstp (by simp [needsStop, hs, hk])
      simp [hstop hd] at this
    case tryHalt =>
      unfold latchRes at hnone
      cases hl : s.latch <;> simp [hl] at hnone
      have hd := not_done_of_latch_pending ht hl
      have := hstp (by simp [needsStop, hs, hk])
      simp [hstop hd] at this
    case join => simp [stOk] at hst
    case consume => simp [stOk] at hst
    all_goals
      (have := hslot (by simp [needsSlot, hs, hk, OpKind.isCall])
       simp [hslots] at this)
  case answered v =>
    cases hk : r.kind <;> simp [hk, stOk, OpKind.isCall] at hnone hst
  case pinged =>
    simp [stOk] at hst; simp [hst] at hnone
  case cancelled =>
    cases hk : r.kind <;> simp [hk, stOk, OpKind.isCall] at hnone hst
  case joining =>
    cases hd : s.isDone
    · refine ⟨rfl, ?_⟩
      cases hk : r.kind <;> simp [hk, stOk] at hst
      · exact .inr rfl
      · have := hstp (by simp [needsStop, hs, hk])
        simp [hstop hd] at this
    · simp only [hd, if_true] at hnone
      cases hk : r.kind <;> simp [hk, stOk] at hst <;> cases hres : s.result <;> simp [hk, hres] at hnone
  case joinNone =>
    cases hk : r.kind <;> simp [hk, stOk] at hnone hst

theorem quiet_facts {w : Wiring} {s : AState} (hq : s.quiet w = true) (hdc : DoneChan s) :
    s.chan.queue = [] ∧ (s.phase = .idle ∨ s.isDone = true) ∧ ∀ r ∈ s.ops, s.retExpect r = none := by
  unfold quiet at hq
  simp only [Bool.and_eq_true] at hq
  obtain ⟨⟨hph, _⟩, hops⟩ := hq
  have hops' : ∀ r ∈ s.ops, s.retExpect r = none := by
    intro r hr
    have := List.all_eq_true.mp hops r hr
    simpa using this
  cases hp : s.phase <;> simp [hp] at hph
  case idle =>
    exact ⟨by simpa using hph.1.1, .inl rfl, hops'⟩
  case done g =>
    have hd : s.isDone = true := by simp [isDone, hp]
    exact ⟨(hdc hd).2, .inr hd, hops'⟩

/-- (d): a `quiescent` label of the model is accepted -/
theorem quiescent_accept {w : Wiring} {s s' : AState} {σ : C02St} {pend : List Nat}
    (hs : s.stepQuiescent w pend = some s') (hops : ∀ r ∈ s.ops, opOk σ r = true) (hwait : WaitInv s)
    (hwf : s.chan.WF) (hdc : DoneChan s) (ht : TermInv s) (hterm : σ.terminated = s.isDone) :
    bad02 σ (.quiescent pend) = false := by
  unfold stepQuiescent at hs
  split at hs
  · rename_i hc
    simp only [Bool.and_eq_true] at hc
    obtain ⟨⟨hq, hpend⟩, _⟩ := hc
    obtain ⟨hqe, hph, hnone⟩ := quiet_facts hq hdc
    have hpk := parked_nil_of_wf hwf hqe
    simp only [bad02, Bool.not_eq_false', List.all_eq_true]
    intro o ho
    have hf := List.all_eq_true.mp hpend o ho
    cases hfo : s.findOp o with
    | none => simp [hfo] at hf
    | some r =>
      obtain ⟨hr, hro⟩ := findOp_some_mem hfo
      obtain ⟨late, h1, _, _, h4⟩ := opOk_parts (hops r hr)
      rw [hro] at h1
      simp only [h1]
      obtain ⟨hd, hk⟩ := quiet_op hqe hpk hph ht hwait hr h4 (hnone r hr)
      rw [hterm, hd]
      rcases hk with hk | hk <;> simp [pendOk, hk]
  · simp at hs

theorem slotCb_of_phaseOk {σ : C02St} {p : Phase} (h : phaseOk σ p = true) : slotCb p = true := by
  unfold phaseOk at h
  unfold slotCb
  split
  · rfl
  · rename_i cb o dl hne
    cases cb <;> simp_all
  · rfl

end Hannibal
