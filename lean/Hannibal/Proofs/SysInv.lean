import Hannibal.Proofs.SysBasic
import Hannibal.Proofs.Latch
/-
  The system invariant: every registered child handle is a live `Sender` in the child's handle table,
  its owner (the parent) has not terminated, and no handle is owned twice.
-/
namespace Hannibal
open AState

structure SInv (S : Sys) : Prop where
  held : ∀ k ∈ S.kids, ∃ sc, S.get k.c = some sc ∧ sc.handleKind k.h = some .sender ∧ NoConsumer sc k.h
  parent : ∀ k ∈ S.kids, ∃ sp, S.get k.p = some sp ∧ sp.isDone = false
  nodup : (S.kids.map (fun k => (k.c, k.h))).Nodup

theorem endsTask_eq (l : Label) : l.endsTask = l.terminates := by cases l <;> rfl

theorem stepDrop_spec {s : AState} {h : Nat} {s' : AState} (hs : s.stepDrop h = some s') : s' = s.removeHandle h := by
  unfold stepDrop at hs; split at hs <;> simp at hs; exact hs.symm

theorem dropOne_handleKind_ne (s : AState) {h h' : Nat} (hne : h' ≠ h) :
    ((s.stepDrop h').getD s).handleKind h = s.handleKind h := by
  cases hd : s.stepDrop h' with
  | none => rfl
  | some s' => rw [stepDrop_spec hd]; simpa using handleKind_remove_ne s hne

theorem dropOne_ops (s : AState) (h' : Nat) : ((s.stepDrop h').getD s).ops = s.ops := by
  cases hd : s.stepDrop h' with
  | none => rfl
  | some s' => rw [stepDrop_spec hd]; rfl

theorem dropOne_phase (s : AState) (h' : Nat) : ((s.stepDrop h').getD s).phase = s.phase := by
  cases hd : s.stepDrop h' with
  | none => rfl
  | some s' => rw [stepDrop_spec hd]; rfl

theorem dropAll_handleKind (hs : List Nat) (s : AState) {h : Nat} (hn : h ∉ hs) :
    (Sys.dropAll hs s).handleKind h = s.handleKind h := by
  induction hs generalizing s with
  | nil => rfl
  | cons x xs ih =>
    simp only [Sys.dropAll, List.foldl_cons]
    simp only [List.mem_cons, not_or] at hn
    have := ih ((s.stepDrop x).getD s) hn.2
    unfold Sys.dropAll at this
    rw [this]
    exact dropOne_handleKind_ne s (fun e => hn.1 e.symm)

theorem dropAll_ops (hs : List Nat) (s : AState) : (Sys.dropAll hs s).ops = s.ops := by
  induction hs generalizing s with
  | nil => rfl
  | cons x xs ih =>
    simp only [Sys.dropAll, List.foldl_cons]
    have := ih ((s.stepDrop x).getD s)
    unfold Sys.dropAll at this
    rw [this]; exact dropOne_ops s x

theorem dropAll_phase (hs : List Nat) (s : AState) : (Sys.dropAll hs s).phase = s.phase := by
  induction hs generalizing s with
  | nil => rfl
  | cons x xs ih =>
    simp only [Sys.dropAll, List.foldl_cons]
    have := ih ((s.stepDrop x).getD s)
    unfold Sys.dropAll at this
    rw [this]; exact dropOne_phase s x

theorem pushOne_handles (s : AState) (b : Nat) : ((s.stepExtPush b).getD s).handles = s.handles := by
  unfold stepExtPush; split <;> rfl
theorem pushOne_ops (s : AState) (b : Nat) : ((s.stepExtPush b).getD s).ops = s.ops := by
  unfold stepExtPush; split <;> rfl
theorem pushOne_phase (s : AState) (b : Nat) : ((s.stepExtPush b).getD s).phase = s.phase := by
  unfold stepExtPush; split <;> rfl

theorem pushAll_handles (b n : Nat) (s : AState) : (Sys.pushAll b n s).handles = s.handles := by
  induction n generalizing s with
  | zero => rfl
  | succ n ih => simp only [Sys.pushAll]; rw [ih, pushOne_handles]
theorem pushAll_ops (b n : Nat) (s : AState) : (Sys.pushAll b n s).ops = s.ops := by
  induction n generalizing s with
  | zero => rfl
  | succ n ih => simp only [Sys.pushAll]; rw [ih, pushOne_ops]
theorem pushAll_phase (b n : Nat) (s : AState) : (Sys.pushAll b n s).phase = s.phase := by
  induction n generalizing s with
  | zero => rfl
  | succ n ih => simp only [Sys.pushAll]; rw [ih, pushOne_phase]

theorem owned_false_iff {S : Sys} {c h : Nat} (ho : S.owned c h = false) : ∀ k ∈ S.kids, ¬ (k.c = c ∧ k.h = h) := by
  unfold Sys.owned at ho
  intro k hk ⟨h1, h2⟩
  have := List.any_eq_false.mp ho k hk
  simp [h1, h2] at this

theorem clientOk_not_drop {S : Sys} {a : Nat} {l : Label} (hc : S.clientOk a l = true) :
    ∀ k ∈ S.kids, k.c = a → l ≠ .drop k.h := by
  intro k hk hka hl
  subst hl
  simp only [Sys.clientOk, Bool.not_eq_true', Sys.owned] at hc
  have := List.any_eq_false.mp hc k hk
  simp [hka] at this

theorem get_release (S : Sys) (p a : Nat) :
    (S.release p).get a = (S.get a).map (Sys.dropAll (S.heldBy p a)) := by
  have : (S.release p).get a = (S.applyTo (fun c sc => Sys.dropAll (S.heldBy p c) sc)).get a := rfl
  rw [this, Sys.get_applyTo]

theorem eq_of_nodup_map {α β : Type} (f : α → β) : ∀ {l : List α}, (l.map f).Nodup → ∀ {a b : α},
    a ∈ l → b ∈ l → f a = f b → a = b
  | [], _, _, _, ha, _, _ => by simp at ha
  | x :: xs, hn, a, b, ha, hb, h => by
    simp only [List.map_cons, List.nodup_cons] at hn
    rcases List.mem_cons.mp ha with rfl | ha' <;> rcases List.mem_cons.mp hb with rfl | hb'
    · rfl
    · exact absurd (List.mem_map.mpr ⟨b, hb', h.symm⟩) hn.1
    · exact absurd (List.mem_map.mpr ⟨a, ha', h⟩) hn.1
    · exact eq_of_nodup_map f hn.2 ha' hb' h

theorem sinv_init : SInv Sys.init := ⟨by simp [Sys.init], by simp [Sys.init], by simp [Sys.init]⟩

theorem sinv_step {w : Wiring} {S S' : Sys} {l : SLabel} (hi : SInv S) (hs : sstep w S l = some S') : SInv S' := by
  cases l with
  | spawn a cfg h0 k0 =>
    simp only [sstep] at hs
    split at hs
    · simp at hs
    · rename_i hnone
      simp at hs; subst hs
      have hn : S.get a = none := by simpa using hnone
      refine ⟨?_, ?_, hi.nodup⟩
      · intro k hk
        obtain ⟨sc, hg, h1, h2⟩ := hi.held k hk
        refine ⟨sc, ?_, h1, h2⟩
        rw [Sys.get_append_new S a k.c _ hn]
        have : k.c ≠ a := by intro e; rw [e, hn] at hg; simp at hg
        simp [this, hg]
      · intro k hk
        obtain ⟨sp, hg, h1⟩ := hi.parent k hk
        refine ⟨sp, ?_, h1⟩
        rw [Sys.get_append_new S a k.p _ hn]
        have : k.p ≠ a := by intro e; rw [e, hn] at hg; simp at hg
        simp [this, hg]
  | act a l =>
    simp only [sstep] at hs
    cases hg : S.get a with
    | none => simp [hg] at hs
    | some s =>
      simp only [hg] at hs
      split at hs
      · simp at hs
      · rename_i hcl
        have hcl' : S.clientOk a l = true := by simpa using hcl
        cases hst : step w s l with
        | none => simp [hst] at hs
        | some s' =>
          simp only [hst] at hs
          simp at hs
          -- after the actor's own step every registered handle is still there
          have hheld : ∀ k ∈ S.kids, ∃ sc, (S.set a s').get k.c = some sc ∧ sc.handleKind k.h = some .sender ∧
              NoConsumer sc k.h := by
            intro k hk
            obtain ⟨sc, hgc, h1, h2⟩ := hi.held k hk
            by_cases hka : k.c = a
            · rw [hka, hg] at hgc; simp at hgc; subst hgc
              obtain ⟨h1', h2'⟩ := step_keeps_sender hst h1 h2 (clientOk_not_drop hcl' k hk hka)
              exact ⟨s', by rw [Sys.get_set, hka]; simp [hg], h1', h2'⟩
            · exact ⟨sc, by rw [Sys.get_set]; simp [hka, hgc], h1, h2⟩
          by_cases hterm : l.endsTask = true
          · simp only [hterm, if_true] at hs; subst hs
            -- release: the kids of `a` go away, their handles are dropped in the children
            refine ⟨?_, ?_, ?_⟩
            · intro k hk
              simp only [Sys.release] at hk
              obtain ⟨hk1, hk2⟩ := List.mem_filter.mp hk
              have hk1' : k ∈ S.kids := hk1
              obtain ⟨sc, hgc, h1, h2⟩ := hheld k hk1'
              refine ⟨Sys.dropAll ((S.set a s').heldBy a k.c) sc, ?_, ?_, ?_⟩
              · rw [get_release, hgc]; rfl
              · rw [dropAll_handleKind]
                · exact h1
                · -- the handles dropped belong to other registrations
                  intro hm
                  simp only [Sys.heldBy, List.mem_map, List.mem_filter] at hm
                  obtain ⟨k', ⟨hk', hc'⟩, hh'⟩ := hm
                  simp at hc'
                  have hk'' : k' ∈ S.kids := hk'
                  have heq : k' = k :=
                    eq_of_nodup_map (fun k => (k.c, k.h)) hi.nodup hk'' hk1' (by simp [hc'.2, hh'])
                  subst heq
                  simp [hc'.1] at hk2
              · intro r hr
                rw [dropAll_ops] at hr
                exact h2 r hr
            · intro k hk
              simp only [Sys.release] at hk
              obtain ⟨hk1, hk2⟩ := List.mem_filter.mp hk
              have hk1' : k ∈ S.kids := hk1
              obtain ⟨sp, hgp, h1⟩ := hi.parent k hk1'
              have hne : k.p ≠ a := by simpa using hk2
              refine ⟨Sys.dropAll ((S.set a s').heldBy a k.p) sp, ?_, ?_⟩
              · rw [get_release, Sys.get_set]; simp [hne, hgp]
              · unfold isDone; rw [dropAll_phase]; exact h1
            · simp only [Sys.release]
              exact hi.nodup.sublist (List.Sublist.map _ List.filter_sublist)
          · simp only [hterm] at hs; simp at hs; subst hs
            refine ⟨hheld, ?_, hi.nodup⟩
            intro k hk
            obtain ⟨sp, hgp, h1⟩ := hi.parent k hk
            by_cases hka : k.p = a
            · rw [hka, hg] at hgp; simp at hgp; subst hgp
              have : l.terminates = false := by rw [← endsTask_eq]; simpa using hterm
              exact ⟨s', by rw [Sys.get_set, hka]; simp [hg], by rw [(step_isDone w hst).2 this]; exact h1⟩
            · exact ⟨sp, by rw [Sys.get_set]; simp [hka, hgp], h1⟩
  | addChild p ty c h =>
    simp only [sstep] at hs
    cases hgp : S.get p with
    | none => simp [hgp] at hs
    | some sp =>
      cases hgc : S.get c with
      | none => simp [hgp, hgc] at hs
      | some sc =>
        simp only [hgp, hgc] at hs
        split at hs
        · rename_i hc
          simp at hs; subst hs
          simp at hc
          obtain ⟨⟨⟨hcb, hkind⟩, hown⟩, hcons⟩ := hc
          refine ⟨?_, ?_, ?_⟩
          · intro k hk
            simp at hk
            rcases hk with hk | rfl
            · exact hi.held k hk
            · exact ⟨sc, hgc, hkind, fun r hr hrh => by
                cases hcc : consumesHandle r.kind
                · rfl
                · exact absurd hcc (by simpa using hcons r hr hrh)⟩
          · intro k hk
            simp at hk
            rcases hk with hk | rfl
            · exact hi.parent k hk
            · exact ⟨sp, hgp, inCallback_not_done hcb⟩
          · simp only [List.map_append, List.map_cons, List.map_nil]
            refine List.nodup_append.mpr ⟨hi.nodup, by simp, ?_⟩
            intro x hx y hy
            simp at hy; subst hy
            obtain ⟨k, hk, rfl⟩ := List.mem_map.mp hx
            intro heq
            have := owned_false_iff hown k hk
            simp at heq
            exact this ⟨heq.1, heq.2⟩
        · simp at hs
  | bcast p ty b =>
    simp only [sstep] at hs
    cases hgp : S.get p with
    | none => simp [hgp] at hs
    | some sp =>
      simp only [hgp] at hs
      split at hs
      · simp at hs; subst hs
        refine ⟨?_, ?_, hi.nodup⟩
        · intro k hk
          obtain ⟨sc, hgc, h1, h2⟩ := hi.held k hk
          refine ⟨_, by simp only [Sys.broadcast]; rw [Sys.get_applyTo, hgc]; rfl, ?_, ?_⟩
          · unfold handleKind; rw [pushAll_handles]; exact h1
          · intro r hr; rw [pushAll_ops] at hr; exact h2 r hr
        · intro k hk
          obtain ⟨sp', hgp', h1⟩ := hi.parent k hk
          refine ⟨_, by simp only [Sys.broadcast]; rw [Sys.get_applyTo, hgp']; rfl, ?_⟩
          unfold isDone; rw [pushAll_phase]; exact h1
      · simp at hs

theorem sinv_run {w : Wiring} : ∀ (ls : List SLabel) (S S' : Sys), SInv S → srun w S ls = some S' → SInv S'
  | [], S, S', hi, hr => by simp [srun] at hr; subst hr; exact hi
  | l :: ls, S, S', hi, hr => by
    simp only [srun] at hr
    cases hs : sstep w S l with
    | none => simp [hs] at hr
    | some S1 =>
      simp only [hs] at hr
      exact sinv_run ls S1 S' (sinv_step hi hs) hr

end Hannibal
