import Hannibal.Model.Basic
/-
  The process-global service registry of `src/actor/service.rs`: one `RwLock<HashMap<TypeId, Addr>>`.
  Every operation takes the lock for its whole check-then-act, so it takes effect in one step (`ract`,
  or `rspawn` when `from_registry` / `setup` has to spawn a default instance) that lies between its
  `rbegin` and its `rret`.  `from_registry_and_spawn` keeps the write lock while it pings the freshly
  spawned instance (debug builds), i.e. until it returns.
  How the registry decides whether an entry is alive, and what `already_running` reports, is read from
  the source (`Wiring.livenessQuery`, `Wiring.alreadyRunningPolarity`).
-/
namespace Hannibal

inductive ROp where
  | fromRegistry (k : Nat)
  | setup (k : Nat)
  | register (k i : Nat)
  | replace (k i : Nat)
  | unregister (k : Nat)
  | alreadyRunning (k : Nat)
  | tryFrom (k : Nat)
  deriving DecidableEq, Repr, Inhabited

inductive RRes where
  | inst (i : Nat)                  -- from_registry
  | unit                            -- setup
  | registered (old : Option Nat)   -- register: Ok((self, old))
  | stillRunning                    -- register: Err(ServiceStillRunning)
  | prev (old : Option Nat)         -- replace / unregister / try_from_registry
  | running (b : Option Bool)       -- already_running
  deriving DecidableEq, Repr, Inhabited

inductive RLabel where
  | rbegin (o : Nat) (op : ROp)
  | ract (o : Nat)                  -- internal: the operation takes effect
  | rspawn (o i : Nat)              -- `from_registry` / `setup` of `o` spawned the default instance `i`
  | rret (o : Nat) (r : RRes)
  | rsync (op : ROp) (r : RRes)     -- `try_from_registry` (no await: begin, effect and return in one step)
  | term (i : Nat)                  -- the task of instance `i` ended
  deriving DecidableEq, Repr, Inhabited

def RLabel.isTau : RLabel → Bool
  | .ract _ => true
  | _ => false

/-- association list update -/
def rset (l : List (Nat × Nat)) (k v : Nat) : List (Nat × Nat) := (k, v) :: l.filter (fun p => p.1 != k)
def rdel (l : List (Nat × Nat)) (k : Nat) : List (Nat × Nat) := l.filter (fun p => p.1 != k)
def rget (l : List (Nat × Nat)) (k : Nat) : Option Nat := (l.find? (fun p => p.1 == k)).map (·.2)

structure RegSt where
  reg : List (Nat × Nat)            -- service type ↦ registered instance
  dead : List Nat                   -- instances whose task has ended
  pend : List (Nat × ROp)           -- begun, not yet taken effect
  acted : List (Nat × RRes)         -- taken effect, result not yet returned
  lock : Option Nat                 -- the operation that keeps the write lock until it returns
  deriving DecidableEq, Repr, Inhabited

def RegSt.init : RegSt := { reg := [], dead := [], pend := [], acted := [], lock := none }

namespace RegSt

/-- `Addr::stopped()` as the registry sees it -/
def stoppedQ (w : Wiring) (s : RegSt) (i : Nat) : Bool :=
  match w.livenessQuery with
  | .truthful => s.dead.contains i
  | _ => false     -- `peek` only: an instance nobody awaited is never seen as stopped

def runningQ (w : Wiring) (s : RegSt) (i : Nat) : Bool := !s.stoppedQ w i

def findPend (s : RegSt) (o : Nat) : Option ROp := (s.pend.find? (fun p => p.1 == o)).map (·.2)
def findActed (s : RegSt) (o : Nat) : Option RRes := (s.acted.find? (fun p => p.1 == o)).map (·.2)

def finish (s : RegSt) (o : Nat) (reg : List (Nat × Nat)) (r : RRes) : RegSt :=
  { s with reg := reg, pend := s.pend.filter (fun p => p.1 != o), acted := (o, r) :: s.acted }

/-- the registered instance is handed out only if the registry sees it running -/
def lookupRunning (w : Wiring) (s : RegSt) (k : Nat) : Option Nat :=
  (rget s.reg k).filter (fun i => s.runningQ w i)

/-- what an operation does when it takes effect without spawning -/
def effect (w : Wiring) (s : RegSt) (o : Nat) : ROp → Option RegSt
  | .fromRegistry k => (s.lookupRunning w k).map (fun i => s.finish o s.reg (.inst i))
  | .setup k => (s.lookupRunning w k).map (fun _ => s.finish o s.reg .unit)
  | .register k i =>
    (match rget s.reg k with
     | some j =>
       if s.stoppedQ w j then some (s.finish o (rset s.reg k i) (.registered (some j)))
       else some (s.finish o s.reg .stillRunning)
     | none => some (s.finish o (rset s.reg k i) (.registered none)))
  | .replace k i => some (s.finish o (rset s.reg k i) (.prev (rget s.reg k)))
  | .unregister k => some (s.finish o (rdel s.reg k) (.prev (rget s.reg k)))
  | .alreadyRunning k =>
    some (s.finish o s.reg (.running ((rget s.reg k).map (fun j =>
      if w.alreadyRunningPolarity then s.runningQ w j else s.stoppedQ w j))))
  | .tryFrom _ => none

end RegSt

open RegSt in
def rstep (w : Wiring) (s : RegSt) : RLabel → Option RegSt
  | .rbegin o op =>
    if (s.findPend o).isSome || (s.findActed o).isSome then none
    else (match op with
      | .tryFrom _ => none
      | _ => some { s with pend := s.pend ++ [(o, op)] })
  | .ract o =>
    if s.lock.isSome then none else
    (match s.findPend o with
     | some op => s.effect w o op
     | none => none)
  | .rspawn o i =>
    if s.lock.isSome then none else
    (match s.findPend o with
     | some (.fromRegistry k) =>
       if (s.lookupRunning w k).isNone then some { (s.finish o (rset s.reg k i) (.inst i)) with lock := some o } else none
     | some (.setup k) =>
       if (s.lookupRunning w k).isNone then some { (s.finish o (rset s.reg k i) .unit) with lock := some o } else none
     | _ => none)
  | .rret o r =>
    if s.findActed o = some r then
      some { s with acted := s.acted.filter (fun p => p.1 != o), lock := (if s.lock = some o then none else s.lock) }
    else none
  | .rsync (.tryFrom k) r =>
    -- `try_read` fails while a writer holds the lock
    if r = .prev (if s.lock.isSome then none else s.lookupRunning w k) then some s else none
  | .rsync _ _ => none
  | .term i => some { s with dead := i :: s.dead }

def rrun (w : Wiring) (s : RegSt) : List RLabel → Option RegSt
  | [] => some s
  | l :: ls => match rstep w s l with
    | some s' => rrun w s' ls
    | none => none

end Hannibal
