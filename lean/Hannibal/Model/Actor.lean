import Hannibal.Model.Chan
/-
  One actor: mailbox, event loop (plain and stream-attached), lifecycle,
  handles and reference counts, termination latch, join slot, timers,
  handler timeout, restart.  A deterministic labelled transition system:
  `step w s l = some s'` — labels are the API-visible events of the trace
  contract plus internal (τ) moves of hannibal.
-/
namespace Hannibal

structure Cfg where
  cap : Option Nat
  strat : Strategy
  timeout : Option Nat
  failOnTimeout : Bool
  stream : Bool
  deriving DecidableEq, Repr, Inhabited

inductive Phase where
  | unstarted
  | starting
  | idle
  | handling (cb : Cb) (slot : Option Nat) (deadline : Option Nat)
  | rstBegin                       -- Restart dequeued, before `stopped` of the old incarnation
  | rstStopping                    -- inside `stopped` during refresh
  | rstStopped (fresh : Bool)      -- between `stopped` and `started` of refresh
  | leaving                        -- loop left
  | finishing                      -- inside `finished` (stream-attached)
  | finishedDone
  | stopping                       -- inside the final `stopped`
  | exiting (graceful : Bool)      -- the loop is returning; its task has not finished yet
  | done (graceful : Bool)
  deriving DecidableEq, Repr, Inhabited

inductive Latch where
  | pending | fired | dropped
  deriving DecidableEq, Repr, Inhabited

inductive OpSt where
  | pending
  | answered (r : Reply)
  | pinged
  | cancelled
  | failed (e : ErrKind)
  | joining
  | joinNone
  deriving DecidableEq, Repr, Inhabited

structure OpRec where
  o : Nat
  h : Nat
  kind : OpKind
  st : OpSt
  deriving DecidableEq, Repr, Inhabited

inductive TimerSt where
  | spawned
  | sleeping (due : Nat)
  | sending
  | dead          -- aborted or finished; its task has not been seen to end yet
  | deadHolding   -- aborted while its send was in flight: the task still owns a strong sender until it is dropped
  | ended         -- the task ended
  deriving DecidableEq, Repr, Inhabited

structure Timer where
  id : Nat
  kind : TimerKind
  d : Nat
  st : TimerSt
  deriving DecidableEq, Repr, Inhabited

structure AState where
  cfg : Cfg
  chan : Chan
  phase : Phase
  clock : Nat
  handles : List (Nat × HKind)
  ops : List OpRec
  latch : Latch
  latchPolled : Bool
  joinTaken : Bool
  result : Option Final
  birth : Nat
  log : List Nat
  timers : List Timer
  avail : List Nat          -- stream items made available, not yet taken
  streamEnded : Bool
  busy : Option Nat         -- the open callback sleeps until then
  abandon : Option Cb       -- callback cut short by a cancellation, drop guard not seen yet
  drained : List Nat        -- handles whose own `Shared` latch clone was polled to completion
  deriving DecidableEq, Repr, Inhabited

inductive Label where
  | begin (o h : Nat) (k : OpKind)
  | ret (o : Nat) (r : Res)
  | cdrop (o : Nat)
  | mk (h h' : Nat) (k' : HKind)
  | upgrade (h : Nat) (h' : Option Nat)
  | detach (h h' : Nat)
  | drop (h : Nat)
  | stopReq (h : Nat) (ok : Bool)
  | restartReq (h : Nat) (ok : Bool)
  | query (h : Nat) (stopped : Bool)
  | cbBegin (cb : Cb)
  | cbEnd (cb : Cb) (ok : Bool)
  | cbAbandon (cb : Cb)
  | cbPanic (cb : Cb)
  | vnew (birth : Nat)
  | work (d : Nat)
  | ctxStop (ok : Bool)
  | ctxRestart (ok : Bool)
  | ctxTimer (t : Nat) (k : TimerKind) (d : Nat)
  | ctxWeak (k : HKind) (h : Option Nat)
  | fire (t : Nat) (m : Option Nat)
  | timerArm (t : Nat) (due : Nat)   -- executor: the timer task went to sleep until `due`
  | timerEnd (t : Nat)               -- executor: the timer task ended
  | tickBegin (t m : Nat)
  | extPush (b : Nat)              -- a holder outside the client model (the parent) force-sends broadcast `b`
  | extBegin (b m : Nat)           -- the loop reaches broadcast `b` at the head: it is message `m` from now on
  | time (t : Nat)
  | cancel
  | taskPanic
  | streamReady (k : Nat)
  | streamEnd
  | taskDone                       -- executor: the loop task completed
  | quiescent (pending : List Nat)
  -- internal moves
  | tDeq
  | tChanEnd
  | tStreamEnd
  deriving DecidableEq, Repr, Inhabited

def Label.isTau : Label → Bool
  | .tDeq | .tChanEnd | .tStreamEnd => true
  | _ => false

namespace AState

def init (cfg : Cfg) (h0 : Nat) (k0 : HKind) : AState :=
  { cfg, chan := Chan.init cfg.cap, phase := .unstarted, clock := 0,
    handles := [(h0, k0)], ops := [], latch := .pending, latchPolled := false,
    joinTaken := false, result := none, birth := 0, log := [], timers := [],
    avail := [], streamEnded := false, busy := none, abandon := none, drained := [] }

def handleKind (s : AState) (h : Nat) : Option HKind :=
  (s.handles.find? (fun p => p.1 == h)).map (·.2)

def findOp (s : AState) (o : Nat) : Option OpRec := s.ops.find? (fun r => r.o == o)

def setOp (s : AState) (o : Nat) (st : OpSt) : AState :=
  { s with ops := s.ops.map (fun r => if r.o == o then { r with st := st } else r) }

def removeOp (s : AState) (o : Nat) : AState :=
  { s with ops := s.ops.filter (fun r => r.o != o) }

def removeHandle (s : AState) (h : Nat) : AState :=
  { s with handles := s.handles.filter (fun p => p.1 != h) }

/-- Does the recorded operation own a strong handle of its own (it upgraded a weak one, or is a
    `Caller::call` future)?  An operation whose upgrade failed (`failed alreadyStopped`) owns nothing. -/
def opHolds (w : Wiring) (x : Half) (r : OpRec) : Bool :=
  if r.st = .failed .alreadyStopped then false else
  match r.kind with
  | .callw _ | .tryCall _ => (w.holds .caller).contains x
  | .trySend _ | .tryForce _ => (w.holds .sender).contains x
  | .tryHalt => (w.holds .addr).contains x
  | _ => false

def timerHolds (w : Wiring) (x : Half) (t : Timer) : Bool :=
  match t.st with
  | .sending | .deadHolding => (w.holds .sender).contains x
  | _ => false

/-- Some owner keeps the closure `x` (`tx_fn` / `force_tx_fn`) alive. -/
def halfAlive (w : Wiring) (s : AState) (x : Half) : Bool :=
  s.handles.any (fun p => (w.holds p.2).contains x)
    || s.ops.any (opHolds w x) || s.timers.any (timerHolds w x)

def reqOk (w : Wiring) (s : AState) (req : List Half) : Bool :=
  req.all (fun x => s.halfAlive w x)

def isWaitOp : OpKind → Bool
  | .send _ | .trySend _ | .callw _ | .tryCall _ => true
  | _ => false

/-- An in-flight waiting-path submission owns a clone of the mpsc sender. -/
def inflight (s : AState) : Bool :=
  s.ops.any (fun r => isWaitOp r.kind && (match r.st with | .failed _ => false | _ => true))
    || s.timers.any (fun t => t.st == .sending || t.st == .deadHolding)

/-- Some mpsc `Sender` exists: the channel is open from the sending side. -/
def sendersAlive (w : Wiring) (s : AState) : Bool :=
  s.halfAlive w .tx || s.halfAlive w .force || s.inflight

def inCallback (s : AState) : Bool :=
  match s.phase with
  | .starting | .handling _ _ _ | .rstStopping | .finishing | .stopping => true
  | _ => false

def isDone (s : AState) : Bool :=
  match s.phase with
  | .done _ => true
  | _ => false

/-- The slots (call / ping operations) whose payload sits in the queue. -/
def slotOf : Payload → Option Nat
  | .msg _ (some o) => some o
  | .ping o => some o
  | _ => none

def cancelSlots (s : AState) (slots : List Nat) : AState :=
  { s with ops := s.ops.map (fun r =>
      if slots.contains r.o && r.st == .pending then { r with st := .cancelled } else r) }

def curSlot (s : AState) : List Nat :=
  match s.phase with
  | .handling _ (some o) _ => [o]
  | _ => []

def killTimers (s : AState) : AState :=
  { s with timers := s.timers.map (fun t =>
      if t.st = .ended then t
      else if t.st = .sending ∨ t.st = .deadHolding then { t with st := .deadHolding }
      else { t with st := .dead }) }

/-- The loop future is gone without `notify()`: failure of any kind. -/
def fail (s : AState) : AState :=
  let s1 := s.cancelSlots (s.curSlot ++ s.chan.queue.filterMap (fun e => slotOf e.pl))
  let s2 := s1.killTimers
  { s2 with phase := .done false, chan := s2.chan.dropRx,
            latch := (if s2.latch == .pending then .dropped else s2.latch),
            result := none, busy := none }

/-- The loop returned `Ok(actor)` after `stopped()` and `notify()`. -/
def finish (s : AState) : AState :=
  let s1 := s.cancelSlots (s.chan.queue.filterMap (fun e => slotOf e.pl))
  let s2 := s1.killTimers
  { s2 with phase := .done true, chan := s2.chan.dropRx,
            latch := (if s2.latch == .pending then .fired else s2.latch),
            result := some { birth := s2.birth, stoppedSeen := true, digest := s2.log },
            busy := none }

/-- Submission of a payload (callers test `s.chan.rx` first: a submission is refused iff the
    receiver is gone). On the forcing path the fresh sender clone is dropped at once: stale token. -/
def push (s : AState) (pl : Payload) (path : Path) (tok : Tok) : AState :=
  { s with chan := s.chan.enq { pl, tok := (if path = .waiting then tok else .stale) } }

def addOp (s : AState) (o h : Nat) (k : OpKind) (st : OpSt) : AState :=
  { s with ops := s.ops ++ [{ o, h, kind := k, st }] }

def kindOk (k : OpKind) (hk : HKind) : Bool :=
  match k, hk with
  | .send _, .addr | .send _, .owning | .send _, .sender => true
  | .trySend _, .weakSender => true
  | .tryForce _, .weakSender => true
  | .call _, .addr | .call _, .owning => true
  | .callw _, .caller => true
  | .tryCall _, .weakCaller => true
  | .ping, .addr | .ping, .owning => true
  | .halt, .addr => true
  | .tryHalt, .weakAddr => true
  | .await, .addr => true
  | .join, .owning | .consume, .owning => true
  | _, _ => false

def sendPath (w : Wiring) (hk : HKind) : Path :=
  match hk with
  | .sender | .weakSender => w.path .senderSend
  | _ => w.path .addrSend

/-- What an operation does at its submission point. -/
structure Plan where
  upg : List Half            -- closures a weak handle must find alive (`[]` for strong handles)
  pl : Option Payload        -- the payload submitted, if any
  path : Path
  join : Bool                -- takes the join slot

def plan (w : Wiring) (hk : HKind) (o : Nat) : OpKind → Plan
  | .send m => { upg := [], pl := some (.msg m none), path := sendPath w hk, join := false }
  | .trySend m =>
    { upg := w.upgradeReq .weakSender, pl := some (.msg m none), path := sendPath w hk, join := false }
  | .tryForce m =>
    { upg := w.upgradeReq .weakSender, pl := some (.msg m none), path := .forcing, join := false }
  | .call m => { upg := [], pl := some (.msg m (some o)), path := w.path .addrCall, join := false }
  | .callw m => { upg := [], pl := some (.msg m (some o)), path := w.path .callerCall, join := false }
  | .tryCall m =>
    { upg := w.upgradeReq .weakCaller, pl := some (.msg m (some o)), path := w.path .callerCall,
      join := false }
  | .ping => { upg := [], pl := some (.ping o), path := w.path .addrPing, join := false }
  | .halt => { upg := [], pl := some .stop, path := w.path .addrStop, join := false }
  | .tryHalt =>
    { upg := w.upgradeReq .weakAddr, pl := some .stop, path := w.path .addrStop, join := false }
  | .await => { upg := [], pl := none, path := .forcing, join := false }
  | .join => { upg := [], pl := none, path := .forcing, join := true }
  | .consume => { upg := [], pl := some .stop, path := w.path .addrStop, join := true }

/-- Record the operation as waiting (for flow control, a reply, the latch or the join slot). -/
def beginWait (s : AState) (o h : Nat) (k : OpKind) (join : Bool) : AState :=
  if join then
    (if s.joinTaken then s.addOp o h k .joinNone
     else { s with joinTaken := true }.addOp o h k .joining)
  else s.addOp o h k .pending

def stepBegin (w : Wiring) (s : AState) (o h : Nat) (k : OpKind) : Option AState :=
  match s.handleKind h with
  | none => none
  | some hk =>
    if !kindOk k hk || (s.findOp o).isSome then none
    else if !s.reqOk w (plan w hk o k).upg then some (s.addOp o h k (.failed .alreadyStopped))
    else
      match (plan w hk o k).pl with
      | none => some (s.beginWait o h k (plan w hk o k).join)
      | some pl =>
        if s.chan.rx then
          some ((s.push pl (plan w hk o k).path (.op o)).beginWait o h k (plan w hk o k).join)
        else some (s.addOp o h k (.failed .send))

/-- What a latch awaiter gets. -/
def latchRes (s : AState) : Option Res :=
  match s.latch with
  | .pending => none
  | .fired => some .ok
  | .dropped => some (.err .canceled)

/-- The result the operation may return now (`none`: it cannot return yet). -/
def retExpect (s : AState) (rec : OpRec) : Option Res :=
  match rec.st with
  | .failed e => some (.err e)
  | .pending =>
    (match rec.kind with
     | .send _ | .trySend _ | .tryForce _ => if s.chan.isParked (.op rec.o) then none else some .ok
     | .halt | .tryHalt | .await => s.latchRes
     | _ => none)
  | .answered v =>
    (match rec.kind with
     | .call _ | .callw _ | .tryCall _ => some (.okReply v)
     | _ => none)
  | .pinged => if rec.kind = .ping then some .ok else none
  | .cancelled =>
    (match rec.kind with
     | .call _ | .callw _ | .tryCall _ | .ping => some (.err .canceled)
     | _ => none)
  | .joining =>
    if s.isDone then
      (match rec.kind, s.result with
       | .join, some f => some (.some f)
       | .join, none => some .none
       | .consume, some f => some (.some f)
       | .consume, none => some (.err .alreadyStopped)
       | _, _ => none)
    else none
  | .joinNone =>
    (match rec.kind with
     | .join => some .none
     | .consume => some (.err .alreadyStopped)
     | _ => none)

def consumesHandle : OpKind → Bool
  | .halt | .consume => true
  | _ => false

def isLatchOp : OpKind → Bool
  | .halt | .tryHalt | .await => true
  | _ => false

def retEffect (s : AState) (rec : OpRec) : AState :=
  let s1 := s.removeOp rec.o
  let s2 := if consumesHandle rec.kind then s1.removeHandle rec.h else s1
  let s3 := if rec.st = .joining then { s2 with result := none } else s2
  if isLatchOp rec.kind ∧ rec.st = .pending then
    { s3 with latchPolled := true,
              drained := (if rec.kind = .await then rec.h :: s3.drained else s3.drained) }
  else s3

def stepRet (s : AState) (o : Nat) (r : Res) : Option AState :=
  match s.findOp o with
  | none => none
  | some rec => if s.retExpect rec = some r then some (s.retEffect rec) else none

def stepCdrop (s : AState) (o : Nat) : Option AState :=
  match s.findOp o with
  | none => none
  | some rec =>
    (match rec.kind with
     | .halt | .consume => some ((s.removeOp o).removeHandle rec.h)
     | _ => some (s.removeOp o))

/-- Which conversions exist in the API (`clone`, `downgrade`, `sender`, ...). -/
def convOk (src dst : HKind) : Bool :=
  match src, dst with
  | .addr, .addr | .addr, .weakAddr | .addr, .sender | .addr, .caller
  | .addr, .weakSender | .addr, .weakCaller => true
  | .owning, .addr | .owning, .weakAddr | .owning, .sender | .owning, .caller
  | .owning, .weakSender | .owning, .weakCaller => true
  | .sender, .sender | .sender, .weakSender => true
  | .caller, .caller | .caller, .weakCaller => true
  | .weakAddr, .weakAddr | .weakSender, .weakSender | .weakCaller, .weakCaller => true
  | _, _ => false

def stepMk (s : AState) (h h' : Nat) (k' : HKind) : Option AState :=
  match s.handleKind h with
  | none => none
  | some k =>
    if convOk k k' && (s.handleKind h').isNone then
      some { s with handles := s.handles ++ [(h', k')],
                    drained := (if s.drained.contains h then h' :: s.drained else s.drained) }
    else none

def stepUpgrade (w : Wiring) (s : AState) (h : Nat) (h' : Option Nat) : Option AState :=
  match s.handleKind h with
  | none => none
  | some k =>
    match k.upgraded with
    | none => none
    | some ks =>
      if s.reqOk w (w.upgradeReq k) then
        (match h' with
         | some h' =>
           if (s.handleKind h').isNone then
             some { s with handles := s.handles ++ [(h', ks)],
                           drained := (if s.drained.contains h then h' :: s.drained else s.drained) }
           else none
         | none => none)
      else
        (match h' with
         | none => some s
         | some _ => none)

def stepDetach (s : AState) (h h' : Nat) : Option AState :=
  if s.handleKind h == some .owning && (s.handleKind h').isNone then
    some { (s.removeHandle h) with handles := (s.removeHandle h).handles ++ [(h', .addr)],
                                   drained := (if s.drained.contains h then h' :: s.drained else s.drained) }
  else none

def stepDrop (s : AState) (h : Nat) : Option AState :=
  if (s.handleKind h).isSome then some (s.removeHandle h) else none

/-- `Addr::stop` / `WeakAddr::try_stop` (and the restart twins). -/
def stepSignal (w : Wiring) (s : AState) (h : Nat) (pl : Payload) (path : Path) (ok : Bool) :
    Option AState :=
  match s.handleKind h with
  | some .addr =>
    if s.chan.rx then (if ok then some (s.push pl path .stale) else none)
    else (if ok then none else some s)
  | some .weakAddr =>
    if s.reqOk w (w.upgradeReq .weakAddr) && s.chan.rx then (if ok then some (s.push pl path .stale) else none)
    else (if ok then none else some s)
  | _ => none

def latchSet (s : AState) : Bool := s.latch != .pending

def stepQuery (w : Wiring) (s : AState) (h : Nat) (b : Bool) : Option AState :=
  match s.handleKind h with
  | some .addr | some .owning | some .weakAddr =>
    (match w.livenessQuery with
     | .truthful => if b == s.latchSet then some s else none
     | .peekOnly =>
       if b == (s.latchSet && s.latchPolled && !s.drained.contains h) then some s else none
     | .unknown => none)
  | _ => none

def deadlineAt (s : AState) : Option Nat :=
  if s.cfg.stream then none else s.cfg.timeout.map (fun t => s.clock + t)

/-- If the source notified before calling `stopped()` the latch would fire here. -/
def notifyEarly (w : Wiring) (s : AState) : AState :=
  if w.notifyAfterStopped then s
  else { s with latch := (if s.latch == .pending then .fired else s.latch) }

def toStopping (s : AState) : AState := { s with phase := .stopping }

def stepCbBegin (w : Wiring) (s : AState) (cb : Cb) : Option AState :=
  match cb, s.phase with
  | .started, .unstarted => some { s with phase := .starting }
  | .started, .rstStopped fresh =>
    if s.cfg.strat == .recreate && !fresh then none else some { s with phase := .starting }
  | .handle m, .idle =>
    (match s.chan.queue with
     | { pl := .msg m' slot, .. } :: _ =>
       if m' == m && s.chan.rx then
         some { s with chan := s.chan.deq, phase := .handling (.handle m) slot s.deadlineAt,
                       log := s.log ++ [m] }
       else none
     | _ => none)
  | .item k, .idle =>
    (match s.avail with
     | k' :: rest =>
       if s.cfg.stream && k' == k then
         some { s with avail := rest, phase := .handling (.item k) none none,
                       log := s.log ++ [200000 + k] }
       else none
     | [] => none)
  | .finished, .leaving => if s.cfg.stream then some { s with phase := .finishing } else none
  | .stopped, .leaving => if s.cfg.stream then none else some (s.notifyEarly w).toStopping
  | .stopped, .finishedDone => some (s.notifyEarly w).toStopping
  | .stopped, .rstBegin => some { s with phase := .rstStopping }
  | _, _ => none

def workDone (s : AState) : Bool :=
  match s.busy with
  | none => true
  | some t => t ≤ s.clock

def answer (s : AState) (slot : Option Nat) (m : Nat) : AState :=
  match slot with
  | none => s
  | some o =>
    { s with ops := s.ops.map (fun r =>
        if r.o == o && r.st == .pending then
          { r with st := .answered { m, birth := s.birth, digest := s.log } }
        else r) }

/-- `R::refresh` aborts the timers of the incarnation that just stopped (if the source does). -/
def refreshTimers (w : Wiring) (s : AState) : AState :=
  if w.refreshResetsTimers then s.killTimers else s

def stepCbEnd (w : Wiring) (s : AState) (cb : Cb) (ok : Bool) : Option AState :=
  if !s.workDone then none else
  match cb, s.phase with
  | .started, .starting =>
    if ok then some { s with phase := .idle, busy := none }
    else some { s with phase := .exiting false, busy := none }
  | .handle m, .handling (.handle m') slot _ =>
    if m == m' && ok then some { (s.answer slot m) with phase := .idle, busy := none } else none
  | .item k, .handling (.item k') _ _ =>
    if k == k' && ok then some { s with phase := .idle, busy := none } else none
  | .finished, .finishing => if ok then some { s with phase := .finishedDone, busy := none } else none
  | .stopped, .stopping =>
    if ok then some { s with phase := .exiting true, busy := none } else none
  | .stopped, .rstStopping =>
    if ok then some { (s.refreshTimers w) with phase := .rstStopped false, busy := none } else none
  | _, _ => none

def openCb (s : AState) : Option Cb :=
  match s.phase with
  | .starting => some .started
  | .handling cb _ _ => some cb
  | .rstStopping | .stopping => some .stopped
  | .finishing => some .finished
  | _ => none

def stepCbAbandon (s : AState) (cb : Cb) : Option AState :=
  match s.phase with
  | .handling cb' slot (some dl) =>
    if cb == cb' && dl ≤ s.clock then
      let s1 := s.cancelSlots (match slot with | some o => [o] | none => [])
      if s.cfg.failOnTimeout then some { s1 with phase := .exiting false, busy := none }
      else some { s1 with phase := .idle, busy := none }
    else none
  | .done false => if s.abandon == some cb then some { s with abandon := none } else none
  | _ => none

def stepCbPanic (s : AState) (cb : Cb) : Option AState :=
  if s.openCb == some cb then
    some { (s.cancelSlots s.curSlot) with phase := .exiting false, busy := none }
  else none

def stepVnew (s : AState) (b : Nat) : Option AState :=
  match s.phase with
  | .unstarted => some { s with birth := b }
  | .rstStopped false =>
    if s.cfg.strat == .recreate then some { s with phase := .rstStopped true, birth := b, log := [] }
    else none
  | _ => none

def stepWork (s : AState) (d : Nat) : Option AState :=
  if s.inCallback && s.workDone then some { s with busy := some (s.clock + d) } else none

def stepCtxSignal (w : Wiring) (s : AState) (req : List Half) (pl : Payload) (path : Path) (ok : Bool) :
    Option AState :=
  if !s.inCallback then none else
  if s.reqOk w req && s.chan.rx then (if ok then some (s.push pl path .stale) else none)
  else (if ok then none else some s)

def stepCtxTimer (s : AState) (t : Nat) (k : TimerKind) (d : Nat) : Option AState :=
  if s.inCallback && !(s.timers.any (fun x => x.id == t)) then
    some { s with timers := s.timers ++ [{ id := t, kind := k, d, st := .spawned }] }
  else none

def stepCtxWeak (w : Wiring) (s : AState) (k : HKind) (h : Option Nat) : Option AState :=
  if !s.inCallback then none else
  match k, h with
  | .weakAddr, some h =>
    if s.reqOk w w.ctxAddressReq && (s.handleKind h).isNone then
      some { s with handles := s.handles ++ [(h, .weakAddr)] } else none
  | .weakAddr, none => if s.reqOk w w.ctxAddressReq then none else some s
  | .weakSender, some h | .weakCaller, some h =>
    if (s.handleKind h).isNone then some { s with handles := s.handles ++ [(h, k)] } else none
  | _, _ => none

def findTimer (s : AState) (t : Nat) : Option Timer := s.timers.find? (fun x => x.id == t)

def setTimer (s : AState) (t : Nat) (st : TimerSt) : AState :=
  { s with timers := s.timers.map (fun x => if x.id == t then { x with st := st } else x) }

def timerDue (s : AState) (x : Timer) : Bool :=
  match x.st with
  | .sleeping due => due ≤ s.clock
  | _ => false

/-- The timer task goes to sleep: first arming, or `interval` woke up, upgraded its weak
    sender, force-sent a tick and sleeps again, or `interval_with` got its send through. -/
def stepTimerArm (w : Wiring) (s : AState) (t due : Nat) : Option AState :=
  match s.findTimer t with
  | some x =>
    if due ≠ s.clock + x.d then none else
    (match x.st with
     | .spawned => some (s.setTimer t (.sleeping due))
     | .sleeping _ =>
       if x.kind = .interval ∧ s.timerDue x ∧ s.reqOk w (w.upgradeReq .weakSender) ∧ s.chan.rx then
         some ((s.push (.tick t) (w.timerPath .interval) (.timer t)).setTimer t (.sleeping due))
       else none
     | .sending =>
       if x.kind = .intervalWith ∧ !s.chan.isParked (.timer t) then some (s.setTimer t (.sleeping due))
       else none
     | _ => none)
  | none => none

/-- The timer task ended: aborted, finished, or its weak sender no longer upgrades. -/
def stepTimerEnd (w : Wiring) (s : AState) (t : Nat) : Option AState :=
  match s.findTimer t with
  | some x =>
    (match x.st with
     | .dead | .deadHolding => some (s.setTimer t .ended)
     | .sleeping _ =>
       if x.kind = .interval ∧ s.timerDue x ∧ !(s.reqOk w (w.upgradeReq .weakSender) && s.chan.rx) then
         some (s.setTimer t .ended)
       else none
     | .sending =>
       if x.kind = .delayedSend ∧ !s.chan.isParked (.timer t) then some (s.setTimer t .ended) else none
     | _ => none)
  | none => none

/-- `interval_with` / `delayed_send` / `delayed_exec`: the user closure runs. -/
def stepFire (w : Wiring) (s : AState) (t : Nat) (m : Option Nat) : Option AState :=
  match s.findTimer t with
  | some x =>
    if !s.timerDue x then none else
    (match x.kind, m with
     | .delayedExec, none => some (s.setTimer t .dead)
     | .intervalWith, some m | .delayedSend, some m =>
       if s.reqOk w (w.upgradeReq .weakSender) && s.chan.rx then
         some ((s.push (.msg m none) (w.timerPath x.kind) (.timer t)).setTimer t .sending)
       else some (s.setTimer t .dead)
     | _, _ => none)
  | none => none

def stepTickBegin (s : AState) (t m : Nat) : Option AState :=
  match s.phase, s.chan.queue with
  | .idle, { pl := .tick t', tok } :: rest =>
    if t == t' then
      some { s with chan := { s.chan with queue := { pl := .msg m none, tok } :: rest } }
    else none
  | _, _ => none

/-- `Sender::force_send` by a holder that is not a client of the trace (a parent's `send_to_children`):
    forcing path, refused (and ignored by the caller) iff the receiver is gone. -/
def stepExtPush (s : AState) (b : Nat) : Option AState :=
  if s.chan.rx then some (s.push (.ext b) .forcing .stale) else some s

def stepExtBegin (s : AState) (b m : Nat) : Option AState :=
  match s.phase, s.chan.queue with
  | .idle, { pl := .ext b', tok } :: rest =>
    if b == b' then
      some { s with chan := { s.chan with queue := { pl := .msg m none, tok } :: rest } }
    else none
  | _, _ => none

/-- the virtual clock may not jump past a pending deadline of this actor -/
def timeOk (s : AState) (t : Nat) : Bool :=
  (match s.busy with
   | some b => decide (s.clock ≥ b) || decide (t ≤ b)
   | none => true)
  && (match s.phase with
      | .handling _ _ (some dl) => decide (s.clock ≥ dl) || decide (t ≤ dl)
      | _ => true)
  && s.timers.all (fun x => match x.st with
      | .sleeping due => decide (due ≤ s.clock) || decide (t ≤ due)
      | _ => true)

def stepTime (s : AState) (t : Nat) : Option AState :=
  if s.clock ≤ t ∧ s.timeOk t = true then some { s with clock := t } else none

def stepCancel (s : AState) : Option AState :=
  if s.isDone then none else some { s.fail with abandon := s.openCb }

def stepTaskDone (s : AState) : Option AState :=
  match s.phase with
  | .exiting true => some s.finish
  | .exiting false => some s.fail
  | _ => none

def stepTaskPanic (s : AState) : Option AState :=
  match s.phase with
  | .exiting false => some s.fail
  | .idle =>
    (match s.chan.queue with
     | { pl := .restart, .. } :: _ =>
       if s.cfg.stream && s.chan.rx then some ({ s with chan := s.chan.deq }).fail else none
     | _ => none)
  | _ => none

def stepStreamReady (s : AState) (k : Nat) : Option AState :=
  if s.cfg.stream && !s.streamEnded then some { s with avail := s.avail ++ [k] } else none

def stepStreamEnd (s : AState) : Option AState :=
  if s.cfg.stream && !s.streamEnded then some { s with streamEnded := true } else none

/-- The loop takes a head entry that has no user callback. -/
def stepDeq (s : AState) : Option AState :=
  match s.phase, s.chan.queue with
  | .idle, e :: _ =>
    if !s.chan.rx then none else
    let s' := { s with chan := s.chan.deq }
    (match e.pl with
     | .ping o =>
       some { s' with ops := s'.ops.map (fun r =>
                if r.o == o && r.st == .pending then { r with st := .pinged } else r) }
     | .stop => some { s' with phase := .leaving }
     | .restart =>
       if s.cfg.stream then none
       else if s.cfg.strat == .non then some s'
       else some { s' with phase := .rstBegin }
     | _ => none)
  | _, _ => none

def stepChanEnd (w : Wiring) (s : AState) : Option AState :=
  match s.phase with
  | .idle =>
    if s.chan.queue.isEmpty && !s.sendersAlive w then some { s with phase := .leaving } else none
  | _ => none

def stepStreamEndTau (s : AState) : Option AState :=
  match s.phase with
  | .idle =>
    if s.cfg.stream && s.streamEnded && s.avail.isEmpty then some { s with phase := .leaving }
    else none
  | _ => none

/-- Nothing about this actor can move any more: the loop is parked on an open, empty mailbox
    (and a silent stream) or gone, every timer task has ended, no pending operation can return. -/
def quiet (w : Wiring) (s : AState) : Bool :=
  (match s.phase with
   | .done _ => true
   | .idle =>
     s.chan.queue.isEmpty && s.sendersAlive w && (!s.cfg.stream || (s.avail.isEmpty && !s.streamEnded))
   | _ => false)
  && s.timers.all (fun t => t.st == .ended)
  && s.ops.all (fun r => (s.retExpect r).isNone)

def stepQuiescent (w : Wiring) (s : AState) (pend : List Nat) : Option AState :=
  if s.quiet w && pend.all (fun o => (s.findOp o).isSome) && s.ops.all (fun r => pend.contains r.o)
  then some s else none

end AState

open AState in
def step (w : Wiring) (s : AState) : Label → Option AState
  | .begin o h k => s.stepBegin w o h k
  | .ret o r => s.stepRet o r
  | .cdrop o => s.stepCdrop o
  | .mk h h' k' => s.stepMk h h' k'
  | .upgrade h h' => s.stepUpgrade w h h'
  | .detach h h' => s.stepDetach h h'
  | .drop h => s.stepDrop h
  | .stopReq h ok => s.stepSignal w h .stop (w.path .addrStop) ok
  | .restartReq h ok => s.stepSignal w h .restart (w.path .addrRestart) ok
  | .query h b => s.stepQuery w h b
  | .cbBegin cb => s.stepCbBegin w cb
  | .cbEnd cb ok => s.stepCbEnd w cb ok
  | .cbAbandon cb => s.stepCbAbandon cb
  | .cbPanic cb => s.stepCbPanic cb
  | .vnew b => s.stepVnew b
  | .work d => s.stepWork d
  | .ctxStop ok => s.stepCtxSignal w w.ctxStopReq .stop (w.path .ctxStop) ok
  | .ctxRestart ok => s.stepCtxSignal w w.ctxRestartReq .restart (w.path .ctxRestart) ok
  | .ctxTimer t k d => s.stepCtxTimer t k d
  | .ctxWeak k h => s.stepCtxWeak w k h
  | .fire t m => s.stepFire w t m
  | .timerArm t due => s.stepTimerArm w t due
  | .timerEnd t => s.stepTimerEnd w t
  | .tickBegin t m => s.stepTickBegin t m
  | .extPush b => s.stepExtPush b
  | .extBegin b m => s.stepExtBegin b m
  | .time t => s.stepTime t
  | .cancel => s.stepCancel
  | .taskPanic => s.stepTaskPanic
  | .streamReady k => s.stepStreamReady k
  | .streamEnd => s.stepStreamEnd
  | .taskDone => s.stepTaskDone
  | .quiescent pend => s.stepQuiescent w pend
  | .tDeq => s.stepDeq
  | .tChanEnd => s.stepChanEnd w
  | .tStreamEnd => s.stepStreamEndTau

/-- what may happen to an actor in a phase in which its loop future has no suspension point -/
def Phase.allows : Phase → Label → Bool
  | .exiting _, l => l == .taskDone || l == .taskPanic           -- the loop returned: only the end of the task
  | .rstStopped _, l =>                                           -- inside `refresh`, between `stopped` and `started`
    (match l with
     | .vnew _ | .cbBegin .started => true
     | _ => false)
  | _, _ => true

/-- The loop's return (or failure) and the end of its task happen inside one poll of the task, and so do
    `stopped`'s return and `started`'s begin during a restart: nothing else can happen to this actor in
    between.  `gstep` is `step` with that guard; every guarded run is a run (`Proofs/Guarded.lean`), so
    whatever is proved about all runs holds of all guarded runs, and the acceptor uses the guarded step. -/
def gstep (w : Wiring) (s : AState) (l : Label) : Option AState :=
  if s.phase.allows l then step w s l else none

def grun (w : Wiring) (s : AState) : List Label → Option AState
  | [] => some s
  | l :: ls => match gstep w s l with
    | some s' => grun w s' ls
    | none => none

/-- Run a label sequence from a state. -/
def run (w : Wiring) (s : AState) : List Label → Option AState
  | [] => some s
  | l :: ls => match step w s l with
    | some s' => run w s' ls
    | none => none

/-- The client drops the future of an operation whose submission went through.  A failed submission resolves at
    the first poll of the future, so a client that polled it at least once (the harness always does) returns
    from it rather than dropping it.  `dstep` is the guarded step with that extra guard on `cdrop`; every
    `drun` is a `grun` (`Proofs/C05DRun.lean`), and the acceptor uses `dstep`. -/
def AState.cdropOk (s : AState) (o : Nat) : Bool :=
  match s.findOp o with
  | some rec => (match rec.st with | .failed _ => false | _ => true)
  | none => true

def dstep (w : Wiring) (s : AState) (l : Label) : Option AState :=
  match l with
  | .cdrop o => if s.cdropOk o then gstep w s l else none
  | _ => gstep w s l

def drun (w : Wiring) (s : AState) : List Label → Option AState
  | [] => some s
  | l :: ls => match dstep w s l with
    | some s' => drun w s' ls
    | none => none

end Hannibal
