import Hannibal.Model.Basic
/-
  C19 — ill-typed uses of the API are rejected at compile time.
  An abstraction of the trait bounds of hannibal's public entry points: a *use*
  is an entry point applied to the profiles of the user's actor and message
  types; the compiler is modelled by "all trait bounds of the entry point are
  satisfied by the profiles".
-/
namespace Hannibal

/-- what matters about a user's actor type -/
structure ActorTy where
  handles : List Nat          -- message types it implements `Handler` for
  restartable : Bool          -- implements `RestartableActor`
  hasDefault : Bool           -- implements `Default`
  streamItems : List Nat      -- item types it implements `StreamHandler` for
  deriving Repr, DecidableEq

/-- what matters about a user's message type -/
structure MsgTy where
  id : Nat
  unitResponse : Bool         -- `Message<Response = ()>`
  deriving Repr, DecidableEq

/-- builder type-state (the restart-strategy parameter of `ActorBuilderWithChannel`) -/
inductive BState where
  | restartOnly | recreate | nonRestartable
  deriving Repr, DecidableEq

inductive Bound where
  | handler            -- `A: Handler<M>`
  | unitResponse       -- `M: Message<Response = ()>`
  | restartable        -- `A: RestartableActor`
  | default            -- `A: Default`
  | streamHandler      -- `A: StreamHandler<S::Item>`
  | nonRestartableState -- only offered on `ActorBuilderWithChannel<_, _, NonRestartable>`
  deriving Repr, DecidableEq

/-- public entry points that must enforce a rule -/
inductive ApiEntry where
  | addrSend | addrCall | addrSender | addrWeakSender | addrCaller | addrWeakCaller
  | owningSend | owningCall
  | ctxWeakSender | ctxWeakCaller
  | ctxInterval | ctxIntervalWith | ctxDelayedSend
  | ctxRegisterChild | ctxSendToChildren
  | ctxSubscribe | ctxPublish | brokerPublish | brokerSubscribe
  | addrRestart | ctxRestart
  | withStream | recreateFromDefault
  | builderOnStream | builderBoundedOnStream
  | brokerTryPublish | brokerAddrPublish | brokerAddrSubscribe | brokerAddrUnsubscribe
  | spawnOnStream | spawnOwningOnStream
  deriving Repr, DecidableEq

def ApiEntry.all : List ApiEntry :=
  [.addrSend, .addrCall, .addrSender, .addrWeakSender, .addrCaller, .addrWeakCaller, .owningSend, .owningCall,
   .ctxWeakSender,
   .ctxWeakCaller, .ctxInterval, .ctxIntervalWith, .ctxDelayedSend, .ctxRegisterChild, .ctxSendToChildren,
   .ctxSubscribe, .ctxPublish, .brokerPublish, .brokerSubscribe, .addrRestart, .ctxRestart, .withStream,
   .recreateFromDefault, .builderOnStream, .builderBoundedOnStream,
   .brokerTryPublish, .brokerAddrPublish, .brokerAddrSubscribe, .brokerAddrUnsubscribe,
   .spawnOnStream, .spawnOwningOnStream]

structure Use where
  entry : ApiEntry
  actor : ActorTy
  msg : MsgTy
  item : Nat          -- stream item type (for `with_stream`)
  state : BState      -- builder state (for builder entry points)
  deriving Repr, DecidableEq

def sat (u : Use) : Bound → Bool
  | .handler => u.actor.handles.contains u.msg.id
  | .unitResponse => u.msg.unitResponse
  | .restartable => u.actor.restartable
  | .default => u.actor.hasDefault
  | .streamHandler => u.actor.streamItems.contains u.item
  | .nonRestartableState => u.state == .nonRestartable

/-- the compiler's verdict: every bound of the entry point is satisfied -/
def accepts (bounds : ApiEntry → List Bound) (u : Use) : Bool := (bounds u.entry).all (sat u)

/-- which entry points talk to an actor type about a message type (rule: a handler must exist) -/
def ApiEntry.needsHandler : ApiEntry → Bool
  | .addrSend | .addrCall | .addrSender | .addrWeakSender | .addrCaller | .addrWeakCaller
  | .owningSend | .owningCall
  | .ctxWeakSender | .ctxWeakCaller | .ctxInterval | .ctxIntervalWith | .ctxDelayedSend
  | .ctxSubscribe => true
  | _ => false

/-- fire-and-forget paths (send, Sender, broker topics, timers, children) -/
def ApiEntry.fireAndForget : ApiEntry → Bool
  | .addrSend | .owningSend | .addrSender | .addrWeakSender | .ctxWeakSender | .ctxInterval | .ctxIntervalWith
  | .ctxDelayedSend | .ctxRegisterChild | .ctxSendToChildren | .ctxSubscribe | .ctxPublish
  | .brokerPublish | .brokerSubscribe
  | .brokerTryPublish | .brokerAddrPublish | .brokerAddrSubscribe | .brokerAddrUnsubscribe => true
  | _ => false

/-- the property's rule set -/
def Legit (u : Use) : Prop :=
  (u.entry.needsHandler = true → u.actor.handles.contains u.msg.id = true) ∧
  (u.entry.fireAndForget = true → u.msg.unitResponse = true) ∧
  ((u.entry = .addrRestart ∨ u.entry = .ctxRestart) → u.actor.restartable = true) ∧
  (u.entry = .withStream → u.state = .nonRestartable ∧ u.actor.streamItems.contains u.item = true) ∧
  (u.entry = .recreateFromDefault → u.actor.hasDefault = true ∧ u.actor.restartable = true) ∧
  ((u.entry = .builderOnStream ∨ u.entry = .builderBoundedOnStream) → u.actor.streamItems.contains u.item = true) ∧
  ((u.entry = .spawnOnStream ∨ u.entry = .spawnOwningOnStream) → u.actor.streamItems.contains u.item = true)

/-- the bounds each entry point has to carry for the rules to be enforced -/
def required : ApiEntry → List Bound
  | .addrSend | .owningSend | .addrSender | .addrWeakSender | .ctxWeakSender | .ctxInterval | .ctxIntervalWith
  | .ctxDelayedSend | .ctxSubscribe => [.handler, .unitResponse]
  | .owningCall | .addrCall | .addrCaller | .addrWeakCaller | .ctxWeakCaller => [.handler]
  | .ctxRegisterChild | .ctxSendToChildren | .ctxPublish | .brokerPublish | .brokerSubscribe
  | .brokerTryPublish | .brokerAddrPublish | .brokerAddrSubscribe | .brokerAddrUnsubscribe => [.unitResponse]
  | .addrRestart | .ctxRestart => [.restartable]
  | .withStream => [.nonRestartableState, .streamHandler]
  | .recreateFromDefault => [.default, .restartable]
  | .builderOnStream | .builderBoundedOnStream | .spawnOnStream | .spawnOwningOnStream => [.streamHandler]

def wellWired19b (bounds : ApiEntry → List Bound) : Bool :=
  ApiEntry.all.all (fun e => (required e).all (fun b => (bounds e).contains b))

end Hannibal
