import Hannibal.Model.Basic
/-
  One `Broker<T>` (`src/broker.rs`): a service actor with a table of weak senders keyed by the subscriber's
  context id.  `subscribe` / `unsubscribe` / `publish` are sends into the broker's FIFO mailbox; the broker
  handles one item at a time: `Subscribe` inserts (replacing an entry of the same subscriber), `Unsubscribe`
  removes, `Publish` sends the message to every subscriber in the table whose weak sender still upgrades,
  one after the other, on the waiting path.  What is on its way to a subscriber is delivered in FIFO order
  (the subscriber's own mailbox).
-/
namespace Hannibal

inductive BItem where
  | sub (c : Nat)
  | unsub (c : Nat)
  | pub (m : Nat)
  deriving DecidableEq, Repr, Inhabited, Hashable

inductive BLabel where
  | bbegin (o : Nat) (it : BItem)
  | benq (o : Nat)              -- internal: the item enters the broker's mailbox
  | bret (o : Nat)
  | bproc                       -- internal: the broker handles the head of its mailbox
  | deliver (c m : Nat)         -- subscriber `c` takes publication `m` up
  | term (c : Nat)              -- the task of subscriber `c` ended
  deriving DecidableEq, Repr, Inhabited

def BLabel.isTau : BLabel → Bool
  | .benq _ | .bproc => true
  | _ => false

structure BrSt where
  pend : List (Nat × BItem)     -- begun, not yet in the mailbox
  sent : List Nat               -- in the mailbox (or handled), not yet returned
  mbox : List BItem             -- the broker's mailbox, oldest first
  subs : List Nat               -- the subscriber table
  flight : List (Nat × Nat)     -- (subscriber, publication) sent and not yet taken up, in sending order
  dead : List Nat
  deriving DecidableEq, Repr, Inhabited, Hashable

def BrSt.init : BrSt := { pend := [], sent := [], mbox := [], subs := [], flight := [], dead := [] }

def bstep (s : BrSt) : BLabel → Option BrSt
  | .bbegin o it =>
    if s.pend.any (fun p => p.1 == o) || s.sent.contains o then none
    else some { s with pend := s.pend ++ [(o, it)] }
  | .benq o =>
    (match s.pend.find? (fun p => p.1 == o) with
     | some (_, it) =>
       some { s with pend := s.pend.filter (fun p => p.1 != o), sent := o :: s.sent, mbox := s.mbox ++ [it] }
     | none => none)
  | .bret o =>
    if s.sent.contains o then some { s with sent := s.sent.filter (fun x => x != o) } else none
  | .bproc =>
    (match s.mbox with
     | [] => none
     | .sub c :: rest => some { s with mbox := rest, subs := c :: s.subs.filter (fun x => x != c) }
     | .unsub c :: rest => some { s with mbox := rest, subs := s.subs.filter (fun x => x != c) }
     | .pub m :: rest =>
       some { s with mbox := rest,
                     flight := s.flight ++ ((s.subs.filter (fun c => !s.dead.contains c)).map (fun c => (c, m))) })
  | .deliver c m =>
    if s.dead.contains c then none else
    (match s.flight.find? (fun p => p.1 == c) with
     | some (_, m') => if m' = m then some { s with flight := s.flight.erase (c, m) } else none
     | none => none)
  | .term c => some { s with dead := c :: s.dead, flight := s.flight.filter (fun p => p.1 != c) }

def brun (s : BrSt) : List BLabel → Option BrSt
  | [] => some s
  | l :: ls => match bstep s l with
    | some s' => brun s' ls
    | none => none

end Hannibal
