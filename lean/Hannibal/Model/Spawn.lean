import Hannibal.Model.Basic
/-
  C18 — spawn / detach / join on the three runtimes.  The only runtime-dependent
  ingredient is what dropping a task handle does: tokio and async-std detach,
  smol cancels the task.  Everything else about an actor is runtime independent.
-/
namespace Hannibal

inductive Runtime where
  | tokio | asyncStd | smol
  deriving DecidableEq, Repr, Inhabited

/-- what a spawn entry point does with the `ActorHandle` it obtained from the spawner -/
inductive Disp where
  | kept        -- handed to the caller (inside an OwningAddr or a tuple)
  | detached    -- `.detach()` called
  | dropped     -- bound and dropped
  | unknown
  deriving DecidableEq, Repr, Inhabited

inductive SpawnEntry where
  | spawn | spawnOwning | spawnDefault | spawnOwningDefault
  | spawnOnStream | spawnOwningOnStream
  | builderSpawn | builderSpawnOwning | streamBuilderSpawn | streamBuilderSpawnOwning
  | fromRegistry | register | spawnWith
  deriving DecidableEq, Repr, Inhabited

def SpawnEntry.all : List SpawnEntry :=
  [.spawn, .spawnOwning, .spawnDefault, .spawnOwningDefault, .spawnOnStream, .spawnOwningOnStream,
   .builderSpawn, .builderSpawnOwning, .streamBuilderSpawn, .streamBuilderSpawnOwning,
   .fromRegistry, .register, .spawnWith]

/-- Structural facts for C18, read from spawner.rs / builder.rs / service.rs / actor_handle.rs. -/
structure SpawnWiring where
  disp : SpawnEntry → Disp
  /-- `ActorHandle` has a `Drop` impl that runs the detach closure -/
  handleDropDetaches : Bool

inductive TaskSt where
  | running | finished | cancelled
  deriving DecidableEq, Repr, Inhabited

inductive HandleSt where
  | held | detached | gone
  deriving DecidableEq, Repr, Inhabited

structure S18 where
  task : TaskSt
  handle : HandleSt
  joined : Bool
  deriving DecidableEq, Repr, Inhabited

/-- dropping the runtime's task handle: smol cancels a running task, the others detach -/
def dropTask (r : Runtime) (t : TaskSt) : TaskSt :=
  match r, t with
  | .smol, .running => .cancelled
  | _, t => t

/-- dropping hannibal's `ActorHandle` -/
def dropHandle (w : SpawnWiring) (r : Runtime) (t : TaskSt) : TaskSt :=
  if w.handleDropDetaches then t else dropTask r t

inductive Op18 where
  | dropOwner      -- drop the OwningAddr / ActorHandle the entry point returned (other Addr clones stay)
  | detach
  | stop
  | call           -- observe: does a call through a plain Addr clone succeed?
  | join           -- observe: Some / None (only issued after stop or cancellation)
  deriving DecidableEq, Repr, Inhabited

inductive Obs18 where
  | callOk | callErr | joinSome | joinNone | joinNA
  deriving DecidableEq, Repr, Inhabited

def afterSpawn (w : SpawnWiring) (r : Runtime) (e : SpawnEntry) : S18 :=
  match w.disp e with
  | .kept => { task := .running, handle := .held, joined := false }
  | .detached => { task := .running, handle := .detached, joined := false }
  | .dropped | .unknown => { task := dropHandle w r .running, handle := .gone, joined := false }

def step18 (w : SpawnWiring) (r : Runtime) (s : S18) : Op18 → S18 × Option Obs18
  | .dropOwner =>
    (match s.handle with
     | .held => ({ s with task := dropHandle w r s.task, handle := .gone }, none)
     | _ => (s, none))
  | .detach =>
    (match s.handle with
     | .held => ({ s with handle := .detached }, none)
     | _ => (s, none))
  | .stop => (if s.task = .running then { s with task := .finished } else s, none)
  | .call => (s, some (if s.task = .running then .callOk else .callErr))
  | .join =>
    (match s.handle with
     | .held =>
       if s.joined then (s, some .joinNone)
       else
         (match s.task with
          | .finished => ({ s with joined := true }, some .joinSome)
          | .cancelled => ({ s with joined := true }, some .joinNone)
          | .running => (s, some .joinNA))       -- would block: programs only join after stop
     | _ => (s, some .joinNA))

def run18 (w : SpawnWiring) (r : Runtime) : S18 → List Op18 → List Obs18
  | _, [] => []
  | s, op :: ops =>
    let (s', o) := step18 w r s op
    (match o with
     | some o => o :: run18 w r s' ops
     | none => run18 w r s' ops)

/-- the observable outcome of a program on a runtime -/
def outcome (w : SpawnWiring) (r : Runtime) (e : SpawnEntry) (p : List Op18) : List Obs18 :=
  run18 w r (afterSpawn w r e) p

end Hannibal
