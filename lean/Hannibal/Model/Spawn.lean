import Hannibal.Model.Basic
/-
  C18 — spawn / detach / join on the three runtimes.

  Every spawner (`src/actor/spawner/*_spawner.rs`) puts the runtime's task handle into a shared slot
  (`Arc<Mutex<Option<_>>>`).  `ActorHandle::join()` creates a *lazy* join future that shares the slot; at its
  first poll it takes the task handle out of the slot (or resolves to `None` if the slot is empty) and owns it
  from then on.  A spawner may install a detach closure, which takes the task handle out of the slot and
  detaches it; `ActorHandle::detach` runs it, and so does `ActorHandle`'s `Drop` impl if it has one.
  The slot dies with its last owner (the `ActorHandle` and the join futures that have not been polled yet).

  The only runtime-dependent ingredient is what dropping a runtime task handle does: tokio and async-std
  detach, smol cancels the task (`dropCancels`; the runtimes' documented contract, validated by the rt18
  scenarios on the real runtimes) - unless the spawner wraps the task in a guard that detaches on drop
  (`SpawnWiring.taskGuarded`).  Everything else about an actor is runtime independent.
-/
namespace Hannibal

inductive Runtime where
  | tokio | asyncStd | smol
  deriving DecidableEq, Repr, Inhabited

/-- what a spawn entry point does with the `ActorHandle` it obtained from the spawner -/
inductive Disp where
  | kept        -- handed to the caller (inside an OwningAddr or a tuple)
  | detached    -- `.detach()` called
  | dropped     -- bound and dropped
  | unknown
  deriving DecidableEq, Repr, Inhabited

inductive SpawnEntry where
  | spawn | spawnOwning | spawnDefault | spawnOwningDefault
  | spawnOnStream | spawnOwningOnStream
  | builderSpawn | builderSpawnOwning | streamBuilderSpawn | streamBuilderSpawnOwning
  | fromRegistry | register | spawnWith
  deriving DecidableEq, Repr, Inhabited

def SpawnEntry.all : List SpawnEntry :=
  [.spawn, .spawnOwning, .spawnDefault, .spawnOwningDefault, .spawnOnStream, .spawnOwningOnStream,
   .builderSpawn, .builderSpawnOwning, .streamBuilderSpawn, .streamBuilderSpawnOwning,
   .fromRegistry, .register, .spawnWith]

/-- Structural facts for C18, read from spawner.rs / builder.rs / service.rs / actor_handle.rs /
    *_spawner.rs on every run. -/
structure SpawnWiring where
  disp : SpawnEntry → Disp
  /-- `ActorHandle` has a `Drop` impl that runs the detach closure -/
  handleDropDetaches : Bool
  /-- the runtime's spawner installs a detach closure (`with_detach_fn`) -/
  detachFn : Runtime → Bool
  /-- the runtime's spawner wraps the task handle in a guard whose `Drop` detaches the task -/
  taskGuarded : Runtime → Bool
  /-- every spawner has the shape the model is written for: the task handle in a shared slot, a lazy join
      future that takes it out of the slot at its first poll -/
  lazySharedSlot : Bool
  /-- `ActorHandle::join` only calls the join closure, `ActorHandle::detach` only runs the detach closure -/
  joinDetachPlain : Bool

/-- the runtimes' contract: dropping a smol `Task` cancels it, dropping a tokio / async-std `JoinHandle` detaches -/
def dropCancels : Runtime → Bool
  | .smol => true
  | _ => false

inductive TaskSt where
  | running | finished | cancelled
  deriving DecidableEq, Repr, Inhabited

inductive HandleSt where
  | held | detached | gone
  deriving DecidableEq, Repr, Inhabited

/-- a join future -/
inductive JF where
  | unpolled    -- created, shares the slot
  | holding     -- polled: owns the runtime's task handle
  | done        -- resolved or dropped
  deriving DecidableEq, Repr, Inhabited

structure S18 where
  task : TaskSt
  slot : Bool            -- the runtime's task handle is still in the shared slot
  handle : HandleSt
  futs : List JF         -- the join futures created so far, oldest first
  deriving DecidableEq, Repr, Inhabited

/-- the runtime's task handle is dropped -/
def dropTask (w : SpawnWiring) (r : Runtime) (t : TaskSt) : TaskSt :=
  if dropCancels r && !w.taskGuarded r then (match t with | .running => .cancelled | t => t) else t

/-- the slot lost an owner: if it was the last one, what is still in it is dropped -/
def S18.release (w : SpawnWiring) (r : Runtime) (s : S18) : S18 :=
  if s.slot && s.handle != .held && !s.futs.contains .unpolled then
    { s with slot := false, task := dropTask w r s.task }
  else s

/-- the detach closure (if the spawner installed one): the task handle leaves the slot and is detached -/
def S18.runDetachFn (w : SpawnWiring) (r : Runtime) (s : S18) : S18 :=
  if w.detachFn r then { s with slot := false } else s

inductive Op18 where
  | dropOwner      -- drop the OwningAddr / ActorHandle the entry point returned (other Addr clones stay)
  | detach
  | stop
  | call           -- observe: does a call through a plain Addr clone succeed?
  | join           -- create a join future and await it (only issued after stop or cancellation)
  | joinCreate     -- `join()`: a new lazy join future (never polled so far)
  | joinPoll       -- poll the newest join future once while the actor runs
  | joinAwait      -- await the newest join future (only issued after stop or cancellation)
  | joinDrop       -- drop the newest join future
  deriving DecidableEq, Repr, Inhabited

inductive Obs18 where
  | callOk | callErr | joinSome | joinNone | joinNA | joinPending
  deriving DecidableEq, Repr, Inhabited

def afterSpawn (w : SpawnWiring) (r : Runtime) (e : SpawnEntry) : S18 :=
  let s0 : S18 := { task := .running, slot := true, handle := .held, futs := [] }
  match w.disp e with
  | .kept => s0
  | .detached => ({ (s0.runDetachFn w r) with handle := .detached }).release w r
  | .dropped | .unknown =>
    ({ (if w.handleDropDetaches then s0.runDetachFn w r else s0) with handle := .gone }).release w r

def setLast (l : List JF) (v : JF) : List JF :=
  match l.reverse with
  | [] => []
  | _ :: rest => (v :: rest).reverse

/-- one poll of the newest join future; `block` = the client awaits it -/
def pollLast (w : SpawnWiring) (r : Runtime) (s : S18) : S18 × Option Obs18 :=
  match s.futs.getLast? with
  | some .unpolled =>
    if s.slot then
      (match s.task with
       | .finished => ({ s with slot := false, futs := setLast s.futs .done }, some .joinSome)
       | .cancelled => ({ s with slot := false, futs := setLast s.futs .done }, some .joinNone)
       | .running => ({ s with slot := false, futs := setLast s.futs .holding }, some .joinPending))
    else (({ s with futs := setLast s.futs .done }).release w r, some .joinNone)
  | some .holding =>
    (match s.task with
     | .finished => ({ s with futs := setLast s.futs .done }, some .joinSome)
     | .cancelled => ({ s with futs := setLast s.futs .done }, some .joinNone)
     | .running => (s, some .joinPending))
  | _ => (s, some .joinNA)

def step18 (w : SpawnWiring) (r : Runtime) (s : S18) : Op18 → S18 × Option Obs18
  | .dropOwner =>
    (match s.handle with
     | .held =>
       (({ (if w.handleDropDetaches then s.runDetachFn w r else s) with handle := .gone }).release w r, none)
     | _ => (s, none))
  | .detach =>
    (match s.handle with
     | .held => (({ (s.runDetachFn w r) with handle := .detached }).release w r, none)
     | _ => (s, none))
  | .stop => (if s.task = .running then { s with task := .finished } else s, none)
  | .call => (s, some (if s.task = .running then .callOk else .callErr))
  | .joinCreate =>
    (match s.handle with
     | .held => ({ s with futs := s.futs ++ [.unpolled] }, none)
     | _ => (s, some .joinNA))
  | .joinPoll => pollLast w r s
  | .joinAwait =>
    if s.task = .running then (s, some .joinNA)          -- would block: programs only await after stop
    else pollLast w r s
  | .joinDrop =>
    (match s.futs.getLast? with
     | some .unpolled => (({ s with futs := setLast s.futs .done }).release w r, none)
     | some .holding => ({ s with futs := setLast s.futs .done, task := dropTask w r s.task }, none)
     | _ => (s, none))
  | .join =>
    (match s.handle with
     | .held =>
       if s.task = .running then (s, some .joinNA)        -- would block: programs only join after stop
       else
         let (s', o) := pollLast w r { s with futs := s.futs ++ [.unpolled] }
         (s', o)
     | _ => (s, some .joinNA))

def run18 (w : SpawnWiring) (r : Runtime) : S18 → List Op18 → List Obs18
  | _, [] => []
  | s, op :: ops =>
    let (s', o) := step18 w r s op
    (match o with
     | some o => o :: run18 w r s' ops
     | none => run18 w r s' ops)

/-- the observable outcome of a program on a runtime -/
def outcome (w : SpawnWiring) (r : Runtime) (e : SpawnEntry) (p : List Op18) : List Obs18 :=
  run18 w r (afterSpawn w r e) p

end Hannibal
