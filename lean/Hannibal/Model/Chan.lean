import Hannibal.Model.Basic
/-
  The mailbox: one futures-channel mpsc queue, both submission paths.
  Mirrors `do_send_b` / `next_message` / `Receiver::drop` of futures-channel
  0.3.31 at API granularity.
-/
namespace Hannibal

/-- Who is waiting for flow control on a waiting-path submission. -/
inductive Tok where
  | op (o : Nat)       -- a client operation
  | timer (t : Nat)    -- a timer task of the actor itself
  | stale              -- a forcing-path submission (its fresh sender clone is dropped at once)
  deriving DecidableEq, Repr, Inhabited

inductive Payload where
  | msg (m : Nat) (slot : Option Nat)   -- user message; `slot` = the call op awaiting the reply
  | ping (o : Nat)
  | tick (t : Nat)                      -- from `interval`; message id is bound when handled
  | ext (k : Nat)                       -- from a submitter outside this actor's model
  | stop
  | restart
  deriving DecidableEq, Repr, Inhabited

structure Entry where
  pl : Payload
  tok : Tok
  deriving DecidableEq, Repr, Inhabited

structure Chan where
  cap : Option Nat          -- none = unbounded
  queue : List Entry        -- oldest first
  parked : List Tok         -- FIFO of parked sender tokens (`parked_queue`)
  rx : Bool                 -- the receiver (owned by the loop future) exists
  deriving DecidableEq, Repr, Inhabited

namespace Chan

def init (cap : Option Nat) : Chan := { cap, queue := [], parked := [], rx := true }

/-- `do_send_b`: always enqueues; parks the (fresh) sender iff the queue is then
    longer than the buffer. Both paths go through here. -/
def enq (c : Chan) (e : Entry) : Chan :=
  match c.cap with
  | none => { c with queue := c.queue ++ [e] }
  | some n =>
    if c.queue.length + 1 > n then
      { c with queue := c.queue ++ [e], parked := c.parked ++ [e.tok] }
    else
      { c with queue := c.queue ++ [e] }

/-- `next_message`: pop one message, unpark the oldest parked token. -/
def deq (c : Chan) : Chan :=
  { c with queue := c.queue.tail, parked := c.parked.tail }

/-- `Receiver::drop`: close, unpark everybody, drop what is queued. -/
def dropRx (c : Chan) : Chan :=
  { c with queue := [], parked := [], rx := false }

/-- "token `t` is parked" is derived from the token list (no flag to keep in sync). -/
def isParked (c : Chan) (t : Tok) : Bool := c.parked.contains t

end Chan
end Hannibal
