/-
  Vocabulary shared by the model, the monitors and the driver.
  Import-free on purpose: everything under Model/, Monitor/, Generated/ and
  Driver/ must link into the compiled `hdriver`.
-/
namespace Hannibal

/-- The two submission paths of `channel.rs`. -/
inductive Path where
  | waiting   -- `tx_fn`: SinkExt::send on a fresh clone (flow controlled)
  | forcing   -- `force_tx_fn`: start_send on a fresh clone (ignores the bound)
  deriving DecidableEq, Repr, Inhabited

/-- The two reference-counted closures that own the long-lived mpsc senders. -/
inductive Half where
  | tx | force
  deriving DecidableEq, Repr, Inhabited

inductive HKind where
  | addr | owning | sender | caller | weakAddr | weakSender | weakCaller
  deriving DecidableEq, Repr, Inhabited

def HKind.strong : HKind → Bool
  | .addr | .owning | .sender | .caller => true
  | _ => false

/-- The strong kind a weak kind upgrades to. -/
def HKind.upgraded : HKind → Option HKind
  | .weakAddr => some .addr
  | .weakSender => some .sender
  | .weakCaller => some .caller
  | _ => none

inductive Strategy where
  | only | recreate | non
  deriving DecidableEq, Repr, Inhabited

inductive Cb where
  | started
  | handle (m : Nat)
  | item (k : Nat)
  | finished
  | stopped
  deriving DecidableEq, Repr, Inhabited

inductive TimerKind where
  | interval | intervalWith | delayedSend | delayedExec
  deriving DecidableEq, Repr, Inhabited

/-- Client operations that are futures (have a `begin` and a `ret`). -/
inductive OpKind where
  | send (m : Nat)      -- Addr::send / OwningAddr::send / Sender::send
  | trySend (m : Nat)   -- WeakSender::try_send
  | tryForce (m : Nat)  -- WeakSender::try_force_send
  | call (m : Nat)      -- Addr::call / OwningAddr::call
  | callw (m : Nat)     -- Caller::call
  | tryCall (m : Nat)   -- WeakCaller::try_call
  | ping
  | halt
  | tryHalt
  | await
  | join
  | consume
  deriving DecidableEq, Repr, Inhabited

inductive ErrKind where
  | send | canceled | alreadyStopped | timeout | other
  deriving DecidableEq, Repr, Inhabited

/-- A reply value: message id, actor id, birth id of the value, digest. -/
structure Reply where
  m : Nat
  birth : Nat
  digest : List Nat
  deriving DecidableEq, Repr, Inhabited

/-- Final value handed out by join: birth, `stopped` seen, digest. -/
structure Final where
  birth : Nat
  stoppedSeen : Bool
  digest : List Nat
  deriving DecidableEq, Repr, Inhabited

inductive Res where
  | ok
  | okReply (r : Reply)
  | err (e : ErrKind)
  | none
  | some (f : Final)
  deriving DecidableEq, Repr, Inhabited

/-- API entry points whose submission path is read from the source. -/
inductive ApiOp where
  | addrSend | senderSend | callerCall | addrCall | addrPing | addrStop | addrRestart
  | ctxStop | ctxRestart | sendToChildren | brokerFanout
  deriving DecidableEq, Repr, Inhabited

inductive LivenessQuery where
  | truthful   -- answers from the latch itself
  | peekOnly   -- `Shared::peek`: only after some clone has been polled to completion
  | unknown
  deriving DecidableEq, Repr, Inhabited

/-- Structural facts read off `/repo`'s source by the translator
    (`Generated/Wiring.lean` defines `Wiring.current`). -/
structure Wiring where
  holds : HKind → List Half
  upgradeReq : HKind → List Half
  ctxStopReq : List Half
  ctxRestartReq : List Half
  ctxAddressReq : List Half
  path : ApiOp → Path
  timerPath : TimerKind → Path
  /-- `R::refresh` calls `stopped` before `started` (restartable strategies) -/
  refreshStopsThenStarts : Bool
  /-- `R::refresh` aborts the timers registered so far -/
  refreshResetsTimers : Bool
  /-- after the loop: `stopped()` completes before `notify()` -/
  notifyAfterStopped : Bool
  /-- stream loop: `finished()` before `stopped()` -/
  finishedBeforeStopped : Bool
  livenessQuery : LivenessQuery
  /-- `already_running` maps the entry through `running` (true) or `stopped` (false) -/
  alreadyRunningPolarity : Bool

end Hannibal
