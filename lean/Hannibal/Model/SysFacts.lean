/-
  Shape facts about the registry (`src/actor/service.rs`), the children map (`src/context.rs`) and the broker
  (`src/broker.rs`).  `Model/Registry.lean`, `Model/Sys.lean` and `Model/Broker.lean` are written by hand for code
  of exactly this shape; the translator /verif/extract reads each fact off /repo's working tree on every run
  (`Generated/SysFacts.lean`) and the property modules carry the obligation that the facts their model rests on
  hold (`shape08_current`, `shape09_current`, `shape16_current`).  A fact that turns false does not say the
  property fails - it says the model no longer describes the code, so the theorem no longer speaks about it.
-/
namespace Hannibal

structure SysFacts where
  /-- `from_registry_and_spawn`: one `REGISTRY.write()` guard spans the lookup (filtered by `Addr::running`),
      the spawn and the insert; no read-lock fast path (`rstep`: `ract`/`rspawn` are single steps, `lock`) -/
  lookupOrSpawnUnderOneWriteLock : Bool
  /-- `Addr::register`: under the write lock, replaces only an absent or stopped entry, else `ServiceStillRunning` -/
  registerReplacesOnlyStopped : Bool
  /-- `Addr::replace` / `unregister`: insert / remove under the write lock, returning the previous entry -/
  replaceUnregisterReturnPrevious : Bool
  /-- `try_from_registry`: `try_read`, hands out the entry only if it is running -/
  tryFromRegistryOnlyRunning : Bool
  /-- `already_running`: under the read lock, maps the entry through `Addr::running` (cf. `Wiring.alreadyRunningPolarity`) -/
  alreadyRunningReportsRunning : Bool
  /-- `add_child` / `register_child` push a strong `Sender` into `Context.children` -/
  childrenAreStrongSendersInContext : Bool
  /-- no other method of `Context` touches `children`: the senders are released when the context is dropped -/
  childrenDroppedOnlyWithContext : Bool
  /-- `send_to_children`: `force_send` to every child registered for the message type; an error is logged, the
      loop goes on -/
  broadcastToEveryRegisteredChild : Bool
  /-- `Broker<T>.subscribers : HashMap<ContextID, WeakSender<T>>`, insert / remove keyed by the sender's id -/
  brokerTableWeakKeyedBySubscriber : Bool
  /-- the `Publish` handler upgrades the table's entries and awaits `send` on each in turn, ignoring errors -/
  brokerFanoutSequentialIgnoringErrors : Bool
  /-- `Broker::publish/subscribe`, `Addr<Broker>::publish/subscribe/unsubscribe` and `Context::publish/subscribe`
      are plain sends of `Publish` / `Subscribe` / `Unsubscribe` to the registry's broker instance -/
  brokerOpsAreSendsThroughTheRegistry : Bool
  /-- `create_loop` reads the handler timeout from the configuration unchanged and races it against the payload
      future of a task and against nothing else (not `started`, not `stopped`, not stream items); on a timeout it
      continues or returns the error as `fail_on_timeout` says (`AState.deadlineAt`, `stepCbAbandon`) -/
  timeoutGuardsTaskPayloadsOnly : Bool
  deriving DecidableEq, Repr, Inhabited

/-- what `Model/Registry.lean` rests on -/
def SysFacts.ok08 (f : SysFacts) : Bool :=
  f.lookupOrSpawnUnderOneWriteLock && f.registerReplacesOnlyStopped && f.replaceUnregisterReturnPrevious
    && f.tryFromRegistryOnlyRunning && f.alreadyRunningReportsRunning

/-- what `Model/Broker.lean` rests on -/
def SysFacts.ok09 (f : SysFacts) : Bool :=
  f.brokerTableWeakKeyedBySubscriber && f.brokerFanoutSequentialIgnoringErrors
    && f.brokerOpsAreSendsThroughTheRegistry && f.lookupOrSpawnUnderOneWriteLock

/-- what `Model/Sys.lean` rests on -/
def SysFacts.ok16 (f : SysFacts) : Bool :=
  f.childrenAreStrongSendersInContext && f.childrenDroppedOnlyWithContext && f.broadcastToEveryRegisteredChild

/-- what the loop model's treatment of the handler timeout rests on -/
def SysFacts.ok11 (f : SysFacts) : Bool := f.timeoutGuardsTaskPayloadsOnly

end Hannibal
