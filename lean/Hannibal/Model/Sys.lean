import Hannibal.Model.Actor
/-
  Several actors and the parent → child edges of `Context::add_child` / `register_child`
  (`src/context.rs`: `children : HashMap<TypeId, Vec<AnyBox>>`, dropped with the context, i.e. when the
  parent's loop task ends for whatever reason; `send_to_children` force-sends to every child registered
  under the message type).  Every system step is made of steps of the single-actor model, so everything
  proved about one actor holds of every actor of a system (`Proofs/SysProj.lean`).
-/
namespace Hannibal

structure Kid where
  p : Nat       -- parent
  ty : Nat      -- 0: `add_child` (Sender<()>), j + 1: `register_child::<Bcast<j>>`
  c : Nat       -- child
  h : Nat       -- the `Sender` (a strong handle of the child) now owned by the parent's context
  deriving DecidableEq, Repr, Inhabited

structure Sys where
  actors : List (Nat × AState)
  kids : List Kid
  deriving DecidableEq, Repr, Inhabited

inductive SLabel where
  | spawn (a : Nat) (cfg : Cfg) (h0 : Nat) (k0 : HKind)
  | act (a : Nat) (l : Label)
  | addChild (p ty c h : Nat)
  | bcast (p ty b : Nat)
  deriving DecidableEq, Repr, Inhabited

/-- executor-level events that end the actor's task (and drop its context) -/
def Label.endsTask : Label → Bool
  | .taskDone | .taskPanic | .cancel => true
  | _ => false

namespace Sys

def init : Sys := { actors := [], kids := [] }

def get (S : Sys) (a : Nat) : Option AState := (S.actors.find? (fun p => p.1 == a)).map (·.2)

def set (S : Sys) (a : Nat) (s : AState) : Sys :=
  { S with actors := S.actors.map (fun p => if p.1 == a then (a, s) else p) }

/-- a handle that was moved into a parent's context is not the client's any more -/
def owned (S : Sys) (c h : Nat) : Bool := S.kids.any (fun k => k.c == c && k.h == h)

/-- labels a client may not perform on a handle it gave away, and labels that only the system issues -/
def clientOk (S : Sys) (a : Nat) : Label → Bool
  | .drop h | .mk h _ _ | .upgrade h _ | .detach h _ | .stopReq h _ | .restartReq h _ | .query h _ => !S.owned a h
  | .begin _ h _ => !S.owned a h
  | .extPush _ => false
  | _ => true

/-- apply a per-actor update to every actor -/
def applyTo (S : Sys) (f : Nat → AState → AState) : Sys :=
  { S with actors := S.actors.map (fun p => (p.1, f p.1 p.2)) }

/-- drop the handles `hs` of one actor (a handle that is not there is skipped) -/
def dropAll (hs : List Nat) (s : AState) : AState :=
  hs.foldl (fun s h => (s.stepDrop h).getD s) s

/-- `n` forced submissions of broadcast `b` -/
def pushAll (b : Nat) : Nat → AState → AState
  | 0, s => s
  | n + 1, s => pushAll b n ((s.stepExtPush b).getD s)

/-- the handles of child `c` owned by parent `p` -/
def heldBy (S : Sys) (p c : Nat) : List Nat := (S.kids.filter (fun k => k.p == p && k.c == c)).map (·.h)

/-- the parent's context is dropped: every child handle it owns is dropped -/
def release (S : Sys) (p : Nat) : Sys :=
  { (S.applyTo (fun c sc => dropAll (S.heldBy p c) sc)) with kids := S.kids.filter (fun k => k.p != p) }

/-- `send_to_children`: one `force_send` per registration of a child under the type (errors are only
    logged); different children do not influence each other -/
def broadcast (S : Sys) (p ty b : Nat) : Sys :=
  S.applyTo (fun c sc => pushAll b ((S.kids.filter (fun k => k.p == p && k.ty == ty && k.c == c)).length) sc)

end Sys

open Sys in
def sstep (w : Wiring) (S : Sys) : SLabel → Option Sys
  | .spawn a cfg h0 k0 =>
    if (S.get a).isSome then none
    else some { S with actors := S.actors ++ [(a, AState.init cfg h0 k0)] }
  | .act a l =>
    (match S.get a with
     | some s =>
       if !S.clientOk a l then none else
       (match step w s l with
        | some s' =>
          let S' := S.set a s'
          some (if l.endsTask then S'.release a else S')
        | none => none)
     | none => none)
  | .addChild p ty c h =>
    (match S.get p, S.get c with
     | some sp, some sc =>
       -- (no pending operation will consume the handle: handle ids are never reused in real traces)
       if sp.inCallback && sc.handleKind h == some .sender && !S.owned c h
          && !sc.ops.any (fun r => r.h == h && AState.consumesHandle r.kind) then
         some { S with kids := S.kids ++ [{ p, ty, c, h }] }
       else none
     | _, _ => none)
  | .bcast p ty b =>
    (match S.get p with
     | some sp => if sp.inCallback then some (S.broadcast p ty b) else none
     | none => none)

def srun (w : Wiring) (S : Sys) : List SLabel → Option Sys
  | [] => some S
  | l :: ls => match sstep w S l with
    | some S' => srun w S' ls
    | none => none

end Hannibal
