import Hannibal.Model.Actor
/-
  Acceptor: does the model have a run whose observable labels are exactly the
  given ones?  Frontier of states, closed under internal moves before every
  observable label.  A witness (the full label list with the τ-moves inserted)
  is returned, so acceptance can be re-checked by evaluating `run`.
-/
namespace Hannibal.Driver
open Hannibal

def tauLabels (_s : AState) : List Label :=
  [.tDeq, .tChanEnd, .tStreamEnd]

/-- A frontier element: state + the labels that led to it (reversed). -/
abbrev Node := AState × List Label

def insertNew (acc : List Node) (n : Node) : List Node :=
  if acc.any (fun m => m.1 == n.1) then acc else acc ++ [n]

/-- τ-closure with fuel. -/
def closure (w : Wiring) (fuel : Nat) (todo : List Node) (seen : List Node) : List Node :=
  match fuel, todo with
  | 0, _ => seen
  | _, [] => seen
  | fuel + 1, n :: rest =>
    let succs := (tauLabels n.1).filterMap (fun l => (dstep w n.1 l).map (fun s' => (s', l :: n.2)))
    let (seen', new) := succs.foldl (fun (acc : List Node × List Node) m =>
      if acc.1.any (fun x => x.1 == m.1) then acc else (acc.1 ++ [m], acc.2 ++ [m])) (seen, [])
    closure w fuel (rest ++ new) seen'

inductive Verdict where
  | accepted (witness : List Label) (maxFrontier : Nat) (tauUsed : Nat)
  | rejected (pos : Nat) (l : Label) (frontier : Nat)
  deriving Repr

def accept (w : Wiring) (s0 : AState) (ls : List Label) : Verdict :=
  let rec go (k : Nat) (front : List Node) (ls : List Label) (maxF : Nat) : Verdict :=
    match ls with
    | [] =>
      (match front with
       | n :: _ => .accepted n.2.reverse maxF (n.2.filter Label.isTau).length
       | [] => .rejected k (.quiescent []) 0)
    | l :: rest =>
      let cl := closure w 400 front front
      let next := cl.foldl (fun acc n =>
        match dstep w n.1 l with
        | some s' => insertNew acc (s', l :: n.2)
        | none => acc) []
      if next.isEmpty then .rejected k l cl.length
      else go (k + 1) next rest (max maxF cl.length)
  go 0 [(s0, [])] ls 0

end Hannibal.Driver
