import Hannibal.Model.Spawn
import Hannibal.Generated.SpawnWiring
/- C18 correspondence: the model's predicted observations for the rt18 scenarios. -/
namespace Hannibal.Driver
open Hannibal

def parseEntry : String → Option SpawnEntry
  | "spawn" => some .spawn | "spawnOwning" => some .spawnOwning | "spawnDefault" => some .spawnDefault
  | "spawnOwningDefault" => some .spawnOwningDefault | "spawnOnStream" => some .spawnOnStream
  | "spawnOwningOnStream" => some .spawnOwningOnStream | "builderSpawn" => some .builderSpawn
  | "builderSpawnOwning" => some .builderSpawnOwning | "streamBuilderSpawn" => some .streamBuilderSpawn
  | "streamBuilderSpawnOwning" => some .streamBuilderSpawnOwning | "fromRegistry" => some .fromRegistry
  | "register" => some .register | "spawnWith" => some .spawnWith | _ => none

def parseOp18 : String → Option Op18
  | "dropOwner" => some .dropOwner | "detach" => some .detach | "stop" => some .stop
  | "call" => some .call | "join" => some .join | "joinCreate" => some .joinCreate
  | "joinPoll" => some .joinPoll | "joinAwait" => some .joinAwait | "joinDrop" => some .joinDrop | _ => none

def parseRuntime : String → Runtime
  | "smol" => .smol | "async" => .asyncStd | _ => .tokio

def obsStr : Obs18 → String
  | .callOk => "callOk" | .callErr => "callErr" | .joinSome => "joinSome" | .joinNone => "joinNone"
  | .joinNA => "joinNA" | .joinPending => "joinPending"

/-- `sNN entry op,op => obs,obs` → verdict line -/
def checkLine (r : Runtime) (line : String) : String :=
  match (line.splitOn " ").filter (· != "") with
  | [name, entry, ops, "=>", obs] =>
    (match parseEntry entry, (ops.splitOn ",").mapM parseOp18 with
     | some e, some p =>
       let pred := ",".intercalate ((outcome SpawnWiring.current r e p).map obsStr)
       if pred == obs then s!"{name} agree {obs}" else s!"{name} DISAGREE real={obs} model={pred}"
     | _, _ => s!"{name} skipped")
  | name :: _ => s!"{name} skipped"
  | [] => ""

end Hannibal.Driver
