import Hannibal.Model.Broker
import Hannibal.Monitor.C09
import Hannibal.Driver.Parse
import Hannibal.Monitor.C05
import Std.Data.HashSet
/-
  C09 driver: per topic, the broker projection of a trace → is it a run of the broker model (internal moves
  inserted by search), do the monitors accept the witness, and at quiescence is everything delivered?
-/
namespace Hannibal.Driver
open Hannibal

/-- (labels of topic `j`, saw a `quiescent` line, lines not understood) -/
def parseBrk (j : Nat) (lines : List String) : List BLabel × Bool × List String :=
  let r := lines.foldl (fun (acc : (List BLabel × List Nat) × Bool × List String) line =>
    let ((ls, mine), q, bad) := acc
    match toks line with
    | ["bbegin", o, kind, jj, x] =>
      (match o.toNat?, jj.toNat?, x.toNat? with
       | some o, some jj, some x =>
         if jj != j then acc else
         (match kind with
          | "sub" => ((ls ++ [.bbegin o (.sub x)], o :: mine), q, bad)
          | "unsub" => ((ls ++ [.bbegin o (.unsub x)], o :: mine), q, bad)
          | "pub" => ((ls ++ [.bbegin o (.pub x)], o :: mine), q, bad)
          | _ => ((ls, mine), q, bad ++ [line]))
       | _, _, _ => ((ls, mine), q, bad ++ [line]))
    | "bret" :: o :: _ =>
      (match o.toNat? with
       | some o => if mine.contains o then ((ls ++ [.bret o], mine), q, bad) else acc
       | none => ((ls, mine), q, bad ++ [line]))
    | ["deliver", c, jj, m, _] =>
      (match c.toNat?, jj.toNat?, m.toNat? with
       | some c, some jj, some m => if jj != j then acc else ((ls ++ [.deliver c m], mine), q, bad)
       | _, _, _ => ((ls, mine), q, bad ++ [line]))
    | ["tdone", a] | ["taskpanic", "actor", a] | ["cancel", a] =>
      (match a.toNat? with
       | some a => ((ls ++ [.term a], mine), q, bad)
       | none => ((ls, mine), q, bad ++ [line]))
    | "quiescent" :: _ => ((ls, mine), true, bad)
    -- `Broker::try_publish` disagreed with the registry query made right before it: not a run of anything
    | "try_publish_mismatch" :: _ => ((ls, mine), q, bad ++ [line])
    | _ => acc) (([], []), false, [])
  (r.1.1, r.2.1, r.2.2)

def brkTaus (s : BrSt) : List BLabel :=
  (if s.mbox.isEmpty then [] else [BLabel.bproc]) ++ s.pend.map (fun p => BLabel.benq p.1)

/-- internal moves worth trying first, given the next observable label -/
def tauOrder (s : BrSt) (next : Option BLabel) : List BLabel :=
  let ts := brkTaus s
  let pri : List BLabel := match next with
    | some (.bret o) => [.benq o]
    | some (.deliver _ m) =>
      (match s.pend.find? (fun p => p.2 == .pub m) with
       | some p => [.bproc, .benq p.1]
       | none => [.bproc])
    | _ => []
  (pri.filter (fun t => ts.contains t)) ++ ts.filter (fun t => !pri.contains t)

inductive BVerdict where
  | accepted (witness : List BLabel) (final : BrSt) (explored : Nat)
  | rejected (pos : Nat) (l : Option BLabel) (explored : Nat)
  | inconclusive (explored : Nat)

/-- at quiescence the broker has handled everything and nothing is on its way any more -/
def settled (s : BrSt) : Bool := s.pend.isEmpty && s.mbox.isEmpty && s.flight.isEmpty

structure DfsSt where
  fuel : Nat
  failed : Std.HashSet (Nat × BrSt)
  deepest : Nat

/-- depth-first search for a run of the model with the given observable labels (complete up to the fuel;
    states from which the rest of the trace cannot be explained are remembered) -/
partial def dfs (ls : Array BLabel) (quiescent : Bool) (pos : Nat) (s : BrSt) (acc : List BLabel) :
    StateM DfsSt (Option (List BLabel × BrSt)) := do
  let st ← get
  if st.fuel == 0 then return none
  if st.failed.contains (pos, s) then return none
  set { st with fuel := st.fuel - 1, deepest := max st.deepest pos }
  let next := ls[pos]?
  -- the observable label itself
  match next with
  | none =>
    if !quiescent || settled s then return some (acc.reverse, s)
  | some l =>
    match bstep s l with
    | some s' =>
      match ← dfs ls quiescent (pos + 1) s' (l :: acc) with
      | some r => return some r
      | none => pure ()
    | none => pure ()
  -- an internal move first
  for t in tauOrder s next do
    match bstep s t with
    | some s' =>
      match ← dfs ls quiescent pos s' (t :: acc) with
      | some r => return some r
      | none => pure ()
    | none => pure ()
  modify (fun st => { st with failed := st.failed.insert (pos, s) })
  return none

def baccept (ls : List BLabel) (quiescent : Bool) : BVerdict :=
  let arr := ls.toArray
  let (r, st) := (dfs arr quiescent 0 BrSt.init []).run { fuel := 400000, failed := {}, deepest := 0 }
  match r with
  | some (wit, fin) => .accepted wit fin (400000 - st.fuel)
  | none =>
    if st.fuel == 0 then .inconclusive 400000
    else .rejected st.deepest (arr[st.deepest]?) (400000 - st.fuel)

def reprB (l : BLabel) : String := (toString (repr l)).replace "\n" " "

/-- "The broker never keeps a subscriber alive": the holder clause of C05 (`monC05q`: no strong holder left, no
    stop, no failure => terminated gracefully by quiescence) on every subscriber's own events.  The broker's
    table, its fan-out and anything else it keeps are not holders the trace knows of. -/
def subscriberLifetimes (header : String) (lines : List String) : String :=
  let c := parseCase header lines
  c.spawns.foldl (fun out sp =>
    let ls := c.labelsOf sp.a
    let ctx : MonCtx := { cfg := sp.cfg, h0 := sp.h, k0 := sp.hk, prompt := false }
    match (monC05q ctx).firstFail (monC05q ctx).init 0 ls with
    | some k => out ++ s!"monitor[C09]=violation@{k}:subscriber-{sp.a}-alive-without-a-strong-holder "
    | none => out) ""

/-- "terminated subscribers neither block nor fail a publish": no broker operation (publish, subscribe, unsubscribe)
    of the family ever returns an error - there is one broker per topic, it is a registry service, and it does not
    depend on its subscribers.  (The model's `bret` carries no result: `C09p_progress` says every begun operation
    can return; that it returns Ok is read off the trace here.) -/
def brokerOpFailed (lines : List String) : String :=
  match lines.findIdx? (fun l => match toks l with
      | "bret" :: _ :: "err" :: _ => true
      | _ => false) with
  | some k => s!"monitor[C09]=violation@{k}:broker-operation-failed:{(lines.getD k "").replace " " "_"} "
  | none => ""

def processBrk (header : String) (lines : List String) (showWitness : Bool) : String :=
  (fun out => out ++ subscriberLifetimes header lines ++ brokerOpFailed lines) <|
  [0, 1].foldl (fun out j =>
    let (ls, q, bad) := parseBrk j lines
    let out := if bad.isEmpty then out else out ++ s!"unparsed={bad.length}:{bad.head!} "
    match baccept ls q with
    | .inconclusive n =>
      out ++ s!"actor={j} accept=rejected@0:search-budget-exhausted:frontier={n} "
    | .accepted wit _ maxF =>
      let tau := (wit.filter BLabel.isTau).length
      let out := out ++ s!"actor={j} accept=ok labels={ls.length} tau={tau} frontier={maxF} "
      let out := match monC09.firstFail monC09.init 0 wit with
        | some k => out ++ s!"monitor[C09]=violation@{k}:{reprB (wit.getD k .bproc)} "
        | none =>
          -- the hypothesis of `C09_holds` (no publication number is published twice) holds of the trace
          (match wfC09.firstFail wfC09.init 0 ls with
           | some k => out ++ s!"monitor[C09]=violation@{k}:wf09-publication-number-reused:{reprB (ls.getD k .bproc)} "
           | none =>
             (match monC09.run monC09.init wit with
              | some st => if q && !st.quiescentOk then out ++ s!"monitor[C09]=violation@{wit.length}:missing-delivery-topic-{j} "
                           else out ++ "monitor[C09]=ok "
              | none => out))
      if showWitness then out ++ "\n  witness: " ++ " ; ".intercalate (wit.map reprB) ++ "\n" else out
    | .rejected k l f =>
      -- the model cannot explain the history; the specification is still asked about the observable events
      let out := out ++ s!"actor={j} accept=rejected@{k}:{(l.map reprB).getD "quiescence-not-settled"}:frontier={f} "
      (match monC09.firstFail monC09.init 0 ls with
       | some k => out ++ s!"monitor[C09]=violation@{k}:{reprB (ls.getD k .bproc)} "
       | none =>
         (match wfC09.firstFail wfC09.init 0 ls with
          | some k => out ++ s!"monitor[C09]=violation@{k}:wf09-publication-number-reused:{reprB (ls.getD k .bproc)} "
          | none =>
            (match monC09.run monC09.init ls with
             | some st => if q && !st.quiescentOk then out ++ s!"monitor[C09]=violation@{ls.length}:missing-delivery-topic-{j} "
                          else out
             | none => out))))
    s!"{header} :: "

end Hannibal.Driver
