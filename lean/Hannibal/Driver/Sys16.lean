import Hannibal.Model.Sys
import Hannibal.Monitor.C16
import Hannibal.Driver.Parse
import Hannibal.Driver.Monitors
/-
  C16 driver: the whole multi-actor trace against the system model (internal moves of every actor
  inserted by search), then the C16 monitors on the witness and C05 on every actor's projection.
-/
namespace Hannibal.Driver
open Hannibal

abbrev SNode := Sys × List SLabel

def sysTaus (S : Sys) : List SLabel :=
  S.actors.foldl (fun acc p => acc ++ [SLabel.act p.1 .tDeq, .act p.1 .tChanEnd, .act p.1 .tStreamEnd]) []

def sclosure (w : Wiring) (fuel : Nat) (todo : List SNode) (seen : List SNode) : List SNode :=
  match fuel, todo with
  | 0, _ => seen
  | _, [] => seen
  | fuel + 1, n :: rest =>
    let succs := (sysTaus n.1).filterMap (fun l => (sstep w n.1 l).map (fun s' => (s', l :: n.2)))
    let (seen', new) := succs.foldl (fun (acc : List SNode × List SNode) m =>
      if acc.1.any (fun x => x.1 == m.1) then acc else (acc.1 ++ [m], acc.2 ++ [m])) (seen, [])
    sclosure w fuel (rest ++ new) seen'

inductive SVerdict where
  | accepted (witness : List SLabel) (maxFrontier : Nat)
  | rejected (pos : Nat) (l : Option SLabel) (frontier : Nat)

def saccept (w : Wiring) (ls : List SLabel) : SVerdict :=
  let rec go (k : Nat) (front : List SNode) (ls : List SLabel) (maxF : Nat) : SVerdict :=
    match ls with
    | [] =>
      (match front with
       | n :: _ => .accepted n.2.reverse maxF
       | [] => .rejected k none 0)
    | l :: rest =>
      let cl := sclosure w 600 front front
      let next := cl.foldl (fun acc n =>
        match sstep w n.1 l with
        | some s' => if acc.any (fun (m : SNode) => m.1 == s') then acc else acc ++ [(s', l :: n.2)]
        | none => acc) []
      if next.isEmpty then .rejected k (some l) cl.length
      else go (k + 1) next rest (max maxF cl.length)
  go 0 [(Sys.init, [])] ls 0

def reprS (l : SLabel) : String := (toString (repr l)).replace "\n" " "

def isSysTau : SLabel → Bool
  | .act _ l => l.isTau
  | _ => false

def processSys (w : Wiring) (header : String) (lines : List String) (showWitness : Bool) : String :=
  let c := parseCase header lines
  let out := s!"{header} :: "
  let out := if c.bad.isEmpty then out else out ++ s!"unparsed={c.bad.length}:{c.bad.head!} "
  match saccept w c.slabels with
  | .accepted wit maxF =>
    let tau := (wit.filter isSysTau).length
    let out := out ++ s!"actor=0 accept=ok labels={c.slabels.length} tau={tau} frontier={maxF} "
    let v1 := monC16.firstFail monC16.init 0 wit
    let v2 := monC16q.firstFail monC16q.init 0 wit
    let out := match v1, v2 with
      | some k, _ => out ++ s!"monitor[C16]=violation@{k}:{reprS (wit.getD k (.bcast 0 0 0))} "
      | none, some k => out ++ s!"monitor[C16]=violation@{k}:{reprS (wit.getD k (.bcast 0 0 0))} "
      | none, none => out ++ "monitor[C16]=ok "
    -- lifetime: C05 on every actor's projection
    let out := c.spawns.foldl (fun out sp =>
      let ls := projOf sp.a wit
      let ctx : MonCtx := { cfg := sp.cfg, h0 := sp.h, k0 := sp.hk, prompt := false }
      match runMonitor "C05" ctx ls with
      | some (some k) => out ++ s!"monitor[C16]=violation@{k}:lifetime-of-actor-{sp.a}:{(toString (repr (ls.getD k (.quiescent [])))).replace "\n" " "} "
      | _ => out) out
    if showWitness then out ++ "\n  witness: " ++ " ; ".intercalate (wit.map reprS) else out
  | .rejected k l f =>
    -- the model cannot explain the trace; the broadcast monitors only look at observable events: ask them anyway
    let out := out ++ s!"actor=0 accept=rejected@{k}:{(l.map reprS).getD "end"}:frontier={f} "
    match monC16.firstFail monC16.init 0 c.slabels, monC16q.firstFail monC16q.init 0 c.slabels with
    | some k, _ => out ++ s!"monitor[C16]=violation@{k}:{reprS (c.slabels.getD k (.bcast 0 0 0))} "
    | none, some k => out ++ s!"monitor[C16]=violation@{k}:{reprS (c.slabels.getD k (.bcast 0 0 0))} "
    | none, none => out

end Hannibal.Driver
