import Hannibal.Model.Types
import Hannibal.Generated.Bounds
/- C19 correspondence: the model's verdict for each catalogue program (its `// USE` line). -/
namespace Hannibal.Driver
open Hannibal

def parseEntry19 : String → Option ApiEntry
  | "addrSend" => some .addrSend | "addrCall" => some .addrCall | "addrSender" => some .addrSender
  | "addrWeakSender" => some .addrWeakSender | "addrCaller" => some .addrCaller
  | "addrWeakCaller" => some .addrWeakCaller | "ctxWeakSender" => some .ctxWeakSender
  | "owningSend" => some .owningSend | "owningCall" => some .owningCall
  | "ctxWeakCaller" => some .ctxWeakCaller | "ctxInterval" => some .ctxInterval
  | "ctxIntervalWith" => some .ctxIntervalWith | "ctxDelayedSend" => some .ctxDelayedSend
  | "ctxRegisterChild" => some .ctxRegisterChild | "ctxSendToChildren" => some .ctxSendToChildren
  | "ctxSubscribe" => some .ctxSubscribe | "ctxPublish" => some .ctxPublish
  | "brokerPublish" => some .brokerPublish | "brokerSubscribe" => some .brokerSubscribe
  | "addrRestart" => some .addrRestart | "ctxRestart" => some .ctxRestart
  | "withStream" => some .withStream | "recreateFromDefault" => some .recreateFromDefault
  | "builderOnStream" => some .builderOnStream | "builderBoundedOnStream" => some .builderBoundedOnStream
  | "brokerTryPublish" => some .brokerTryPublish | "brokerAddrPublish" => some .brokerAddrPublish
  | "brokerAddrSubscribe" => some .brokerAddrSubscribe | "brokerAddrUnsubscribe" => some .brokerAddrUnsubscribe
  | "spawnOnStream" => some .spawnOnStream | "spawnOwningOnStream" => some .spawnOwningOnStream
  | _ => none

def kv (toks : List String) (key : String) : String :=
  match toks.find? (fun t => t.startsWith (key ++ "=")) with
  | some t => String.ofList (t.toList.drop (key.length + 1))
  | none => ""

def natList (s : String) : List Nat := (s.splitOn ",").filterMap (·.toNat?)

def parseState : String → BState
  | "nonRestartable" => .nonRestartable | "recreate" => .recreate | _ => .restartOnly

def checkUse (line : String) : String :=
  let toks := (line.splitOn " ").filter (· != "")
  let name := kv toks "name"
  match parseEntry19 (kv toks "entry") with
  | none => s!"{name} skipped"
  | some e =>
    let u : Use :=
      { entry := e,
        actor := { handles := natList (kv toks "handles"), restartable := kv toks "restartable" == "1",
                   hasDefault := kv toks "default" == "1", streamItems := natList (kv toks "streams") },
        msg := { id := (kv toks "msg").toNat?.getD 0, unitResponse := kv toks "unit" == "1" },
        item := (kv toks "item").toNat?.getD 0, state := parseState (kv toks "state") }
    s!"{name} accepts={accepts Bounds.current u}"

end Hannibal.Driver
