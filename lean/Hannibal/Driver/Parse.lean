import Hannibal.Model.Actor
import Hannibal.Model.Sys
/-
  Trace lines (the contract with the harness) → per-actor label sequences.
  Trusted glue: no property depends on anything but the labels produced here.
-/
namespace Hannibal.Driver
open Hannibal

def toks (line : String) : List String :=
  (line.splitOn " ").filter (fun t => t != "")

def nat? (s : String) : Option Nat := s.toNat?

def natOrDash (s : String) : Option (Option Nat) :=
  if s == "-" then some none else (s.toNat?).map some

structure SpawnInfo where
  a : Nat
  h : Nat
  hk : HKind
  cfg : Cfg
  deriving Repr, Inhabited

/-- Parser state for one case: which handle / operation belongs to which actor. -/
structure PState where
  hmap : List (Nat × Nat) := []     -- handle → actor
  omap : List (Nat × Nat) := []     -- operation → actor
  spawns : List SpawnInfo := []
  labels : List (Nat × Label) := [] -- (actor, label), reverse order
  slabels : List SLabel := []       -- the same events as system labels (plus the multi-actor ones), reverse order
  bad : List String := []           -- lines not understood
  deriving Inhabited

def PState.actorOfH (p : PState) (h : Nat) : Option Nat := (p.hmap.find? (·.1 == h)).map (·.2)
def PState.actorOfO (p : PState) (o : Nat) : Option Nat := (p.omap.find? (·.1 == o)).map (·.2)
def PState.emit (p : PState) (a : Nat) (l : Label) : PState :=
  { p with labels := (a, l) :: p.labels, slabels := .act a l :: p.slabels }
def PState.semit (p : PState) (l : SLabel) : PState := { p with slabels := l :: p.slabels }
def PState.oops (p : PState) (line : String) : PState := { p with bad := line :: p.bad }

def parseStrat : String → Option Strategy
  | "only" => some .only | "recreate" => some .recreate | "non" => some .non | _ => none

def parseCb (name arg : String) : Option Cb :=
  match name with
  | "started" => some .started
  | "stopped" => some .stopped
  | "finished" => some .finished
  | "handle" => arg.toNat?.map .handle
  | "item" => arg.toNat?.map .item
  | _ => none

def parseErr : String → ErrKind
  | "send" => .send | "canceled" => .canceled | "already_stopped" => .alreadyStopped
  | "timeout" => .timeout | _ => .other

def parseNats (l : List String) : List Nat := l.filterMap (·.toNat?)

/-- `ok` | `ok m a birth n d1..dn` | `err k` | `none` | `some birth seen n d1..dn` -/
def parseRes : List String → Option Res
  | ["ok"] => some .ok
  | "ok" :: m :: _a :: b :: _n :: ds =>
    match m.toNat?, b.toNat? with
    | some m, some b => some (.okReply { m, birth := b, digest := parseNats ds })
    | _, _ => none
  | ["err", k] => some (.err (parseErr k))
  | ["none"] => some .none
  | "some" :: b :: seen :: _n :: ds =>
    match b.toNat? with
    | some b => some (.some { birth := b, stoppedSeen := seen == "1", digest := parseNats ds })
    | none => none
  | _ => none

def parseOpKind (name : String) (m : Option Nat) : Option OpKind :=
  match name, m with
  | "send", some m => some (.send m)
  | "try_send", some m => some (.trySend m)
  | "try_force_send", some m => some (.tryForce m)
  | "call", some m => some (.call m)
  | "callw", some m => some (.callw m)
  | "try_call", some m => some (.tryCall m)
  | "ping", _ => some .ping
  | "halt", _ => some .halt
  | "try_halt", _ => some .tryHalt
  | "await", _ => some .await
  | "join", _ => some .join
  | "consume", _ => some .consume
  | _, _ => none

def convKind (src : Option HKind) : String → Option HKind
  | "clone" => src
  | "to_addr" => some .addr
  | "downgrade" => (match src with
      | some .addr | some .owning => some .weakAddr
      | some .sender => some .weakSender
      | some .caller => some .weakCaller
      | _ => none)
  | "sender" => some .sender
  | "caller" => some .caller
  | "weak_sender" => some .weakSender
  | "weak_caller" => some .weakCaller
  | _ => none

/-- kinds of the handles as the parser has seen them (for `clone` / `downgrade`) -/
abbrev KMap := List (Nat × HKind)

def parseLine (p : PState) (km : KMap) (line : String) : PState × KMap :=
  let ts := toks line
  let all (l : Label) : PState :=   -- label for every spawned actor
    p.spawns.foldl (fun q s => q.emit s.a l) p
  match ts with
  | ["spawn", a, h, hk, cap, strat, timeout, fail, stream] =>
    (match a.toNat?, h.toNat?, natOrDash cap, parseStrat strat, natOrDash timeout with
     | some a, some h, some cap, some strat, some timeout =>
       let hk := if hk == "owning" then HKind.owning else HKind.addr
       let cfg : Cfg := { cap, strat, timeout, failOnTimeout := fail == "1", stream := stream == "1" }
       ({ (p.semit (.spawn a cfg h hk)) with hmap := (h, a) :: p.hmap, spawns := p.spawns ++ [{ a, h, hk, cfg }] },
        (h, hk) :: km)
     | _, _, _, _, _ => (p.oops line, km))
  | ["vnew", a, b, _k] =>
    (match a.toNat?, b.toNat? with
     | some a, some b => (p.emit a (.vnew b), km)
     | _, _ => (p.oops line, km))
  | ["begin", o, _c, h, opn, m] =>
    (match o.toNat?, h.toNat?, natOrDash m with
     | some o, some h, some m =>
       (match p.actorOfH h, parseOpKind opn m with
        | some a, some k => ({ (p.emit a (.begin o h k)) with omap := (o, a) :: p.omap }, km)
        | _, _ => (p.oops line, km))
     | _, _, _ => (p.oops line, km))
  | "ret" :: o :: rest =>
    (match o.toNat? with
     | some o =>
       (match p.actorOfO o, parseRes rest with
        | some a, some r => (p.emit a (.ret o r), km)
        | _, _ => (p.oops line, km))
     | none => (p.oops line, km))
  | ["cdrop", o] =>
    (match o.toNat? with
     | some o => (match p.actorOfO o with
        | some a => (p.emit a (.cdrop o), km)
        | none => (p.oops line, km))
     | none => (p.oops line, km))
  | "sync" :: _c :: h :: opn :: rest =>
    (match h.toNat? with
     | none => (p.oops line, km)
     | some h =>
       match p.actorOfH h with
       | none => (p.oops line, km)
       | some a =>
         let src := (km.find? (·.1 == h)).map (·.2)
         match opn, rest with
         | "stop", "ok" :: _ => (p.emit a (.stopReq h true), km)
         | "stop", "err" :: _ => (p.emit a (.stopReq h false), km)
         | "try_stop", "ok" :: _ => (p.emit a (.stopReq h true), km)
         | "try_stop", "err" :: _ => (p.emit a (.stopReq h false), km)
         | "restart", "ok" :: _ => (p.emit a (.restartReq h true), km)
         | "restart", "err" :: _ => (p.emit a (.restartReq h false), km)
         | "drop", _ => (p.emit a (.drop h), km)
         | "stopped?", [b] => (p.emit a (.query h (b == "1")), km)
         | "running?", [b] => (p.emit a (.query h (b == "0")), km)
         | "upgrade", ["none"] => (p.emit a (.upgrade h none), km)
         | "upgrade", ["ok", h2] =>
           (match h2.toNat?, src.bind HKind.upgraded with
            | some h2, some k2 =>
              ({ (p.emit a (.upgrade h (some h2))) with hmap := (h2, a) :: p.hmap }, (h2, k2) :: km)
            | _, _ => (p.oops line, km))
         | "detach", ["ok", h2] =>
           (match h2.toNat? with
            | some h2 => ({ (p.emit a (.detach h h2)) with hmap := (h2, a) :: p.hmap }, (h2, .addr) :: km)
            | none => (p.oops line, km))
         | conv, ["ok", h2] =>
           (match h2.toNat?, convKind src conv with
            | some h2, some k2 =>
              ({ (p.emit a (.mk h h2 k2)) with hmap := (h2, a) :: p.hmap }, (h2, k2) :: km)
            | _, _ => (p.oops line, km))
         | _, _ => (p.oops line, km))
  | ["cbb", a, _b, cb, arg] =>
    (match a.toNat?, parseCb cb arg with
     | some a, some cb => (p.emit a (.cbBegin cb), km)
     | _, _ => (p.oops line, km))
  | ["cbe", a, cb, arg, okk] =>
    (match a.toNat?, parseCb cb arg with
     | some a, some cb => (p.emit a (.cbEnd cb (okk == "ok")), km)
     | _, _ => (p.oops line, km))
  | ["cba", a, cb, arg] =>
    (match a.toNat?, parseCb cb arg with
     | some a, some cb => (p.emit a (.cbAbandon cb), km)
     | _, _ => (p.oops line, km))
  | ["cbp", a, cb, arg] =>
    (match a.toNat?, parseCb cb arg with
     | some a, some cb => (p.emit a (.cbPanic cb), km)
     | _, _ => (p.oops line, km))
  | ["work", a, d] =>
    (match a.toNat?, d.toNat? with
     | some a, some d => (p.emit a (.work d), km)
     | _, _ => (p.oops line, km))
  | "ctx" :: a :: opn :: rest =>
    (match a.toNat? with
     | none => (p.oops line, km)
     | some a =>
       match opn, rest with
       | "stop", "ok" :: _ => (p.emit a (.ctxStop true), km)
       | "stop", "err" :: _ => (p.emit a (.ctxStop false), km)
       | "restart", "ok" :: _ => (p.emit a (.ctxRestart true), km)
       | "restart", "err" :: _ => (p.emit a (.ctxRestart false), km)
       | "interval", [t, d] =>
         (match t.toNat?, d.toNat? with
          | some t, some d => (p.emit a (.ctxTimer t .interval d), km) | _, _ => (p.oops line, km))
       | "interval_with", [t, d] =>
         (match t.toNat?, d.toNat? with
          | some t, some d => (p.emit a (.ctxTimer t .intervalWith d), km) | _, _ => (p.oops line, km))
       | "delayed_send", [t, d] =>
         (match t.toNat?, d.toNat? with
          | some t, some d => (p.emit a (.ctxTimer t .delayedSend d), km) | _, _ => (p.oops line, km))
       | "delayed_exec", [t, d] =>
         (match t.toNat?, d.toNat? with
          | some t, some d => (p.emit a (.ctxTimer t .delayedExec d), km) | _, _ => (p.oops line, km))
       | "add_child", [h] =>
         (match h.toNat? with
          | some h => (match p.actorOfH h with
            | some c => (p.semit (.addChild a 0 c h), km)
            | none => (p.oops line, km))
          | none => (p.oops line, km))
       | "register_child", [j, h] =>
         (match j.toNat?, h.toNat? with
          | some j, some h => (match p.actorOfH h with
            | some c => (p.semit (.addChild a (j + 1) c h), km)
            | none => (p.oops line, km))
          | _, _ => (p.oops line, km))
       | "send_to_children", [j, b] =>
         (match j.toNat?, b.toNat? with
          | some j, some b => (p.semit (.bcast a (j + 1) b), km)
          | _, _ => (p.oops line, km))
       | "send_to_children_unit", [b] =>
         (match b.toNat? with
          | some b => (p.semit (.bcast a 0 b), km)
          | none => (p.oops line, km))
       | "weak_address", ["none"] => (p.emit a (.ctxWeak .weakAddr none), km)
       | "weak_address", ["some", h] =>
         (match h.toNat? with
          | some h => ({ (p.emit a (.ctxWeak .weakAddr (some h))) with hmap := (h, a) :: p.hmap }, (h, .weakAddr) :: km)
          | none => (p.oops line, km))
       | "weak_sender", [h] =>
         (match h.toNat? with
          | some h => ({ (p.emit a (.ctxWeak .weakSender (some h))) with hmap := (h, a) :: p.hmap }, (h, .weakSender) :: km)
          | none => (p.oops line, km))
       | "weak_caller", [h] =>
         (match h.toNat? with
          | some h => ({ (p.emit a (.ctxWeak .weakCaller (some h))) with hmap := (h, a) :: p.hmap }, (h, .weakCaller) :: km)
          | none => (p.oops line, km))
       | _, _ => (p.oops line, km))
  | ["fire", a, t, m] =>
    (match a.toNat?, t.toNat?, natOrDash m with
     | some a, some t, some m => (p.emit a (.fire t m), km)
     | _, _, _ => (p.oops line, km))
  | ["tarm", a, t, due] =>
    (match a.toNat?, t.toNat?, due.toNat? with
     | some a, some t, some due => (p.emit a (.timerArm t due), km)
     | _, _, _ => (p.oops line, km))
  | ["tend", a, t] =>
    (match a.toNat?, t.toNat? with
     | some a, some t => (p.emit a (.timerEnd t), km)
     | _, _ => (p.oops line, km))
  | ["bcast", c, _j, b, m] =>
    (match c.toNat?, b.toNat?, m.toNat? with
     | some c, some b, some m => (p.emit c (.extBegin b m), km)
     | _, _, _ => (p.oops line, km))
  | ["tick", a, t, m] =>
    (match a.toNat?, t.toNat?, m.toNat? with
     | some a, some t, some m => (p.emit a (.tickBegin t m), km)
     | _, _, _ => (p.oops line, km))
  | ["time", t] =>
    (match t.toNat? with
     | some t => (all (.time t), km)
     | none => (p.oops line, km))
  | ["cancel", a] =>
    (match a.toNat? with
     | some a => (p.emit a .cancel, km)
     | none => (p.oops line, km))
  | ["taskpanic", "actor", a] =>
    (match a.toNat? with
     | some a => (p.emit a .taskPanic, km)
     | none => (p.oops line, km))
  | "taskpanic" :: _ => (p, km)
  | ["tdone", a] =>
    (match a.toNat? with
     | some a => (p.emit a .taskDone, km)
     | none => (p.oops line, km))
  | ["stream", a, "ready", k] =>
    (match a.toNat?, k.toNat? with
     | some a, some k => (p.emit a (.streamReady k), km)
     | _, _ => (p.oops line, km))
  | ["stream", a, "end"] =>
    (match a.toNat? with
     | some a => (p.emit a .streamEnd, km)
     | none => (p.oops line, km))
  | "vdrop" :: _ => (p, km)
  | "cend" :: _ => (p, km)
  | "census" :: _ => (p, km)
  | "svcnew" :: _ => (p, km)
  | "note" :: _ => (p, km)          -- remarks of the harness that are no events (a `try_publish` that found no broker)
  | "quiescent" :: rest =>
    -- every actor is told which of the operations still pending are operations on it
    let pend := parseNats rest
    (p.spawns.foldl (fun q s => q.emit s.a (.quiescent (pend.filter (fun o => p.actorOfO o == some s.a)))) p, km)
  | "horizon" :: _ => (p, km)
  | "cutoff" :: _ => (p, km)
  | [] => (p, km)
  | _ => (p.oops line, km)

structure Case where
  header : String
  spawns : List SpawnInfo
  labels : List (Nat × Label)     -- in trace order
  slabels : List SLabel           -- in trace order
  bad : List String
  deriving Inhabited

def parseCase (header : String) (lines : List String) : Case :=
  let (p, _) := lines.foldl (fun (acc : PState × KMap) line => parseLine acc.1 acc.2 line) ({}, [])
  { header, spawns := p.spawns, labels := p.labels.reverse, slabels := p.slabels.reverse, bad := p.bad.reverse }

def Case.labelsOf (c : Case) (a : Nat) : List Label :=
  (c.labels.filter (·.1 == a)).map (·.2)

end Hannibal.Driver
