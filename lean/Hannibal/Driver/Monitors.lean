import Hannibal.Monitor.C01
import Hannibal.Monitor.C01P
import Hannibal.Monitor.C02
import Hannibal.Monitor.C02C
import Hannibal.Monitor.C03
import Hannibal.Monitor.C04
import Hannibal.Monitor.C04P
import Hannibal.Monitor.C05
import Hannibal.Monitor.C05D
import Hannibal.Monitor.C06
import Hannibal.Monitor.C07
import Hannibal.Monitor.C10
import Hannibal.Monitor.C11
import Hannibal.Monitor.C11C
import Hannibal.Monitor.C12
import Hannibal.Monitor.C12Q
import Hannibal.Monitor.C13
import Hannibal.Monitor.C14
import Hannibal.Monitor.C15
import Hannibal.Monitor.C17
import Hannibal.Monitor.C17R
import Hannibal.Monitor.SendErr
import Hannibal.Monitor.CancelErr
/- Registry: property id → monitor run on one actor's labels (index of first violation). -/
namespace Hannibal.Driver
open Hannibal

def ff {σ : Type} (m : Mon σ) (ls : List Label) : Option Nat := m.firstFail m.init 0 ls

def firstSome : List (Option Nat) → Option Nat
  | [] => none
  | some k :: _ => some k
  | none :: r => firstSome r

/-- the trace-side hypotheses of the theorems, as automata: fresh message numbers and operation ids, unique begins -/
def wfAll (c : MonCtx) (ls : List Label) : List (Option Nat) :=
  [ff monWf01 ls, ff (monC02wf c) ls, ff monUniq ls]

/-- Per property: every monitor that formalises a clause of the property's text - the monitors written under the
    property's own number first, then monitors written under another number whose clause the text also states
    (all of them proved for every run of the model, under the hypotheses `wfAll` checks on the trace) -/
def runMonitor (pid : String) (c : MonCtx) (ls : List Label) : Option (Option Nat) :=
  match pid with
  | "C01" => some (firstSome ([ff (monC01 c) ls,
      -- "the state is the fold of the handled messages": an incarnation is only replaced by a requested restart,
      -- and "handled" means run to completion: an invocation is only ever abandoned by a configured timeout
      ff (monC07 c) ls, ff (monC07o c) ls, ff (monC11 c) ls,
      ff monC01p ls] ++ wfAll c ls))     -- a ping never overtakes an earlier acknowledged send
  | "C02" => some (firstSome ([ff (monC02 c) ls, ff (monC02t c) ls,
      -- "awaits complete with the termination result": Ok only after a graceful end, an error after a failure
      ff (monC04 c) ls, ff (monC06 c) ls,
      ff monC02c ls,                     -- a call whose message was handled to completion does not return an error
      ff monC04p ls,                     -- a ping begun after an accepted stop returned never returns Ok
      ff monSendErr ls,                  -- only operations begun after the end of the task are refused (`SendErr_holds`)
      ff monCancelErr ls] ++ wfAll c ls)) -- a call / ping is cancelled only for a reason (`CancelErr_holds`)
  | "C03" => some (firstSome ([ff (monC03 c) ls, ff (monC03q c) ls] ++ wfAll c ls))
  | "C04" => some (firstSome ([ff (monC04 c) ls, ff (monC04q c) ls,
      -- "halt and join resolve only after stopped has finished ... an error / None when the actor failed"
      ff (monC17 c) ls, ff (monC06 c) ls,
      ff monC02c ls,                     -- "every message whose submission completed before ... (its call returns Ok)"
      ff monC04p ls,                     -- "no message submitted after an accepted stop request returned is ever handled": pings
      ff monSendErr ls] ++ wfAll c ls)) -- the mailbox stays open through `stopped`: nothing is refused before the task ends
  | "C05" => some (firstSome ([ff (monC05 c) ls, ff (monC05q c) ls,
      ff (monC05d c) ls,          -- dropped calls are drained too
      ff (monC03 c) ls] ++ wfAll c ls))   -- "terminates gracefully exactly as after stop"
  | "C06" => some (firstSome ([ff (monC06 c) ls, ff (monC06t c) ls,
      -- "join yields None, its timers stop firing"; nothing is handled after a failed start
      ff (monC17 c) ls, ff (monC10 c) ls, ff (monC03 c) ls,
      ff (monC14 c) ls] ++ wfAll c ls))    -- "the service registry treats it as not running": what the queries say
  | "C07" => some (firstSome ([ff (monC07 c) ls, ff (monC07o c) ls,
      -- "behaves like a freshly started actor"; "a started error during restart terminates the actor as failed"
      ff (monC03 c) ls, ff (monC06 c) ls] ++ wfAll c ls))
  | "C10" => some (firstSome ([ff (monC10 c) ls, ff (monC10q c) ls,
      ff (monC05 c) ls, ff (monC05q c) ls] ++ wfAll c ls))   -- "timers never keep the actor alive"
  | "C11" => some (firstSome ([ff (monC11 c) ls, ff (monC11p c) ls,
      ff (monC11c c) ls,          -- the caller of an abandoned invocation gets an error (proved)
      ff monCancelErr ls,         -- ... and nobody else's call does while the actor lives on (`CancelErr_holds`)
      -- "state intact afterwards", and no change of incarnation that nobody asked for
      ff (monC01 c) ls, ff (monC07 c) ls] ++ wfAll c ls))
  | "C12" => some (firstSome ([ff (monC12 c.cfg.cap) ls,
      ff monC12q ls,              -- every send returns once the actor has caught up ...
      ff (monC02 c) ls] ++ wfAll c ls))   -- ... or terminated (clause (d) of monC02)
  | "C13" => some (firstSome ([ff (monC13 c) ls, ff (monC13q c) ls,
      ff (monC13f c) ls,          -- fairness of the tie-break (statistical, trace-only)
      -- "finished and then stopped exactly once and the address resolves Ok"; "each source in its own order"
      ff (monC03 c) ls, ff (monC04 c) ls, ff (monC01 c) ls] ++ wfAll c ls))
  | "C14" => some (firstSome ([ff (monC14 c) ls] ++ wfAll c ls))
  | "C15" => some (firstSome ([ff (monC15 c) ls, ff (monC15iw c) ls] ++ wfAll c ls))
  | "C17" => some (firstSome ([ff (monC17 c) ls, ff (monC17n c) ls,
      ff (monC17r c) ls,          -- join / consume resolve once the actor has terminated
      ff (monC05 c) ls,           -- "otherwise an OwningAddr behaves as a strong handle"
      ff monSendErr ls,           -- consume = stop + join is not refused while the actor is still stopping (`SendErr_holds`)
      ff monC17nwf ls] ++ wfAll c ls))   -- `consume(self)` is the last use of the owning address
  | _ => none

def allMonitors : List String :=
  ["C01", "C02", "C03", "C04", "C05", "C06", "C07", "C10", "C11", "C12", "C13", "C14", "C15", "C17"]

end Hannibal.Driver
