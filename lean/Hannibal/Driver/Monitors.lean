import Hannibal.Monitor.C01
import Hannibal.Monitor.C02
import Hannibal.Monitor.C03
import Hannibal.Monitor.C04
import Hannibal.Monitor.C05
import Hannibal.Monitor.C05D
import Hannibal.Monitor.C06
import Hannibal.Monitor.C07
import Hannibal.Monitor.C10
import Hannibal.Monitor.C11
import Hannibal.Monitor.C11C
import Hannibal.Monitor.C12
import Hannibal.Monitor.C12Q
import Hannibal.Monitor.C13
import Hannibal.Monitor.C14
import Hannibal.Monitor.C15
import Hannibal.Monitor.C17
import Hannibal.Monitor.C17R
/- Registry: property id → monitor run on one actor's labels (index of first violation). -/
namespace Hannibal.Driver
open Hannibal

def ff {σ : Type} (m : Mon σ) (ls : List Label) : Option Nat := m.firstFail m.init 0 ls

def runMonitor (pid : String) (c : MonCtx) (ls : List Label) : Option (Option Nat) :=
  match pid with
  | "C01" => some (match ff (monC01 c) ls with
      | some k => some k
      | none => match ff monWf01 ls with   -- the theorem's hypothesis (fresh message / operation ids) holds of the trace
        | some k => some k
        -- "the state is the fold of the handled messages": an incarnation is only replaced by a requested
        -- restart (monC07; proved)
        | none => match ff (monC07 c) ls with
          | some k => some k
          | none => ff (monC07o c) ls)
  | "C02" => some (match ff (monC02 c) ls with
      | some k => some k
      | none => match ff (monC02t c) ls with
        | some k => some k
        | none => match ff (monC02wf c) ls with
          | some k => some k
          -- "awaits complete with the termination result": an await returns Ok only after a graceful end (the
          -- announcement clauses of monC04) and with an error after a failure (monC06); both proved
          | none => match ff (monC04 c) ls with
            | some k => some k
            | none => ff (monC06 c) ls)
  | "C03" => some (match ff (monC03 c) ls with
      | some k => some k
      | none => ff (monC03q c) ls)
  | "C04" => some (match ff (monC04 c) ls with
      | some k => some k
      | none => match ff (monC04q c) ls with
        | some k => some k
        | none => ff monWf01 ls)     -- hypothesis of `C04q_holds`: message numbers and operation ids are fresh
  | "C05" => some (match ff (monC05 c) ls with
      | some k => some k
      | none => match ff (monC05q c) ls with
        | some k => some k
        | none => match ff (monC05d c) ls with      -- dropped calls are drained too
          | some k => some k
          | none => match ff (monC02wf c) ls with   -- hypothesis of `C05q_holds`: operation ids are fresh
            | some k => some k
            | none => ff monWf01 ls)                -- hypothesis of `monC05d`: message numbers are fresh
  | "C06" => some (match ff (monC06 c) ls with
      | some k => some k
      | none => (match ff (monC06t c) ls with
        | some k => some k
        | none => ff monUniq ls))
  | "C07" => some (match ff (monC07 c) ls with
      | some k => some k
      | none => match ff (monC07o c) ls with
        | some k => some k
        | none => ff monWf01 ls)    -- hypothesis of `C07o_holds`: message numbers and operation ids are fresh
  | "C10" => some (match ff (monC10 c) ls with
      | some k => some k
      | none => ff (monC10q c) ls)
  | "C11" => some (match ff (monC11 c) ls with
      | some k => some k
      | none => match ff (monC11p c) ls with
        | some k => some k
        | none => match ff (monC11c c) ls with     -- the caller of an abandoned invocation gets an error (proved)
          | some k => some k
          | none => ff monWf01 ls)                 -- hypothesis of `C11c_holds`: fresh message numbers and op ids
  | "C12" => some (match ff (monC12 c.cfg.cap) ls with
      | some k => some k
      | none => match ff monC12q ls with         -- every send returns once the actor has caught up ...
        | some k => some k
        | none => match ff (monC02 c) ls with     -- ... or terminated (clause (d) of monC02; proved)
          | some k => some k
          | none => ff (monC02wf c) ls)           -- operation ids are fresh
  | "C13" => some (match ff (monC13 c) ls with
      | some k => some k
      | none => match ff (monC13q c) ls with
        | some k => some k
        | none => match ff (monC13f c) ls with   -- fairness of the tie-break (statistical, trace-only)
          | some k => some k
          | none => ff (monC02wf c) ls)   -- hypothesis of `C13q_holds`: operation ids are fresh
  | "C14" => some (ff (monC14 c) ls)
  | "C15" => some (match ff (monC15 c) ls with
      | some k => some k
      | none => ff (monC15iw c) ls)
  | "C17" => some (match ff (monC17 c) ls with
      | some k => some k
      | none => match ff (monC17n c) ls with
        | some k => some k
        | none => match ff (monC17r c) ls with      -- join / consume resolve once the actor has terminated
         | some k => some k
         | none => match ff (monC02wf c) ls with     -- hypotheses of `C17n_holds`: fresh operation ids,
          | some k => some k
          | none => ff monC17nwf ls)                -- and `consume(self)` is the last use of the owning address
  | _ => none

def allMonitors : List String :=
  ["C01", "C02", "C03", "C04", "C05", "C06", "C07", "C10", "C11", "C12", "C13", "C14", "C15", "C17"]

end Hannibal.Driver
