import Hannibal.Monitor.C12
/- Registry: property id → monitor run on one actor's labels (index of first violation). -/
namespace Hannibal.Driver
open Hannibal

def runMonitor (pid : String) (cfg : Cfg) (ls : List Label) : Option (Option Nat) :=
  match pid with
  | "C12" => some ((monC12 cfg.cap).firstFail (monC12 cfg.cap).init 0 ls)
  | _ => none

end Hannibal.Driver
