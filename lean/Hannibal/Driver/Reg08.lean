import Hannibal.Model.Registry
import Hannibal.Monitor.C08
import Hannibal.Driver.Parse
/-
  C08 driver: registry projection of a trace → does the registry model (with today's wiring) have a run
  with these observable labels (i.e. is the history linearizable w.r.t. the model), and does the
  sequential specification accept the linearised history?
-/
namespace Hannibal.Driver
open Hannibal

def parseInst (s : String) : Option (Option Nat) :=
  if s == "none" then some none else s.toNat?.map some

def parseROp (op k i : String) : Option ROp :=
  match op, k.toNat? with
  | "from_registry", some k => some (.fromRegistry k)
  | "setup", some k => some (.setup k)
  | "register", some k => i.toNat?.map (.register k)
  | "replace", some k => i.toNat?.map (.replace k)
  | "unregister", some k => some (.unregister k)
  | "already_running", some k => some (.alreadyRunning k)
  | _, _ => none

def parseRRes : List String → Option RRes
  | ["inst", a] => a.toNat?.map .inst
  | ["unit"] => some .unit
  | ["registered", a] => (parseInst a).map .registered
  | ["still_running"] => some .stillRunning
  | ["prev", a] => (parseInst a).map .prev
  | ["running", "none"] => some (.running none)
  | ["running", "0"] => some (.running (some false))
  | ["running", "1"] => some (.running (some true))
  | _ => none

/-- registry labels of a case, plus the lines that look like registry lines but were not understood -/
def parseReg (lines : List String) : List RLabel × List String :=
  lines.foldl (fun (acc : List RLabel × List String) line =>
    match toks line with
    | ["rbegin", o, _c, op, k, i] =>
      (match o.toNat?, parseROp op k i with
       | some o, some op => (acc.1 ++ [.rbegin o op], acc.2)
       | _, _ => (acc.1, acc.2 ++ [line]))
    | ["rspawn", o, i, _k] =>
      (match o.toNat?, i.toNat? with
       | some o, some i => (acc.1 ++ [.rspawn o i], acc.2)
       | _, _ => (acc.1, acc.2 ++ [line]))
    | "rret" :: o :: rest =>
      (match o.toNat?, parseRRes rest with
       | some o, some r => (acc.1 ++ [.rret o r], acc.2)
       | _, _ => (acc.1, acc.2 ++ [line]))
    | ["rsync", _c, "try_from", k, "prev", a] =>
      (match k.toNat?, parseInst a with
       | some k, some a => (acc.1 ++ [.rsync (.tryFrom k) (.prev a)], acc.2)
       | _, _ => (acc.1, acc.2 ++ [line]))
    | ["tdone", a] | ["taskpanic", "actor", a] | ["cancel", a] =>
      (match a.toNat? with
       | some a => (acc.1 ++ [.term a], acc.2)
       | none => (acc.1, acc.2 ++ [line]))
    | _ => acc) ([], [])

abbrev RNode := RegSt × List RLabel

/-- τ-closure: any pending operation may take effect -/
def rclosure (w : Wiring) (fuel : Nat) (todo : List RNode) (seen : List RNode) : List RNode :=
  match fuel, todo with
  | 0, _ => seen
  | _, [] => seen
  | fuel + 1, n :: rest =>
    let succs := n.1.pend.filterMap (fun p => (rstep w n.1 (.ract p.1)).map (fun s' => (s', RLabel.ract p.1 :: n.2)))
    let (seen', new) := succs.foldl (fun (acc : List RNode × List RNode) m =>
      if acc.1.any (fun x => x.1 == m.1) then acc else (acc.1 ++ [m], acc.2 ++ [m])) (seen, [])
    rclosure w fuel (rest ++ new) seen'

inductive RVerdict where
  | accepted (witness : List RLabel) (maxFrontier : Nat)
  | rejected (pos : Nat) (l : Option RLabel) (frontier : Nat)
  deriving Repr

def raccept (w : Wiring) (ls : List RLabel) : RVerdict :=
  let rec go (k : Nat) (front : List RNode) (ls : List RLabel) (maxF : Nat) : RVerdict :=
    match ls with
    | [] =>
      -- at the end nothing may be left half-done: close under τ and take a state with no pending effect owed
      (match front with
       | n :: _ => .accepted n.2.reverse maxF
       | [] => .rejected k none 0)
    | l :: rest =>
      let cl := rclosure w 2000 front front
      let next := cl.foldl (fun acc n =>
        match rstep w n.1 l with
        | some s' => if acc.any (fun (m : RNode) => m.1 == s') then acc else acc ++ [(s', l :: n.2)]
        | none => acc) []
      if next.isEmpty then .rejected k (some l) cl.length
      else go (k + 1) next rest (max maxF cl.length)
  go 0 [(RegSt.init, [])] ls 0

/-- depth-first search for effect points that make the sequential specification accept the history
    (returns the witness, or how far the best attempt got) -/
partial def specSearch (ls : Array RLabel) (pos : Nat) (st : C08St) (acc : List RLabel) (fuel : Nat) :
    Option (List RLabel) × Nat :=
  if fuel == 0 then (none, pos) else
  match ls[pos]? with
  | none => (some acc.reverse, pos)
  | some l =>
    let direct := match monC08.step st l with
      | some st' => specSearch ls (pos + 1) st' (l :: acc) (fuel - 1)
      | none => (none, pos)
    match direct with
    | (some w, d) => (some w, d)
    | (none, d) =>
      st.pend.foldl (fun (best : Option (List RLabel) × Nat) p =>
        match best with
        | (some w, d') => (some w, d')
        | (none, d') =>
          match monC08.step st (.ract p.1) with
          | some st' =>
            let r := specSearch ls pos st' (RLabel.ract p.1 :: acc) (fuel / 2)
            (r.1, max d' r.2)
          | none => (none, d')) (none, d)

def reprR (l : RLabel) : String := (toString (repr l)).replace "\n" " "

def processReg (w : Wiring) (header : String) (lines : List String) (showWitness : Bool) : String :=
  let (ls, bad) := parseReg lines
  let out := s!"{header} :: "
  let out := if bad.isEmpty then out else out ++ s!"unparsed={bad.length}:{bad.head!} "
  match raccept w ls with
  | .accepted wit maxF =>
    let tau := (wit.filter RLabel.isTau).length
    let out := out ++ s!"actor=0 accept=ok labels={ls.length} tau={tau} frontier={maxF} "
    let out := match monC08.firstFail monC08.init 0 wit with
      | none => out ++ "monitor[C08]=ok "
      | some k => out ++ s!"monitor[C08]=violation@{k}:{reprR (wit.getD k (.term 0))} "
    if showWitness then out ++ "\n  witness: " ++ " ; ".intercalate (wit.map reprR) else out
  | .rejected k l f =>
    let out := out ++ s!"actor=0 accept=rejected@{k}:{(l.map reprR).getD "end"}:frontier={f} "
    -- is the history linearizable w.r.t. the specification itself (no lock, no wiring)?
    match specSearch ls.toArray 0 monC08.init [] 200000 with
    | (some _, _) => out        -- the specification can explain it: only the correspondence is broken
    | (none, deepest) =>
      out ++ s!"monitor[C08]=violation@{deepest}:not-linearizable:{((ls.toArray[deepest]?).map reprR).getD "end"} "

end Hannibal.Driver
