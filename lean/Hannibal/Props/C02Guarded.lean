import Hannibal.Props.C02
import Hannibal.Proofs.Guarded
import Hannibal.Proofs.Tactics
/-
  C02 for guarded runs (the runs the acceptor accepts): the assumption `noCancelAfterStopped` of
  `C02t_holds` is a theorem there, so the property as first written (`monC02orig`, including "an await
  begun after a graceful termination returns Ok") holds with the freshness hypothesis alone.
-/
namespace Hannibal
open AState

/-- phases in which the flag of `monC02nc` can be up -/
def afterStoppedPh : Phase → Bool
  | .exiting true | .rstStopped _ | .done true => true
  | _ => false

set_option maxHeartbeats 1000000 in
/-- one guarded step: the flag is up only in phases from which no cancel is possible -/
theorem nc_step {w : Wiring} {s s' : AState} {g : Bool} {l : Label}
    (hi : g = true → afterStoppedPh s.phase = true) (hs : gstep w s l = some s') :
    ∃ g', (monC02nc default).step g l = some g' ∧ (g' = true → afterStoppedPh s'.phase = true) := by
  have hal := gstep_allows hs
  have hst := gstep_step hs
  cases l <;> simp only [monC02nc]
  case cancel =>
    cases g
    · refine ⟨false, rfl, by simp⟩
    · exfalso
      have hp := hi rfl
      simp only [step, stepCancel] at hst
      cases hph : s.phase <;> simp [hph, afterStoppedPh, Phase.allows, isDone] at hp hal hst
  case cbBegin cb => exact ⟨false, rfl, by simp⟩
  case cbEnd cb ok =>
    by_cases hc : cb = .stopped ∧ ok = true
    · obtain ⟨rfl, rfl⟩ := hc
      refine ⟨true, rfl, fun _ => ?_⟩
      simp only [step, stepCbEnd] at hst
      split at hst
      · simp at hst
      · cases hph : s.phase <;> simp [hph] at hst <;> obtain ⟨_, rfl⟩ := hst <;> simp [afterStoppedPh]
    · refine ⟨g, ?_, ?_⟩
      · cases cb <;> cases ok <;> simp_all
      · intro hg
        have hp := hi hg
        -- in the phases where the flag is up no callback can end
        simp only [step, stepCbEnd] at hst
        split at hst
        · simp at hst
        · cases hph : s.phase <;> simp [hph, afterStoppedPh] at hp hst
  all_goals
    (refine ⟨g, rfl, ?_⟩
     intro hg
     have hp := hi hg
     cases hph : s.phase <;> simp [hph, afterStoppedPh] at hp <;>
       simp [hph, Phase.allows] at hal <;>
       (subst_vars; simp only [step] at hst; unfold_steps hst
        try simp only [hph] at hst
        (repeat' (split at hst)) <;>
          (first
            | (simp at hst; done)
            | (simp_all [openCb, inCallback, isDone]; done)
            | (simp at hst; subst hst; simp_all [afterStoppedPh, fail, finish, cancelSlots, killTimers, setTimer,
                 addOp, removeOp, removeHandle, push]; done)
            | (simp at hst; subst hst; unfold answer; split <;> simp_all [afterStoppedPh]; done))))

theorem nc_run {w : Wiring} : ∀ (ls : List Label) (s s' : AState) (g : Bool),
    (g = true → afterStoppedPh s.phase = true) → grun w s ls = some s' → ((monC02nc default).run g ls).isSome = true
  | [], _, _, _, _, _ => rfl
  | l :: ls, s, s', g, hi, hr => by
    simp only [grun] at hr
    cases hg : gstep w s l with
    | none => simp [hg] at hr
    | some s1 =>
      simp only [hg] at hr
      obtain ⟨g', hm, hi'⟩ := nc_step hi hg
      simp only [Mon.run, hm]
      exact nc_run ls s1 s' g' hi' hr

theorem noCancel_of_grun (w : Wiring) (c : MonCtx) (ls : List Label) (s : AState)
    (hr : grun w (AState.init c.cfg c.h0 c.k0) ls = some s) : noCancelAfterStopped ls = true := by
  unfold noCancelAfterStopped Mon.ok
  exact nc_run ls _ s false (by simp) hr

/-- **C02 as first written, for guarded runs**: no double return, replies are the own handler's, late
    operations err - and an await begun after a graceful termination returns Ok -, nothing hangs. -/
theorem C02g_holds (w : Wiring) (hw : w.notifyAfterStopped = true) (c : MonCtx) (ls : List Label) (s : AState)
    (hr : grun w (AState.init c.cfg c.h0 c.k0) ls = some s) (hfresh : opIdsFresh ls = true) :
    (monC02orig c).ok ls = true :=
  C02orig_holds w hw c ls s (grun_run ls _ s hr) hfresh (noCancel_of_grun w c ls s hr)

end Hannibal
