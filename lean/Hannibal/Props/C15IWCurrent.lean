import Hannibal.Props.C15IW
import Hannibal.Props.C15Current
/- C15 (`interval_with` timers) for the wiring extracted from today's source. -/
namespace Hannibal

theorem C15iw_current (c : MonCtx) (ls : List Label) (s : AState)
    (hr : run Wiring.current (AState.init c.cfg c.h0 c.k0) ls = some s) : (monC15iw c).ok ls = true :=
  C15iw_holds _ wellWired15_current c ls s hr

example : (run Wiring.current (AState.init c15iwCfg 0 .addr) c15iwExample).isSome = true := by decide
example : (run Wiring.current (AState.init c15iwCfg 0 .addr) (c15iwExample.take 14 ++
    [ .stopReq 0 true, .tDeq, .cbBegin .stopped, .cbEnd .stopped true, .taskDone, .timerEnd 1 ])).isSome = true := by
  decide
/-- the violating run exists only under the wiring in which `Sender` owns just the waiting half -/
example : (run (senderTxOnly Wiring.current) (AState.init c15iwCfg 0 .addr) c15iwWitness).isSome = true := by decide
example : (run Wiring.current (AState.init c15iwCfg 0 .addr) c15iwWitness).isSome = false := by decide

end Hannibal
