import Hannibal.Proofs.C13Q
import Hannibal.Props.C02
import Hannibal.Monitor.C13
/-
  C13q (a stream-attached actor ends with its stream / on stop / with its last strong handle, and otherwise
  has handled every item yielded so far, by quiescence): for every wiring in which strong handle kinds own
  the channel closures and weak ones own nothing, every run of the
  actor model whose `begin` labels carry pairwise distinct operation ids is accepted by `monC13q`.

  The operation-id hypothesis is the one of C02: the model alone lets an id be reused after `cdrop`, and a
  reply for the first holder of the id then reaches the second one (e.g. a `try_send`), which hangs for ever
  holding a strong sender: the actor is then quiescent with no strong *handle* and does not end
  (`c13qReuseWitness` in `Props/C13QCurrent.lean`).
-/
set_option linter.unusedSimpArgs false
namespace Hannibal
open AState

/-! ### the monitor's update as a function of the label -/

def issuesStop13 : Label → Bool
  | .stopReq _ true | .ctxStop true => true
  | .begin _ _ .halt | .begin _ _ .tryHalt | .begin _ _ .consume => true
  | _ => false

def next13q (σ : C13qSt) (l : Label) : C13qSt :=
  { ready := (match l with
      | .streamReady k => σ.ready ++ [k]
      | .cbBegin (.item _) => σ.ready.tail
      | _ => σ.ready),
    ended := σ.ended || (match l with | .streamEnd => true | _ => false),
    stopIssued := σ.stopIssued || issuesStop13 l,
    failure := σ.failure || l.isFailure,
    terminated := σ.terminated || l.terminates,
    graceful := (match l with
      | .cbBegin _ => false
      | .cbEnd .stopped true => true
      | _ => σ.graceful),
    hold := σ.hold.step l }

theorem mon13q_eq (c : MonCtx) (hstream : c.cfg.stream = true) (σ : C13qSt) (l : Label)
    (hl : ∀ p, l ≠ .quiescent p) : (monC13q c).step σ l = some (next13q σ l) := by
  obtain ⟨r, e, si, f, t, g, h⟩ := σ
  cases l
  case quiescent p => exact absurd rfl (hl p)
  case stopReq h ok =>
    cases ok <;> simp [monC13q, hstream, next13q, issuesStop13, Label.isFailure, Label.terminates]
  case ctxStop ok =>
    cases ok <;> simp [monC13q, hstream, next13q, issuesStop13, Label.isFailure, Label.terminates]
  case cbEnd cb ok =>
    cases cb <;> cases ok <;>
      simp [monC13q, hstream, next13q, issuesStop13, Label.isFailure, Label.terminates]
  case cbBegin cb =>
    cases cb <;> simp [monC13q, hstream, next13q, issuesStop13, Label.isFailure, Label.terminates]
  case begin o h k =>
    cases k <;> simp [monC13q, hstream, next13q, issuesStop13, Label.isFailure, Label.terminates]
  all_goals simp [monC13q, hstream, next13q, issuesStop13, Label.isFailure, Label.terminates]

/-! ### the invariant -/

/-- what the monitor state must say about a loop that has returned -/
def endOk13 (σ : C13qSt) : Phase → Bool
  | .exiting true | .done true => σ.graceful
  | .exiting false | .done false => σ.failure
  | _ => true

structure C13qInv (c : MonCtx) (s : AState) (σ : C13qSt) : Prop where
  c13 : ∃ σ13, C13Inv c s σ13
  hold : HInv s σ.hold
  ready : σ.ready = s.avail
  ended : σ.ended = s.streamEnded
  term : σ.terminated = s.isDone
  fin : endOk13 σ s.phase = true
  stop : σ.stopIssued = true → loopAlive s.phase = true → 0 < cntP isStopP s ∨ HDead s
  rx : RxInv s

set_option maxHeartbeats 1000000 in
/-- the items made available and not yet taken: appended by the stream, taken at the head by the loop -/
theorem step_avail {w : Wiring} {s s' : AState} {l : Label} (hs : step w s l = some s') :
    s'.avail = (match l with
      | .streamReady k => s.avail ++ [k]
      | .cbBegin (.item _) => s.avail.tail
      | _ => s.avail) := by
  cases l <;> unfold_steps hs <;>
    ((repeat' (split at hs)) <;>
     (first
       | (simp at hs; done)
       | (simp at hs; subst hs; simp_all [fail, finish, cancelSlots, killTimers, setTimer, addOp, removeOp,
            removeHandle, push]; done)
       | (simp at hs; subst hs; unfold answer; split <;> simp_all; done)))

theorem endOk13_failed {σ : C13qSt} {p : Phase} (h : endOk13 σ p = true) (hf : failedPh p = true) :
    σ.failure = true := by
  cases p <;> (try simp [failedPh] at hf)
  all_goals (rename_i g; cases g <;> simp [failedPh] at hf <;> simpa [endOk13] using h)

theorem endOk13_step (w : Wiring) {s s' : AState} {σ : C13qSt} {l : Label}
    (hnd : noDeadline s.phase = true) (hfin : endOk13 σ s.phase = true) (hs : step w s l = some s') :
    endOk13 (next13q σ l) s'.phase = true := by
  have hfail : failedPh s'.phase = true → (next13q σ l).failure = true := by
    intro hf
    rcases step_failed hs hf with h | h
    · simp [next13q, endOk13_failed hfin h]
    · simp only [Label.fails, Bool.or_eq_true] at h
      rcases h with h | h
      · simp [next13q, h]
      · cases l <;> simp at h
        rename_i cb
        simp [next13q, endOk13_failed hfin (abandon_failed hs hnd)]
  have hgrace : (s'.phase = .exiting true ∨ s'.phase = .done true) → (next13q σ l).graceful = true := by
    intro hp'
    rcases hp' with hp' | hp'
    · rcases step_exiting hs hp' with ⟨h1, h2⟩ | h
      · have hd : σ.graceful = true := by simpa [h1, endOk13] using hfin
        cases l <;> simp [Label.isCbBegin] at h2 <;> simp [next13q, hd]
        case cbEnd cb ok => cases cb <;> cases ok <;> simp [hd]
      · subst h; simp [next13q]
    · rcases step_doneTrue hs hp' with ⟨h1, h2⟩ | ⟨h1, h2⟩
      · have hd : σ.graceful = true := by simpa [h1, endOk13] using hfin
        -- nothing but `taskDone` / timers / clients moves once the task is done: no callback begins
        have hnb : l.isCbBegin = false := by
          cases l <;> simp [Label.isCbBegin]
          rename_i cb
          simp only [step, stepCbBegin] at hs
          cases cb <;> simp [h1] at hs
        cases l <;> simp [Label.isCbBegin] at hnb <;> simp [next13q, hd]
        case cbEnd cb ok => cases cb <;> cases ok <;> simp [hd]
      · subst h1
        have hd : σ.graceful = true := by simpa [h2, endOk13] using hfin
        simp [next13q, hd]
  cases hp' : s'.phase <;> simp only [endOk13]
  case exiting g =>
    cases g
    · exact hfail (by simp [hp', failedPh])
    · exact hgrace (.inl hp')
  case done g =>
    cases g
    · exact hfail (by simp [hp', failedPh])
    · exact hgrace (.inr hp')

theorem stepBegin_phase13 {w : Wiring} {s s' : AState} {o h : Nat} {k : OpKind}
    (hs : stepBegin w s o h k = some s') : s'.phase = s.phase := by
  unfold stepBegin at hs
  (repeat' (split at hs)) <;>
    (first
      | (simp at hs; done)
      | (simp at hs; subst hs; first | rfl | (simp [beginWait_phase]; done)))

theorem issuesStop13_cases {l : Label} (h : issuesStop13 l = true) :
    isStopAcc l = true ∨ ∃ o h k, l = .begin o h k ∧ isStopKind k = true := by
  cases l <;> simp [issuesStop13] at h
  case stopReq h' ok => cases ok <;> simp at h; exact .inl rfl
  case ctxStop ok => cases ok <;> simp at h; exact .inl rfl
  case begin o h' k =>
    refine .inr ⟨o, h', k, rfl, ?_⟩
    cases k <;> simp [issuesStop13] at h <;> rfl

theorem c13q_step {w : Wiring} (hw : WellWired05 w) (c : MonCtx) (hstream : c.cfg.stream = true)
    {s s' : AState} {σ : C13qSt} {l : Label} (hi : C13qInv c s σ) (hs : step w s l = some s')
    (hl : ∀ p, l ≠ .quiescent p) : C13qInv c s' (next13q σ l) := by
  obtain ⟨σ13, h13⟩ := hi.c13
  obtain ⟨hd1, hd2⟩ := step_isDone w hs
  refine ⟨⟨_, (c13_step_stream w c hstream h13 hs).2⟩, hinv_step hi.hold hs, ?_, ?_, ?_,
    endOk13_step w h13.nodl hi.fin hs, ?_, rxInv_step hs hi.rx⟩
  · rw [step_avail hs, ← hi.ready]
    cases l <;> simp [next13q]
    rename_i cb; cases cb <;> simp
  · rw [(step_cfg_stream hs).2, ← hi.ended]; cases l <;> simp [next13q]
  · simp only [next13q]
    cases ht : l.terminates
    · rw [hd2 ht, hi.term]; simp
    · rw [hd1 ht]; simp
  · intro hsi halive
    simp only [next13q, Bool.or_eq_true] at hsi
    have hold : σ.stopIssued = true → 0 < cntP isStopP s' ∨ HDead s' := by
      intro h
      rcases hi.stop h (loopAlive_back hs halive) with h1 | h1
      · have := step_stop_keep hs halive
        exact .inl (by omega)
      · exact .inr (hdead_step hw h1 hs)
    rcases hsi with h | h
    · exact hold h
    · rcases issuesStop13_cases h with hacc | ⟨o, h', k, rfl, hk⟩
      · exact .inl (stopAcc_cnt hs hacc)
      · have hs' := hs
        simp only [step] at hs'
        rcases stepBegin_stopKind hw hs' hk with h1 | h1 | h1
        · exact .inl h1
        · -- the receiver is gone: the task is done
          exfalso
          have hph : s'.phase = s.phase := stepBegin_phase13 hs'
          rcases hi.rx with hdn | hrx
          · rw [hph] at halive
            unfold isDone at hdn
            cases hp : s.phase <;> simp [hp] at hdn
            simp [hp, loopAlive] at halive
          · rw [hrx] at h1; simp at h1
        · exact .inr h1

/-! ### the part of the C02 coupling that rides along (op-state typing, live slots), without the latch -/

structure Aux02 (s : AState) (σ : C02St) : Prop where
  term : σ.terminated = s.isDone
  ops : ∀ r ∈ s.ops, opOk σ r = true
  ret : ∀ o ∈ σ.returned, (lookup o σ.ops).isSome = true
  queue : ∀ e ∈ s.chan.queue, plOk σ e.pl = true
  phase : phaseOk σ s.phase = true
  dchan : DoneChan s
  wf : s.chan.WF
  wait : WaitInv s

theorem aux02_step (w : Wiring) {s s' : AState} {σ : C02St} {l : Label}
    (hi : Aux02 s σ) (hf : freshFor σ l) (hs : step w s l = some s') : Aux02 s' (next02 σ l) := by
  -- (the lemma is called `qinv02_step` in later states of the project)
  have hqp : (∀ e ∈ s'.chan.queue, plOk (next02 σ l) e.pl = true) ∧ phaseOk (next02 σ l) s'.phase = true := by
    first
      | exact qinv02_step hf hs hi.queue hi.phase
      | exact qinv_step hf hs hi.queue hi.phase
  obtain ⟨hq', hp'⟩ := hqp
  obtain ⟨hd1, hd2⟩ := step_isDone w hs
  refine ⟨?_, ops_step hf hs hi.ops hi.ret hi.queue hi.phase hi.dchan hi.term, ?_, hq', hp',
    doneChan_step hs hi.dchan, (step_chan hs).wf hi.wf, waitInv_step hs (slotCb_of_phaseOk hi.phase) hi.wait⟩
  · simp only [next02_terminated]
    cases ht : l.terminates
    · simp; rw [hd2 ht]; exact hi.term
    · simp [hd1 ht]
  · intro o ho
    simp only [next02_returned] at ho
    have hold : ∀ o ∈ σ.returned, (lookup o (next02 σ l).ops).isSome = true := by
      intro o ho
      have := hi.ret o ho
      cases hl : lookup o σ.ops with
      | none => simp [hl] at this
      | some v => rw [lookup_next02 hf hl]; rfl
    cases l <;> try exact hold o ho
    rename_i o' res
    simp at ho
    rcases ho with rfl | ho
    · simp only [step] at hs
      obtain ⟨rec, hfind, _, _, _⟩ := stepRet_ops hs
      obtain ⟨hr, hro⟩ := findOp_some_mem hfind
      obtain ⟨late, h1, _⟩ := opOk_parts (hi.ops rec hr)
      rw [hro] at h1
      simp [h1]
    · exact hold o ho

theorem aux02_init (c : MonCtx) : Aux02 (AState.init c.cfg c.h0 c.k0) (monC02 c).init := by
  refine ⟨rfl, ?_, ?_, ?_, rfl, doneChan_init _ _ _, ?_, waitInv_init _ _ _⟩
  · intro r hr; simp [AState.init] at hr
  · intro o ho; simp [monC02, C02St.init] at ho
  · intro e he; simp [AState.init, Chan.init] at he
  · exact Chan.wf_init _

/-- a `quiescent` label of the model is accepted -/
theorem c13q_quiescent {w : Wiring} (hw : WellWired05 w) (c : MonCtx) (hstream : c.cfg.stream = true)
    {s s' : AState} {σ : C13qSt} {σ02 : C02St} {pend : List Nat} (hi : C13qInv c s σ) (h02 : Aux02 s σ02)
    (hs : step w s (.quiescent pend) = some s') :
    s' = s ∧ (monC13q c).step σ (.quiescent pend) = some σ := by
  simp only [step, stepQuiescent] at hs
  split at hs
  · rename_i hc
    simp at hs; subst hs
    refine ⟨rfl, ?_⟩
    simp only [Bool.and_eq_true] at hc
    have hquiet := hc.1.1
    have hq2 := hquiet
    unfold quiet at hq2
    simp only [Bool.and_eq_true] at hq2
    have hph := hq2.1.1
    have hstep : (monC13q c).step σ (.quiescent pend) =
        (if σ.failure then some σ
         else if σ.ended || σ.stopIssued || !σ.hold.strongHeld then
           (if σ.terminated && σ.graceful then some σ else none)
         else if !σ.terminated && !σ.ready.isEmpty then none
         else some σ) := by
      unfold monC13q; simp only [hstream]; rfl
    rw [hstep]
    cases hf : σ.failure
    case true => simp
    case false =>
      simp only [Bool.false_eq_true, if_false]
      have hfin := hi.fin
      cases hp : s.phase <;> simp [hp] at hph
      case done g =>
        have hterm : σ.terminated = true := by rw [hi.term]; simp [isDone, hp]
        cases g
        · simp [hp, endOk13, hf] at hfin
        · have hg : σ.graceful = true := by simpa [hp, endOk13] using hfin
          simp [hterm, hg]
      case idle =>
        have hqe : s.chan.queue = [] := by simpa using hph.1.1
        have hav : s.avail = [] ∧ s.streamEnded = false := by
          rcases hph.2 with h | h
          · rw [h13cfg hi, hstream] at h; simp at h
          · exact h
        have hstrong := quiet_idle_strong hw (fin := σ02.finishedOk) hquiet hp h02.wf h02.wait
          (fun r hr => by obtain ⟨_, _, _, _, h4⟩ := opOk_parts (h02.ops r hr); exact h4)
        have hheld : σ.hold.strongHeld = true := by
          unfold HoldSt.strongHeld; rw [hi.hold.handles]; exact hstrong
        have hended : σ.ended = false := by
          rw [hi.ended]; exact hav.2
        have hsi : σ.stopIssued = false := by
          cases hsi : σ.stopIssued
          · rfl
          · exfalso
            rcases hi.stop hsi (by simp [hp, loopAlive]) with h | h
            · simp [cntP, hqe] at h
            · rw [h.not_strong] at hstrong; simp at hstrong
        have hready : σ.ready = [] := by
          rw [hi.ready]; exact hav.1
        simp [hheld, hended, hsi, hready]
  · simp at hs
where
  h13cfg {s : AState} {σ : C13qSt} (hi : C13qInv c s σ) : s.cfg = c.cfg := by
    obtain ⟨_, h⟩ := hi.c13; exact h.cfg

theorem c13q_init (c : MonCtx) : C13qInv c (AState.init c.cfg c.h0 c.k0) (monC13q c).init := by
  refine ⟨⟨_, c13_init c⟩, ⟨rfl, ?_⟩, rfl, rfl, rfl, rfl, ?_, rxInv_init _ _ _⟩
  · intro r hr; simp [AState.init] at hr
  · intro h; simp [monC13q] at h

/-- lifting to runs whose `begin` labels carry fresh operation ids (the C02 coupling rides along) -/
theorem c13q_run {w : Wiring} (hw : WellWired05 w) (c : MonCtx)
    (hstream : c.cfg.stream = true) :
    ∀ (ls : List Label) (s s' : AState) (σ : C13qSt) (σ02 : C02St) (seen : List Nat),
      C13qInv c s σ → Aux02 s σ02 → SeenOk σ02 seen →
      run w s ls = some s' → ((monC02wf c).run seen ls).isSome = true →
      ((monC13q c).run σ ls).isSome = true
  | [], _, _, _, _, _, _, _, _, _, _ => by simp [Mon.run]
  | l :: ls, s, s', σ, σ02, seen, hi, h02, hseen, hr, hwf => by
    simp only [run] at hr
    cases hs : step w s l with
    | none => simp [hs] at hr
    | some s1 =>
      simp only [hs] at hr
      simp only [Mon.run] at hwf ⊢
      cases hws : (monC02wf c).step seen l with
      | none => simp [hws] at hwf
      | some seen1 =>
        simp only [hws] at hwf
        have h021 := aux02_step w h02 (wf_fresh hseen hws) hs
        by_cases hq : ∃ p, l = .quiescent p
        · obtain ⟨p, rfl⟩ := hq
          obtain ⟨rfl, hm⟩ := c13q_quiescent hw c hstream hi h02 hs
          simp only [hm]
          exact c13q_run hw c hstream ls s1 s' σ _ seen1 hi h021 (wf_seen hseen hws) hr hwf
        · have hnq : ∀ p, l ≠ .quiescent p := fun p e => hq ⟨p, e⟩
          simp only [mon13q_eq c hstream σ l hnq]
          exact c13q_run hw c hstream ls s1 s' _ _ seen1 (c13q_step hw c hstream hi hs hnq) h021
            (wf_seen hseen hws) hr hwf

/-- plain (not stream-attached) actors: `monC13q` has nothing to say -/
theorem c13q_plain_run (c : MonCtx) (h : c.cfg.stream = false) :
    ∀ (ls : List Label) (σ : C13qSt), ((monC13q c).run σ ls).isSome = true
  | [], σ => by simp [Mon.run]
  | l :: ls, σ => by
    have : (monC13q c).step σ l = some σ := by simp [monC13q, h]
    simp only [Mon.run, this]; exact c13q_plain_run c h ls σ

/-- **C13q (a stream-attached actor ends with its stream, on stop, or with its last strong handle).**
    For every wiring in which the strong handle kinds own both channel closures and the weak kinds own nothing
    and must upgrade; for every run of the actor model (every
    client program and interleaving, empty / finite / never-ending / bursty streams, messages and timers
    interleaved with items) whose `begin` labels carry pairwise distinct operation ids: whenever nothing
    about the actor can move any more (`quiescent`) and no failure event occurred, then
      * if the stream has ended, or a stop was issued (`stop` / `try_stop` / `Context::stop` accepted, or a
        `halt` / `try_halt` / `consume` begun), or no strong handle is held: the actor's task has ended and it
        ended right after a completed `stopped` callback;
      * otherwise, if the actor has not terminated: every item the stream yielded so far has been handled. -/
theorem C13q_holds (w : Wiring) (hw : WellWired05 w) (c : MonCtx)
    (ls : List Label) (s : AState) (hr : run w (AState.init c.cfg c.h0 c.k0) ls = some s)
    (hfresh : opIdsFresh ls = true) : (monC13q c).ok ls = true := by
  unfold Mon.ok
  cases hstream : c.cfg.stream
  · exact c13q_plain_run c hstream ls _
  · exact c13q_run hw c hstream ls _ s (monC13q c).init (monC02 c).init [] (c13q_init c) (aux02_init c)
      seenOk_init hr (by simpa [opIdsFresh, Mon.ok, monC02wf] using hfresh)

/-! ### non-vacuity -/

def c13qCfg : Cfg := { cap := none, strat := .non, timeout := none, failOnTimeout := false, stream := true }
def c13qCtx : MonCtx := { cfg := c13qCfg, h0 := 0, k0 := .addr, prompt := true }
/-- two items, quiescent on the live stream with a strong handle held, then the stream ends and the actor
    with it -/
def c13qExample : List Label :=
  [ .cbBegin .started, .cbEnd .started true, .streamReady 0, .streamReady 1,
    .cbBegin (.item 0), .cbEnd (.item 0) true, .cbBegin (.item 1), .cbEnd (.item 1) true, .quiescent [],
    .streamEnd, .tStreamEnd, .cbBegin .finished, .cbEnd .finished true, .cbBegin .stopped, .cbEnd .stopped true,
    .taskDone, .quiescent [] ]
example : (monC13q c13qCtx).ok c13qExample = true := by decide
example : opIdsFresh c13qExample = true := by decide
/-- an item left unhandled at quiescence -/
example : (monC13q c13qCtx).ok [ .cbBegin .started, .cbEnd .started true, .streamReady 0, .streamReady 1,
    .cbBegin (.item 0), .cbEnd (.item 0) true, .quiescent [] ] = false := by decide
/-- the stream ended and the actor is still parked -/
example : (monC13q c13qCtx).ok [ .cbBegin .started, .cbEnd .started true, .streamEnd, .quiescent [] ] = false := by
  decide
/-- the last strong handle is gone and the actor is still parked -/
example : (monC13q c13qCtx).ok [ .cbBegin .started, .cbEnd .started true, .drop 0, .quiescent [] ] = false := by
  decide
/-- a stop was accepted and the actor ended without `stopped` -/
example : (monC13q c13qCtx).ok [ .cbBegin .started, .cbEnd .started true, .stopReq 0 true, .tDeq,
    .cbBegin .finished, .cbEnd .finished true, .taskDone, .quiescent [] ] = false := by decide

end Hannibal
