import Hannibal.Proofs.SysProj
import Hannibal.Proofs.C16Queue
import Hannibal.Props.C05
/-
  C16 (children live exactly as long as their parent and receive its broadcasts), for systems of any
  number of actors and any parent → child graph (any depth, several parents, cycles):

  * `C16_kept`      in every reachable system state every registered child handle is a live `Sender` in the
                    child's handle table and its owner has not terminated;
  * `C16_released`  the step that ends a parent's task removes all its registrations and drops exactly those
                    handles in the children;
  * `sys_actor_run` what happens to any one actor inside a system run is a run of the single-actor model over
                    its projection, so every single-actor theorem applies to it - in particular
  * `C16_lifetime`  C05 for every actor of every system: a child's final `stopped` begins only if it was asked to
                    stop, failed, its stream ended, or no strong handle is left - and by `C16_kept` the parent's
                    handle is one for as long as the parent has not terminated;
  * `C16_broadcast` a broadcast is taken up only by an actor registered under its type with the broadcasting
                    parent at the time it was sent, at most once per registration (`monC16`).
-/
namespace Hannibal
open AState

/-! ### kept alive, released -/

theorem C16_kept (w : Wiring) (ls : List SLabel) (S : Sys) (hr : srun w Sys.init ls = some S) :
    ∀ k ∈ S.kids, (∃ sc, S.get k.c = some sc ∧ sc.handleKind k.h = some .sender) ∧
      (∃ sp, S.get k.p = some sp ∧ sp.isDone = false) := by
  have hi := sinv_run ls Sys.init S sinv_init hr
  intro k hk
  obtain ⟨sc, h1, h2, _⟩ := hi.held k hk
  exact ⟨⟨sc, h1, h2⟩, hi.parent k hk⟩

theorem dropAll_removes (hs : List Nat) (s : AState) {h : Nat} (hm : h ∈ hs) (hk : s.handleKind h ≠ none) :
    (Sys.dropAll hs s).handleKind h = none := by
  induction hs generalizing s with
  | nil => simp at hm
  | cons x xs ih =>
    simp only [Sys.dropAll, List.foldl_cons]
    by_cases hx : x = h
    · subst hx
      have hd : s.stepDrop x = some (s.removeHandle x) := by
        unfold stepDrop
        cases hkk : s.handleKind x with
        | none => exact absurd hkk hk
        | some k => simp
      simp only [hd, Option.getD_some]
      by_cases hmx : x ∈ xs
      · by_cases hk' : (s.removeHandle x).handleKind x = none
        · -- already gone: later drops skip it
          have : ∀ (ys : List Nat) (t : AState), t.handleKind x = none → (Sys.dropAll ys t).handleKind x = none := by
            intro ys
            induction ys with
            | nil => intro t ht; exact ht
            | cons y ys ih2 =>
              intro t ht
              simp only [Sys.dropAll, List.foldl_cons]
              apply ih2
              cases hd2 : t.stepDrop y with
              | none => simpa using ht
              | some t' =>
                simp only [Option.getD_some]
                rw [stepDrop_spec hd2]
                by_cases hy : y = x
                · subst hy; exact handleKind_remove_self t y
                · rw [handleKind_remove_ne t hy]; exact ht
          exact this xs _ hk'
        · have := ih (s.removeHandle x) hmx hk'
          simpa [Sys.dropAll] using this
      · have h0 := handleKind_remove_self s x
        have : (Sys.dropAll xs (s.removeHandle x)).handleKind x = (s.removeHandle x).handleKind x :=
          dropAll_handleKind xs _ hmx
        simpa [Sys.dropAll, h0] using this
    · have hm' : h ∈ xs := by
        rcases List.mem_cons.mp hm with e | e
        · exact absurd e.symm hx
        · exact e
      have hk' : ((s.stepDrop x).getD s).handleKind h ≠ none := by
        rw [dropOne_handleKind_ne s hx]; exact hk
      have := ih ((s.stepDrop x).getD s) hm' hk'
      simpa [Sys.dropAll] using this

/-- The step that ends parent `p`'s task: no registration of `p` survives, and every handle it owned is
    gone from its child's handle table. -/
theorem C16_released (w : Wiring) (ls : List SLabel) (S S' : Sys) (p : Nat) (l : Label)
    (hr : srun w Sys.init ls = some S) (hs : sstep w S (.act p l) = some S') (ht : l.endsTask = true) :
    (∀ k ∈ S'.kids, k.p ≠ p) ∧
    (∀ k ∈ S.kids, k.p = p → ∃ sc', S'.get k.c = some sc' ∧ sc'.handleKind k.h = none) := by
  have hi := sinv_run ls Sys.init S sinv_init hr
  have hkids := sstep_kids hs
  refine ⟨?_, ?_⟩
  · intro k hk
    rw [hkids] at hk
    simp only [nextKids, ht, if_true] at hk
    have := (List.mem_filter.mp hk).2
    simpa using this
  · intro k hk hkp
    simp only [sstep] at hs
    cases hg : S.get p with
    | none => simp [hg] at hs
    | some s =>
      simp only [hg] at hs
      split at hs
      · simp at hs
      · rename_i hcl
        have hcl' : S.clientOk p l = true := by simpa using hcl
        cases hst : step w s l with
        | none => simp [hst] at hs
        | some s' =>
          simp only [hst, ht, if_true] at hs
          simp at hs; subst hs
          obtain ⟨sc, hgc, h1, h2⟩ := hi.held k hk
          -- the child's state right after the parent's own step
          have hmid : ∃ sc1, (S.set p s').get k.c = some sc1 ∧ sc1.handleKind k.h = some .sender := by
            by_cases hkc : k.c = p
            · rw [hkc, hg] at hgc; simp at hgc; subst hgc
              exact ⟨s', by rw [Sys.get_set, hkc]; simp [hg],
                (step_keeps_sender hst h1 h2 (clientOk_not_drop hcl' k hk hkc)).1⟩
            · exact ⟨sc, by rw [Sys.get_set]; simp [hkc, hgc], h1⟩
          obtain ⟨sc1, hg1, hk1⟩ := hmid
          refine ⟨Sys.dropAll (S.heldBy p k.c) sc1, by rw [get_release, hg1]; rfl, ?_⟩
          apply dropAll_removes
          · simp only [Sys.heldBy, List.mem_map, List.mem_filter]
            exact ⟨k, ⟨hk, by simp [hkp]⟩, rfl⟩
          · rw [hk1]; simp

/-! ### every actor of a system runs the single-actor model -/

theorem emits_absent {S : Sys} (hi : SInv S) {w : Wiring} {l : SLabel} {S' : Sys} (hs : sstep w S l = some S')
    {a : Nat} (hg : S.get a = none) : emits S.kids a l = [] := by
  have hnk : ∀ k ∈ S.kids, k.c ≠ a := by
    intro k hk e
    obtain ⟨sc, h1, _⟩ := hi.held k hk
    rw [e, hg] at h1; simp at h1
  cases l with
  | spawn => rfl
  | addChild => rfl
  | act a' l =>
    have hne : a' ≠ a := by
      intro e; subst e
      simp only [sstep, hg] at hs; simp at hs
    simp only [emits, hne, if_false, List.nil_append]
    split
    · have : S.kids.filter (fun k => k.p == a' && k.c == a) = [] := by
        apply List.filter_eq_nil_iff.mpr
        intro k hk; simp; intro _; exact hnk k hk
      simp [this]
    · rfl
  | bcast p ty b =>
    simp only [emits]
    have : S.kids.filter (fun k => k.p == p && k.ty == ty && k.c == a) = [] := by
      apply List.filter_eq_nil_iff.mpr
      intro k hk; simp; intro _ _; exact hnk k hk
    simp [this]

theorem sstep_absent {w : Wiring} {S S' : Sys} {l : SLabel} (hs : sstep w S l = some S') {a : Nat}
    (hg : S.get a = none) :
    S'.get a = none ∨ ∃ cfg h0 k0, l = .spawn a cfg h0 k0 ∧ S'.get a = some (AState.init cfg h0 k0) := by
  cases l with
  | spawn a0 cfg h0 k0 =>
    simp only [sstep] at hs
    split at hs
    · simp at hs
    · rename_i hnone
      simp at hs; subst hs
      have hn : S.get a0 = none := by simpa using hnone
      rw [Sys.get_append_new S a0 a _ hn]
      by_cases ha : a = a0
      · subst ha; exact .inr ⟨cfg, h0, k0, rfl, by simp⟩
      · simp [ha, hg]
  | act a0 l =>
    left
    simp only [sstep] at hs
    cases hg0 : S.get a0 with
    | none => simp [hg0] at hs
    | some s =>
      simp only [hg0] at hs
      split at hs
      · simp at hs
      · cases hst : step w s l with
        | none => simp [hst] at hs
        | some s' =>
          simp only [hst] at hs; simp at hs
          have hne : a ≠ a0 := by intro e; rw [e, hg0] at hg; simp at hg
          have hmid : (S.set a0 s').get a = none := by rw [Sys.get_set]; simp [hne, hg]
          by_cases ht : l.endsTask = true
          · simp only [ht, if_true] at hs; subst hs
            rw [get_release, hmid]; rfl
          · simp only [ht] at hs; simp at hs; subst hs; exact hmid
  | addChild p ty c h =>
    left
    simp only [sstep] at hs
    (repeat' (split at hs)) <;> (first | (simp at hs; done) | (simp at hs; subst hs; exact hg))
  | bcast p ty b =>
    left
    simp only [sstep] at hs
    (repeat' (split at hs)) <;>
      (first | (simp at hs; done) | (simp at hs; subst hs; simp only [Sys.broadcast]; rw [Sys.get_applyTo, hg]; rfl))

theorem srun_proj_absent {w : Wiring} : ∀ (ls : List SLabel) (S S' : Sys), SInv S → srun w S ls = some S' →
    ∀ {a : Nat} {sa : AState}, S.get a = none → S'.get a = some sa →
      ∃ cfg h0 k0, run w (AState.init cfg h0 k0) (projFrom S.kids a ls) = some sa
  | [], S, S', _, hr, a, sa, hg, hg' => by
    simp [srun] at hr; subst hr; rw [hg] at hg'; simp at hg'
  | l :: ls, S, S', hi, hr, a, sa, hg, hg' => by
    simp only [srun] at hr
    cases hs : sstep w S l with
    | none => simp [hs] at hr
    | some S1 =>
      simp only [hs] at hr
      rw [projFrom_cons, emits_absent hi hs hg, List.nil_append, ← sstep_kids hs]
      rcases sstep_absent hs hg with h1 | ⟨cfg, h0, k0, _, h1⟩
      · exact srun_proj_absent ls S1 S' (sinv_step hi hs) hr h1 hg'
      · obtain ⟨sa', hga, hra⟩ := srun_proj ls S1 S' (sinv_step hi hs) hr h1
        rw [hga] at hg'; simp at hg'; subst hg'
        exact ⟨cfg, h0, k0, hra⟩

/-- **Every actor of every system runs the single-actor model** over its projection. -/
theorem sys_actor_run (w : Wiring) (ls : List SLabel) (S : Sys) (hr : srun w Sys.init ls = some S)
    (a : Nat) (sa : AState) (hg : S.get a = some sa) :
    ∃ cfg h0 k0, run w (AState.init cfg h0 k0) (projOf a ls) = some sa :=
  srun_proj_absent ls Sys.init S sinv_init hr (by simp [Sys.init, Sys.get]) hg

/-- **C16, lifetime.** C05 holds of every actor of every system: the final `stopped` of a child begins only
    if it was asked to stop, it failed, its stream ended or no strong handle is left - and (`C16_kept`) the
    handle its parent owns is a strong handle for as long as the parent has not terminated. -/
theorem C16_lifetime (w : Wiring) (hw : WellWired05 w) (ls : List SLabel) (S : Sys)
    (hr : srun w Sys.init ls = some S) (a : Nat) (sa : AState) (hg : S.get a = some sa) :
    ∃ cfg h0 k0, (monC05 { cfg, h0, k0, prompt := false }).ok (projOf a ls) = true := by
  obtain ⟨cfg, h0, k0, hrun⟩ := sys_actor_run w ls S hr a sa hg
  exact ⟨cfg, h0, k0, C05_holds w hw { cfg, h0, k0, prompt := false } (projOf a ls) sa hrun⟩

/-! ### broadcasts -/

structure C16Inv (S : Sys) (σ : C16St) : Prop where
  kids : σ.kids = S.kids
  owed : ∀ c sc b, S.get c = some sc → extCnt b sc ≤ σ.owed b c

theorem clientOk_not_extPush {S : Sys} {a : Nat} {l : Label} (h : S.clientOk a l = true) : ∀ b, l ≠ .extPush b := by
  intro b e; subst e; simp [Sys.clientOk] at h

theorem extCnt_dropAll (hs : List Nat) (s : AState) (b : Nat) : extCnt b (Sys.dropAll hs s) = extCnt b s := by
  unfold extCnt cntP; rw [dropAll_chan]

theorem c16_step {w : Wiring} {S S' : Sys} {σ : C16St} {l : SLabel} (hi : C16Inv S σ)
    (hs : sstep w S l = some S') : bad16 σ l = false ∧ C16Inv S' (next16 σ l) := by
  have hkids := sstep_kids hs
  cases l with
  | spawn a cfg h0 k0 =>
    refine ⟨rfl, ⟨by rw [hkids]; exact hi.kids, ?_⟩⟩
    simp only [sstep] at hs
    split at hs
    · simp at hs
    · rename_i hnone
      simp at hs; subst hs
      have hn : S.get a = none := by simpa using hnone
      intro c sc b hg
      rw [Sys.get_append_new S a c _ hn] at hg
      by_cases hc : c = a
      · simp [hc] at hg; subst hg
        simp [extCnt, cntP, AState.init, Chan.init]
      · simp [hc] at hg; exact hi.owed c sc b hg
  | addChild p ty c h =>
    refine ⟨rfl, ⟨by rw [hkids]; simp [next16, nextKids, hi.kids], ?_⟩⟩
    simp only [sstep] at hs
    (repeat' (split at hs)) <;> (first | (simp at hs; done) | (simp at hs; subst hs; exact hi.owed))
  | bcast p ty b =>
    refine ⟨rfl, ⟨by rw [hkids]; simp [next16, nextKids, hi.kids], ?_⟩⟩
    simp only [sstep] at hs
    cases hgp : S.get p with
    | none => simp [hgp] at hs
    | some sp =>
      simp only [hgp] at hs
      split at hs
      · simp at hs; subst hs
        intro c sc b' hg
        simp only [Sys.broadcast] at hg
        rw [Sys.get_applyTo] at hg
        cases hgc : S.get c with
        | none => simp [hgc] at hg
        | some sc0 =>
          simp [hgc] at hg; subst hg
          have h1 := pushAll_extCnt b b' (S.kids.filter (fun k => k.p == p && k.ty == ty && k.c == c)).length sc0
          have h2 := hi.owed c sc0 b' hgc
          simp only [next16, regCount, hi.kids]
          split at h1 <;> simp_all <;> omega
      · simp at hs
  | act a l =>
    simp only [sstep] at hs
    cases hg : S.get a with
    | none => simp [hg] at hs
    | some s =>
      simp only [hg] at hs
      split at hs
      · simp at hs
      · rename_i hcl
        have hcl' : S.clientOk a l = true := by simpa using hcl
        cases hst : step w s l with
        | none => simp [hst] at hs
        | some s' =>
          simp only [hst] at hs; simp at hs
          -- every actor's mailbox content w.r.t. broadcasts after the step (release does not touch mailboxes)
          have hget : ∀ c sc, S'.get c = some sc → ∃ sc0, (S.set a s').get c = some sc0 ∧ sc.chan = sc0.chan := by
            intro c sc hgc
            by_cases ht : l.endsTask = true
            · simp only [ht, if_true] at hs; subst hs
              rw [get_release] at hgc
              cases hm : (S.set a s').get c with
              | none => simp [hm] at hgc
              | some sc0 => simp [hm] at hgc; subst hgc; exact ⟨sc0, rfl, dropAll_chan _ _⟩
            · simp only [ht] at hs; simp at hs; subst hs; exact ⟨sc, hgc, rfl⟩
          have hmid : ∀ c sc0, (S.set a s').get c = some sc0 → (c = a ∧ sc0 = s') ∨ (c ≠ a ∧ S.get c = some sc0) := by
            intro c sc0 h
            rw [Sys.get_set] at h
            by_cases hc : c = a
            · subst hc; simp [hg] at h; exact .inl ⟨rfl, h.symm⟩
            · simp [hc] at h; exact .inr ⟨hc, h⟩
          by_cases hext : ∃ b m, l = .extBegin b m
          · obtain ⟨b, m, rfl⟩ := hext
            simp only [step] at hst
            have hcnt := stepExtBegin_extCnt hst
            have hpos : 1 ≤ σ.owed b a := by
              have := hi.owed a s b hg
              have h2 := hcnt b
              simp at h2; omega
            refine ⟨by simp only [bad16]; simp; omega, ⟨by rw [hkids]; simp [next16, nextKids, Label.endsTask, hi.kids], ?_⟩⟩
            intro c sc b' hgc
            obtain ⟨sc0, hg0, hch⟩ := hget c sc hgc
            have hec : extCnt b' sc = extCnt b' sc0 := by unfold extCnt cntP; rw [hch]
            rw [hec]
            simp only [next16]
            rcases hmid c sc0 hg0 with ⟨rfl, rfl⟩ | ⟨hne, hgc0⟩
            · have h1 := hcnt b'
              have h2 := hi.owed c s b' hg
              by_cases hb : b' = b
              · subst hb; simp at h1 ⊢; omega
              · simp [hb] at h1 ⊢; omega
            · have := hi.owed c sc0 b' hgc0
              simp [hne]; exact this
          · have hne : ∀ b m, l ≠ .extBegin b m := fun b m e => hext ⟨b, m, e⟩
            have hbad : bad16 σ (.act a l) = false := by
              cases l <;> simp only [bad16]
              case extBegin b m => exact absurd rfl (hne b m)
            have hnext : next16 σ (.act a l) =
                (if l.endsTask then { σ with kids := σ.kids.filter (fun k => k.p != a) } else σ) := by
              cases l <;> simp only [next16]
              case extBegin b m => exact absurd rfl (hne b m)
            refine ⟨hbad, ⟨?_, ?_⟩⟩
            · rw [hkids, hnext]; simp only [nextKids]; split <;> simp [hi.kids]
            · intro c sc b' hgc
              obtain ⟨sc0, hg0, hch⟩ := hget c sc hgc
              have hec : extCnt b' sc = extCnt b' sc0 := by unfold extCnt cntP; rw [hch]
              rw [hec]
              have howed : (next16 σ (.act a l)).owed = σ.owed := by rw [hnext]; split <;> rfl
              rw [howed]
              rcases hmid c sc0 hg0 with ⟨rfl, rfl⟩ | ⟨_, hgc0⟩
              · exact Nat.le_trans (step_extCnt b' hst (clientOk_not_extPush hcl')) (hi.owed c s b' hg)
              · exact hi.owed c sc0 b' hgc0

theorem c16_run {w : Wiring} : ∀ (ls : List SLabel) (S S' : Sys) (σ : C16St), C16Inv S σ → srun w S ls = some S' →
    ∃ σ', monC16.run σ ls = some σ' ∧ C16Inv S' σ'
  | [], S, S', σ, hi, hr => by simp [srun] at hr; subst hr; exact ⟨σ, rfl, hi⟩
  | l :: ls, S, S', σ, hi, hr => by
    simp only [srun] at hr
    cases hs : sstep w S l with
    | none => simp [hs] at hr
    | some S1 =>
      simp only [hs] at hr
      obtain ⟨hb, hi1⟩ := c16_step hi hs
      obtain ⟨σ', hm, hi'⟩ := c16_run ls S1 S' (next16 σ l) hi1 hr
      refine ⟨σ', ?_, hi'⟩
      have hstep : monC16.step σ l = some (next16 σ l) := by simp [monC16, hb]
      simp only [SMon.run, hstep]; exact hm

/-- **C16, broadcasts.** In every run of every system a broadcast is taken up only by an actor that was
    registered under its type with the broadcasting parent when it was sent, at most once per registration. -/
theorem C16_broadcast (w : Wiring) (ls : List SLabel) (S : Sys) (hr : srun w Sys.init ls = some S) :
    monC16.ok ls = true := by
  unfold SMon.ok
  obtain ⟨σ', hm, _⟩ := c16_run ls Sys.init S monC16.init
    ⟨rfl, by intro c sc b hg; simp [Sys.init, Sys.get] at hg⟩ hr
  simp [hm]

/-! ### non-vacuity -/

def c16Cfg : Cfg := { cap := none, strat := .only, timeout := none, failOnTimeout := false, stream := false }

/-- parent 0 registers child 1 (handle 11) under type 1, broadcasts 7, the child takes it up; the parent's
    task ends, the handle is dropped, the child drains and stops -/
def c16Example : List SLabel :=
  [ .spawn 0 c16Cfg 0 .addr, .spawn 1 c16Cfg 1 .addr, .act 1 (.mk 1 11 .sender), .act 1 (.drop 1),
    .act 0 (.cbBegin .started), .addChild 0 1 1 11, .bcast 0 1 7, .act 0 (.cbEnd .started true),
    .act 1 (.cbBegin .started), .act 1 (.cbEnd .started true), .act 1 (.extBegin 7 100),
    .act 1 (.cbBegin (.handle 100)), .act 1 (.cbEnd (.handle 100) true),
    .act 0 (.drop 0), .act 0 .tChanEnd, .act 0 (.cbBegin .stopped), .act 0 (.cbEnd .stopped true), .act 0 .taskDone,
    .act 1 .tChanEnd, .act 1 (.cbBegin .stopped), .act 1 (.cbEnd .stopped true), .act 1 .taskDone ]
example : monC16.ok c16Example = true := by decide
example : projOf 1 c16Example =
    [ .mk 1 11 .sender, .drop 1, .extPush 7, .cbBegin .started, .cbEnd .started true, .extBegin 7 100,
      .cbBegin (.handle 100), .cbEnd (.handle 100) true, .drop 11, .tChanEnd, .cbBegin .stopped,
      .cbEnd .stopped true, .taskDone ] := by decide
-- taken up by an actor that was not registered; taken up twice
example : monC16.ok [ .spawn 0 c16Cfg 0 .addr, .spawn 1 c16Cfg 1 .addr, .act 0 (.cbBegin .started), .bcast 0 1 7,
    .act 1 (.extBegin 7 100) ] = false := by decide
example : monC16.ok [ .spawn 0 c16Cfg 0 .addr, .spawn 1 c16Cfg 1 .addr, .act 1 (.mk 1 11 .sender),
    .act 0 (.cbBegin .started), .addChild 0 1 1 11, .bcast 0 1 7, .act 1 (.extBegin 7 100),
    .act 1 (.extBegin 7 101) ] = false := by decide

end Hannibal
