import Hannibal.Monitor.C06
/-
  C06: the one-piece monitor is exactly the conjunction of the proved monitor `monC06` and the
  trace-only monitor `monC06t`.
-/
namespace Hannibal
open AState

/-! ### The split of the one-piece monitor -/

/-- the one-piece formulation of C06 (what `Monitor/C06.lean` contained before the split) -/
def monC06orig (c : MonCtx) : Mon C06St where
  init := { failed := false, ops := [], finishedOk := [], timers := [], terminated := false }
  step st l :=
    match l with
    | .begin o _ k => some { st with ops := (o, (k, st.failed)) :: st.ops }
    | .cbEnd (.handle m) true => some { st with finishedOk := m :: st.finishedOk }
    | .cbBegin _ => if st.failed then none else some st
    | .fire _ _ | .tickBegin _ _ | .timerArm _ _ => if st.failed && st.terminated then none else some st
    | .ctxTimer t _ _ => some { st with timers := (t, false) :: st.timers }
    | .timerEnd t => some { st with timers := st.timers.map (fun p => if p.1 == t then (t, true) else p) }
    | .ret o r =>
      if !st.failed then some st else
      (match lookup o st.ops with
       | none => some st
       | some (k, late) =>
         (match k, r with
          | .await, r | .halt, r | .tryHalt, r => if r.isErr then some st else none
          | .join, r | .consume, r => if r == .none || r.isErr then some st else none
          | k, .okReply rep => if !late && k.isCall && st.finishedOk.contains rep.m then some st else none
          | .ping, .ok => if late then none else some st
          | k, .ok => if late && k.isSend then none else some st
          | _, _ => some st))
    | .quiescent pend =>
      if st.failed then
        (if pend.all (fun o => (lookup o st.ops).isNone) && st.timers.all (·.2) then some st else none)
      else some st
    | l =>
      let fail := l.isFailure || (match l with | .cbAbandon _ => c.cfg.failOnTimeout && !st.failed | _ => false)
      let st := if fail then { st with failed := true } else st
      if l.terminates then some { st with terminated := true } else some st

theorem monC06_split_step (c : MonCtx) (st : C06St) (l : Label) :
    (monC06orig c).step st l = if bad06 st l || bad06t st l then none else some (next06 c st l) := by
  cases l
  case ret o r =>
    have hn : next06 c st (.ret o r) = st := by simp [next06, fails06, Label.isFailure, Label.terminates]
    rw [hn]; clear hn
    obtain ⟨f, ops, fin, tms, tm⟩ := st
    simp only [monC06orig, bad06, bad06t]
    cases f
    · simp
    · simp only [Bool.not_true, Bool.false_eq_true, if_false, Bool.true_and]
      split
      · rename_i heq; simp [heq]
      · rename_i k late heq
        simp only [heq]
        cases k <;> cases r <;> cases late <;>
          simp [retBad06, retBad06t, OpKind.isSend, OpKind.isCall, Res.isErr]
  case quiescent pend =>
    have hn : next06 c st (.quiescent pend) = st := by simp [next06, fails06, Label.isFailure, Label.terminates]
    rw [hn]; clear hn
    obtain ⟨f, ops, fin, tms, tm⟩ := st
    simp only [monC06orig, bad06, bad06t]
    cases f <;> simp
    by_cases h1 : (pend.all fun o => (lookup o ops).isNone) = true <;>
      by_cases h2 : tms.all (·.2) = true <;> simp_all
  case cbEnd cb ok =>
    cases cb <;> cases ok <;>
      simp [monC06orig, bad06, bad06t, next06, fails06, Label.isFailure, Label.terminates]
  case cbAbandon cb =>
    obtain ⟨f, o, fo, t, tm⟩ := st
    simp only [monC06orig, bad06, bad06t, next06, fails06, Label.isFailure, Label.terminates]
    cases f <;> cases hc : c.cfg.failOnTimeout <;> simp
  all_goals
    simp [monC06orig, bad06, bad06t, next06, fails06, Label.isFailure, Label.terminates]

theorem monC06_split_run (c : MonCtx) (ls : List Label) (st : C06St) :
    ((monC06orig c).run st ls).isSome =
      (((monC06 c).run st ls).isSome && ((monC06t c).run st ls).isSome) := by
  induction ls generalizing st with
  | nil => simp [Mon.run]
  | cons l ls ih =>
    simp only [Mon.run, monC06_split_step]
    have h1 : (monC06 c).step st l = if bad06 st l then none else some (next06 c st l) := rfl
    have h2 : (monC06t c).step st l = if bad06t st l then none else some (next06 c st l) := rfl
    rw [h1, h2]
    cases hb : bad06 st l <;> cases hbt : bad06t st l <;> simp [ih]

/-- `monC06` and `monC06t` together accept exactly the traces the one-piece monitor accepts. -/
theorem monC06_split (c : MonCtx) (ls : List Label) :
    (monC06orig c).ok ls = ((monC06 c).ok ls && (monC06t c).ok ls) :=
  monC06_split_run c ls _

end Hannibal
