import Hannibal.Proofs.Latch
import Hannibal.Proofs.Run
import Hannibal.Monitor.C13
/-
  C13 (order / never abandoned / finished-then-stopped once): every run of the actor model is
  accepted by `monC13`.  No wiring hypothesis.
-/
namespace Hannibal
open AState

def postFinish : Phase → Bool
  | .finishing | .finishedDone | .stopping | .exiting _ | .done _ => true
  | _ => false

def postStop : Phase → Bool
  | .stopping | .exiting _ | .done _ => true
  | _ => false

def noDeadline : Phase → Bool
  | .handling _ _ (some _) => false
  | _ => true

def notRst : Phase → Bool
  | .rstBegin | .rstStopping | .rstStopped _ => false
  | _ => true

def inFinish : Phase → Bool
  | .finishing | .finishedDone => true
  | _ => false

structure C13Inv (c : MonCtx) (s : AState) (σ : C13St) : Prop where
  cfg : s.cfg = c.cfg
  ready : σ.ready = s.avail
  nodl : noDeadline s.phase = true
  fin0 : σ.finishedSeen ≥ 1 → postFinish s.phase = true
  fin1 : inFinish s.phase = true → σ.finishedSeen ≥ 1 ∧ σ.stoppedSeen = 0
  stop0 : σ.stoppedSeen ≥ 1 → postStop s.phase = true
  norst : notRst s.phase = true
  canc : s.abandon.isSome = true → σ.cancelled = true

set_option maxHeartbeats 4000000 in
theorem c13_step_stream (w : Wiring) (c : MonCtx) (hstream : c.cfg.stream = true) {s s' : AState} {σ : C13St}
    {l : Label} (hi : C13Inv c s σ) (hs : step w s l = some s') :
    bad13 σ l = false ∧ C13Inv c s' (next13 σ l) := by
  obtain ⟨hcfg, hr, hnd, hfin0, hfin1, hstop0, hnr, hcanc⟩ := hi
  cases l <;> unfold_steps hs <;>
    ((repeat' (split at hs)) <;>
     (first
       | (simp at hs; done)
       | (simp at hs; subst hs
          refine ⟨?_, ⟨?_, ?_, ?_, ?_, ?_, ?_, ?_, ?_⟩⟩ <;>
            (try simp_all [bad13, next13, postFinish, postStop, noDeadline, notRst, inFinish, fail, finish, cancelSlots,
              killTimers, setTimer, addOp, removeOp, removeHandle, push, answer, deadlineAt]) <;>
            (try omega)
          done)
       | (simp at hs; subst hs
          cases hp : s.phase <;>
            (refine ⟨?_, ⟨?_, ?_, ?_, ?_, ?_, ?_, ?_, ?_⟩⟩ <;>
              simp_all [bad13, next13, postFinish, postStop, noDeadline, notRst, inFinish, fail, finish, cancelSlots,
                killTimers, openCb, curSlot, isDone])
          done)
       | (simp at hs; subst hs
          unfold answer
          split <;>
            (refine ⟨?_, ⟨?_, ?_, ?_, ?_, ?_, ?_, ?_, ?_⟩⟩ <;>
              (try simp_all [bad13, next13, postFinish, postStop, noDeadline, notRst, inFinish]) <;> (try omega))
          done)))

theorem c13_init (c : MonCtx) : C13Inv c (AState.init c.cfg c.h0 c.k0) (monC13 c).init := by
  refine ⟨rfl, rfl, rfl, ?_, ?_, ?_, rfl, ?_⟩ <;> simp [monC13, AState.init, inFinish]

/-- plain (not stream-attached) actors: `monC13` has nothing to say -/
theorem c13_plain (c : MonCtx) (h : c.cfg.stream = false) (σ : C13St) (l : Label) :
    (monC13 c).step σ l = some σ := by simp [monC13, h]

theorem c13_plain_run (c : MonCtx) (h : c.cfg.stream = false) :
    ∀ (ls : List Label) (σ : C13St), ((monC13 c).run σ ls).isSome
  | [], σ => by simp [Mon.run]
  | l :: ls, σ => by simp [Mon.run, c13_plain c h σ l]; exact c13_plain_run c h ls σ

/-- **C13 (order / never abandoned / finished then stopped, once).** Every run of the actor model —
    empty, finite, never-ending, never-ready or bursty streams, messages interleaved with items, both
    outcomes of the loop's tie-break, every termination cause — is accepted by `monC13`. -/
theorem C13_holds (w : Wiring) (c : MonCtx) (ls : List Label) (s : AState)
    (hr : run w (AState.init c.cfg c.h0 c.k0) ls = some s) : (monC13 c).ok ls = true := by
  cases hstream : c.cfg.stream
  · exact c13_plain_run c hstream ls _
  · exact ok_of_run_lift (monC13 c) w (C13Inv c)
      (fun s s' σ l hi hs => by
        obtain ⟨hb, hi'⟩ := c13_step_stream w c hstream hi hs
        exact ⟨next13 σ l, by simp [monC13, hstream, hb], hi'⟩)
      _ (c13_init c) ls s hr

/-- Non-vacuity: items interleaved with a message, then the stream ends. -/
def c13Example : List Label :=
  [ .cbBegin .started, .cbEnd .started true, .streamReady 0, .streamReady 1, .begin 0 0 (.send 7),
    .cbBegin (.item 0), .cbEnd (.item 0) true, .cbBegin (.handle 7), .cbEnd (.handle 7) true,
    .cbBegin (.item 1), .cbEnd (.item 1) true, .streamEnd, .tStreamEnd, .cbBegin .finished, .cbEnd .finished true,
    .cbBegin .stopped, .cbEnd .stopped true, .taskDone ]
def c13Cfg : Cfg := { cap := none, strat := .non, timeout := none, failOnTimeout := false, stream := true }
def c13Ctx : MonCtx := { cfg := c13Cfg, h0 := 0, k0 := .addr, prompt := true }
/-- skipping an item is flagged -/
example : (monC13 c13Ctx).ok [ .cbBegin .started, .cbEnd .started true, .streamReady 0, .streamReady 1,
    .cbBegin (.item 1) ] = false := by decide

end Hannibal
