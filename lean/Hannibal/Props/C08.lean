import Hannibal.Model.Registry
import Hannibal.Monitor.C08
/-
  C08 (service registry: one live instance per type, spawned on demand, linearizable): if the registry
  decides liveness from the termination latch itself and `already_running` maps the entry through
  `running`, every run of the registry model - any number of tasks, types and instances, operations
  begun, taking effect and returning in any interleaving with terminations - is accepted by `monC08`:
  each operation takes effect exactly once between its begin and its return, the effects form a legal
  history of the sequential specification `Spec08`, and each return value is the specification's.
-/
namespace Hannibal

def WellWired08 (w : Wiring) : Prop := w.livenessQuery = .truthful ∧ w.alreadyRunningPolarity = true

instance (w : Wiring) : Decidable (WellWired08 w) := by unfold WellWired08; infer_instance

theorem find_filter_ne (l : List (Nat × Nat)) (k k' : Nat) (h : k' ≠ k) :
    (l.filter (fun p => p.1 != k)).find? (fun p => p.1 == k') = l.find? (fun p => p.1 == k') := by
  induction l with
  | nil => rfl
  | cons p ps ih =>
    by_cases hp : p.1 = k
    · have h2 : (k == k') = false := by simp; exact fun e => h e.symm
      simp [hp, List.find?_cons, h2, ih]
    · simp only [List.filter_cons, bne_iff_ne, ne_eq, hp, not_false_eq_true, if_true, List.find?_cons]
      cases (p.1 == k') <;> simp [ih]

theorem rget_rset (l : List (Nat × Nat)) (k v k' : Nat) :
    rget (rset l k v) k' = if k' = k then some v else rget l k' := by
  unfold rget rset
  by_cases h : k' = k
  · subst h; simp
  · have hb : (k == k') = false := by simp; exact fun e => h e.symm
    simp only [List.find?_cons, hb, h, if_false, find_filter_ne l k k' h]

theorem rget_rdel (l : List (Nat × Nat)) (k k' : Nat) :
    rget (rdel l k) k' = if k' = k then none else rget l k' := by
  unfold rget rdel
  by_cases h : k' = k
  · subst h
    simp only [if_true]
    have : (l.filter (fun p => p.1 != k')).find? (fun p => p.1 == k') = none := by
      apply List.find?_eq_none.mpr
      intro p hp
      have := (List.mem_filter.mp hp).2
      simpa using this
    simp [this]
  · simp only [h, if_false, find_filter_ne l k k' h]

structure C08Inv (s : RegSt) (σ : C08St) : Prop where
  reg : ∀ k, σ.spec.reg k = rget s.reg k
  dead : σ.spec.dead = s.dead
  pend : σ.pend = s.pend
  acted : σ.acted = s.acted

theorem live_eq {w : Wiring} (hw : WellWired08 w) {s : RegSt} {σ : C08St} (hi : C08Inv s σ) (k : Nat) :
    σ.spec.live k = s.lookupRunning w k := by
  unfold Spec08.live RegSt.lookupRunning Spec08.alive RegSt.runningQ RegSt.stoppedQ
  rw [hi.reg k, hw.1, hi.dead]

theorem alive_eq {w : Wiring} (hw : WellWired08 w) {s : RegSt} {σ : C08St} (hi : C08Inv s σ) (i : Nat) :
    σ.spec.alive i = s.runningQ w i := by
  unfold Spec08.alive RegSt.runningQ RegSt.stoppedQ
  rw [hw.1, hi.dead]

theorem inv_done {s : RegSt} {σ : C08St} (hi : C08Inv s σ) (o : Nat) (reg' : List (Nat × Nat)) (sp : Spec08) (r : RRes)
    (hreg : ∀ k, sp.reg k = rget reg' k) (hdead : sp.dead = s.dead) : C08Inv (s.finish o reg' r) (σ.done o sp r) := by
  refine ⟨hreg, hdead, ?_, ?_⟩
  · simp [C08St.done, RegSt.finish, hi.pend]
  · simp [C08St.done, RegSt.finish, hi.acted]

theorem c08_step {w : Wiring} (hw : WellWired08 w) {s s' : RegSt} {σ : C08St} {l : RLabel}
    (hi : C08Inv s σ) (hs : rstep w s l = some s') : ∃ σ', monC08.step σ l = some σ' ∧ C08Inv s' σ' := by
  have hfp : ∀ o, σ.findPend o = s.findPend o := fun o => by unfold C08St.findPend RegSt.findPend; rw [hi.pend]
  have hfa : ∀ o, σ.findActed o = s.findActed o := fun o => by unfold C08St.findActed RegSt.findActed; rw [hi.acted]
  cases l with
  | rbegin o op =>
    simp only [rstep] at hs
    split at hs
    · simp at hs
    · rename_i hc
      simp at hc
      have hgen : ∀ op', (∀ k, op' ≠ .tryFrom k) → s' = { s with pend := s.pend ++ [(o, op')] } →
          ∃ σ', monC08.step σ (.rbegin o op') = some σ' ∧ C08Inv s' σ' := by
        intro op' hne hs'
        subst hs'
        refine ⟨{ σ with pend := σ.pend ++ [(o, op')] }, ?_, ⟨hi.reg, hi.dead, by simp [hi.pend], hi.acted⟩⟩
        simp only [monC08, hfp, hfa, hc.1, hc.2]
        cases op' <;> simp
        all_goals (try (rename_i k; exact absurd rfl (hne k)))
      cases op <;> simp at hs
      all_goals exact hgen _ (by intro k h; cases h) hs.symm
  | ract o =>
    simp only [rstep] at hs
    split at hs
    · simp at hs
    · rename_i hlock
      cases hp : s.findPend o with
      | none => simp [hp] at hs
      | some op =>
        simp only [hp] at hs
        simp only [monC08, hfp, hp]
        cases op <;> simp only [RegSt.effect] at hs
        case fromRegistry k =>
          cases hl : s.lookupRunning w k with
          | none => simp [hl] at hs
          | some i =>
            simp [hl] at hs; subst hs
            refine ⟨σ.done o σ.spec (.inst i), by simp [Spec08.apply, live_eq hw hi, hl], inv_done hi o _ _ _ hi.reg hi.dead⟩
        case setup k =>
          cases hl : s.lookupRunning w k with
          | none => simp [hl] at hs
          | some i =>
            simp [hl] at hs; subst hs
            refine ⟨σ.done o σ.spec .unit, by simp [Spec08.apply, live_eq hw hi, hl], inv_done hi o _ _ _ hi.reg hi.dead⟩
        case register k i =>
          have hlive := live_eq hw hi k
          unfold RegSt.lookupRunning at hlive
          cases hg : rget s.reg k with
          | none =>
            simp only [hg] at hs; simp at hs; subst hs
            simp only [hg, Option.filter_none] at hlive
            refine ⟨σ.done o (σ.spec.set k (some i)) (.registered none),
              by simp [Spec08.apply, hlive, hi.reg k, hg], inv_done hi o _ _ _ ?_ hi.dead⟩
            intro k'; simp only [Spec08.set, rget_rset]; split <;> simp [hi.reg k']
          | some j =>
            simp only [hg] at hs
            by_cases hst : s.stoppedQ w j = true
            · simp only [hst, if_true] at hs; simp at hs; subst hs
              have : σ.spec.live k = none := by
                rw [hlive, hg]; simp [RegSt.runningQ, hst]
              refine ⟨σ.done o (σ.spec.set k (some i)) (.registered (some j)),
                by simp [Spec08.apply, this, hi.reg k, hg], inv_done hi o _ _ _ ?_ hi.dead⟩
              intro k'; simp only [Spec08.set, rget_rset]; split <;> simp [hi.reg k']
            · simp only [hst] at hs; simp at hs; subst hs
              have : σ.spec.live k = some j := by
                rw [hlive, hg]; simp [RegSt.runningQ, hst]
              refine ⟨σ.done o σ.spec .stillRunning,
                by simp [Spec08.apply, this], inv_done hi o _ _ _ hi.reg hi.dead⟩
        case replace k i =>
          simp at hs; subst hs
          refine ⟨σ.done o (σ.spec.set k (some i)) (.prev (rget s.reg k)),
            by simp [Spec08.apply, hi.reg k], inv_done hi o _ _ _ ?_ hi.dead⟩
          intro k'; simp only [Spec08.set, rget_rset]; split <;> simp [hi.reg k']
        case unregister k =>
          simp at hs; subst hs
          refine ⟨σ.done o (σ.spec.set k none) (.prev (rget s.reg k)),
            by simp [Spec08.apply, hi.reg k], inv_done hi o _ _ _ ?_ hi.dead⟩
          intro k'; simp only [Spec08.set, rget_rdel]; split <;> simp [hi.reg k']
        case alreadyRunning k =>
          simp at hs; subst hs
          refine ⟨σ.done o σ.spec (.running ((rget s.reg k).map (fun j => s.runningQ w j))),
            ?_, ?_⟩
          · simp only [Spec08.apply, hi.reg k]
            congr 2
            cases rget s.reg k with
            | none => rfl
            | some j => simp [alive_eq hw hi]
          · have := inv_done hi o s.reg σ.spec (.running ((rget s.reg k).map (fun j => s.runningQ w j))) hi.reg hi.dead
            simpa [hw.2] using this
        case tryFrom k => simp at hs
  | rspawn o i =>
    simp only [rstep] at hs
    split at hs
    · simp at hs
    · rename_i hlock
      cases hp : s.findPend o with
      | none => simp [hp] at hs
      | some op =>
        simp only [hp] at hs
        simp only [monC08, hfp, hp]
        cases op <;> simp at hs
        case fromRegistry k =>
          obtain ⟨hnone, rfl⟩ := hs
          have hl : (σ.spec.live k).isNone = true := by rw [live_eq hw hi]; simp [hnone]
          refine ⟨σ.done o (σ.spec.set k (some i)) (.inst i), by simp [Spec08.spawn, hl], ?_⟩
          have := inv_done hi o (rset s.reg k i) (σ.spec.set k (some i)) (.inst i)
            (by intro k'; simp only [Spec08.set, rget_rset]; split <;> simp [hi.reg k']) hi.dead
          exact ⟨this.reg, this.dead, this.pend, this.acted⟩
        case setup k =>
          obtain ⟨hnone, rfl⟩ := hs
          have hl : (σ.spec.live k).isNone = true := by rw [live_eq hw hi]; simp [hnone]
          refine ⟨σ.done o (σ.spec.set k (some i)) .unit, by simp [Spec08.spawn, hl], ?_⟩
          have := inv_done hi o (rset s.reg k i) (σ.spec.set k (some i)) .unit
            (by intro k'; simp only [Spec08.set, rget_rset]; split <;> simp [hi.reg k']) hi.dead
          exact ⟨this.reg, this.dead, this.pend, this.acted⟩
  | rret o r =>
    simp only [rstep] at hs
    split at hs
    · rename_i hf
      simp at hs; subst hs
      refine ⟨{ σ with acted := σ.acted.filter (fun p => p.1 != o) }, ?_,
        ⟨hi.reg, hi.dead, hi.pend, by simp [hi.acted]⟩⟩
      simp only [monC08, hfa, hf, if_true]
    · simp at hs
  | rsync op r =>
    cases op <;> simp only [rstep] at hs <;> (try (simp at hs; done))
    case tryFrom k =>
      by_cases hr : r = .prev (if s.lock.isSome then none else s.lookupRunning w k)
      · rw [if_pos hr] at hs; simp at hs; subst hs
        refine ⟨σ, ?_, hi⟩
        simp only [monC08, live_eq hw hi]
        by_cases hl : s.lock.isSome = true
        · simp [hl] at hr; simp [hr]
        · simp [hl] at hr; simp [hr]
      · rw [if_neg hr] at hs; simp at hs
  | term i =>
    simp only [rstep] at hs; simp at hs; subst hs
    exact ⟨_, rfl, ⟨hi.reg, by simp [hi.dead], hi.pend, hi.acted⟩⟩

theorem c08_init : C08Inv RegSt.init monC08.init :=
  ⟨fun _ => rfl, rfl, rfl, rfl⟩

theorem c08_run {w : Wiring} (hw : WellWired08 w) :
    ∀ (ls : List RLabel) (s s' : RegSt) (σ : C08St), C08Inv s σ → rrun w s ls = some s' →
      ∃ σ', monC08.run σ ls = some σ' ∧ C08Inv s' σ'
  | [], s, s', σ, hi, hr => by simp [rrun] at hr; subst hr; exact ⟨σ, rfl, hi⟩
  | l :: ls, s, s', σ, hi, hr => by
    simp only [rrun] at hr
    cases hs : rstep w s l with
    | none => simp [hs] at hr
    | some s1 =>
      simp only [hs] at hr
      obtain ⟨σ1, hm, hi1⟩ := c08_step hw hi hs
      obtain ⟨σ', hm', hi'⟩ := c08_run hw ls s1 s' σ1 hi1 hr
      exact ⟨σ', by simp [RMon.run, hm, hm'], hi'⟩

/-- **C08 (linearizable registry).** -/
theorem C08_holds (w : Wiring) (hw : WellWired08 w) (ls : List RLabel) (s : RegSt)
    (hr : rrun w RegSt.init ls = some s) : monC08.ok ls = true := by
  unfold RMon.ok
  obtain ⟨σ', hm, _⟩ := c08_run hw ls RegSt.init s monC08.init c08_init hr
  simp [hm]

/-! ### the specification says what the property says -/

/-- a lookup that does not spawn returns the registered instance, which is alive, and changes nothing -/
theorem spec_lookup (s s' : Spec08) (k i : Nat) (h : s.apply (.fromRegistry k) = some (s', .inst i)) :
    s' = s ∧ s.reg k = some i ∧ s.alive i = true := by
  simp only [Spec08.apply, Spec08.live] at h
  cases hr : s.reg k with
  | none => simp [hr] at h
  | some j =>
    cases ha : s.alive j <;> simp [hr, ha, Option.filter] at h
    obtain ⟨rfl, rfl⟩ := h
    exact ⟨rfl, rfl, ha⟩

/-- a default instance is spawned exactly when no live instance is registered -/
theorem live_none_iff (s : Spec08) (k : Nat) :
    (s.live k).isNone = true ↔ ¬ ∃ j, s.reg k = some j ∧ s.alive j = true := by
  unfold Spec08.live
  rcases h : s.reg k with _ | j
  · simp
  · cases ha : s.alive j <;> simp [ha, Option.filter]

theorem spec_spawn_iff (s : Spec08) (k i : Nat) :
    (s.spawn i (.fromRegistry k)).isSome = true ↔ ¬ ∃ j, s.reg k = some j ∧ s.alive j = true := by
  rw [← live_none_iff]
  simp only [Spec08.spawn]
  split <;> simp_all

/-- register succeeds exactly when no live instance is registered, and otherwise changes nothing -/
theorem spec_register (s : Spec08) (k i : Nat) :
    (∃ j, s.reg k = some j ∧ s.alive j = true) → s.apply (.register k i) = some (s, .stillRunning) := by
  rintro ⟨j, hr, ha⟩
  simp [Spec08.apply, Spec08.live, hr, ha, Option.filter]

theorem spec_register_ok (s : Spec08) (k i : Nat) (h : ¬ ∃ j, s.reg k = some j ∧ s.alive j = true) :
    s.apply (.register k i) = some (s.set k (some i), .registered (s.reg k)) := by
  simp only [Spec08.apply, Spec08.live]
  cases hr : s.reg k with
  | none => simp
  | some j =>
    cases ha : s.alive j
    · simp [ha, Option.filter]
    · exact absurd ⟨j, hr, ha⟩ h

/-- `already_running`: none / some false / some true for unregistered / terminated / alive -/
theorem spec_already_running (s : Spec08) (k : Nat) :
    s.apply (.alreadyRunning k) = some (s, .running (match s.reg k with
      | none => none
      | some j => some (s.alive j))) := by
  simp only [Spec08.apply]; cases s.reg k <;> rfl

/-- Non-vacuity: two concurrent lookups get the same instance, it terminates, the next lookup spawns a
    fresh one; handing out the dead instance, spawning twice and a wrong `already_running` are flagged. -/
def c08Example : List RLabel :=
  [ .rbegin 0 (.fromRegistry 1), .rbegin 1 (.fromRegistry 1), .rspawn 0 7, .rret 0 (.inst 7), .ract 1,
    .rret 1 (.inst 7), .rbegin 2 (.alreadyRunning 1), .ract 2, .rret 2 (.running (some true)), .term 7,
    .rsync (.tryFrom 1) (.prev none), .rbegin 3 (.alreadyRunning 1), .ract 3, .rret 3 (.running (some false)),
    .rbegin 4 (.fromRegistry 1), .rspawn 4 8, .rret 4 (.inst 8), .rbegin 5 (.register 1 9), .ract 5,
    .rret 5 .stillRunning ]
example : monC08.ok c08Example = true := by decide
example : monC08.ok [ .rbegin 0 (.fromRegistry 1), .rspawn 0 7, .rret 0 (.inst 7), .term 7,
    .rbegin 1 (.fromRegistry 1), .ract 1 ] = false := by decide
example : monC08.ok [ .rbegin 0 (.fromRegistry 1), .rbegin 1 (.fromRegistry 1), .rspawn 0 7, .rret 0 (.inst 7),
    .rspawn 1 8 ] = false := by decide
example : monC08.ok [ .rbegin 0 (.fromRegistry 1), .rspawn 0 7, .rret 0 (.inst 7), .rbegin 1 (.alreadyRunning 1),
    .ract 1, .rret 1 (.running (some false)) ] = false := by decide

end Hannibal
