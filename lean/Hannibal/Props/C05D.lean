import Hannibal.Proofs.C05DInvQ
/-
  C05, drain completeness for calls whose future was dropped (`Monitor/C05D.lean`).

  `C05d_holds`: for every wiring in which the strong handle kinds own the channel closures and the weak ones own
  nothing and must upgrade (`WellWired05`, the hypothesis of `C05q_holds`), every run of the actor model in which the
  client only drops the future of an operation whose submission went through (`drun`: the guarded step plus
  `AState.cdropOk`) and whose labels carry fresh message numbers and fresh operation ids (`wf01`) is accepted by
  `monC05d`:
    (q) at a `quiescent` label, if the handle events of the trace leave no strong handle, nobody asked the actor to
        stop, it has not failed and it is not a stream-attached actor whose stream ended, then the message of every
        call whose future was dropped has been handled;
    (f) when the handler of a message begins, every message of a dropped call that was submitted before it has been
        handled; and when the future of a call is dropped, no message submitted after the call's has been handled
        unless the call's has.
  `C05df_holds`: clause (f) alone (`monC05df`) holds for every wiring.
  `monC05d_split` (`Proofs/C05DOrder.lean`): `monC05d` accepts a trace iff `monC05df` and `monC05dq` do.
  Nothing is left trace-only.
-/
set_option linter.unusedSimpArgs false
set_option linter.unusedVariables false
namespace Hannibal
open AState

/-! ### runs -/

theorem wfBad_of_run05d {g : Wf01St} {l : Label} {ls : List Label}
    (hwf : (monWf01.run g (l :: ls)).isSome = true) :
    wfBad g l = false ∧ (monWf01.run (wfNext g l) ls).isSome = true := by
  simp only [Mon.run] at hwf
  cases hb : wfBad g l
  · simp only [monWf01, hb] at hwf
    exact ⟨rfl, hwf⟩
  · simp [monWf01, hb] at hwf

theorem dstep_parts05d {w : Wiring} {s s' : AState} {l : Label} (h : dstep w s l = some s') :
    step w s l = some s' ∧ ∀ o, l = .cdrop o → s.cdropOk o = true :=
  ⟨dstep_step h, fun o he => by subst he; exact dstep_cdropOk h⟩

theorem c05d_run {w : Wiring} (hw : WellWired05 w) (c : MonCtx) :
    ∀ (ls : List Label) (s s' : AState) (σ : C05dSt) (σ1 : C01St) (g : Wf01St) (σ5 : C05St) (σ2 : C02St),
      Q05d w c s σ σ1 g σ5 σ2 → drun w s ls = some s' → (monWf01.run g ls).isSome = true →
      ((monC05d c).run σ ls).isSome = true
  | [], _, _, _, _, _, _, _, _, _, _ => by simp [Mon.run]
  | l :: ls, s, s', σ, σ1, g, σ5, σ2, hi, hr, hwf => by
    simp only [drun] at hr
    cases hd : dstep w s l with
    | none => simp [hd] at hr
    | some s1 =>
      simp only [hd] at hr
      obtain ⟨hs, hok⟩ := dstep_parts05d hd
      obtain ⟨hg, hwf'⟩ := wfBad_of_run05d hwf
      obtain ⟨hb, hi1⟩ := q05d_step hw c hi hs hg hok
      have hm : (monC05d c).step σ l = some (next05d c σ l) := by simp [monC05d, hb]
      simp only [Mon.run, hm]
      exact c05d_run hw c ls s1 s' _ _ _ _ _ hi1 hr hwf'

theorem c05df_run (w : Wiring) (c : MonCtx) :
    ∀ (ls : List Label) (s s' : AState) (σ : C05dSt) (σ1 : C01St) (g : Wf01St),
      F05d s σ σ1 g → drun w s ls = some s' → (monWf01.run g ls).isSome = true →
      ((monC05df c).run σ ls).isSome = true
  | [], _, _, _, _, _, _, _, _ => by simp [Mon.run]
  | l :: ls, s, s', σ, σ1, g, hi, hr, hwf => by
    simp only [drun] at hr
    cases hd : dstep w s l with
    | none => simp [hd] at hr
    | some s1 =>
      simp only [hd] at hr
      obtain ⟨hs, hok⟩ := dstep_parts05d hd
      obtain ⟨hg, hwf'⟩ := wfBad_of_run05d hwf
      obtain ⟨hb, hi1⟩ := f05d_step w c hi hs hg hok
      have hm : (monC05df c).step σ l = some (next05d c σ l) := by simp [monC05df, hb]
      simp only [Mon.run, hm]
      exact c05df_run w c ls s1 s' _ _ _ hi1 hr hwf'

/-- **C05, drain completeness for dropped calls.**  For every wiring in which the strong handle kinds own both
    channel closures and the weak kinds own nothing and must upgrade, every `drun` of the actor model (guarded run in
    which a `cdrop` only drops the future of an operation whose submission went through) whose trace never re-uses
    a message number or an operation id is accepted by `monC05d`: the message of a call whose future the client
    dropped is never skipped (nothing submitted after it is handled while it has not been handled), and whenever
    the run reaches quiescence with no strong handle left, no stop requested, no failure and (for a
    stream-attached actor) the stream not ended, it has been handled. -/
theorem C05d_holds (w : Wiring) (hw : WellWired05 w) (c : MonCtx) (ls : List Label) (s : AState)
    (hr : drun w (AState.init c.cfg c.h0 c.k0) ls = some s) (hwf : wf01 ls = true) : (monC05d c).ok ls = true :=
  c05d_run hw c ls _ s _ _ _ _ _ (q05d_init w c) hr hwf

/-- clause (f) (a dropped call's message is never skipped) holds for every wiring -/
theorem C05df_holds (w : Wiring) (c : MonCtx) (ls : List Label) (s : AState)
    (hr : drun w (AState.init c.cfg c.h0 c.k0) ls = some s) (hwf : wf01 ls = true) : (monC05df c).ok ls = true :=
  c05df_run w c ls _ s _ _ _ (f05d_init c) hr hwf

/-- clause (q) (by quiescence a dropped call's message has been handled) -/
theorem C05dq_holds (w : Wiring) (hw : WellWired05 w) (c : MonCtx) (ls : List Label) (s : AState)
    (hr : drun w (AState.init c.cfg c.h0 c.k0) ls = some s) (hwf : wf01 ls = true) : (monC05dq c).ok ls = true := by
  have h := C05d_holds w hw c ls s hr hwf
  rw [monC05d_split] at h
  simp only [Bool.and_eq_true] at h
  exact h.2

/-! ### non-vacuity (the monitor alone; the runs of today's wiring are in `Props/C05DCurrent.lean`) -/

/-- a call is submitted while the actor is busy, its future is dropped, then the last strong handle is dropped:
    the actor still handles the call's message, then stops gracefully -/
def c05dExample : List Label :=
  [ .cbBegin .started, .cbEnd .started true,
    .begin 0 0 (.send 1), .ret 0 .ok, .cbBegin (.handle 1),
    .begin 1 0 (.call 2), .cdrop 1, .drop 0,
    .cbEnd (.handle 1) true, .cbBegin (.handle 2), .cbEnd (.handle 2) true,
    .tChanEnd, .cbBegin .stopped, .cbEnd .stopped true, .taskDone, .quiescent [] ]

example : (monC05d c05Ctx).ok c05dExample = true := by decide
example : wf01 c05dExample = true := by decide

/-- (q) the dropped call's message is never handled although the actor drained and stopped for lack of holders -/
example : (monC05d c05Ctx).ok [ .cbBegin .started, .cbEnd .started true, .begin 0 0 (.call 5), .cdrop 0, .drop 0,
    .tChanEnd, .cbBegin .stopped, .cbEnd .stopped true, .taskDone, .quiescent [] ] = false := by decide
/-- (f) the dropped call's message 5 is skipped: 6, submitted after it, is handled first -/
example : (monC05d c05Ctx).ok [ .cbBegin .started, .cbEnd .started true, .begin 0 0 (.call 5), .begin 1 0 (.send 6),
    .cdrop 0, .cbBegin (.handle 6) ] = false := by decide
/-- (f) the same, the drop coming after the later message was handled -/
example : (monC05d c05Ctx).ok [ .cbBegin .started, .cbEnd .started true, .begin 0 0 (.call 5), .begin 1 0 (.send 6),
    .cbBegin (.handle 6), .cbEnd (.handle 6) true, .cdrop 0 ] = false := by decide
/-- the clause monitors agree -/
example : (monC05df c05Ctx).ok [ .cbBegin .started, .cbEnd .started true, .begin 0 0 (.call 5), .begin 1 0 (.send 6),
    .cdrop 0, .cbBegin (.handle 6) ] = false := by decide
example : (monC05dq c05Ctx).ok [ .cbBegin .started, .cbEnd .started true, .begin 0 0 (.call 5), .cdrop 0, .drop 0,
    .tChanEnd, .cbBegin .stopped, .cbEnd .stopped true, .taskDone, .quiescent [] ] = false := by decide

end Hannibal
