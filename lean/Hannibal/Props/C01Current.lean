import Hannibal.Props.C01
import Hannibal.Generated.Wiring
/- C01 (FIFO mailbox) for the wiring extracted from today's source (the theorem holds for every wiring). -/
namespace Hannibal

theorem C01_current (c : MonCtx) (ls : List Label) (s : AState)
    (hr : run Wiring.current (AState.init c.cfg c.h0 c.k0) ls = some s) (hwf : wf01 ls = true) :
    (monC01 c).ok ls = true :=
  C01_holds _ c ls s hr hwf

example : (run Wiring.current (AState.init c01Cfg 0 .owning) c01Example).isSome = true := by decide

/-! Why `wf01` is a hypothesis: the model lets a trace name two messages, or two operations, alike; the
    monitor identifies them by these names.  Real traces never re-use a name. -/

/-- a message number used twice: accepted by the model, "handled twice" for the monitor -/
def c01ReuseMsg : List Label :=
  [ .cbBegin .started, .cbEnd .started true, .begin 0 0 (.send 1), .ret 0 .ok, .cbBegin (.handle 1),
    .cbEnd (.handle 1) true, .begin 1 0 (.send 1), .ret 1 .ok, .cbBegin (.handle 1) ]
example : (run Wiring.current (AState.init c01Cfg 0 .owning) c01ReuseMsg).isSome = true := by decide
example : (monC01 c01Ctx).ok c01ReuseMsg = false := by decide
example : wf01 c01ReuseMsg = false := by decide

/-- an operation id re-used after its future was dropped: the reply slot of the old call is filled into
    the new record -/
def c01ReuseOp : List Label :=
  [ .cbBegin .started, .cbEnd .started true, .begin 0 0 (.call 1), .cdrop 0, .begin 0 0 (.call 2),
    .cbBegin (.handle 1), .cbEnd (.handle 1) true, .ret 0 (.okReply { m := 1, birth := 0, digest := [1] }) ]
example : (run Wiring.current (AState.init c01Cfg 0 .owning) c01ReuseOp).isSome = true := by decide
example : (monC01 c01Ctx).ok c01ReuseOp = false := by decide
example : wf01 c01ReuseOp = false := by decide

end Hannibal
