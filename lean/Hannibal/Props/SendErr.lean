import Hannibal.Monitor.SendErr
import Hannibal.Proofs.Run
import Hannibal.Proofs.Ops
import Hannibal.Proofs.C01Spec
/-
  SendErr: an operation is refused with a send error only after the actor's task has ended.
  Invariant: while the monitor has not seen a terminating label the receiver exists, and every
  recorded operation that failed with a send error was recorded after a terminating label.
-/
namespace Hannibal
open AState

structure SendErrInv (s : AState) (term : Bool) : Prop where
  rx : term = false → s.chan.rx = true
  ops : ∀ r ∈ s.ops, r.st = .failed .send → term = true

/-- A step whose label is not terminating keeps the receiver flag. -/
theorem step_rx_same {w s l s'} (hs : step w s l = some s') (hl : l.terminates = false) :
    s'.chan.rx = s.chan.rx := by
  have hq := step_q hs
  cases l <;> simp [Label.terminates] at hl <;> simp only [QRel] at hq
  case begin => rcases hq with h | ⟨_, _, _, h1, h2⟩; exact h.2; rw [h1, h2]
  case fire => rcases hq with h | ⟨_, _, _, h1, h2⟩; exact h.2; rw [h1, h2]
  case cbBegin cb => cases cb <;> simp only at hq <;> exact hq.2
  all_goals exact hq.2

theorem beginWait_ops_nf (s : AState) (o h k j) :
    ∃ st, (s.beginWait o h k j).ops = s.ops ++ [{ o, h, kind := k, st }] ∧ ∀ e, st ≠ .failed e := by
  unfold beginWait; split
  · split
    · exact ⟨_, rfl, by intro e; simp⟩
    · exact ⟨_, rfl, by intro e; simp⟩
  · exact ⟨_, rfl, by intro e; simp⟩

/-- `begin` records a send failure only when the receiver is gone. -/
theorem stepBegin_sendErr {w s o h k s'} (hs : stepBegin w s o h k = some s') :
    ∃ st, s'.ops = s.ops ++ [{ o, h, kind := k, st }] ∧ (st = .failed .send → s.chan.rx = false) := by
  unfold stepBegin at hs
  cases hk0 : s.handleKind h with
  | none => simp [hk0] at hs
  | some hk =>
    simp only [hk0] at hs
    by_cases hg : (!kindOk k hk || (s.findOp o).isSome) = true
    · rw [if_pos hg] at hs; simp at hs
    · rw [if_neg hg] at hs
      by_cases hreq : (!s.reqOk w (plan w hk o k).upg) = true
      · rw [if_pos hreq] at hs; simp at hs; subst hs
        exact ⟨_, rfl, by intro h; simp at h⟩
      · rw [if_neg hreq] at hs
        cases hpl : (plan w hk o k).pl with
        | none =>
          simp only [hpl] at hs; simp at hs; subst hs
          obtain ⟨st, hst, hnf⟩ := beginWait_ops_nf s o h k (plan w hk o k).join
          exact ⟨st, hst, fun h => absurd h (hnf _)⟩
        | some pl =>
          simp only [hpl] at hs
          by_cases hrx : s.chan.rx = true
          · rw [if_pos hrx] at hs; simp at hs; subst hs
            obtain ⟨st, hst, hnf⟩ :=
              beginWait_ops_nf (s.push pl (plan w hk o k).path (.op o)) o h k (plan w hk o k).join
            exact ⟨st, by simpa using hst, fun h => absurd h (hnf _)⟩
          · rw [if_neg hrx] at hs; simp at hs; subst hs
            exact ⟨_, rfl, fun _ => by simpa using hrx⟩

/-- Only a record that failed with a send error returns a send error. -/
theorem retExpect_sendErr {s : AState} {rec : OpRec} (h : s.retExpect rec = some (.err .send)) :
    rec.st = .failed .send := by
  unfold retExpect at h
  cases hst : rec.st with
  | failed e => simp [hst] at h; rw [h]
  | pending =>
    simp only [hst] at h
    cases hk : rec.kind <;> simp only [hk] at h <;>
      (first
        | (simp at h; done)
        | (split at h <;> simp at h; done)
        | (unfold latchRes at h; split at h <;> simp at h; done))
  | answered v => simp only [hst] at h; split at h <;> simp at h
  | pinged => simp only [hst] at h; split at h <;> simp at h
  | cancelled => simp only [hst] at h; split at h <;> simp at h
  | joining =>
    simp only [hst] at h
    split at h
    · split at h <;> simp at h
    · simp at h
  | joinNone => simp only [hst] at h; split at h <;> simp at h

theorem opsMap_sendErr {s s' : AState} {term : Bool} (hm : OpsMap s s')
    (hi : ∀ r ∈ s.ops, r.st = .failed .send → term = true) :
    ∀ r ∈ s'.ops, r.st = .failed .send → term = true := by
  obtain ⟨f, hf, pf⟩ := hm
  intro r hr hst
  rw [hf, List.mem_map] at hr
  obtain ⟨r0, hr0, rfl⟩ := hr
  exact hi r0 hr0 (pf.failed r0 _ hst)

theorem filter_sendErr {s s' : AState} {term : Bool} {p : OpRec → Bool} (hm : s'.ops = s.ops.filter p)
    (hi : ∀ r ∈ s.ops, r.st = .failed .send → term = true) :
    ∀ r ∈ s'.ops, r.st = .failed .send → term = true := by
  intro r hr hst
  rw [hm] at hr
  exact hi r (List.mem_filter.mp hr).1 hst

theorem sendErr_step (w : Wiring) {s s' : AState} {term : Bool} {l : Label}
    (hi : SendErrInv s term) (hs : step w s l = some s') :
    badSendErr term l = false ∧ SendErrInv s' (term || l.terminates) := by
  cases hl : l.terminates with
  | true =>
    refine ⟨?_, ⟨by simp, fun _ _ _ => by simp⟩⟩
    cases l <;> simp [Label.terminates] at hl <;> rfl
  | false =>
    have hrx := step_rx_same hs hl
    have hrx' : (term || false) = false → s'.chan.rx = true := by
      intro h; rw [hrx]; exact hi.rx (by simpa using h)
    by_cases he : l.isOpEdge = false
    · refine ⟨?_, ⟨hrx', ?_⟩⟩
      · cases l <;> simp [Label.isOpEdge] at he <;> rfl
      · simpa using opsMap_sendErr (step_ops hs he) hi.ops
    · cases l <;> simp [Label.isOpEdge] at he <;> simp only [step] at hs
      case begin o h k =>
        refine ⟨rfl, ⟨hrx', ?_⟩⟩
        obtain ⟨st, hops, hst⟩ := stepBegin_sendErr hs
        intro r hr hf
        rw [hops, List.mem_append] at hr
        rcases hr with hr | hr
        · simpa using hi.ops r hr hf
        · simp at hr; subst hr
          have h0 := hst hf
          cases ht : term with
          | true => rfl
          | false => have := hi.rx ht; rw [h0] at this; cases this
      case ret o r =>
        obtain ⟨rec, hfind, hexp, hops, _⟩ := stepRet_ops hs
        refine ⟨?_, ⟨hrx', by simpa using filter_sendErr hops hi.ops⟩⟩
        have hmem : rec ∈ s.ops := by
          unfold findOp at hfind
          exact List.mem_of_find?_eq_some hfind
        cases r with
        | err e =>
          cases e with
          | send =>
            have := hi.ops rec hmem (retExpect_sendErr hexp)
            simp [badSendErr, this]
          | _ => rfl
        | _ => rfl
      case cdrop o =>
        exact ⟨rfl, ⟨hrx', by simpa using filter_sendErr (stepCdrop_ops hs) hi.ops⟩⟩

theorem sendErr_init (c : MonCtx) : SendErrInv (AState.init c.cfg c.h0 c.k0) monSendErr.init :=
  ⟨fun _ => rfl, fun r hr => by simp [AState.init] at hr⟩

/-- **SendErr.** For every wiring and every run of the model: an operation is refused with a send
    error (`Disconnected`) only after the actor's task has ended (`taskDone`, `taskPanic` or `cancel`). -/
theorem SendErr_holds (w : Wiring) (c : MonCtx) (ls : List Label) (s : AState)
    (hr : run w (AState.init c.cfg c.h0 c.k0) ls = some s) : monSendErr.ok ls = true :=
  ok_of_run_lift monSendErr w SendErrInv
    (fun s s' term l hi hs => by
      obtain ⟨hb, hi'⟩ := sendErr_step w hi hs
      exact ⟨term || l.terminates, by simp [monSendErr, hb], hi'⟩)
    _ (sendErr_init c) ls s hr

/-- Non-vacuity: a send error before the task has ended is flagged; after it, it is accepted. -/
example : monSendErr.ok [.begin 0 0 (.send 1), .ret 0 (.err .send)] = false := by decide
example : monSendErr.ok [.cbBegin .started, .cbEnd .started true, .begin 0 0 (.send 1), .ret 0 (.err .send),
    .taskDone] = false := by decide
example : monSendErr.ok [.taskDone, .begin 0 0 (.send 1), .ret 0 (.err .send)] = true := by decide
example : monSendErr.ok [.cancel, .begin 0 0 (.send 1), .ret 0 (.err .send)] = true := by decide
example : monSendErr.ok [.begin 0 0 (.send 1), .ret 0 (.err .canceled)] = true := by decide

end Hannibal
