import Hannibal.Props.C15
/- C15 for the wiring extracted from today's source (re-checked on every run). -/
namespace Hannibal

theorem wellWired15_current : WellWired15 Wiring.current := by decide

theorem C15_current (c : MonCtx) (ls : List Label) (s : AState)
    (hr : run Wiring.current (AState.init c.cfg c.h0 c.k0) ls = some s) : (monC15 c).ok ls = true :=
  C15_holds _ wellWired15_current c ls s hr

end Hannibal
