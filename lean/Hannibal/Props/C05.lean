import Hannibal.Proofs.C05Dead
import Hannibal.Proofs.C05Phase
import Hannibal.Proofs.Run
/-
  C05 (strong handles keep an actor alive, weak ones, the context and timers never do): for every wiring in
  which strong handle kinds own the channel closures and weak ones own nothing, every run of the actor
  model is accepted by `monC05`.
-/
namespace Hannibal
open AState

structure C05Inv (w : Wiring) (c : MonCtx) (s : AState) (σ : C05St) : Prop where
  hinv : HInv s σ.hold
  oinv : OInv s σ
  tinv : TInv s σ
  cfg : s.cfg = c.cfg
  strm : σ.streamEnded = s.streamEnded
  stopq : 0 < cntP isStopP s → σ.stopIssued = true
  rst : loopAlive s.phase = true → cntP isRestartP s + rb s.phase ≤ σ.restartsPending
  leave : leavingPh s.phase = true →
    σ.stopIssued = true ∨ (s.cfg.stream = true ∧ s.streamEnded = true) ∨ Dead05 s

theorem pushN_stop_issues {l : Label} (h : 0 < pushN isStopP l) : issuesStop l = true := by
  cases l <;> simp [pushN, isStopP] at h <;> simp [issuesStop]
  case begin o h' k => cases k <;> simp [isStopKind] at h <;> rfl
  case restartReq h' ok => cases ok <;> simp at h
  case ctxRestart ok => cases ok <;> simp at h

theorem pushN_restart (l : Label) : pushN isRestartP l = restartIncr l := by
  cases l <;> simp [pushN, isRestartP, restartIncr]
  case restartReq h ok => cases ok <;> simp
  case ctxRestart ok => cases ok <;> simp

theorem next05_restarts (c : MonCtx) (σ : C05St) (l : Label) (h : l ≠ .cbBegin .stopped) :
    (next05 c σ l).restartsPending = σ.restartsPending + restartIncr l := by
  cases l <;> simp [next05, restartIncr]
  case restartReq h ok => cases ok <;> simp
  case ctxRestart ok => cases ok <;> simp

theorem strongHeld_false_of_dead {s : AState} {σ : C05St} (hh : σ.hold.handles = s.handles) (hd : Dead05 s) :
    σ.hold.strongHeld = false := by
  unfold HoldSt.strongHeld; rw [hh]; exact hd.not_strong

theorem c05_step {w : Wiring} (hw : WellWired05 w) {c : MonCtx} {s s' : AState} {σ : C05St} {l : Label}
    (hi : C05Inv w c s σ) (hs : step w s l = some s') : bad05 c σ l = false ∧ C05Inv w c s' (next05 c σ l) := by
  obtain ⟨hcfg, hstrm⟩ := step_cfg_stream hs
  have hmono : σ.stopIssued = true → (next05 c σ l).stopIssued = true := by
    intro h; simp [next05, h]
  -- the invariant
  have hinv' : C05Inv w c s' (next05 c σ l) := by
    refine ⟨hinv_step hi.hinv hs, oinv_step hi.oinv hs, tinv_step hi.tinv hs, by rw [hcfg]; exact hi.cfg, ?_, ?_, ?_, ?_⟩
    · rw [hstrm, ← hi.strm]; cases l <;> simp [next05]
    · -- stop requests in the mailbox were issued
      intro hpos
      have hc := step_cnt isStopP (by simp [isStopP]) (by simp [isStopP]) (by simp [isStopP]) (by simp [isStopP]) hs
      by_cases h0 : 0 < cntP isStopP s
      · exact hmono (hi.stopq h0)
      · have : 0 < pushN isStopP l := by omega
        simp [next05, pushN_stop_issues this]
    · -- restart requests in the mailbox (or being served) were issued
      intro halive
      by_cases hex : l.isExit = true
      · cases l <;> simp [Label.isExit] at hex
        case tDeq =>
          simp only [step] at hs
          obtain ⟨hph, e, rest, hq, hch, _, _, hcase⟩ := stepDeq_spec hs
          have h0 := hi.rst (by simp [hph, loopAlive])
          simp only [hph, rb] at h0
          have hn : (next05 c σ .tDeq).restartsPending = σ.restartsPending := by simp [next05]
          rw [hn]
          have hcnt : cntP isRestartP s = cntP isRestartP s' + (if isRestartP e.pl then 1 else 0) := by
            simp only [cntP, hch, Chan.deq, hq, List.tail_cons, List.countP_cons]
          rcases hcase with ⟨hpl, hp'⟩ | ⟨hpl, hp'⟩ | hp'
          · rw [hp'] at halive; simp [loopAlive] at halive
          · rw [hp']; simp only [rb]; rw [hpl] at hcnt; simp [isRestartP] at hcnt; omega
          · rw [hp']; simp only [rb]; split at hcnt <;> omega
        case tChanEnd =>
          simp only [step] at hs
          obtain ⟨_, _, rfl⟩ := stepChanEnd_spec hs
          simp [loopAlive] at halive
        case tStreamEnd =>
          simp only [step] at hs
          obtain ⟨_, _, _, rfl⟩ := stepStreamEndTau_spec hs
          simp [loopAlive] at halive
      · have hex' : l.isExit = false := by simpa using hex
        obtain ⟨ha, hrb⟩ := (step_phase_facts hs hex').1 halive
        have h0 := hi.rst ha
        have hc := step_cnt isRestartP (by simp [isRestartP]) (by simp [isRestartP]) (by simp [isRestartP]) (by simp [isRestartP]) hs
        rw [pushN_restart] at hc
        by_cases hst : l = .cbBegin .stopped
        · subst hst
          simp only [next05]
          simp only [step] at hs
          rcases stepCbBegin_stopped_spec hs with ⟨_, rfl⟩ | ⟨_, rfl⟩ | ⟨hp, rfl⟩
          · simp [loopAlive] at halive
          · simp [loopAlive] at halive
          · simp only [hp, rb] at h0
            simp only [rb]
            have : cntP isRestartP { s with phase := Phase.rstStopping } = cntP isRestartP s := rfl
            omega
        · rw [next05_restarts c σ l hst]; omega
    · -- why the loop has left
      intro hleave
      by_cases hex : l.isExit = true
      · cases l <;> simp [Label.isExit] at hex
        case tDeq =>
          simp only [step] at hs
          obtain ⟨hph, e, rest, hq, hch, _, _, hcase⟩ := stepDeq_spec hs
          rcases hcase with ⟨hpl, hp'⟩ | ⟨hpl, hp'⟩ | hp'
          · left
            apply hmono
            apply hi.stopq
            unfold cntP; rw [hq]; simp [List.countP_cons, hpl, isStopP]
          · rw [hp'] at hleave; simp [leavingPh] at hleave
          · rw [hp'] at hleave; simp [leavingPh] at hleave
        case tChanEnd =>
          have hd' : Dead05 s → Dead05 s' := fun hd => dead_step hw hd hs
          simp only [step] at hs
          obtain ⟨_, hna, _⟩ := stepChanEnd_spec hs
          exact .inr (.inr (hd' (dead_of_not_alive hw hna)))
        case tStreamEnd =>
          simp only [step] at hs
          obtain ⟨_, h1, h2, rfl⟩ := stepStreamEndTau_spec hs
          exact .inr (.inl ⟨h1, h2⟩)
      · have hex' : l.isExit = false := by simpa using hex
        have hl := (step_phase_facts hs hex').2 hleave
        rcases hi.leave hl with h | ⟨h1, h2⟩ | h
        · exact .inl (hmono h)
        · exact .inr (.inl ⟨by rw [hcfg]; exact h1, by rw [hstrm, h2]; rfl⟩)
        · exact .inr (.inr (dead_step hw h hs))
  refine ⟨?_, hinv'⟩
  -- the guard
  cases l <;> (try rfl)
  case upgrade h h' =>
    cases h' with
    | none => rfl
    | some h' => exact bad05_upgrade hw hi.hinv.handles hi.oinv hi.tinv hs
  case timerArm t due => exact bad05_timerArm hw hi.hinv.handles hi.oinv hi.tinv hs
  case cbBegin cb =>
    cases cb <;> (try rfl)
    case finished =>
      simp only [step] at hs
      obtain ⟨hp, _⟩ := stepCbBegin_finished_spec hs
      simp only [bad05]
      rcases hi.leave (by simp [hp, leavingPh]) with h | ⟨_, h2⟩ | h
      · simp [h]
      · simp [hi.strm, h2]
      · simp [strongHeld_false_of_dead hi.hinv.handles h]
    case stopped =>
      simp only [step] at hs
      simp only [bad05]
      rcases stepCbBegin_stopped_spec hs with ⟨hp, _⟩ | ⟨hp, _⟩ | ⟨hp, _⟩
      · rcases hi.leave (by simp [hp, leavingPh]) with h | ⟨h1, h2⟩ | h
        · simp [h]
        · rw [hi.cfg] at h1; simp [hi.strm, h1, h2]
        · simp [strongHeld_false_of_dead hi.hinv.handles h]
      · rcases hi.leave (by simp [hp, leavingPh]) with h | ⟨h1, h2⟩ | h
        · simp [h]
        · rw [hi.cfg] at h1; simp [hi.strm, h1, h2]
        · simp [strongHeld_false_of_dead hi.hinv.handles h]
      · -- rstBegin: a restart was requested
        have := hi.rst (by simp [hp, loopAlive])
        simp only [hp, rb] at this
        have hne : σ.restartsPending ≠ 0 := by omega
        simp [hne]

theorem c05_init (w : Wiring) (c : MonCtx) : C05Inv w c (AState.init c.cfg c.h0 c.k0) (monC05 c).init := by
  refine ⟨⟨rfl, ?_⟩, ?_, ⟨?_, ?_, ?_, ?_⟩, rfl, rfl, ?_, ?_, ?_⟩
  · intro r hr; simp [AState.init] at hr
  · intro r hr; simp [AState.init] at hr
  · intro x hx; simp [AState.init] at hx
  · intro x hx; simp [AState.init] at hx
  · intro t ht; simp [monC05] at ht
  · simp [AState.init, timerIds]
  · intro h; simp [cntP, AState.init, Chan.init] at h
  · intro _; simp [cntP, AState.init, Chan.init, rb, monC05]
  · intro h; simp [AState.init, leavingPh] at h

/-- **C05 (who keeps an actor alive).** For every wiring in which the strong handle kinds own both channel
    closures and the weak kinds own nothing and must upgrade, and for every run of the actor model - all
    handle manipulations (clone, downgrade, upgrade, convert, drop, in any order), submissions, timers and
    restarts under every interleaving: the final `stopped` (and `finished`) of the actor begins only if a stop
    was requested, it failed, its stream ended, or no strong handle is left; upgrading a weak handle succeeds
    only while a strong holder exists; with no strong holder left no timer goes round again. -/
theorem C05_holds (w : Wiring) (hw : WellWired05 w) (c : MonCtx) (ls : List Label) (s : AState)
    (hr : run w (AState.init c.cfg c.h0 c.k0) ls = some s) : (monC05 c).ok ls = true :=
  ok_of_run_lift (monC05 c) w (C05Inv w c)
    (fun s s' σ l hi hs => by
      obtain ⟨hb, hi'⟩ := c05_step hw hi hs
      exact ⟨next05 c σ l, by simp [monC05, hb], hi'⟩)
    _ (c05_init w c) ls s hr

/-- Non-vacuity: the last strong handle is dropped, the mailbox is drained, the actor stops; a `stopped`
    while a strong handle exists and nobody asked for it, an upgrade with no strong holder, and a timer
    going round again with no strong holder are all flagged. -/
def c05Cfg : Cfg := { cap := none, strat := .only, timeout := none, failOnTimeout := false, stream := false }
def c05Ctx : MonCtx := { cfg := c05Cfg, h0 := 0, k0 := .addr, prompt := true }
def c05Example : List Label :=
  [ .cbBegin .started, .ctxTimer 0 .interval 5, .cbEnd .started true, .timerArm 0 5, .mk 0 1 .weakAddr,
    .begin 0 0 (.send 7), .ret 0 .ok, .drop 0, .upgrade 1 none, .cbBegin (.handle 7), .cbEnd (.handle 7) true,
    .tChanEnd, .cbBegin .stopped, .cbEnd .stopped true, .taskDone, .time 5, .timerEnd 0 ]
example : (monC05 c05Ctx).ok c05Example = true := by decide
example : (monC05 c05Ctx).ok [ .cbBegin .started, .cbEnd .started true, .cbBegin .stopped ] = false := by decide
example : (monC05 c05Ctx).ok [ .cbBegin .started, .cbEnd .started true, .mk 0 1 .weakAddr, .drop 0,
    .upgrade 1 (some 2) ] = false := by decide
example : (monC05 c05Ctx).ok [ .cbBegin .started, .ctxTimer 0 .interval 5, .cbEnd .started true, .timerArm 0 5,
    .drop 0, .time 5, .timerArm 0 10 ] = false := by decide

end Hannibal
