import Hannibal.Props.C17
import Hannibal.Props.C04Current
/- C17 (the value) for the wiring extracted from today's source. -/
namespace Hannibal

theorem C17_current (c : MonCtx) (ls : List Label) (s : AState)
    (hr : run Wiring.current (AState.init c.cfg c.h0 c.k0) ls = some s) : (monC17 c).ok ls = true :=
  C17_holds _ wellWired04_current c ls s hr

example : (run Wiring.current (AState.init c17Cfg 0 .owning) c17Example).isSome = true := by decide

end Hannibal
