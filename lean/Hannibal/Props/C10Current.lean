import Hannibal.Props.C10
import Hannibal.Generated.Wiring
/- C10 for the wiring extracted from today's source. -/
namespace Hannibal

theorem C10_current (c : MonCtx) (ls : List Label) (s : AState)
    (hr : run Wiring.current (AState.init c.cfg c.h0 c.k0) ls = some s) : (monC10 c).ok ls = true :=
  C10_holds _ c ls s hr

example : (run Wiring.current (AState.init c10Cfg 0 .addr) c10Example).isSome = true := by decide

end Hannibal
