import Hannibal.Props.C19
import Hannibal.Generated.Bounds
/- C19 for the bounds extracted from today's source (re-checked on every run). -/
namespace Hannibal

theorem wellWired19_current : WellWired19 Bounds.current := wellWired19_of_b _ (by decide)

theorem C19_current (u : Use) (ha : accepts Bounds.current u = true) : Legit u :=
  C19_holds _ wellWired19_current u ha

end Hannibal
