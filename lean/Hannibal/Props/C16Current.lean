import Hannibal.Props.C16
import Hannibal.Props.C05Current
import Hannibal.Generated.SysFacts
/- C16 for the wiring extracted from today's source. -/
namespace Hannibal

/-- the system model is written for code of this shape: children are strong senders stored in the parent's
    context and nowhere else, released only with it; `send_to_children` reaches every child registered for the
    message type and goes on after an error (read off the source on every run) -/
theorem shape16_current : SysFacts.current.ok16 = true := by decide

theorem C16_lifetime_current (ls : List SLabel) (S : Sys) (hr : srun Wiring.current Sys.init ls = some S)
    (a : Nat) (sa : AState) (hg : S.get a = some sa) :
    ∃ cfg h0 k0, (monC05 { cfg, h0, k0, prompt := false }).ok (projOf a ls) = true :=
  C16_lifetime _ wellWired05_current ls S hr a sa hg

theorem C16_broadcast_current (ls : List SLabel) (S : Sys) (hr : srun Wiring.current Sys.init ls = some S) :
    monC16.ok ls = true := C16_broadcast _ ls S hr

example : (srun Wiring.current Sys.init c16Example).isSome = true := by decide

/-- the child is kept alive by the parent alone: while the parent lives the child cannot leave its loop for
    lack of holders (the model refuses the step), after the parent's end it can -/
example : (srun Wiring.current Sys.init (c16Example.take 13 ++ [.act 1 .tChanEnd])).isSome = false := by decide

end Hannibal
