import Hannibal.Props.C02C
import Hannibal.Generated.Wiring
/- C02c (a call whose own message was handled to completion does not return an error) for the wiring extracted
   from today's source (the theorem holds for every wiring), with runs of that wiring as witnesses. -/
namespace Hannibal

theorem C02c_current (c : MonCtx) (ls : List Label) (s : AState)
    (hr : run Wiring.current (AState.init c.cfg c.h0 c.k0) ls = some s) (hwf : wf01 ls = true) :
    monC02c.ok ls = true :=
  C02c_holds _ c ls s hr hwf

/-! ### non-vacuity: two calls, a stop request from another handle while the first call is being handled and
    the message of the second is waiting; both are handled, both callers get `Ok`, then the actor stops -/

example : (run Wiring.current (AState.init c02cCfg 0 .addr) c02cExample).isSome = true := by decide
example : (grun Wiring.current (AState.init c02cCfg 0 .addr) c02cExample).isSome = true := by decide
example : (drun Wiring.current (AState.init c02cCfg 0 .addr) c02cExample).isSome = true := by decide
example : wf01 c02cExample = true := by decide
example : monC02c.ok c02cExample = true := by decide

/-- the bad continuation (`already_stopped` for the second caller after its handler ended normally) is
    rejected by the monitor and refused by the model -/
example : monC02c.ok c02cBad = false := by decide
example : run Wiring.current (AState.init c02cCfg 0 .addr) c02cBad = none := by decide
/-- so is `canceled` -/
example : run Wiring.current (AState.init c02cCfg 0 .addr)
    (c02cExample.take 11 ++ [ .ret 1 (.err .canceled) ]) = none := by decide
example : monC02c.ok (c02cExample.take 11 ++ [ .ret 1 (.err .canceled) ]) = false := by decide

/-- the client may drop the future of the second call instead: then nothing returns (no `ret` after `cdrop`) -/
example : (run Wiring.current (AState.init c02cCfg 0 .addr)
    (c02cExample.take 10 ++ [ .cdrop 1, .cbEnd (.handle 2) true ])).isSome = true := by decide
example : run Wiring.current (AState.init c02cCfg 0 .addr)
    (c02cExample.take 10 ++ [ .cdrop 1, .cbEnd (.handle 2) true, .ret 1 (.err .canceled) ]) = none := by decide

/-- a call still waiting when the loop goes away is cancelled — its handler never runs, so the monitor has
    nothing to say about it: the first handler panics, the second call is cancelled unhandled -/
def c02cPanic : List Label :=
  [ .cbBegin .started, .cbEnd .started true, .begin 0 0 (.call 1), .begin 1 0 (.call 2), .cbBegin (.handle 1),
    .cbPanic (.handle 1), .taskDone, .ret 0 (.err .canceled), .ret 1 (.err .canceled) ]
example : (run Wiring.current (AState.init c02cCfg 0 .addr) c02cPanic).isSome = true := by decide
example : (grun Wiring.current (AState.init c02cCfg 0 .addr) c02cPanic).isSome = true := by decide
example : wf01 c02cPanic = true := by decide
example : monC02c.ok c02cPanic = true := by decide

/-! ### why `wf01` is a hypothesis: the monitor identifies invocations by message number and callers by
    operation id; the model lets a trace re-use either.  Real traces never do. -/

/-- a message number used twice: the first "1" is handled to completion (its caller is answered), then the
    actor is cancelled and the second call of "1" — never handled — gets `canceled`; for the monitor "1" was
    handled -/
def c02cReuseMsg : List Label :=
  [ .cbBegin .started, .cbEnd .started true, .begin 0 0 (.call 1), .begin 1 0 (.call 1), .cbBegin (.handle 1),
    .cbEnd (.handle 1) true, .ret 0 (.okReply { m := 1, birth := 0, digest := [1] }), .cancel,
    .ret 1 (.err .canceled) ]
example : (run Wiring.current (AState.init c02cCfg 0 .addr) c02cReuseMsg).isSome = true := by decide
example : (grun Wiring.current (AState.init c02cCfg 0 .addr) c02cReuseMsg).isSome = true := by decide
example : (drun Wiring.current (AState.init c02cCfg 0 .addr) c02cReuseMsg).isSome = true := by decide
example : monC02c.ok c02cReuseMsg = false := by decide
example : wf01 c02cReuseMsg = false := by decide

/-- an operation id re-used after its future was dropped (timeout 5): the invocation of the dropped call "1"
    is abandoned, which cancels the record now standing for the new call "2" under the same id; the handler of
    "2" then runs to completion, its reply finds the slot cancelled, and the caller gets `canceled` -/
def c02cReuseOp : List Label :=
  [ .cbBegin .started, .cbEnd .started true, .begin 0 0 (.call 1), .cdrop 0, .begin 0 0 (.call 2),
    .cbBegin (.handle 1), .time 5, .cbAbandon (.handle 1), .cbBegin (.handle 2), .cbEnd (.handle 2) true,
    .ret 0 (.err .canceled) ]
example : (run Wiring.current (AState.init c11cCfg 0 .addr) c02cReuseOp).isSome = true := by decide
example : (grun Wiring.current (AState.init c11cCfg 0 .addr) c02cReuseOp).isSome = true := by decide
example : (drun Wiring.current (AState.init c11cCfg 0 .addr) c02cReuseOp).isSome = true := by decide
example : monC02c.ok c02cReuseOp = false := by decide
example : wf01 c02cReuseOp = false := by decide

end Hannibal
