import Hannibal.Proofs.C12Step
import Hannibal.Generated.Wiring
/-
  C12 — A bounded mailbox exerts backpressure on send.

  Property theorem: for every wiring in which `send` uses the waiting path,
  every mailbox bound n (0 included), every run of the actor model — any
  number of clients, handles, messages, any interleaving of waiting and forcing
  submissions, dequeues, timers, restarts and faults — is accepted by the C12
  monitor: at every moment before termination, the number of send operations
  that returned Ok and whose message has not been taken out of the mailbox is
  at most n.
-/
namespace Hannibal
open AState

set_option maxHeartbeats 400000 in
theorem c12_step (w : Wiring) (hw : WellWired12 w) (n : Nat) {s s' : AState} {σ : C12St} {l : Label}
    (hi : C12Inv n s σ) (hs : step w s l = some s') :
    ∃ σ', (monC12 (some n)).step σ l = some σ' ∧ C12Inv n s' σ' := by
  by_cases hplain : l.isPlain = true
  · -- nothing or one submission; op table mapped pointwise; the monitor does not move
    have hc := step_plain hplain hs
    have ho := step_ops hs (by cases l <;> simp_all [Label.isPlain, Label.isOpEdge])
    refine ⟨σ, ?_, inv_sameOrEnq hi hc ho⟩
    cases l <;> simp_all [Label.isPlain, monC12, Label.terminates]
  · cases l <;> simp [Label.isPlain] at hplain
    case begin o h k =>
      simp only [step] at hs
      obtain ⟨hfresh, st, hops, hc, hq⟩ := stepBegin_detail hs
      have hne := findOp_none hfresh
      have hnd : (s'.ops.map (·.o)).Nodup := by
        rw [hops]; simp [List.nodup_append]
        exact ⟨hi.nodupOps, fun a ha => by simpa using (hne a ha)⟩
      -- the part of the invariant that does not depend on the monitor's new entry
      have hbase : ∀ σ' : C12St, σ'.out = σ.out → σ'.dead = σ.dead → σ'.handled = σ.handled →
          (∀ p ∈ σ'.sends, ∃ r ∈ s'.ops, r.o = p.1 ∧ isSendKind r.kind = some p.2) →
          C12Inv n s' σ' := by
        intro σ' hout hdead hhand hsends
        have hwf : s'.chan.WF := hc.toChanStep.wf hi.wf
        have hcap : s'.chan.cap = some n := by rw [hc.toChanStep.cap]; exact hi.cap
        refine ⟨hwf, hcap, hnd, hsends, by rw [hout]; exact hi.outNodup, ?_, ?_⟩
        · intro hd m hm
          rw [hout] at hm; rw [hdead] at hd
          obtain ⟨x, hx, hpl⟩ := hi.outIn hd m hm
          rcases hc with hc | ⟨e, _, hc⟩
          · exact ⟨x, by rw [hc]; exact hx, hpl⟩
          · exact ⟨x, by rw [hc]; exact mem_take_enq hx, hpl⟩
        · intro hd r hr hst m hk
          rw [hdead] at hd; rw [hhand]
          rw [hops] at hr
          rcases List.mem_append.mp hr with hr | hr
          · rcases hi.pend hd r hr hst m hk with h | ⟨x, hx, h1, h2⟩
            · exact .inl h
            · rcases hc with hc | ⟨e, _, hc⟩
              · exact .inr ⟨x, by rw [hc]; exact hx, h1, h2⟩
              · exact .inr ⟨x, by rw [hc]; exact mem_queue_enq hx, h1, h2⟩
          · simp at hr; subst hr
            exact .inr (hq hst m hk hw)
      cases hk : isSendKind k with
      | none =>
        refine ⟨σ, by simp [monC12, hk], hbase σ rfl rfl rfl ?_⟩
        intro p hp
        obtain ⟨r, hr, h1, h2⟩ := hi.sends p hp
        exact ⟨r, by rw [hops]; exact List.mem_append_left _ hr, h1, h2⟩
      | some m =>
        refine ⟨{ σ with sends := (o, m) :: σ.sends }, by simp [monC12, hk], hbase _ rfl rfl rfl ?_⟩
        intro p hp
        simp at hp
        rcases hp with rfl | hp
        · exact ⟨_, by rw [hops]; exact List.mem_append_right _ (List.mem_singleton.mpr rfl), rfl, hk⟩
        · obtain ⟨r, hr, h1, h2⟩ := hi.sends p hp
          exact ⟨r, by rw [hops]; exact List.mem_append_left _ hr, h1, h2⟩
    case ret o r =>
      simp only [step] at hs
      obtain ⟨rec, hfind, hexp, hops, hro⟩ := stepRet_ops hs
      have hc := stepRet_chan hs
      obtain ⟨hrec, _⟩ := findOp_mem hfind
      have hnd : (s'.ops.map (·.o)).Nodup := by
        rw [hops]; exact (List.Sublist.map _ List.filter_sublist).nodup hi.nodupOps
      have hsends' : ∀ p ∈ σ.sends.filter (fun p => p.1 != o),
          ∃ r ∈ s'.ops, r.o = p.1 ∧ isSendKind r.kind = some p.2 := by
        intro p hp
        simp at hp
        obtain ⟨r0, hr0, h1, h2⟩ := hi.sends p hp.1
        exact ⟨r0, by rw [hops]; simp [hr0, h1, hp.2], h1, h2⟩
      -- invariant for any monitor state that keeps `out` (up to the case below) and filters `sends`
      have hkeep : ∀ out', out'.Nodup → (σ.dead = false → ∀ m ∈ out', ∃ e ∈ s.chan.queue.take n, e.pl = .msg m none) →
          C12Inv n s' { σ with sends := σ.sends.filter (fun p => p.1 != o), out := out' } := by
        intro out' hnd' hin
        refine ⟨by rw [hc]; exact hi.wf, by rw [hc]; exact hi.cap, hnd, hsends', hnd', ?_, ?_⟩
        · intro hd m hm; rw [hc]; exact hin hd m hm
        · intro hd r0 hr0 hst m hk
          rw [hops] at hr0
          have hr0' := (List.mem_filter.mp hr0).1
          rw [hc]
          exact hi.pend hd r0 hr0' hst m hk
      by_cases hrok : r = .ok
      · subst hrok
        cases hfs : σ.sends.find? (fun p => p.1 == o) with
        | none =>
          exact ⟨_, by simp [monC12, hfs], hkeep σ.out hi.outNodup hi.outIn⟩
        | some p =>
          obtain ⟨o', m⟩ := p
          by_cases hskip : (σ.dead || σ.handled.contains m || σ.out.contains m) = true
          · refine ⟨_, ?_, hkeep σ.out hi.outNodup hi.outIn⟩
            simp only [monC12, hfs]
            simp at hskip ⊢
            intro h1 h2
            rcases hskip with (h | h) | h <;> simp_all
          · have hpm := List.mem_of_find?_eq_some hfs
            have hpo : o' = o := by simpa using List.find?_some hfs
            subst hpo
            obtain ⟨r0, hr0, h1, h2⟩ := hi.sends _ hpm
            have hrr : r0 = rec := eq_of_nodup_o hi.nodupOps hr0 hrec (by simp at h1; rw [h1, hro])
            subst hrr
            simp at hskip
            obtain ⟨⟨hdead, hnh⟩, hno⟩ := hskip
            -- the operation is a pending, un-parked send
            have hpend : r0.st = .pending ∧ s.chan.isParked (.op o') = false := by
              unfold retExpect at hexp
              cases hst : r0.st <;> simp only [hst] at hexp
              all_goals (cases hk : r0.kind <;> simp_all [isSendKind])
            rcases hi.pend hdead r0 hr0 hpend.1 m h2 with h | ⟨e, he, htok, hpl⟩
            · exact absurd h hnh
            · have hin := Chan.mem_take_of_not_parked s.chan n hi.cap hi.wf e he (by rw [htok, hro]; exact hpend.2)
              have hnd' : (σ.out ++ [m]).Nodup := by
                simp [List.nodup_append, hi.outNodup]
                intro a ha h; subst h; exact hno ha
              have hin' : σ.dead = false → ∀ m' ∈ σ.out ++ [m], ∃ e ∈ s.chan.queue.take n, e.pl = .msg m' none := by
                intro hd m' hm'
                rcases List.mem_append.mp hm' with h | h
                · exact hi.outIn hd m' h
                · simp at h; subst h; exact ⟨e, hin, hpl⟩
              have hlen : (σ.out ++ [m]).length ≤ n := by
                have := length_le_of_nodup_cover (σ.out ++ [m]) (s.chan.queue.take n) msgOfEntry hnd'
                  (fun a ha => by
                    obtain ⟨x, hx, hxpl⟩ := hin' hdead a ha
                    exact ⟨x, hx, by simp [msgOfEntry, hxpl]⟩)
                exact Nat.le_trans this (by simp [List.length_take]; omega)
              refine ⟨_, ?_, hkeep (σ.out ++ [m]) hnd' hin'⟩
              simp only [monC12, hfs]
              have hlen' : σ.out.length + 1 ≤ n := by simpa using hlen
              simp [hdead, hnh, hno, hlen']
      · refine ⟨_, ?_, hkeep σ.out hi.outNodup hi.outIn⟩
        simp [monC12, hrok]
    case cdrop o =>
      simp only [step] at hs
      have hc := stepCdrop_chan hs
      have hops := stepCdrop_ops hs
      refine ⟨{ σ with sends := σ.sends.filter (fun p => p.1 != o) }, by simp [monC12], ?_⟩
      refine ⟨by rw [hc]; exact hi.wf, by rw [hc]; exact hi.cap, ?_, ?_, hi.outNodup, ?_, ?_⟩
      · rw [hops]; exact (List.Sublist.map _ List.filter_sublist).nodup hi.nodupOps
      · intro p hp
        simp at hp
        obtain ⟨r0, hr0, h1, h2⟩ := hi.sends p hp.1
        exact ⟨r0, by rw [hops]; simp [hr0, h1, hp.2], h1, h2⟩
      · intro hd m hm; rw [hc]; exact hi.outIn hd m hm
      · intro hd r0 hr0 hst m hk
        rw [hops] at hr0
        rw [hc]
        exact hi.pend hd r0 (List.mem_filter.mp hr0).1 hst m hk
    case cbBegin cb =>
      simp only [step] at hs
      have ho := stepCbBegin_ops hs
      rcases stepCbBegin_detail hs with ⟨m, sl, tok, rest, rfl, hq, hc⟩ | ⟨hc, hnh⟩
      · refine ⟨{ σ with out := σ.out.erase m, handled := m :: σ.handled }, by simp [monC12], ?_⟩
        refine inv_deq hi _ rest hq hc ho { σ with out := σ.out.erase m, handled := m :: σ.handled }
          rfl rfl (hi.outNodup.erase m) ?_ ?_ ?_
        · intro m' hm'
          have := (hi.outNodup.mem_erase_iff).mp hm'
          refine ⟨this.2, ?_⟩
          intro h; simp at h; exact this.1 h.1.symm
        · intro m' hm'; simp [hm']
        · intro m' hm'; simp at hm'; simp [hm'.1]
      · have hmon : (monC12 (some n)).step σ (.cbBegin cb) = some σ := by
          cases cb with
          | handle m => exact absurd rfl (hnh m)
          | _ => simp [monC12, Label.terminates]
        exact ⟨σ, hmon, inv_sameOrEnq hi (.inl hc) ho⟩
    case tickBegin t m =>
      simp only [step] at hs
      obtain ⟨tok, rest, hq, hc⟩ := stepTickBegin_detail hs
      exact ⟨σ, by simp [monC12, Label.terminates], inv_rename hi t m tok rest hq hc (stepTickBegin_ops hs)⟩
    case extBegin b m =>
      simp only [step] at hs
      obtain ⟨tok, rest, hq, hc⟩ := stepExtBegin_detail hs
      exact ⟨σ, by simp [monC12, Label.terminates],
        inv_rename_pl hi (.ext b) (by simp) m tok rest hq hc (stepExtBegin_ops hs)⟩
    case tDeq =>
      simp only [step] at hs
      obtain ⟨e, rest, hq, hne, hc⟩ := stepDeq_detail hs
      refine ⟨σ, by simp [monC12, Label.terminates], ?_⟩
      exact inv_deq hi e rest hq hc (stepDeq_ops hs) σ rfl rfl hi.outNodup
        (fun m hm => ⟨hm, hne m none⟩) (fun _ h => h) (fun m h => absurd h (hne m none))
    case cancel =>
      have hch := step_chan hs
      exact ⟨{ σ with dead := true }, by simp [monC12, Label.terminates],
        inv_dead hi (hch.wf hi.wf) (by rw [hch.cap]; exact hi.cap) (step_ops hs rfl)⟩
    case taskPanic =>
      have hch := step_chan hs
      exact ⟨{ σ with dead := true }, by simp [monC12, Label.terminates],
        inv_dead hi (hch.wf hi.wf) (by rw [hch.cap]; exact hi.cap) (step_ops hs rfl)⟩
    case taskDone =>
      have hch := step_chan hs
      exact ⟨{ σ with dead := true }, by simp [monC12, Label.terminates],
        inv_dead hi (hch.wf hi.wf) (by rw [hch.cap]; exact hi.cap) (step_ops hs rfl)⟩

end Hannibal

namespace Hannibal
open AState

theorem c12_init (cfg : Cfg) (h0 : Nat) (k0 : HKind) (n : Nat) (hcap : cfg.cap = some n) :
    C12Inv n (AState.init cfg h0 k0) (monC12 (some n)).init := by
  refine ⟨Chan.wf_init _, by simp [AState.init, Chan.init, hcap], by simp [AState.init], ?_, ?_, ?_, ?_⟩ <;>
    simp [monC12, AState.init]

theorem c12_run (w : Wiring) (hw : WellWired12 w) (n : Nat) :
    ∀ (ls : List Label) (s s' : AState) (σ : C12St), C12Inv n s σ → run w s ls = some s' →
      ∃ σ', (monC12 (some n)).run σ ls = some σ' ∧ C12Inv n s' σ'
  | [], s, s', σ, hi, hr => by
    simp [run] at hr; subst hr; exact ⟨σ, rfl, hi⟩
  | l :: ls, s, s', σ, hi, hr => by
    simp only [run] at hr
    cases hs : step w s l with
    | none => simp [hs] at hr
    | some s1 =>
      simp only [hs] at hr
      obtain ⟨σ1, hm, hi1⟩ := c12_step w hw n hi hs
      obtain ⟨σ', hm', hi'⟩ := c12_run w hw n ls s1 s' σ1 hi1 hr
      exact ⟨σ', by simp [Mon.run, hm, hm'], hi'⟩

/-- An unbounded mailbox: the monitor has nothing to check and never fails. -/
theorem c12_unbounded_step (σ : C12St) (l : Label) : ((monC12 none).step σ l).isSome := by
  cases l <;> simp [monC12]
  case begin o h k => cases isSendKind k <;> simp
  case ret o r =>
    split
    · split
      · split <;> simp
      · simp
    · simp
  case cbBegin cb => cases cb <;> simp [Label.terminates]
  all_goals (simp [Label.terminates])

theorem c12_unbounded_run : ∀ (ls : List Label) (σ : C12St), ((monC12 none).run σ ls).isSome
  | [], σ => by simp [Mon.run]
  | l :: ls, σ => by
    have h := c12_unbounded_step σ l
    cases hm : (monC12 none).step σ l with
    | none => simp [hm] at h
    | some σ1 => simp [Mon.run, hm]; exact c12_unbounded_run ls σ1

/-- **C12.** For every wiring whose `send` entry points use the waiting path, every
    configuration (any bound n, 0 included, or unbounded), every initial handle and
    every label sequence the actor model can perform — all client programs, all
    interleavings with the loop, timers, restarts, faults — the C12 monitor accepts:
    before termination, #(sends returned Ok) − #(of those taken out) ≤ n at every moment. -/
theorem C12_holds (w : Wiring) (hw : WellWired12 w) (cfg : Cfg) (h0 : Nat) (k0 : HKind)
    (ls : List Label) (s : AState) (hr : run w (AState.init cfg h0 k0) ls = some s) :
    (monC12 cfg.cap).ok ls = true := by
  unfold Mon.ok
  cases hcap : cfg.cap with
  | none => exact c12_unbounded_run ls _
  | some n =>
    obtain ⟨σ', hm, _⟩ := c12_run w hw n ls _ s _ (c12_init cfg h0 k0 n hcap) hr
    simp [hm]

/-- State-level form: in every reachable state of a bounded(n) actor the parked senders are
    exactly the submitters of the entries beyond the n-th (so at most n entries are un-parked). -/
theorem C12_state (w : Wiring) (cfg : Cfg) (h0 : Nat) (k0 : HKind) :
    ∀ (ls : List Label) (s : AState), run w (AState.init cfg h0 k0) ls = some s → s.chan.WF := by
  suffices h : ∀ (ls : List Label) (s0 s : AState), s0.chan.WF → run w s0 ls = some s → s.chan.WF from
    fun ls s hr => h ls _ s (Chan.wf_init _) hr
  intro ls
  induction ls with
  | nil => intro s0 s h0 hr; simp [run] at hr; subst hr; exact h0
  | cons l ls ih =>
    intro s0 s hwf hr
    simp only [run] at hr
    cases hs : step w s0 l with
    | none => simp [hs] at hr
    | some s1 => simp only [hs] at hr; exact ih s1 s ((step_chan hs).wf hwf) hr

theorem wellWired12_current : WellWired12 Wiring.current := by decide

/-- C12 for the wiring extracted from today's source. -/
theorem C12_current (cfg : Cfg) (h0 : Nat) (k0 : HKind) (ls : List Label) (s : AState)
    (hr : run Wiring.current (AState.init cfg h0 k0) ls = some s) : (monC12 cfg.cap).ok ls = true :=
  C12_holds _ wellWired12_current cfg h0 k0 ls s hr

/-- Non-vacuity: a concrete run of a bounded(1) actor in which a second `send` is parked until
    the actor takes the first message out, with the monitor's count at the bound. -/
def c12Example : List Label :=
  [ .mk 0 1 .addr, .begin 0 1 (.send 1), .ret 0 .ok, .begin 1 1 (.send 2),
    .cbBegin .started, .cbEnd .started true, .cbBegin (.handle 1), .ret 1 .ok,
    .cbEnd (.handle 1) true, .cbBegin (.handle 2), .cbEnd (.handle 2) true ]

def c12ExampleCfg : Cfg := { cap := some 1, strat := .only, timeout := none, failOnTimeout := false, stream := false }

example : (run Wiring.current (AState.init c12ExampleCfg 0 .addr) c12Example).isSome = true := by decide
example : (monC12 (some 1)).ok c12Example = true := by decide
/-- returning the second send before the first message is taken out is refused by the model … -/
example : (run Wiring.current (AState.init c12ExampleCfg 0 .addr)
    [ .mk 0 1 .addr, .begin 0 1 (.send 1), .ret 0 .ok, .begin 1 1 (.send 2), .ret 1 .ok ]).isSome = false := by
  decide
/-- … and is exactly what the monitor flags. -/
example : (monC12 (some 1)).ok
    [ .mk 0 1 .addr, .begin 0 1 (.send 1), .ret 0 .ok, .begin 1 1 (.send 2), .ret 1 .ok ] = false := by decide

end Hannibal
