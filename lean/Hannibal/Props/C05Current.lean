import Hannibal.Props.C05
import Hannibal.Generated.Wiring
/- C05 for the wiring extracted from today's source. -/
namespace Hannibal

theorem wellWired05_current : WellWired05 Wiring.current := by decide

theorem C05_current (c : MonCtx) (ls : List Label) (s : AState)
    (hr : run Wiring.current (AState.init c.cfg c.h0 c.k0) ls = some s) : (monC05 c).ok ls = true :=
  C05_holds _ wellWired05_current c ls s hr

example : (run Wiring.current (AState.init c05Cfg 0 .addr) c05Example).isSome = true := by decide

/-- the hypothesis is needed: if weak senders owned a closure (they would keep the channel open) the model
    accepts an upgrade after the last strong handle is gone -/
def Wiring.weakOwns : Wiring := { Wiring.current with holds := fun k => match k with
  | .weakSender => [.tx, .force] | k => Wiring.current.holds k }
example : WellWired05 Wiring.weakOwns = False := by simp; decide
example : (run Wiring.weakOwns (AState.init c05Cfg 0 .addr)
    [ .cbBegin .started, .cbEnd .started true, .mk 0 1 .weakSender, .drop 0, .upgrade 1 (some 2) ]).isSome = true
  ∧ (monC05 c05Ctx).ok [ .cbBegin .started, .cbEnd .started true, .mk 0 1 .weakSender, .drop 0,
      .upgrade 1 (some 2) ] = false := by decide

end Hannibal
