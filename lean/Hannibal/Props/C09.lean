import Hannibal.Proofs.C09Flight
/-
  C09 (broker: at most once, only to subscribers, one common order extending every publisher's order):
  every run of the broker model - any number of clients, subscribers and publications, operations begun,
  enqueued, handled and returning in any interleaving with deliveries and terminations - in which no
  publication number is published twice (`wf09`) is accepted by `monC09`, all four clauses.

  Proof: a ghost global enqueue order `E = H ++ Q` (handled / still in the mailbox).  An operation that
  returned before another began was enqueued earlier (`enq_order`), hence handled earlier (FIFO); what is on
  its way to a subscriber plus what it has taken up is, per subscriber, strictly increasing in the handling
  position (`FlInv.f2`) - that gives (1), (3), (4); an entry `(c, m)` on its way remembers a `sub c` handled
  before `pub m` with no `unsub c` handled in between (`FlInv.f3`) - that gives (2).
-/
namespace Hannibal

structure C09Inv (s : BrSt) (σ : C09St) (W : List Nat) (H Q : List GE) : Prop where
  ops : OpsInv σ.ops σ.now W
  e : EInv σ.ops σ.now (H ++ Q)
  st : StInv s.pend s.sent σ.ops (H ++ Q)
  mb : s.mbox = Q.map (fun e => e.it)
  sub : SubInv s.subs H
  fl : FlInv σ.seq s.flight H

/-! ### reading the monitor's predicates -/

theorem defBefore_iff {x y : Op9} : defBefore x y = true ↔ ∃ r, x.tr = some r ∧ r < y.tb := by
  unfold defBefore
  cases x.tr <;> simp

theorem pubOf_spec {σ : C09St} {m : Nat} {P : Op9} (h : σ.pubOf m = some P) : P ∈ σ.ops ∧ P.it = .pub m := by
  unfold C09St.pubOf at h
  refine ⟨List.mem_of_find?_eq_some h, ?_⟩
  have := List.find?_some h
  simpa using this

theorem pubOf_eq {σ : C09St} {W : List Nat} {m : Nat} {P : Op9} (ho : OpsInv σ.ops σ.now W) (hP : P ∈ σ.ops)
    (hit : P.it = .pub m) : σ.pubOf m = some P := by
  cases h : σ.pubOf m with
  | none =>
    unfold C09St.pubOf at h
    have := List.find?_eq_none.mp h P hP
    simp [hit] at this
  | some P' =>
    obtain ⟨h1, h2⟩ := pubOf_spec h
    rw [ho.pu P' h1 P hP m h2 hit]

/-! ### a delivery the model performs is not flagged -/

theorem deliver_ok {s : BrSt} {σ : C09St} {W : List Nat} {H Q : List GE} (hi : C09Inv s σ W H Q)
    {c m : Nat} {f1 f2 : List (Nat × Nat)} (hf : s.flight = f1 ++ (c, m) :: f2) :
    bad09 σ (.deliver c m) = false := by
  have hmem : (c, m) ∈ s.flight := by rw [hf]; simp
  have hfl := hi.fl
  have hpw := hfl.f2
  rw [List.pairwise_append] at hpw
  obtain ⟨hpseq, _, hcross⟩ := hpw
  have hj : pidx H m < H.length := hfl.f1 (c, m) (List.mem_append_right _ hmem)
  obtain ⟨eP, hPH, hPit⟩ := pidx_get hj
  have hPE : (H ++ Q)[pidx H m]? = some eP := by rw [List.getElem?_append_left hj]; exact hPH
  obtain ⟨P, hP, hPk, hPi⟩ := hi.e.el eP (List.mem_of_getElem? hPE)
  rw [hPit] at hPi
  have hpub : σ.pubOf m = some P := pubOf_eq hi.ops hP hPi
  have hU : PubU (H ++ Q) := pubU_of hi.ops hi.e
  -- what subscriber `c` has taken up was handled before `m`
  have hbefore : ∀ p ∈ σ.seq, p.1 = c → pidx H p.2 < pidx H m := fun p hp hpc => hcross p hp (c, m) hmem hpc
  simp only [bad09, Bool.or_eq_false_iff]
  refine ⟨⟨⟨?_, ?_⟩, ?_⟩, ?_⟩
  · -- (1)
    rw [Bool.eq_false_iff]
    intro hc
    have hc' : (c, m) ∈ σ.seq := by simpa using hc
    have := hbefore (c, m) hc' rfl
    exact Nat.lt_irrefl _ this
  · -- (2)
    obtain ⟨i, eS, hiP, hSH, hSit, hno⟩ := hfl.f3 (c, m) hmem
    simp only at hiP hSit hno
    have hiH : i < H.length := Nat.lt_trans hiP hj
    have hSE : (H ++ Q)[i]? = some eS := by rw [List.getElem?_append_left hiH]; exact hSH
    obtain ⟨S, hS, hSk, hSi⟩ := hi.e.el eS (List.mem_of_getElem? hSE)
    rw [hSit] at hSi
    simp only [Bool.not_eq_eq_eq_not, Bool.not_false]
    unfold C09St.allowed
    rw [hpub]
    simp only
    rw [List.any_eq_true]
    refine ⟨S, hS, ?_⟩
    simp only [Bool.and_eq_true, Bool.not_eq_eq_eq_not, Bool.not_true]
    refine ⟨⟨by simp [hSi], ?_⟩, ?_⟩
    · unfold beganBeforeEnd
      cases hr : P.tr with
      | none => rfl
      | some r =>
        simp only [decide_eq_true_eq]
        have := began_before hi.e hi.st hSE hPE (Nat.le_of_lt hiP) hP hPk.symm hr
        omega
    · rw [Bool.eq_false_iff]
      intro hany
      rw [List.any_eq_true] at hany
      obtain ⟨U, hUm, hUc⟩ := hany
      simp only [Bool.and_eq_true, beq_iff_eq] at hUc
      obtain ⟨⟨hUit, hSU⟩, hUP⟩ := hUc
      obtain ⟨r1, hr1, hlt1⟩ := defBefore_iff.mp hSU
      obtain ⟨r2, hr2, hlt2⟩ := defBefore_iff.mp hUP
      obtain ⟨u, eU, hu, hUk, hUi, _⟩ := closed_in_E hi.st hUm hr2
      obtain ⟨i', ex, hi'u, hi', hexk, _⟩ := enq_order hi.e hi.st hS hr1 hlt1 hu hUk
      have : i' = i := key_inj hi.e.ek hi' hSE (by rw [hexk, hSk])
      subst this
      obtain ⟨u', ex', hu'j, hu', hexk', _⟩ := enq_order hi.e hi.st hUm hr2 hlt2 hPE hPk.symm
      have : u' = u := key_inj hi.e.ek hu' hu (by rw [hexk', hUk])
      subst this
      have huH : H[u']? = some eU := by
        rw [← List.getElem?_append_left (l₂ := Q) (Nat.lt_trans hu'j hj)]; exact hu
      exact hno u' eU hi'u hu'j huH (by rw [hUi, hUit])
  · -- (3)
    rw [Bool.eq_false_iff]
    intro hany
    rw [List.any_eq_true] at hany
    obtain ⟨p, hp, hpc⟩ := hany
    simp only [Bool.and_eq_true, beq_iff_eq] at hpc
    obtain ⟨hpc, hpb⟩ := hpc
    have hlt := hbefore p hp hpc
    unfold C09St.pubBefore at hpb
    rw [hpub] at hpb
    cases hp2 : σ.pubOf p.2 with
    | none => simp [hp2] at hpb
    | some P2 =>
      simp only [hp2] at hpb
      obtain ⟨r, hr, hrlt⟩ := defBefore_iff.mp hpb
      obtain ⟨hP2, hP2it⟩ := pubOf_spec hp2
      have hj2 : pidx H p.2 < H.length := hfl.f1 p (List.mem_append_left _ hp)
      obtain ⟨e2, h2H, h2it⟩ := pidx_get hj2
      have h2E : (H ++ Q)[pidx H p.2]? = some e2 := by rw [List.getElem?_append_left hj2]; exact h2H
      obtain ⟨P2', hP2', hP2k, hP2i⟩ := hi.e.el e2 (List.mem_of_getElem? h2E)
      rw [h2it] at hP2i
      have : P2' = P2 := hi.ops.pu P2' hP2' P2 hP2 p.2 hP2i hP2it
      subst this
      obtain ⟨i', ex, hi'lt, hi', _, hexit⟩ := enq_order hi.e hi.st hP hr hrlt h2E hP2k.symm
      have : i' = pidx H m := hU i' _ ex eP m hi' hPE (by rw [hexit, hPi]) hPit
      omega
  · -- (4)
    rw [Bool.eq_false_iff]
    intro hany
    rw [List.any_eq_true] at hany
    obtain ⟨p, hp, hpc⟩ := hany
    simp only [Bool.and_eq_true, beq_iff_eq] at hpc
    obtain ⟨hpc, hoo⟩ := hpc
    have hlt := hbefore p hp hpc
    unfold C09St.otherOrder at hoo
    rw [List.any_eq_true] at hoo
    obtain ⟨q, hq, hqc⟩ := hoo
    simp only [Bool.and_eq_true, beq_iff_eq] at hqc
    obtain ⟨⟨_, hqm⟩, hmatch⟩ := hqc
    cases h1 : idxOf σ.seq (q.1, m) with
    | none => simp [h1] at hmatch
    | some i1 =>
      cases h2 : idxOf σ.seq (q.1, p.2) with
      | none => simp [h1, h2] at hmatch
      | some i2 =>
        simp only [h1, h2, decide_eq_true_eq] at hmatch
        have := pw_get hpseq (idxOf_get h1) (idxOf_get h2) hmatch rfl
        simp only at this
        omega

/-! ### one step -/

theorem c09_step {s s' : BrSt} {σ : C09St} {W W' : List Nat} {H Q : List GE} {l : BLabel}
    (hi : C09Inv s σ W H Q) (hs : bstep s l = some s') (hw : wfC09.step W l = some W') :
    bad09 σ l = false ∧ ∃ H' Q', C09Inv s' (next09 σ l) W' H' Q' := by
  cases l with
  | bbegin o it =>
    refine ⟨rfl, H, Q, ?_⟩
    simp only [bstep] at hs
    split at hs
    · simp at hs
    · rename_i hc
      simp only [Bool.or_eq_true, List.any_eq_true, beq_iff_eq, List.contains_eq_mem, decide_eq_true_eq,
        not_or, not_exists, not_and] at hc
      obtain ⟨hc1, hc2⟩ := hc
      simp only [Option.some.injEq] at hs
      subst hs
      have hW : (∀ m ∈ W, m ∈ W') ∧ ∀ m, it = .pub m → m ∉ W ∧ m ∈ W' := by
        cases it with
        | sub c => simp [wfC09] at hw; subst hw; exact ⟨fun _ h => h, fun _ h => by cases h⟩
        | unsub c => simp [wfC09] at hw; subst hw; exact ⟨fun _ h => h, fun _ h => by cases h⟩
        | pub m =>
          simp only [wfC09] at hw
          split at hw
          · simp at hw
          · rename_i hm
            simp at hw hm; subst hw
            refine ⟨fun _ h => List.mem_cons_of_mem _ h, ?_⟩
            intro m' hm'; cases hm'
            exact ⟨hm, List.mem_cons_self⟩
      have hopen : ∀ x ∈ σ.ops, x.tr = none → x.o ≠ o := by
        intro x hx hxo heq
        rcases st_open hi.st hx hxo with h | h
        · exact hc1 _ h heq
        · exact hc2 (heq ▸ h)
      exact ⟨ops_begin hi.ops o it hopen hW.1 hW.2, e_begin hi.e _,
        st_begin hi.st hi.e hi.ops.t1 o it hc2, hi.mb, hi.sub, hi.fl⟩
  | benq o =>
    have hW : W' = W := by simp [wfC09] at hw; exact hw.symm
    subst hW
    simp only [bstep] at hs
    cases hf : s.pend.find? (fun p => p.1 == o) with
    | none => simp [hf] at hs
    | some p =>
      obtain ⟨o', it⟩ := p
      simp only [hf, Option.some.injEq] at hs
      subst hs
      have hpm : (o', it) ∈ s.pend := List.mem_of_find?_eq_some hf
      have ho' : o' = o := by simpa using List.find?_some hf
      subst ho'
      obtain ⟨y, hy, hyo, hyit, hytr⟩ := hi.st.pl _ hpm
      simp only at hyo hyit
      subst hyo
      have hne : ∀ e ∈ H ++ Q, e.k ≠ y.tb := by
        rcases hi.st.st y hy with ⟨_, _, h3⟩ | ⟨e, _, _, _, h3, _⟩
        · exact h3
        · exact absurd (h3 hytr) (hi.st.d1 _ hpm)
      refine ⟨rfl, H, Q ++ [⟨y.tb, y.it, σ.now⟩], ?_⟩
      have hE : H ++ (Q ++ [(⟨y.tb, y.it, σ.now⟩ : GE)]) = (H ++ Q) ++ [⟨y.tb, y.it, σ.now⟩] :=
        (List.append_assoc _ _ _).symm
      refine ⟨hi.ops, ?_, ?_, ?_, hi.sub, hi.fl⟩
      · rw [hE]; exact e_enq hi.e hy (hi.ops.t1 y hy) hne
      · rw [hE]; exact st_enq hi.st hi.ops hy hytr σ.now
      · simp [hi.mb, hyit]
  | bret o =>
    have hW : W' = W := by simp [wfC09] at hw; exact hw.symm
    subst hW
    simp only [bstep] at hs
    split at hs
    · rename_i hc
      simp only [Option.some.injEq] at hs
      subst hs
      have hos : o ∈ s.sent := by simpa using hc
      refine ⟨rfl, H, Q, ?_⟩
      rw [next09_bret]
      exact ⟨ops_ret hi.ops o, e_ret hi.e o, st_ret hi.st hi.e o hos, hi.mb, hi.sub, hi.fl⟩
    · simp at hs
  | bproc =>
    have hW : W' = W := by simp [wfC09] at hw; exact hw.symm
    subst hW
    refine ⟨rfl, ?_⟩
    simp only [bstep] at hs
    have hmb := hi.mb
    cases hQ : Q with
    | nil => rw [hQ] at hmb; simp [hmb] at hs
    | cons e Q' =>
      rw [hQ] at hmb
      simp only [List.map_cons] at hmb
      have hE : (H ++ [e]) ++ Q' = H ++ Q := by rw [hQ]; simp
      have hops : OpsInv (next09 σ .bproc).ops (next09 σ .bproc).now _ := hi.ops
      have he : EInv (next09 σ .bproc).ops (next09 σ .bproc).now ((H ++ [e]) ++ Q') := by rw [hE]; exact hi.e
      refine ⟨H ++ [e], Q', ?_⟩
      cases hit : e.it with
      | sub c =>
        rw [hmb, hit] at hs
        simp only [Option.some.injEq] at hs
        subst hs
        exact ⟨hops, he, by rw [hE]; exact hi.st, rfl, sub_sub hi.sub hit, fl_append hi.fl e⟩
      | unsub c =>
        rw [hmb, hit] at hs
        simp only [Option.some.injEq] at hs
        subst hs
        exact ⟨hops, he, by rw [hE]; exact hi.st, rfl, sub_unsub hi.sub hit, fl_append hi.fl e⟩
      | pub m =>
        rw [hmb, hit] at hs
        simp only [Option.some.injEq] at hs
        subst hs
        have hU : PubU (H ++ [e]) := by
          have := pubU_of hi.ops hi.e
          rw [← hE] at this
          exact this.left
        exact ⟨hops, he, by rw [hE]; exact hi.st, rfl, sub_pub hi.sub hit, fl_pub hi.fl hi.sub hit hU _⟩
  | deliver c m =>
    have hW : W' = W := by simp [wfC09] at hw; exact hw.symm
    subst hW
    simp only [bstep] at hs
    split at hs
    · simp at hs
    · cases hf : s.flight.find? (fun p => p.1 == c) with
      | none => simp [hf] at hs
      | some p =>
        obtain ⟨c', m'⟩ := p
        simp only [hf] at hs
        split at hs
        · rename_i hmm
          subst hmm
          simp only [Option.some.injEq] at hs
          subst hs
          obtain ⟨_, f1, f2, hfe, hn⟩ := find_first hf
          refine ⟨deliver_ok hi hfe, H, Q, ?_⟩
          have hfl := hi.fl
          rw [hfe] at hfl
          refine ⟨ops_tick hi.ops, e_tick hi.e, hi.st, hi.mb, hi.sub, ?_⟩
          show FlInv (σ.seq ++ [(c, m')]) (s.flight.erase (c, m')) H
          rw [hfe, erase_first hn]
          exact fl_deliver hfl hn
        · simp at hs
  | term c =>
    have hW : W' = W := by simp [wfC09] at hw; exact hw.symm
    subst hW
    simp only [bstep, Option.some.injEq] at hs
    subst hs
    exact ⟨rfl, H, Q, ops_tick hi.ops, e_tick hi.e, hi.st, hi.mb, hi.sub, fl_sub hi.fl List.filter_sublist⟩

theorem c09_init : C09Inv BrSt.init monC09.init wfC09.init [] [] := by
  refine ⟨⟨?_, ?_, ?_, ?_, ?_⟩, ⟨?_, ?_, ?_, ?_⟩, ⟨?_, ?_, ?_⟩, rfl, ⟨?_, ?_⟩, ⟨?_, ?_, ?_⟩⟩ <;>
    simp [monC09, BrSt.init]

theorem c09_run : ∀ (ls : List BLabel) (s s' : BrSt) (σ : C09St) (W W' : List Nat) (H Q : List GE),
    C09Inv s σ W H Q → brun s ls = some s' → wfC09.run W ls = some W' →
      ∃ σ' H' Q', monC09.run σ ls = some σ' ∧ C09Inv s' σ' W' H' Q'
  | [], s, s', σ, W, W', H, Q, hi, hr, hw => by
    simp [brun] at hr; simp [BMon.run] at hw; subst hr; subst hw
    exact ⟨σ, H, Q, rfl, hi⟩
  | l :: ls, s, s', σ, W, W', H, Q, hi, hr, hw => by
    simp only [brun] at hr
    simp only [BMon.run] at hw
    cases hs : bstep s l with
    | none => simp [hs] at hr
    | some s1 =>
      cases hw1 : wfC09.step W l with
      | none => simp [hw1] at hw
      | some W1 =>
        simp only [hs] at hr
        simp only [hw1] at hw
        obtain ⟨hb, H1, Q1, hi1⟩ := c09_step hi hs hw1
        obtain ⟨σ', H', Q', hm, hi'⟩ := c09_run ls s1 s' (next09 σ l) W1 W' H1 Q1 hi1 hr hw
        refine ⟨σ', H', Q', ?_, hi'⟩
        simp only [BMon.run]
        have : monC09.step σ l = some (next09 σ l) := by simp [monC09, hb]
        rw [this]; exact hm

/-- **C09 (broker).** -/
theorem C09_holds (ls : List BLabel) (s : BrSt) (hr : brun BrSt.init ls = some s) (hwf : wf09 ls = true) :
    monC09.ok ls = true := by
  unfold wf09 BMon.ok at hwf
  cases hw : wfC09.run wfC09.init ls with
  | none => simp [hw] at hwf
  | some W' =>
    obtain ⟨σ', _, _, hm, _⟩ := c09_run ls BrSt.init s monC09.init wfC09.init W' [] [] c09_init hr hw
    unfold BMon.ok
    simp [hm]

/-! ### non-vacuity -/

/-- two subscribers, two concurrent publications handled in the opposite order of their begins, an
    unsubscribe, a third publication, a termination -/
def c09Example : List BLabel :=
  [ .bbegin 0 (.sub 1), .benq 0, .bproc, .bret 0, .bbegin 1 (.sub 2), .benq 1, .bret 1, .bproc,
    .bbegin 2 (.pub 5), .bbegin 3 (.pub 6), .benq 3, .benq 2, .bret 2, .bproc, .bproc, .bret 3,
    .deliver 1 6, .deliver 2 6, .deliver 1 5, .bbegin 4 (.unsub 1), .benq 4, .bproc, .bret 4,
    .bbegin 5 (.pub 7), .benq 5, .bproc, .bret 5, .deliver 2 5, .deliver 2 7, .term 2,
    .bbegin 0 (.sub 1), .benq 0, .bret 0 ]      -- operation ids may be reused once the operation returned

/-- the hypotheses of `C09_holds` are satisfiable by a non-trivial run -/
example : (brun BrSt.init c09Example).isSome = true ∧ wf09 c09Example = true := by decide
example : monC09.ok c09Example = true := by decide

/-- the monitor rejects: a publication taken up twice (1) -/
example : monC09.ok [ .bbegin 0 (.sub 1), .bret 0, .bbegin 1 (.pub 5), .bret 1, .deliver 1 5, .deliver 1 5 ] = false := by
  decide
/-- a delivery to an actor that never subscribed (2) -/
example : monC09.ok [ .bbegin 0 (.pub 5), .bret 0, .deliver 1 5 ] = false := by decide
/-- a delivery although the unsubscribe returned before the publish began (2) -/
example : monC09.ok [ .bbegin 0 (.sub 1), .bret 0, .bbegin 1 (.unsub 1), .bret 1, .bbegin 2 (.pub 5), .bret 2,
    .deliver 1 5 ] = false := by decide
/-- ... but not while the unsubscribe is still running -/
example : monC09.ok [ .bbegin 0 (.sub 1), .bret 0, .bbegin 1 (.unsub 1), .bbegin 2 (.pub 5), .bret 1, .bret 2,
    .deliver 1 5 ] = true := by decide
/-- a publisher's own order is not respected (3) -/
example : monC09.ok [ .bbegin 0 (.sub 1), .bret 0, .bbegin 1 (.pub 5), .bret 1, .bbegin 2 (.pub 6), .bret 2,
    .deliver 1 6, .deliver 1 5 ] = false := by decide
/-- two subscribers see two concurrent publications in different orders (4) -/
example : monC09.ok [ .bbegin 0 (.sub 1), .bret 0, .bbegin 1 (.sub 2), .bret 1, .bbegin 2 (.pub 5), .bbegin 3 (.pub 6),
    .bret 2, .bret 3, .deliver 1 5, .deliver 1 6, .deliver 2 6, .deliver 2 5 ] = false := by decide

/-- `wf09` is needed: the model allows publishing the same publication number twice, the subscriber then
    takes "it" up twice, which clause (1) (and the identification of a delivery's publish operation by its
    number in clauses (2) - (4)) cannot tell from a duplicate delivery. -/
def c09Dup : List BLabel :=
  [ .bbegin 0 (.sub 1), .benq 0, .bproc, .bret 0, .bbegin 1 (.pub 5), .benq 1, .bproc, .bret 1, .deliver 1 5,
    .bbegin 2 (.pub 5), .benq 2, .bproc, .bret 2, .deliver 1 5 ]
example : (brun BrSt.init c09Dup).isSome = true ∧ wf09 c09Dup = false ∧ monC09.ok c09Dup = false := by decide

end Hannibal
