import Hannibal.Props.C03
import Hannibal.Generated.Wiring
/- C03 for the wiring extracted from today's source. -/
namespace Hannibal

theorem C03_current (c : MonCtx) (ls : List Label) (s : AState)
    (hr : run Wiring.current (AState.init c.cfg c.h0 c.k0) ls = some s) : (monC03 c).ok ls = true :=
  C03_holds _ c ls s hr

example : (run Wiring.current (AState.init c03Cfg 0 .addr) c03Example).isSome = true := by decide
/-- skipping `stopped` is refused by the model -/
example : (run Wiring.current (AState.init c03Cfg 0 .addr)
    [ .cbBegin .started, .cbEnd .started true, .stopReq 0 true, .tDeq, .taskDone ]).isSome = false := by decide

end Hannibal
