import Hannibal.Proofs.C05QInv
import Hannibal.Props.C02
/-
  C05 (2) (the last strong handle is dropped: drain, then stop gracefully): for every wiring in which the
  strong handle kinds own the channel closures and the weak ones own nothing, every run of the actor model
  whose `begin` labels carry pairwise distinct operation ids is accepted by `monC05q`:

    at a `quiescent` label, if the handle events of the trace leave no strong handle, nobody asked the actor
    to stop, it has not failed and it is not a stream-attached actor whose stream ended, then
      * the actor's task has ended (`taskDone` / `taskPanic` / `cancel` occurred),
      * gracefully: the last callback event was the completed `stopped`,
      * and every message whose `send` / `try_send` was acknowledged with `Ok` has been handled.

  `monC05q` is `monC05qOrig` (the clause as first written) in guard / update form: equal step functions
  (`monC05q_orig_step`), hence equal verdicts (`monC05q_orig`).  Nothing is left trace-only.
-/
set_option linter.unusedSimpArgs false
set_option linter.unusedVariables false
namespace Hannibal
open AState

/-! ### the restructured monitor is the monitor as first written -/

theorem ite_guard_aux {α : Type} (A B : Bool) (x : α) :
    (if A = true then (if B = true then some x else none) else some x) =
      if (A && !B) = true then none else some x := by
  cases A <;> cases B <;> rfl

theorem monC05q_orig_step (c : MonCtx) (st : C05qSt) (l : Label) :
    (monC05qOrig c).step st l = (monC05q c).step st l := by
  cases l
  case begin o h k =>
    cases k <;> simp [monC05qOrig, monC05q, bad05q, next05q, Label.isFailure, Label.terminates]
  case ret o r =>
    cases r <;> simp [monC05qOrig, monC05q, bad05q, next05q, Label.isFailure, Label.terminates, issuesStop]
    cases lookup o st.sends <;> simp
  case cbBegin cb =>
    cases cb <;>
      simp [monC05qOrig, monC05q, bad05q, next05q, Label.isFailure, Label.terminates, issuesStop, HoldSt.step]
  case cbEnd cb ok =>
    cases cb <;> cases ok <;>
      simp [monC05qOrig, monC05q, bad05q, next05q, Label.isFailure, Label.terminates, issuesStop, HoldSt.step]
  case quiescent p =>
    obtain ⟨a1, a2, a3, a4, a5, a6, a7, a8, a9⟩ := st
    simp only [monC05qOrig, monC05q, bad05q, next05q, Label.isFailure, Label.terminates, issuesStop,
      HoldSt.step, Bool.or_false]
    exact ite_guard_aux _ _ _
  all_goals simp [monC05qOrig, monC05q, bad05q, next05q, Label.isFailure, Label.terminates, issuesStop]

theorem monC05q_orig_run (c : MonCtx) : ∀ (ls : List Label) (st : C05qSt),
    (monC05qOrig c).run st ls = (monC05q c).run st ls
  | [], _ => rfl
  | l :: ls, st => by
    simp only [Mon.run, monC05q_orig_step]
    cases (monC05q c).step st l with
    | none => rfl
    | some st' => exact monC05q_orig_run c ls st'

/-- guard / update form and the clause as first written accept exactly the same traces -/
theorem monC05q_orig (c : MonCtx) (ls : List Label) : (monC05qOrig c).ok ls = (monC05q c).ok ls := by
  unfold Mon.ok
  rw [monC05q_orig_run]
  rfl

/-! ### one step -/

/-- the clause itself: a `quiescent` label of the model is accepted -/
theorem quiescent_ok {w : Wiring} (hw : WellWired05 w) {c : MonCtx} {s s' : AState} {σ : C05qSt} {σ5 : C05St}
    {σ2 : C02St} {pend : List Nat} (hi : C05qInv w c s σ σ5 σ2) (hs : s.stepQuiescent w pend = some s') :
    bad05q c σ (.quiescent pend) = false := by
  unfold stepQuiescent at hs
  split at hs
  · rename_i hc
    simp only [Bool.and_eq_true] at hc
    obtain ⟨⟨hq, _⟩, _⟩ := hc
    cases hb : bad05q c σ (.quiescent pend)
    · rfl
    · exfalso
      simp only [bad05q, Bool.and_eq_true, Bool.not_eq_true'] at hb
      obtain ⟨⟨⟨⟨hsh, hfl⟩, hst⟩, hse⟩, hconc⟩ := hb
      have hex : excused c σ = false := by simp [excused, hfl, hst, hse]
      have hweak : s.handles.any (fun p => p.2.strong) = false := by
        rw [← hi.i5.hinv.handles, ← hi.hold]; exact hsh
      have hq' := hq
      unfold quiet at hq'
      simp only [Bool.and_eq_true] at hq'
      obtain ⟨⟨hph, _⟩, _⟩ := hq'
      cases hp : s.phase <;> simp [hp] at hph
      case idle => exact idle_quiet_absurd hw hi.i2 hq hp hweak
      case done g =>
        cases g
        · have := hi.failPh (by simp [hp, failPhase])
          rw [this] at hfl; cases hfl
        · have hg : σ.graceful = true := by
            rw [hi.grace]; exact hi.i2.grace (by simp [hp, gracefulEnd02])
          have ht : σ.terminated = true := by
            rw [hi.term, hi.i2.term]; simp [isDone, hp]
          obtain ⟨_, hsub⟩ := hi.past hex (by simp [hp, pastLoop])
          have hall : σ.sentOk.all (fun m => σ.handled.contains m) = true := by
            rw [List.all_eq_true]
            intro m hm
            simpa using hsub m hm
          rw [hg, ht, hall] at hconc
          simp at hconc
  · simp at hs

theorem c05q_step {w : Wiring} (hw : WellWired05 w) {c : MonCtx} {s s' : AState} {σ : C05qSt} {σ5 : C05St}
    {σ2 : C02St} {l : Label} (hi : C05qInv w c s σ σ5 σ2) (hf : freshFor σ2 l) (hs : step w s l = some s') :
    bad05q c σ l = false ∧ C05qInv w c s' (next05q c σ l) (next05 c σ5 l) (next02 σ2 l) := by
  have hbad : bad05q c σ l = false := by
    cases l <;> try rfl
    case quiescent pend =>
      simp only [step] at hs
      exact quiescent_ok hw hi hs
  refine ⟨hbad, ?_⟩
  have hfail' := failPh_step (σ := σ) hi.i5.cfg hs hi.failPh
  refine ⟨(c05_step hw hi.i5 hs).2, lite02_step w hi.i2 hf hs, ?_, ?_, ?_, ?_, ?_, sends_step c hf hi.sends, hfail',
    fun he' hp' => acked_step hi hs he' hp', fun he' hp' => pend_step hi hs he' hp',
    fun he' hp' => past_step hw hi hs hfail' he' hp'⟩
  · show σ.hold.step l = σ5.hold.step l
    rw [hi.hold]
  · show (σ.stopIssued || issuesStop l) = (σ5.stopIssued || issuesStop l)
    rw [hi.stop]
  · show (σ.streamEnded || _) = (σ5.streamEnded || _)
    rw [hi.strm]
  · show (σ.terminated || l.terminates) = _
    rw [next02_terminated, hi.term]
    cases l.terminates <;> simp
  · rw [next02_graceful]
    simp only [next05q, hi.grace]
    cases l <;> try rfl
    rename_i cb ok
    cases cb <;> cases ok <;> rfl

/-! ### runs whose `begin` labels carry fresh operation ids -/

theorem c05q_run {w : Wiring} (hw : WellWired05 w) (c : MonCtx) :
    ∀ (ls : List Label) (s s' : AState) (σ : C05qSt) (σ5 : C05St) (σ2 : C02St) (seen : List Nat),
      C05qInv w c s σ σ5 σ2 → SeenOk σ2 seen →
      run w s ls = some s' → ((monC02wf c).run seen ls).isSome = true →
      ((monC05q c).run σ ls).isSome = true
  | [], _, _, _, _, _, _, _, _, _, _ => by simp [Mon.run]
  | l :: ls, s, s', σ, σ5, σ2, seen, hi, hseen, hr, hwf => by
    simp only [run] at hr
    cases hs : step w s l with
    | none => simp [hs] at hr
    | some s1 =>
      simp only [hs] at hr
      simp only [Mon.run] at hwf ⊢
      cases hws : (monC02wf c).step seen l with
      | none => simp [hws] at hwf
      | some seen1 =>
        simp only [hws] at hwf
        obtain ⟨hb, hi1⟩ := c05q_step hw hi (wf_fresh hseen hws) hs
        have hm : (monC05q c).step σ l = some (next05q c σ l) := by simp [monC05q, hb]
        simp only [hm]
        exact c05q_run hw c ls s1 s' _ _ _ seen1 hi1 (wf_seen hseen hws) hr hwf

/-- **C05 (2), drain-then-stop.** For every wiring in which the strong handle kinds own both channel closures
    and the weak kinds own nothing and must upgrade, every run of the actor model whose `begin` labels carry
    pairwise distinct operation ids is accepted by `monC05q`: whenever the run reaches quiescence with no
    strong handle left, no stop requested, no failure and (for a stream-attached actor) the stream not ended,
    the actor has terminated, gracefully (the last callback event is the completed `stopped`), and every
    message whose send was acknowledged has been handled. -/
theorem C05q_holds (w : Wiring) (hw : WellWired05 w) (c : MonCtx) (ls : List Label) (s : AState)
    (hr : run w (AState.init c.cfg c.h0 c.k0) ls = some s) (hfresh : opIdsFresh ls = true) :
    (monC05q c).ok ls = true := by
  unfold Mon.ok
  exact c05q_run hw c ls _ s (monC05q c).init (monC05 c).init C02St.init [] (c05q_init w c) seenOk_init
    hr (by simpa [opIdsFresh, Mon.ok, monC02wf] using hfresh)

/-- the same for the clause as first written -/
theorem C05qOrig_holds (w : Wiring) (hw : WellWired05 w) (c : MonCtx) (ls : List Label) (s : AState)
    (hr : run w (AState.init c.cfg c.h0 c.k0) ls = some s) (hfresh : opIdsFresh ls = true) :
    (monC05qOrig c).ok ls = true := by
  rw [monC05q_orig]; exact C05q_holds w hw c ls s hr hfresh

/-! ### non-vacuity -/

/-- the last strong handle is dropped with two acknowledged messages still queued: both are handled, then the
    actor stops gracefully; quiescence is reached twice (before the drop, parked on the open mailbox; after) -/
def c05qExample : List Label :=
  [ .cbBegin .started, .cbEnd .started true, .mk 0 1 .weakSender,
    .begin 0 0 (.send 7), .ret 0 .ok, .cbBegin (.handle 7), .cbEnd (.handle 7) true,
    .quiescent [],
    .begin 1 0 (.send 8), .begin 2 1 (.trySend 9), .ret 1 .ok, .ret 2 .ok, .drop 0,
    .cbBegin (.handle 8), .cbEnd (.handle 8) true, .cbBegin (.handle 9), .cbEnd (.handle 9) true,
    .tChanEnd, .cbBegin .stopped, .cbEnd .stopped true, .taskDone,
    .begin 3 1 (.trySend 10), .ret 3 (.err .alreadyStopped),
    .quiescent [] ]

example : (monC05q c05Ctx).ok c05qExample = true := by decide
example : opIdsFresh c05qExample = true := by decide

/-- still alive at quiescence although the last strong handle is gone -/
example : (monC05q c05Ctx).ok [ .cbBegin .started, .cbEnd .started true, .drop 0, .quiescent [] ] = false := by
  decide
/-- terminated, but an acknowledged message was never handled -/
example : (monC05q c05Ctx).ok [ .cbBegin .started, .cbEnd .started true, .begin 0 0 (.send 7), .ret 0 .ok,
    .drop 0, .tChanEnd, .cbBegin .stopped, .cbEnd .stopped true, .taskDone, .quiescent [] ] = false := by decide
/-- terminated without a `stopped` callback -/
example : (monC05q c05Ctx).ok [ .cbBegin .started, .cbEnd .started true, .drop 0, .tChanEnd, .taskDone,
    .quiescent [] ] = false := by decide

end Hannibal
