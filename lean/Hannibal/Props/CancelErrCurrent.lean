import Hannibal.Props.CancelErr
import Hannibal.Generated.Wiring
/- CancelErr (a call or ping is never cancelled without a reason) for the wiring extracted from today's
   source (the theorem holds for every wiring), with runs of that wiring as witnesses. -/
namespace Hannibal

theorem CancelErr_current (c : MonCtx) (ls : List Label) (s : AState)
    (hr : run Wiring.current (AState.init c.cfg c.h0 c.k0) ls = some s) (hfresh : opIdsFresh ls = true) :
    monCancelErr.ok ls = true :=
  CancelErr_holds _ c ls s hr hfresh

/-! ### non-vacuity: timeout 5, a call whose invocation needs 9 is abandoned at the deadline, its caller
    gets `canceled`, the next call is served -/

def cancelErrCfg : Cfg := { cap := none, strat := .only, timeout := some 5, failOnTimeout := false, stream := false }

def cancelErrExample : List Label :=
  [ .cbBegin .started, .cbEnd .started true, .begin 0 0 (.call 1), .begin 1 0 (.call 2), .cbBegin (.handle 1),
    .work 9, .time 5, .cbAbandon (.handle 1), .ret 0 (.err .canceled), .cbBegin (.handle 2),
    .cbEnd (.handle 2) true, .ret 1 (.okReply { m := 2, birth := 0, digest := [1, 2] }) ]

example : (run Wiring.current (AState.init cancelErrCfg 0 .addr) cancelErrExample).isSome = true := by decide
example : (grun Wiring.current (AState.init cancelErrCfg 0 .addr) cancelErrExample).isSome = true := by decide
example : opIdsFresh cancelErrExample = true := by decide
example : monCancelErr.ok cancelErrExample = true := by decide

/-- the same with `fail_on_timeout`: the abandoned invocation ends the actor; the second caller (whose
    message was never handled) and a ping get `canceled` because the task has ended -/
def cancelErrCfgFail : Cfg :=
  { cap := none, strat := .only, timeout := some 5, failOnTimeout := true, stream := false }
def cancelErrExampleFail : List Label :=
  [ .cbBegin .started, .cbEnd .started true, .begin 0 0 (.call 1), .begin 1 0 (.call 2), .begin 2 0 .ping,
    .cbBegin (.handle 1), .work 9, .time 5, .cbAbandon (.handle 1), .ret 0 (.err .canceled), .taskDone,
    .ret 1 (.err .canceled), .ret 2 (.err .canceled) ]
example : (run Wiring.current (AState.init cancelErrCfgFail 0 .addr) cancelErrExampleFail).isSome = true := by
  decide
example : opIdsFresh cancelErrExampleFail = true := by decide
example : monCancelErr.ok cancelErrExampleFail = true := by decide

/-- a handler panic: the caller of the panicking invocation gets `canceled` before the task has ended -/
def cancelErrExamplePanic : List Label :=
  [ .cbBegin .started, .cbEnd .started true, .begin 0 0 (.call 1), .cbBegin (.handle 1), .cbPanic (.handle 1),
    .ret 0 (.err .canceled) ]
example : (run Wiring.current (AState.init cancelErrCfg 0 .addr) cancelErrExamplePanic).isSome = true := by decide
example : opIdsFresh cancelErrExamplePanic = true := by decide
example : monCancelErr.ok cancelErrExamplePanic = true := by decide

/-- the model refuses the bad traces: a pending call cannot return `canceled` out of the blue, and the
    second caller cannot get `canceled` because the first caller's invocation was abandoned -/
example : run Wiring.current (AState.init cancelErrCfg 0 .addr)
    [ .cbBegin .started, .cbEnd .started true, .begin 0 0 (.call 1), .ret 0 (.err .canceled) ] = none := by decide
example : run Wiring.current (AState.init cancelErrCfg 0 .addr)
    (cancelErrExample.take 8 ++ [ .ret 1 (.err .canceled) ]) = none := by decide
example : monCancelErr.ok (cancelErrExample.take 8 ++ [ .ret 1 (.err .canceled) ]) = false := by decide

/-! ### why `opIdsFresh` is a hypothesis: the model accepts the run of `cancelErrReuseOp` (an operation id
    re-used after its future was dropped while the payload is still queued), the monitor rejects it -/
example : (run Wiring.current (AState.init cancelErrCfg 0 .addr) cancelErrReuseOp).isSome = true := by decide
example : monCancelErr.ok cancelErrReuseOp = false := by decide
example : opIdsFresh cancelErrReuseOp = false := by decide

end Hannibal
