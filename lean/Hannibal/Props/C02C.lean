import Hannibal.Monitor.C02C
import Hannibal.Proofs.C02CStep
import Hannibal.Props.C11C
/-
  C02c (a call whose own message was handled to completion does not return an error): every run of the actor
  model whose labels use fresh message numbers and fresh operation ids (`wf01`, the hypothesis of C01 and
  C11c) is accepted by `monC02c`.

  Why: a call operation `o` submits `msg m (some o)`; with fresh message numbers this is the only mailbox
  entry that ever carries `m`, so as long as `m` waits in the mailbox or is being handled its reply slot is
  `some o` and `o` is neither failed (a refused submission enqueues nothing) nor cancelled: slots are
  cancelled when their own invocation is abandoned / panics (then `m` is no longer being handled, and it is
  not waiting either — C01: at most once), or when the loop goes away (then the mailbox is dropped).  The
  normal end of the invocation (`stepCbEnd`) answers the slot: `o` is `answered` from then on (a status other
  than `pending` never changes), and `retExpect` of an answered call is `okReply`.  If the client dropped the
  future (`cdrop`) there is no record and no `ret`.  This is the mirror image of `Props/C11C.lean`, whose
  invariant (`Inv11c`: the operation tables, `Seen11c`, and C01's invariant) is reused as the base.
-/
namespace Hannibal
open AState

/-! ### the monitor -/

theorem monC02c_step (σ : C02cSt) (l : Label) :
    monC02c.step σ l = if bad02c σ l then none else some (next02c σ l) := rfl

/-- `monC02c` keeps the same table of call operations as `monC11c` -/
theorem next02c_calls {σ : C02cSt} {σ' : C11cSt} (l : Label) (h : σ'.ops = σ.calls) :
    (next11c σ' l).ops = (next02c σ l).calls := by
  cases l <;> try exact h
  case begin o hh k =>
    simp only [next11c, next02c]
    cases k <;> simp [callMsg11c, OpKind.isCall, OpKind.msg?, h]
  case cbEnd cb ok => cases cb <;> cases ok <;> exact h
  case cbAbandon cb =>
    cases cb <;> try exact h
    simp only [next11c]; split <;> exact h

theorem next02c_done {σ : C02cSt} {l : Label} (h : ∀ m, l ≠ .cbEnd (.handle m) true) :
    (next02c σ l).done = σ.done := by
  cases l <;> try rfl
  case begin o hh k => simp only [next02c]; split <;> rfl
  case cbEnd cb ok => cases cb <;> cases ok <;> first | rfl | exact absurd rfl (h _)

/-! ### model facts -/

theorem retExpect_ok02c {s : AState} {rec : OpRec} {m : Nat} {r : Res} (hk : callMsg11c rec.kind = some m)
    (he : okSt02c rec.st = true) (h : s.retExpect rec = some r) : r.isErr = false := by
  unfold retExpect at h
  cases hst : rec.st <;> simp only [hst] at h he
  case pending => simp [okSt02c] at he
  case cancelled => simp [okSt02c] at he
  case failed e => simp [okSt02c] at he
  case joining =>
    split at h
    · cases hkk : rec.kind <;> simp [hkk, callMsg11c] at hk <;> simp [hkk] at h
    · simp at h
  all_goals (cases hkk : rec.kind <;> simp [hkk, callMsg11c] at hk <;> simp [hkk] at h <;> subst h <;> rfl)

theorem ansRec02c_keep (s : AState) (o m : Nat) {r : OpRec} (h : r.st ≠ .pending) : ansRec02c s o m r = r := by
  unfold ansRec02c; simp [h]

/-! ### ownership of a reply slot -/

/-- the message `m` (waiting with reply slot `slot`, or being handled with it) was seen, and a call operation
    that submitted `m` is the owner of that slot and neither failed nor cancelled -/
def Own02c (s : AState) (g : Wf01St) (m : Nat) (slot : Option Nat) : Prop :=
  m ∈ g.seenM ∧ ∀ rec ∈ s.ops, callMsg11c rec.kind = some m → errSt02c rec.st = false ∧ slot = some rec.o

/-- the operation table is mapped pointwise and no operation is newly failed or cancelled -/
def Keep02c (s s' : AState) : Prop :=
  ∃ f : OpRec → OpRec, s'.ops = s.ops.map f ∧ (∀ r, (f r).o = r.o) ∧ (∀ r, (f r).kind = r.kind) ∧
    ∀ r, errSt02c r.st = false → errSt02c (f r).st = false

theorem Keep02c.of_eq {s s' : AState} (h : s'.ops = s.ops) : Keep02c s s' :=
  ⟨fun r => r, by simp [h], fun _ => rfl, fun _ => rfl, fun _ h => h⟩

/-- what a step other than `begin` / `ret` / `cdrop` does: nobody newly cancelled; or only the reply slot of
    the open callback, which is over; or the mailbox is gone and no callback is open -/
theorem keep02c_cases {w s l s'} (hs : step w s l = some s') (hl : l.isOpEdge = false) :
    Keep02c s s' ∨
      (∃ slots, (∀ o ∈ slots, o ∈ s.curSlot) ∧ s'.ops = s.ops.map (cancelRec11c slots) ∧ s'.chan = s.chan ∧
        ∀ cb sl dl, s'.phase ≠ .handling cb sl dl) ∨
      (s'.chan.queue = [] ∧ ∀ cb sl dl, s'.phase ≠ .handling cb sl dl) := by
  cases step_opsCh02c hs hl with
  | same h => exact .inl (.of_eq h)
  | cancelCur slots hsub h hc hp => exact .inr (.inl ⟨slots, hsub, by rw [h, cancelSlots_ops11c], hc, hp⟩)
  | gone hq hp => exact .inr (.inr ⟨hq, hp⟩)
  | answer m o dl hp h =>
    exact .inl ⟨ansRec02c s o m, by rw [h, answer_ops02c], ansRec02c_o s o m, ansRec02c_kind s o m,
      fun r hr => ansRec02c_err s o m hr⟩
  | ping o h => exact .inl ⟨pingMap o, h, pingMap_o02c o, pingMap_kind02c o, fun r hr => pingMap_err02c o hr⟩

/-- ownership of a slot is kept by every step that does not newly cancel anybody -/
theorem own02c_step {w s l s'} {g : Wf01St} {m : Nat} {slot : Option Nat} (hi : Own02c s g m slot)
    (hs : step w s l = some s') (hg : wfBad g l = false) (hk : l.isOpEdge = true ∨ Keep02c s s') :
    Own02c s' (wfNext g l) m slot := by
  refine ⟨wf_seenM_mono g l m hi.1, ?_⟩
  intro rec' hrec' hm
  by_cases hedge : l.isOpEdge = true
  · cases l <;> simp [Label.isOpEdge] at hedge
    case begin o h k =>
      simp only [step] at hs
      obtain ⟨_, st, hops⟩ := stepBegin_ops hs
      rw [hops] at hrec'
      rcases List.mem_append.mp hrec' with hrec' | hrec'
      · exact hi.2 rec' hrec' hm
      · simp at hrec'; subst hrec'
        exact absurd hi.1 (wfBad_begin_msg11c hg (callMsg11c_msg hm))
    case ret o r =>
      simp only [step] at hs
      obtain ⟨_, _, _, hops, _⟩ := stepRet_ops hs
      rw [hops] at hrec'
      exact hi.2 rec' (List.mem_filter.mp hrec').1 hm
    case cdrop o =>
      simp only [step] at hs
      have hops := stepCdrop_ops hs
      rw [hops] at hrec'
      exact hi.2 rec' (List.mem_filter.mp hrec').1 hm
  · rcases hk with hk | ⟨f, hf, fo, fk, fe⟩
    · exact absurd hk hedge
    · rw [hf] at hrec'
      obtain ⟨r, hr, rfl⟩ := List.mem_map.mp hrec'
      rw [fk] at hm
      obtain ⟨h1, h2⟩ := hi.2 r hr hm
      exact ⟨fe r h1, by rw [fo]; exact h2⟩

/-- a freshly named message that enters the mailbox by a step other than `begin` is nobody's -/
theorem own02c_new {w s l s'} {g : Wf01St} {x : Nat × Option Nat} (hn : New11c l x) (hseen : Seen11c s g)
    (hs : step w s l = some s') (hg : wfBad g l = false) (hedge : l.isOpEdge = false) :
    Own02c s' (wfNext g l) x.1 x.2 := by
  obtain ⟨hfresh, hin⟩ := new11c_fresh hn hg
  refine ⟨hin, ?_⟩
  intro rec' hrec' hm
  obtain ⟨f, hf, pf⟩ := step_ops hs hedge
  rw [hf] at hrec'
  obtain ⟨r, hr, rfl⟩ := List.mem_map.mp hrec'
  rw [pf.kind] at hm
  exact absurd (hseen r hr _ hm) hfresh

/-! ### the invariant -/

structure Inv02c (s : AState) (σ : C02cSt) (g : Wf01St) : Prop where
  /-- the invariant of C11c (for some state of its monitor with the same table of call operations): the
      monitor's table against the model's, every recorded message number was seen, and C01's invariant -/
  base : ∃ σ' : C11cSt, Inv11c s σ' g ∧ σ'.ops = σ.calls
  /-- only a handler invocation has a reply slot -/
  slotcb : ∀ cb o dl, s.phase = .handling cb (some o) dl → ∃ m, cb = .handle m
  dseen : ∀ m ∈ σ.done, m ∈ g.seenM
  cur : ∀ m slot dl, s.phase = .handling (.handle m) slot dl → Own02c s g m slot
  que : ∀ x ∈ qms11c s.chan, Own02c s g x.1 x.2
  /-- the clause: the call that submitted a message handled to completion is past answering, and neither
      failed nor cancelled -/
  cls : ∀ rec ∈ s.ops, ∀ m, callMsg11c rec.kind = some m → m ∈ σ.done → okSt02c rec.st = true

/-- the operation whose reply slot the open handler invocation holds did not submit a message that is still
    waiting (C01: a message is handled at most once) -/
theorem cur_not_queued02c {s : AState} {σ1 : C01St} {g : Wf01St} (h01 : C01Inv s σ1 g)
    (hsl : ∀ cb o dl, s.phase = .handling cb (some o) dl → ∃ m, cb = .handle m)
    {r : OpRec} (hr : r ∈ s.ops) (hcur : r.o ∈ s.curSlot) {m : Nat} (hm : callMsg11c r.kind = some m)
    (hq : m ∈ qmsgs s.chan) : False := by
  cases hph : s.phase <;> simp [curSlot, hph] at hcur
  rename_i cb slot dl
  cases slot with
  | none => simp at hcur
  | some o =>
    simp at hcur
    obtain ⟨mc, rfl⟩ := hsl cb o dl hph
    obtain ⟨hh, -, hso⟩ := h01.ans.cur mc (some o) dl hph
    have h1 := (hso o rfl).2 r hr hcur
    rw [callMsg11c_msg hm] at h1
    simp at h1; subst h1
    exact h01.qc.disj m hq hh

theorem slotcb02c_step {w s l s'} {σ : C02cSt} {g : Wf01St} (hi : Inv02c s σ g) (hs : step w s l = some s') :
    ∀ cb o dl, s'.phase = .handling cb (some o) dl → ∃ m, cb = .handle m := by
  intro cb o dl hp
  by_cases hb : ∃ cb0, l = .cbBegin cb0
  · obtain ⟨cb0, rfl⟩ := hb
    simp only [step] at hs
    exact stepCbBegin_slot02c hs cb o dl hp
  · exact hi.slotcb cb o dl (step_handling_same w hs (fun cb0 he => hb ⟨cb0, he⟩) hp)

theorem dseen02c_step {w s l s'} {σ : C02cSt} {g : Wf01St} (hi : Inv02c s σ g) (hs : step w s l = some s') :
    ∀ m ∈ (next02c σ l).done, m ∈ (wfNext g l).seenM := by
  intro m hm
  by_cases hl : ∃ m0, l = .cbEnd (.handle m0) true
  · obtain ⟨m0, rfl⟩ := hl
    simp only [next02c] at hm
    rcases List.mem_cons.mp hm with rfl | hm
    · simp only [step] at hs
      obtain ⟨slot, dl, hp, -⟩ := stepCbEnd_handle02c hs
      exact wf_seenM_mono g _ m (hi.cur m slot dl hp).1
    · exact wf_seenM_mono g _ m (hi.dseen m hm)
  · rw [next02c_done (fun m0 he => hl ⟨m0, he⟩)] at hm
    exact wf_seenM_mono g _ m (hi.dseen m hm)

theorem cur02c_step {w s l s'} {σ : C02cSt} {g : Wf01St} (hi : Inv02c s σ g) (hs : step w s l = some s')
    (hg : wfBad g l = false) :
    ∀ m slot dl, s'.phase = .handling (.handle m) slot dl → Own02c s' (wfNext g l) m slot := by
  intro m slot dl hp
  have hk : l.isOpEdge = true ∨ Keep02c s s' := by
    by_cases hedge : l.isOpEdge = true
    · exact .inl hedge
    · rcases keep02c_cases hs (by simpa using hedge) with hk | ⟨_, _, _, _, hno⟩ | ⟨_, hno⟩
      · exact .inr hk
      · exact absurd hp (hno _ _ _)
      · exact absurd hp (hno _ _ _)
  by_cases hb : ∃ cb, l = .cbBegin cb
  · obtain ⟨cb, rfl⟩ := hb
    have hs0 := hs
    simp only [step] at hs0
    obtain ⟨rfl, tok, rest, hq⟩ := (stepCbBegin_handling hs0).2 m slot dl hp
    refine own02c_step (hi.que (m, slot) ?_) hs hg hk
    simp [qms11c, hq, msgSlot11c]
  · have hnb : ∀ cb, l ≠ .cbBegin cb := fun cb he => hb ⟨cb, he⟩
    exact own02c_step (hi.cur m slot dl (step_handling_same w hs hnb hp)) hs hg hk

theorem que02c_step {w s l s'} {σ : C02cSt} {g : Wf01St} (hi : Inv02c s σ g) (hs : step w s l = some s')
    (hg : wfBad g l = false) : ∀ x ∈ qms11c s'.chan, Own02c s' (wfNext g l) x.1 x.2 := by
  intro x hx
  obtain ⟨σ', h11, -⟩ := hi.base
  by_cases hedge : l.isOpEdge = true
  · rcases step_qms11c hs x hx with hold | hnew
    · exact own02c_step (hi.que x hold) hs hg (.inl hedge)
    · cases l <;> simp [Label.isOpEdge] at hedge
      case begin o h k =>
        obtain ⟨hfresh, hin⟩ := new11c_fresh hnew hg
        simp only [New11c] at hnew
        have hs0 := hs
        simp only [step] at hs0
        obtain ⟨st, hops, hch⟩ := stepBegin_push02c hs0
        refine ⟨hin, ?_⟩
        intro rec' hrec' hm
        rw [hops] at hrec'
        rcases List.mem_append.mp hrec' with hrec' | hrec'
        · exact absurd (h11.seen rec' hrec' _ hm) hfresh
        · simp at hrec'; subst hrec'
          rcases hch with hc | he
          · rw [hc] at hx
            exact absurd (hi.que x hx).1 hfresh
          · exact ⟨he, hnew.2 hm⟩
      case ret o r => exact absurd hnew (by simp [New11c])
      case cdrop o => exact absurd hnew (by simp [New11c])
  · have hedge' : l.isOpEdge = false := by simpa using hedge
    rcases keep02c_cases hs hedge' with hk | ⟨slots, hsub, hops, hc, -⟩ | ⟨hq, -⟩
    · rcases step_qms11c hs x hx with hold | hnew
      · exact own02c_step (hi.que x hold) hs hg (.inr hk)
      · exact own02c_new hnew h11.seen hs hg hedge'
    · -- the open callback is over abnormally: its own reply slot is cancelled; `x` is still waiting
      rw [hc] at hx
      obtain ⟨h1, h2⟩ := hi.que x hx
      refine ⟨wf_seenM_mono g l _ h1, ?_⟩
      intro rec' hrec' hm
      rw [hops] at hrec'
      obtain ⟨r, hr, rfl⟩ := List.mem_map.mp hrec'
      rw [cancelRec11c_kind] at hm
      obtain ⟨he, hsl⟩ := h2 r hr hm
      obtain ⟨σ1, h01⟩ := h11.c01
      have hn : r.o ∉ slots := fun hin =>
        cur_not_queued02c h01 hi.slotcb hr (hsub _ hin) hm (qms_qmsgs02c hx)
      exact ⟨cancelRec11c_err02c he hn, by rw [cancelRec_o02c]; exact hsl⟩
    · simp [qms11c, hq] at hx

theorem cls02c_keep {s s' : AState} {D : List Nat}
    (hi : ∀ rec ∈ s.ops, ∀ m, callMsg11c rec.kind = some m → m ∈ D → okSt02c rec.st = true)
    (hm : OpsMap s s') :
    ∀ rec ∈ s'.ops, ∀ m, callMsg11c rec.kind = some m → m ∈ D → okSt02c rec.st = true := by
  obtain ⟨f, hf, pf⟩ := hm
  intro rec' hrec' m hk hin
  rw [hf] at hrec'
  obtain ⟨r, hr, rfl⟩ := List.mem_map.mp hrec'
  rw [pf.kind] at hk
  have he := hi r hr m hk hin
  rw [pf.keep r (okSt02c_not_pending he)]; exact he

/-- the clause itself: the normal end of `handle m` answers the reply slot of the call that submitted `m` -/
theorem cls02c_step {w s l s'} {σ : C02cSt} {g : Wf01St} (hi : Inv02c s σ g) (hs : step w s l = some s')
    (hg : wfBad g l = false) :
    ∀ rec ∈ s'.ops, ∀ m, callMsg11c rec.kind = some m → m ∈ (next02c σ l).done → okSt02c rec.st = true := by
  by_cases hend : ∃ m0, l = .cbEnd (.handle m0) true
  · obtain ⟨m0, rfl⟩ := hend
    simp only [step] at hs
    obtain ⟨slot, dl, hp, hops⟩ := stepCbEnd_handle02c hs
    intro rec' hrec' m hk hin
    simp only [next02c] at hin
    rw [hops] at hrec'
    cases slot with
    | none =>
      simp only [answer] at hrec'
      rcases List.mem_cons.mp hin with rfl | hin
      · have := ((hi.cur m none dl hp).2 rec' hrec' hk).2
        simp at this
      · exact hi.cls rec' hrec' m hk hin
    | some o =>
      rw [answer_ops02c] at hrec'
      obtain ⟨r, hr, rfl⟩ := List.mem_map.mp hrec'
      rw [ansRec02c_kind] at hk
      rcases List.mem_cons.mp hin with rfl | hin
      · obtain ⟨he, hsl⟩ := (hi.cur m (some o) dl hp).2 r hr hk
        simp at hsl; subst hsl
        exact ansRec02c_ok s m he
      · have he := hi.cls r hr m hk hin
        rw [ansRec02c_keep s o m0 (okSt02c_not_pending he)]; exact he
  · rw [next02c_done (fun m0 he => hend ⟨m0, he⟩)]
    by_cases hedge : l.isOpEdge = true
    · cases l <;> simp [Label.isOpEdge] at hedge
      case begin o h k =>
        simp only [step] at hs
        obtain ⟨_, st, hops⟩ := stepBegin_ops hs
        intro rec' hrec' m hk hin
        rw [hops] at hrec'
        rcases List.mem_append.mp hrec' with hrec' | hrec'
        · exact hi.cls rec' hrec' m hk hin
        · simp at hrec'; subst hrec'
          exact absurd (hi.dseen m hin) (wfBad_begin_msg11c hg (callMsg11c_msg hk))
      case ret o r =>
        simp only [step] at hs
        obtain ⟨_, _, _, hops, _⟩ := stepRet_ops hs
        intro rec' hrec' m hk hin
        rw [hops] at hrec'
        exact hi.cls rec' (List.mem_filter.mp hrec').1 m hk hin
      case cdrop o =>
        simp only [step] at hs
        have hops := stepCdrop_ops hs
        intro rec' hrec' m hk hin
        rw [hops] at hrec'
        exact hi.cls rec' (List.mem_filter.mp hrec').1 m hk hin
    · exact cls02c_keep hi.cls (step_ops hs (by simpa using hedge))

theorem bad02c_step {s s' : AState} {σ : C02cSt} {g : Wf01St} {l : Label} {w : Wiring} (hi : Inv02c s σ g)
    (hs : step w s l = some s') : bad02c σ l = false := by
  cases l <;> try rfl
  case ret o r =>
    simp only [step] at hs
    obtain ⟨rec, hfind, hexp, -, hro⟩ := stepRet_ops hs
    obtain ⟨hrec, _⟩ := findOp_mem hfind
    obtain ⟨σ', h11, heq⟩ := hi.base
    have htbl := h11.tbl rec hrec
    rw [hro, heq] at htbl
    simp only [bad02c, htbl]
    cases hk : callMsg11c rec.kind with
    | none => rfl
    | some m =>
      simp only
      by_cases hin : m ∈ σ.done
      · have := retExpect_ok02c hk (hi.cls rec hrec m hk hin) hexp
        simp [this]
      · simp [hin]

theorem c02c_step (w : Wiring) {s s' : AState} {σ : C02cSt} {g : Wf01St} {l : Label} (hi : Inv02c s σ g)
    (hs : step w s l = some s') (hg : wfBad g l = false) :
    bad02c σ l = false ∧ Inv02c s' (next02c σ l) (wfNext g l) := by
  refine ⟨bad02c_step hi hs, ?_⟩
  obtain ⟨σ', h11, heq⟩ := hi.base
  exact ⟨⟨_, (c11c_step w h11 hs hg).2, next02c_calls l heq⟩, slotcb02c_step hi hs, dseen02c_step hi hs,
    cur02c_step hi hs hg, que02c_step hi hs hg, cls02c_step hi hs hg⟩

theorem c02c_init (c : MonCtx) : Inv02c (AState.init c.cfg c.h0 c.k0) monC02c.init monWf01.init := by
  refine ⟨⟨_, c11c_init c, rfl⟩, ?_, ?_, ?_, ?_, ?_⟩ <;>
    simp [monC02c, monWf01, AState.init, qms11c, Chan.init]

/-- one-step simulation lifted to runs, with the well-formedness automaton running alongside -/
theorem c02c_run (w : Wiring) :
    ∀ (ls : List Label) (s s' : AState) (σ : C02cSt) (g : Wf01St), Inv02c s σ g → run w s ls = some s' →
      (monWf01.run g ls).isSome = true → (monC02c.run σ ls).isSome = true
  | [], _, _, _, _, _, _, _ => by simp [Mon.run]
  | l :: ls, s, s', σ, g, hi, hr, hwf => by
    simp only [run] at hr
    cases hs : step w s l with
    | none => simp [hs] at hr
    | some s1 =>
      simp only [hs] at hr
      simp only [Mon.run] at hwf ⊢
      have hg : wfBad g l = false := by
        cases hb : wfBad g l
        · rfl
        · simp [monWf01, hb] at hwf
      simp only [monWf01, hg] at hwf
      obtain ⟨hbad, hi1⟩ := c02c_step w hi hs hg
      rw [monC02c_step, hbad]
      exact c02c_run w ls s1 s' _ _ hi1 hr hwf

/-- **C02c (a call whose own message was handled to completion does not return an error).**  In every run of
    the actor model — every wiring, both mailbox kinds, every handle kind, timeouts, restarts, stop requests
    from anywhere, every termination cause — whose trace never re-uses a message number or an operation id
    (`wf01`): once the handler invocation of message `m` has ended normally (`cbEnd (handle m) true`), the
    `call` / `Caller::call` / `try_call` operation that submitted `m` does not return an error. -/
theorem C02c_holds (w : Wiring) (c : MonCtx) (ls : List Label) (s : AState)
    (hr : run w (AState.init c.cfg c.h0 c.k0) ls = some s) (hwf : wf01 ls = true) : monC02c.ok ls = true :=
  c02c_run w ls _ s _ _ (c02c_init c) hr hwf

/-! ### non-vacuity (monitor only; the runs of `Wiring.current` are in `Props/C02CCurrent.lean`) -/

def c02cCfg : Cfg := { cap := none, strat := .only, timeout := none, failOnTimeout := false, stream := false }
def c02cCtx : MonCtx := { cfg := c02cCfg, h0 := 0, k0 := .addr, prompt := true }

/-- two calls; another handle asks the actor to stop while the first call is being handled and the message of
    the second is waiting; both are handled to completion and both callers get their reply; then the actor
    stops -/
def c02cExample : List Label :=
  [ .cbBegin .started, .cbEnd .started true, .mk 0 1 .addr, .begin 0 0 (.call 1), .begin 1 0 (.call 2),
    .cbBegin (.handle 1), .stopReq 1 true, .cbEnd (.handle 1) true,
    .ret 0 (.okReply { m := 1, birth := 0, digest := [1] }), .cbBegin (.handle 2), .cbEnd (.handle 2) true,
    .ret 1 (.okReply { m := 2, birth := 0, digest := [1, 2] }), .tDeq, .cbBegin .stopped, .cbEnd .stopped true,
    .taskDone ]

example : monC02c.ok c02cExample = true := by decide
example : wf01 c02cExample = true := by decide

/-- bad: the message of the second call was handled to completion, yet its caller is told `already_stopped` -/
def c02cBad : List Label := c02cExample.take 11 ++ [ .ret 1 (.err .alreadyStopped) ]
example : monC02c.ok c02cBad = false := by decide
example : wf01 c02cBad = true := by decide
/-- bad: a `Caller::call` whose message was handled to completion returns `canceled` after the actor failed -/
example : monC02c.ok [ .cbBegin .started, .cbEnd .started true, .mk 0 1 .caller, .begin 0 1 (.callw 1),
    .cbBegin (.handle 1), .cbEnd (.handle 1) true, .cancel, .ret 0 (.err .canceled) ] = false := by decide
/-- fine: the invocation did not end normally (it panicked): the caller's error is no violation -/
example : monC02c.ok [ .cbBegin .started, .cbEnd .started true, .begin 0 0 (.call 1), .cbBegin (.handle 1),
    .cbPanic (.handle 1), .ret 0 (.err .canceled) ] = true := by decide
/-- fine: a `send` is not a call -/
example : monC02c.ok [ .cbBegin .started, .cbEnd .started true, .begin 0 0 (.send 1), .cbBegin (.handle 1),
    .cbEnd (.handle 1) true, .ret 0 (.err .send) ] = true := by decide

end Hannibal
