import Hannibal.Generated.SysFacts
/- C11 for today's source: the loop model gives a deadline to handler invocations only, the configured one. -/
namespace Hannibal

/-- the handler timeout is read from the configuration unchanged and guards exactly the payload futures of tasks -/
theorem shape11_current : SysFacts.current.ok11 = true := by decide

end Hannibal
