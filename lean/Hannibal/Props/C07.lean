import Hannibal.Proofs.Timers
import Hannibal.Proofs.Run
import Hannibal.Props.C03
import Hannibal.Monitor.C07
/-
  C07 — restart keeps identity and mailbox and yields a freshly started incarnation
  (strategy and timer clauses: `monC07`; the order clause `monC07o` is trace-checked).

  For every wiring whose `refresh` calls `stopped` before `started` and aborts the timers
  registered so far, every run of the actor model is accepted by `monC07`: with the default
  strategy the same value is restarted, with recreate-from-default a fresh Default value
  receives `started`, a non-restartable spawn never sees a second `started`, and no timer
  registered by a previous incarnation fires (or re-arms) once the new incarnation has started.
-/
namespace Hannibal
open AState

def WellWired07 (w : Wiring) : Prop := w.refreshStopsThenStarts = true ∧ w.refreshResetsTimers = true

instance (w : Wiring) : Decidable (WellWired07 w) := by unfold WellWired07; infer_instance

def inGap : Phase → Bool
  | .unstarted | .rstStopped _ => true
  | _ => false

/-- phase-level part of the coupling -/
structure C07P (c : MonCtx) (s : AState) (σ : C07St) : Prop where
  cfg : s.cfg = c.cfg
  rst : RstOk s
  inc0 : s.phase = .unstarted → σ.inc = 0
  vnew : ∀ f, s.phase = .rstStopped f → σ.vnewSeen = f ∧ (f = true → s.cfg.strat = .recreate)

/-- timer part of the coupling -/
structure C07T (s : AState) (σ : C07St) : Prop where
  old : ∀ t i, lookup t σ.timers = some i → i < σ.inc → ∀ x, s.findTimer t = some x → x.Dead
  gap : inGap s.phase = true → AllDead s

def Label.isTimerFire : Label → Bool
  | .fire _ _ | .timerArm _ _ => true
  | _ => false

/-- the monitor's successor state away from the timer-fire labels (where it may refuse) -/
def next07 (σ : C07St) : Label → C07St
  | .cbBegin .started => { σ with inc := σ.inc + 1, started := false, vnewSeen := false }
  | .cbEnd .started ok => { σ with started := ok }
  | .cbEnd .stopped _ => { σ with vnewSeen := false }
  | .vnew _ => { σ with vnewSeen := true }
  | .ctxTimer t _ _ => { σ with timers := (t, σ.inc) :: σ.timers }
  | _ => σ

set_option maxHeartbeats 2000000 in
/-- phase-level simulation: the monitor accepts every non-timer-fire label and lands in `next07` -/
theorem c07_phase (w : Wiring) (c : MonCtx) {s s' : AState} {σ : C07St} {l : Label}
    (hi : C07P c s σ) (hs : step w s l = some s') (hl : l.isTimerFire = false) :
    (monC07 c).step σ l = some (next07 σ l) ∧ C07P c s' (next07 σ l) ∧
      (inGap s'.phase = true → inGap s.phase = true ∨ ∃ ok, l = .cbEnd .stopped ok) := by
  obtain ⟨hcfg, hrst, hinc, hvn⟩ := hi
  unfold RstOk at hrst
  cases l <;> simp [Label.isTimerFire] at hl <;> unfold_steps hs <;>
    ((repeat' (split at hs)) <;>
     (first
       | (simp at hs; done)
       | (simp at hs; subst hs
          refine ⟨?_, ⟨?_, ?_, ?_, ?_⟩, ?_⟩ <;>
            simp_all [monC07, next07, RstOk, inGap, fail, finish, cancelSlots, killTimers, setTimer, addOp,
              removeOp, removeHandle, push, answer]
          done)
       | (simp at hs; subst hs
          cases hp : s.phase <;>
            (refine ⟨?_, ⟨?_, ?_, ?_, ?_⟩, ?_⟩ <;>
              simp_all [monC07, next07, RstOk, inGap, fail, finish, cancelSlots, killTimers, openCb, curSlot, isDone])
          done)
       | (simp at hs; subst hs
          rename_i fresh _ _
          have hv := hvn _ ‹_›
          by_cases h1 : σ.inc ≥ 1 <;> cases fresh <;> cases hst : c.cfg.strat <;>
            (refine ⟨?_, ⟨?_, ?_, ?_, ?_⟩, ?_⟩ <;> simp_all [monC07, next07, RstOk, inGap])
          done)
       | skip))

end Hannibal

namespace Hannibal
open AState

theorem timerFire_frame {w : Wiring} {s s' : AState} {l : Label} (hs : step w s l = some s')
    (hl : l.isTimerFire = true) : s'.phase = s.phase ∧ s'.cfg = s.cfg := by
  cases l <;> simp [Label.isTimerFire] at hl <;> unfold_steps hs <;>
    ((repeat' (split at hs)) <;>
     (first
       | (simp at hs; done)
       | (simp at hs; subst hs; simp [setTimer, push]; done)))

/-- a dead timer neither fires nor re-arms -/
theorem timerFire_alive {w : Wiring} {s s' : AState} {l : Label} (hs : step w s l = some s') {t : Nat}
    (hl : (∃ m, l = .fire t m) ∨ ∃ due, l = .timerArm t due) :
    ∃ x, s.findTimer t = some x ∧ ¬ x.Dead := by
  rcases hl with ⟨m, rfl⟩ | ⟨due, rfl⟩
  · simp only [step, stepFire] at hs
    cases hf : s.findTimer t with
    | none => simp [hf] at hs
    | some x =>
      refine ⟨x, rfl, ?_⟩
      intro hd
      simp only [hf, timerDue] at hs
      rcases hd with hd | hd | hd <;> simp [hd] at hs
  · simp only [step, stepTimerArm] at hs
    cases hf : s.findTimer t with
    | none => simp [hf] at hs
    | some x =>
      refine ⟨x, rfl, ?_⟩
      intro hd
      simp only [hf] at hs
      rcases hd with hd | hd | hd <;> simp [hd] at hs <;> (split at hs <;> simp at hs)

theorem cbBeginStarted_gap {w : Wiring} {s s' : AState} (hs : step w s (.cbBegin .started) = some s') :
    inGap s.phase = true ∧ s'.timers = s.timers := by
  simp only [step, stepCbBegin] at hs
  cases hp : s.phase <;> simp [hp] at hs
  · subst hs; simp [inGap]
  · obtain ⟨_, rfl⟩ := hs; simp [inGap]

theorem cbEndStopped_gap {w : Wiring} (hw : WellWired07 w) {s s' : AState} {ok : Bool}
    (hs : step w s (.cbEnd .stopped ok) = some s') (hg : inGap s'.phase = true) : AllDead s' := by
  simp only [step, stepCbEnd] at hs
  split at hs
  · simp at hs
  · cases hp : s.phase <;> simp [hp] at hs
    · obtain ⟨_, rfl⟩ := hs
      intro x hx
      have hx' : x ∈ s.killTimers.timers := by simpa [refreshTimers, hw.2] using hx
      exact allDead_killTimers s x hx'
    · obtain ⟨_, rfl⟩ := hs; simp [inGap] at hg

structure C07Inv (c : MonCtx) (s : AState) (σ : C07St) : Prop where
  p : C07P c s σ
  t : C07T s σ

theorem c07_step (w : Wiring) (hw : WellWired07 w) (c : MonCtx) {s s' : AState} {σ : C07St} {l : Label}
    (hi : C07Inv c s σ) (hs : step w s l = some s') :
    ∃ σ', (monC07 c).step σ l = some σ' ∧ C07Inv c s' σ' := by
  by_cases hl : l.isTimerFire = true
  · -- `fire` / `timerArm`: the timer is alive in the model, so it was not registered by an earlier incarnation
    obtain ⟨hph, hcfg⟩ := timerFire_frame hs hl
    have hT : C07T s' σ := by
      refine ⟨?_, ?_⟩
      · intro t i hlk hlt x' hx'
        cases hf : s.findTimer t with
        | none =>
          -- a timer cannot appear out of nothing at a fire/arm label
          exfalso
          have := findTimer_none_mono hs
            (by intro t k d h; rw [h] at hl; simp [Label.isTimerFire] at hl) hf
          rw [this] at hx'; simp at hx'
        | some x => exact dead_mono hs hf (hi.t.old t i hlk hlt x hf) hx'
      · intro hg
        rw [hph] at hg
        exact allDead_step hs (hi.t.gap hg) (by intro t k d h; rw [h] at hl; simp [Label.isTimerFire] at hl)
    have hP : C07P c s' σ := by
      obtain ⟨h1, h2, h3, h4⟩ := hi.p
      refine ⟨by rw [hcfg]; exact h1, ?_, by rw [hph]; exact h3, by rw [hph, hcfg]; exact h4⟩
      unfold RstOk at *; rw [hph, hcfg]; exact h2
    have hacc : (monC07 c).step σ l = some σ := by
      cases l <;> simp [Label.isTimerFire] at hl
      case fire t m =>
        obtain ⟨x, hx, hnd⟩ := timerFire_alive hs (.inl ⟨m, rfl⟩)
        simp only [monC07]
        cases hlk : lookup t σ.timers with
        | none => rfl
        | some i =>
          simp only
          by_cases hc : (decide (i < σ.inc) && σ.started) = true
          · exfalso
            simp at hc
            exact hnd (hi.t.old t i hlk hc.1 x hx)
          · simp [hc]
      case timerArm t due =>
        obtain ⟨x, hx, hnd⟩ := timerFire_alive hs (.inr ⟨due, rfl⟩)
        simp only [monC07]
        cases hlk : lookup t σ.timers with
        | none => rfl
        | some i =>
          simp only
          by_cases hc : (decide (i < σ.inc) && σ.started) = true
          · exfalso
            simp at hc
            exact hnd (hi.t.old t i hlk hc.1 x hx)
          · simp [hc]
    exact ⟨σ, hacc, ⟨hP, hT⟩⟩
  · have hl' : l.isTimerFire = false := by simpa using hl
    obtain ⟨hacc, hP, hgp⟩ := c07_phase w c hi.p hs hl'
    refine ⟨next07 σ l, hacc, ⟨hP, ?_, ?_⟩⟩
    · -- timers of earlier incarnations stay dead
      intro t i hlk hlt x' hx'
      by_cases hst : l = .cbBegin .started
      · subst hst
        obtain ⟨hg, htm⟩ := cbBeginStarted_gap hs
        exact hi.t.gap hg x' (by rw [← htm]; exact (findTimer_mem hx').1)
      · by_cases hct : ∃ t0 k d, l = .ctxTimer t0 k d
        · obtain ⟨t0, k, d, rfl⟩ := hct
          simp only [next07] at hlk hlt
          by_cases hte : t0 = t
          · subst hte; simp [lookup] at hlk; omega
          · simp [lookup, hte] at hlk
            cases hf : s.findTimer t with
            | none =>
              simp only [step, stepCtxTimer] at hs
              split at hs
              · simp at hs; subst hs
                unfold findTimer at hf hx'
                simp [List.find?_append, hf, hte] at hx'
              · simp at hs
            | some x => exact dead_mono hs hf (hi.t.old t i hlk hlt x hf) hx'
        · have hσt : (next07 σ l).timers = σ.timers ∧ (next07 σ l).inc = σ.inc := by
            cases l <;> simp_all [next07]
            all_goals (rename_i cb _; cases cb <;> simp_all)
          rw [hσt.1] at hlk; rw [hσt.2] at hlt
          cases hf : s.findTimer t with
          | none =>
            exfalso
            have := findTimer_none_mono hs (by intro t k d h; exact hct ⟨t, k, d, h⟩) hf
            rw [this] at hx'; simp at hx'
          | some x => exact dead_mono hs hf (hi.t.old t i hlk hlt x hf) hx'
    · intro hg
      rcases hgp hg with hg0 | ⟨ok, rfl⟩
      · by_cases hct : ∃ t0 k d, l = .ctxTimer t0 k d
        · obtain ⟨t0, k, d, rfl⟩ := hct
          exfalso
          simp only [step, stepCtxTimer] at hs
          split at hs
          · rename_i hc
            simp at hc
            have := hc.1
            unfold inCallback at this
            cases hp : s.phase <;> simp_all [inGap]
          · simp at hs
        · exact allDead_step hs (hi.t.gap hg0) (by intro t k d h; exact hct ⟨t, k, d, h⟩)
      · exact cbEndStopped_gap hw hs hg

theorem c07_init (c : MonCtx) : C07Inv c (AState.init c.cfg c.h0 c.k0) (monC07 c).init := by
  refine ⟨⟨rfl, ?_, ?_, ?_⟩, ⟨?_, ?_⟩⟩
  · simp [RstOk, AState.init]
  · intro _; rfl
  · intro f h; simp [AState.init] at h
  · intro t i h; simp [monC07, lookup] at h
  · intro _ x hx; simp [AState.init] at hx

/-- **C07 (strategy and timers).** Every run of the actor model under a wiring whose `refresh`
    stops, aborts the registered timers, then starts, is accepted by `monC07`. -/
theorem C07_holds (w : Wiring) (hw : WellWired07 w) (c : MonCtx) (ls : List Label) (s : AState)
    (hr : run w (AState.init c.cfg c.h0 c.k0) ls = some s) : (monC07 c).ok ls = true :=
  ok_of_run_lift (monC07 c) w (C07Inv c) (fun _ _ _ _ hi hs => c07_step w hw c hi hs) _ (c07_init c) ls s hr

/-- Without the abort in `refresh` the property fails: a timer registered in `started` fires into
    the next incarnation. -/
def c07Witness : List Label :=
  [ .cbBegin .started, .ctxTimer 0 .intervalWith 5, .cbEnd .started true, .timerArm 0 5, .restartReq 0 true,
    .tDeq, .cbBegin .stopped, .cbEnd .stopped true, .cbBegin .started, .cbEnd .started true, .time 5,
    .fire 0 (some 100) ]

def noResetWiring (w : Wiring) : Wiring := { w with refreshResetsTimers := false }

def c07Cfg : Cfg := { cap := none, strat := .only, timeout := none, failOnTimeout := false, stream := false }

example : (monC07 { cfg := c07Cfg, h0 := 0, k0 := .addr, prompt := true }).ok c07Witness = false := by decide


end Hannibal
